#!/bin/bash
# tools/regress_seeded.sh - re-runs every kept seeded change (and the hand-made ones) against the checks recorded for it
cd /verif
for d in seeded/C*-m*/; do tools/recheck_mutant.py $(basename $d) 2>&1 | cut -c1-160; done
tools/selfmut_run.sh 2>&1 | cut -c1-200
tools/mkseeded_index.py | tail -1
git -C /repo status --short | head -3
