#!/bin/bash
# tools/trymutant.sh <patch.diff> <check-id> [<check-id> ...]
# applies a patch to /repo, runs the quick tier of the given checks, and restores /repo.
set -u
patch=$1; shift
cd /repo || exit 2
if ! git diff --quiet; then echo "/repo has uncommitted changes"; exit 2; fi
if ! git apply "$patch"; then echo "patch does not apply"; exit 2; fi
trap 'git -C /repo checkout -- . ; git -C /repo clean -fdq -- . >/dev/null 2>&1' EXIT
cd /verif
for id in "$@"; do
  out=$(bin/check "$id" --tier quick 2>&1); rc=$?
  echo "== $id rc=$rc"
  echo "$out" | grep -E "VIOLATION|key=|tier=|BUILD-FAILED|BROKEN" | cut -c1-240 | head -12
done
