#!/usr/bin/env python3
"""tools/keep_mutant.py <Cxx> <k> [check ids...]
Stores a confirmed seeded change under /verif/seeded/<Cxx>-m<k>/ and records which checks catch it.
Needs the confirmation line from tools/confirm_mutant.sh (run it first)."""
import sys, os, subprocess, json, shutil, re, glob
pid, k = sys.argv[1], sys.argv[2]
checks = sys.argv[3:] or [pid]
out = f"/tmp/mut-{pid}-out"
cached = f"{out}/confirm-m{k}.txt"
if os.path.exists(cached) and open(cached).read().strip():
    conf = open(cached).read().strip().splitlines()[-1]
else:
    conf = subprocess.run(["/verif/tools/confirm_mutant.sh", pid, k], capture_output=True, text=True).stdout.strip().splitlines()[-1]
ok = ("demo-without: ok" in conf) and ("demo-with: FAIL" in conf or "demo-with: ---" in conf or "FAIL" in conf.split("demo-with:")[1].split("|")[0]) and ("suite-with: all ok" in conf) and ("build: ok" in conf)
print(conf)
if not ok:
    print("NOT CONFIRMED - not kept"); sys.exit(1)
dst = f"/verif/seeded/{pid}-m{k}"
os.makedirs(dst, exist_ok=True)
shutil.copy(f"{out}/m{k}.diff", f"{dst}/patch.diff")
for f in glob.glob(f"{out}/m{k}_demo*"):
    if os.path.isdir(f):
        shutil.copytree(f, f"{dst}/"+os.path.basename(f), dirs_exist_ok=True)
    else:
        shutil.copy(f, dst)
if os.path.exists(f"{out}/m{k}.md"):
    shutil.copy(f"{out}/m{k}.md", f"{dst}/notes.md")
results = {}
for c in checks:
    r = subprocess.run(["/verif/tools/trymutant.sh", f"{dst}/patch.diff", c], capture_output=True, text=True).stdout
    rc = re.search(r"rc=(\d+)", r)
    keys = re.findall(r"key=(\S+)", r)
    results[c] = {"exit": int(rc.group(1)) if rc else None, "violation_keys": keys[:8]}
    print(c, results[c])
notes = open(f"{dst}/notes.md").read() if os.path.exists(f"{dst}/notes.md") else ""
meta = {
 "property": pid,
 "id": f"{pid}-m{k}",
 "source": "independent sub-agent given only the property text and a scratch worktree",
 "needs_to_manifest": (re.search(r"(?is)(needs?|trigger|manifest)[^\n]*\n?(.{0,600})", notes).group(0)[:700] if re.search(r"(?is)(needs?|trigger|manifest)", notes) else "see notes.md"),
 "confirmed": {"command": f"tools/confirm_mutant.sh {pid} {k}", "result": conf},
 "checks_run": {c: {"command": f"tools/trymutant.sh seeded/{pid}-m{k}/patch.diff {c}", **v} for c, v in results.items()},
 "caught_by": [c for c, v in results.items() if v["exit"] == 1],
}
json.dump(meta, open(f"{dst}/meta.json", "w"), indent=1)
print("kept", dst, "caught_by", meta["caught_by"])
