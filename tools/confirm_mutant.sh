#!/bin/bash
# tools/confirm_mutant.sh <Cxx> <k>  - confirms a delivered mutant in its scratch worktree:
# demo passes without the change, fails with it; the library builds and the existing suite passes with it.
export GOFLAGS=-mod=mod GOPROXY=off GOSUMDB=off GOTOOLCHAIN=local
id=$1; k=$2; wt=/tmp/mut-$id; out=/tmp/mut-$id-out
cd $wt || exit 2
git checkout -q -- . ; git clean -fdq
demo=$(ls $out/m${k}_demo_test.go 2>/dev/null)
[ -z "$demo" ] && { echo "$id m$k: no demo test file"; ls $out; exit 2; }
# placement: first path-looking token in the header comment that names a package dir
pkgline=$(grep -m1 '^package ' $demo | awk '{print $2}')
dir=${pkgline%_test}
cp $demo $wt/$dir/zz_m${k}_demo_test.go
run=$(grep -m1 -oE 'Test[A-Za-z0-9_]+' $demo | head -1)
pat=$(grep -oE '^func (Test[A-Za-z0-9_]+)' $demo | awk '{print $2}' | paste -sd'|')
r0=$(go1.26.8 test $RACEFLAG -vet=off -count=1 -run "^($pat)\$" ./$dir/ 2>&1 | tail -3 | tr '\n' ' ')
git apply $out/m$k.diff || { echo "$id m$k: patch does not apply"; exit 2; }
b=$(go1.26.8 build $(go1.26.8 list ./... | grep -v cmd/gmrtd-reader) 2>&1 | tail -2 | tr '\n' ' ')
r1=$(go1.26.8 test $RACEFLAG -vet=off -count=1 -run "^($pat)\$" ./$dir/ 2>&1 | tail -3 | tr '\n' ' ')
rm -f $wt/$dir/zz_m${k}_demo_test.go
suite=$(go1.26.8 test -vet=off -count=1 $(go1.26.8 list ./... | grep -v cmd/gmrtd-reader) 2>&1 | grep -v "^ok\|no test files" | tail -5 | tr '\n' ' ')
git checkout -q -- . ; git clean -fdq
echo "$id m$k dir=$dir | demo-without: ${r0:0:90} | build: ${b:-ok} | demo-with: ${r1:0:110} | suite-with: ${suite:-all ok}"
