#!/bin/bash
# tools/sweep.sh [tier]  - runs every registered check once on the current tree and prints one line per check
tier=${1:-quick}
cd /verif
if ! git -C /repo diff --quiet; then echo "/repo has uncommitted changes"; exit 2; fi
fail=0
for c in $(python3 -c "import json;print(' '.join(x['property_id'] for x in json.load(open('MANIFEST.json'))['checks']))"); do
  s=$(date +%s); out=$(bin/check $c --tier $tier 2>&1); rc=$?
  line=$(echo "$out" | grep -E "tier=$tier" | head -1)
  echo "$c rc=$rc $(( $(date +%s)-s ))s ${line:0:150}"
  [ $rc -ne 0 ] && { fail=1; echo "$out" | grep -E "VIOLATION|BROKEN|key=" | head -5; }
done
tools/validate.sh | tail -1
exit $fail
