#!/usr/bin/env python3
"""tools/mkmutprompts.py <k1> <k2> [ids...] - writes /tmp/mutant-prompt-<id>.txt for a further round of seeded changes
(numbered m<k1>, m<k2>) from tools/mutant-prompt.template; the prompt carries only the property's text (statement,
quantifier, anchored mechanisms) and one line per change that already exists so that the new ones differ."""
import json, sys, glob, os, re
k1, k2 = sys.argv[1], sys.argv[2]
ids = sys.argv[3:]
tpl = open('/verif/tools/mutant-prompt.template').read()
for l in open('/verif/properties.jsonl'):
    d = json.loads(l)
    if ids and d['id'] not in ids: continue
    prop = f"PROPERTY {d['id']} - {d['title']}\n\nStatement: {d['statement']}\n\nQuantifier (inputs): {d['quantifier']['text']}\n\nWhere the library implements this (files): {', '.join(d['anchors']['files'])}\nMechanisms involved:\n" + "\n".join(f"  - {m['name']} ({m['where']})" for m in d['anchors']['mechanism'])
    taken = []
    for m in sorted(glob.glob(f"/verif/seeded/{d['id']}-m*/notes.md")):
        first = next((x.strip('# ').strip() for x in open(m) if x.strip()), '')
        taken.append("  - " + first[:200])
    if taken:
        prop += "\n\nChanges that ALREADY EXIST from an earlier round (yours must be in different functions and exploit different mechanisms than these):\n" + "\n".join(taken)
    s = tpl.replace('@PROPERTY@', prop).replace('@ID@', d['id'])
    s = s.replace('for k in {1,2}', f'for k in {{{k1},{k2}}}').replace('produce TWO different', 'produce TWO NEW different')
    s = re.sub(r'm<k>', 'm<k>', s)
    open(f"/tmp/mutant-prompt-{d['id']}.txt", 'w').write(s)
    print(d['id'], len(s))
