#!/usr/bin/env python3
"""Writes /verif/seeded/INDEX.md from the meta.json files (which checks catch which seeded change)."""
import json, glob, os
rows = []
for f in sorted(glob.glob('/verif/seeded/*/meta.json')):
    m = json.load(open(f))
    d = os.path.dirname(f)
    notes = open(d + '/notes.md').read() if os.path.exists(d + '/notes.md') else ''
    first = ''
    for line in notes.splitlines():
        line = line.strip().lstrip('#').strip()
        if len(line) > 25:
            first = line[:150]
            break
    keys = []
    for c, v in m['checks_run'].items():
        keys += [c + ':' + k for k in v.get('violation_keys', [])[:2]]
    rows.append((m['id'], m['property'], first.replace('|', '/'), ', '.join(m['caught_by']) or 'NOT CAUGHT', '; '.join(keys)[:170]))
out = ['# Seeded changes (independent sub-agents; see each directory for patch.diff, demonstration, notes.md, meta.json)', '',
       '| id | property | change (first line of the author\'s note) | caught by | violation keys (first) |', '|---|---|---|---|---|']
for r in rows:
    out.append('| %s | %s | %s | %s | %s |' % r)
out.append('')
out.append('%d seeded changes, %d caught by the quick tier of the listed checks.' % (len(rows), sum(1 for r in rows if r[3] != 'NOT CAUGHT')))
open('/verif/seeded/INDEX.md', 'w').write('\n'.join(out) + '\n')
print(out[-1])
