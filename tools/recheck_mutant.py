#!/usr/bin/env python3
"""tools/recheck_mutant.py <Cxx-mk> [check ids...] - re-runs the quick tier of the given checks (default: those recorded,
else the property's own) against a kept seeded change and updates its meta.json (checks_run, caught_by)."""
import sys, json, subprocess, re
mid = sys.argv[1]
dst = f"/verif/seeded/{mid}"
meta = json.load(open(f"{dst}/meta.json"))
checks = sys.argv[2:] or list(meta.get("checks_run", {}).keys()) or [meta["property"]]
for c in checks:
    r = subprocess.run(["/verif/tools/trymutant.sh", f"{dst}/patch.diff", c], capture_output=True, text=True).stdout
    rc = re.search(r"rc=(\d+)", r)
    keys = re.findall(r"key=(\S+)", r)
    meta.setdefault("checks_run", {})[c] = {"command": f"tools/trymutant.sh seeded/{mid}/patch.diff {c}", "exit": int(rc.group(1)) if rc else None, "violation_keys": keys[:8]}
    print(mid, c, meta["checks_run"][c]["exit"], keys[:3])
meta["caught_by"] = [c for c, v in meta["checks_run"].items() if v["exit"] == 1]
json.dump(meta, open(f"{dst}/meta.json", "w"), indent=1)
