#!/usr/bin/env python3
"""Regenerates /verif/MANIFEST.json from the table below and the list of monitors
that are actually registered in the harness (harness/checks/cNN.go)."""
import json, os, re, glob

V = "/verif"
built = sorted(re.search(r"c(\d+)\.go$", p).group(1) for p in glob.glob(V + "/harness/checks/c[0-9][0-9].go"))
built = {"C" + b for b in built}

T = {
 "C01": ("exploration", "differential reference monitor: independent issuer + reference PA verifier over byte sweeps and semantic forgeries of generated documents (oracle: library accepts => reference conditions hold)", "5/C01"),
 "C02": ("exploration", "exhaustive enumeration of the Session outcome product (part A, exhaustive) plus hostile-chip end-to-end reads judged against the simulated chip's ground truth", "5/C02"),
 "C03": ("exploration", "shadow-chip monitor: independent secure-messaging implementation produces genuine responses; every mutated/replayed/cross-session variant given to SecureMessaging.Decode / NfcSession.DoAPDU must be rejected or decode to the genuine plaintext and status", "5/C03"),
 "C04": ("exploration", "active counterpart monitor: independent PACE chip (all 11 curves x 4 suites x GM/CAM) records its own truth (keys, SSC, completion); oracle compares with DoPACE results; fail-closed deviations per message", "5/C04"),
 "C05": ("exploration", "active counterpart monitor: independent BAC chip personalised from MRZ fields by its own key derivation; oracle compares keys/SSC and requires failure + no SM for hostile cryptograms", "5/C05"),
 "C06": ("exploration", "active counterpart monitor: chip with/without the certified CA private key, all curves/suites/key-id arrangements, impostor strategies; oracle = chip truth vs reported ChipAuthResult / PaceCamResult", "5/C06"),
 "C07": ("exploration", "differential reference monitor: independent ISO 9796-2 / ECDSA signer and integer-valued reference verifier over genuine and mutated AA responses; wire-level challenge recording", "5/C07"),
 "C08": ("exploration", "end-to-end monitor: generated chip personalisations read through reader.ReadDocument; oracle compares every returned file and step outcome with the simulated chip's files and truth", "5/C08"),
 "C09": ("exploration", "completeness monitor: independently issued security objects over the algorithm-profile matrix must be accepted by passiveauth.PassiveAuth", "5/C09"),
 "C10": ("exploration", "chip-side monitor: every APDU reaching the transceiver during an SM session is parsed, authenticated and decrypted by the independent chip implementation and compared with the intended command; counters compared after every exchange", "5/C10"),
 "C11": ("fault_enumeration", "exhaustive single-fault injection at the transceiver (every exchange index x every fault kind) plus random multi-fault sequences; oracle = chip truth, byte-identity of returned files, reference PA", "5/C11"),
 "C12": ("exploration", "crash/resource meter: each entry point fed random, mutated and adversarial inputs in isolated worker processes (input logged before the call); monitors panic, allocation and CPU time", "5/C12"),
 "C13": ("exploration", "active counterpart monitor: simulated file system with configurable chunking/caps (P1 bit 8 = SFI semantics); oracle compares NfcSession.ReadFile result with the stored object and counts READ BINARYs", "5/C13"),
 "C14": ("exploration", "live-vs-offline differential monitor over genuine simulated sessions, plus single-field evidence mutations re-serialised through the public structs", "5/C14"),
 "C15": ("exploration", "round-trip and corruption monitor: export/import of generated documents, exhaustive single-byte substitution on small blobs, truncation/extension, envelope rewriting", "5/C15"),
 "C16": ("exploration", "differential reference monitor: grammar-generated BER inputs decoded by tlv.Decode and by an independent lenient BER reader with byte accounting; canonical re-encoding checked for idempotence", "5/C16"),
 "C17": ("exploration", "differential reference monitor: CApdu.Encode output parsed by an independent strict ISO 7816-4 parser over exhaustively enumerated length bands; ParseRApdu split/re-encode oracle", "5/C17"),
 "C18": ("exploration", "differential reference monitor: independent MRZ generator and 7-3-1 check-digit reference; exhaustive single-character substitution of generated zones; key-seed route agreement", "5/C18"),
 "C19": ("exploration", "differential reference monitor: generated LDS files with constructively known expected views compared with the constructors' parsed views; cross-type pairing; aliasing and determinism probes", "5/C19"),
 "C20": ("exploration", "Go race detector over shared-object stress workloads plus recorded call/return histories checked for linearizability (porcupine) against a sequential configuration model; load-once counters via verif hooks", "5/C20"),
}

NOTES = {
 "C17": "trusted base: the harness's ISO 7816-4 command parser (chipsim/apdu.go); thorough tier enumerates the length bands exhaustively, contents sampled",
}

checks, na = [], []
for pid in sorted(T):
    lvl, text, ref = T[pid]
    if pid not in built:
        na.append({"property_id": pid, "reason": "monitor not built yet in this tree (planned, see DESIGN.md section " + ref + "); not claimed until its check is registered"})
        continue
    checks.append({
        "property_id": pid,
        "quick_cmd": "bin/check %s --tier quick" % pid,
        "thorough_cmd": "bin/check %s --tier thorough" % pid,
        "evidence_file": "/verif/evidence/%s.json" % pid,
        "replay_cmd_template": "bin/check %s --replay {path}" % pid,
        "engine": "verifcheck",
        "level_claimed": {"category": lvl, "text": text + ". Held-on-what-was-observed only: the evidence file states the measured numbers of executions, distinct non-trivial cases and observation counters.", "design_ref": "DESIGN.md section " + ref},
        "level_note": NOTES.get(pid, "trusted base: Go standard library crypto/math, the harness's independent reference components (see DESIGN.md section 3); cryptographic hardness assumed; sampled, not proved"),
        "technique": "runtime monitoring: " + text.split(":")[0],
    })

hooks_commits = []
hp = V + "/hooks_commits.txt"
if os.path.exists(hp):
    hooks_commits = [l.split()[0] for l in open(hp) if l.strip()]

m = {
 "version": 1,
 "setup_cmd": "bin/setup",
 "hooks": {
  "guard": "verif",
  "enable": "go1.26.8 build -tags verif (bin/check builds the harness against /repo's working tree with this tag)",
  "baseline_off_cmd": "cd /repo && GOFLAGS=-mod=mod GOPROXY=off GOSUMDB=off GOTOOLCHAIN=local go1.26.8 test -json -vet=off -count=1 -timeout 25m ./...",
  "source_commits": hooks_commits,
  "add_only": True,
 },
 "engines": [
  {"name": "verifcheck", "path": "harness/", "serves_properties": sorted(built), "kind_free_text": "Go harness: sharded deterministic case runner (fw), independent chip simulator, issuer/reference verifiers, mutators; one monitor per property under harness/checks"},
 ],
 "checks": checks,
 "not_applicable": na,
 "notes": "Every check rebuilds harness+/repo (tag verif) via bin/check. VERIF_SEED/VERIF_TIER honoured. Known findings in known_findings.json.",
}
json.dump(m, open(V + "/MANIFEST.json", "w"), indent=1)
print("checks:", [c["property_id"] for c in checks], "na:", len(na))
