#!/usr/bin/env python3
"""Runs the repository's suite with the verif guard OFF and compares with BASELINE.json stable_pass."""
import json, subprocess, os
env = dict(os.environ, GOFLAGS='-mod=mod', GOPROXY='off', GOSUMDB='off', GOTOOLCHAIN='local')
p = subprocess.run('cd /repo && go1.26.8 test -json -vet=off -count=1 -timeout 25m ./...', shell=True, capture_output=True, text=True, env=env)
res = {}
for line in p.stdout.splitlines():
    try:
        e = json.loads(line)
    except Exception:
        continue
    if e.get('Test') and e.get('Action') in ('pass', 'fail', 'skip'):
        res[e['Package'] + '::' + e['Test']] = e['Action']
base = json.load(open('/root/.vp/BASELINE.json'))['stable_pass']
missing = [t for t in base if res.get(t) != 'pass']
print('baseline stable_pass:', len(base), 'passing now:', sum(1 for t in base if res.get(t) == 'pass'), 'not passing:', len(missing))
for t in missing[:20]:
    print('  ', t, res.get(t))
extra_fail = [t for t, a in res.items() if a == 'fail']
print('failing tests overall:', len(extra_fail), extra_fail[:10])
