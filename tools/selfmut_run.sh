#!/bin/bash
# tools/selfmut_run.sh  - applies every hand-made break in seeded/self/ to /repo in turn, runs the quick tier of
# the property's check (file name prefix cNN), restores /repo, and writes seeded/self/results.txt
cd /verif
out=seeded/self/results.txt; : > $out
for p in seeded/self/*.diff; do
  n=$(basename $p .diff); id=$(echo ${n:0:3} | tr c C)
  r=$(tools/trymutant.sh /verif/$p $id 2>&1 | grep -E "^== |key=" | head -2 | tr '\n' ' ' | cut -c1-230)
  echo "$n => $r" | tee -a $out
done
git -C /repo status --short | head -3
