#!/bin/bash
# tools/thorough-all.sh - runs the thorough tier of every registered check once (cheapest first), one line per check
cd "$(dirname "$0")/.."
for c in C16 C06 C18 C19 C05 C13 C10 C08 C02 C04 C11 C15 C03 C01 C09 C20 C17 C07 C14 C12; do
  s=$(date +%s); out=$(bin/check $c --tier thorough 2>&1); rc=$?
  echo "== $c rc=$rc $(( $(date +%s)-s ))s"; echo "$out" | grep -E "VIOLATION|key=|tier=|BROKEN|INCONCLUSIVE|KNOWN|HARNESS" | cut -c1-220 | head -12
done
