#!/bin/bash
# tools/thorough-all.sh - runs the thorough tier of every registered check once (cheapest first), one line per check
cd "$(dirname "$0")/.."
for c in C05 C16 C18 C19 C10 C13 C06 C20 C08 C04 C02 C17 C03 C15 C09 C07 C14 C11 C01 C12; do
  s=$(date +%s); out=$(bin/check $c --tier thorough 2>&1); rc=$?
  echo "== $c rc=$rc $(( $(date +%s)-s ))s"; echo "$out" | grep -E "VIOLATION|key=|tier=|BROKEN|INCONCLUSIVE|KNOWN|HARNESS" | cut -c1-220 | head -12
done
