package refverify

import (
	"bytes"
	"errors"
	"fmt"
	"math/big"
	"strings"
	"time"

	"verifharness/der"
	"verifharness/issuer"
	"verifharness/refber"
)

// ---------------------------------------------------------------------------------------
// certificates

type Cert struct {
	Raw        []byte
	TBS        []byte // DER bytes of the TBSCertificate as present
	SigAlgOID  []byte
	Sig        []byte
	IssuerRaw  []byte
	IssuerCC   string
	SubjectRaw []byte
	Serial     *big.Int
	NotBefore  time.Time
	NotAfter   time.Time
	HaveTimes  bool
	SPKI       []byte
	SKI        []byte
	AKI        []byte
	KeyUsage   []byte // bit string content (unused-bits octet + bits); nil when absent
	HasBC      bool
	IsCA       bool
}

var (
	oidCountry = der.OIDBytes(2, 5, 4, 6)
	oidSKI     = der.OIDBytes(2, 5, 29, 14)
	oidAKI     = der.OIDBytes(2, 5, 29, 35)
	oidKU      = der.OIDBytes(2, 5, 29, 15)
	oidBC      = der.OIDBytes(2, 5, 29, 19)
)

func parseTime(n el) (time.Time, bool) {
	if n.cons {
		return time.Time{}, false
	}
	s := string(n.val)
	switch n.tag {
	case 0x17:
		for _, layout := range []string{"060102150405Z", "0601021504Z"} {
			if t, err := time.Parse(layout, s); err == nil {
				if t.Year() >= 2050 {
					t = t.AddDate(-100, 0, 0)
				}
				return t, true
			}
		}
	case 0x18:
		for _, layout := range []string{"20060102150405Z", "20060102150405.999999999Z"} {
			if t, err := time.Parse(layout, s); err == nil {
				return t, true
			}
		}
	}
	return time.Time{}, false
}

func nameCountry(name el) string {
	for _, rdn := range kids(name.val) {
		for _, atv := range kids(rdn.val) {
			f := kids(atv.val)
			if len(f) >= 2 && f[0].tag == 0x06 && bytes.Equal(f[0].val, oidCountry) {
				return string(f[1].val)
			}
		}
	}
	return ""
}

func elInt(e el) (*big.Int, bool) {
	if e.tag != 0x02 || e.cons || len(e.val) == 0 || e.val[0]&0x80 != 0 {
		return nil, false
	}
	return new(big.Int).SetBytes(e.val), true
}

// fieldsGo reads the fields of a SEQUENCE the way Go's encoding/asn1 walks a struct:
// for an EXPLICIT wrapper the extent of the field is decided by the inner element.
func fieldsGo(val []byte, explicit func(tag uint32) bool) []el {
	var out []el
	for len(val) > 0 {
		h, err := refber.ReadHeader(val, 0, len(val))
		if err != nil {
			break
		}
		if explicit != nil && explicit(h.Tag) && !h.Indefinite && h.Len > 0 {
			inner, _, err := next(val[h.HdrLen:])
			if err != nil {
				break
			}
			out = append(out, el{tag: h.Tag, cons: true, full: val[:h.HdrLen+len(inner.full)], val: inner.full})
			val = val[h.HdrLen+len(inner.full):]
			continue
		}
		e, rest, err := next(val)
		if err != nil {
			break
		}
		out = append(out, e)
		val = rest
	}
	return out
}

// ParseCert reads the fields the passive-authentication conditions need.
func ParseCert(raw []byte) (*Cert, error) {
	root, _, err := next(raw)
	if err != nil || root.tag != 0x30 {
		return nil, errors.New("cert: outer structure")
	}
	top := kids(root.val)
	if len(top) < 3 {
		return nil, errors.New("cert: outer structure")
	}
	tbs, alg, sig := top[0], top[1], top[2]
	algF := kids(alg.val)
	if tbs.tag != 0x30 || alg.tag != 0x30 || len(algF) < 1 || sig.tag != 0x03 || len(sig.val) < 1 {
		return nil, errors.New("cert: parts")
	}
	c := &Cert{Raw: raw, TBS: tbs.full, SigAlgOID: algF[0].val, Sig: sig.val[1:]}
	f := fieldsGo(tbs.val, func(t uint32) bool { return t == 0xA0 || t == 0xA3 })
	i := 0
	if i < len(f) && f[i].tag == 0xA0 {
		i++
	}
	if i+6 > len(f) {
		return nil, errors.New("cert: tbs fields")
	}
	if f[i].tag == 0x02 {
		c.Serial = new(big.Int).SetBytes(f[i].val)
	}
	issuer, validity, subject, spki := f[i+2], f[i+3], f[i+4], f[i+5]
	c.IssuerRaw, c.SubjectRaw, c.SPKI = issuer.full, subject.full, spki.full
	c.IssuerCC = nameCountry(issuer)
	if v := kids(validity.val); len(v) >= 2 {
		nb, ok1 := parseTime(v[0])
		na, ok2 := parseTime(v[1])
		if ok1 && ok2 {
			c.NotBefore, c.NotAfter, c.HaveTimes = nb, na, true
		}
	}
	for _, x := range f[i+6:] {
		if x.tag != 0xA3 {
			continue
		}
		seq, _, err := next(x.val)
		if err != nil {
			continue
		}
		for _, e := range kids(seq.val) {
			ef := kids(e.val)
			if len(ef) < 2 || ef[0].tag != 0x06 {
				continue
			}
			// the library reads extnValue as a raw value (any tag); so does the reference
			val := ef[len(ef)-1]
			inner, _, err := next(val.val)
			if err != nil {
				continue
			}
			oid := ef[0].val
			switch {
			case bytes.Equal(oid, oidSKI) && inner.tag == 0x04 && c.SKI == nil:
				c.SKI = inner.val
			case bytes.Equal(oid, oidAKI) && inner.tag == 0x30 && c.AKI == nil:
				for _, a := range kids(inner.val) {
					if a.tag == 0x80 && c.AKI == nil {
						c.AKI = a.val
					}
				}
			case bytes.Equal(oid, oidKU) && inner.tag == 0x03 && c.KeyUsage == nil:
				c.KeyUsage = inner.val
			case bytes.Equal(oid, oidBC) && inner.tag == 0x30 && !c.HasBC:
				c.HasBC = true
				if a := kids(inner.val); len(a) > 0 && a[0].tag == 0x01 && len(a[0].val) == 1 && a[0].val[0] != 0 {
					c.IsCA = true
				}
			}
		}
	}
	return c, nil
}

func (c *Cert) kuBit(bit int) bool {
	if len(c.KeyUsage) < 2 {
		return false
	}
	idx := 1 + bit/8
	if idx >= len(c.KeyUsage) {
		return false
	}
	return c.KeyUsage[idx]&(0x80>>uint(bit%8)) != 0
}

// ---------------------------------------------------------------------------------------
// signatures

var (
	oidPSS     = der.OIDBytes(1, 2, 840, 113549, 1, 1, 10)
	oidRSAPref = der.OIDBytes(1, 2, 840, 113549, 1, 1)
	oidECDSA   = der.OIDBytes(1, 2, 840, 10045, 4)
)

// VerifyAny reports whether sig is a valid signature over msg under key for the scheme
// family named by sigAlg, with ANY of the five supported digests (a deliberately lenient
// reading: the statement only requires that the signature verifies under the key).
func VerifyAny(key *PubKey, sigAlg []byte, msg, sig []byte) bool {
	for _, h := range issuer.AllHashes {
		d := h.Sum(msg)
		switch {
		case key.RSA != nil && bytes.Equal(sigAlg, oidPSS):
			if key.RSA.VerifyPSS(h, d, sig) {
				return true
			}
		case key.RSA != nil && bytes.HasPrefix(sigAlg, oidRSAPref):
			if key.RSA.VerifyPKCS1(h, d, sig) {
				return true
			}
		case key.Curve != nil && bytes.HasPrefix(sigAlg, oidECDSA):
			n, _, err := next(sig)
			if err != nil || n.tag != 0x30 {
				return false
			}
			rs := kids(n.val)
			if len(rs) < 2 {
				return false
			}
			r, ok1 := elInt(rs[0])
			s, ok2 := elInt(rs[1])
			if ok1 && ok2 && key.Curve.Verify(key.Q, d, r, s) {
				return true
			}
		}
	}
	return false
}

// ---------------------------------------------------------------------------------------
// CMS

type SignerInfo struct {
	SIDRaw      []byte
	DigestOID   []byte
	AttrsSets   [][]byte // candidate DER SET OF encodings of the signed attributes
	SigAlgOID   []byte
	Sig         []byte
	MessageDig  []byte
	ContentType []byte
	SigningTime *time.Time
	HasAttrs    bool
}

type SignedData struct {
	EContentType []byte
	EContent     []byte
	Certs        []*Cert
	Signers      []SignerInfo
}

var (
	oidSignedData = der.OIDBytes(1, 2, 840, 113549, 1, 7, 2)
	oidAttrCT     = der.OIDBytes(1, 2, 840, 113549, 1, 9, 3)
	oidAttrMD     = der.OIDBytes(1, 2, 840, 113549, 1, 9, 4)
	oidAttrST     = der.OIDBytes(1, 2, 840, 113549, 1, 9, 5)
)

func octets(n el) []byte {
	if !n.cons {
		return n.val
	}
	var out []byte
	for _, c := range kids(n.val) {
		out = append(out, octets(c)...)
	}
	return out
}

// ParseSignedData reads a ContentInfo holding SignedData (BER allowed).
func ParseSignedData(raw []byte) (*SignedData, error) {
	root, _, err := next(raw)
	if err != nil || root.tag != 0x30 {
		return nil, errors.New("cms: ContentInfo")
	}
	ci := kids(root.val)
	if len(ci) < 2 || !bytes.Equal(ci[0].val, oidSignedData) || ci[1].tag != 0xA0 {
		return nil, errors.New("cms: ContentInfo")
	}
	sd, _, err := next(ci[1].val)
	if err != nil || sd.tag != 0x30 {
		return nil, errors.New("cms: SignedData")
	}
	f := kids(sd.val)
	if len(f) < 4 {
		return nil, errors.New("cms: SignedData fields")
	}
	out := &SignedData{}
	encap := f[2]
	ef := fieldsGo(encap.val, func(t uint32) bool { return t == 0xA0 })
	if encap.tag != 0x30 || len(ef) < 1 {
		return nil, errors.New("cms: encapContentInfo")
	}
	out.EContentType = ef[0].val
	// the fields after encapContentInfo follow the extent Go's asn1 gives it
	rest := f[3:]
	if len(ef) > 1 && ef[1].tag == 0xA0 {
		if inner, _, err := next(ef[1].val); err == nil {
			out.EContent = octets(inner)
		}
	}
	for _, ch := range rest {
		switch ch.tag {
		case 0xA0:
			for _, cn := range kids(ch.val) {
				b := cn.full
				if n, err := refber.ParseOne(cn.full); err == nil && (n.Indefinite || hasIndefinite(n)) {
					b = n.Encode()
				}
				if c, err := ParseCert(b); err == nil {
					out.Certs = append(out.Certs, c)
				}
			}
		case 0x31:
			for _, si := range kids(ch.val) {
				if s, ok := parseSignerInfo(si); ok {
					out.Signers = append(out.Signers, s)
				}
			}
		}
	}
	return out, nil
}

func hasIndefinite(n *refber.Node) bool {
	for _, c := range n.Children {
		if c.Indefinite || hasIndefinite(c) {
			return true
		}
	}
	return false
}

func canonical(e el) []byte {
	if n, err := refber.ParseOne(e.full); err == nil {
		return n.Encode()
	}
	return e.full
}

func parseSignerInfo(si el) (SignerInfo, bool) {
	var s SignerInfo
	f := kids(si.val)
	if si.tag != 0x30 || len(f) < 5 {
		return s, false
	}
	s.SIDRaw = f[1].full
	df := kids(f[2].val)
	if f[2].tag != 0x30 || len(df) < 1 {
		return s, false
	}
	s.DigestOID = df[0].val
	i := 3
	if f[i].tag == 0xA0 {
		s.HasAttrs = true
		var asIs, canon []byte
		attrs := kids(f[i].val)
		for _, a := range attrs {
			asIs = append(asIs, a.full...)
			canon = append(canon, canonical(a)...)
		}
		s.AttrsSets = [][]byte{der.T(0x31, asIs)}
		if !bytes.Equal(asIs, canon) {
			s.AttrsSets = append(s.AttrsSets, der.T(0x31, canon))
		}
		for _, a := range attrs {
			af := kids(a.val)
			if len(af) < 2 || af[0].tag != 0x06 {
				continue
			}
			vs := kids(af[1].val)
			if len(vs) < 1 {
				continue
			}
			v := vs[0]
			switch {
			case bytes.Equal(af[0].val, oidAttrMD) && s.MessageDig == nil:
				s.MessageDig = octets(v)
			case bytes.Equal(af[0].val, oidAttrCT) && s.ContentType == nil:
				s.ContentType = v.val
			case bytes.Equal(af[0].val, oidAttrST) && s.SigningTime == nil:
				if t, ok := parseTime(v); ok {
					s.SigningTime = &t
				}
			}
		}
		i++
	}
	if i+1 >= len(f) {
		return s, false
	}
	sf := kids(f[i].val)
	if f[i].tag != 0x30 || len(sf) < 1 {
		return s, false
	}
	s.SigAlgOID = sf[0].val
	s.Sig = octets(f[i+1])
	return s, true
}

func hashByOID(oid []byte) (issuer.HashAlg, bool) {
	for _, h := range issuer.AllHashes {
		if bytes.Equal(der.OIDBytes(h.OIDArcs()...), oid) {
			return h, true
		}
	}
	return 0, false
}

// ChainOK implements the statement's signature-and-chain condition for one SignedData
// against a trust store restricted to one country: some SignerInfo and some embedded
// certificate D such that (1) D's key verifies the signature over the signed attributes,
// (2) messageDigest = H(eContent), (3) D asserts digitalSignature, (4) some store
// certificate T of that country with SKI(T) = AKI(D), CA:TRUE and keyCertSign verifies D,
// (5) D and T are valid at the signing time when the attribute is present.
func ChainOK(sd *SignedData, store []*Cert, country string) (bool, string) {
	why := "no signer info"
	for _, si := range sd.Signers {
		if !si.HasAttrs || si.MessageDig == nil {
			why = "no signed attributes / messageDigest"
			continue
		}
		h, ok := hashByOID(si.DigestOID)
		if !ok {
			why = "unknown digest algorithm"
			continue
		}
		if !bytes.Equal(h.Sum(sd.EContent), si.MessageDig) {
			why = "messageDigest differs from the digest of the content"
			continue
		}
		for _, d := range sd.Certs {
			key, err := ParseSPKI(d.SPKI)
			if err != nil {
				why = "DS key unreadable"
				continue
			}
			sigOK := false
			for _, set := range si.AttrsSets {
				if VerifyAny(key, si.SigAlgOID, set, si.Sig) {
					sigOK = true
				}
			}
			if !sigOK {
				why = "signature over the signed attributes does not verify under an embedded certificate"
				continue
			}
			if !d.kuBit(0) {
				why = "DS certificate lacks digitalSignature"
				continue
			}
			if si.SigningTime != nil && (!d.HaveTimes || si.SigningTime.Before(d.NotBefore) || si.SigningTime.After(d.NotAfter)) {
				why = "DS certificate outside validity at signing time"
				continue
			}
			if d.AKI == nil {
				why = "DS certificate has no authority key identifier"
				continue
			}
			for _, t := range store {
				if !strings.EqualFold(t.IssuerCC, country) {
					continue
				}
				if t.SKI == nil || !bytes.Equal(t.SKI, d.AKI) {
					continue
				}
				if !t.HasBC || !t.IsCA || !t.kuBit(5) {
					why = "anchor is not a CA with keyCertSign"
					continue
				}
				if si.SigningTime != nil && (!t.HaveTimes || si.SigningTime.Before(t.NotBefore) || si.SigningTime.After(t.NotAfter)) {
					why = "anchor outside validity at signing time"
					continue
				}
				tk, err := ParseSPKI(t.SPKI)
				if err != nil {
					why = "anchor key unreadable"
					continue
				}
				if VerifyAny(tk, d.SigAlgOID, d.TBS, d.Sig) {
					return true, ""
				}
				why = "anchor does not verify the DS certificate"
			}
			if why == "" {
				why = "no anchor with matching key identifier and country"
			}
		}
	}
	return false, why
}

// ---------------------------------------------------------------------------------------
// passive authentication

type PAInput struct {
	SOD          []byte         // EF.SOD (tag 77)
	CardSecurity []byte         // nil when absent
	DGs          map[int][]byte // data groups present in the document
	DG1State     string         // alpha-2 of DG1's issuing state ("" when DG1 absent or unknown)
	DG1Present   bool
	Store        [][]byte
	// DG1StateRaw: the issuing-state characters of DG1 when they could be read but name no
	// country (DG1State is "" then). With it set, PA reports a definite "differs" (additive,
	// default off).
	DG1StateRaw *string
}

var alpha3to2 = map[string]string{"NLD": "NL", "FRA": "FR", "USA": "US", "GBR": "GB", "NZL": "NZ", "SGP": "SG", "CHE": "CH", "AUS": "AU", "MYS": "MY", "DEU": "DE", "D": "DE"}

// Alpha2 maps the issuing states the harness uses.
func Alpha2(alpha3 string) (string, bool) {
	v, ok := alpha3to2[strings.TrimRight(alpha3, "< ")]
	return v, ok
}

// PA evaluates the conditions of property C01. The second result explains a "false".
// unknown=true means the reference cannot judge (it never happens on harness inputs that
// the library accepts; callers report it as inconclusive).
func PA(in PAInput) (ok bool, why string, unknown bool) {
	tl, _, err := next(in.SOD)
	if err != nil || tl.tag != 0x77 {
		return false, "SOD is not a 0x77 template", false
	}
	sd, err := ParseSignedData(tl.val)
	if err != nil {
		return false, "SOD SignedData unreadable: " + err.Error(), false
	}
	var store []*Cert
	for _, b := range in.Store {
		// a trust store entry may hold several concatenated certificates
		for _, one := range kids(b) {
			if c, err := ParseCert(one.full); err == nil {
				store = append(store, c)
			}
		}
	}
	// document country: the single country of the embedded certificates' issuers
	country := ""
	for _, c := range sd.Certs {
		if country == "" {
			country = c.IssuerCC
		} else if c.IssuerCC != country {
			return false, "embedded certificates name several countries", false
		}
	}
	if country == "" {
		return false, "no country in the embedded certificates", false
	}
	if in.DG1Present {
		if in.DG1State == "" {
			// a readable field that names no country under the documented rule cannot be "the
			// same issuing country" as any certificate, whatever code the certificates carry
			if in.DG1StateRaw != nil {
				return false, fmt.Sprintf("DG1 issuing state %q names no country (ISO 3166-1 alpha-3 or 'D'), the certificates name %s", *in.DG1StateRaw, country), false
			}
			return false, "", true
		}
		if !strings.EqualFold(in.DG1State, country) {
			return false, "DG1 issuing state differs from the certificate country", false
		}
	}
	if ok, w := ChainOK(sd, store, country); !ok {
		return false, "SOD: " + w, false
	}
	// hash list
	lso, _, err := next(sd.EContent)
	if err != nil || lso.tag != 0x30 {
		return false, "LDS security object unreadable", false
	}
	lf := kids(lso.val)
	if len(lf) < 3 {
		return false, "LDS security object unreadable", false
	}
	hf := kids(lf[1].val)
	if len(hf) < 1 {
		return false, "LDS security object unreadable", false
	}
	h, okh := hashByOID(hf[0].val)
	if !okh {
		return false, "LDS hash algorithm unknown", false
	}
	list := map[int][]byte{}
	for _, e := range kids(lf[2].val) {
		ef := kids(e.val)
		if len(ef) >= 2 && ef[0].tag == 0x02 && len(ef[0].val) > 0 && len(ef[0].val) <= 4 {
			n := 0
			for _, b := range ef[0].val {
				n = n<<8 | int(b)
			}
			if ef[0].val[0]&0x80 != 0 {
				continue
			}
			if _, dup := list[n]; !dup {
				list[n] = octets(ef[1])
			}
		}
	}
	for n, b := range in.DGs {
		want, ok := list[n]
		if !ok || len(want) == 0 {
			return false, fmt.Sprintf("DG%d is not in the hash list", n), false
		}
		if !bytes.Equal(h.Sum(b), want) {
			return false, fmt.Sprintf("DG%d hash mismatch", n), false
		}
	}
	if in.CardSecurity != nil {
		cs, err := ParseSignedData(in.CardSecurity)
		if err != nil {
			return false, "CardSecurity unreadable", false
		}
		if ok, w := ChainOK(cs, store, country); !ok {
			return false, "CardSecurity: " + w, false
		}
	}
	return true, "", false
}
