// Package refverify holds the reference verifiers (engine E4 of DESIGN.md): public-key
// resolution from SubjectPublicKeyInfo, signature verification, X.509 chain step and the
// passive-authentication conditions of property C01, written on top of refber, ecref and
// the issuer's primitives. It never imports gmrtd.
package refverify

import (
	"bytes"
	"errors"
	"math/big"

	"verifharness/der"
	"verifharness/ecref"
	"verifharness/issuer"
	"verifharness/refber"
)

type PubKey struct {
	RSA   *issuer.RSAKey
	Curve *ecref.Curve
	Q     ecref.Point
	// how the curve was identified: "named", "explicit-by-prime", "fallback-by-point"
	CurveVia string
}

var (
	oidRSA = der.OIDBytes(1, 2, 840, 113549, 1, 1, 1)
	oidEC  = der.OIDBytes(1, 2, 840, 10045, 2, 1)
)

func intOf(n *refber.Node) (*big.Int, bool) {
	if n == nil || n.Tag != 0x02 || n.Constructed || len(n.Value) == 0 {
		return nil, false
	}
	if n.Value[0]&0x80 != 0 {
		return nil, false // negative
	}
	return new(big.Int).SetBytes(n.Value), true
}

// ParseSPKI resolves a SubjectPublicKeyInfo to a key. EC domain parameters given
// explicitly are resolved to the standardised curve with the same prime (the library's
// documented policy: only well-known curves are supported and they are recognised by
// their prime); when the point does not lie on the declared curve, any other supported
// curve of the same field size on which it lies is used (the library's documented
// alternative-curve fallback). Only the elements that matter are read (lazy reader).
func ParseSPKI(b []byte) (*PubKey, error) {
	root, _, err := next(b)
	if err != nil || root.tag != 0x30 {
		return nil, errors.New("spki: not a SEQUENCE")
	}
	top := kids(root.val)
	if len(top) < 2 {
		return nil, errors.New("spki: not SEQUENCE of 2")
	}
	alg, bits := top[0], top[1]
	af := kids(alg.val)
	if alg.tag != 0x30 || len(af) < 1 || af[0].tag != 0x06 {
		return nil, errors.New("spki: algorithm identifier")
	}
	if bits.tag != 0x03 || bits.cons || len(bits.val) < 1 {
		return nil, errors.New("spki: bit string")
	}
	keyBytes := bits.val[1:]
	oid := af[0].val
	switch {
	case bytes.Equal(oid, oidRSA):
		k, _, err := next(keyBytes)
		if err != nil || k.tag != 0x30 {
			return nil, errors.New("spki: RSAPublicKey")
		}
		kf := kids(k.val)
		if len(kf) < 2 {
			return nil, errors.New("spki: RSAPublicKey")
		}
		n, ok1 := elInt(kf[0])
		e, ok2 := elInt(kf[1])
		if !ok1 || !ok2 || n.Sign() <= 0 || e.Sign() <= 0 {
			return nil, errors.New("spki: RSA integers")
		}
		return &PubKey{RSA: &issuer.RSAKey{N: n, E: e, Bits: n.BitLen()}}, nil
	case bytes.Equal(oid, oidEC):
		if len(af) < 2 {
			return nil, errors.New("spki: EC parameters missing")
		}
		p := af[1]
		var declared *ecref.Curve
		via := ""
		switch {
		case p.tag == 0x06:
			for _, c := range ecref.All() {
				if bytes.Equal(der.OIDBytes(issuer.CurveOID(c)...), p.val) {
					declared, via = c, "named"
				}
			}
		case p.tag == 0x30:
			pf := kids(p.val)
			if len(pf) >= 2 && pf[1].tag == 0x30 {
				if ff := kids(pf[1].val); len(ff) >= 2 {
					// the library takes the field parameter as a raw value (any tag)
					if len(ff[1].val) > 0 {
						prime := new(big.Int).SetBytes(ff[1].val)
						for _, c := range ecref.All() {
							if c.P.Cmp(prime) == 0 {
								declared, via = c, "explicit-by-prime"
							}
						}
					}
				}
			}
		}
		if declared == nil {
			return nil, errors.New("spki: unsupported EC parameters")
		}
		if q, err := declared.Decode(keyBytes); err == nil {
			return &PubKey{Curve: declared, Q: q, CurveVia: via}, nil
		}
		for _, c := range ecref.All() {
			if c == declared {
				continue
			}
			if q, err := c.Decode(keyBytes); err == nil {
				return &PubKey{Curve: c, Q: q, CurveVia: "fallback-by-point"}, nil
			}
		}
		return nil, errors.New("spki: EC point on no supported curve")
	}
	return nil, errors.New("spki: unsupported algorithm")
}
