// Package refverify holds the reference verifiers (engine E4 of DESIGN.md): public-key
// resolution from SubjectPublicKeyInfo, signature verification, X.509 chain step and the
// passive-authentication conditions of property C01, written on top of refber, ecref and
// the issuer's primitives. It never imports gmrtd.
package refverify

import (
	"bytes"
	"errors"
	"math/big"

	"verifharness/der"
	"verifharness/ecref"
	"verifharness/issuer"
	"verifharness/refber"
)

type PubKey struct {
	RSA   *issuer.RSAKey
	Curve *ecref.Curve
	Q     ecref.Point
	// how the curve was identified: "named", "explicit-by-prime", "fallback-by-point"
	CurveVia string
}

var (
	oidRSA = der.OIDBytes(1, 2, 840, 113549, 1, 1, 1)
	oidEC  = der.OIDBytes(1, 2, 840, 10045, 2, 1)
)

func intOf(n *refber.Node) (*big.Int, bool) {
	if n == nil || n.Tag != 0x02 || n.Constructed || len(n.Value) == 0 {
		return nil, false
	}
	if n.Value[0]&0x80 != 0 {
		return nil, false // negative
	}
	return new(big.Int).SetBytes(n.Value), true
}

// ParseSPKI resolves a SubjectPublicKeyInfo to a key. EC domain parameters given
// explicitly are resolved to the standardised curve with the same prime (the library's
// documented policy: only well-known curves are supported and they are recognised by
// their prime); when the point does not lie on the declared curve, any other supported
// curve of the same field size on which it lies is used (the library's documented
// alternative-curve fallback).
func ParseSPKI(b []byte) (*PubKey, error) {
	root, err := refber.ParseOne(b)
	if err != nil {
		return nil, err
	}
	if root.Tag != 0x30 || len(root.Children) != 2 {
		return nil, errors.New("spki: not SEQUENCE of 2")
	}
	alg, bits := root.Children[0], root.Children[1]
	if alg.Tag != 0x30 || len(alg.Children) < 1 || alg.Children[0].Tag != 0x06 {
		return nil, errors.New("spki: algorithm identifier")
	}
	if bits.Tag != 0x03 || bits.Constructed || len(bits.Value) < 1 {
		return nil, errors.New("spki: bit string")
	}
	keyBytes := bits.Value[1:]
	oid := alg.Children[0].Value
	switch {
	case bytes.Equal(oid, oidRSA):
		k, err := refber.ParseOne(keyBytes)
		if err != nil || k.Tag != 0x30 || len(k.Children) != 2 {
			return nil, errors.New("spki: RSAPublicKey")
		}
		n, ok1 := intOf(k.Children[0])
		e, ok2 := intOf(k.Children[1])
		if !ok1 || !ok2 || n.Sign() <= 0 || e.Sign() <= 0 {
			return nil, errors.New("spki: RSA integers")
		}
		return &PubKey{RSA: &issuer.RSAKey{N: n, E: e, Bits: n.BitLen()}}, nil
	case bytes.Equal(oid, oidEC):
		if len(alg.Children) < 2 {
			return nil, errors.New("spki: EC parameters missing")
		}
		p := alg.Children[1]
		var declared *ecref.Curve
		via := ""
		switch {
		case p.Tag == 0x06:
			for _, c := range ecref.All() {
				if bytes.Equal(der.OIDBytes(issuer.CurveOID(c)...), p.Value) {
					declared, via = c, "named"
				}
			}
		case p.Tag == 0x30 && len(p.Children) >= 5:
			f := p.Children[1]
			if f.Tag == 0x30 && len(f.Children) == 2 {
				if prime, ok := intOf(f.Children[1]); ok {
					for _, c := range ecref.All() {
						if c.P.Cmp(prime) == 0 {
							declared, via = c, "explicit-by-prime"
						}
					}
				}
			}
		}
		if declared == nil {
			return nil, errors.New("spki: unsupported EC parameters")
		}
		if q, err := declared.Decode(keyBytes); err == nil {
			return &PubKey{Curve: declared, Q: q, CurveVia: via}, nil
		}
		for _, c := range ecref.All() {
			if c == declared {
				continue
			}
			if q, err := c.Decode(keyBytes); err == nil {
				return &PubKey{Curve: c, Q: q, CurveVia: "fallback-by-point"}, nil
			}
		}
		return nil, errors.New("spki: EC point on no supported curve")
	}
	return nil, errors.New("spki: unsupported algorithm")
}
