package refverify

import "strings"

// An independent table of ISO 3166-1 (alpha-3 -> alpha-2), written down from the standard
// and NOT taken from the library. It is used to judge the "same issuing country" condition
// of C01 for arbitrary MRZ issuing-state codes: gmrtd documents the rule "the MRZ issuing
// state is an ISO 3166-1 alpha-3 code, except Germany's 'D'" (document.ResolveCountry), so
// a state outside this table (and not 'D') names no country whose CSCA could be "the same".
const iso3166Pairs = "" +
	"AND:AD ARE:AE AFG:AF ATG:AG AIA:AI ALB:AL ARM:AM AGO:AO ATA:AQ ARG:AR ASM:AS AUT:AT AUS:AU ABW:AW ALA:AX AZE:AZ " +
	"BIH:BA BRB:BB BGD:BD BEL:BE BFA:BF BGR:BG BHR:BH BDI:BI BEN:BJ BLM:BL BMU:BM BRN:BN BOL:BO BES:BQ BRA:BR BHS:BS BTN:BT BVT:BV BWA:BW BLR:BY BLZ:BZ " +
	"CAN:CA CCK:CC COD:CD CAF:CF COG:CG CHE:CH CIV:CI COK:CK CHL:CL CMR:CM CHN:CN COL:CO CRI:CR CUB:CU CPV:CV CUW:CW CXR:CX CYP:CY CZE:CZ " +
	"DEU:DE DJI:DJ DNK:DK DMA:DM DOM:DO DZA:DZ " +
	"ECU:EC EST:EE EGY:EG ESH:EH ERI:ER ESP:ES ETH:ET " +
	"FIN:FI FJI:FJ FLK:FK FSM:FM FRO:FO FRA:FR " +
	"GAB:GA GBR:GB GRD:GD GEO:GE GUF:GF GGY:GG GHA:GH GIB:GI GRL:GL GMB:GM GIN:GN GLP:GP GNQ:GQ GRC:GR SGS:GS GTM:GT GUM:GU GNB:GW GUY:GY " +
	"HKG:HK HMD:HM HND:HN HRV:HR HTI:HT HUN:HU " +
	"IDN:ID IRL:IE ISR:IL IMN:IM IND:IN IOT:IO IRQ:IQ IRN:IR ISL:IS ITA:IT " +
	"JEY:JE JAM:JM JOR:JO JPN:JP " +
	"KEN:KE KGZ:KG KHM:KH KIR:KI COM:KM KNA:KN PRK:KP KOR:KR KWT:KW CYM:KY KAZ:KZ " +
	"LAO:LA LBN:LB LCA:LC LIE:LI LKA:LK LBR:LR LSO:LS LTU:LT LUX:LU LVA:LV LBY:LY " +
	"MAR:MA MCO:MC MDA:MD MNE:ME MAF:MF MDG:MG MHL:MH MKD:MK MLI:ML MMR:MM MNG:MN MAC:MO MNP:MP MTQ:MQ MRT:MR MSR:MS MLT:MT MUS:MU MDV:MV MWI:MW MEX:MX MYS:MY MOZ:MZ " +
	"NAM:NA NCL:NC NER:NE NFK:NF NGA:NG NIC:NI NLD:NL NOR:NO NPL:NP NRU:NR NIU:NU NZL:NZ " +
	"OMN:OM " +
	"PAN:PA PER:PE PYF:PF PNG:PG PHL:PH PAK:PK POL:PL SPM:PM PCN:PN PRI:PR PSE:PS PRT:PT PLW:PW PRY:PY " +
	"QAT:QA " +
	"REU:RE ROU:RO SRB:RS RUS:RU RWA:RW " +
	"SAU:SA SLB:SB SYC:SC SDN:SD SWE:SE SGP:SG SHN:SH SVN:SI SJM:SJ SVK:SK SLE:SL SMR:SM SEN:SN SOM:SO SUR:SR SSD:SS STP:ST SLV:SV SXM:SX SYR:SY SWZ:SZ " +
	"TCA:TC TCD:TD ATF:TF TGO:TG THA:TH TJK:TJ TKL:TK TLS:TL TKM:TM TUN:TN TON:TO TUR:TR TTO:TT TUV:TV TWN:TW TZA:TZ " +
	"UKR:UA UGA:UG UMI:UM USA:US URY:UY UZB:UZ " +
	"VAT:VA VCT:VC VEN:VE VGB:VG VIR:VI VNM:VN VUT:VU " +
	"WLF:WF WSM:WS " +
	"YEM:YE MYT:YT " +
	"ZAF:ZA ZMB:ZM ZWE:ZW"

var iso3to2 = func() map[string]string {
	m := map[string]string{}
	for _, p := range strings.Fields(iso3166Pairs) {
		m[p[:3]] = p[4:]
	}
	return m
}()

var iso2set = func() map[string]bool {
	m := map[string]bool{}
	for _, a2 := range iso3to2 {
		m[a2] = true
	}
	return m
}()

// ISOAlpha3Count is the size of the table (249 entries in ISO 3166-1); used by self-tests.
func ISOAlpha3Count() int { return len(iso3to2) }

// ISOAlpha3Codes lists the table's alpha-3 codes in a fixed (sorted) order.
func ISOAlpha3Codes() []string {
	out := make([]string, 0, len(iso3to2))
	for a := 'A'; a <= 'Z'; a++ {
		for b := 'A'; b <= 'Z'; b++ {
			for c := 'A'; c <= 'Z'; c++ {
				s := string([]rune{a, b, c})
				if _, ok := iso3to2[s]; ok {
					out = append(out, s)
				}
			}
		}
	}
	return out
}

// IsISOAlpha2 reports whether cc (any case) is an assigned ISO 3166-1 alpha-2 code.
func IsISOAlpha2(cc string) bool { return iso2set[strings.ToUpper(cc)] }

// StateAlpha2 maps the three characters of an MRZ issuing-state field (fillers '<' still
// present or already removed) to an ISO alpha-2 code under the rule the library documents:
// fillers are blanks, trailing blanks do not count, 'D' is Germany, everything else must be
// an ISO 3166-1 alpha-3 code. Letter case is ignored (the lenient reading). ok=false means
// the state names no country under that rule.
func StateAlpha2(state string) (alpha2 string, ok bool) {
	s := strings.TrimRight(strings.ReplaceAll(state, "<", " "), " ")
	if s == "D" {
		return "DE", true
	}
	if len(s) != 3 {
		return "", false
	}
	v, ok := iso3to2[strings.ToUpper(s)]
	return v, ok
}
