package refverify

// The master-list clause of C01: "The same signature-and-chain condition holds ... for a
// master list before its certificates enter a trust store."

// ParseStore reads trust-store entries (one or several concatenated certificates each).
func ParseStore(entries [][]byte) []*Cert {
	var store []*Cert
	for _, b := range entries {
		for _, one := range kids(b) {
			if c, err := ParseCert(one.full); err == nil {
				store = append(store, c)
			}
		}
	}
	return store
}

// MasterListOK evaluates the signature-and-chain condition for a CSCA master list (a CMS
// ContentInfo) against the SUPPLIED roots only: some SignerInfo and some certificate D
// carried in the SignedData such that D's key verifies the signed attributes, the
// messageDigest equals the digest of the content, D asserts digitalSignature, and some
// certificate T AMONG THE SUPPLIED ROOTS with SKI(T) = AKI(D), CA:TRUE and keyCertSign
// verifies D (both valid at the signing time when stated). Certificates that are only
// carried by the list itself - in its certificates field or in its signed content - are
// never anchors. The country of the anchor is not restricted (the lenient reading: the
// library's entry point takes one root and no country).
//
// listed returns the certificates of the signed content (CscaMasterList.certList) as they
// are encoded there.
func MasterListOK(ml []byte, roots [][]byte) (ok bool, why string, listed [][]byte) {
	sd, err := ParseSignedData(ml)
	if err != nil {
		return false, "master list SignedData unreadable: " + err.Error(), nil
	}
	store := ParseStore(roots)
	if len(store) == 0 {
		return false, "no readable root certificate supplied", nil
	}
	why = "no root"
	seen := map[string]bool{}
	for _, t := range store {
		if seen[t.IssuerCC] {
			continue
		}
		seen[t.IssuerCC] = true
		if good, w := ChainOK(sd, store, t.IssuerCC); good {
			ok = true
			break
		} else {
			why = w
		}
	}
	if !ok {
		// diagnosis only: would the list pass if what it carries itself counted as an anchor?
		self := append([]*Cert{}, sd.Certs...)
		if seq, _, err := next(sd.EContent); err == nil && seq.tag == 0x30 {
			if f := kids(seq.val); len(f) >= 2 {
				for _, c := range kids(f[1].val) {
					if pc, err := ParseCert(c.full); err == nil {
						self = append(self, pc)
					}
				}
			}
		}
		for _, t := range self {
			if good, _ := ChainOK(sd, self, t.IssuerCC); good {
				return false, "the signer chains only to a certificate that the list carries itself, not to a supplied root", nil
			}
		}
		return false, why, nil
	}
	// CscaMasterList ::= SEQUENCE { version INTEGER, certList SET OF Certificate }
	seq, _, err := next(sd.EContent)
	if err != nil || seq.tag != 0x30 {
		return true, "", nil
	}
	f := kids(seq.val)
	if len(f) < 2 || f[1].tag != 0x31 {
		return true, "", nil
	}
	for _, c := range kids(f[1].val) {
		listed = append(listed, c.full)
	}
	return true, "", listed
}
