package refverify

import (
	"errors"

	"verifharness/refber"
)

// A deliberately forgiving one-level BER reader. The reference must never be stricter
// than a correct library: Go's encoding/asn1 (which gmrtd parses CMS and X.509 with) does
// not look inside values it does not need (RawValue fields), ignores the declared length of
// an EXPLICIT wrapper and tolerates trailing bytes after the last field of a SEQUENCE. The
// reference therefore descends only into the elements whose values the conditions of C01
// use, and reads sibling lists up to the first element it cannot read.

type el struct {
	tag  uint32
	cons bool
	full []byte // header + value (+ end-of-contents)
	val  []byte
}

var errShort = errors.New("lazy: truncated")

// next reads one element from the front of b.
func next(b []byte) (el, []byte, error) {
	h, err := refber.ReadHeader(b, 0, len(b))
	if err != nil {
		return el{}, nil, err
	}
	if h.Indefinite {
		// find the extent with the strict reader (indefinite contents need nesting)
		n, err := refber.ParseOne(cutFirst(b))
		if err != nil {
			return el{}, nil, err
		}
		end := n.End()
		val := b[n.ValOff : n.ValOff+n.ValLen]
		return el{tag: h.Tag, cons: h.Constructed, full: b[:end], val: val}, b[end:], nil
	}
	if uint64(len(b)-h.HdrLen) < h.Len {
		return el{}, nil, errShort
	}
	end := h.HdrLen + int(h.Len)
	return el{tag: h.Tag, cons: h.Constructed, full: b[:end], val: b[h.HdrLen:end]}, b[end:], nil
}

// cutFirst returns the prefix of b that holds its first indefinite-length element.
func cutFirst(b []byte) []byte {
	nodes, err := refber.Parse(b)
	if err == nil && len(nodes) > 0 {
		return b[:nodes[0].End()]
	}
	// try progressively: the strict reader needs the exact extent; fall back to all of b
	return b
}

// kids reads the children of a constructed value up to the first unreadable one.
func kids(val []byte) []el {
	var out []el
	for len(val) > 0 {
		e, rest, err := next(val)
		if err != nil {
			break
		}
		out = append(out, e)
		val = rest
	}
	return out
}

// explicitChild reads the element inside an EXPLICIT wrapper the way Go's asn1 does:
// the inner header decides the extent, taken from everything that follows the wrapper's
// header (the wrapper's own length is not trusted).
func explicitChild(wrapper el, following []byte) (el, bool) {
	// following = bytes from the start of the wrapper's value to the end of the enclosing value
	e, _, err := next(following)
	if err != nil {
		return el{}, false
	}
	return e, true
}
