// Package der is a minimal DER/BER builder used by the harness's generators (issuer,
// chip personalisation). It only builds; parsing is refber's job.
package der

import (
	"math/big"
	"sort"
)

func Len(n int) []byte {
	switch {
	case n < 0x80:
		return []byte{byte(n)}
	case n < 0x100:
		return []byte{0x81, byte(n)}
	case n < 0x10000:
		return []byte{0x82, byte(n >> 8), byte(n)}
	case n < 0x1000000:
		return []byte{0x83, byte(n >> 16), byte(n >> 8), byte(n)}
	default:
		return []byte{0x84, byte(n >> 24), byte(n >> 16), byte(n >> 8), byte(n)}
	}
}

// TLV with a tag of one or more octets.
func TLV(tag []byte, parts ...[]byte) []byte {
	n := 0
	for _, p := range parts {
		n += len(p)
	}
	out := append(append([]byte{}, tag...), Len(n)...)
	for _, p := range parts {
		out = append(out, p...)
	}
	return out
}

func T(tag byte, parts ...[]byte) []byte { return TLV([]byte{tag}, parts...) }

func Seq(parts ...[]byte) []byte { return T(0x30, parts...) }

// Set sorts its members as DER requires.
func Set(parts ...[]byte) []byte {
	ps := append([][]byte{}, parts...)
	sort.Slice(ps, func(i, j int) bool { return string(ps[i]) < string(ps[j]) })
	return T(0x31, ps...)
}

// SetUnsorted keeps the given order (BER).
func SetUnsorted(parts ...[]byte) []byte { return T(0x31, parts...) }

func Null() []byte { return []byte{0x05, 0x00} }

func Bool(b bool) []byte {
	if b {
		return []byte{0x01, 0x01, 0xFF}
	}
	return []byte{0x01, 0x01, 0x00}
}

func IntBytes(v *big.Int) []byte {
	if v.Sign() == 0 {
		return []byte{0}
	}
	if v.Sign() < 0 {
		panic("der: negative integers not supported")
	}
	b := v.Bytes()
	if b[0]&0x80 != 0 {
		b = append([]byte{0}, b...)
	}
	return b
}

func Int(v *big.Int) []byte     { return T(0x02, IntBytes(v)) }
func Int64(v int64) []byte      { return Int(big.NewInt(v)) }
func Octets(b []byte) []byte    { return T(0x04, b) }
func BitString(b []byte) []byte { return T(0x03, append([]byte{0}, b...)) }

// OIDBytes encodes the content octets of an object identifier.
func OIDBytes(arcs ...int) []byte {
	out := []byte{byte(arcs[0]*40 + arcs[1])}
	for _, a := range arcs[2:] {
		var tmp []byte
		tmp = append(tmp, byte(a&0x7f))
		a >>= 7
		for a > 0 {
			tmp = append([]byte{byte(a&0x7f) | 0x80}, tmp...)
			a >>= 7
		}
		out = append(out, tmp...)
	}
	return out
}

func OID(arcs ...int) []byte { return T(0x06, OIDBytes(arcs...)) }

func UTF8(s string) []byte      { return T(0x0C, []byte(s)) }
func Printable(s string) []byte { return T(0x13, []byte(s)) }
func IA5(s string) []byte       { return T(0x16, []byte(s)) }
func UTCTime(s string) []byte   { return T(0x17, []byte(s)) }
func GenTime(s string) []byte   { return T(0x18, []byte(s)) }

// Ctx builds a context-specific tag: constructed (explicit / constructed implicit) or primitive.
func Ctx(n int, constructed bool, parts ...[]byte) []byte {
	t := byte(0x80 | n)
	if constructed {
		t |= 0x20
	}
	return T(t, parts...)
}
