// Package perso personalises complete simulated eMRTD chips: LDS files from ldsgen,
// security objects from issuer, access-control / authentication keys for chipsim. It is
// part of the harness's independent side and never imports gmrtd.
package perso

import (
	"fmt"
	"math/big"
	mrand "math/rand/v2"
	"sort"

	"verifharness/chipsim"
	"verifharness/der"
	"verifharness/ecref"
	"verifharness/issuer"
	"verifharness/ldsgen"
	"verifharness/symref"
)

type Access int

const (
	BACOnly Access = iota
	PACEGMWithBAC
	PACEGMOnly
	PACECAM
)

func (a Access) String() string { return [...]string{"BAC", "PACE-GM+BAC", "PACE-GM", "PACE-CAM"}[a] }

type AAOpts struct {
	Kind  int // 0 none, 1 RSA, 2 ECDSA
	Bits  int
	Hash  chipsim.AAHash
	Curve int // index into ecref.All()
	DER   bool
}

type CAOpts struct {
	On      bool
	Curve   int
	Suite   symref.Suite
	Form    int // 0 named, 1 explicit, 2 explicit + seed
	Arrange int // 0 no key ids, 1 id in info and key, 2 two keys (info selects the second), 3 info missing
	// GrindPub (default off): step the static key(s) until the public point has a coordinate
	// with a leading zero octet: 1 = X, 2 = Y
	GrindPub int
	// MoreInfos (default none): further ChipAuthenticationInfos announced in DG14 for the
	// same key, next to the one Suite/Arrange describe (DG14 is a DER-sorted SET: an info
	// without key identifier is shorter and stands before one with it). Not with Arrange 2
	// unless WithID is set (several keys need the identifier).
	MoreInfos []CAMoreInfo
}

// CAMoreInfo is one further ChipAuthenticationInfo: its suite, and whether it repeats the
// key identifier the main info carries (Arrange 1, 2).
type CAMoreInfo struct {
	Suite  symref.Suite
	WithID bool
}

type Opts struct {
	Access  Access
	ParamID int
	Suite   symref.Suite
	CAN     bool // password is the CAN (PACE only); otherwise the MRZ
	Layout  ldsgen.Layout
	ExtDoc  bool
	MRZ     *ldsgen.MRZFields // fixed MRZ content (clones of another document)

	DGs         []int // data groups stored on the chip (1 is always added)
	Unsupported []int // further numbers listed in the SOD and stored, but not supported by the reader (3, 4, 5, ...)
	EFDIR       bool  // the chip answers SELECT 2F00 inside the LDS application with an EF.DIR
	DG2Size     int   // exact size of DG2 (0: small random)
	// ExtraAccessInfos are further security infos advertised in EF.CardAccess (and repeated in
	// DG14 / CardSecurity) next to the chip's own PACEInfo, which is placed at index OwnInfoPos:
	// suites the reader does not implement, unknown protocols, foreign infos.
	ExtraAccessInfos [][]byte
	OwnInfoPos       int
	DG7Size          int

	AA AAOpts
	CA CAOpts

	Country   [2]string // alpha-3, alpha-2 (zero: drawn)
	Digest    issuer.HashAlg
	SODBySKI  bool
	LDSv1     bool
	PKI       issuer.PKIOpts
	Untrusted bool // the trust store holds another CSCA of the same country (same name), not the issuer

	CAMGrindPub int // as CAOpts.GrindPub, for the static PACE-CAM key in CardSecurity (default off)

	// SODOrder (default SODAscending) is the order of the DataGroupHash entries in the LDS
	// security object: a SEQUENCE OF has no ordering rule. The permutation of SODShuffled is
	// drawn from SODOrderSeed alone (the personalisation PRNG is not consumed, so the files are
	// the same whatever the order). EF.COM keeps listing the tags in ascending order.
	SODOrder     SODOrder
	SODOrderSeed uint64
}

type SODOrder int

const (
	SODAscending SODOrder = iota
	SODDescending
	SODShuffled // never ascending when there are at least two entries
)

func (s SODOrder) String() string { return [...]string{"ascending", "descending", "shuffled"}[s] }

// sodOrder returns the data group numbers (given in ascending order) in the order in which
// the security object lists them; nil stands for the issuer's default (ascending).
func sodOrder(o Opts, asc []int) []int {
	out := append([]int{}, asc...)
	switch o.SODOrder {
	case SODDescending:
		for i, j := 0, len(out)-1; i < j; i, j = i+1, j-1 {
			out[i], out[j] = out[j], out[i]
		}
	case SODShuffled:
		pr := mrand.New(mrand.NewPCG(o.SODOrderSeed, 0x50D0DE4))
		pr.Shuffle(len(out), func(i, j int) { out[i], out[j] = out[j], out[i] })
		if len(out) > 1 && sort.IntsAreSorted(out) {
			out = append(out[1:], out[0])
		}
	default:
		return nil
	}
	return out
}

var Countries = [][2]string{{"NLD", "NL"}, {"FRA", "FR"}, {"USA", "US"}, {"GBR", "GB"}, {"NZL", "NZ"}, {"SGP", "SG"}, {"CHE", "CH"}, {"AUS", "AU"}, {"MYS", "MY"}}

// UnsupportedAccessInfo draws a security info a conforming chip may advertise in EF.CardAccess
// and that the reader does not implement: PACE with integrated mapping or finite-field DH, an
// unknown protocol under id-PACE, or a foreign info.
func UnsupportedAccessInfo(r *mrand.Rand) []byte {
	switch r.IntN(5) {
	case 0:
		return chipsim.PaceInfoDER(chipsim.PaceOIDArcs(chipsim.PaceECDHIM, symref.AllSuites[r.IntN(4)]), 2, 8+r.IntN(11))
	case 1:
		return chipsim.PaceInfoDER(chipsim.PaceOIDArcs(chipsim.PaceDHGM, symref.AllSuites[r.IntN(4)]), 2, r.IntN(3))
	case 2:
		return chipsim.PaceInfoDER(chipsim.PaceOIDArcs(chipsim.PaceDHIM, symref.AllSuites[r.IntN(4)]), 2, r.IntN(3))
	case 3:
		return chipsim.PaceInfoDER([]int{0, 4, 0, 127, 0, 7, 2, 2, 4, 7 + r.IntN(5), 1 + r.IntN(4)}, 2, 8+r.IntN(11))
	}
	return der.Seq(der.OID(1, 2, 840, 113549, 1, 9, 99, r.IntN(100)), der.Int64(1))
}

// Perso is a personalised document: the files and the secrets a chip needs.
type Perso struct {
	Opts    Opts
	MF      map[uint16][]byte
	LDS     map[uint16][]byte
	DGFiles map[int][]byte
	Zone    string // MRZ as printed
	MRZInfo string // document number + cd + birth + cd + expiry + cd
	CANStr  string
	PKI     *issuer.PKI
	Trust   [][]byte // certificates to load into the trust store
	MRZ     ldsgen.MRZFields

	aa      *chipsim.AAState
	caKeys  []chipsim.CAKey
	camPriv *big.Int
	SODDGs  []int // numbers in the security object, in order
	DG14    []byte
	DG15    []byte
}

// grindPub steps an EC key pair (d+1, Q+G) until the chosen coordinate of Q (1 = X, 2 = Y)
// starts with a zero octet; the case PRNG is not consumed.
func grindPub(k *issuer.Key, which int) {
	if which == 0 {
		return
	}
	c, e := k.EC.Curve, k.EC
	d, q := new(big.Int).Set(e.D), e.Q
	for i := 0; i < 400000; i++ {
		co := q.X
		if which == 2 {
			co = q.Y
		}
		if !q.Inf && c.FE2OS(co)[0] == 0 {
			e.D, e.Q = d, q
			return
		}
		d.Add(d, big.NewInt(1))
		q = c.AddAffine(q, c.G())
		if d.Cmp(c.N) >= 0 {
			d.SetInt64(1)
			q = c.G()
		}
	}
	panic("perso: grinding did not terminate")
}

func cd(s string) string { return string([]byte{ldsgen.CheckDigit(s)}) }

func mrzInfo(f ldsgen.MRZFields) string {
	d := f.DocumentNumber
	for len(d) < 9 {
		d += "<"
	}
	rep := func(s string) string {
		b := []byte(s)
		for i := range b {
			if b[i] == ' ' {
				b[i] = '<'
			}
		}
		return string(b)
	}
	d = rep(d)
	return d + cd(d) + f.DateOfBirth + cd(f.DateOfBirth) + f.DateOfExpiry + cd(f.DateOfExpiry)
}

func aaECHash(c *ecref.Curve, data []byte) []byte {
	nb := c.N.BitLen()
	switch {
	case nb >= 512:
		return issuer.SHA512.Sum(data)
	case nb >= 384:
		return issuer.SHA384.Sum(data)
	case nb >= 256:
		return issuer.SHA256.Sum(data)
	}
	return issuer.SHA224.Sum(data)
}

func aaHash(h chipsim.AAHash, data []byte) []byte {
	return []issuer.HashAlg{issuer.SHA1, issuer.SHA224, issuer.SHA256, issuer.SHA384, issuer.SHA512}[h].Sum(data)
}

func paceMapping(a Access) int {
	if a == PACECAM {
		return chipsim.PaceECDHCAM
	}
	return chipsim.PaceECDHGM
}

// fitDG2 builds a DG2 of exactly the wanted size, or of the nearest reachable size above
// it (some totals cannot be reached because of BER length-form boundaries).
func fitDG2(r *mrand.Rand, size int) []byte {
	seed := r.Uint64()
	for delta := 0; delta < 8; delta++ {
		var out []byte
		func() {
			defer func() { recover() }()
			want := size
			if want > 0 {
				want += delta
			}
			out, _ = ldsgen.NewDG2(mrand.New(mrand.NewPCG(seed, 7)), ldsgen.DG2Opts{Templates: 1, ImagesPerTemplate: 1, ImageBytes: 24, TotalSize: want, Encoding: ldsgen.ISO19794})
		}()
		if out != nil {
			return out
		}
	}
	panic("perso: DG2 size not reachable")
}

// Build personalises a document.
func Build(r *mrand.Rand, o Opts) *Perso {
	p := &Perso{Opts: o, MF: map[uint16][]byte{}, LDS: map[uint16][]byte{}, DGFiles: map[int][]byte{}}
	if o.Country[0] == "" {
		o.Country = Countries[r.IntN(len(Countries))]
		p.Opts.Country = o.Country
	}
	// --- DG1 / MRZ
	layout := o.Layout
	if layout == ldsgen.LayoutAny {
		layout = []ldsgen.Layout{ldsgen.TD1, ldsgen.TD2, ldsgen.TD3}[r.IntN(3)]
	}
	ext := 1
	if o.ExtDoc && layout != ldsgen.TD3 {
		ext = 2
	}
	f := ldsgen.RandMRZ(r, ldsgen.MRZOpts{Layout: layout, Extended: ext, Plain: true})
	f.IssuingState = o.Country[0]
	f.Nationality = o.Country[0]
	if o.MRZ != nil {
		f = *o.MRZ
	}
	dg1, v1 := ldsgen.NewDG1(r, ldsgen.DG1Opts{Fields: &f})
	p.MRZ, p.Zone, p.MRZInfo = f, v1.MRZ, mrzInfo(f)
	p.CANStr = fmt.Sprintf("%06d", r.IntN(1000000))
	p.DGFiles[1] = dg1

	has := map[int]bool{1: true}
	for _, n := range o.DGs {
		has[n] = true
	}
	if o.AA.Kind != 0 {
		has[15] = true
	}
	pace := o.Access != BACOnly
	if o.CA.On || pace {
		has[14] = true
	}
	// --- simple data groups (in ascending order: the PRNG is consumed here)
	var order []int
	for n := range has {
		order = append(order, n)
	}
	sort.Ints(order)
	for _, n := range order {
		switch n {
		case 2:
			p.DGFiles[2] = fitDG2(r, o.DG2Size)
		case 7:
			dg, _ := ldsgen.NewDG7(r, ldsgen.DG7Opts{Images: 1, TotalSize: o.DG7Size})
			p.DGFiles[7] = dg
		case 11:
			dg, _ := ldsgen.NewDG11(r, ldsgen.DG11Opts{})
			p.DGFiles[11] = dg
		case 12:
			dg, _ := ldsgen.NewDG12(r, ldsgen.DG12Opts{})
			p.DGFiles[12] = dg
		case 13:
			dg, _ := ldsgen.RandDG13(r, 120)
			p.DGFiles[13] = dg
		case 16:
			dg, _ := ldsgen.NewDG16(r, ldsgen.DG16Opts{})
			p.DGFiles[16] = dg
		}
	}
	for _, n := range o.Unsupported {
		// opaque content under the right template tag
		p.DGFiles[n] = ldsgen.TLV(ldsgen.DGTag(n), ldsgen.RandBytes(r, 20+r.IntN(60)))
	}
	// --- AA
	if o.AA.Kind != 0 {
		aa := &chipsim.AAState{HashFn: aaHash, ECHash: aaECHash, Hash: o.AA.Hash, DER: o.AA.DER}
		var key *issuer.Key
		if o.AA.Kind == 1 {
			key = issuer.RSAKeyOf(o.AA.Bits, r.IntN(4))
			aa.N, aa.E, aa.D = key.RSA.N, key.RSA.E, key.RSA.D
		} else {
			c := ecref.All()[o.AA.Curve]
			key = issuer.NewECKey(r, c)
			key.Explicit = r.IntN(2) == 0
			aa.Curve, aa.Priv = c, key.EC.D
		}
		p.aa = aa
		p.DG15 = ldsgen.NewDG15(key.SPKI())
		p.DGFiles[15] = p.DG15
	}
	// --- CardAccess / DG14 / CardSecurity
	var dg14Infos [][]byte
	if pace {
		own := chipsim.PaceInfoDER(chipsim.PaceOIDArcs(paceMapping(o.Access), o.Suite), 2, o.ParamID)
		infos := [][]byte{own}
		if len(o.ExtraAccessInfos) > 0 {
			infos = nil
			for j, e := range o.ExtraAccessInfos {
				if j == o.OwnInfoPos {
					infos = append(infos, own)
				}
				infos = append(infos, e)
			}
			if o.OwnInfoPos >= len(o.ExtraAccessInfos) || o.OwnInfoPos < 0 {
				infos = append(infos, own)
			}
		}
		p.MF[chipsim.FidCardAccess] = der.SetUnsorted(infos...)
		dg14Infos = append(dg14Infos, infos...)
		if o.Access == PACECAM {
			cv := ecref.ByParamID(o.ParamID)
			sk := issuer.NewECKey(r, cv)
			grindPub(sk, o.CAMGrindPub)
			p.camPriv = sk.EC.D
			keyID := -1
			if r.IntN(2) == 0 {
				keyID = o.ParamID
			}
			pkInfo := issuer.ChipAuthPublicKeyInfoStd(o.ParamID, cv.Encode(sk.EC.Q), keyID)
			// the security object of CardSecurity is signed below, once the PKI exists
			p.MF[chipsim.FidCardSecurity] = der.Set(append([][]byte{pkInfo}, infos...)...) // placeholder: SecurityInfos
		}
	}
	if o.CA.On {
		cv := ecref.All()[o.CA.Curve]
		mk := func() *issuer.Key {
			k := issuer.NewECKey(r, cv)
			grindPub(k, o.CA.GrindPub)
			k.Explicit = o.CA.Form >= 1
			k.WithSeed = o.CA.Form == 2
			return k
		}
		var keys []*issuer.Key
		var ids []int
		infoID := -1
		switch o.CA.Arrange {
		case 0, 3:
			keys, ids = []*issuer.Key{mk()}, []int{-1}
		case 1:
			id := 1 + r.IntN(200)
			keys, ids, infoID = []*issuer.Key{mk()}, []int{id}, id
		case 2:
			id1, id2 := 1+r.IntN(100), 101+r.IntN(100)
			keys, ids, infoID = []*issuer.Key{mk(), mk()}, []int{id1, id2}, id2
		}
		for i, k := range keys {
			dg14Infos = append(dg14Infos, issuer.ChipAuthPublicKeyInfo(k.SPKI(), ids[i]))
			p.caKeys = append(p.caKeys, chipsim.CAKey{KeyID: ids[i], Curve: cv, Priv: k.EC.D, Pub: k.EC.Q})
		}
		if o.CA.Arrange != 3 {
			dg14Infos = append(dg14Infos, issuer.ChipAuthInfo(int(o.CA.Suite), infoID))
		}
		for _, mi := range o.CA.MoreInfos {
			id := -1
			if mi.WithID {
				id = infoID
			}
			dg14Infos = append(dg14Infos, issuer.ChipAuthInfo(int(mi.Suite), id))
		}
	}
	if has[14] {
		if len(dg14Infos) == 0 {
			// DG14 requested without CA / PACE: an active authentication info (ECDSA AA) or a lone info
			dg14Infos = append(dg14Infos, issuer.ActiveAuthInfo([]int{0, 4, 0, 127, 0, 7, 1, 1, 4, 1, 3}))
		}
		p.DG14 = der.T(0x6E, der.Set(dg14Infos...))
		p.DGFiles[14] = p.DG14
	}
	// --- PKI and security objects
	pk := o.PKI
	pk.Country = o.Country[1]
	if pk.CSCAName == nil {
		pk.CSCAName = issuer.SimpleName(o.Country[1], "State of "+o.Country[0], "CSCA "+o.Country[0])
		pk.DSName = issuer.SimpleName(o.Country[1], "State of "+o.Country[0], "DS 01")
	}
	p.PKI = issuer.NewPKI(r, pk)
	hashes := map[int][]byte{}
	var nums []int
	for n, b := range p.DGFiles {
		hashes[n] = o.Digest.Sum(b)
		nums = append(nums, n)
	}
	sort.Ints(nums)
	p.SODDGs = nums
	lds := issuer.LDSSpec{Hash: o.Digest, DGHashes: hashes, HashNull: r.IntN(2) == 0}
	if ord := sodOrder(o, nums); ord != nil {
		lds.Order, p.SODDGs = ord, ord
	}
	if o.LDSv1 {
		lds.Version, lds.LDSVer, lds.UniVer = 1, "0108", "040000"
	}
	st := issuer.BaseTime
	ss := p.PKI.SignerSpec(o.Digest, o.SODBySKI)
	ss.EContentType, ss.EContent, ss.SigningTime = issuer.OIDLDSSecurityObject, lds.DER(), &st
	p.LDS[chipsim.FidSOD] = issuer.WrapSOD(issuer.BuildSignedData(r, ss))
	if cs, ok := p.MF[chipsim.FidCardSecurity]; ok {
		s2 := p.PKI.SignerSpec(o.Digest, false)
		s2.EContentType, s2.EContent, s2.SigningTime = issuer.OIDSecurityObject, cs, &st
		p.MF[chipsim.FidCardSecurity] = issuer.BuildSignedData(r, s2)
	}
	if o.EFDIR {
		// one application template: 61 { 4F aid, 50 label }
		p.LDS[chipsim.FidDIR] = ldsgen.TLV(0x61, ldsgen.TLV(0x4F, chipsim.LDS1AID), ldsgen.TLV(0x50, []byte("eMRTD")))
	}
	com, _ := ldsgen.NewCOM(nums, "", "")
	p.LDS[chipsim.FidCOM] = com
	for n, b := range p.DGFiles {
		p.LDS[chipsim.FidDG(n)] = b
	}
	if o.Untrusted {
		other := issuer.NewPKI(r, issuer.PKIOpts{Country: o.Country[1], CertHash: pk.CertHash, CSCAName: pk.CSCAName})
		p.Trust = [][]byte{other.CSCACert}
	} else {
		p.Trust = [][]byte{p.PKI.CSCACert}
	}
	return p
}

// NewCard returns a fresh chip holding this personalisation (chip-side randomness from seed).
func (p *Perso) NewCard(seed uint64) *chipsim.Card {
	c := chipsim.NewCard()
	c.AuthRequired = true
	for k, v := range p.MF {
		c.MF[k] = v
	}
	for k, v := range p.LDS {
		c.LDS[k] = v
	}
	o := p.Opts
	if o.Access == BACOnly || o.Access == PACEGMWithBAC {
		c.BAC = chipsim.NewBAC(p.MRZInfo, mrand.New(mrand.NewPCG(seed, 1)))
	}
	if o.Access != BACOnly {
		ps := &chipsim.PACEState{RNG: mrand.New(mrand.NewPCG(seed, 2)), Passwords: map[byte][]byte{1: chipsim.PasswordKeyMRZ(p.MRZInfo), 2: []byte(p.CANStr)}}
		ps.Supported = []chipsim.PaceSupport{{Mapping: paceMapping(o.Access), Suite: o.Suite, ParamID: o.ParamID}}
		ps.CAMPriv = p.camPriv
		c.PACE = ps
	}
	if p.aa != nil {
		aa := *p.aa
		aa.RNG = mrand.New(mrand.NewPCG(seed, 3))
		aa.Challenges = nil
		c.AA = &aa
	}
	if len(p.caKeys) > 0 {
		c.CA = &chipsim.CAState{Keys: append([]chipsim.CAKey{}, p.caKeys...)}
	}
	return c
}
