// genrsa writes issuer/testdata/rsakeys.json: pre-generated RSA keys so that checks are
// fast and replays do not depend on key generation. Run once; output is committed.
package main

import (
	"crypto/rand"
	"encoding/json"
	"fmt"
	"math/big"
	"os"
)

type stored struct {
	Bits int    `json:"bits"`
	N    string `json:"n"`
	E    string `json:"e"`
	D    string `json:"d"`
}

func gen(bits int, e int64) stored {
	E := big.NewInt(e)
	one := big.NewInt(1)
	for {
		pb := (bits + 1) / 2
		qb := bits - pb
		p, err := rand.Prime(rand.Reader, pb)
		if err != nil {
			panic(err)
		}
		q, err := rand.Prime(rand.Reader, qb)
		if err != nil {
			panic(err)
		}
		if p.Cmp(q) == 0 {
			continue
		}
		n := new(big.Int).Mul(p, q)
		if n.BitLen() != bits {
			continue
		}
		phi := new(big.Int).Mul(new(big.Int).Sub(p, one), new(big.Int).Sub(q, one))
		d := new(big.Int).ModInverse(E, phi)
		if d == nil {
			continue
		}
		return stored{Bits: bits, N: n.Text(16), E: E.Text(16), D: d.Text(16)}
	}
}

func main() {
	var out []stored
	plan := map[int]int{1024: 3, 1025: 1, 1026: 1, 1027: 1, 1028: 1, 1029: 1, 1030: 1, 1031: 1, 1536: 2, 2048: 6, 3072: 3, 4096: 3}
	for _, bits := range []int{1024, 1025, 1026, 1027, 1028, 1029, 1030, 1031, 1536, 2048, 3072, 4096} {
		for i := 0; i < plan[bits]; i++ {
			e := int64(65537)
			if i%3 == 2 {
				e = 3
			}
			out = append(out, gen(bits, e))
			fmt.Fprintf(os.Stderr, "%d/%d\n", bits, i)
		}
	}
	b, _ := json.MarshalIndent(out, "", " ")
	os.WriteFile(os.Args[1], b, 0o644)
}
