// verifcheck <id> [--tier quick|thorough] [--seed n] [--replay file]
// internal: --worker i --nworkers n --from k --replay-idx k --out f --log f
package main

import (
	"flag"
	"fmt"
	"io"
	"log"
	"log/slog"
	"os"
	"strconv"

	"verifharness/checks"
	"verifharness/fw"
)

func main() {
	if len(os.Args) < 2 {
		fmt.Fprintln(os.Stderr, "usage: verifcheck <id>|list [flags]")
		os.Exit(2)
	}
	id := os.Args[1]
	if os.Getenv("VERIF_C20_COLD") == "1" {
		slog.SetDefault(slog.New(slog.NewTextHandler(io.Discard, &slog.HandlerOptions{Level: slog.LevelError + 8})))
		checks.C20ColdChild()
		return
	}
	if id == "list" {
		for _, s := range checks.All() {
			fmt.Println(s.ID)
		}
		return
	}
	fs := flag.NewFlagSet("verifcheck", flag.ExitOnError)
	tier := fs.String("tier", "", "quick|thorough")
	seedF := fs.String("seed", "", "seed (default VERIF_SEED or 1)")
	replay := fs.String("replay", "", "replay file")
	worker := fs.Int("worker", -1, "worker index (internal)")
	nworkers := fs.Int("nworkers", 1, "number of workers (internal)")
	from := fs.Int64("from", 0, "first case index (internal)")
	replayIdx := fs.Int64("replay-idx", -1, "run only this case (internal)")
	out := fs.String("out", "", "worker result file (internal)")
	logp := fs.String("log", "", "worker case log (internal)")
	fs.Parse(os.Args[2:])

	var spec *fw.Spec
	for _, s := range checks.All() {
		if s.ID == id {
			spec = s
		}
	}
	if spec == nil {
		fmt.Fprintf(os.Stderr, "unknown check %q\n", id)
		os.Exit(2)
	}
	t := *tier
	if t == "" {
		t = os.Getenv("VERIF_TIER")
	}
	if t == "" {
		t = "quick"
	}
	if t != "quick" && t != "thorough" {
		fmt.Fprintf(os.Stderr, "bad tier %q\n", t)
		os.Exit(2)
	}
	seed := int64(1)
	ss := *seedF
	if ss == "" {
		ss = os.Getenv("VERIF_SEED")
	}
	if ss != "" {
		v, err := strconv.ParseInt(ss, 10, 64)
		if err != nil {
			fmt.Fprintf(os.Stderr, "bad seed %q\n", ss)
			os.Exit(2)
		}
		seed = v
	}
	// the library logs through slog / log; keep worker output for the harness's own messages
	slog.SetDefault(slog.New(slog.NewTextHandler(io.Discard, &slog.HandlerOptions{Level: slog.LevelError + 8})))
	log.SetOutput(io.Discard)
	if *worker >= 0 {
		fw.RunWorker(spec, t, seed, *worker, *nworkers, *from, *replayIdx, *out, *logp)
		return
	}
	self, err := os.Executable()
	if err != nil {
		fmt.Fprintln(os.Stderr, err)
		os.Exit(2)
	}
	os.Exit(fw.RunParent(self, spec, t, seed, *replay))
}
