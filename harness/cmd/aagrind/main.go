// aagrind searches ECDSA nonces k whose r = x(k*G) mod n, written on the length of the
// group order, starts with octets that make a plain r||s active-authentication response
// look like a DER SEQUENCE header:
//
//	30 (L-2)       short-form length covering the rest of the response (L = 2*len(n))
//	30 81 (L-3)    long-form length covering the rest of the response
//	30 80, 30 82   neighbouring header shapes (indefinite length, two-octet long form)
//
// r depends on the nonce only, so the values are found once (this program, all cores) and
// hard-coded in checks/c07_shapes.go; the check recomputes r from k with the Jacobian ladder
// at start-up. P-521 is left out: its r starts with 00 or 01. Every run finds other nonces
// (random starting points); any of them will do.
//
//	go1.26.8 run ./cmd/aagrind              # every prefix, every curve (a few minutes on 16 cores)
//	go1.26.8 run ./cmd/aagrind -set short   # only the 2-octet prefix 30 (L-2) (seconds)
package main

import (
	"crypto/elliptic"
	crand "crypto/rand"
	"flag"
	"fmt"
	"math/big"
	"os"
	"runtime"
	"sync"
	"sync/atomic"
	"time"

	"verifharness/ecref"
)

func grind(c *ecref.Curve, prefix []byte, workers int) (*big.Int, *big.Int, int64) {
	nl := (c.N.BitLen() + 7) / 8
	lo, hi := ecref.PrefixRange(prefix, nl)
	var found atomic.Bool
	var tried atomic.Int64
	var mu sync.Mutex
	var rk, rr *big.Int
	var wg sync.WaitGroup
	for w := 0; w < workers; w++ {
		wg.Add(1)
		go func() {
			defer wg.Done()
			const chunk = 1 << 14
			for !found.Load() {
				k0, err := crand.Int(crand.Reader, c.N)
				if err != nil {
					panic(err)
				}
				k, r, ok := c.StepNonce(k0, chunk, lo, hi)
				tried.Add(chunk)
				if ok {
					mu.Lock()
					if rk == nil {
						rk, rr = k, r
					}
					mu.Unlock()
					found.Store(true)
				}
			}
		}()
	}
	wg.Wait()
	return rk, rr, tried.Load()
}

func main() {
	set := flag.String("set", "all", "which prefixes: short (30 L-2), long (30 81 L-3), extra (30 80 and 30 82), all")
	only := flag.String("curve", "", "only this curve")
	flag.Parse()
	if err := ecref.SelfTest(); err != nil {
		fmt.Fprintln(os.Stderr, "ecref self-test:", err)
		os.Exit(2)
	}
	nist := map[string]elliptic.Curve{"P-224": elliptic.P224(), "P-256": elliptic.P256(), "P-384": elliptic.P384()}
	workers := runtime.NumCPU()
	fmt.Println("var c07ShapeNonces = []c07ShapeNonce{")
	for _, c := range ecref.All() {
		if *only != "" && c.Name != *only {
			continue
		}
		nl := (c.N.BitLen() + 7) / 8
		L := 2 * nl
		if L-2 >= 128 {
			continue
		}
		var prefixes [][]byte
		if *set == "short" || *set == "all" {
			prefixes = append(prefixes, []byte{0x30, byte(L - 2)})
		}
		if *set == "long" || *set == "all" {
			prefixes = append(prefixes, []byte{0x30, 0x81, byte(L - 3)})
		}
		if *set == "extra" || *set == "all" {
			// neighbouring header shapes: indefinite length, two-octet long form
			prefixes = append(prefixes, []byte{0x30, 0x80}, []byte{0x30, 0x82})
		}
		for _, pf := range prefixes {
			t0 := time.Now()
			k, r, tried := grind(c, pf, workers)
			// independent confirmations
			if r2 := c.RFromNonce(k); r2 == nil || r2.Cmp(r) != 0 {
				fmt.Fprintf(os.Stderr, "%s: ladder disagrees with the stepping search\n", c.Name)
				os.Exit(2)
			}
			if e, ok := nist[c.Name]; ok {
				x, _ := e.ScalarBaseMult(k.Bytes())
				x.Mod(x, c.N)
				if x.Cmp(r) != 0 {
					fmt.Fprintf(os.Stderr, "%s: crypto/elliptic disagrees\n", c.Name)
					os.Exit(2)
				}
			}
			rb := r.FillBytes(make([]byte, nl))
			for i := range pf {
				if rb[i] != pf[i] {
					fmt.Fprintf(os.Stderr, "%s: prefix mismatch\n", c.Name)
					os.Exit(2)
				}
			}
			fmt.Printf("\t{%q, %q, \"%x\", \"%x\"}, // %d candidates, %s\n", c.Name, fmt.Sprintf("%x", pf), k, rb, tried, time.Since(t0).Round(time.Millisecond))
		}
	}
	fmt.Println("}")
}
