// Package mrzref is the independent reference for property C18: the ICAO 9303 7-3-1 check
// digit, the three machine-readable-zone layouts (TD1 3x30, TD2 2x36, TD3 2x44) written from
// the position tables of Doc 9303 parts 4, 5 and 6, a generator of well-formed zones that
// also returns the fields it encoded, the "MRZ information" of part 11 section 4.3 computed
// from those fields, and a judge that re-derives every check digit from a raw string.
//
// Std lib only; it must never import a gmrtd package.
package mrzref

import (
	"fmt"
	"math/rand/v2"
	"strings"
)

// Symbols is the MRZ alphabet (37 symbols).
const Symbols = "0123456789ABCDEFGHIJKLMNOPQRSTUVWXYZ<"

const (
	TD1 = "TD1"
	TD2 = "TD2"
	TD3 = "TD3"
)

var Layouts = []string{TD1, TD2, TD3}

// ZoneLen is the total number of characters of a layout.
func ZoneLen(layout string) int {
	switch layout {
	case TD1:
		return 90
	case TD2:
		return 72
	case TD3:
		return 88
	}
	panic("mrzref: unknown layout " + layout)
}

// LayoutOfLen returns the layout for a zone length ("" when the length is none of 90/72/88).
func LayoutOfLen(n int) string {
	switch n {
	case 90:
		return TD1
	case 72:
		return TD2
	case 88:
		return TD3
	}
	return ""
}

func symVal(c byte) (int, bool) {
	switch {
	case c >= '0' && c <= '9':
		return int(c - '0'), true
	case c >= 'A' && c <= 'Z':
		return int(c-'A') + 10, true
	case c == '<':
		return 0, true
	}
	return 0, false
}

// CheckDigit is the ICAO 9303-3 section 4.9 check digit (weights 7,3,1 repeating, modulus
// 10, digits 0-9, A-Z = 10-35, filler = 0). ok is false when s has a character outside the
// MRZ alphabet.
func CheckDigit(s string) (cd byte, ok bool) {
	w := [3]int{7, 3, 1}
	sum := 0
	for i := 0; i < len(s); i++ {
		v, good := symVal(s[i])
		if !good {
			return 0, false
		}
		sum += v * w[i%3]
	}
	return byte('0' + sum%10), true
}

func mustCD(s string) string {
	cd, ok := CheckDigit(s)
	if !ok {
		panic("mrzref: generator produced a character outside the MRZ alphabet: " + s)
	}
	return string(cd)
}

// AllFillers reports whether s consists only of '<' (the empty string included).
func AllFillers(s string) bool { return strings.Trim(s, "<") == "" }

func pad(s string, n int) string {
	if len(s) > n {
		panic(fmt.Sprintf("mrzref: value %q longer than its field (%d)", s, n))
	}
	return s + strings.Repeat("<", n-len(s))
}

// ---------------------------------------------------------------------------------------
// fields and builder

// Fields are the data elements a zone encodes, as ICAO characters: inner fillers are kept
// as '<', trailing fillers are removed (dates keep their six positions).
type Fields struct {
	Layout         string
	DocumentCode   string
	IssuingState   string
	Primary        string
	Secondary      string
	DocumentNumber string // 1..9 characters, or 10..22 (TD1) / 10..14 (TD2) in the extended form
	Nationality    string
	DateOfBirth    string // 6 positions, unknown parts as fillers
	Sex            string // "M", "F" or "" (filler)
	DateOfExpiry   string // 6 digits
	OptionalData   string
	OptionalData2  string // TD1 only
	// OptCD is the character in the TD3 optional-data check digit position; when the
	// field is empty ICAO 9303-4 allows either '0' or '<'.
	OptCD byte
}

// Extended reports whether the document number needs the extended (long) form.
func (f Fields) Extended() bool { return len(f.DocumentNumber) > 9 }

// NameField is the content of the name field before padding.
func (f Fields) NameField() string {
	if f.Secondary == "" {
		return f.Primary
	}
	return f.Primary + "<<" + f.Secondary
}

// NameLen is the length of the name field of a layout.
func NameLen(layout string) int {
	switch layout {
	case TD1:
		return 30
	case TD2:
		return 31
	}
	return 39
}

// OptLen is the length of the (first) optional data field of a layout.
func OptLen(layout string) int {
	switch layout {
	case TD1:
		return 15
	case TD2:
		return 7
	}
	return 14
}

// docAndOpt lays out the document number field (9 + check digit position) and the
// optional data field that follows the rules of 9303-5 4.2.2 / 9303-6 4.2.2 for numbers
// longer than nine characters: nine principal characters, '<' in the check digit
// position, then remaining characters + check digit + '<' at the start of optional data.
func docAndOpt(f Fields, optLen int) (doc10, opt string) {
	if !f.Extended() {
		d := pad(f.DocumentNumber, 9)
		return d + mustCD(d), pad(f.OptionalData, optLen)
	}
	d := f.DocumentNumber
	return d[:9] + "<", pad(d[9:]+mustCD(d)+"<"+f.OptionalData, optLen)
}

// Build assembles the zone of f (lines concatenated, no separators).
func Build(f Fields) string {
	switch f.Layout {
	case TD1:
		doc10, opt := docAndOpt(f, 15)
		l1 := pad(f.DocumentCode, 2) + pad(f.IssuingState, 3) + doc10 + opt
		l2 := f.DateOfBirth + mustCD(f.DateOfBirth) + pad(f.Sex, 1) + f.DateOfExpiry + mustCD(f.DateOfExpiry) +
			pad(f.Nationality, 3) + pad(f.OptionalData2, 11)
		l2 += mustCD(l1[5:30] + l2[0:7] + l2[8:15] + l2[18:29])
		l3 := pad(f.NameField(), 30)
		return l1 + l2 + l3
	case TD2:
		doc10, opt := docAndOpt(f, 7)
		l1 := pad(f.DocumentCode, 2) + pad(f.IssuingState, 3) + pad(f.NameField(), 31)
		l2 := doc10 + pad(f.Nationality, 3) + f.DateOfBirth + mustCD(f.DateOfBirth) + pad(f.Sex, 1) +
			f.DateOfExpiry + mustCD(f.DateOfExpiry) + opt
		l2 += mustCD(l2[0:10] + l2[13:20] + l2[21:35])
		return l1 + l2
	case TD3:
		if f.Extended() {
			panic("mrzref: TD3 has no extended document number")
		}
		l1 := pad(f.DocumentCode, 2) + pad(f.IssuingState, 3) + pad(f.NameField(), 39)
		d := pad(f.DocumentNumber, 9)
		o := pad(f.OptionalData, 14)
		ocd := string(f.OptCD)
		if f.OptionalData != "" {
			ocd = mustCD(o)
		}
		l2 := d + mustCD(d) + pad(f.Nationality, 3) + f.DateOfBirth + mustCD(f.DateOfBirth) + pad(f.Sex, 1) +
			f.DateOfExpiry + mustCD(f.DateOfExpiry) + o + ocd
		l2 += mustCD(l2[0:10] + l2[13:20] + l2[21:43])
		return l1 + l2
	}
	panic("mrzref: unknown layout " + f.Layout)
}

// Information is the "MRZ information" of 9303-11 section 4.3.2 / 9.7.1 computed from the
// fields: document number (padded to nine positions, or its full long form) + check digit,
// date of birth + check digit, date of expiry + check digit.
func Information(f Fields) string {
	d := f.DocumentNumber
	if len(d) < 9 {
		d = pad(d, 9)
	}
	return d + mustCD(d) + f.DateOfBirth + mustCD(f.DateOfBirth) + f.DateOfExpiry + mustCD(f.DateOfExpiry)
}

// ---------------------------------------------------------------------------------------
// generator

const letters = "ABCDEFGHIJKLMNOPQRSTUVWXYZ"
const digits = "0123456789"
const alnum = digits + letters

func pick(r *rand.Rand, set string) byte { return set[r.IntN(len(set))] }

// word returns n characters of set with single inner fillers sprinkled in with
// probability pf per inner position (never first, never last, never two in a row).
func word(r *rand.Rand, n int, set string, pf float64) string {
	b := make([]byte, n)
	for i := range b {
		b[i] = pick(r, set)
		if i > 0 && i < n-1 && b[i-1] != '<' && r.Float64() < pf {
			b[i] = '<'
		}
	}
	return string(b)
}

func genState(r *rand.Rand) string {
	if r.IntN(10) == 0 {
		return "D" // the one ICAO code shorter than three letters
	}
	return word(r, 3, letters, 0)
}

func genDate(r *rand.Rand) string {
	return fmt.Sprintf("%02d%02d%02d", r.IntN(100), 1+r.IntN(12), 1+r.IntN(28))
}

// genName returns primary and secondary identifiers fitting n positions (one "<<").
func genName(r *rand.Rand, n int) (string, string) {
	style := r.IntN(10)
	switch {
	case style == 0: // primary identifier only
		l := 1 + r.IntN(n)
		if r.IntN(3) == 0 {
			l = n // fills the field
		}
		return word(r, l, letters, 0.1), ""
	case style <= 2: // truncated: the name uses every position
		lp := 1 + r.IntN(n-3)
		return word(r, lp, letters, 0.1), word(r, n-2-lp, letters, 0.15)
	}
	lp := 1 + r.IntN(n-3)
	ls := 1 + r.IntN(n-2-lp)
	return word(r, lp, letters, 0.1), word(r, ls, letters, 0.15)
}

// Generate returns a well-formed zone of the layout and the fields it encodes. docLen is
// the document number length (1..9; 10..22 for TD1 and 10..14 for TD2 select the extended
// form); 0 picks one.
func Generate(r *rand.Rand, layout string, docLen int) (string, Fields) {
	f := Fields{Layout: layout}
	maxDoc := map[string]int{TD1: 22, TD2: 14, TD3: 9}[layout]
	if docLen <= 0 {
		docLen = 1 + r.IntN(maxDoc)
	}
	if docLen > maxDoc {
		panic("mrzref: document number too long for layout")
	}
	// document code
	switch layout {
	case TD3:
		f.DocumentCode = "P"
		if r.IntN(2) == 0 {
			f.DocumentCode += string(pick(r, letters))
		}
	default:
		f.DocumentCode = string(pick(r, "IAC"))
		if r.IntN(2) == 0 {
			f.DocumentCode += string(pick(r, "ABCDEFGHIJKLMNOPQRSTUWXYZ"))
		}
	}
	f.IssuingState = genState(r)
	f.Nationality = genState(r)
	f.Primary, f.Secondary = genName(r, NameLen(layout))

	// document number: digits, letters or mixed; fillers only among the first nine
	// characters and never as the last character of the number
	set := []string{digits, letters, alnum, alnum}[r.IntN(4)]
	b := []byte(word(r, docLen, set, 0))
	if r.IntN(4) == 0 {
		lim := min(docLen-1, 9)
		for i := 1; i < lim; i++ {
			if b[i-1] != '<' && r.IntN(4) == 0 {
				b[i] = '<'
			}
		}
	}
	f.DocumentNumber = string(b)

	// dates
	f.DateOfBirth = genDate(r)
	switch r.IntN(12) {
	case 0:
		f.DateOfBirth = f.DateOfBirth[:4] + "<<"
	case 1:
		f.DateOfBirth = f.DateOfBirth[:2] + "<<<<"
	case 2:
		f.DateOfBirth = "<<<<<<"
	}
	f.DateOfExpiry = genDate(r)
	f.Sex = []string{"M", "F", ""}[r.IntN(3)]

	// optional data
	avail := OptLen(layout)
	if f.Extended() {
		avail -= docLen - 9 + 2
	}
	genOpt := func(n int) string {
		switch r.IntN(5) {
		case 0:
			return ""
		case 1:
			return word(r, n, alnum, 0.15) // the whole field
		}
		if n == 0 {
			return ""
		}
		return word(r, 1+r.IntN(n), alnum, 0.15)
	}
	f.OptionalData = genOpt(avail)
	if layout == TD1 {
		f.OptionalData2 = genOpt(11)
	}
	if layout == TD3 {
		f.OptCD = "<0"[r.IntN(2)]
	}
	return Build(f), f
}

// ---------------------------------------------------------------------------------------
// raw slicing by the ICAO position tables (1-based line/position, as printed in 9303)

type zone struct {
	s       string
	lineLen int
}

// at returns positions from..to (inclusive, 1-based) of the given line (1-based).
func (z zone) at(line, from, to int) string {
	o := (line - 1) * z.lineLen
	return z.s[o+from-1 : o+to]
}

// Raw is the checked material of a zone, sliced from the raw string.
type Raw struct {
	Layout    string
	Doc       string // document number field (9)
	DocCD     string
	ExtField  string // optional data field that carries a long number's tail (TD1, TD2); "" for TD3
	Birth     string
	BirthCD   string
	Expiry    string
	ExpiryCD  string
	Opt       string // TD3 optional data (14); "" otherwise
	OptCD     string
	Composite string
	CompCD    string
}

// Slice cuts a string of 90, 72 or 88 bytes by the ICAO tables.
func Slice(s string) (Raw, bool) {
	switch len(s) {
	case 90: // 9303-5: upper line 6-14 number, 15 cd, 16-30 optional; middle line 1-6 birth, 7 cd,
		// 9-14 expiry, 15 cd, 19-29 optional, 30 composite over upper 6-30, middle 1-7, 9-15, 19-29
		z := zone{s, 30}
		return Raw{Layout: TD1, Doc: z.at(1, 6, 14), DocCD: z.at(1, 15, 15), ExtField: z.at(1, 16, 30),
			Birth: z.at(2, 1, 6), BirthCD: z.at(2, 7, 7), Expiry: z.at(2, 9, 14), ExpiryCD: z.at(2, 15, 15),
			Composite: z.at(1, 6, 30) + z.at(2, 1, 7) + z.at(2, 9, 15) + z.at(2, 19, 29), CompCD: z.at(2, 30, 30)}, true
	case 72: // 9303-6: lower line 1-9 number, 10 cd, 14-19 birth, 20 cd, 22-27 expiry, 28 cd,
		// 29-35 optional, 36 composite over 1-10, 14-20, 22-35
		z := zone{s, 36}
		return Raw{Layout: TD2, Doc: z.at(2, 1, 9), DocCD: z.at(2, 10, 10), ExtField: z.at(2, 29, 35),
			Birth: z.at(2, 14, 19), BirthCD: z.at(2, 20, 20), Expiry: z.at(2, 22, 27), ExpiryCD: z.at(2, 28, 28),
			Composite: z.at(2, 1, 10) + z.at(2, 14, 20) + z.at(2, 22, 35), CompCD: z.at(2, 36, 36)}, true
	case 88: // 9303-4: lower line 1-9 number, 10 cd, 14-19 birth, 20 cd, 22-27 expiry, 28 cd,
		// 29-42 optional, 43 cd, 44 composite over 1-10, 14-20, 22-43
		z := zone{s, 44}
		return Raw{Layout: TD3, Doc: z.at(2, 1, 9), DocCD: z.at(2, 10, 10),
			Birth: z.at(2, 14, 19), BirthCD: z.at(2, 20, 20), Expiry: z.at(2, 22, 27), ExpiryCD: z.at(2, 28, 28),
			Opt: z.at(2, 29, 42), OptCD: z.at(2, 43, 43),
			Composite: z.at(2, 1, 10) + z.at(2, 14, 20) + z.at(2, 22, 43), CompCD: z.at(2, 44, 44)}, true
	}
	return Raw{}, false
}

// CDPositions returns the 0-based offsets of the check digit positions of a layout in
// the order document number, birth, expiry, TD3 optional (-1 if none), composite; plus
// the offset and length of the optional field that can carry a long number's tail.
func CDPositions(layout string) (doc, birth, expiry, opt, comp, extOff, extLen int) {
	switch layout {
	case TD1:
		return 14, 36, 44, -1, 59, 15, 15
	case TD2:
		return 45, 55, 63, -1, 71, 64, 7
	}
	return 53, 63, 71, 86, 87, -1, 0
}

// ---------------------------------------------------------------------------------------
// judge

// Finding names a checked field whose check digit disagrees.
type Finding struct {
	Field string // docno | docno-extended | birth | expiry | optional | composite
	Data  string
	Got   string
	Want  string
}

// Verdict is the result of re-deriving all check digits of a raw string.
type Verdict struct {
	Layout  string
	Bad     []Finding
	Lenient []string // outcomes the property leaves room for (counted, never flagged)
	Skipped []string // fields with characters outside the MRZ alphabet (no ICAO check digit defined)
}

func (v *Verdict) simple(name, data, cd string) {
	want, ok := CheckDigit(data)
	if _, okc := symVal(cd[0]); !ok || !okc {
		v.Skipped = append(v.Skipped, name)
		return
	}
	if AllFillers(data) {
		// "non-empty checked field": an all-filler field is outside the statement, whatever
		// is in its check digit position ('<' = unset field, '0' = computed).
		switch {
		case cd == "<":
			v.Lenient = append(v.Lenient, "unset:"+name)
		case cd != "0":
			v.Lenient = append(v.Lenient, "empty-field-other-cd:"+name)
		}
		return
	}
	if cd != string(want) {
		v.Bad = append(v.Bad, Finding{name, data, cd, string(want)})
	}
}

// Judge recomputes every checked field of a 90/72/88-byte string. ok is false for other
// lengths.
func Judge(s string) (Verdict, bool) {
	r, ok := Slice(s)
	if !ok {
		return Verdict{}, false
	}
	v := Verdict{Layout: r.Layout}
	// document number
	switch {
	case r.DocCD != "<" || r.Layout == TD3:
		v.simple("docno", r.Doc, r.DocCD)
	case AllFillers(r.Doc):
		v.Lenient = append(v.Lenient, "unset:docno")
	default:
		// non-empty number with '<' in the check digit position: the long form. The tail is
		// "remaining characters, check digit, filler" at the start of the optional field.
		v.extended(r)
	}
	v.simple("birth", r.Birth, r.BirthCD)
	v.simple("expiry", r.Expiry, r.ExpiryCD)
	if r.Layout == TD3 {
		v.simple("optional", r.Opt, r.OptCD)
	}
	v.simple("composite", r.Composite, r.CompCD)
	return v, true
}

func (v *Verdict) extended(r Raw) {
	e := r.ExtField
	if _, ok := CheckDigit(r.Doc + e); !ok {
		v.Skipped = append(v.Skipped, "docno-extended")
		return
	}
	first := strings.IndexByte(e, '<')
	if first >= 1 {
		want, _ := CheckDigit(r.Doc + e[:first-1])
		if e[first-1] == want {
			return
		}
	}
	// any other split of the optional field into tail + agreeing check digit (+ filler or
	// end of field) is a reading a correct decoder could have taken when the tail itself
	// contains fillers
	for j := 0; j < len(e); j++ {
		if j+1 < len(e) && e[j+1] != '<' {
			continue
		}
		if want, _ := CheckDigit(r.Doc + e[:j]); e[j] == want {
			v.Lenient = append(v.Lenient, "extended-alt-split")
			return
		}
	}
	f := Finding{Field: "docno-extended", Data: r.Doc + "|" + e, Got: "<"}
	if first >= 1 {
		want, _ := CheckDigit(r.Doc + e[:first-1])
		f.Data, f.Got, f.Want = r.Doc+e[:first-1], e[first-1:first], string(want)
	}
	v.Bad = append(v.Bad, f)
}

// RawInformation reads the MRZ information directly from a raw string when its three key
// fields are well-formed: digit check digits that agree with the reference; for TD1/TD2
// either the plain form or the long form with a filler-free, non-empty tail. extended
// tells which form was read.
func RawInformation(s string) (info string, extended bool, ok bool) {
	r, good := Slice(s)
	if !good {
		return "", false, false
	}
	isDigit := func(c string) bool { return c[0] >= '0' && c[0] <= '9' }
	agree := func(data, cd string) bool {
		want, ok := CheckDigit(data)
		return ok && isDigit(cd) && cd[0] == want
	}
	if !agree(r.Birth, r.BirthCD) || !agree(r.Expiry, r.ExpiryCD) {
		return "", false, false
	}
	doc, cd := r.Doc, r.DocCD
	if cd == "<" && r.Layout != TD3 && !AllFillers(doc) {
		first := strings.IndexByte(r.ExtField, '<')
		if first < 2 {
			return "", false, false
		}
		doc, cd, extended = doc+r.ExtField[:first-1], r.ExtField[first-1:first], true
	}
	if !agree(doc, cd) {
		return "", false, false
	}
	return doc + cd + r.Birth + r.BirthCD + r.Expiry + r.ExpiryCD, extended, true
}

// Repair rewrites the check digit positions of b (a 90/72/88-byte buffer) selected by
// mask (bit0 document number, bit1 birth, bit2 expiry, bit3 TD3 optional, bit4 composite)
// with the reference values; field digits first, composite last. ext > 0 (TD1/TD2 only)
// first turns the number into the long form with a tail of ext characters.
func Repair(b []byte, mask int, ext int) {
	layout := LayoutOfLen(len(b))
	if layout == "" {
		return
	}
	pd, pb, pe, po, pc, extOff, extLen := CDPositions(layout)
	set := func(pos int, data string) {
		if cd, ok := CheckDigit(data); ok {
			b[pos] = cd
		}
	}
	if ext > 0 && extLen > 0 {
		if ext > extLen-2 {
			ext = extLen - 2
		}
		b[pd] = '<'
		for i := 0; i < ext; i++ {
			if b[extOff+i] == '<' {
				b[extOff+i] = '0'
			}
		}
		b[extOff+ext+1] = '<'
		r, _ := Slice(string(b))
		set(extOff+ext, r.Doc+string(b[extOff:extOff+ext]))
	} else if mask&1 != 0 {
		r, _ := Slice(string(b))
		set(pd, r.Doc)
	}
	r, _ := Slice(string(b))
	if mask&2 != 0 {
		set(pb, r.Birth)
	}
	if mask&4 != 0 {
		set(pe, r.Expiry)
	}
	if mask&8 != 0 && po >= 0 {
		set(po, r.Opt)
	}
	if mask&16 != 0 {
		r, _ = Slice(string(b))
		set(pc, r.Composite)
	}
}

// ---------------------------------------------------------------------------------------
// self-test against the specimen zones printed in Doc 9303

type specimen struct {
	zone, info string
}

var specimens = []specimen{
	{"P<UTOERIKSSON<<ANNA<MARIA<<<<<<<<<<<<<<<<<<<L898902C36UTO7408122F1204159ZE184226B<<<<<10", "L898902C3674081221204159"},
	{"I<UTOD231458907<<<<<<<<<<<<<<<7408122F1204159UTO<<<<<<<<<<<6ERIKSSON<<ANNA<MARIA<<<<<<<<<<", "D23145890774081221204159"},
	{"I<UTOERIKSSON<<ANNA<MARIA<<<<<<<<<<<D231458907UTO7408122F1204159<<<<<<<6", "D23145890774081221204159"},
	{"I<UTOD23145890<7349<<<<<<<<<<<3407127M9507122UTO<<<<<<<<<<<2STEVENSON<<PETER<JOHN<<<<<<<<<", "D23145890734934071279507122"},
	{"I<UTOSTEVENSON<<PETER<JOHN<<<<<<<<<<D23145890<UTO3407127M95071227349<<<8", "D23145890734934071279507122"},
}

// SelfTest checks the reference against the ICAO specimens and against itself; it returns
// a description of the first disagreement or "".
func SelfTest() string {
	for _, sp := range specimens {
		v, ok := Judge(sp.zone)
		if !ok || len(v.Bad) != 0 || len(v.Lenient) != 0 || len(v.Skipped) != 0 {
			return fmt.Sprintf("judge disagrees with ICAO specimen %s: %+v", sp.zone, v)
		}
		info, _, ok := RawInformation(sp.zone)
		if !ok || info != sp.info {
			return fmt.Sprintf("RawInformation(%s) = %q, %v; want %q", sp.zone, info, ok, sp.info)
		}
	}
	// rebuild the specimens from fields
	f := Fields{Layout: TD1, DocumentCode: "I", IssuingState: "UTO", Primary: "STEVENSON", Secondary: "PETER<JOHN",
		DocumentNumber: "D23145890734", Nationality: "UTO", DateOfBirth: "340712", Sex: "M", DateOfExpiry: "950712"}
	if Build(f) != specimens[3].zone || Information(f) != specimens[3].info {
		return "Build/Information disagree with the TD1 long-number specimen: " + Build(f)
	}
	f.Layout = TD2
	if Build(f) != specimens[4].zone {
		return "Build disagrees with the TD2 long-number specimen: " + Build(f)
	}
	f = Fields{Layout: TD3, DocumentCode: "P", IssuingState: "UTO", Primary: "ERIKSSON", Secondary: "ANNA<MARIA",
		DocumentNumber: "L898902C3", Nationality: "UTO", DateOfBirth: "740812", Sex: "F", DateOfExpiry: "120415", OptionalData: "ZE184226B"}
	if Build(f) != specimens[0].zone || Information(f) != specimens[0].info {
		return "Build/Information disagree with the TD3 specimen: " + Build(f)
	}
	// a one-symbol change of every checked position of a specimen must be noticed
	for _, sp := range specimens {
		b := []byte(sp.zone)
		pd, pb, pe, po, pc, _, _ := CDPositions(LayoutOfLen(len(b)))
		for _, p := range []int{pd, pb, pe, po, pc} {
			if p < 0 || b[p] == '<' {
				continue
			}
			old := b[p]
			b[p] = '0' + (old-'0'+1)%10
			if v, _ := Judge(string(b)); len(v.Bad) == 0 {
				return fmt.Sprintf("judge misses a wrong check digit at offset %d of %s", p, sp.zone)
			}
			b[p] = old
		}
	}
	return ""
}
