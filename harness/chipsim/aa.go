package chipsim

import (
	"math/big"
	mrand "math/rand/v2"

	"verifharness/ecref"
)

// Hash identifiers for the ISO/IEC 9796-2 trailer.
type AAHash int

const (
	AASHA1 AAHash = iota
	AASHA224
	AASHA256
	AASHA384
	AASHA512
)

var AATrailers = map[AAHash][]byte{AASHA1: {0xBC}, AASHA224: {0x38, 0xCC}, AASHA256: {0x34, 0xCC}, AASHA384: {0x36, 0xCC}, AASHA512: {0x35, 0xCC}}

// AAState is the chip half of Active Authentication (ICAO 9303-11 section 6.1).
type AAState struct {
	RNG *mrand.Rand
	// FailNext: that many INTERNAL AUTHENTICATE commands are answered 6F00 after the challenge was taken
	FailNext int
	// RSA
	N, E, D *big.Int
	Hash    AAHash
	HashFn  func(h AAHash, data []byte) []byte
	M1Mode  int // 0 random, 1 all zero, 2 leading zeros
	// ECDSA
	Curve  *ecref.Curve
	Priv   *big.Int
	ECHash func(c *ecref.Curve, data []byte) []byte
	DER    bool // DER Ecdsa-Sig-Value instead of plain r||s
	// Nonce, when set, is the ECDSA nonce of every signature (default nil: drawn from RNG).
	// Monitors use it to obtain genuine responses whose r has a chosen shape.
	Nonce *big.Int
	// truth
	Challenges [][]byte
	LastM1     []byte
	LastF      []byte
	LastSig    []byte

	// GrindLeadingZero (default off) makes the chip sign again (fresh M1 / fresh ECDSA nonce)
	// until a signature component is shorter than its field: 1 = the RSA signature
	// representative or the ECDSA r, 2 = the ECDSA s. The response keeps its fixed length
	// (RSA, plain ECDSA: a leading zero octet) or uses the shorter DER INTEGER.
	GrindLeadingZero int
	GrindTries       int      // truth: extra signatures made
	LastR, LastS     *big.Int // truth: the last ECDSA signature
}

func (a *AAState) groundOK(sig []byte) bool {
	if a.N != nil {
		return len(sig) > 0 && sig[0] == 0
	}
	n := (a.Curve.N.BitLen() + 7) / 8
	if a.GrindLeadingZero == 2 {
		return a.LastS != nil && len(a.LastS.Bytes()) < n
	}
	return a.LastR != nil && len(a.LastR.Bytes()) < n
}

// SignRSA builds the ISO/IEC 9796-2 scheme 1 signature over M1 || RND.IFD.
func (a *AAState) SignRSA(rnd []byte) []byte {
	k := (a.N.BitLen() + 7) / 8
	fLen := k
	if a.N.BitLen()%8 != 0 {
		// byte-oriented recoverable string that is certainly smaller than the modulus
		fLen = (a.N.BitLen() - 1) / 8
	}
	t := AATrailers[a.Hash]
	hLen := len(a.HashFn(a.Hash, nil))
	m1Len := fLen - 1 - hLen - len(t)
	m1 := make([]byte, m1Len)
	switch a.M1Mode {
	case 0:
		for i := range m1 {
			m1[i] = byte(a.RNG.Uint32())
		}
	case 1:
	case 2:
		for i := m1Len / 2; i < m1Len; i++ {
			m1[i] = byte(a.RNG.Uint32())
		}
	}
	d := a.HashFn(a.Hash, append(append([]byte{}, m1...), rnd...))
	f := append([]byte{0x6A}, m1...)
	f = append(f, d...)
	f = append(f, t...)
	a.LastM1, a.LastF = m1, f
	s := new(big.Int).Exp(new(big.Int).SetBytes(f), a.D, a.N)
	return s.FillBytes(make([]byte, k))
}

// SignEC signs RND.IFD with ECDSA (plain or DER).
func (a *AAState) SignEC(rnd []byte) []byte {
	h := a.ECHash(a.Curve, rnd)
	for tries := 0; ; {
		kb := make([]byte, a.Curve.ByteLen+8)
		for i := range kb {
			kb[i] = byte(a.RNG.Uint32())
		}
		nonce := new(big.Int).SetBytes(kb)
		if a.Nonce != nil && tries == 0 {
			nonce = a.Nonce
		}
		tries++
		r, s, ok := a.Curve.Sign(a.Priv, h, nonce)
		if !ok {
			continue
		}
		a.LastR, a.LastS = r, s
		if a.DER {
			ri, si := derInt(r), derInt(s)
			body := append(ri, si...)
			return append(append([]byte{0x30}, BERLen(len(body))...), body...)
		}
		n := (a.Curve.N.BitLen() + 7) / 8
		return append(r.FillBytes(make([]byte, n)), s.FillBytes(make([]byte, n))...)
	}
}

func derInt(v *big.Int) []byte {
	b := v.Bytes()
	if len(b) == 0 {
		b = []byte{0}
	}
	if b[0]&0x80 != 0 {
		b = append([]byte{0}, b...)
	}
	return append(append([]byte{0x02}, BERLen(len(b))...), b...)
}

func (a *AAState) internalAuthenticate(c *Card, cmd *Cmd) ([]byte, uint16) {
	if cmd.P1 != 0 || cmd.P2 != 0 || len(cmd.Data) != 8 || cmd.Ne == 0 {
		return nil, 0x6700
	}
	if c.AuthRequired && !c.Authed {
		return nil, 0x6982
	}
	a.Challenges = append(a.Challenges, append([]byte{}, cmd.Data...))
	c.AAChallenges = a.Challenges
	if a.FailNext > 0 {
		// a transient card error: the challenge was received, no signature is produced
		a.FailNext--
		return nil, 0x6F00
	}
	sign := a.SignEC
	if a.N != nil {
		sign = a.SignRSA
	}
	sig := sign(cmd.Data)
	if a.GrindLeadingZero > 0 {
		for i := 0; i < 20000 && !a.groundOK(sig); i++ {
			sig = sign(cmd.Data)
			a.GrindTries++
		}
	}
	a.LastSig = sig
	if len(sig) > cmd.Ne {
		return nil, 0x6700 // response does not fit the expected length (no extended length)
	}
	return sig, 0x9000
}
