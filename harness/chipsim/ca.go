package chipsim

import (
	"bytes"
	"math/big"

	"verifharness/der"
	"verifharness/ecref"
	"verifharness/symref"
)

// CAKey is one static chip authentication key pair.
type CAKey struct {
	KeyID int // -1: no key identifier
	Curve *ecref.Curve
	Priv  *big.Int // nil: the chip does NOT hold the private key (clone)
	Pub   ecref.Point
}

// CAOID returns the content octets of id-CA-ECDH-<suite>.
func CAOID(s symref.Suite) []byte { return der.OIDBytes(0, 4, 0, 127, 0, 7, 2, 2, 3, 2, int(s)+1) }

// CAState is the chip half of Chip Authentication version 1 over ECDH
// (ICAO 9303-11 section 6.2): MSE:Set AT + GENERAL AUTHENTICATE, or MSE:Set KAT.
type CAState struct {
	Keys []CAKey
	// FakeSecret lets an impostor chip (without the private key) derive session keys from
	// something else: it receives the terminal's public key and returns the "shared secret".
	FakeSecret func(k *CAKey, pkIFD ecref.Point) []byte
	// Announced (default nil = every suite with every key): the combinations of cipher suite
	// and key identifier the chip announces in its ChipAuthenticationInfos (KeyID -1: info
	// without key identifier). When set, MSE:Set AT naming any other combination of protocol
	// and key reference is refused (6A80), as a chip does that binds each key to its suite.
	Announced []CAAnnounce
	// RequireAccess (default off): the chip refuses chip authentication with 6982 while its
	// access condition is not satisfied (Card.AuthRequired and not Card.Authed).
	RequireAccess bool

	pending bool
	suite   symref.Suite
	key     *CAKey

	// truth
	UsedPrivateKey bool
	K              []byte
	KSEnc, KSMac   []byte
	Suite          symref.Suite
	Runs           int
	LastPKIFD      []byte
	ViaKAT         bool
	LastKey        *CAKey // key of the last completed key agreement
	Refused        int    // commands refused because of RequireAccess / Announced
}

// CAAnnounce is one announced ChipAuthenticationInfo: suite and key identifier (-1: none).
type CAAnnounce struct {
	Suite symref.Suite
	KeyID int
}

func (a *CAState) announced(s symref.Suite, keyRef []byte) bool {
	if a.Announced == nil {
		return true
	}
	for _, an := range a.Announced {
		if an.Suite != s {
			continue
		}
		if keyRef == nil && an.KeyID < 0 {
			return true
		}
		if keyRef != nil && an.KeyID >= 0 && new(big.Int).SetBytes(keyRef).Cmp(big.NewInt(int64(an.KeyID))) == 0 {
			return true
		}
	}
	return false
}

func (a *CAState) selectKey(keyRef []byte) *CAKey {
	if keyRef == nil {
		if len(a.Keys) == 1 {
			return &a.Keys[0]
		}
		// several keys and no reference: a chip uses its default key (the first one)
		if len(a.Keys) > 0 {
			return &a.Keys[0]
		}
		return nil
	}
	id := new(big.Int).SetBytes(keyRef)
	for i := range a.Keys {
		if a.Keys[i].KeyID >= 0 && id.Cmp(big.NewInt(int64(a.Keys[i].KeyID))) == 0 {
			return &a.Keys[i]
		}
	}
	return nil
}

func (a *CAState) mse(c *Card, cmd *Cmd) ([]byte, uint16) {
	a.pending = false
	if a.RequireAccess && c.AuthRequired && !c.Authed {
		a.Refused++
		return nil, 0x6982
	}
	dos, err := ParseDOs(cmd.Data)
	if err != nil {
		return nil, 0x6A80
	}
	var oid, keyRef, pk []byte
	for _, d := range dos {
		switch d.Tag {
		case 0x80:
			oid = d.Val
		case 0x84:
			keyRef = d.Val
		case 0x91:
			pk = d.Val
		}
	}
	if cmd.P2 == 0xA4 { // MSE:Set AT
		if oid == nil {
			return nil, 0x6A80
		}
		found := false
		for _, s := range symref.AllSuites {
			if bytes.Equal(CAOID(s), oid) {
				a.suite, found = s, true
			}
		}
		if !found {
			return nil, 0x6A80
		}
		if !a.announced(a.suite, keyRef) {
			a.Refused++
			return nil, 0x6A80
		}
		a.key = a.selectKey(keyRef)
		if a.key == nil {
			return nil, 0x6A88
		}
		a.pending = true
		return nil, 0x9000
	}
	// MSE:Set KAT (3DES, version 1)
	if pk == nil {
		return nil, 0x6A80
	}
	a.key = a.selectKey(keyRef)
	if a.key == nil {
		return nil, 0x6A88
	}
	a.suite = symref.TDES
	a.ViaKAT = true
	return a.agree(c, pk, nil)
}

func (a *CAState) generalAuthenticate(c *Card, cmd *Cmd) ([]byte, uint16) {
	a.pending = false
	if a.RequireAccess && c.AuthRequired && !c.Authed {
		a.Refused++
		return nil, 0x6982
	}
	if cmd.CLA&0x10 != 0 {
		return nil, 0x6A80
	}
	dos, err := parseDynAuth(cmd.Data)
	if err != nil || len(dos) != 1 || dos[0].Tag != 0x80 {
		return nil, 0x6A80
	}
	a.ViaKAT = false
	return a.agree(c, dos[0].Val, []byte{0x7C, 0x00})
}

func (a *CAState) agree(c *Card, pkBytes, resp []byte) ([]byte, uint16) {
	k := a.key
	pk, err := k.Curve.Decode(pkBytes)
	if err != nil {
		return nil, 0x6A80
	}
	a.LastPKIFD = append([]byte{}, pkBytes...)
	a.Runs++
	var secret []byte
	switch {
	case k.Priv != nil:
		pt := k.Curve.Mul(k.Priv, pk)
		if pt.Inf {
			return nil, 0x6300
		}
		secret = k.Curve.FE2OS(pt.X)
		a.UsedPrivateKey = true
	case a.FakeSecret != nil:
		secret = a.FakeSecret(k, pk)
		a.UsedPrivateKey = false
	default:
		return nil, 0x6300
	}
	a.K = secret
	a.LastKey = k
	a.Suite = a.suite
	a.KSEnc, a.KSMac = symref.KDF(secret, 1, a.suite), symref.KDF(secret, 2, a.suite)
	suite, kenc, kmac, real := a.suite, a.KSEnc, a.KSMac, k.Priv != nil
	c.postResponse = func() {
		c.SM = NewSM(suite, kenc, kmac, nil)
		if real {
			c.CADone = true
		}
	}
	return resp, 0x9000
}
