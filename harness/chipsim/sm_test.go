package chipsim

import (
	"bytes"
	"testing"

	"verifharness/symref"
)

// ICAO 9303-11 Appendix D.4 worked example.
func TestSMAppendixD4(t *testing.T) {
	sm := NewSM(symref.TDES, symref.MustHex("979EC13B1CBFE9DCD01AB0FED307EAE5"), symref.MustHex("F1CB1F1FB5ADF208806B89DC579DC1F8"), symref.MustHex("887022120C06C226"))
	cmd, err := sm.Unwrap(symref.MustHex("0CA4020C158709016375432908C044F68E08BF8B92D635FF24F800"))
	if err != nil {
		t.Fatal(err)
	}
	if cmd.INS != 0xA4 || !bytes.Equal(cmd.Data, []byte{0x01, 0x1E}) || cmd.Ne != 0 {
		t.Fatalf("cmd %+v", cmd)
	}
	rsp := sm.Wrap(nil, 0x9000)
	if !bytes.Equal(rsp, symref.MustHex("990290008E08FA855A5D4C50A8ED9000")) {
		t.Fatalf("rsp %x", rsp)
	}
	// READ BINARY of 4 bytes
	cmd, err = sm.Unwrap(symref.MustHex("0CB000000D9701048E08ED6705417E96BA5500"))
	if err != nil {
		t.Fatal(err)
	}
	if cmd.INS != 0xB0 || cmd.Ne != 4 {
		t.Fatalf("cmd %+v", cmd)
	}
	rsp = sm.Wrap(symref.MustHex("60145F01"), 0x9000)
	if !bytes.Equal(rsp, symref.MustHex("8709019FF0EC34F9922651990290008E08AD55CC17140B2DED9000")) {
		t.Fatalf("rsp %x", rsp)
	}
}
