package chipsim

import (
	"bytes"
	"crypto/sha1"
	"fmt"
	"math/big"
	mrand "math/rand/v2"

	"verifharness/der"
	"verifharness/ecref"
	"verifharness/symref"
)

// PACE object identifiers (BSI TR-03110 / ICAO 9303-11): id-PACE = 0.4.0.127.0.7.2.2.4
const (
	PaceDHGM    = 1
	PaceECDHGM  = 2
	PaceDHIM    = 3
	PaceECDHIM  = 4
	PaceECDHCAM = 6
)

// PaceOID returns the content octets of id-PACE.<mapping>.<suite+1>.
func PaceOID(mapping int, s symref.Suite) []byte {
	return der.OIDBytes(0, 4, 0, 127, 0, 7, 2, 2, 4, mapping, int(s)+1)
}

func PaceOIDArcs(mapping int, s symref.Suite) []int {
	return []int{0, 4, 0, 127, 0, 7, 2, 2, 4, mapping, int(s) + 1}
}

// PaceInfoDER builds PACEInfo ::= SEQUENCE { protocol OID, version INTEGER(2), parameterId INTEGER OPTIONAL }.
func PaceInfoDER(oidArcs []int, version int, paramID int) []byte {
	parts := [][]byte{der.OID(oidArcs...), der.Int64(int64(version))}
	if paramID >= 0 {
		parts = append(parts, der.Int64(int64(paramID)))
	}
	return der.Seq(parts...)
}

// PasswordKeyMRZ is f(pi) for an MRZ password: SHA-1 of the MRZ information (9303-11 9.7.3).
func PasswordKeyMRZ(mrzInfo string) []byte {
	h := sha1.Sum([]byte(mrzInfo))
	return h[:]
}

type PaceSupport struct {
	Mapping int
	Suite   symref.Suite
	ParamID int
}

// PACEState is the chip half of PACE with generic mapping or chip authentication mapping
// over elliptic curves (ICAO 9303-11 section 4.4).
type PACEState struct {
	Passwords map[byte][]byte // password reference (1 = MRZ, 2 = CAN) -> f(pi)
	Supported []PaceSupport
	RNG       *mrand.Rand
	NonceLen  int // octets, default 16

	// static chip authentication key for CAM (on the curve of the CAM parameter id)
	CAMPriv *big.Int

	// scripting
	NextNonce []byte
	NextSKMap *big.Int
	NextSKDH  *big.Int
	// grinding: step the ephemeral private key until the value has this many leading zero octets
	GrindSharedX  int                                // shared secret x-coordinate (needs the terminal's public key, step 3)
	GrindPKMapX   int                                // chip mapping public key X
	GrindPKDHX    int                                // chip agreement public key X
	GrindPKDHY    int                                // chip agreement public key Y
	GrindMaxSteps int                                // default 400000
	Deviate       func(step int, resp []byte) []byte // replaces the data field of one response
	// LastTerminalKey is the public key the terminal sent in the step being answered
	LastTerminalKey []byte

	// further grinding targets of the mapping step (default off; set at most one Grind* option per step)
	GrindPKMapY     int // chip mapping public key Y
	GrindMapSharedX int // x-coordinate of the mapping shared secret H = skMap * PKmap,IFD
	GrindCAIC       int // chip authentication data CA_IC = skCA^-1 * skMap mod n of PACE-CAM (fixed-length octet string)

	// session
	step     int
	sel      PaceSupport
	oid      []byte
	curve    *ecref.Curve
	kpi      []byte
	pwdRef   byte
	s        []byte
	skMap    *big.Int
	pkMapIC  ecref.Point
	gMapped  ecref.Point
	skDH     *big.Int
	pkDHIC   ecref.Point
	pkDHIFD  ecref.Point
	pkMapIFD ecref.Point

	// truth
	Done           bool
	Sel            PaceSupport
	Nonce          []byte
	K              []byte // shared secret, fixed length
	KSEnc, KSMac   []byte
	SharedXLeading int // leading zero octets of K
	TokenOK        bool
	Attempts       int
	CAIC           []byte
	GrindSteps     int
}

func (p *PACEState) rnd(n int) []byte {
	out := make([]byte, n)
	for i := range out {
		out[i] = byte(p.RNG.Uint32())
	}
	return out
}

func (p *PACEState) randScalar(c *ecref.Curve) *big.Int {
	for {
		k := new(big.Int).SetBytes(p.rnd(c.ByteLen + 8))
		k.Mod(k, new(big.Int).Sub(c.N, big.NewInt(2)))
		k.Add(k, big.NewInt(2))
		return k
	}
}

func leadingZeros(b []byte) int {
	n := 0
	for _, x := range b {
		if x != 0 {
			break
		}
		n++
	}
	return n
}

// grind steps (k, k*base) by +1 / +base until pred(point) holds.
func (p *PACEState) grind(c *ecref.Curve, k *big.Int, base ecref.Point, pred func(ecref.Point) bool) (*big.Int, ecref.Point) {
	pt := c.Mul(k, base)
	max := p.GrindMaxSteps
	if max == 0 {
		max = 400000
	}
	k = new(big.Int).Set(k)
	for i := 0; i < max; i++ {
		if !pt.Inf && pred(pt) {
			p.GrindSteps += i
			return k, pt
		}
		pt = c.AddAffine(pt, base)
		k.Add(k, big.NewInt(1))
		if k.Cmp(c.N) >= 0 {
			k.SetInt64(1)
			pt = base
		}
	}
	panic("chipsim: grinding did not terminate")
}

func dynAuth(parts ...[]byte) []byte {
	var body []byte
	for _, p := range parts {
		body = append(body, p...)
	}
	return TLV(0x7C, body)
}

// parse 7C { tag value }, returning the DOs inside.
func parseDynAuth(data []byte) ([]DO, error) {
	outer, err := ParseDOs(data)
	if err != nil || len(outer) != 1 || outer[0].Tag != 0x7C {
		return nil, fmt.Errorf("not a single 7C object")
	}
	return ParseDOs(outer[0].Val)
}

// PublicKeyDO is the public key data object used for authentication tokens:
// 7F49 { 06 oid, 86 point } (9303-11 9.4.5).
func PublicKeyDO(oid []byte, point []byte) []byte {
	body := append(TLV(0x06, oid), TLV(0x86, point)...)
	return append([]byte{0x7F, 0x49}, append(BERLen(len(body)), body...)...)
}

// AuthToken computes T = MAC(KSmac, public key data object).
func AuthToken(s symref.Suite, ksmac, oid, point []byte) []byte {
	d := PublicKeyDO(oid, point)
	if s == symref.TDES {
		return symref.RetailMAC(ksmac, symref.Pad2(d, 8))
	}
	return symref.CMAC(symref.Block(s, ksmac), d)[:8]
}

func (c *Card) doMSE(cmd *Cmd) ([]byte, uint16) {
	switch {
	case cmd.P1 == 0xC1 && cmd.P2 == 0xA4:
		if c.PACE == nil {
			return nil, 0x6A80
		}
		return c.PACE.mseSetAT(c, cmd)
	case cmd.P1 == 0x41 && (cmd.P2 == 0xA4 || cmd.P2 == 0xA6):
		if c.CA == nil {
			return nil, 0x6A80
		}
		return c.CA.mse(c, cmd)
	}
	return nil, 0x6A86
}

func (c *Card) doGA(cmd *Cmd) ([]byte, uint16) {
	if cmd.P1 != 0 || cmd.P2 != 0 {
		return nil, 0x6A86
	}
	if c.PACE != nil && c.PACE.step > 0 {
		return c.PACE.generalAuthenticate(c, cmd)
	}
	if c.CA != nil && c.CA.pending {
		return c.CA.generalAuthenticate(c, cmd)
	}
	return nil, 0x6985
}

func (p *PACEState) reset() { p.step = 0 }

func (p *PACEState) mseSetAT(c *Card, cmd *Cmd) ([]byte, uint16) {
	p.reset()
	dos, err := ParseDOs(cmd.Data)
	if err != nil {
		return nil, 0x6A80
	}
	var oid, ref, pid []byte
	for _, d := range dos {
		switch d.Tag {
		case 0x80:
			oid = d.Val
		case 0x83:
			ref = d.Val
		case 0x84:
			pid = d.Val
		}
	}
	if oid == nil || len(ref) != 1 {
		return nil, 0x6A80
	}
	var cands []PaceSupport
	for _, s := range p.Supported {
		if bytes.Equal(PaceOID(s.Mapping, s.Suite), oid) {
			cands = append(cands, s)
		}
	}
	if len(cands) == 0 {
		return nil, 0x6A80
	}
	var sel *PaceSupport
	if pid != nil {
		if len(pid) != 1 {
			return nil, 0x6A80
		}
		for i := range cands {
			if cands[i].ParamID == int(pid[0]) {
				sel = &cands[i]
			}
		}
		if sel == nil {
			return nil, 0x6A80
		}
	} else {
		if len(cands) > 1 {
			return nil, 0x6A88 // ambiguous without parameter id
		}
		sel = &cands[0]
	}
	pw, ok := p.Passwords[ref[0]]
	if !ok {
		return nil, 0x6A88
	}
	p.sel, p.oid, p.pwdRef = *sel, append([]byte{}, oid...), ref[0]
	p.curve = ecref.ByParamID(sel.ParamID)
	if p.curve == nil {
		return nil, 0x6A80
	}
	p.kpi = symref.KDF(pw, 3, sel.Suite)
	p.step = 1
	p.Attempts++
	return nil, 0x9000
}

func (p *PACEState) respond(step int, data []byte) ([]byte, uint16) {
	if p.Deviate != nil {
		if alt := p.Deviate(step, data); alt != nil {
			data = alt
		}
	}
	return data, 0x9000
}

func (p *PACEState) generalAuthenticate(c *Card, cmd *Cmd) ([]byte, uint16) {
	fail := func(sw uint16) ([]byte, uint16) {
		p.reset()
		return nil, sw
	}
	chained := cmd.CLA&0x10 != 0
	dos, err := parseDynAuth(cmd.Data)
	if err != nil {
		return fail(0x6A80)
	}
	cv := p.curve
	switch p.step {
	case 1: // encrypted nonce
		if !chained || len(dos) != 0 {
			return fail(0x6A80)
		}
		n := p.NonceLen
		if n == 0 {
			n = 16
		}
		if p.NextNonce != nil {
			p.s = append([]byte{}, p.NextNonce...)
			p.NextNonce = nil
		} else {
			p.s = p.rnd(n)
		}
		z := symref.CBC(symref.Block(p.sel.Suite, p.kpi), make([]byte, p.sel.Suite.BlockSize()), p.s, true)
		p.step = 2
		return p.respond(1, dynAuth(TLV(0x80, z)))
	case 2: // map nonce
		if !chained || len(dos) != 1 || dos[0].Tag != 0x81 {
			return fail(0x6A80)
		}
		pk, err := cv.Decode(dos[0].Val)
		if err != nil {
			return fail(0x6A80)
		}
		p.pkMapIFD = pk
		p.LastTerminalKey = append([]byte{}, dos[0].Val...)
		if p.NextSKMap != nil {
			p.skMap, p.NextSKMap = p.NextSKMap, nil
		} else {
			p.skMap = p.randScalar(cv)
		}
		if p.GrindPKMapX > 0 {
			p.skMap, _ = p.grind(cv, p.skMap, cv.G(), func(q ecref.Point) bool { return leadingZeros(cv.FE2OS(q.X)) >= p.GrindPKMapX && !q.Equal(pk) })
		}
		if p.GrindPKMapY > 0 {
			p.skMap, _ = p.grind(cv, p.skMap, cv.G(), func(q ecref.Point) bool { return leadingZeros(cv.FE2OS(q.Y)) >= p.GrindPKMapY && !q.Equal(pk) })
		}
		if p.GrindMapSharedX > 0 {
			p.skMap, _ = p.grind(cv, p.skMap, pk, func(q ecref.Point) bool { return leadingZeros(cv.FE2OS(q.X)) >= p.GrindMapSharedX })
		}
		if p.GrindCAIC > 0 && p.CAMPriv != nil {
			p.skMap = p.grindCAIC(cv, p.skMap)
		}
		p.pkMapIC = cv.Mul(p.skMap, cv.G())
		if p.pkMapIC.Equal(pk) {
			return fail(0x6300)
		}
		h := cv.Mul(p.skMap, pk)
		if h.Inf {
			return fail(0x6300)
		}
		sG := cv.Mul(new(big.Int).SetBytes(p.s), cv.G())
		p.gMapped = cv.Add(sG, h)
		if p.gMapped.Inf {
			return fail(0x6300)
		}
		p.step = 3
		return p.respond(2, dynAuth(TLV(0x82, cv.Encode(p.pkMapIC))))
	case 3: // key agreement
		if !chained || len(dos) != 1 || dos[0].Tag != 0x83 {
			return fail(0x6A80)
		}
		pk, err := cv.Decode(dos[0].Val)
		if err != nil {
			return fail(0x6A80)
		}
		p.pkDHIFD = pk
		p.LastTerminalKey = append([]byte{}, dos[0].Val...)
		if p.NextSKDH != nil {
			p.skDH, p.NextSKDH = p.NextSKDH, nil
		} else {
			p.skDH = p.randScalar(cv)
		}
		switch {
		case p.GrindSharedX > 0:
			p.skDH, _ = p.grind(cv, p.skDH, pk, func(q ecref.Point) bool { return leadingZeros(cv.FE2OS(q.X)) >= p.GrindSharedX })
		case p.GrindPKDHX > 0:
			p.skDH, _ = p.grind(cv, p.skDH, p.gMapped, func(q ecref.Point) bool { return leadingZeros(cv.FE2OS(q.X)) >= p.GrindPKDHX && !q.Equal(pk) })
		case p.GrindPKDHY > 0:
			p.skDH, _ = p.grind(cv, p.skDH, p.gMapped, func(q ecref.Point) bool { return leadingZeros(cv.FE2OS(q.Y)) >= p.GrindPKDHY && !q.Equal(pk) })
		}
		p.pkDHIC = cv.Mul(p.skDH, p.gMapped)
		if p.pkDHIC.Equal(pk) {
			return fail(0x6300)
		}
		kp := cv.Mul(p.skDH, pk)
		if kp.Inf {
			return fail(0x6300)
		}
		p.K = cv.FE2OS(kp.X)
		p.KSEnc = symref.KDF(p.K, 1, p.sel.Suite)
		p.KSMac = symref.KDF(p.K, 2, p.sel.Suite)
		p.SharedXLeading = leadingZeros(p.K)
		p.step = 4
		return p.respond(3, dynAuth(TLV(0x84, cv.Encode(p.pkDHIC))))
	case 4: // mutual authentication
		if chained || len(dos) != 1 || dos[0].Tag != 0x85 {
			return fail(0x6A80)
		}
		want := AuthToken(p.sel.Suite, p.KSMac, p.oid, cv.Encode(p.pkDHIC))
		if !bytes.Equal(want, dos[0].Val) {
			p.TokenOK = false
			return fail(0x6300)
		}
		p.TokenOK = true
		tic := AuthToken(p.sel.Suite, p.KSMac, p.oid, cv.Encode(p.pkDHIFD))
		parts := [][]byte{TLV(0x86, tic)}
		if p.sel.Mapping == PaceECDHCAM {
			if p.CAMPriv == nil {
				return fail(0x6A88)
			}
			inv := new(big.Int).ModInverse(p.CAMPriv, cv.N)
			ca := new(big.Int).Mul(inv, p.skMap)
			ca.Mod(ca, cv.N)
			p.CAIC = ca.FillBytes(make([]byte, (cv.N.BitLen()+7)/8))
			blk := symref.Block(p.sel.Suite, p.KSEnc)
			iv := make([]byte, 16)
			ff := bytes.Repeat([]byte{0xff}, 16)
			blk.Encrypt(iv, ff)
			aic := symref.CBC(blk, iv, symref.Pad2(p.CAIC, 16), true)
			parts = append(parts, TLV(0x8A, aic))
		}
		p.Done, p.Sel, p.Nonce = true, p.sel, append([]byte{}, p.s...)
		suite, kenc, kmac := p.sel.Suite, p.KSEnc, p.KSMac
		cam := p.sel.Mapping == PaceECDHCAM
		c.postResponse = func() {
			c.SM = NewSM(suite, kenc, kmac, nil)
			c.Authed = true
			c.PACEDone = true
			if cam {
				c.CAMDone = true
			}
		}
		p.step = 0
		return p.respond(4, dynAuth(parts...))
	}
	return fail(0x6985)
}

// grindCAIC steps the mapping private key until skCA^-1 * skMap mod n (the chip
// authentication data of PACE-CAM, sent as a fixed-length octet string) starts with
// GrindCAIC zero octets. No point arithmetic is needed: a step adds skCA^-1.
func (p *PACEState) grindCAIC(c *ecref.Curve, k *big.Int) *big.Int {
	inv := new(big.Int).ModInverse(p.CAMPriv, c.N)
	k = new(big.Int).Set(k)
	ca := new(big.Int).Mul(inv, k)
	ca.Mod(ca, c.N)
	n := (c.N.BitLen() + 7) / 8
	max := p.GrindMaxSteps
	if max == 0 {
		max = 400000
	}
	for i := 0; i < max; i++ {
		if ca.Sign() != 0 && leadingZeros(ca.FillBytes(make([]byte, n))) >= p.GrindCAIC {
			p.GrindSteps += i
			return k
		}
		k.Add(k, big.NewInt(1))
		ca.Add(ca, inv)
		if k.Cmp(c.N) >= 0 {
			k.SetInt64(1)
			ca.Set(inv)
		}
		if ca.Cmp(c.N) >= 0 {
			ca.Sub(ca, c.N)
		}
	}
	panic("chipsim: grinding did not terminate")
}

// MappedGenerator returns the mapped generator of the run in progress; ok is false unless
// the chip has answered the mapping step and waits for the terminal's agreement key.
func (p *PACEState) MappedGenerator() (g ecref.Point, ok bool) {
	if p.step != 3 {
		return ecref.Point{}, false
	}
	return p.gMapped, true
}

// ChipDHPublic returns the encoded chip agreement public key of the current/last run.
func (p *PACEState) ChipDHPublic(c *ecref.Curve) []byte { return c.Encode(p.pkDHIC) }
