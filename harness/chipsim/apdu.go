// Package chipsim is the independent chip side (engine E2 of DESIGN.md): a strict
// ISO/IEC 7816-4 command parser, an eMRTD file system and the chip halves of BAC, PACE,
// CA, AA and secure messaging, written from ICAO 9303-10/-11 and never importing gmrtd.
package chipsim

import "fmt"

// Cmd is a parsed command APDU.
type Cmd struct {
	CLA, INS, P1, P2 byte
	Data             []byte
	Ne               int    // 0 = no Le field; 1..65536
	Case             string // "1","2S","3S","4S","2E","3E","4E"
	Extended         bool
}

// ParseCommand parses a command APDU strictly per ISO/IEC 7816-4:2013 section 5.1
// (the seven encodings of table 5.2); anything else is an error.
func ParseCommand(b []byte) (*Cmd, error) {
	n := len(b)
	if n < 4 {
		return nil, fmt.Errorf("command shorter than 4 bytes (%d)", n)
	}
	c := &Cmd{CLA: b[0], INS: b[1], P1: b[2], P2: b[3]}
	body := b[4:]
	switch {
	case len(body) == 0:
		c.Case = "1"
		return c, nil
	case len(body) == 1:
		c.Case = "2S"
		c.Ne = int(body[0])
		if c.Ne == 0 {
			c.Ne = 256
		}
		return c, nil
	case body[0] != 0:
		lc := int(body[0])
		switch len(body) {
		case 1 + lc:
			c.Case = "3S"
			c.Data = append([]byte{}, body[1:]...)
			return c, nil
		case 1 + lc + 1:
			c.Case = "4S"
			c.Data = append([]byte{}, body[1:1+lc]...)
			c.Ne = int(body[1+lc])
			if c.Ne == 0 {
				c.Ne = 256
			}
			return c, nil
		}
		return nil, fmt.Errorf("short Lc=%d inconsistent with body length %d", lc, len(body))
	default: // body[0]==0, len(body)>=2
		c.Extended = true
		if len(body) == 3 {
			c.Case = "2E"
			c.Ne = int(body[1])<<8 | int(body[2])
			if c.Ne == 0 {
				c.Ne = 65536
			}
			return c, nil
		}
		if len(body) < 3 {
			return nil, fmt.Errorf("body 00 xx is not a valid Lc/Le field (length %d)", len(body))
		}
		lc := int(body[1])<<8 | int(body[2])
		if lc == 0 {
			return nil, fmt.Errorf("extended Lc is zero with body length %d", len(body))
		}
		switch len(body) {
		case 3 + lc:
			c.Case = "3E"
			c.Data = append([]byte{}, body[3:]...)
			return c, nil
		case 3 + lc + 2:
			c.Case = "4E"
			c.Data = append([]byte{}, body[3:3+lc]...)
			c.Ne = int(body[3+lc])<<8 | int(body[3+lc+1])
			if c.Ne == 0 {
				c.Ne = 65536
			}
			return c, nil
		}
		return nil, fmt.Errorf("extended Lc=%d inconsistent with body length %d", lc, len(body))
	}
}

// ExpectedCase is the ISO case an ideal encoder uses for (Nc, Ne): short form when it
// suffices (Nc <= 255 and Ne <= 256), extended form otherwise.
func ExpectedCase(nc, ne int) string {
	ext := nc > 255 || ne > 256
	switch {
	case nc == 0 && ne == 0:
		return "1"
	case nc == 0:
		if ext {
			return "2E"
		}
		return "2S"
	case ne == 0:
		if ext {
			return "3E"
		}
		return "3S"
	default:
		if ext {
			return "4E"
		}
		return "4S"
	}
}
