package chipsim

import (
	"bytes"
	"fmt"
	mrand "math/rand/v2"
)

// File identifiers (ICAO 9303-10).
const (
	FidCardAccess   = 0x011C
	FidCardSecurity = 0x011D
	FidDIR          = 0x2F00
	FidATR          = 0x2F01
	FidCOM          = 0x011E
	FidSOD          = 0x011D
)

// FidDG returns the file identifier of data group n (1..16).
func FidDG(n int) uint16 { return 0x0100 + uint16(n) }

var LDS1AID = []byte{0xA0, 0x00, 0x00, 0x02, 0x47, 0x10, 0x01}

// Event is one command/response pair as the chip saw it (logical order, no clocks).
type Event struct {
	Index     int
	Raw       []byte // command as received
	Protected bool   // arrived under secure messaging and authenticated
	Cmd       *Cmd   // plain view (after SM unwrapping); nil when unparseable
	Data      []byte // plain response data
	SW        uint16 // plain status
	Resp      []byte // bytes sent
	Note      string
}

// Card is a conforming eMRTD chip: file system, READ BINARY/SELECT, secure messaging,
// and (through the optional handlers) BAC, PACE, CA and AA.
type Card struct {
	MF  map[uint16][]byte
	LDS map[uint16][]byte

	inLDS  bool
	cur    []byte
	curSet bool
	curFID uint16

	// chunking policy for READ BINARY
	MaxReturn    int         // at most this many bytes per response (0 = no cap)
	ShortReadRNG *mrand.Rand // when set, return a random 1..allowed number of bytes
	// PageSize > 0: a response never crosses a multiple of PageSize (page-oriented memory)
	PageSize int
	// ShortReadMinNe: short random reads only apply to requests longer than this
	ShortReadMinNe int
	LeCap          int    // when > 0: Ne above this is refused ...
	LeCapSW        uint16 // ... with this status (0x6700, or 0x6C00 to answer 6C xx)
	Extended       bool   // extended-length APDUs supported (else 6700)
	EOFWarning     bool   // 6282 instead of 9000 when fewer bytes than Ne remain
	ZeroReadAbove  int    // jmrtd-applet quirk: Ne above this returns no data with 9000 (0 = off)

	// access control
	AuthRequired bool // LDS files readable only after BAC / PACE
	Authed       bool
	SM           *SM

	BAC  *BACState
	PACE *PACEState
	CA   *CAState
	AA   *AAState

	// truth
	BACDone, PACEDone, CAMDone, CADone bool
	AAChallenges                       [][]byte
	SMAborted                          int
	ReadBinaries                       int
	SFIReads                           []int // short-EF identifiers addressed by READ BINARY with P1 bit 8

	postResponse func()

	Events []Event
	// Hook lets a monitor replace the response bytes of one exchange (deviation
	// strategies, fault injection); it gets the event just produced.
	Hook func(ev *Event) []byte

	// SelectEFStatus (default nil = conforming behaviour): asked for every SELECT EF (P1=02)
	// with a two-byte identifier before the chip's own decision; when it returns ok, the chip
	// answers sw (under secure messaging as the protected status) and the file becomes the
	// current file only if sel is true and the chip stores it. Used for status sweeps.
	SelectEFStatus func(fid uint16, stored bool) (sw uint16, sel bool, ok bool)
	// ReadPolicy (default nil): asked for every READ BINARY that would deliver n > 0 bytes
	// from offset off for a request of ne bytes (after the chunking policy above); returns
	// how many bytes to deliver (clamped to 0..n) and the status (0 = keep the status).
	// Used for chips that answer particular reads short or refuse a read once.
	ReadPolicy func(off, ne, n int) (int, uint16)
	// ReadAnswer (default nil): asked last for every READ BINARY that is about to deliver data
	// bytes (possibly none) of the current file from offset off with status sw; what it
	// returns is sent instead (under secure messaging as protected data and status). Used for
	// chips whose answer to a particular read is not taken from the stored file (blank or
	// filler bytes, no data at all).
	ReadAnswer func(off, ne int, data []byte, sw uint16) ([]byte, uint16)
	// FailedSelectDeselects (default false: a SELECT EF that does not complete leaves the current
	// file as it was): when set, such a SELECT leaves the chip without a current file (ISO/IEC
	// 7816-4 leaves this to the chip), so that a following READ BINARY answers 6986.
	FailedSelectDeselects bool
}

func NewCard() *Card {
	return &Card{MF: map[uint16][]byte{}, LDS: map[uint16][]byte{}, Extended: true}
}

func sfiOf(inLDS bool, sfi int) (uint16, bool) {
	if inLDS {
		switch {
		case sfi >= 1 && sfi <= 16:
			return 0x0100 + uint16(sfi), true
		case sfi == 0x1E:
			return FidCOM, true
		case sfi == 0x1D:
			return FidSOD, true
		}
		return 0, false
	}
	switch sfi {
	case 0x1C:
		return FidCardAccess, true
	case 0x1D:
		return FidCardSecurity, true
	case 0x1E:
		return FidDIR, true
	case 0x01:
		return FidATR, true
	}
	return 0, false
}

func (c *Card) files() map[uint16][]byte {
	if c.inLDS {
		return c.LDS
	}
	return c.MF
}

// Transceive processes one raw command APDU and returns the raw response.
func (c *Card) Transceive(raw []byte) []byte {
	ev := Event{Index: len(c.Events), Raw: append([]byte{}, raw...)}
	data, sw := c.dispatch(raw, &ev)
	ev.Data, ev.SW = data, sw
	var resp []byte
	if ev.Protected && c.SM != nil {
		resp = c.SM.Wrap(data, sw)
	} else {
		resp = append(append([]byte{}, data...), byte(sw>>8), byte(sw))
	}
	ev.Resp = resp
	if c.postResponse != nil {
		f := c.postResponse
		c.postResponse = nil
		f()
	}
	c.Events = append(c.Events, ev)
	if c.Hook != nil {
		if alt := c.Hook(&c.Events[len(c.Events)-1]); alt != nil {
			c.Events[len(c.Events)-1].Resp = alt
			return alt
		}
	}
	return resp
}

func (c *Card) dispatch(raw []byte, ev *Event) ([]byte, uint16) {
	outer, err := ParseCommand(raw)
	if err != nil {
		ev.Note = "unparseable: " + err.Error()
		return nil, 0x6700
	}
	cmd := outer
	if outer.Extended && !c.Extended {
		ev.Note = "extended length not supported"
		if c.SM != nil {
			c.SM = nil
			c.SMAborted++
			c.Authed = false
		}
		return nil, 0x6700
	}
	if outer.CLA&0x0C == 0x0C {
		if c.SM == nil {
			ev.Note = "SM command without session"
			return nil, 0x6988
		}
		plain, err := c.SM.Unwrap(raw)
		if err != nil {
			ev.Note = err.Error()
			c.SM = nil
			c.SMAborted++
			c.Authed = false
			return nil, 0x6988
		}
		ev.Protected = true
		cmd = plain
		cmd.CLA = outer.CLA &^ 0x0C
	} else if c.SM != nil {
		// 9303-11 9.8: a plain command ends the SM session
		ev.Note = "plain command: SM session aborted"
		c.SM = nil
		c.SMAborted++
		c.Authed = false
	}
	ev.Cmd = cmd
	return c.execute(cmd, ev)
}

// postResponse runs after the response of the current command has been produced
// (used to switch SM keys after the response to the last CA command was protected with
// the old keys, or to install SM after the last unprotected PACE/BAC response).
func (c *Card) execute(cmd *Cmd, ev *Event) ([]byte, uint16) {
	switch cmd.INS {
	case 0xA4:
		return c.doSelect(cmd)
	case 0xB0:
		return c.doReadBinary(cmd)
	case 0x84:
		if c.BAC != nil {
			return c.BAC.getChallenge(c, cmd)
		}
	case 0x82:
		if c.BAC != nil {
			return c.BAC.externalAuthenticate(c, cmd)
		}
	case 0x22:
		return c.doMSE(cmd)
	case 0x86:
		return c.doGA(cmd)
	case 0x88:
		if c.AA != nil {
			return c.AA.internalAuthenticate(c, cmd)
		}
	}
	return nil, 0x6D00
}

func (c *Card) doSelect(cmd *Cmd) ([]byte, uint16) {
	switch {
	case cmd.P1 == 0x00 && (cmd.P2 == 0x0C || cmd.P2 == 0x00):
		if len(cmd.Data) == 0 || bytes.Equal(cmd.Data, []byte{0x3F, 0x00}) {
			c.inLDS, c.curSet = false, false
			return nil, 0x9000
		}
		return nil, 0x6A82
	case cmd.P1 == 0x04:
		if bytes.Equal(cmd.Data, LDS1AID) {
			c.inLDS, c.curSet = true, false
			return nil, 0x9000
		}
		return nil, 0x6A82
	case cmd.P1 == 0x02:
		if len(cmd.Data) != 2 {
			return nil, 0x6700
		}
		fid := uint16(cmd.Data[0])<<8 | uint16(cmd.Data[1])
		f, ok := c.files()[fid]
		if c.SelectEFStatus != nil {
			if sw, sel, over := c.SelectEFStatus(fid, ok); over {
				if sel && ok {
					c.cur, c.curSet, c.curFID = f, true, fid
				} else if c.FailedSelectDeselects {
					c.curSet = false
				}
				return nil, sw
			}
		}
		if !ok {
			if c.FailedSelectDeselects {
				c.curSet = false
			}
			return nil, 0x6A82
		}
		if c.inLDS && c.AuthRequired && !c.Authed {
			if c.FailedSelectDeselects {
				c.curSet = false
			}
			return nil, 0x6982
		}
		c.cur, c.curSet, c.curFID = f, true, fid
		return nil, 0x9000
	}
	return nil, 0x6A86
}

func (c *Card) doReadBinary(cmd *Cmd) ([]byte, uint16) {
	c.ReadBinaries++
	if len(cmd.Data) != 0 {
		return nil, 0x6700
	}
	if cmd.Ne == 0 {
		return nil, 0x6700
	}
	var off int
	if cmd.P1&0x80 != 0 {
		// short EF identifier in bits 5..1 of P1, offset in P2 (9303-10 3.6.3.2)
		if cmd.P1&0x60 != 0 {
			return nil, 0x6A86
		}
		sfi := int(cmd.P1 & 0x1F)
		c.SFIReads = append(c.SFIReads, sfi)
		if sfi != 0 {
			fid, ok := sfiOf(c.inLDS, sfi)
			if !ok {
				return nil, 0x6A82
			}
			f, ok := c.files()[fid]
			if !ok {
				return nil, 0x6A82
			}
			if c.inLDS && c.AuthRequired && !c.Authed {
				return nil, 0x6982
			}
			c.cur, c.curSet, c.curFID = f, true, fid
		}
		off = int(cmd.P2)
	} else {
		off = int(cmd.P1)<<8 | int(cmd.P2)
	}
	if !c.curSet {
		return nil, 0x6986
	}
	if c.inLDS && c.AuthRequired && !c.Authed {
		return nil, 0x6982
	}
	if c.LeCap > 0 && cmd.Ne > c.LeCap {
		if c.LeCapSW&0xFF00 == 0x6C00 {
			return nil, 0x6C00 | uint16(c.LeCap&0xFF)
		}
		return nil, c.LeCapSW
	}
	if c.ZeroReadAbove > 0 && cmd.Ne > c.ZeroReadAbove {
		return nil, 0x9000
	}
	if off >= len(c.cur) {
		return nil, 0x6B00
	}
	n := cmd.Ne
	sw := uint16(0x9000)
	if n > len(c.cur)-off {
		n = len(c.cur) - off
		if c.EOFWarning {
			sw = 0x6282
		}
	}
	if c.PageSize > 0 && off/c.PageSize != (off+n-1)/c.PageSize {
		n = c.PageSize - off%c.PageSize
	}
	if c.MaxReturn > 0 && n > c.MaxReturn {
		n = c.MaxReturn
	}
	if c.ShortReadRNG != nil && n > 1 && cmd.Ne > c.ShortReadMinNe {
		n = 1 + c.ShortReadRNG.IntN(n)
	}
	if c.ReadPolicy != nil {
		m, psw := c.ReadPolicy(off, cmd.Ne, n)
		if m < n {
			n = max(m, 0)
		}
		if psw != 0 {
			sw = psw
		}
	}
	out := append([]byte{}, c.cur[off:off+n]...)
	if c.ReadAnswer != nil {
		return c.ReadAnswer(off, cmd.Ne, out, sw)
	}
	return out, sw
}

func (c *Card) String() string {
	return fmt.Sprintf("card(mf=%d files, lds=%d files, maxret=%d, lecap=%d, ext=%v)", len(c.MF), len(c.LDS), c.MaxReturn, c.LeCap, c.Extended)
}
