package chipsim

import (
	"bytes"
	"fmt"

	"verifharness/symref"
)

// SM is the chip side of ICAO 9303-11 section 9.8 secure messaging.
type SM struct {
	Suite symref.Suite
	KEnc  []byte
	KMac  []byte
	SSC   []byte // 8 bytes (3DES) or 16 bytes (AES)

	// observations about the last unwrapped command (for the C10 monitor)
	LastDO85WithIndicator bool
	LastDataTag           byte
	LastHadDO97           bool
	LastOuter             *Cmd
}

func NewSM(s symref.Suite, kenc, kmac, ssc []byte) *SM {
	sm := &SM{Suite: s, KEnc: append([]byte{}, kenc...), KMac: append([]byte{}, kmac...)}
	sm.SSC = make([]byte, s.BlockSize())
	if ssc != nil {
		if len(ssc) != len(sm.SSC) {
			panic(fmt.Sprintf("chipsim: SSC length %d, want %d", len(ssc), len(sm.SSC)))
		}
		copy(sm.SSC, ssc)
	}
	return sm
}

func (s *SM) Clone() *SM {
	c := *s
	c.KEnc = append([]byte{}, s.KEnc...)
	c.KMac = append([]byte{}, s.KMac...)
	c.SSC = append([]byte{}, s.SSC...)
	return &c
}

// IncSSC adds one modulo 2^(8*len).
func IncSSC(ssc []byte) {
	for i := len(ssc) - 1; i >= 0; i-- {
		ssc[i]++
		if ssc[i] != 0 {
			return
		}
	}
}

func (s *SM) iv() []byte {
	iv := make([]byte, s.Suite.BlockSize())
	if s.Suite.IsAES() {
		symref.Block(s.Suite, s.KEnc).Encrypt(iv, s.SSC)
	}
	return iv
}

func (s *SM) mac(data []byte) []byte {
	return symref.MAC8(s.Suite, s.KMac, symref.Pad2(data, s.Suite.BlockSize()))
}

// DO is one BER-TLV data object with a one-byte tag.
type DO struct {
	Tag byte
	Val []byte
	Raw []byte
}

// ParseDOs parses a sequence of BER-TLV objects with single-byte tags and definite
// lengths (short, 81, 82, 83); anything else is an error.
func ParseDOs(b []byte) ([]DO, error) {
	var out []DO
	i := 0
	for i < len(b) {
		start := i
		tag := b[i]
		if tag&0x1f == 0x1f {
			return nil, fmt.Errorf("multi-byte tag %02x in SM data", tag)
		}
		i++
		if i >= len(b) {
			return nil, fmt.Errorf("truncated length")
		}
		l := int(b[i])
		i++
		if l >= 0x80 {
			n := l & 0x7f
			if n == 0 || n > 3 || i+n > len(b) {
				return nil, fmt.Errorf("bad length form %02x", l)
			}
			l = 0
			for j := 0; j < n; j++ {
				l = l<<8 | int(b[i+j])
			}
			i += n
		}
		if i+l > len(b) {
			return nil, fmt.Errorf("value of tag %02x exceeds data (%d > %d)", tag, l, len(b)-i)
		}
		out = append(out, DO{Tag: tag, Val: b[i : i+l], Raw: b[start : i+l]})
		i += l
	}
	return out, nil
}

// BERLen encodes a definite length minimally.
func BERLen(n int) []byte {
	switch {
	case n < 0x80:
		return []byte{byte(n)}
	case n < 0x100:
		return []byte{0x81, byte(n)}
	case n < 0x10000:
		return []byte{0x82, byte(n >> 8), byte(n)}
	default:
		return []byte{0x83, byte(n >> 16), byte(n >> 8), byte(n)}
	}
}

func TLV(tag byte, val []byte) []byte {
	out := append([]byte{tag}, BERLen(len(val))...)
	return append(out, val...)
}

// SMError describes why a protected command was refused.
type SMError struct{ Reason string }

func (e *SMError) Error() string { return "secure messaging: " + e.Reason }

// Unwrap authenticates and decrypts a protected command APDU (raw bytes as received).
// It advances the counter by one. The returned command has the plain data and the Ne
// conveyed in DO'97' (0 when absent); CLA is returned as received.
func (s *SM) Unwrap(raw []byte) (*Cmd, error) {
	outer, err := ParseCommand(raw)
	if err != nil {
		return nil, &SMError{"outer APDU is not ISO 7816-4: " + err.Error()}
	}
	s.LastOuter = outer
	if outer.CLA&0x0C != 0x0C {
		return nil, &SMError{fmt.Sprintf("class %02x does not indicate secure messaging", outer.CLA)}
	}
	dos, err := ParseDOs(outer.Data)
	if err != nil {
		return nil, &SMError{"data field: " + err.Error()}
	}
	// order: [85|87] [97] 8E, nothing else
	var doData, do97, do8e *DO
	idx := 0
	if idx < len(dos) && (dos[idx].Tag == 0x87 || dos[idx].Tag == 0x85) {
		doData = &dos[idx]
		idx++
	}
	if idx < len(dos) && dos[idx].Tag == 0x97 {
		do97 = &dos[idx]
		idx++
	}
	if idx < len(dos) && dos[idx].Tag == 0x8E {
		do8e = &dos[idx]
		idx++
	}
	if do8e == nil || idx != len(dos) {
		tags := ""
		for _, d := range dos {
			tags += fmt.Sprintf("%02x ", d.Tag)
		}
		return nil, &SMError{"data objects not in the form [85|87] [97] 8E: " + tags}
	}
	if len(do8e.Val) != 8 {
		return nil, &SMError{fmt.Sprintf("DO8E length %d", len(do8e.Val))}
	}
	IncSSC(s.SSC)
	hdr := []byte{0x0C, outer.INS, outer.P1, outer.P2}
	if outer.CLA != 0x0C {
		hdr[0] = outer.CLA
	}
	m := append([]byte{}, s.SSC...)
	m = append(m, symref.Pad2(hdr, s.Suite.BlockSize())...)
	if doData != nil {
		m = append(m, doData.Raw...)
	}
	if do97 != nil {
		m = append(m, do97.Raw...)
	}
	if !bytes.Equal(s.mac(m), do8e.Val) {
		return nil, &SMError{"MAC mismatch"}
	}
	cmd := &Cmd{CLA: outer.CLA, INS: outer.INS, P1: outer.P1, P2: outer.P2}
	s.LastDO85WithIndicator = false
	s.LastDataTag = 0
	s.LastHadDO97 = do97 != nil
	if doData != nil {
		s.LastDataTag = doData.Tag
		bs := s.Suite.BlockSize()
		var cg []byte
		switch {
		case doData.Tag == 0x87:
			if len(doData.Val) < 1+bs || doData.Val[0] != 0x01 || (len(doData.Val)-1)%bs != 0 {
				return nil, &SMError{fmt.Sprintf("DO87 malformed (len %d, indicator %02x)", len(doData.Val), first(doData.Val))}
			}
			cg = doData.Val[1:]
		case len(doData.Val)%bs == 0 && len(doData.Val) > 0:
			cg = doData.Val // ISO 7816-4 DO'85': cryptogram without indicator
		case len(doData.Val)%bs == 1 && doData.Val[0] == 0x01:
			// form produced by gmrtd (and described by the property text): indicator also in DO'85'
			s.LastDO85WithIndicator = true
			cg = doData.Val[1:]
		default:
			return nil, &SMError{fmt.Sprintf("DO85 malformed (len %d)", len(doData.Val))}
		}
		if (doData.Tag == 0x87) != (outer.INS%2 == 0) {
			return nil, &SMError{fmt.Sprintf("tag %02x does not match INS parity (INS %02x)", doData.Tag, outer.INS)}
		}
		pt := symref.CBC(symref.Block(s.Suite, s.KEnc), s.iv(), cg, false)
		data, ok := symref.Unpad2(pt)
		if !ok {
			return nil, &SMError{"decrypted data not padded"}
		}
		if len(data) == 0 {
			return nil, &SMError{"empty command data inside DO85/87"}
		}
		cmd.Data = data
	}
	if do97 != nil {
		switch len(do97.Val) {
		case 1:
			cmd.Ne = int(do97.Val[0])
			if cmd.Ne == 0 {
				cmd.Ne = 256
			}
		case 2:
			cmd.Ne = int(do97.Val[0])<<8 | int(do97.Val[1])
			if cmd.Ne == 0 {
				cmd.Ne = 65536
			}
		default:
			return nil, &SMError{fmt.Sprintf("DO97 length %d", len(do97.Val))}
		}
	}
	return cmd, nil
}

func first(b []byte) byte {
	if len(b) == 0 {
		return 0
	}
	return b[0]
}

// Wrap builds the protected response for (data, sw); it advances the counter by one.
// WrapPadded is Wrap for a data field whose padding the caller has already applied (a whole
// number of cipher blocks), so that monitors can present validly MACed responses whose
// plaintext is NOT well-formed ISO 9797-1 method-2 padding.
func (s *SM) WrapPadded(padded []byte, sw uint16) []byte {
	IncSSC(s.SSC)
	var body []byte
	ct := symref.CBC(symref.Block(s.Suite, s.KEnc), s.iv(), padded, true)
	body = append(body, TLV(0x87, append([]byte{0x01}, ct...))...)
	body = append(body, 0x99, 0x02, byte(sw>>8), byte(sw))
	m := append(append([]byte{}, s.SSC...), body...)
	body = append(body, TLV(0x8E, s.mac(m))...)
	return append(body, byte(sw>>8), byte(sw))
}

func (s *SM) Wrap(data []byte, sw uint16) []byte {
	IncSSC(s.SSC)
	var body []byte
	if len(data) > 0 {
		ct := symref.CBC(symref.Block(s.Suite, s.KEnc), s.iv(), symref.Pad2(data, s.Suite.BlockSize()), true)
		body = append(body, TLV(0x87, append([]byte{0x01}, ct...))...)
	}
	body = append(body, 0x99, 0x02, byte(sw>>8), byte(sw))
	m := append(append([]byte{}, s.SSC...), body...)
	body = append(body, TLV(0x8E, s.mac(m))...)
	return append(body, byte(sw>>8), byte(sw))
}
