package chipsim

import (
	"bytes"
	"crypto/sha1"
	mrand "math/rand/v2"

	"verifharness/symref"
)

// BACState is the chip half of Basic Access Control (ICAO 9303-11 section 4.3).
type BACState struct {
	KEnc, KMac []byte
	RNG        *mrand.Rand
	// scripted values (nil = draw from RNG)
	NextRndIC []byte
	NextKIC   []byte

	rndIC []byte
	// truth of the last successful run
	RndIC, RndIFD, KIFD, KIC []byte
	KSEnc, KSMac, SSC0       []byte
	LastRequest              []byte
	Failures                 int
}

// BACKeysFromMRZInfo derives K_enc / K_mac from the MRZ information string
// (document number || cd || date of birth || cd || date of expiry || cd).
func BACKeysFromMRZInfo(mrzInfo string) (kenc, kmac []byte) {
	h := sha1.Sum([]byte(mrzInfo))
	return symref.KDF(h[:16], 1, symref.TDES), symref.KDF(h[:16], 2, symref.TDES)
}

func NewBAC(mrzInfo string, rng *mrand.Rand) *BACState {
	ke, km := BACKeysFromMRZInfo(mrzInfo)
	return &BACState{KEnc: ke, KMac: km, RNG: rng}
}

func (b *BACState) rnd(n int) []byte {
	out := make([]byte, n)
	for i := range out {
		out[i] = byte(b.RNG.Uint32())
	}
	return out
}

func (b *BACState) getChallenge(c *Card, cmd *Cmd) ([]byte, uint16) {
	if cmd.P1 != 0 || cmd.P2 != 0 || len(cmd.Data) != 0 || cmd.Ne != 8 {
		return nil, 0x6700
	}
	if b.NextRndIC != nil {
		b.rndIC = append([]byte{}, b.NextRndIC...)
		b.NextRndIC = nil
	} else {
		b.rndIC = b.rnd(8)
	}
	return append([]byte{}, b.rndIC...), 0x9000
}

func (b *BACState) externalAuthenticate(c *Card, cmd *Cmd) ([]byte, uint16) {
	b.LastRequest = append([]byte{}, cmd.Data...)
	if b.rndIC == nil {
		return nil, 0x6985
	}
	rndIC := b.rndIC
	b.rndIC = nil // a challenge is good for one attempt
	if len(cmd.Data) != 40 || (cmd.Ne != 40 && cmd.Ne != 256) {
		b.Failures++
		return nil, 0x6700
	}
	e, m := cmd.Data[:32], cmd.Data[32:]
	if !bytes.Equal(symref.RetailMAC(b.KMac, symref.Pad2(e, 8)), m) {
		b.Failures++
		return nil, 0x6300
	}
	s := symref.CBC(symref.Block(symref.TDES, b.KEnc), make([]byte, 8), e, false)
	rndIFD, rIC, kIFD := s[:8], s[8:16], s[16:32]
	if !bytes.Equal(rIC, rndIC) {
		b.Failures++
		return nil, 0x6300
	}
	var kIC []byte
	if b.NextKIC != nil {
		kIC = append([]byte{}, b.NextKIC...)
		b.NextKIC = nil
	} else {
		kIC = b.rnd(16)
	}
	r := append(append(append([]byte{}, rndIC...), rndIFD...), kIC...)
	eIC := symref.CBC(symref.Block(symref.TDES, b.KEnc), make([]byte, 8), r, true)
	mIC := symref.RetailMAC(b.KMac, symref.Pad2(eIC, 8))
	seed := make([]byte, 16)
	for i := range seed {
		seed[i] = kIFD[i] ^ kIC[i]
	}
	b.RndIC, b.RndIFD, b.KIFD, b.KIC = append([]byte{}, rndIC...), append([]byte{}, rndIFD...), append([]byte{}, kIFD...), kIC
	b.KSEnc, b.KSMac = symref.KDF(seed, 1, symref.TDES), symref.KDF(seed, 2, symref.TDES)
	b.SSC0 = append(append([]byte{}, rndIC[4:8]...), rndIFD[4:8]...)
	c.postResponse = func() {
		c.SM = NewSM(symref.TDES, b.KSEnc, b.KSMac, b.SSC0)
		c.Authed = true
		c.BACDone = true
	}
	return append(eIC, mIC...), 0x9000
}
