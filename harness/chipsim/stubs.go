package chipsim

// placeholders until pace.go / ca.go / aa.go are written

type PACEState struct{}
type CAState struct{}
type AAState struct{}

func (c *Card) doMSE(cmd *Cmd) ([]byte, uint16) { return nil, 0x6A80 }
func (c *Card) doGA(cmd *Cmd) ([]byte, uint16)  { return nil, 0x6A80 }
func (a *AAState) internalAuthenticate(c *Card, cmd *Cmd) ([]byte, uint16) {
	return nil, 0x6D00
}
