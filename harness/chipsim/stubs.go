package chipsim

// placeholders until ca.go / aa.go are written

type CAState struct{ pending bool }
type AAState struct{}

func (a *CAState) mse(c *Card, cmd *Cmd) ([]byte, uint16)                 { return nil, 0x6A80 }
func (a *CAState) generalAuthenticate(c *Card, cmd *Cmd) ([]byte, uint16) { return nil, 0x6A80 }
func (a *AAState) internalAuthenticate(c *Card, cmd *Cmd) ([]byte, uint16) {
	return nil, 0x6D00
}
