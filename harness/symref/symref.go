// Package symref holds the symmetric primitives of ICAO 9303-11 written from the
// specifications (engine E1 of DESIGN.md): ISO 9797-1 padding method 2, retail MAC
// (ISO 9797-1 MAC algorithm 3 with DES), AES-CMAC (NIST SP 800-38B), the 9303-11 key
// derivation function and 3DES/AES CBC helpers. It imports only the Go standard library.
package symref

import (
	"bytes"
	"crypto/aes"
	"crypto/cipher"
	"crypto/des"
	"crypto/sha1"
	"crypto/sha256"
	"encoding/hex"
	"fmt"
)

type Suite int

const (
	TDES Suite = iota
	AES128
	AES192
	AES256
)

func (s Suite) String() string {
	return [...]string{"3DES", "AES-128", "AES-192", "AES-256"}[s]
}
func (s Suite) IsAES() bool    { return s != TDES }
func (s Suite) BlockSize() int { return map[bool]int{true: 16, false: 8}[s.IsAES()] }
func (s Suite) KeyLen() int    { return [...]int{16, 16, 24, 32}[s] }

var AllSuites = []Suite{TDES, AES128, AES192, AES256}

// Pad2 applies ISO/IEC 9797-1 padding method 2 (80 00 .. 00).
func Pad2(data []byte, bs int) []byte {
	out := append(append([]byte{}, data...), 0x80)
	for len(out)%bs != 0 {
		out = append(out, 0)
	}
	return out
}

// Unpad2 removes padding method 2; ok=false when the data is not padded.
func Unpad2(data []byte) ([]byte, bool) {
	i := len(data) - 1
	for i >= 0 && data[i] == 0 {
		i--
	}
	if i < 0 || data[i] != 0x80 {
		return nil, false
	}
	return append([]byte{}, data[:i]...), true
}

// AdjustParity sets odd parity on every byte of a DES key.
func AdjustParity(k []byte) []byte {
	out := append([]byte{}, k...)
	for i, b := range out {
		ones := 0
		for j := 1; j < 8; j++ {
			if b>>uint(j)&1 == 1 {
				ones++
			}
		}
		if ones%2 == 0 {
			out[i] = b | 1
		} else {
			out[i] = b &^ 1
		}
	}
	return out
}

// KDF is the key derivation function of ICAO 9303-11 section 9.7.1.
func KDF(k []byte, counter uint32, s Suite) []byte {
	in := append(append([]byte{}, k...), byte(counter>>24), byte(counter>>16), byte(counter>>8), byte(counter))
	switch s {
	case TDES:
		h := sha1.Sum(in)
		return AdjustParity(h[:16])
	case AES128:
		h := sha1.Sum(in)
		return append([]byte{}, h[:16]...)
	case AES192:
		h := sha256.Sum256(in)
		return append([]byte{}, h[:24]...)
	default:
		h := sha256.Sum256(in)
		return append([]byte{}, h[:]...)
	}
}

func tdes(k []byte) cipher.Block {
	if len(k) != 16 {
		panic(fmt.Sprintf("symref: 3DES key must be 16 bytes, got %d", len(k)))
	}
	k24 := append(append([]byte{}, k...), k[:8]...)
	c, err := des.NewTripleDESCipher(k24)
	if err != nil {
		panic(err)
	}
	return c
}

// Block returns the block cipher for a suite key.
func Block(s Suite, k []byte) cipher.Block {
	if s == TDES {
		return tdes(k)
	}
	if len(k) != s.KeyLen() {
		panic(fmt.Sprintf("symref: %v key must be %d bytes, got %d", s, s.KeyLen(), len(k)))
	}
	c, err := aes.NewCipher(k)
	if err != nil {
		panic(err)
	}
	return c
}

// CBC encrypts/decrypts whole blocks (own loop; no cipher.BlockMode).
func CBC(c cipher.Block, iv, data []byte, enc bool) []byte {
	bs := c.BlockSize()
	if len(data)%bs != 0 || len(iv) != bs {
		panic("symref: CBC length")
	}
	out := make([]byte, len(data))
	prev := append([]byte{}, iv...)
	tmp := make([]byte, bs)
	for i := 0; i < len(data); i += bs {
		if enc {
			for j := 0; j < bs; j++ {
				tmp[j] = data[i+j] ^ prev[j]
			}
			c.Encrypt(out[i:i+bs], tmp)
			copy(prev, out[i:i+bs])
		} else {
			c.Decrypt(tmp, data[i:i+bs])
			for j := 0; j < bs; j++ {
				out[i+j] = tmp[j] ^ prev[j]
			}
			copy(prev, data[i:i+bs])
		}
	}
	return out
}

// RetailMAC is ISO/IEC 9797-1 MAC algorithm 3 with DES over already padded data.
func RetailMAC(k16, padded []byte) []byte {
	if len(k16) != 16 || len(padded) == 0 || len(padded)%8 != 0 {
		panic("symref: RetailMAC arguments")
	}
	k1, _ := des.NewCipher(k16[:8])
	k2, _ := des.NewCipher(k16[8:])
	h := make([]byte, 8)
	for i := 0; i < len(padded); i += 8 {
		for j := 0; j < 8; j++ {
			h[j] ^= padded[i+j]
		}
		k1.Encrypt(h, h)
	}
	k2.Decrypt(h, h)
	k1.Encrypt(h, h)
	return h
}

func dbl(b []byte) []byte {
	out := make([]byte, len(b))
	carry := byte(0)
	for i := len(b) - 1; i >= 0; i-- {
		out[i] = b[i]<<1 | carry
		carry = b[i] >> 7
	}
	if carry == 1 {
		out[len(b)-1] ^= 0x87
	}
	return out
}

// CMAC is AES-CMAC (SP 800-38B), full 16-byte tag.
func CMAC(c cipher.Block, msg []byte) []byte {
	l := make([]byte, 16)
	c.Encrypt(l, l)
	k1 := dbl(l)
	k2 := dbl(k1)
	n := (len(msg) + 15) / 16
	var last []byte
	if n == 0 {
		n = 1
	}
	full := len(msg) > 0 && len(msg)%16 == 0
	last = make([]byte, 16)
	if full {
		copy(last, msg[(n-1)*16:])
		for i := range last {
			last[i] ^= k1[i]
		}
	} else {
		rem := msg[(n-1)*16:]
		copy(last, rem)
		last[len(rem)] = 0x80
		for i := range last {
			last[i] ^= k2[i]
		}
	}
	x := make([]byte, 16)
	for i := 0; i < n-1; i++ {
		for j := 0; j < 16; j++ {
			x[j] ^= msg[i*16+j]
		}
		c.Encrypt(x, x)
	}
	for j := 0; j < 16; j++ {
		x[j] ^= last[j]
	}
	c.Encrypt(x, x)
	return x
}

// MAC8 is the 8-byte session MAC of 9303-11: retail MAC over pad2(data) for 3DES,
// CMAC truncated to 8 bytes over pad2'd secure-messaging input for AES. padded says
// whether data is already padded (secure messaging pads for both suites); when false
// (authentication tokens) 3DES input is padded here and AES input is used as is.
func MAC8(s Suite, kmac, data []byte) []byte {
	if s == TDES {
		return RetailMAC(kmac, data)
	}
	return CMAC(Block(s, kmac), data)[:8]
}

func MustHex(s string) []byte {
	b, err := hex.DecodeString(s)
	if err != nil {
		panic(err)
	}
	return b
}

// SelfTest checks the primitives against ICAO 9303-11 Appendix D and NIST SP 800-38B.
func SelfTest() error {
	kseed := MustHex("239AB9CB282DAF66231DC5A4DF6BFBAE")
	if got := KDF(kseed, 1, TDES); !bytes.Equal(got, MustHex("AB94FDECF2674FDFB9B391F85D7F76F2")) {
		return fmt.Errorf("KDF enc: %x", got)
	}
	if got := KDF(kseed, 2, TDES); !bytes.Equal(got, MustHex("7962D9ECE03D1ACD4C76089DCE131543")) {
		return fmt.Errorf("KDF mac: %x", got)
	}
	h := sha1.Sum([]byte("L898902C<369080619406236"))
	if !bytes.Equal(h[:16], kseed) {
		return fmt.Errorf("kseed: %x", h[:16])
	}
	// D.3: EIFD and MIFD
	kenc, kmac := MustHex("AB94FDECF2674FDFB9B391F85D7F76F2"), MustHex("7962D9ECE03D1ACD4C76089DCE131543")
	s := MustHex("781723860C06C2264608F919887022120B795240CB7049B01C19B33E32804F0B")
	e := CBC(Block(TDES, kenc), make([]byte, 8), s, true)
	if !bytes.Equal(e, MustHex("72C29C2371CC9BDB65B779B8E8D37B29ECC154AA56A8799FAE2F498F76ED92F2")) {
		return fmt.Errorf("EIFD: %x", e)
	}
	if m := RetailMAC(kmac, Pad2(e, 8)); !bytes.Equal(m, MustHex("5F1448EEA8AD90A7")) {
		return fmt.Errorf("MIFD: %x", m)
	}
	// NIST CMAC
	c := Block(AES128, MustHex("2b7e151628aed2a6abf7158809cf4f3c"))
	if got := CMAC(c, nil); !bytes.Equal(got, MustHex("bb1d6929e95937287fa37d129b756746")) {
		return fmt.Errorf("CMAC empty: %x", got)
	}
	if got := CMAC(c, MustHex("6bc1bee22e409f96e93d7e117393172a")); !bytes.Equal(got, MustHex("070a16b46b4d4144f79bdd9dd04a287c")) {
		return fmt.Errorf("CMAC 16: %x", got)
	}
	if got := CMAC(c, MustHex("6bc1bee22e409f96e93d7e117393172aae2d8a571e03ac9c9eb76fac45af8e5130c81c46a35ce411")); !bytes.Equal(got, MustHex("dfa66747de9ae63030ca32611497c827")) {
		return fmt.Errorf("CMAC 40: %x", got)
	}
	if p, ok := Unpad2(Pad2([]byte{1, 2, 3}, 8)); !ok || !bytes.Equal(p, []byte{1, 2, 3}) {
		return fmt.Errorf("pad")
	}
	return nil
}
