// Package issuer is the harness's independent PKI and security-object personalisation
// (engine E3 of DESIGN.md): RSA / ECDSA key pairs, X.509 certificates built field by
// field, CMS SignedData for EF.SOD, CardSecurity and master lists. It imports only the
// standard library and the harness's own der / ecref packages - never gmrtd.
package issuer

import (
	"crypto"
	"crypto/sha1"
	"crypto/sha256"
	"crypto/sha512"
	_ "embed"
	"encoding/json"
	"fmt"
	"hash"
	"math/big"
	mrand "math/rand/v2"
	"sync"

	"verifharness/der"
	"verifharness/ecref"
)

// ---------------------------------------------------------------------------------------
// hashes

type HashAlg int

const (
	SHA1 HashAlg = iota
	SHA224
	SHA256
	SHA384
	SHA512
)

var AllHashes = []HashAlg{SHA1, SHA224, SHA256, SHA384, SHA512}

func (h HashAlg) String() string {
	return [...]string{"SHA-1", "SHA-224", "SHA-256", "SHA-384", "SHA-512"}[h]
}

func (h HashAlg) New() hash.Hash {
	switch h {
	case SHA1:
		return sha1.New()
	case SHA224:
		return sha256.New224()
	case SHA256:
		return sha256.New()
	case SHA384:
		return sha512.New384()
	}
	return sha512.New()
}

func (h HashAlg) Sum(b []byte) []byte {
	x := h.New()
	x.Write(b)
	return x.Sum(nil)
}

func (h HashAlg) Size() int { return [...]int{20, 28, 32, 48, 64}[h] }

func (h HashAlg) Crypto() crypto.Hash {
	return [...]crypto.Hash{crypto.SHA1, crypto.SHA224, crypto.SHA256, crypto.SHA384, crypto.SHA512}[h]
}

func (h HashAlg) OIDArcs() []int {
	switch h {
	case SHA1:
		return []int{1, 3, 14, 3, 2, 26}
	case SHA224:
		return []int{2, 16, 840, 1, 101, 3, 4, 2, 4}
	case SHA256:
		return []int{2, 16, 840, 1, 101, 3, 4, 2, 1}
	case SHA384:
		return []int{2, 16, 840, 1, 101, 3, 4, 2, 2}
	}
	return []int{2, 16, 840, 1, 101, 3, 4, 2, 3}
}

// AlgID is the digest AlgorithmIdentifier; withNull adds the NULL parameters.
func (h HashAlg) AlgID(withNull bool) []byte {
	if withNull {
		return der.Seq(der.OID(h.OIDArcs()...), der.Null())
	}
	return der.Seq(der.OID(h.OIDArcs()...))
}

// ---------------------------------------------------------------------------------------
// keys

type RSAKey struct {
	N, E, D *big.Int
	Bits    int
}

type ECKey struct {
	Curve *ecref.Curve
	D     *big.Int
	Q     ecref.Point
}

// Key is either RSA or EC.
type Key struct {
	RSA *RSAKey
	EC  *ECKey
	// EC parameter form in SubjectPublicKeyInfo
	Explicit     bool
	NoCofactor   bool // explicit parameters without the optional cofactor
	WithSeed     bool // explicit parameters with a curve seed
	LeadingZeroP bool // prime encoded with a leading zero octet beyond DER's sign octet (seen in the field) - not used
}

func (k *Key) Kind() string {
	if k.RSA != nil {
		return fmt.Sprintf("RSA-%d", k.RSA.Bits)
	}
	form := "named"
	if k.Explicit {
		form = "explicit"
		if k.NoCofactor {
			form += "-nocofactor"
		}
		if k.WithSeed {
			form += "-seed"
		}
	}
	return "EC-" + k.EC.Curve.Name + "-" + form
}

//go:embed testdata/rsakeys.json
var rsaKeysJSON []byte

type storedRSA struct {
	Bits int    `json:"bits"`
	N    string `json:"n"`
	E    string `json:"e"`
	D    string `json:"d"`
}

var (
	rsaOnce sync.Once
	rsaPool map[int][]*RSAKey
)

func loadRSA() {
	var ks []storedRSA
	if err := json.Unmarshal(rsaKeysJSON, &ks); err != nil {
		panic("issuer: rsakeys.json: " + err.Error())
	}
	rsaPool = map[int][]*RSAKey{}
	for _, s := range ks {
		n, _ := new(big.Int).SetString(s.N, 16)
		e, _ := new(big.Int).SetString(s.E, 16)
		d, _ := new(big.Int).SetString(s.D, 16)
		rsaPool[s.Bits] = append(rsaPool[s.Bits], &RSAKey{N: n, E: e, D: d, Bits: s.Bits})
	}
}

// RSAKeyOf returns the idx-th pre-generated RSA key of the given modulus bit length.
func RSAKeyOf(bits, idx int) *Key {
	rsaOnce.Do(loadRSA)
	ks := rsaPool[bits]
	if len(ks) == 0 {
		panic(fmt.Sprintf("issuer: no pre-generated RSA key of %d bits", bits))
	}
	return &Key{RSA: ks[idx%len(ks)]}
}

func RSAKeyCount(bits int) int {
	rsaOnce.Do(loadRSA)
	return len(rsaPool[bits])
}

func RSABitLengths() []int {
	rsaOnce.Do(loadRSA)
	var out []int
	for b := range rsaPool {
		out = append(out, b)
	}
	return out
}

func randScalar(r *mrand.Rand, c *ecref.Curve) *big.Int {
	b := make([]byte, c.ByteLen+8)
	for i := range b {
		b[i] = byte(r.Uint32())
	}
	k := new(big.Int).SetBytes(b)
	k.Mod(k, new(big.Int).Sub(c.N, big.NewInt(2)))
	return k.Add(k, big.NewInt(2))
}

// NewECKey draws an EC key pair on the curve.
func NewECKey(r *mrand.Rand, c *ecref.Curve) *Key {
	d := randScalar(r, c)
	return &Key{EC: &ECKey{Curve: c, D: d, Q: c.Mul(d, c.G())}}
}

// ---------------------------------------------------------------------------------------
// SubjectPublicKeyInfo

var curveOIDs = map[string][]int{
	"P-192":           {1, 2, 840, 10045, 3, 1, 1},
	"P-224":           {1, 3, 132, 0, 33},
	"P-256":           {1, 2, 840, 10045, 3, 1, 7},
	"P-384":           {1, 3, 132, 0, 34},
	"P-521":           {1, 3, 132, 0, 35},
	"brainpoolP192r1": {1, 3, 36, 3, 3, 2, 8, 1, 1, 3},
	"brainpoolP224r1": {1, 3, 36, 3, 3, 2, 8, 1, 1, 5},
	"brainpoolP256r1": {1, 3, 36, 3, 3, 2, 8, 1, 1, 7},
	"brainpoolP320r1": {1, 3, 36, 3, 3, 2, 8, 1, 1, 9},
	"brainpoolP384r1": {1, 3, 36, 3, 3, 2, 8, 1, 1, 11},
	"brainpoolP512r1": {1, 3, 36, 3, 3, 2, 8, 1, 1, 13},
}

func CurveOID(c *ecref.Curve) []int { return curveOIDs[c.Name] }

// ExplicitECParameters builds ECParameters ::= SEQUENCE { version 1, fieldID, curve, base, order, cofactor OPTIONAL }.
func ExplicitECParameters(c *ecref.Curve, noCofactor, withSeed bool) []byte {
	fieldID := der.Seq(der.OID(1, 2, 840, 10045, 1, 1), der.Int(c.P))
	curveParts := [][]byte{der.Octets(c.FE2OS(c.A)), der.Octets(c.FE2OS(c.B))}
	if withSeed {
		curveParts = append(curveParts, der.BitString([]byte{0x01, 0x02, 0x03, 0x04, 0x05, 0x06, 0x07, 0x08, 0x09, 0x0A, 0x0B, 0x0C, 0x0D, 0x0E, 0x0F, 0x10, 0x11, 0x12, 0x13, 0x14}))
	}
	parts := [][]byte{der.Int64(1), fieldID, der.Seq(curveParts...), der.Octets(c.Encode(c.G())), der.Int(c.N)}
	if !noCofactor {
		parts = append(parts, der.Int64(int64(c.H)))
	}
	return der.Seq(parts...)
}

// SPKI returns the DER SubjectPublicKeyInfo.
func (k *Key) SPKI() []byte {
	if k.RSA != nil {
		pk := der.Seq(der.Int(k.RSA.N), der.Int(k.RSA.E))
		return der.Seq(der.Seq(der.OID(1, 2, 840, 113549, 1, 1, 1), der.Null()), der.BitString(pk))
	}
	c := k.EC.Curve
	var params []byte
	if k.Explicit {
		params = ExplicitECParameters(c, k.NoCofactor, k.WithSeed)
	} else {
		params = der.OID(CurveOID(c)...)
	}
	return der.Seq(der.Seq(der.OID(1, 2, 840, 10045, 2, 1), params), der.BitString(c.Encode(k.EC.Q)))
}

// KeyID is the subject key identifier used by the issuer: SHA-1 of the public key bits.
func (k *Key) KeyID() []byte {
	var bits []byte
	if k.RSA != nil {
		bits = der.Seq(der.Int(k.RSA.N), der.Int(k.RSA.E))
	} else {
		bits = k.EC.Curve.Encode(k.EC.Q)
	}
	s := sha1.Sum(bits)
	return s[:]
}
