package issuer

import (
	"fmt"
	"strings"

	"verifharness/refber"
)

// CMSLevels is a set of constructed elements of a CMS ContentInfo/SignedData, named by
// their position in the structure (not by depth), so that a generator can choose exactly
// which of them use the BER indefinite-length form. Certificates (the elements of the
// certificates [0] field) are never touched: their signatures cover the encoding.
type CMSLevels uint32

const (
	LvContentInfo      CMSLevels = 1 << iota // ContentInfo SEQUENCE (outermost)
	LvContent0                               // [0] EXPLICIT content
	LvSignedData                             // SignedData SEQUENCE
	LvDigestAlgSet                           // digestAlgorithms SET
	LvDigestAlgID                            // AlgorithmIdentifier SEQUENCEs in that SET
	LvEncap                                  // encapContentInfo SEQUENCE
	LvEContent0                              // [0] EXPLICIT eContent
	LvCertSet                                // certificates [0] (the field, not its members)
	LvSignerInfos                            // signerInfos SET
	LvSignerInfo                             // SignerInfo SEQUENCE(s)
	LvSID                                    // issuerAndSerialNumber SEQUENCE
	LvSIDName                                // issuer Name and every constructed element below it
	LvSIDigestAlg                            // SignerInfo.digestAlgorithm SEQUENCE
	LvSignedAttrs                            // signedAttrs [0]
	LvSignedAttrsInner                       // Attribute SEQUENCEs and value SETs inside signedAttrs
	LvSigAlg                                 // SignerInfo.signatureAlgorithm SEQUENCE
	LvSigAlgParams                           // constructed parameters below it (RSASSA-PSS-params ...)
	lvEnd
)

// NumCMSLevels is the number of distinct level bits.
const NumCMSLevels = 17

// LvAll selects every level.
const LvAll = lvEnd - 1

// LvSignedAttrsAny are the levels that re-encode the signed attributes. RFC 5652 5.3
// requires signedAttrs to be DER "even if the rest of the structure is BER"; a conforming
// issuer never selects them.
const LvSignedAttrsAny = LvSignedAttrs | LvSignedAttrsInner

var cmsLevelNames = []string{"contentInfo", "content0", "signedData", "digestAlgSet", "digestAlgId", "encap", "eContent0",
	"certSet", "signerInfos", "signerInfo", "sid", "sidName", "siDigestAlg", "signedAttrs", "signedAttrsInner", "sigAlg", "sigAlgParams"}

func (l CMSLevels) String() string {
	if l == 0 {
		return "none"
	}
	var s []string
	for i := 0; i < NumCMSLevels; i++ {
		if l&(1<<i) != 0 {
			s = append(s, cmsLevelNames[i])
		}
	}
	return strings.Join(s, "+")
}

// Count is the number of selected levels.
func (l CMSLevels) Count() int {
	n := 0
	for i := 0; i < NumCMSLevels; i++ {
		if l&(1<<i) != 0 {
			n++
		}
	}
	return n
}

// CMSLevelName names level bit i (0 <= i < NumCMSLevels).
func CMSLevelName(i int) string { return cmsLevelNames[i] }

func markIndef(n *refber.Node) {
	n.Indefinite, n.EOCLen = true, 2
}

func markBelow(n *refber.Node, self bool) int {
	c := 0
	if !n.Constructed {
		return 0
	}
	if self {
		markIndef(n)
		c++
	}
	for _, k := range n.Children {
		c += markBelow(k, true)
	}
	return c
}

// IndefiniteLevels re-encodes the DER ContentInfo `in` (as produced by BuildSignedData)
// with the indefinite-length form on exactly the selected levels; everything else keeps
// its definite DER form. It returns the encoding and the subset of the mask that
// corresponds to elements really present (no SID levels for the subjectKeyIdentifier form,
// no parameter level when the parameters are primitive or absent, ...).
func IndefiniteLevels(in []byte, mask CMSLevels) ([]byte, CMSLevels) {
	nodes, err := refber.Parse(in)
	if err != nil || len(nodes) != 1 {
		panic(fmt.Sprintf("issuer: IndefiniteLevels: not one element: %v", err))
	}
	var applied CMSLevels
	set := func(lv CMSLevels, n *refber.Node) {
		if n == nil || !n.Constructed || mask&lv == 0 {
			return
		}
		markIndef(n)
		applied |= lv
	}
	below := func(lv CMSLevels, n *refber.Node, self bool) {
		if n == nil || mask&lv == 0 {
			return
		}
		if markBelow(n, self) > 0 {
			applied |= lv
		}
	}
	ci := nodes[0]
	bad := func(what string) { panic("issuer: IndefiniteLevels: unexpected structure: " + what) }
	if ci.Tag != 0x30 || len(ci.Children) != 2 || ci.Children[1].Tag != 0xA0 || len(ci.Children[1].Children) != 1 {
		bad("ContentInfo")
	}
	set(LvContentInfo, ci)
	c0 := ci.Children[1]
	set(LvContent0, c0)
	sd := c0.Children[0]
	if sd.Tag != 0x30 || len(sd.Children) < 4 {
		bad("SignedData")
	}
	set(LvSignedData, sd)
	das := sd.Children[1]
	if das.Tag != 0x31 {
		bad("digestAlgorithms")
	}
	set(LvDigestAlgSet, das)
	for _, a := range das.Children {
		set(LvDigestAlgID, a)
	}
	encap := sd.Children[2]
	if encap.Tag != 0x30 || len(encap.Children) < 1 {
		bad("encapContentInfo")
	}
	set(LvEncap, encap)
	if len(encap.Children) > 1 {
		set(LvEContent0, encap.Children[1])
	}
	for _, f := range sd.Children[3 : len(sd.Children)-1] {
		if f.Tag == 0xA0 {
			set(LvCertSet, f)
		}
	}
	sis := sd.Children[len(sd.Children)-1]
	if sis.Tag != 0x31 {
		bad("signerInfos")
	}
	set(LvSignerInfos, sis)
	for _, si := range sis.Children {
		if si.Tag != 0x30 || len(si.Children) < 5 {
			bad("SignerInfo")
		}
		set(LvSignerInfo, si)
		k := si.Children
		sid := k[1]
		if sid.Tag == 0x30 {
			set(LvSID, sid)
			if len(sid.Children) > 0 {
				below(LvSIDName, sid.Children[0], true)
			}
		}
		set(LvSIDigestAlg, k[2])
		i := 3
		if k[i].Tag == 0xA0 {
			set(LvSignedAttrs, k[i])
			below(LvSignedAttrsInner, k[i], false)
			i++
		}
		if i >= len(k) || k[i].Tag != 0x30 {
			bad("signatureAlgorithm")
		}
		set(LvSigAlg, k[i])
		below(LvSigAlgParams, k[i], false)
	}
	return refber.EncodeForm(nodes), applied
}

// SegmentEContent re-encodes the eContent OCTET STRING of the DER/BER ContentInfo `in` in
// the BER constructed form (tag 24) with the given segment lengths (the last segment takes
// the rest; lengths beyond the content are dropped). With indefinite set the constructed
// string itself uses the indefinite-length form. Form hints already on the tree (indefinite
// levels) are preserved, so it composes with IndefiniteLevels. ok is false when the object
// has no eContent.
func SegmentEContent(in []byte, segs []int, indefinite bool) (out []byte, ok bool) {
	nodes, err := refber.Parse(in)
	if err != nil || len(nodes) != 1 {
		panic(fmt.Sprintf("issuer: SegmentEContent: not one element: %v", err))
	}
	defer func() {
		if recover() != nil {
			out, ok = nil, false
		}
	}()
	encap := nodes[0].Children[1].Children[0].Children[2]
	if len(encap.Children) < 2 || len(encap.Children[1].Children) != 1 {
		return nil, false
	}
	os := encap.Children[1].Children[0]
	if os.Tag != 0x04 || os.Constructed {
		return nil, false
	}
	val := os.Value
	var kids []*refber.Node
	for _, n := range segs {
		if n < 0 || n > len(val) {
			break
		}
		kids = append(kids, &refber.Node{Tag: 0x04, TagLen: 1, Value: val[:n]})
		val = val[n:]
	}
	kids = append(kids, &refber.Node{Tag: 0x04, TagLen: 1, Value: val})
	os.Tag, os.Constructed, os.Value, os.Children = 0x24, true, nil, kids
	if indefinite {
		markIndef(os)
	}
	return refber.EncodeForm(nodes), true
}
