package issuer

import (
	"math/big"
	mrand "math/rand/v2"
	"time"

	"verifharness/der"
)

// RDNAttr is one AttributeTypeAndValue.
type RDNAttr struct {
	OID   []int
	Value string
	Tag   byte // string type: 0x13 PrintableString (default), 0x0C UTF8String, 0x16 IA5String, 0x1E BMPString
	// Plus: this attribute belongs to the RDN of the attribute before it (multi-valued RDN,
	// "OU=a+CN=b"); the members of such a SET are emitted in DER order. Default: an RDN of its own.
	Plus bool
}

var (
	OIDCountry = []int{2, 5, 4, 6}
	OIDOrg     = []int{2, 5, 4, 10}
	OIDOrgUnit = []int{2, 5, 4, 11}
	OIDCN      = []int{2, 5, 4, 3}
	OIDSerial  = []int{2, 5, 4, 5}
)

// Name is a sequence of RDNs; single-attribute ones unless RDNAttr.Plus joins neighbours.
type Name []RDNAttr

func (a RDNAttr) valueDER() []byte {
	tag := a.Tag
	if tag == 0 {
		tag = 0x13
	}
	if tag == 0x1E {
		var b []byte
		for _, r := range a.Value {
			b = append(b, byte(r>>8), byte(r))
		}
		return der.T(tag, b)
	}
	return der.T(tag, []byte(a.Value))
}

func (n Name) DER() []byte {
	var rdns [][]byte
	for i := 0; i < len(n); {
		members := [][]byte{der.Seq(der.OID(n[i].OID...), n[i].valueDER())}
		for i++; i < len(n) && n[i].Plus; i++ {
			members = append(members, der.Seq(der.OID(n[i].OID...), n[i].valueDER()))
		}
		rdns = append(rdns, der.Set(members...))
	}
	return der.Seq(rdns...)
}

func (n Name) Country() string {
	for _, a := range n {
		if len(a.OID) == 4 && a.OID[3] == 6 && a.OID[2] == 4 {
			return a.Value
		}
	}
	return ""
}

// SimpleName builds C=cc, O=org, CN=cn.
func SimpleName(cc, org, cn string) Name {
	return Name{{OID: OIDCountry, Value: cc}, {OID: OIDOrg, Value: org, Tag: 0x0C}, {OID: OIDCN, Value: cn, Tag: 0x0C}}
}

// TimeDER encodes a Time: UTCTime before 2050, GeneralizedTime otherwise (RFC 5280).
func TimeDER(t time.Time) []byte {
	t = t.UTC()
	if t.Year() >= 1950 && t.Year() < 2050 {
		return der.UTCTime(t.Format("060102150405Z"))
	}
	return der.GenTime(t.Format("20060102150405Z"))
}

const (
	KUDigitalSignature = 0x80
	KUKeyCertSign      = 0x04
	KUCRLSign          = 0x02
)

type CertSpec struct {
	Version   int // 0 => v3
	Serial    *big.Int
	Issuer    Name
	Subject   Name
	NotBefore time.Time
	NotAfter  time.Time
	Key       *Key
	SKI       []byte // nil: no subjectKeyIdentifier extension
	AKI       []byte // nil: no authorityKeyIdentifier extension
	KeyUsage  int    // 0: no keyUsage extension; else the first octet of the bit string
	BasicCons bool   // include basicConstraints
	IsCA      bool
	PathLen   int // -1: absent
	ExtraExts [][]byte
	Scheme    SigScheme
	Hash      HashAlg
	// raw overrides (mutation hooks)
	IssuerDER []byte
}

func ext(oid []int, critical bool, value []byte) []byte {
	parts := [][]byte{der.OID(oid...)}
	if critical {
		parts = append(parts, der.Bool(true))
	}
	parts = append(parts, der.Octets(value))
	return der.Seq(parts...)
}

// Ext builds an arbitrary extension.
func Ext(oid []int, critical bool, value []byte) []byte { return ext(oid, critical, value) }

func unusedBits(b byte) byte {
	n := byte(0)
	for n < 8 && b&(1<<n) == 0 {
		n++
	}
	if n == 8 {
		return 0
	}
	return n
}

// TBS builds the TBSCertificate.
func (s CertSpec) TBS() []byte {
	var exts [][]byte
	if s.SKI != nil {
		exts = append(exts, ext([]int{2, 5, 29, 14}, false, der.Octets(s.SKI)))
	}
	if s.AKI != nil {
		exts = append(exts, ext([]int{2, 5, 29, 35}, false, der.Seq(der.Ctx(0, false, s.AKI))))
	}
	if s.KeyUsage != 0 {
		ku := byte(s.KeyUsage)
		exts = append(exts, ext([]int{2, 5, 29, 15}, true, der.T(0x03, []byte{unusedBits(ku), ku})))
	}
	if s.BasicCons {
		var parts [][]byte
		if s.IsCA {
			parts = append(parts, der.Bool(true))
			if s.PathLen >= 0 {
				parts = append(parts, der.Int64(int64(s.PathLen)))
			}
		}
		exts = append(exts, ext([]int{2, 5, 29, 19}, true, der.Seq(parts...)))
	}
	exts = append(exts, s.ExtraExts...)
	issuer := s.Issuer.DER()
	if s.IssuerDER != nil {
		issuer = s.IssuerDER
	}
	parts := [][]byte{
		der.Ctx(0, true, der.Int64(2)),
		der.Int(s.Serial),
		SigAlgID(s.Scheme, s.Hash),
		issuer,
		der.Seq(TimeDER(s.NotBefore), TimeDER(s.NotAfter)),
		s.Subject.DER(),
		s.Key.SPKI(),
	}
	if len(exts) > 0 {
		parts = append(parts, der.Ctx(3, true, der.Seq(exts...)))
	}
	return der.Seq(parts...)
}

// BuildCert signs the TBSCertificate with the signer key.
func BuildCert(r *mrand.Rand, s CertSpec, signer *Key) []byte {
	tbs := s.TBS()
	sig := signer.SignDigest(r, s.Scheme, s.Hash, s.Hash.Sum(tbs))
	return der.Seq(tbs, SigAlgID(s.Scheme, s.Hash), der.BitString(sig))
}
