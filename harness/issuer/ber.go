package issuer

import (
	mrand "math/rand/v2"

	"verifharness/refber"
)

// ToIndefinite rewrites a DER encoding so that a PRNG-chosen subset of its constructed
// elements uses the indefinite-length form (80 ... 00 00). Elements for which skip returns
// true (and everything below them) keep their definite encoding - certificates must stay
// DER because their signatures cover the encoded bytes. prob is the per-element
// probability in percent; the outermost element is always rewritten when force is set.
func ToIndefinite(r *mrand.Rand, in []byte, prob int, force bool, skip func(n *refber.Node, depth int, path []uint32) bool) ([]byte, int) {
	nodes, err := refber.Parse(in)
	if err != nil {
		panic("issuer: ToIndefinite: " + err.Error())
	}
	count := 0
	var walk func(ns []*refber.Node, depth int, path []uint32)
	walk = func(ns []*refber.Node, depth int, path []uint32) {
		for _, n := range ns {
			if !n.Constructed {
				continue
			}
			p := append(append([]uint32{}, path...), n.Tag)
			if skip != nil && skip(n, depth, p) {
				continue
			}
			if (force && depth == 0) || r.IntN(100) < prob {
				n.Indefinite = true
				n.EOCLen = 2
				count++
			}
			walk(n.Children, depth+1, p)
		}
	}
	walk(nodes, 0, nil)
	return refber.EncodeForm(nodes), count
}
