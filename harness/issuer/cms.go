package issuer

import (
	"math/big"
	mrand "math/rand/v2"
	"time"

	"verifharness/der"
	"verifharness/ecref"
)

var (
	OIDSignedData        = []int{1, 2, 840, 113549, 1, 7, 2}
	OIDAttrContentType   = []int{1, 2, 840, 113549, 1, 9, 3}
	OIDAttrMessageDigest = []int{1, 2, 840, 113549, 1, 9, 4}
	OIDAttrSigningTime   = []int{1, 2, 840, 113549, 1, 9, 5}
	OIDLDSSecurityObject = []int{2, 23, 136, 1, 1, 1}
	OIDSecurityObject    = []int{0, 4, 0, 127, 0, 7, 3, 2, 1}
	OIDCscaMasterList    = []int{2, 23, 136, 1, 1, 2}
	OIDRSAEncryption     = []int{1, 2, 840, 113549, 1, 1, 1}
)

// SignedDataSpec describes one CMS SignedData with a single SignerInfo.
type SignedDataSpec struct {
	EContentType []int
	EContent     []byte
	Certs        [][]byte // embedded certificates, in this order

	SignerKey     *Key
	SIDIssuerDER  []byte   // issuer Name of the signer certificate (issuerAndSerialNumber form)
	SIDSerial     *big.Int //
	SIDSKI        []byte   // when non-nil the subjectKeyIdentifier form is used
	Digest        HashAlg
	Scheme        SigScheme
	PlainRSAOID   bool // rsaEncryption instead of shaXWithRSAEncryption in the SignerInfo
	SigningTime   *time.Time
	ExtraAttrs    [][]byte // further signed attributes (DER Attribute)
	UnsignedAttrs [][]byte
	DigestNull    bool // NULL parameters in digest AlgorithmIdentifiers
	SDVersion     int  // 0 => 3

	// forgery hooks
	MessageDigest   []byte // overrides the messageDigest attribute value
	ContentTypeAttr []int  // overrides the contentType attribute value
	Signature       []byte // overrides the signature value
	NoSignedAttrs   bool
}

func attr(oid []int, values ...[]byte) []byte {
	return der.Seq(der.OID(oid...), der.T(0x31, values...))
}

// Attr builds an Attribute with a single value.
func Attr(oid []int, value []byte) []byte { return attr(oid, value) }

// SignedAttrs returns the DER SET OF Attribute content (sorted, without the outer tag).
func (s *SignedDataSpec) signedAttrsSet() []byte {
	ct := s.EContentType
	if s.ContentTypeAttr != nil {
		ct = s.ContentTypeAttr
	}
	md := s.Digest.Sum(s.EContent)
	if s.MessageDigest != nil {
		md = s.MessageDigest
	}
	attrs := [][]byte{attr(OIDAttrContentType, der.OID(ct...)), attr(OIDAttrMessageDigest, der.Octets(md))}
	if s.SigningTime != nil {
		attrs = append(attrs, attr(OIDAttrSigningTime, TimeDER(*s.SigningTime)))
	}
	attrs = append(attrs, s.ExtraAttrs...)
	return der.Set(attrs...) // 31 len sorted members
}

// BuildSignedData returns the DER ContentInfo.
func BuildSignedData(r *mrand.Rand, s SignedDataSpec) []byte {
	digestID := s.Digest.AlgID(s.DigestNull)
	set := s.signedAttrsSet()
	sig := s.Signature
	if sig == nil {
		var toSign []byte
		if s.NoSignedAttrs {
			toSign = s.EContent
		} else {
			toSign = set
		}
		sig = s.SignerKey.SignDigest(r, s.Scheme, s.Digest, s.Digest.Sum(toSign))
	}
	var sid []byte
	siVersion := int64(1)
	if s.SIDSKI != nil {
		sid = der.Ctx(0, false, s.SIDSKI)
		siVersion = 3
	} else {
		sid = der.Seq(s.SIDIssuerDER, der.Int(s.SIDSerial))
	}
	sigAlg := SigAlgID(s.Scheme, s.Digest)
	if s.Scheme == RSAPKCS1 && s.PlainRSAOID {
		sigAlg = der.Seq(der.OID(OIDRSAEncryption...), der.Null())
	}
	siParts := [][]byte{der.Int64(siVersion), sid, digestID}
	if !s.NoSignedAttrs {
		// [0] IMPLICIT SET OF: same content octets as the SET
		siParts = append(siParts, append([]byte{0xA0}, set[1:]...))
	}
	siParts = append(siParts, sigAlg, der.Octets(sig))
	if len(s.UnsignedAttrs) > 0 {
		siParts = append(siParts, der.Ctx(1, true, s.UnsignedAttrs...))
	}
	signerInfo := der.Seq(siParts...)
	sdVersion := int64(3)
	if s.SDVersion != 0 {
		sdVersion = int64(s.SDVersion)
	}
	encap := der.Seq(der.OID(s.EContentType...), der.Ctx(0, true, der.Octets(s.EContent)))
	sdParts := [][]byte{der.Int64(sdVersion), der.T(0x31, digestID), encap}
	if len(s.Certs) > 0 {
		sdParts = append(sdParts, der.Ctx(0, true, s.Certs...))
	}
	sdParts = append(sdParts, der.T(0x31, signerInfo))
	return der.Seq(der.OID(OIDSignedData...), der.Ctx(0, true, der.Seq(sdParts...)))
}

// ---------------------------------------------------------------------------------------
// LDS security object and EF.SOD

type LDSSpec struct {
	Version  int // 0 or 1
	Hash     HashAlg
	HashNull bool
	DGHashes map[int][]byte
	Order    []int  // data group numbers in the order to emit (nil = ascending)
	LDSVer   string // for version 1, e.g. "0108"
	UniVer   string // e.g. "040000"
}

func (l LDSSpec) DER() []byte {
	order := l.Order
	if order == nil {
		for n := 1; n <= 16; n++ {
			if _, ok := l.DGHashes[n]; ok {
				order = append(order, n)
			}
		}
	}
	var hs [][]byte
	for _, n := range order {
		hs = append(hs, der.Seq(der.Int64(int64(n)), der.Octets(l.DGHashes[n])))
	}
	parts := [][]byte{der.Int64(int64(l.Version)), l.Hash.AlgID(l.HashNull), der.Seq(hs...)}
	if l.Version == 1 {
		parts = append(parts, der.Seq(der.Printable(l.LDSVer), der.Printable(l.UniVer)))
	}
	return der.Seq(parts...)
}

// WrapSOD puts a SignedData ContentInfo into the EF.SOD template (tag 77).
func WrapSOD(contentInfo []byte) []byte { return der.T(0x77, contentInfo) }

// ---------------------------------------------------------------------------------------
// security infos used in CardSecurity / DG14

// ChipAuthPublicKeyInfoStd: ChipAuthenticationPublicKeyInfo with the BSI standardised
// domain parameter AlgorithmIdentifier { 0.4.0.127.0.7.1.2, INTEGER id } (used for CAM).
func ChipAuthPublicKeyInfoStd(paramID int, point []byte, keyID int) []byte {
	spki := der.Seq(der.Seq(der.OID(0, 4, 0, 127, 0, 7, 1, 2), der.Int64(int64(paramID))), der.BitString(point))
	parts := [][]byte{der.OID(0, 4, 0, 127, 0, 7, 2, 2, 1, 2), spki}
	if keyID >= 0 {
		parts = append(parts, der.Int64(int64(keyID)))
	}
	return der.Seq(parts...)
}

// ChipAuthPublicKeyInfo with an X9.62 SubjectPublicKeyInfo (named or explicit parameters).
func ChipAuthPublicKeyInfo(spki []byte, keyID int) []byte {
	parts := [][]byte{der.OID(0, 4, 0, 127, 0, 7, 2, 2, 1, 2), spki}
	if keyID >= 0 {
		parts = append(parts, der.Int64(int64(keyID)))
	}
	return der.Seq(parts...)
}

// ChipAuthInfo ::= SEQUENCE { protocol id-CA-ECDH-*, version 1, keyId OPTIONAL }.
func ChipAuthInfo(suite int, keyID int) []byte {
	parts := [][]byte{der.OID(0, 4, 0, 127, 0, 7, 2, 2, 3, 2, suite+1), der.Int64(1)}
	if keyID >= 0 {
		parts = append(parts, der.Int64(int64(keyID)))
	}
	return der.Seq(parts...)
}

// ActiveAuthInfo ::= SEQUENCE { protocol id-icao-mrtd-security-aaProtocolObject, version 1, signatureAlgorithm OID }.
func ActiveAuthInfo(sigAlgArcs []int) []byte {
	return der.Seq(der.OID(2, 23, 136, 1, 1, 5), der.Int64(1), der.OID(sigAlgArcs...))
}

// ---------------------------------------------------------------------------------------
// a complete little PKI

var BaseTime = time.Date(2024, 3, 1, 12, 0, 0, 0, time.UTC)

type PKIOpts struct {
	Country                     string
	CSCAKey                     *Key
	DSKey                       *Key
	CSCAPSS                     bool // RSA CSCA signs with PSS
	DSPSS                       bool // RSA DS signs with PSS
	CertHash                    HashAlg
	CSCANotBefore, CSCANotAfter time.Time
	DSNotBefore, DSNotAfter     time.Time
	DSKeyUsage                  int // default digitalSignature
	CSCAKeyUsage                int // default keyCertSign|cRLSign
	CSCAIsCA                    *bool
	CSCAName                    Name
	DSName                      Name
	DSExtra                     [][]byte
	CSCAExtra                   [][]byte
	DSIssuerDER                 []byte // raw issuer field override in the DS certificate
}

type PKI struct {
	Opts     PKIOpts
	CSCAKey  *Key
	DSKey    *Key
	CSCACert []byte
	DSCert   []byte
	CSCAName Name
	DSName   Name
	DSSerial *big.Int
	DSSpec   CertSpec
	CSCASpec CertSpec
}

func randSerial(r *mrand.Rand) *big.Int {
	b := make([]byte, 8)
	for i := range b {
		b[i] = byte(r.Uint32())
	}
	b[0] &= 0x7f
	b[0] |= 0x01
	return new(big.Int).SetBytes(b)
}

// NewPKI issues a self-signed CSCA and a document signer below it.
func NewPKI(r *mrand.Rand, o PKIOpts) *PKI {
	if o.Country == "" {
		o.Country = "UT"
	}
	if o.CSCAKey == nil {
		o.CSCAKey = NewECKey(r, ecref.ByName("P-256"))
	}
	if o.DSKey == nil {
		o.DSKey = NewECKey(r, ecref.ByName("P-256"))
	}
	if o.CSCANotBefore.IsZero() {
		o.CSCANotBefore, o.CSCANotAfter = BaseTime.AddDate(-3, 0, 0), BaseTime.AddDate(12, 0, 0)
	}
	if o.DSNotBefore.IsZero() {
		o.DSNotBefore, o.DSNotAfter = BaseTime.AddDate(0, -6, 0), BaseTime.AddDate(10, 0, 0)
	}
	if o.DSKeyUsage == 0 {
		o.DSKeyUsage = KUDigitalSignature
	}
	if o.CSCAKeyUsage == 0 {
		o.CSCAKeyUsage = KUKeyCertSign | KUCRLSign
	}
	isCA := true
	if o.CSCAIsCA != nil {
		isCA = *o.CSCAIsCA
	}
	p := &PKI{Opts: o, CSCAKey: o.CSCAKey, DSKey: o.DSKey}
	p.CSCAName = o.CSCAName
	if p.CSCAName == nil {
		p.CSCAName = SimpleName(o.Country, "Utopia Gov", "CSCA "+o.Country)
	}
	p.DSName = o.DSName
	if p.DSName == nil {
		p.DSName = SimpleName(o.Country, "Utopia Gov", "Document Signer 1")
	}
	cscaScheme := SchemeFor(o.CSCAKey, o.CSCAPSS)
	p.CSCASpec = CertSpec{Serial: randSerial(r), Issuer: p.CSCAName, Subject: p.CSCAName, NotBefore: o.CSCANotBefore, NotAfter: o.CSCANotAfter,
		Key: o.CSCAKey, SKI: o.CSCAKey.KeyID(), AKI: o.CSCAKey.KeyID(), KeyUsage: o.CSCAKeyUsage, BasicCons: true, IsCA: isCA, PathLen: 0,
		Scheme: cscaScheme, Hash: o.CertHash, ExtraExts: o.CSCAExtra}
	p.CSCACert = BuildCert(r, p.CSCASpec, o.CSCAKey)
	p.DSSerial = randSerial(r)
	p.DSSpec = CertSpec{Serial: p.DSSerial, Issuer: p.CSCAName, Subject: p.DSName, NotBefore: o.DSNotBefore, NotAfter: o.DSNotAfter,
		Key: o.DSKey, SKI: o.DSKey.KeyID(), AKI: o.CSCAKey.KeyID(), KeyUsage: o.DSKeyUsage,
		Scheme: cscaScheme, Hash: o.CertHash, ExtraExts: o.DSExtra, PathLen: -1, IssuerDER: o.DSIssuerDER}
	p.DSCert = BuildCert(r, p.DSSpec, o.CSCAKey)
	return p
}

// SignerSpec fills the signer-related fields of a SignedDataSpec for this PKI's DS.
func (p *PKI) SignerSpec(digest HashAlg, bySKI bool) SignedDataSpec {
	s := SignedDataSpec{SignerKey: p.DSKey, Digest: digest, Scheme: SchemeFor(p.DSKey, p.Opts.DSPSS), Certs: [][]byte{p.DSCert}}
	issuer := p.CSCAName.DER()
	if p.Opts.DSIssuerDER != nil {
		issuer = p.Opts.DSIssuerDER
	}
	s.SIDIssuerDER, s.SIDSerial = issuer, p.DSSerial
	if bySKI {
		s.SIDSKI = p.DSKey.KeyID()
	}
	return s
}

var quickPKI *PKI

// QuickSignedData signs content under a fixed small P-256 PKI (for monitors that only
// need a structurally and cryptographically valid object, e.g. CardSecurity for PACE-CAM).
func QuickSignedData(r *mrand.Rand, eContentType []int, content []byte) []byte {
	if quickPKI == nil {
		quickPKI = NewPKI(mrand.New(mrand.NewPCG(42, 42)), PKIOpts{CertHash: SHA256})
	}
	s := quickPKI.SignerSpec(SHA256, false)
	s.EContentType, s.EContent = eContentType, content
	st := BaseTime
	s.SigningTime = &st
	return BuildSignedData(r, s)
}

func QuickPKI() *PKI {
	if quickPKI == nil {
		quickPKI = NewPKI(mrand.New(mrand.NewPCG(42, 42)), PKIOpts{CertHash: SHA256})
	}
	return quickPKI
}

// MasterListSpec describes a CSCA master list (ICAO 9303-12 section 9).
type MasterListSpec struct {
	Certs [][]byte // CSCA certificates in the list
}

// MasterListContent builds CscaMasterList ::= SEQUENCE { version INTEGER(0), certList SET OF Certificate }.
func MasterListContent(certs [][]byte) []byte {
	return der.Seq(der.Int64(0), der.SetUnsorted(certs...))
}

// QuickSecurityInfos returns a small SecurityInfos SET (one PACEInfo) for objects that
// only need parseable content.
func QuickSecurityInfos() []byte {
	return der.Set(der.Seq(der.OID(0, 4, 0, 127, 0, 7, 2, 2, 4, 2, 2), der.Int64(2), der.Int64(13)))
}
