package issuer

import (
	"bytes"
	"fmt"
	"math/big"
	mrand "math/rand/v2"

	"verifharness/der"
)

// SigScheme selects how a key signs.
type SigScheme int

const (
	RSAPKCS1 SigScheme = iota
	RSAPSS
	ECDSA
)

func (s SigScheme) String() string { return [...]string{"RSA-PKCS1v15", "RSA-PSS", "ECDSA"}[s] }

// digestInfo prefixes (RFC 8017 section 9.2 note 1)
var digestInfoPrefix = map[HashAlg][]byte{
	SHA1:   {0x30, 0x21, 0x30, 0x09, 0x06, 0x05, 0x2b, 0x0e, 0x03, 0x02, 0x1a, 0x05, 0x00, 0x04, 0x14},
	SHA224: {0x30, 0x2d, 0x30, 0x0d, 0x06, 0x09, 0x60, 0x86, 0x48, 0x01, 0x65, 0x03, 0x04, 0x02, 0x04, 0x05, 0x00, 0x04, 0x1c},
	SHA256: {0x30, 0x31, 0x30, 0x0d, 0x06, 0x09, 0x60, 0x86, 0x48, 0x01, 0x65, 0x03, 0x04, 0x02, 0x01, 0x05, 0x00, 0x04, 0x20},
	SHA384: {0x30, 0x41, 0x30, 0x0d, 0x06, 0x09, 0x60, 0x86, 0x48, 0x01, 0x65, 0x03, 0x04, 0x02, 0x02, 0x05, 0x00, 0x04, 0x30},
	SHA512: {0x30, 0x51, 0x30, 0x0d, 0x06, 0x09, 0x60, 0x86, 0x48, 0x01, 0x65, 0x03, 0x04, 0x02, 0x03, 0x05, 0x00, 0x04, 0x40},
}

func (k *RSAKey) private(m *big.Int) *big.Int { return new(big.Int).Exp(m, k.D, k.N) }

// Public applies the public exponent.
func (k *RSAKey) Public(s *big.Int) *big.Int { return new(big.Int).Exp(s, k.E, k.N) }

func (k *RSAKey) ByteLen() int { return (k.N.BitLen() + 7) / 8 }

// SignPKCS1 is RSASSA-PKCS1-v1_5 over an already computed digest.
func (k *RSAKey) SignPKCS1(h HashAlg, digest []byte) []byte {
	t := append(append([]byte{}, digestInfoPrefix[h]...), digest...)
	n := k.ByteLen()
	if n < len(t)+11 {
		panic("issuer: RSA key too short for digest")
	}
	em := make([]byte, n)
	em[1] = 1
	for i := 2; i < n-len(t)-1; i++ {
		em[i] = 0xff
	}
	copy(em[n-len(t):], t)
	return k.private(new(big.Int).SetBytes(em)).FillBytes(make([]byte, n))
}

func mgf1(h HashAlg, seed []byte, n int) []byte {
	var out []byte
	for c := 0; len(out) < n; c++ {
		x := h.New()
		x.Write(seed)
		x.Write([]byte{byte(c >> 24), byte(c >> 16), byte(c >> 8), byte(c)})
		out = x.Sum(out)
	}
	return out[:n]
}

// SignPSS is RSASSA-PSS (RFC 8017 9.1.1) with MGF1 over the same hash.
func (k *RSAKey) SignPSS(h HashAlg, digest, salt []byte) []byte {
	emBits := k.N.BitLen() - 1
	emLen := (emBits + 7) / 8
	hLen := h.Size()
	if emLen < hLen+len(salt)+2 {
		panic("issuer: RSA key too short for PSS")
	}
	x := h.New()
	x.Write(make([]byte, 8))
	x.Write(digest)
	x.Write(salt)
	H := x.Sum(nil)
	db := make([]byte, emLen-hLen-1)
	db[len(db)-len(salt)-1] = 1
	copy(db[len(db)-len(salt):], salt)
	mask := mgf1(h, H, len(db))
	for i := range db {
		db[i] ^= mask[i]
	}
	db[0] &= 0xff >> uint(8*emLen-emBits)
	em := append(append(db, H...), 0xbc)
	return k.private(new(big.Int).SetBytes(em)).FillBytes(make([]byte, k.ByteLen()))
}

// ECDSASigDER encodes Ecdsa-Sig-Value ::= SEQUENCE { r INTEGER, s INTEGER }.
func ECDSASigDER(r, s *big.Int) []byte { return der.Seq(der.Int(r), der.Int(s)) }

// SignDigest signs a digest with the key under the scheme, returning the signature
// value octets (for ECDSA the DER Ecdsa-Sig-Value).
func (k *Key) SignDigest(r *mrand.Rand, scheme SigScheme, h HashAlg, digest []byte) []byte {
	switch scheme {
	case RSAPKCS1:
		return k.RSA.SignPKCS1(h, digest)
	case RSAPSS:
		salt := make([]byte, h.Size())
		for i := range salt {
			salt[i] = byte(r.Uint32())
		}
		return k.RSA.SignPSS(h, digest, salt)
	case ECDSA:
		for {
			nonce := randScalar(r, k.EC.Curve)
			rr, ss, ok := k.EC.Curve.Sign(k.EC.D, digest, nonce)
			if ok {
				return ECDSASigDER(rr, ss)
			}
		}
	}
	panic("issuer: unknown scheme")
}

// SigAlgID is the signature AlgorithmIdentifier for (scheme, hash).
func SigAlgID(scheme SigScheme, h HashAlg) []byte {
	switch scheme {
	case RSAPKCS1:
		arcs := map[HashAlg][]int{SHA1: {1, 2, 840, 113549, 1, 1, 5}, SHA224: {1, 2, 840, 113549, 1, 1, 14}, SHA256: {1, 2, 840, 113549, 1, 1, 11}, SHA384: {1, 2, 840, 113549, 1, 1, 12}, SHA512: {1, 2, 840, 113549, 1, 1, 13}}[h]
		return der.Seq(der.OID(arcs...), der.Null())
	case RSAPSS:
		hashID := h.AlgID(true)
		mgf := der.Seq(der.OID(1, 2, 840, 113549, 1, 1, 8), hashID)
		params := der.Seq(der.Ctx(0, true, hashID), der.Ctx(1, true, mgf), der.Ctx(2, true, der.Int64(int64(h.Size()))))
		return der.Seq(der.OID(1, 2, 840, 113549, 1, 1, 10), params)
	case ECDSA:
		arcs := map[HashAlg][]int{SHA1: {1, 2, 840, 10045, 4, 1}, SHA224: {1, 2, 840, 10045, 4, 3, 1}, SHA256: {1, 2, 840, 10045, 4, 3, 2}, SHA384: {1, 2, 840, 10045, 4, 3, 3}, SHA512: {1, 2, 840, 10045, 4, 3, 4}}[h]
		return der.Seq(der.OID(arcs...))
	}
	panic("issuer: unknown scheme")
}

// SchemeFor returns the natural scheme of a key (pss selects PSS for RSA keys).
func SchemeFor(k *Key, pss bool) SigScheme {
	if k.EC != nil {
		return ECDSA
	}
	if pss {
		return RSAPSS
	}
	return RSAPKCS1
}

// VerifyPKCS1 / VerifyPSS are the reference verifiers (used by refverify).
func (k *RSAKey) VerifyPKCS1(h HashAlg, digest, sig []byte) bool {
	if len(sig) != k.ByteLen() {
		return false
	}
	s := new(big.Int).SetBytes(sig)
	if s.Cmp(k.N) >= 0 {
		return false
	}
	em := k.Public(s).FillBytes(make([]byte, k.ByteLen()))
	t := append(append([]byte{}, digestInfoPrefix[h]...), digest...)
	n := k.ByteLen()
	if n < len(t)+11 {
		return false
	}
	want := make([]byte, n)
	want[1] = 1
	for i := 2; i < n-len(t)-1; i++ {
		want[i] = 0xff
	}
	copy(want[n-len(t):], t)
	return bytes.Equal(em, want)
}

func (k *RSAKey) VerifyPSS(h HashAlg, digest, sig []byte) bool {
	if len(sig) != k.ByteLen() {
		return false
	}
	s := new(big.Int).SetBytes(sig)
	if s.Cmp(k.N) >= 0 {
		return false
	}
	emBits := k.N.BitLen() - 1
	emLen := (emBits + 7) / 8
	m := k.Public(s)
	if m.BitLen() > emBits {
		return false
	}
	em := m.FillBytes(make([]byte, emLen))
	hLen := h.Size()
	if emLen < hLen+2 || em[emLen-1] != 0xbc {
		return false
	}
	db := append([]byte{}, em[:emLen-hLen-1]...)
	H := em[emLen-hLen-1 : emLen-1]
	if db[0]&^(0xff>>uint(8*emLen-emBits)) != 0 {
		return false
	}
	mask := mgf1(h, H, len(db))
	for i := range db {
		db[i] ^= mask[i]
	}
	db[0] &= 0xff >> uint(8*emLen-emBits)
	i := 0
	for i < len(db) && db[i] == 0 {
		i++
	}
	if i == len(db) || db[i] != 1 {
		return false
	}
	salt := db[i+1:]
	x := h.New()
	x.Write(make([]byte, 8))
	x.Write(digest)
	x.Write(salt)
	return bytes.Equal(x.Sum(nil), H)
}

func mustf(format string, a ...any) { panic(fmt.Sprintf(format, a...)) }
