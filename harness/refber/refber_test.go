package refber

import (
	"bytes"
	"encoding/hex"
	"math/rand/v2"
	"testing"
)

func hx(s string) []byte {
	b, err := hex.DecodeString(s)
	if err != nil {
		panic(err)
	}
	return b
}

func TestParseBasics(t *testing.T) {
	cases := []struct {
		in, sum string
		ok      bool
	}{
		{"", "", true},
		{"0101ff", "1:ff", true},
		{"3003020105", "30{2:05}", true},
		{"30800201050000", "30{2:05}", true},
		{"3080020105", "30{2:05}", true},             // missing end-of-contents (lenient)
		{"30020000", "30{0:}", true},                 // 00 00 in definite contents = element
		{"0000", "0:", true},                         // 00 00 at top level = element
		{"0101ff0000", "1:ff 0:", true},              // ... also after a sibling
		{"30050000 0101ff", "30{0: 1:ff}", true},     // siblings after the element are kept
		{"30800000 00", "", false},                   // dangling 00 at top level
		{"3080008100 0000", "30{0:}", true},          // 00 81 00 is not the end-of-contents pair
		{"1f0100", "1f01:", true},                    // small number in high-tag form
		{"1f800100", "1f8001:", true},                // padded tag number
		{"1f81828300", "", false},                    // 5 tag octets
		{"1f81820300", "1f818203:", true},            // 4 tag octets
		{"048100", "4:", true},                       // non-minimal length
		{"0484000000 01aa", "4:aa", true},            // non-minimal length
		{"0480", "", false},                          // indefinite primitive
		{"0405aa", "", false},                        // truncated
		{"3084ffffffff", "", false},                  // huge claim
		{"308030800000", "30{30{}}", true},           // inner EOC, outer missing
		{"30803080000000 00", "30{30{}}", true},      // both terminated
		{"3006308001010000", "", false},              // inner value 01 01 00 .. wait: 01 01 00 then 00 -> truncated
		{"300730800101aa0000", "30{30{1:aa}}", true}, // indefinite inside definite
		{"300530800101aa", "30{30{1:aa}}", true},     // ... without end-of-contents
		{"00 01 ff", "0:ff", true},                   // tag 0 with a value
		{"2000", "20{}", true},                       // constructed universal 0, not EOC
	}
	for _, c := range cases {
		in := hx(string(bytes.ReplaceAll([]byte(c.in), []byte(" "), nil)))
		ns, err := Parse(in)
		if (err == nil) != c.ok {
			t.Errorf("%s: err=%v want ok=%v", c.in, err, c.ok)
			continue
		}
		if err != nil {
			continue
		}
		if got := Summary(ns, 200); got != c.sum {
			t.Errorf("%s: got %q want %q", c.in, got, c.sum)
		}
		if err := CheckLayout(ns, len(in)); err != nil {
			t.Errorf("%s: %v", c.in, err)
		}
	}
}

func TestLongFormEOCOption(t *testing.T) {
	in := hx("30800101aa0081000201bb")
	a, err := Parse(in)
	if err != nil || Summary(a, 99) != "30{1:aa 0: 2:bb}" {
		t.Fatalf("default: %v %s", err, Summary(a, 99))
	}
	b, err := ParseOpts(in, Options{LongFormEOC: true})
	if err != nil || Summary(b, 99) != "30{1:aa} 2:bb" || b[0].EOCLen != 3 {
		t.Fatalf("longform: %v %s", err, Summary(b, 99))
	}
	if err := CheckLayout(b, len(in)); err != nil {
		t.Fatal(err)
	}
}

func TestOffsetsAndHelpers(t *testing.T) {
	in := hx("3080a003020105a18200020500" + "0000" + "0400")
	ns, err := Parse(in)
	if err != nil {
		t.Fatal(err)
	}
	if len(ns) != 2 || !ns[0].Indefinite || ns[0].EOCLen != 2 || ns[0].ValLen != 11 {
		t.Fatalf("%+v", ns[0])
	}
	a1 := ns[0].Find(0xa1, 1)
	if a1 == nil || !a1.NonMinimalLength() || !bytes.Equal(a1.Raw(in), hx("a18200020500")) || !bytes.Equal(a1.Content(in), hx("0500")) {
		t.Fatalf("a1: %+v", a1)
	}
	if ns[0].Find(0xa1, 2) != nil || ns[0].Find(0xa2, 1) != nil || ns[0].Child(5) != nil {
		t.Fatal("find beyond")
	}
	if got := Encode(ns); !bytes.Equal(got, hx("3009a003020105a10205000400")) {
		t.Fatalf("encode %x", got)
	}
	if Depth(ns) != 2 || Count(ns) != 6 {
		t.Fatalf("depth %d count %d", Depth(ns), Count(ns))
	}
	n := &Node{Tag: 0x7f49, TagLen: 2}
	if n.Number() != 0x49 || n.Class() != 1 || n.NonMinimalTag() {
		t.Fatalf("7f49: %d %d", n.Number(), n.Class())
	}
	if !(&Node{Tag: 0x1f05, TagLen: 2}).NonMinimalTag() || !(&Node{Tag: 0x1f8041, TagLen: 3}).NonMinimalTag() {
		t.Fatal("non-minimal tags")
	}
}

func TestLengthOctets(t *testing.T) {
	for n, want := range map[int]string{0: "00", 127: "7f", 128: "8180", 255: "81ff", 256: "820100", 65535: "82ffff", 65536: "83010000"} {
		if got := hex.EncodeToString(lengthOctets(n)); got != want {
			t.Errorf("%d: %s want %s", n, got, want)
		}
	}
}

// The generator's forest is a parser-independent reading of its own encoding.
func TestGenRoundTrip(t *testing.T) {
	r := rand.New(rand.NewPCG(1, 2))
	maxDepth, maxSize, indef, missing, nonmin := 0, 0, 0, 0, 0
	for i := 0; i < 20000; i++ {
		o := GenOptions{MaxDepth: 60, Canonical: i%3 == 0, Tag0: i%7 == 0}
		tree := GenTree(r, o)
		enc := EncodeForm(tree)
		ns, err := Parse(enc)
		if err != nil {
			t.Fatalf("#%d: generated encoding rejected: %v\n%x", i, err, enc)
		}
		if d := Diff(tree, ns); d != "" {
			t.Fatalf("#%d: %s\n%x", i, d, enc)
		}
		if err := CheckLayout(ns, len(enc)); err != nil {
			t.Fatalf("#%d: %v", i, err)
		}
		if o.Canonical {
			if !IsCanonical(ns) || !bytes.Equal(Encode(ns), enc) {
				t.Fatalf("#%d: canonical generator output is not canonical\n%x", i, enc)
			}
		}
		re, err := Parse(Encode(ns))
		if err != nil || !Equal(re, ns) || !bytes.Equal(Encode(re), Encode(ns)) {
			t.Fatalf("#%d: canonical re-encoding does not round-trip", i)
		}
		maxDepth = max(maxDepth, Depth(ns))
		maxSize = max(maxSize, len(enc))
		Walk(ns, func(n *Node, _ int) bool {
			if n.Indefinite {
				indef++
				if n.EOCLen == 0 {
					missing++
				}
			} else if n.NonMinimalLength() {
				nonmin++
			}
			return true
		})
	}
	if maxDepth < 55 || maxSize < 7000 || maxSize > 12000 || indef == 0 || missing == 0 || nonmin == 0 {
		t.Fatalf("poor coverage: depth %d size %d indef %d missing %d nonmin %d", maxDepth, maxSize, indef, missing, nonmin)
	}
	deep := EncodeForm(GenTree(r, GenOptions{ExactDepth: 1000, Size: 4000}))
	ns, err := Parse(deep)
	if err != nil || Depth(ns) != 1000 {
		t.Fatalf("deep: %v %d", err, Depth(ns))
	}
}

// No input makes the reader panic, and whatever it accepts is fully accounted for.
func TestRobust(t *testing.T) {
	r := rand.New(rand.NewPCG(3, 4))
	for i := 0; i < 200000; i++ {
		var b []byte
		if i%2 == 0 {
			b = make([]byte, r.IntN(40))
			for j := range b {
				b[j] = interestingBytes[r.IntN(len(interestingBytes))]
			}
		} else {
			b = Mutate(r, Gen(r, GenOptions{MaxDepth: 10, Size: 2 + r.IntN(200), Tag0: true}))
		}
		for _, o := range []Options{{}, {LongFormEOC: true}} {
			ns, err := ParseOpts(b, o)
			if err != nil {
				continue
			}
			if err := CheckLayout(ns, len(b)); err != nil {
				t.Fatalf("%x: %v", b, err)
			}
		}
	}
	// nesting bomb: bounded, no stack exhaustion
	bomb := bytes.Repeat([]byte{0x30, 0x80}, 100000)
	if _, err := Parse(bomb); err == nil {
		t.Fatal("nesting bomb accepted")
	}
	if _, err := ParseOpts(bytes.Repeat([]byte{0x30, 0x80}, 1500), Options{}); err != nil {
		t.Fatalf("1500 levels: %v", err)
	}
	if _, err := Parse(hx("3088ffffffffffffffff")); err == nil {
		t.Fatal("huge claim accepted")
	}
}
