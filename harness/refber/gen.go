package refber

import (
	"math/rand/v2"
)

// GenOptions steer the grammar-based generator.
type GenOptions struct {
	// MaxDepth: the nesting of constructed elements of one input is drawn from
	// 0..MaxDepth (default 6). ExactDepth > 0 forces a spine of exactly that depth
	// (as far as MaxSize allows).
	MaxDepth   int
	ExactDepth int
	// MaxSize is a soft bound on the encoded size (default 8192); Size > 0 fixes the
	// size budget of this input instead of drawing it.
	MaxSize int
	Size    int
	// Canonical: only definite lengths in the shortest form (tags stay arbitrary 1..4
	// octet tags, including non-minimal tag numbers).
	Canonical bool
	// Tag0: allow elements with tag 0 and length 0 (`00 00` in definite contents and at
	// top level, `00 81 00` inside indefinite contents). Off by default because `00 00`
	// is where readers typically differ.
	Tag0 bool
}

type gen struct {
	r *rand.Rand
	o GenOptions
}

// GenTree draws a forest; EncodeForm(GenTree(..)) is its encoding and the forest is the
// constructive, parser-independent reading of those octets.
func GenTree(r *rand.Rand, o GenOptions) []*Node {
	if o.MaxSize <= 0 {
		o.MaxSize = 8192
	}
	if o.MaxDepth <= 0 && o.ExactDepth <= 0 {
		o.MaxDepth = 6
	}
	g := &gen{r: r, o: o}
	size := o.Size
	if size <= 0 {
		switch x := r.IntN(100); {
		case x < 50:
			size = 2 + r.IntN(63)
		case x < 80:
			size = 64 + r.IntN(960)
		default:
			size = 1024 + r.IntN(max(1, o.MaxSize-1024))
		}
	}
	if size > o.MaxSize {
		size = o.MaxSize
	}
	depth := o.ExactDepth
	if depth <= 0 {
		if r.IntN(2) == 0 {
			depth = r.IntN(min(4, o.MaxDepth) + 1)
		} else {
			depth = r.IntN(o.MaxDepth + 1)
		}
	}
	return g.list(size, depth, false, true)
}

// Gen draws one grammar-based BER encoding.
func Gen(r *rand.Rand, o GenOptions) []byte { return EncodeForm(GenTree(r, o)) }

// GenCanonical draws an encoding that is already definite and minimal-length.
func GenCanonical(r *rand.Rand, o GenOptions) []byte {
	o.Canonical = true
	return EncodeForm(GenTree(r, o))
}

// list draws the children of one contents region. depth = nesting still to be reached
// below here by the spine child; indef = the region is indefinite-length contents;
// mayOmit = the last child may leave out its end-of-contents.
func (g *gen) list(budget, depth int, indef, mayOmit bool) []*Node {
	r := g.r
	if budget < 2 {
		if depth <= 0 {
			return nil
		}
		budget = 2
	}
	k := 1 + r.IntN(5)
	if x := r.IntN(100); x < 8 {
		k = 1 + r.IntN(min(400, max(1, budget/3)))
	} else if x < 30 {
		k = 1
	}
	if k > budget/2 {
		k = max(1, budget/2)
	}
	spine := -1
	if depth > 0 {
		spine = r.IntN(k)
	}
	// random split of the budget, at least 2 per child; the spine gets what it needs
	shares := make([]int, k)
	rest := budget - 2*k
	need := 0
	if spine >= 0 {
		need = min(rest, 3*depth)
		rest -= need
	}
	for i := range shares {
		shares[i] = 2
	}
	if spine >= 0 {
		shares[spine] += need
	}
	for rest > 0 {
		c := 1 + r.IntN(rest)
		if k > 1 && r.IntN(3) > 0 {
			c = 1 + r.IntN(max(1, rest/k))
		}
		shares[r.IntN(k)] += c
		rest -= c
	}
	out := make([]*Node, 0, k)
	for i := 0; i < k; i++ {
		d := 0
		if i == spine {
			d = depth
		} else if depth > 0 && r.IntN(100) < 30 {
			d = 1 + r.IntN(min(depth, 3))
		} else if r.IntN(100) < 10 {
			d = 1
		}
		out = append(out, g.node(shares[i], d, indef, mayOmit && i == k-1))
	}
	return out
}

var interestingPrimTags = []byte{0x02, 0x04, 0x05, 0x06, 0x0c, 0x13, 0x80, 0x81, 0x5c, 0x00}
var interestingConsTags = []byte{0x30, 0x31, 0x60, 0x61, 0x75, 0x77, 0xa0, 0xa1, 0x6e, 0x7c}

func (g *gen) tag(constructed bool) (uint32, int) {
	r := g.r
	c := byte(0)
	if constructed {
		c = 0x20
	}
	cls := byte(r.IntN(4)) << 6
	switch x := r.IntN(100); {
	case x < 20:
		if constructed {
			return uint32(interestingConsTags[r.IntN(len(interestingConsTags))]), 1
		}
		return uint32(interestingPrimTags[r.IntN(len(interestingPrimTags))]), 1
	case x < 55:
		return uint32(cls | c | byte(r.IntN(31))), 1
	case x < 75: // two octets; numbers below 31 and 0 are non-minimal but readable
		second := byte(r.IntN(128))
		if r.IntN(4) == 0 {
			second = byte(r.IntN(32))
		}
		return uint32(cls|c|0x1f)<<8 | uint32(second), 2
	case x < 90:
		second := 0x80 | byte(r.IntN(128))
		if r.IntN(4) == 0 {
			second = 0x80 // padded
		}
		return uint32(cls|c|0x1f)<<16 | uint32(second)<<8 | uint32(r.IntN(128)), 3
	default:
		second := 0x80 | byte(r.IntN(128))
		third := 0x80 | byte(r.IntN(128))
		if r.IntN(4) == 0 {
			second, third = 0x80, 0x80
		}
		return uint32(cls|c|0x1f)<<24 | uint32(second)<<16 | uint32(third)<<8 | uint32(r.IntN(128)), 4
	}
}

// lenForm draws the LenOctets hint: 0 = shortest form, 2..5 = long form 81..84 padded to
// that many octets (EncodeForm ignores a hint shorter than the shortest form).
func (g *gen) lenForm() int {
	if g.o.Canonical || g.r.IntN(100) < 60 {
		return 0
	}
	return 2 + g.r.IntN(4)
}

func (g *gen) node(budget, depth int, indefParent, mayOmit bool) *Node {
	r := g.r
	constructed := depth > 0
	n := &Node{Constructed: constructed}
	n.Tag, n.TagLen = g.tag(constructed)
	if !constructed {
		vl := 0
		if room := budget - 2; room > 0 {
			switch x := r.IntN(100); {
			case x < 15:
				vl = 0
			case x < 60:
				vl = r.IntN(min(room, 16) + 1)
			default:
				vl = r.IntN(room + 1)
			}
		}
		n.LenOctets = g.lenForm()
		if n.Tag == 0 && vl == 0 {
			switch {
			case !g.o.Tag0:
				vl = 1
			case indefParent && n.LenOctets < 2:
				if g.o.Canonical {
					vl = 1
				} else {
					n.LenOctets = 2 // 00 81 00: not the end-of-contents pair
				}
			}
		}
		v := make([]byte, vl)
		switch x := r.IntN(100); {
		case x < 10: // zeros
		case x < 20:
			for i := range v {
				v[i] = byte(r.Uint32())
			}
			if vl >= 2 {
				v[0], v[1] = 0, 0
			}
		case x < 25:
			for i := range v {
				v[i] = 0xff
			}
		default:
			for i := range v {
				v[i] = byte(r.Uint32())
			}
		}
		n.Value = v
		return n
	}
	if !g.o.Canonical && r.IntN(100) < 35 {
		n.Indefinite = true
		n.EOCLen = 2
		if mayOmit && r.IntN(100) < 30 {
			n.EOCLen = 0
		}
	}
	childMayOmit := !n.Indefinite || n.EOCLen == 0
	if g.o.Canonical {
		childMayOmit = false
	}
	inner := budget - 3
	if depth-1 <= 0 && r.IntN(100) < 12 {
		inner = 0 // empty constructed element
	}
	if inner >= 2 || depth-1 > 0 {
		n.Children = g.list(inner, depth-1, n.Indefinite, childMayOmit)
	}
	if !n.Indefinite {
		n.LenOctets = g.lenForm()
	}
	return n
}

// ---------------------------------------------------------------------------------------
// mutation

var interestingBytes = []byte{0x00, 0x01, 0x1f, 0x30, 0x3f, 0x7f, 0x80, 0x81, 0x82, 0x83, 0x84, 0x85, 0x9f, 0xa0, 0xbf, 0xff}

func pos(r *rand.Rand, n int) int {
	if n <= 0 {
		return 0
	}
	if r.IntN(2) == 0 {
		return r.IntN(min(n, 16))
	}
	return r.IntN(n)
}

// Mutate applies 1..3 byte-level mutations (bit flip, substitution, deletion,
// duplication, `00 00` insertion, truncation, extension, indefinite-length marker,
// splice of two ranges) and returns a new slice.
func Mutate(r *rand.Rand, b []byte) []byte {
	out := append([]byte{}, b...)
	for k := 1 + r.IntN(3); k > 0; k-- {
		n := len(out)
		switch r.IntN(12) {
		case 0:
			if n > 0 {
				out[pos(r, n)] ^= 1 << uint(r.IntN(8))
			}
		case 1:
			if n > 0 {
				out[pos(r, n)] = interestingBytes[r.IntN(len(interestingBytes))]
			}
		case 2:
			if n > 0 {
				i := pos(r, n)
				j := min(n, i+1+r.IntN(8))
				out = append(out[:i], out[j:]...)
			}
		case 3:
			if n > 0 {
				i := pos(r, n)
				j := min(n, i+1+r.IntN(16))
				dup := append([]byte{}, out[i:j]...)
				out = append(out[:j], append(dup, out[j:]...)...)
			}
		case 4:
			i := pos(r, n+1)
			out = append(out[:i], append([]byte{0, 0}, out[i:]...)...)
		case 5:
			out = append(out, 0, 0)
		case 6:
			if n > 0 {
				out = out[:r.IntN(n)]
			}
		case 7:
			for m := 1 + r.IntN(16); m > 0; m-- {
				out = append(out, byte(r.Uint32()))
			}
		case 8:
			i := pos(r, n+1)
			ins := make([]byte, 1+r.IntN(4))
			for x := range ins {
				ins[x] = byte(r.Uint32())
			}
			out = append(out[:i], append(ins, out[i:]...)...)
		case 9:
			if n > 0 {
				i := pos(r, n)
				if r.IntN(2) == 0 {
					out[i]++
				} else {
					out[i]--
				}
			}
		case 10:
			if n > 1 {
				out[1+pos(r, n-1)] = 0x80
			}
		case 11:
			if n > 4 {
				i, j := r.IntN(n), r.IntN(n)
				l := 1 + r.IntN(8)
				for x := 0; x < l && i+x < n && j+x < n; x++ {
					out[i+x], out[j+x] = out[j+x], out[i+x]
				}
			}
		}
	}
	return out
}

// MutateTree changes the forest in place (structure-aware): re-draws length forms,
// inserts a `00 00` element at the end or in the middle of some contents, deletes,
// duplicates or swaps children, changes a tag. The result is re-serialised with
// EncodeForm by the caller; it need not be a valid encoding of the same forest.
func MutateTree(r *rand.Rand, nodes []*Node) []*Node {
	var all []*Node
	Walk(nodes, func(n *Node, _ int) bool { all = append(all, n); return len(all) < 4096 })
	pickList := func() (*Node, *[]*Node) {
		var cons []*Node
		for _, n := range all {
			if n.Constructed {
				cons = append(cons, n)
			}
		}
		if len(cons) == 0 || r.IntN(4) == 0 {
			return nil, &nodes
		}
		n := cons[r.IntN(len(cons))]
		return n, &n.Children
	}
	eoc := func() *Node { return &Node{Tag: 0, TagLen: 1, Value: []byte{}} }
	for k := 1 + r.IntN(2); k > 0; k-- {
		switch r.IntN(8) {
		case 0: // re-draw forms everywhere
			for _, n := range all {
				n.LenOctets = 0
				if r.IntN(3) == 0 {
					n.LenOctets = 2 + r.IntN(4)
				}
				if n.Constructed {
					n.Indefinite = r.IntN(3) == 0
					n.EOCLen = 2
				}
			}
		case 1: // `00 00` at the end of some contents
			_, l := pickList()
			*l = append(*l, eoc())
		case 2: // `00 00` somewhere inside
			_, l := pickList()
			i := r.IntN(len(*l) + 1)
			*l = append((*l)[:i:i], append([]*Node{eoc()}, (*l)[i:]...)...)
		case 3: // delete a child
			_, l := pickList()
			if len(*l) > 0 {
				i := r.IntN(len(*l))
				*l = append((*l)[:i:i], (*l)[i+1:]...)
			}
		case 4: // duplicate a child
			_, l := pickList()
			if len(*l) > 0 {
				i := r.IntN(len(*l))
				*l = append((*l)[:i+1:i+1], (*l)[i:]...)
			}
		case 5: // swap two children
			_, l := pickList()
			if len(*l) > 1 {
				i, j := r.IntN(len(*l)), r.IntN(len(*l))
				(*l)[i], (*l)[j] = (*l)[j], (*l)[i]
			}
		case 6: // drop one end-of-contents
			for _, n := range all {
				if n.Indefinite && n.EOCLen > 0 && r.IntN(3) == 0 {
					n.EOCLen = 0
					break
				}
			}
		case 7: // make one element's length form indefinite / padded
			if len(all) > 0 {
				n := all[r.IntN(len(all))]
				if n.Constructed {
					n.Indefinite, n.EOCLen = true, 2
				} else {
					n.LenOctets = 2 + r.IntN(4)
				}
			}
		}
	}
	return nodes
}

// ClampLengthClaims rewrites, in place, every octet pair that could be read as a long-form
// length of 1 MiB or more (84 xx.. / 83 xx..) so that no reading of the buffer contains a
// claimed length >= 1 MiB. Used on mutated inputs only: readers that allocate the claimed
// length before checking it (a separate robustness property) would otherwise dominate
// the run.
func ClampLengthClaims(b []byte) {
	for i := 0; i < len(b); i++ {
		switch b[i] {
		case 0x84:
			if i+1 < len(b) {
				b[i+1] = 0
			}
			if i+2 < len(b) {
				b[i+2] &= 0x0f
			}
		case 0x83:
			if i+1 < len(b) {
				b[i+1] &= 0x0f
			}
		}
	}
}
