// Package refber is the harness's own, independent BER reader (engine E4 (a) of
// DESIGN.md). It imports the standard library only and never a gmrtd package.
//
// It is a *lenient* reader that yields a tree with byte offsets:
//
//   - tags of 1..4 octets, kept as the raw tag octets read as a big-endian number
//     (the same convention as gmrtd's TlvTag, so trees can be compared directly);
//     non-minimal tag numbers (1f 01, 1f 80 01) are accepted and flagged;
//   - definite lengths in short form and in long form with 1..8 length octets,
//     minimal or not; indefinite length (80) for constructed elements;
//   - `00 00` ends the contents of an indefinite-length element and of nothing else:
//     inside a definite length or at top level it is an ELEMENT with tag 0 and
//     length 0, so that every input octet belongs to exactly one header, value or
//     end-of-contents;
//   - an indefinite-length element whose end-of-contents is missing is tolerated when
//     its contents run to the end of the enclosing contents / of the buffer
//     (EOCLen == 0 on the node).
//
// Robustness: no input makes it panic, recursion is bounded (Options.MaxDepth, default
// 2000), values are sub-slices of the input (nothing is allocated from a claimed length).
package refber

import (
	"bytes"
	"errors"
	"fmt"
)

// Node is one element of the tree.
type Node struct {
	Tag         uint32 // raw tag octets, big-endian
	TagLen      int    // number of tag octets (1..4)
	Constructed bool   // bit 6 of the first tag octet
	Indefinite  bool   // length octet was 80
	LenOctets   int    // octets of the length field (1 for short form and for 80)
	HdrOff      int    // offset of the first tag octet in the input
	HdrLen      int    // TagLen + LenOctets
	ValOff      int    // offset of the contents
	ValLen      int    // length of the contents (without end-of-contents)
	EOCLen      int    // 2 if terminated by 00 00; 0 for definite lengths and for a missing end-of-contents
	Children    []*Node
	Value       []byte // contents of a primitive element (sub-slice of the input)
}

// Options tune Parse.
type Options struct {
	// MaxDepth bounds the nesting of constructed elements (default 2000).
	MaxDepth int
	// LongFormEOC: inside indefinite-length contents an element with tag 0 whose length
	// is zero written in long form (00 81 00, 00 82 00 00, ...) also ends the contents
	// (EOCLen = its header length). X.690 knows only 00 00; this is a second, lenient
	// reading in which still no octet is dropped.
	LongFormEOC bool
}

const DefaultMaxDepth = 2000

var (
	ErrTruncated = errors.New("refber: truncated")
	ErrTooDeep   = errors.New("refber: nesting exceeds the reader's bound")
)

// Header is a decoded identifier + length field.
type Header struct {
	Tag         uint32
	TagLen      int
	Constructed bool
	Indefinite  bool
	Len         uint64 // claimed length of the contents (0 when Indefinite)
	LenOctets   int
	HdrLen      int
}

// ReadHeader decodes the identifier and length octets in b[off:end]. It does not check
// that the claimed length fits.
func ReadHeader(b []byte, off, end int) (Header, error) {
	var h Header
	if end > len(b) {
		end = len(b)
	}
	if off < 0 || off >= end {
		return h, fmt.Errorf("%w: no tag octet at offset %d", ErrTruncated, off)
	}
	p := off
	b0 := b[p]
	p++
	h.Tag = uint32(b0)
	h.TagLen = 1
	h.Constructed = b0&0x20 != 0
	if b0&0x1f == 0x1f {
		for {
			if h.TagLen == 4 {
				return h, fmt.Errorf("refber: tag longer than 4 octets at offset %d", off)
			}
			if p >= end {
				return h, fmt.Errorf("%w: tag continues past the end at offset %d", ErrTruncated, off)
			}
			c := b[p]
			p++
			h.Tag = h.Tag<<8 | uint32(c)
			h.TagLen++
			if c&0x80 == 0 {
				break
			}
		}
	}
	if p >= end {
		return h, fmt.Errorf("%w: no length octet at offset %d", ErrTruncated, p)
	}
	l0 := b[p]
	p++
	h.LenOctets = 1
	switch {
	case l0 < 0x80:
		h.Len = uint64(l0)
	case l0 == 0x80:
		h.Indefinite = true
	case l0 == 0xff:
		return h, fmt.Errorf("refber: reserved length octet ff at offset %d", p-1)
	default:
		n := int(l0 & 0x7f)
		if n > 8 {
			return h, fmt.Errorf("refber: length field of %d octets at offset %d", n, p-1)
		}
		if end-p < n {
			return h, fmt.Errorf("%w: length field continues past the end at offset %d", ErrTruncated, p-1)
		}
		for i := 0; i < n; i++ {
			h.Len = h.Len<<8 | uint64(b[p])
			p++
		}
		h.LenOctets = 1 + n
	}
	h.HdrLen = h.TagLen + h.LenOctets
	return h, nil
}

// Parse reads b as a sequence of BER elements (default options).
func Parse(b []byte) ([]*Node, error) { return ParseOpts(b, Options{}) }

// ParseOpts reads b as a sequence of BER elements.
func ParseOpts(b []byte, o Options) ([]*Node, error) {
	if o.MaxDepth <= 0 {
		o.MaxDepth = DefaultMaxDepth
	}
	p := &parser{b: b, o: o}
	nodes, next, _, err := p.seq(0, len(b), false, 0)
	if err != nil {
		return nil, err
	}
	if next != len(b) {
		return nil, fmt.Errorf("refber: internal: stopped at %d of %d", next, len(b))
	}
	return nodes, nil
}

// ParseOne reads b as exactly one element.
func ParseOne(b []byte) (*Node, error) {
	ns, err := Parse(b)
	if err != nil {
		return nil, err
	}
	if len(ns) != 1 {
		return nil, fmt.Errorf("refber: %d top-level elements, want 1", len(ns))
	}
	return ns[0], nil
}

type parser struct {
	b []byte
	o Options
}

// seq parses the contents b[off:end). In indefinite contents it stops after the
// end-of-contents octets (eoc = their length) or, leniently, at end (eoc = 0).
func (p *parser) seq(off, end int, indef bool, depth int) (kids []*Node, next int, eoc int, err error) {
	if depth > p.o.MaxDepth {
		return nil, 0, 0, ErrTooDeep
	}
	b := p.b
	for off < end {
		if indef && b[off] == 0 && off+1 < end && b[off+1] == 0 {
			return kids, off + 2, 2, nil
		}
		h, err := ReadHeader(b, off, end)
		if err != nil {
			return nil, 0, 0, err
		}
		if indef && p.o.LongFormEOC && h.Tag == 0 && !h.Indefinite && h.Len == 0 {
			return kids, off + h.HdrLen, h.HdrLen, nil
		}
		n := &Node{Tag: h.Tag, TagLen: h.TagLen, Constructed: h.Constructed, Indefinite: h.Indefinite,
			LenOctets: h.LenOctets, HdrOff: off, HdrLen: h.HdrLen, ValOff: off + h.HdrLen}
		switch {
		case h.Indefinite:
			if !h.Constructed {
				return nil, 0, 0, fmt.Errorf("refber: indefinite length on a primitive element at offset %d", off)
			}
			ck, nx, e, err := p.seq(n.ValOff, end, true, depth+1)
			if err != nil {
				return nil, 0, 0, err
			}
			n.Children, n.EOCLen = ck, e
			n.ValLen = nx - e - n.ValOff
			off = nx
		default:
			if h.Len > uint64(end-n.ValOff) {
				return nil, 0, 0, fmt.Errorf("%w: element at offset %d claims %d content octets, %d available", ErrTruncated, off, h.Len, end-n.ValOff)
			}
			n.ValLen = int(h.Len)
			ve := n.ValOff + n.ValLen
			if h.Constructed {
				ck, nx, _, err := p.seq(n.ValOff, ve, false, depth+1)
				if err != nil {
					return nil, 0, 0, err
				}
				if nx != ve {
					return nil, 0, 0, fmt.Errorf("refber: internal: contents of element at %d end at %d, want %d", off, nx, ve)
				}
				n.Children = ck
			} else {
				n.Value = b[n.ValOff:ve:ve]
			}
			off = ve
		}
		kids = append(kids, n)
	}
	return kids, off, 0, nil
}

// ---------------------------------------------------------------------------------------
// node helpers

// End is the offset just after the element (after its end-of-contents, if any).
func (n *Node) End() int { return n.ValOff + n.ValLen + n.EOCLen }

// Raw returns the full TLV octets of the element inside the input it was parsed from.
func (n *Node) Raw(input []byte) []byte {
	if n == nil || n.HdrOff < 0 || n.End() > len(input) || n.HdrOff > n.End() {
		return nil
	}
	return input[n.HdrOff:n.End()]
}

// Content returns the contents octets (without header and end-of-contents).
func (n *Node) Content(input []byte) []byte {
	if n == nil || n.ValOff < 0 || n.ValOff+n.ValLen > len(input) {
		return nil
	}
	return input[n.ValOff : n.ValOff+n.ValLen]
}

// Class is the tag class (0 universal, 1 application, 2 context, 3 private).
func (n *Node) Class() int { return int(n.firstOctet() >> 6) }

func (n *Node) firstOctet() byte {
	tl := n.tagLen()
	return byte(n.Tag >> (8 * uint(tl-1)))
}

func (n *Node) tagLen() int {
	if n.TagLen >= 1 && n.TagLen <= 4 {
		return n.TagLen
	}
	switch {
	case n.Tag > 0xffffff:
		return 4
	case n.Tag > 0xffff:
		return 3
	case n.Tag > 0xff:
		return 2
	}
	return 1
}

// TagOctets returns the identifier octets.
func (n *Node) TagOctets() []byte {
	tl := n.tagLen()
	out := make([]byte, tl)
	for i := 0; i < tl; i++ {
		out[i] = byte(n.Tag >> (8 * uint(tl-1-i)))
	}
	return out
}

// Number is the tag number (low-tag or high-tag form).
func (n *Node) Number() uint32 {
	tl := n.tagLen()
	if tl == 1 {
		return n.Tag & 0x1f
	}
	var v uint32
	for i := tl - 2; i >= 0; i-- {
		v = v<<7 | (n.Tag>>(8*uint(i)))&0x7f
	}
	return v
}

// NonMinimalTag: high-tag form used for a number below 31 or padded with 80.
func (n *Node) NonMinimalTag() bool {
	tl := n.tagLen()
	if tl == 1 {
		return false
	}
	second := byte(n.Tag >> (8 * uint(tl-2)))
	return second == 0x80 || n.Number() < 31
}

// NonMinimalLength: definite length not in its shortest form.
func (n *Node) NonMinimalLength() bool {
	return !n.Indefinite && n.LenOctets > len(lengthOctets(n.ValLen))
}

// MissingEOC: indefinite length whose contents ran to the end of the enclosing contents.
func (n *Node) MissingEOC() bool { return n.Indefinite && n.EOCLen == 0 }

// Child returns the i-th child (0-based) or nil.
func (n *Node) Child(i int) *Node {
	if n == nil || i < 0 || i >= len(n.Children) {
		return nil
	}
	return n.Children[i]
}

// Find returns the occur-th (1-based) child with the given tag, or nil.
func (n *Node) Find(tag uint32, occur int) *Node {
	if n == nil {
		return nil
	}
	return Find(n.Children, tag, occur)
}

// Find returns the occur-th (1-based) node with the given tag in the list, or nil.
func Find(nodes []*Node, tag uint32, occur int) *Node {
	if occur < 1 {
		return nil
	}
	for _, c := range nodes {
		if c.Tag == tag {
			occur--
			if occur == 0 {
				return c
			}
		}
	}
	return nil
}

// FindAll returns all nodes of the list with the tag.
func FindAll(nodes []*Node, tag uint32) []*Node {
	var out []*Node
	for _, c := range nodes {
		if c.Tag == tag {
			out = append(out, c)
		}
	}
	return out
}

// Walk visits every node in document order (parents before children) without recursion
// on the Go stack beyond the tree's own depth; fn returns false to skip the subtree.
func Walk(nodes []*Node, fn func(n *Node, depth int) bool) {
	type fr struct {
		ns []*Node
		i  int
	}
	st := []fr{{nodes, 0}}
	for len(st) > 0 {
		top := &st[len(st)-1]
		if top.i >= len(top.ns) {
			st = st[:len(st)-1]
			continue
		}
		n := top.ns[top.i]
		top.i++
		if fn(n, len(st)-1) && len(n.Children) > 0 {
			st = append(st, fr{n.Children, 0})
		}
	}
}

// Count is the number of elements of the forest (end-of-contents are not elements).
func Count(nodes []*Node) int {
	c := 0
	Walk(nodes, func(*Node, int) bool { c++; return true })
	return c
}

// Depth is the maximum number of nested constructed elements (0 for primitives only).
func Depth(nodes []*Node) int {
	d := 0
	Walk(nodes, func(n *Node, depth int) bool {
		if n.Constructed && depth+1 > d {
			d = depth + 1
		}
		return true
	})
	return d
}

// Accounted sums header, primitive value and end-of-contents octets of the forest.
func Accounted(nodes []*Node) int {
	s := 0
	Walk(nodes, func(n *Node, _ int) bool {
		s += n.HdrLen + n.EOCLen
		if !n.Constructed {
			s += n.ValLen
		}
		return true
	})
	return s
}

// CheckLayout verifies that the forest tiles exactly the octets [0,total): every element
// starts where its predecessor ends, children tile the contents, and the sum of
// header + value + end-of-contents octets is total.
func CheckLayout(nodes []*Node, total int) error {
	if err := checkTile(nodes, 0, total, 0); err != nil {
		return err
	}
	if a := Accounted(nodes); a != total {
		return fmt.Errorf("refber: %d octets accounted, input has %d", a, total)
	}
	return nil
}

func checkTile(nodes []*Node, from, to int, depth int) error {
	if depth > DefaultMaxDepth+1 {
		return ErrTooDeep
	}
	at := from
	for _, n := range nodes {
		if n.HdrOff != at || n.ValOff != n.HdrOff+n.HdrLen || n.HdrLen != n.TagLen+n.LenOctets {
			return fmt.Errorf("refber: element at %d does not start at %d / bad header geometry", n.HdrOff, at)
		}
		if n.Constructed {
			if err := checkTile(n.Children, n.ValOff, n.ValOff+n.ValLen, depth+1); err != nil {
				return err
			}
		} else if len(n.Value) != n.ValLen {
			return fmt.Errorf("refber: element at %d: value of %d octets, ValLen %d", n.HdrOff, len(n.Value), n.ValLen)
		}
		at = n.End()
	}
	if at != to {
		return fmt.Errorf("refber: contents [%d,%d) tiled up to %d", from, to, at)
	}
	return nil
}

// ---------------------------------------------------------------------------------------
// equality

// Equal reports whether two forests have the same tags, nesting and primitive values
// (offsets and length forms are ignored).
func Equal(a, b []*Node) bool { return Diff(a, b) == "" }

// Diff describes the first difference between two forests ("" if none).
func Diff(a, b []*Node) string { return diff("", a, b) }

// diff returns "" or "<path>: what"; the path is only built on the way back up.
func diff(_ string, a, b []*Node) string {
	for i := 0; i < len(a) && i < len(b); i++ {
		x, y := a[i], b[i]
		d := ""
		switch {
		case x.Tag != y.Tag:
			d = fmt.Sprintf(": tag %x vs %x", x.Tag, y.Tag)
		case x.Constructed != y.Constructed:
			d = fmt.Sprintf(": constructed %v vs %v", x.Constructed, y.Constructed)
		case x.Constructed:
			d = diff("", x.Children, y.Children)
		case !bytes.Equal(x.Value, y.Value):
			d = fmt.Sprintf(": value differs (%d vs %d octets)", len(x.Value), len(y.Value))
		}
		if d != "" {
			return fmt.Sprintf("/%d%s", i, d)
		}
	}
	if len(a) != len(b) {
		return fmt.Sprintf(": %d vs %d elements", len(a), len(b))
	}
	return ""
}

// ---------------------------------------------------------------------------------------
// encoding

func lengthOctets(n int) []byte {
	if n < 0 {
		n = 0
	}
	if n < 0x80 {
		return []byte{byte(n)}
	}
	var tmp [8]byte
	i := 8
	for v := uint64(n); v > 0; v >>= 8 {
		i--
		tmp[i] = byte(v)
	}
	return append([]byte{byte(0x80 + 8 - i)}, tmp[i:]...)
}

// Encode is the canonical re-encoding of the forest: same tag octets, definite lengths
// in the shortest form, children in order.
func Encode(nodes []*Node) []byte { return encodeList(nodes, false) }

// Encode is the canonical re-encoding of one element.
func (n *Node) Encode() []byte { return encodeNode(n, false) }

// EncodeForm serialises the forest honouring the form hints on the nodes: Indefinite
// (with EOCLen 2 => 00 00 written, 0 => end-of-contents omitted) and LenOctets (long
// form padded to that many octets when larger than the minimal form). Offsets on the
// nodes are ignored and not updated.
func EncodeForm(nodes []*Node) []byte { return encodeList(nodes, true) }

func encodeList(nodes []*Node, form bool) []byte {
	var out []byte
	for _, n := range nodes {
		out = append(out, encodeNode(n, form)...)
	}
	if out == nil {
		out = []byte{}
	}
	return out
}

func encodeNode(n *Node, form bool) []byte {
	var content []byte
	if n.Constructed {
		content = encodeList(n.Children, form)
	} else {
		content = n.Value
	}
	out := append([]byte{}, n.TagOctets()...)
	if form && n.Indefinite && n.Constructed {
		out = append(out, 0x80)
		out = append(out, content...)
		if n.EOCLen > 0 {
			out = append(out, 0, 0)
		}
		return out
	}
	lo := lengthOctets(len(content))
	if form && n.LenOctets > len(lo) && n.LenOctets <= 9 {
		k := n.LenOctets - 1
		p := make([]byte, 1+k)
		p[0] = byte(0x80 + k)
		v := uint64(len(content))
		for i := k; i >= 1; i-- {
			p[i] = byte(v)
			v >>= 8
		}
		lo = p
	}
	out = append(out, lo...)
	return append(out, content...)
}

// IsCanonical reports whether the forest, as parsed, uses only definite lengths in the
// shortest form (i.e. Encode(nodes) reproduces the input it was parsed from).
func IsCanonical(nodes []*Node) bool {
	ok := true
	Walk(nodes, func(n *Node, _ int) bool {
		if n.Indefinite || n.NonMinimalLength() {
			ok = false
		}
		return ok
	})
	return ok
}

// Summary renders a compact one-line view of the forest, for reports (at most max runes).
func Summary(nodes []*Node, max int) string {
	var sb bytes.Buffer
	var rec func(ns []*Node, depth int)
	rec = func(ns []*Node, depth int) {
		for i, n := range ns {
			if sb.Len() > max {
				return
			}
			if i > 0 {
				sb.WriteByte(' ')
			}
			fmt.Fprintf(&sb, "%x", n.Tag)
			if n.Constructed {
				sb.WriteByte('{')
				if depth < 64 {
					rec(n.Children, depth+1)
				} else {
					sb.WriteString("...")
				}
				sb.WriteByte('}')
			} else if len(n.Value) <= 8 {
				fmt.Fprintf(&sb, ":%x", n.Value)
			} else {
				fmt.Fprintf(&sb, ":[%d]", len(n.Value))
			}
		}
	}
	rec(nodes, 0)
	s := sb.String()
	if len(s) > max {
		s = s[:max] + "..."
	}
	return s
}
