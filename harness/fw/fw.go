// Package fw is the shared runner of the runtime-monitoring harness (engine E6/E8 of
// DESIGN.md): deterministic case enumeration sharded over worker processes, per-case
// deterministic crypto/rand, crash/hang attribution, known-findings handling, replay
// files and evidence output.
package fw

import (
	crand "crypto/rand"
	"encoding/binary"
	"encoding/json"
	"fmt"
	"hash/fnv"
	"io"
	mrand "math/rand/v2"
	"os"
	"path/filepath"
	"regexp"
	"runtime"
	"runtime/debug"
	"sort"
	"strings"
	"sync"
	"sync/atomic"
	"time"
)

// VerifDir is where evidence/, replays/, work/ and known_findings.json live
// (overridable with VERIF_DIR for development copies).
var VerifDir = func() string {
	if d := os.Getenv("VERIF_DIR"); d != "" {
		return d
	}
	return "/verif"
}()

// Spec describes one property check.
type Spec struct {
	ID    string
	Level string // exploration | fault_enumeration | ...
	Rule  string // how cases are generated and what makes one non-trivial / distinct
	// MaxWorkers limits the number of worker processes (0 = up to 16).
	MaxWorkers int
	// RealRand leaves crypto/rand.Reader untouched (C20).
	RealRand bool
	// CrashIsViolation: a worker process that dies (fatal error, OOM) or a case that
	// exceeds HangSeconds of wall time is a violation of this property (C11, C12),
	// attributed to the last logged case. Otherwise it is a broken harness (exit 2).
	CrashIsViolation bool
	// PanicIsViolation: a recovered panic whose stack contains a gmrtd frame is a
	// violation (default true for every check; a harness-only panic is always exit 2).
	PanicNotViolation bool
	// Race: the harness binary is built with -race; workers run with GORACE
	// halt_on_error=0 log_path=<work>/race and the parent turns every DATA RACE report that
	// involves a gmrtd frame into a violation (a report purely in harness frames is exit 2).
	Race           bool
	HangSeconds    int // per-case wall limit before the worker gives up (default 120)
	MemLimitMB     int // RLIMIT_AS for workers (0 = none)
	MinEvaluations int64
	Assumptions    []string
	Exhaustive     func(tier string) bool
	Run            func(c *Ctx)
}

// Violation is one refuting observation.
type Violation struct {
	Key     string `json:"key"`  // class of the failing input / call site / history shape
	What    string `json:"what"` // human-readable
	CaseIdx int64  `json:"case_idx"`
	Case    string `json:"case"`
	Detail  any    `json:"detail,omitempty"`
	Known   string `json:"known,omitempty"`
}

type Ctx struct {
	Spec     *Spec
	Tier     string
	Seed     int64
	Worker   int
	NWorkers int
	From     int64
	Replay   int64 // -1: none; otherwise only this case index runs
	Verbose  bool

	idx        int64
	evals      int64
	hashes     map[uint64]struct{}
	counters   map[string]int64
	samples    []any
	sampleSeen map[string]int
	viols      []Violation
	inconcl    []string
	notes      map[string]string
	logf       *os.File
	outf       *os.File
	curCase    atomic.Value // string
	curStart   atomic.Int64
	mu         sync.Mutex
}

// K is the per-case handle.
type K struct {
	c          *Ctx
	Idx        int64
	Desc       string
	RNG        *mrand.Rand
	nontrivial bool
	distinct   string
}

func (c *Ctx) Quick() bool    { return c.Tier == "quick" }
func (c *Ctx) Thorough() bool { return c.Tier == "thorough" }

// Pick returns q in the quick tier and t in the thorough tier.
func (c *Ctx) Pick(q, t int) int {
	if c.Thorough() {
		return t
	}
	return q
}

// PlanRNG returns a PRNG for building the case list; it is a pure function of the seed
// and the label, so every worker derives the same list.
func (c *Ctx) PlanRNG(label string) *mrand.Rand {
	return NewRNG(c.Seed, label)
}

func NewRNG(seed int64, label string) *mrand.Rand {
	h := fnv.New64a()
	h.Write([]byte(label))
	return mrand.New(mrand.NewPCG(uint64(seed), h.Sum64()))
}

// detReader is the deterministic crypto/rand.Reader replacement.
type detReader struct{ src *mrand.ChaCha8 }

func (d *detReader) Read(p []byte) (int, error) { return d.src.Read(p) }

func SeedCryptoRand(seed int64, label string) {
	var s [32]byte
	binary.LittleEndian.PutUint64(s[:], uint64(seed))
	h := fnv.New64a()
	h.Write([]byte(label))
	binary.LittleEndian.PutUint64(s[8:], h.Sum64())
	copy(s[16:], "verif-detrand-01")
	crand.Reader = &detReader{src: mrand.NewChaCha8(s)}
}

var realRandReader io.Reader = crand.Reader

func RestoreCryptoRand() { crand.Reader = realRandReader }

// Owns reports whether this worker executes the next case index without consuming it.
func (c *Ctx) owns(idx int64) bool {
	if c.Replay >= 0 {
		return idx == c.Replay
	}
	if idx < c.From {
		return false
	}
	// rotate the assignment from one row of NWorkers indices to the next, so that case lists
	// with a period dividing NWorkers (every 4th case is an expensive one) spread evenly
	n := int64(c.NWorkers)
	return int((idx+idx/n)%n) == c.Worker
}

// Skip advances the case counter by n without running anything (used to keep case
// indices aligned when a block of cases is known not to be owned).
func (c *Ctx) NextIdx() int64 { return c.idx }

// Case registers one case; fn runs only in the worker that owns it.
func (c *Ctx) Case(desc string, fn func(k *K)) {
	idx := c.idx
	c.idx++
	if !c.owns(idx) {
		return
	}
	c.runCase(idx, desc, fn)
}

// Cases registers n cases cheaply: desc/fn are only invoked for owned indices.
func (c *Ctx) Cases(n int, desc func(i int) string, fn func(i int, k *K)) {
	base := c.idx
	c.idx += int64(n)
	for i := 0; i < n; i++ {
		idx := base + int64(i)
		if !c.owns(idx) {
			continue
		}
		ii := i
		c.runCase(idx, desc(ii), func(k *K) { fn(ii, k) })
	}
}

// CaseStart, when set, runs at the start of every case (per-case environment switches that
// are a pure function of the case index).
var CaseStart func(k *K)

func (c *Ctx) runCase(idx int64, desc string, fn func(k *K)) {
	k := &K{c: c, Idx: idx, Desc: desc}
	k.RNG = NewRNG(c.Seed, fmt.Sprintf("%s/%d", c.Spec.ID, idx))
	if !c.Spec.RealRand {
		SeedCryptoRand(c.Seed, fmt.Sprintf("%s/%d", c.Spec.ID, idx))
	}
	if c.logf != nil {
		fmt.Fprintf(c.logf, "%d\t%s\n", idx, desc)
	}
	c.curCase.Store(fmt.Sprintf("%d\t%s", idx, desc))
	c.curStart.Store(time.Now().UnixNano())
	func() {
		defer func() {
			if r := recover(); r != nil {
				st := string(debug.Stack())
				if lf, ok := r.(libFailure); ok {
					k.Violation("setup:"+lf.key, "a library call needed by the monitor failed: "+lf.what, nil)
					return
				}
				if pe, ok := r.(harnessBug); ok {
					fmt.Fprintf(os.Stderr, "HARNESS-BUG case=%d %s: %s\n", idx, desc, string(pe))
					os.Exit(2)
				}
				if !stackHasLibFrame(st) {
					fmt.Fprintf(os.Stderr, "HARNESS-PANIC case=%d %s: %v\n%s\n", idx, desc, r, st)
					os.Exit(2)
				}
				if c.Spec.PanicNotViolation {
					k.Count("panic_recovered")
					return
				}
				k.Violation("panic:"+topLibFrame(st), fmt.Sprintf("library panicked: %v", r), map[string]any{"stack": trimStack(st)})
			}
		}()
		if CaseStart != nil {
			CaseStart(k)
		}
		fn(k)
	}()
	c.curStart.Store(0)
	c.evals++
	if c.sampleSeen["case"] < 2 && idx%7 == 3 {
		c.sampleSeen["case"]++
		c.samples = append(c.samples, map[string]any{"class": "case", "case_idx": idx, "case": desc})
	}
	if k.nontrivial {
		d := k.distinct
		if d == "" {
			d = desc
		}
		h := fnv.New64a()
		h.Write([]byte(d))
		c.hashes[h.Sum64()] = struct{}{}
	}
	if c.evals%500 == 0 {
		c.flush(false)
	}
}

type harnessBug string

// Bug aborts the check as a broken harness (exit 2) - never a violation.
func Bug(format string, a ...any) { panic(harnessBug(fmt.Sprintf(format, a...))) }

type libFailure struct{ key, what string }

// LibFail ends the current case with a violation: a library call that a monitor needs for
// its set-up (and that must succeed on correct code, e.g. selecting the application on the
// conforming simulated chip, importing a genuine export) failed. Using Bug here would turn
// a misbehaving library into a "broken harness" verdict.
func LibFail(key, format string, a ...any) { panic(libFailure{key, fmt.Sprintf(format, a...)}) }

func stackHasLibFrame(st string) bool {
	return strings.Contains(st, "github.com/gmrtd/gmrtd/")
}

var frameRe = regexp.MustCompile(`github\.com/gmrtd/gmrtd/([A-Za-z0-9_/]+)\.((?:\(\*?[A-Za-z0-9_]+\)\.)?[A-Za-z0-9_]+)`)

func topLibFrame(st string) string {
	m := frameRe.FindStringSubmatch(st)
	if m == nil {
		return "unknown"
	}
	fn := m[2]
	fn = strings.TrimSuffix(fn, "(")
	return m[1] + "." + fn
}

// LibPanic classifies a panic recovered in a goroutine the monitor started itself (the
// runner only sees the case's own goroutine): ok reports whether the stack has a gmrtd
// frame, key is then the same "panic:<pkg.func>" key the runner would have used.
func LibPanic(stack string) (key string, trimmed string, ok bool) {
	if !stackHasLibFrame(stack) {
		return "", "", false
	}
	return "panic:" + topLibFrame(stack), trimStack(stack), true
}

func trimStack(st string) string {
	lines := strings.Split(st, "\n")
	if len(lines) > 40 {
		lines = lines[:40]
	}
	return strings.Join(lines, "\n")
}

// Nontrivial marks the case as non-trivial by the spec's rule; distinct is the
// descriptor hashed for the distinct count ("" = the case description).
func (k *K) Nontrivial(distinct string) { k.nontrivial = true; k.distinct = distinct }

func (k *K) Count(name string) { k.c.counters[name]++ }

// AddEvals adds n further evaluations performed inside this case (a case that bundles
// several executions counts each of them).
func (k *K) AddEvals(n int64) { k.c.evals += n }

// Distinct records one more distinct non-trivial descriptor from inside a bundled case.
func (k *K) Distinct(d string) {
	h := fnv.New64a()
	h.Write([]byte(d))
	k.c.hashes[h.Sum64()] = struct{}{}
}
func (k *K) CountN(name string, n int64) {
	k.c.counters[name] += n
}
func (k *K) Max(name string, v int64) {
	if v > k.c.counters[name] {
		k.c.counters[name] = v
	}
}

// Sample keeps at most 3 samples per class.
func (k *K) Sample(class string, v any) {
	if k.c.sampleSeen[class] >= 2 || len(k.c.samples) >= 24 {
		return
	}
	k.c.sampleSeen[class]++
	k.c.samples = append(k.c.samples, map[string]any{"class": class, "case_idx": k.Idx, "case": k.Desc, "sample": v})
}

func (k *K) Violation(key, what string, detail any) {
	v := Violation{Key: key, What: what, CaseIdx: k.Idx, Case: k.Desc, Detail: detail}
	k.c.viols = append(k.c.viols, v)
	k.c.flush(false)
}

func (k *K) Inconclusive(what string) {
	k.c.inconcl = append(k.c.inconcl, fmt.Sprintf("case %d %s: %s", k.Idx, k.Desc, what))
}

func (c *Ctx) Note(key, val string) { c.notes[key] = val }

// ---------------------------------------------------------------------------------------
// worker side

type workerOut struct {
	Evals    int64             `json:"evals"`
	Hashes   []uint64          `json:"hashes"`
	Counters map[string]int64  `json:"counters"`
	Samples  []any             `json:"samples"`
	Viols    []Violation       `json:"viols"`
	Inconcl  []string          `json:"inconcl"`
	Notes    map[string]string `json:"notes"`
	Done     bool              `json:"done"`
	LastIdx  int64             `json:"last_idx"`
	Total    int64             `json:"total"`
}

func (c *Ctx) flush(done bool) {
	if c.outf == nil {
		return
	}
	c.mu.Lock()
	defer c.mu.Unlock()
	o := workerOut{Evals: c.evals, Counters: c.counters, Samples: c.samples, Viols: c.viols, Inconcl: c.inconcl, Notes: c.notes, Done: done, Total: c.idx}
	for h := range c.hashes {
		o.Hashes = append(o.Hashes, h)
	}
	b, err := json.Marshal(o)
	if err != nil {
		fmt.Fprintf(os.Stderr, "flush: %v\n", err)
		os.Exit(2)
	}
	tmp := c.outf.Name() + ".tmp"
	if err := os.WriteFile(tmp, b, 0o644); err != nil {
		fmt.Fprintf(os.Stderr, "flush: %v\n", err)
		os.Exit(2)
	}
	os.Rename(tmp, c.outf.Name())
}

func newCtx(spec *Spec, tier string, seed int64) *Ctx {
	return &Ctx{Spec: spec, Tier: tier, Seed: seed, NWorkers: 1, Replay: -1,
		hashes: map[uint64]struct{}{}, counters: map[string]int64{}, sampleSeen: map[string]int{}, notes: map[string]string{}}
}

// RunWorker executes the shard of one worker process and writes its result file.
func RunWorker(spec *Spec, tier string, seed int64, worker, nworkers int, from, replay int64, outPath, logPath string) {
	c := newCtx(spec, tier, seed)
	c.Worker, c.NWorkers, c.From, c.Replay = worker, nworkers, from, replay
	var err error
	if logPath != "" {
		if c.logf, err = os.OpenFile(logPath, os.O_CREATE|os.O_WRONLY|os.O_APPEND, 0o644); err != nil {
			fmt.Fprintln(os.Stderr, err)
			os.Exit(2)
		}
	}
	if c.outf, err = os.OpenFile(outPath, os.O_CREATE|os.O_WRONLY, 0o644); err != nil {
		fmt.Fprintln(os.Stderr, err)
		os.Exit(2)
	}
	if spec.MemLimitMB > 0 {
		setMemLimit(spec.MemLimitMB)
	}
	hang := spec.HangSeconds
	if hang == 0 {
		hang = 900 // generous: the machine may be heavily loaded; a hang is only a verdict for C11/C12
	}
	// hang monitor: a case that runs longer than the limit ends the worker with exit 3;
	// the parent attributes it to the last logged case.
	go func() {
		for {
			time.Sleep(500 * time.Millisecond)
			st := c.curStart.Load()
			if st != 0 && time.Since(time.Unix(0, st)) > time.Duration(hang)*time.Second {
				fmt.Fprintf(os.Stderr, "HANG %v\n", c.curCase.Load())
				os.Exit(3)
			}
		}
	}()
	spec.Run(c)
	c.flush(true)
	runtime.KeepAlive(c)
}

// ---------------------------------------------------------------------------------------
// known findings

type KnownFinding struct {
	Property string `json:"property"`
	Key      string `json:"key"`   // identifier of the finding
	Match    string `json:"match"` // regexp over Violation.Key (anchored)
	What     string `json:"what"`
}
type FixedFinding struct {
	Property string `json:"property"`
	Commit   string `json:"commit"`
	What     string `json:"what"`
}
type KnownFile struct {
	Findings []KnownFinding `json:"findings"`
	Fixed    []FixedFinding `json:"fixed"`
}

func loadKnown() KnownFile {
	var kf KnownFile
	b, err := os.ReadFile(filepath.Join(VerifDir, "known_findings.json"))
	if err != nil {
		return kf
	}
	if err := json.Unmarshal(b, &kf); err != nil {
		fmt.Fprintf(os.Stderr, "known_findings.json: %v\n", err)
		os.Exit(2)
	}
	return kf
}

// ---------------------------------------------------------------------------------------
// evidence

type Evidence struct {
	PropertyID  string         `json:"property_id"`
	Tier        string         `json:"tier"`
	Seed        int64          `json:"seed"`
	Level       string         `json:"level"`
	Coverage    map[string]any `json:"coverage"`
	Assumptions []string       `json:"assumptions"`
	WallS       float64        `json:"wall_s"`
	Violations  int            `json:"violations"`
}

func sortedKeys(m map[string]int64) []string {
	ks := make([]string, 0, len(m))
	for k := range m {
		ks = append(ks, k)
	}
	sort.Strings(ks)
	return ks
}
