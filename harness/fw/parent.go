package fw

import (
	"bytes"
	"crypto/sha256"
	"encoding/hex"
	"encoding/json"
	"fmt"
	"os"
	"os/exec"
	"path/filepath"
	"regexp"
	"runtime"
	"sort"
	"strconv"
	"strings"
	"sync"
	"syscall"
	"time"
)

type replayFile struct {
	Property string    `json:"property"`
	Tier     string    `json:"tier"`
	Seed     int64     `json:"seed"`
	CaseIdx  int64     `json:"case_idx"`
	Case     string    `json:"case"`
	Viol     Violation `json:"violation"`
	HowTo    string    `json:"how_to_replay"`
}

func setMemLimit(mb int) {
	lim := syscall.Rlimit{Cur: uint64(mb) << 20, Max: uint64(mb) << 20}
	_ = syscall.Setrlimit(syscall.RLIMIT_AS, &lim)
}

// raceDir is where workers (and their children) write race detector reports.
var raceDir string

// RaceDir is exported for checks that spawn children of their own.
func RaceDir() string { return os.Getenv("VERIF_RACE_DIR") }

var raceFrame = regexp.MustCompile(`^\s+(github\.com/gmrtd/gmrtd/[^\s(]+(?:\(\*?[A-Za-z0-9_]+\))?[^\s(]*)\(`)
var anyFrame = regexp.MustCompile(`^\s+([A-Za-z0-9_./\-]+(?:\(\*?[A-Za-z0-9_]+\))?[^\s(]*)\(`)

// Caller-owned data. A monitor that plays a client which treats what an accessor returned
// (or a buffer it passed in, after the call returned) as ITS OWN memory does every access to
// that memory inside a tiny function named verifCallerOwnedResult_<what> /
// verifCallerOwnedInput_<what>. Such a function touches nothing but that memory and
// goroutine-local values, and two clients never hand their slices to each other; so a race
// report with that frame on one side means the library still reaches the memory (it handed
// out, or kept, an alias of shared state): a violation attributed to the accessor <what>,
// also when the other side is a second client of the same kind and the report has no gmrtd
// frame at all.
var ownedFrame = regexp.MustCompile(`^\s+verifharness/checks\.verifCallerOwned(Result|Input)_([A-Za-z0-9]+)\(`)

// raceSide describes one access of a race report: the marker of a caller-owned access when
// that frame is innermost to every gmrtd frame of the stack, else the innermost gmrtd frame.
type raceSide struct {
	lib   string // innermost gmrtd frame ("" when the access is not below library code)
	kind  string // "Result" | "Input" when the access is a marked caller-owned access
	owned string // <what> of the marker
	n     int    // number of frames of the access stack seen before the verdict (0: stack not restored)
	write bool   // the access is a write
}

func parseRaceSide(sec string) raceSide {
	var s raceSide
	if i := strings.Index(sec, " at 0x"); i >= 0 {
		s.write = strings.Contains(strings.ToLower(sec[:i]), "write")
	}
	for _, line := range strings.Split(sec, "\n") {
		if m := ownedFrame.FindStringSubmatch(line); m != nil {
			s.kind, s.owned = m[1], m[2]
			return s
		}
		if m := raceFrame.FindStringSubmatch(line); m != nil {
			s.lib = m[1]
			return s
		}
		if anyFrame.MatchString(line) {
			s.n++
		}
	}
	return s
}

// collectRaces parses the race detector logs and returns one violation per distinct
// pair of innermost gmrtd frames; harnessOnly counts reports without any gmrtd frame.
func collectRaces(dir string) (viols []Violation, reports int, harnessOnly []string) {
	files, _ := filepath.Glob(filepath.Join(dir, "race*"))
	seen := map[string]bool{}
	for _, f := range files {
		b, err := os.ReadFile(f)
		if err != nil {
			continue
		}
		blocks := strings.Split(string(b), "WARNING: DATA RACE")
		for _, blk := range blocks[1:] {
			reports++
			// sections are separated by blank lines; the first two are the two accesses
			secs := strings.Split(blk, "\n\n")
			var sides []raceSide
			for i := 0; i < len(secs) && i < 2; i++ {
				sides = append(sides, parseRaceSide(secs[i]))
			}
			for len(sides) < 2 {
				sides = append(sides, raceSide{})
			}
			key, what := "", "data race reported by the Go race detector"
			if sides[0].kind != "" || sides[1].kind != "" {
				// an access to caller-owned memory races with the library or with another caller
				// "me" is the caller-owned access; of two, the writing one (it took the memory
				// for its own), else the alphabetically first
				me, other := sides[0], sides[1]
				if me.kind == "" || (other.kind != "" && (other.write && !me.write || other.write == me.write && other.owned < me.owned)) {
					me, other = other, me
				}
				if other.lib == "" && other.kind == "" && other.n > 0 {
					// the other access is unmarked harness code: the monitor itself is at fault
					harnessOnly = append(harnessOnly, tail(blk, 1500))
					continue
				}
				o := "unknown-stack"
				switch {
				case other.lib != "":
					o = strings.TrimPrefix(other.lib, "github.com/gmrtd/gmrtd/")
				case other.kind != "":
					o = "another-caller-of-" + other.owned
				}
				if me.kind == "Result" {
					key = "race:caller-owned-result-aliased:" + me.owned + ":" + o
					what = "data race on memory that " + me.owned + " returned to its caller: the result aliases state that other users of the object still reach"
				} else {
					key = "race:caller-owned-input-retained:" + me.owned + ":" + o
					what = "data race on a buffer the caller passed to " + me.owned + " and modified after the call had returned: the library kept the caller's buffer instead of a copy"
				}
			} else {
				frames := []string{sides[0].lib, sides[1].lib}
				if frames[0] == "" && frames[1] == "" {
					// is there a gmrtd frame anywhere in the report (e.g. deeper in a stack)?
					if !strings.Contains(blk, "github.com/gmrtd/gmrtd/") {
						harnessOnly = append(harnessOnly, tail(blk, 1500))
						continue
					}
				}
				sort.Strings(frames)
				key = "race:" + strings.TrimPrefix(frames[0], "github.com/gmrtd/gmrtd/") + "|" + strings.TrimPrefix(frames[1], "github.com/gmrtd/gmrtd/")
			}
			if seen[key] {
				continue
			}
			seen[key] = true
			head := blk
			if len(head) > 3000 {
				head = head[:3000]
			}
			viols = append(viols, Violation{Key: key, What: what, CaseIdx: -1, Case: "race-detector", Detail: map[string]any{"report": head}})
		}
	}
	return
}

type workerRes struct {
	out      workerOut
	extra    []Violation
	inconcl  []string
	broken   string
	respawns int
}

func classOf(desc string) string {
	if i := strings.IndexByte(desc, '|'); i >= 0 {
		return desc[:i]
	}
	if i := strings.IndexByte(desc, ' '); i >= 0 {
		return desc[:i]
	}
	return desc
}

func lastLogged(logPath string) (int64, string, bool) {
	b, err := os.ReadFile(logPath)
	if err != nil || len(b) == 0 {
		return 0, "", false
	}
	lines := strings.Split(strings.TrimRight(string(b), "\n"), "\n")
	last := lines[len(lines)-1]
	parts := strings.SplitN(last, "\t", 2)
	if len(parts) != 2 {
		return 0, "", false
	}
	n, err := strconv.ParseInt(parts[0], 10, 64)
	if err != nil {
		return 0, "", false
	}
	return n, parts[1], true
}

func readOut(p string) (workerOut, bool) {
	var o workerOut
	b, err := os.ReadFile(p)
	if err != nil {
		return o, false
	}
	if json.Unmarshal(b, &o) != nil {
		return o, false
	}
	return o, true
}

func mergeOut(dst *workerOut, src workerOut) {
	dst.Evals += src.Evals
	dst.Hashes = append(dst.Hashes, src.Hashes...)
	if dst.Counters == nil {
		dst.Counters = map[string]int64{}
	}
	for k, v := range src.Counters {
		if strings.HasPrefix(k, "max_") {
			if v > dst.Counters[k] {
				dst.Counters[k] = v
			}
		} else {
			dst.Counters[k] += v
		}
	}
	dst.Samples = append(dst.Samples, src.Samples...)
	dst.Viols = append(dst.Viols, src.Viols...)
	dst.Inconcl = append(dst.Inconcl, src.Inconcl...)
	if dst.Notes == nil {
		dst.Notes = map[string]string{}
	}
	for k, v := range src.Notes {
		dst.Notes[k] = v
	}
	if src.Total > dst.Total {
		dst.Total = src.Total
	}
}

// runOne runs a worker process and returns its exit code and stderr tail.
func runOne(self string, spec *Spec, tier string, seed int64, args []string, limit time.Duration) (int, string, bool) {
	cmd := exec.Command(self, append([]string{spec.ID, "--tier", tier, "--seed", strconv.FormatInt(seed, 10)}, args...)...)
	var stderr bytes.Buffer
	cmd.Stderr = &stderr
	cmd.Stdout = &stderr
	cmd.Env = os.Environ()
	if spec.Race {
		cmd.Env = append(cmd.Env, "GORACE=halt_on_error=0 exitcode=0 log_path="+filepath.Join(raceDir, "race"))
	}
	if err := cmd.Start(); err != nil {
		return 2, err.Error(), false
	}
	done := make(chan error, 1)
	go func() { done <- cmd.Wait() }()
	timedOut := false
	select {
	case <-done:
	case <-time.After(limit):
		timedOut = true
		cmd.Process.Signal(syscall.SIGQUIT)
		select {
		case <-done:
		case <-time.After(5 * time.Second):
			cmd.Process.Kill()
			<-done
		}
	}
	code := cmd.ProcessState.ExitCode()
	s := stderr.String()
	if len(s) > 6000 {
		s = s[:2500] + "\n...\n" + s[len(s)-3000:]
	}
	return code, s, timedOut
}

// RunParent shards the check over worker processes, merges, applies known findings,
// writes replay files and evidence, and returns the process exit code.
func RunParent(self string, spec *Spec, tier string, seed int64, replayPath string) int {
	start := time.Now()
	work := filepath.Join(VerifDir, "work", fmt.Sprintf("%s-%d", spec.ID, os.Getpid()))
	os.MkdirAll(work, 0o755)
	if os.Getenv("VERIF_KEEP_WORK") == "" {
		defer os.RemoveAll(work)
	}

	if spec.Race {
		raceDir = filepath.Join(work, "races")
		os.MkdirAll(raceDir, 0o755)
		os.Setenv("VERIF_RACE_DIR", raceDir)
	}
	limit := 40 * time.Minute
	if tier == "thorough" {
		limit = 8 * time.Hour
	}

	if replayPath != "" {
		var rf replayFile
		b, err := os.ReadFile(replayPath)
		if err != nil {
			fmt.Fprintln(os.Stderr, err)
			return 2
		}
		if err := json.Unmarshal(b, &rf); err != nil {
			fmt.Fprintln(os.Stderr, err)
			return 2
		}
		if rf.CaseIdx < 0 {
			// not attributable to one case (race detector report): re-run the whole check
			return RunParent(self, spec, rf.Tier, rf.Seed, "")
		}
		out := filepath.Join(work, "replay.json")
		code, se, _ := runOne(self, spec, rf.Tier, rf.Seed, []string{"--worker", "0", "--nworkers", "1", "--replay-idx", strconv.FormatInt(rf.CaseIdx, 10), "--out", out, "--log", filepath.Join(work, "replay.log")}, limit)
		o, ok := readOut(out)
		if code != 0 || !ok {
			if spec.CrashIsViolation && code != 2 {
				fmt.Printf("VIOLATION property=%s replay=%s\n", spec.ID, replayPath)
				fmt.Printf("  replayed case %d died again (exit %d)\n%s\n", rf.CaseIdx, code, se)
				return 1
			}
			fmt.Fprintf(os.Stderr, "replay worker failed (exit %d)\n%s\n", code, se)
			return 2
		}
		if len(o.Viols) > 0 {
			for _, v := range o.Viols {
				fmt.Printf("VIOLATION property=%s replay=%s\n  key=%s\n  %s\n", spec.ID, replayPath, v.Key, v.What)
			}
			return 1
		}
		fmt.Printf("replay of case %d (%s): no violation on the current tree (evaluations=%d)\n", rf.CaseIdx, rf.Case, o.Evals)
		return 0
	}

	n := runtime.NumCPU()
	if n > 16 {
		n = 16
	}
	if spec.MaxWorkers > 0 && n > spec.MaxWorkers {
		n = spec.MaxWorkers
	}
	if v := os.Getenv("VERIF_WORKERS"); v != "" {
		if x, err := strconv.Atoi(v); err == nil && x > 0 {
			n = x
		}
	}

	results := make([]workerRes, n)
	var wg sync.WaitGroup
	for w := 0; w < n; w++ {
		wg.Add(1)
		go func(w int) {
			defer wg.Done()
			res := &results[w]
			from := int64(0)
			for {
				out := filepath.Join(work, fmt.Sprintf("w%d-%d.json", w, res.respawns))
				logp := filepath.Join(work, fmt.Sprintf("w%d-%d.log", w, res.respawns))
				code, se, timedOut := runOne(self, spec, tier, seed, []string{"--worker", strconv.Itoa(w), "--nworkers", strconv.Itoa(n), "--from", strconv.FormatInt(from, 10), "--out", out, "--log", logp}, limit)
				o, ok := readOut(out)
				if ok {
					mergeOut(&res.out, o)
				}
				if code == 0 && ok && o.Done {
					return
				}
				if timedOut {
					res.broken = fmt.Sprintf("worker %d: wall-clock watchdog (%v) fired\n%s", w, limit, se)
					return
				}
				if code == 2 || !spec.CrashIsViolation {
					res.broken = fmt.Sprintf("worker %d exited %d\n%s", w, code, se)
					return
				}
				// crash or hang: attribute to the last logged case, confirm alone
				idx, desc, okl := lastLogged(logp)
				if !okl {
					res.broken = fmt.Sprintf("worker %d exited %d before logging a case\n%s", w, code, se)
					return
				}
				kind := "crash"
				if code == 3 {
					kind = "hang"
				}
				cout := filepath.Join(work, fmt.Sprintf("w%d-confirm-%d.json", w, idx))
				ccode, cse, _ := runOne(self, spec, tier, seed, []string{"--worker", "0", "--nworkers", "1", "--replay-idx", strconv.FormatInt(idx, 10), "--out", cout, "--log", cout + ".log"}, limit)
				if ccode != 0 && ccode != 2 {
					what := firstFatalLine(cse)
					res.extra = append(res.extra, Violation{Key: kind + ":" + classOf(desc), What: fmt.Sprintf("worker process died (%s, exit %d) in this case, confirmed by re-running it alone: %s", kind, ccode, what), CaseIdx: idx, Case: desc, Detail: map[string]any{"stderr": tail(cse, 1500)}})
				} else if co, ok2 := readOut(cout); ok2 && len(co.Viols) > 0 {
					res.extra = append(res.extra, co.Viols...)
				} else {
					res.inconcl = append(res.inconcl, fmt.Sprintf("case %d %s: worker died (%s, exit %d) but the case passed when re-run alone\n%s", idx, desc, kind, code, tail(se, 600)))
				}
				res.respawns++
				if res.respawns > 60 {
					res.broken = fmt.Sprintf("worker %d: too many respawns", w)
					return
				}
				from = idx + 1
			}
		}(w)
	}
	wg.Wait()

	var all workerOut
	var extraInconcl []string
	for i := range results {
		if results[i].broken != "" {
			fmt.Fprintf(os.Stderr, "BROKEN-HARNESS %s: %s\n", spec.ID, results[i].broken)
			return 2
		}
		mergeOut(&all, results[i].out)
		all.Viols = append(all.Viols, results[i].extra...)
		extraInconcl = append(extraInconcl, results[i].inconcl...)
	}
	all.Inconcl = append(all.Inconcl, extraInconcl...)
	raceReports := 0
	if spec.Race {
		rv, n, harnessOnly := collectRaces(raceDir)
		raceReports = n
		if len(harnessOnly) > 0 {
			fmt.Fprintf(os.Stderr, "BROKEN-HARNESS %s: %d data race report(s) without any gmrtd frame:\n%s\n", spec.ID, len(harnessOnly), harnessOnly[0])
			return 2
		}
		all.Viols = append(all.Viols, rv...)
		if all.Counters == nil {
			all.Counters = map[string]int64{}
		}
		all.Counters["race_detector_reports"] = int64(n)
	}
	_ = raceReports

	// distinct count
	hs := map[uint64]struct{}{}
	for _, h := range all.Hashes {
		hs[h] = struct{}{}
	}

	// known findings
	kf := loadKnown()
	type kre struct {
		f  KnownFinding
		re *regexp.Regexp
	}
	var known []kre
	for _, f := range kf.Findings {
		if f.Property != spec.ID {
			continue
		}
		re, err := regexp.Compile("^(?:" + f.Match + ")$")
		if err != nil {
			fmt.Fprintf(os.Stderr, "known_findings.json: bad match %q: %v\n", f.Match, err)
			return 2
		}
		known = append(known, kre{f, re})
	}
	knownSeen := map[string]int{}
	byKey := map[string][]Violation{}
	var keys []string
	// de-duplicate violations (a confirm run can report the same case twice)
	seenV := map[string]bool{}
	for _, v := range all.Viols {
		id := fmt.Sprintf("%d/%s", v.CaseIdx, v.Key)
		if seenV[id] {
			continue
		}
		seenV[id] = true
		matched := false
		for _, k := range known {
			if k.re.MatchString(v.Key) {
				knownSeen[k.f.Key]++
				matched = true
				break
			}
		}
		if matched {
			continue
		}
		if _, ok := byKey[v.Key]; !ok {
			keys = append(keys, v.Key)
		}
		byKey[v.Key] = append(byKey[v.Key], v)
	}
	sort.Strings(keys)

	for _, k := range known {
		if knownSeen[k.f.Key] > 0 {
			fmt.Printf("KNOWN-FINDING: property=%s %s (observed %d times; id=%s)\n", spec.ID, k.f.What, knownSeen[k.f.Key], k.f.Key)
		}
	}
	for _, s := range all.Inconcl {
		fmt.Printf("INCONCLUSIVE: property=%s %s\n", spec.ID, oneLine(s))
	}

	nviol := 0
	os.MkdirAll(filepath.Join(VerifDir, "replays"), 0o755)
	for i, key := range keys {
		vs := byKey[key]
		sort.Slice(vs, func(a, b int) bool { return vs[a].CaseIdx < vs[b].CaseIdx })
		v := vs[0]
		nviol += len(vs)
		sum := sha256.Sum256([]byte(key))
		rp := filepath.Join(VerifDir, "replays", fmt.Sprintf("%s-%s.json", spec.ID, hex.EncodeToString(sum[:6])))
		rf := replayFile{Property: spec.ID, Tier: tier, Seed: seed, CaseIdx: v.CaseIdx, Case: v.Case, Viol: v,
			HowTo: fmt.Sprintf("cd /verif && bin/check %s --replay %s", spec.ID, rp)}
		b, _ := json.MarshalIndent(rf, "", " ")
		os.WriteFile(rp, b, 0o644)
		if i < 12 {
			fmt.Printf("VIOLATION property=%s replay=%s\n", spec.ID, rp)
			fmt.Printf("  key=%s (%d cases; first: #%d %s)\n  %s\n", key, len(vs), v.CaseIdx, v.Case, oneLine(v.What))
		}
	}
	if len(keys) > 12 {
		fmt.Printf("  ... and %d more violation classes\n", len(keys)-12)
	}

	// evidence
	cov := map[string]any{
		"evaluations":         all.Evals,
		"distinct_nontrivial": len(hs),
		"rule":                spec.Rule,
		"samples":             capSamples(all.Samples),
		"cases_enumerated":    all.Total,
		"workers":             n,
		"inconclusive":        len(all.Inconcl),
	}
	if spec.Exhaustive != nil && spec.Exhaustive(tier) {
		cov["exhaustive"] = true
	}
	obs := map[string]int64{}
	for _, k := range sortedKeys(all.Counters) {
		obs[k] = all.Counters[k]
	}
	cov["observed"] = obs
	if len(all.Notes) > 0 {
		cov["notes"] = all.Notes
	}
	if len(knownSeen) > 0 {
		cov["known_findings_observed"] = knownSeen
	}
	if len(keys) > 0 {
		cov["violation_classes"] = keys
	}
	ev := Evidence{PropertyID: spec.ID, Tier: tier, Seed: seed, Level: spec.Level, Coverage: cov,
		Assumptions: spec.Assumptions, WallS: time.Since(start).Seconds(), Violations: nviol}
	if ev.Assumptions == nil {
		ev.Assumptions = []string{}
	}
	os.MkdirAll(filepath.Join(VerifDir, "evidence"), 0o755)
	b, _ := json.MarshalIndent(ev, "", " ")
	if err := os.WriteFile(filepath.Join(VerifDir, "evidence", spec.ID+".json"), append(b, '\n'), 0o644); err != nil {
		fmt.Fprintln(os.Stderr, err)
		return 2
	}

	fmt.Printf("%s tier=%s seed=%d: evaluations=%d distinct_nontrivial=%d violations=%d known=%d inconclusive=%d wall=%.1fs\n",
		spec.ID, tier, seed, all.Evals, len(hs), nviol, len(knownSeen), len(all.Inconcl), time.Since(start).Seconds())
	for _, k := range sortedKeys(all.Counters) {
		fmt.Printf("  observed %-44s %d\n", k, all.Counters[k])
	}
	if nviol > 0 {
		return 1
	}
	if all.Evals < spec.MinEvaluations || len(hs) < 2 {
		fmt.Fprintf(os.Stderr, "BROKEN-HARNESS %s: observed too little (evaluations=%d, min=%d, distinct=%d)\n", spec.ID, all.Evals, spec.MinEvaluations, len(hs))
		return 2
	}
	return 0
}

func capSamples(s []any) []any {
	// keep at most 2 per class overall, 16 in total
	seen := map[string]int{}
	var out []any
	for _, x := range s {
		m, ok := x.(map[string]any)
		cl := ""
		if ok {
			cl, _ = m["class"].(string)
		}
		if seen[cl] >= 2 || len(out) >= 16 {
			continue
		}
		seen[cl]++
		out = append(out, x)
	}
	if out == nil {
		out = []any{}
	}
	return out
}

func oneLine(s string) string {
	s = strings.ReplaceAll(s, "\n", " | ")
	if len(s) > 400 {
		s = s[:400] + "..."
	}
	return s
}

func tail(s string, n int) string {
	if len(s) > n {
		return s[len(s)-n:]
	}
	return s
}

func firstFatalLine(s string) string {
	for _, l := range strings.Split(s, "\n") {
		if strings.HasPrefix(l, "fatal error:") || strings.HasPrefix(l, "panic:") || strings.HasPrefix(l, "HANG") || strings.Contains(l, "out of memory") {
			return l
		}
	}
	return oneLine(tail(s, 200))
}
