package ldsgen

import (
	"encoding/binary"
	"fmt"
	"math/rand/v2"
)

// BioEncoding selects the biometric data block format of a DG2 template.
type BioEncoding int

const (
	EncodingAny BioEncoding = iota // random per template
	ISO19794                       // tag 5F2E, ISO/IEC 19794-5:2005 facial record
	ISO39794                       // tag 7F2E, ISO/IEC 39794-5 (ICAO application profile)
)

// DG2Opts steers NewDG2. Zero values mean "random within the documented range".
type DG2Opts struct {
	Templates         int         // 1..9 biometric information templates (0: random 1..4)
	ImagesPerTemplate int         // ISO 19794-5 only: 1..4 facial images per record (0: random 1..2); 39794-5 always has one
	ImageBytes        int         // size of every image (0: random 24..600)
	Encoding          BioEncoding // for all templates
	ImageKind         ImageKind
	// TotalSize > 0 pads the LAST image so that the whole file has exactly this many
	// bytes; NewDG2 panics when the size cannot be reached (see FitSize).
	TotalSize int
	// FullHeader writes every optional BHT element; otherwise a random subset.
	FullHeader bool
	// Images, when non-nil, supplies the image bytes: Images[t][i] (overrides the counts).
	Images [][][]byte
}

// BHTView is the biometric header template (A1) of one template; nil = element absent.
type BHTView struct {
	ICAOHeaderVersion []byte // 80
	BiometricType     []byte // 81
	BiometricSubType  []byte // 82
	CreationDateTime  []byte // 83
	ValidityPeriod    []byte // 85
	PID               []byte // 86
	FormatOwner       []byte // 87
	FormatType        []byte // 88
}

// FeaturePoint is one ISO 19794-5 feature point block (8 bytes).
type FeaturePoint struct {
	Type, MajorPoint, MinorPoint uint8
	X, Y                         uint16
	Reserved                     uint8
}

// Face19794 is one facial record data block of an ISO 19794-5 record.
type Face19794 struct {
	BlockLength                 uint32
	Gender, EyeColor, HairColor uint8
	Properties                  [3]byte
	Expression                  [2]byte
	Pose, PoseUncertainty       [3]byte
	Features                    []FeaturePoint
	ImageType, ImageDataType    uint8
	Width, Height               uint16
	ColorSpace, SourceType      uint8
	DeviceType, Quality         uint16
	Image                       []byte
}

// Face39794 lists the ISO 39794-5 elements the generator wrote (nil pointer = absent).
type Face39794 struct {
	Generation, Year int
	RepresentationID int
	ImageDataFormat  int // 2 jpeg, 3 jpeg2000 lossy, 4 jpeg2000 lossless
	Image            []byte
	CaptureYear      *int // captureDateTimeBlock.year (month/day/... follow when set)
	CaptureMonth     *int
	CaptureDay       *int
	SessionID        *int
	DerivedFrom      *int
	CameraDistance   *int
	SensorDiagonal   *int
	LensFocalLength  *int
	ImageWidth       *int
	ImageHeight      *int
}

// TemplateView is one biometric information template (7F60).
type TemplateView struct {
	BHT      BHTView
	Encoding BioEncoding
	// ISO 19794-5
	RecordLength  uint32
	NumberOfFaces uint16
	Faces         []Face19794
	// ISO 39794-5
	Face39794 *Face39794
}

// Images returns the images of the template in file order.
func (t TemplateView) Images() [][]byte {
	if t.Encoding == ISO39794 {
		return [][]byte{t.Face39794.Image}
	}
	var out [][]byte
	for _, f := range t.Faces {
		out = append(out, f.Image)
	}
	return out
}

// DG2View is what a reader of the DG2 bytes must see.
type DG2View struct {
	Templates []TemplateView
}

// AllImages lists every image of every template in file order.
func (v DG2View) AllImages() [][]byte {
	var out [][]byte
	for _, t := range v.Templates {
		out = append(out, t.Images()...)
	}
	return out
}

func randBHT(r *rand.Rand, enc BioEncoding, full bool) BHTView {
	var v BHTView
	opt := func(tag uint32, val []byte, dst *[]byte, mandatory bool) {
		if mandatory || full || chance(r, 50) {
			*dst = val
		}
	}
	opt(0x80, []byte{0x01, 0x01}, &v.ICAOHeaderVersion, false)
	opt(0x81, []byte{0x02}, &v.BiometricType, false) // facial features
	opt(0x82, []byte{0x00}, &v.BiometricSubType, false)
	opt(0x83, BCD(fmt.Sprintf("%04d%02d%02d%02d%02d%02d", 2000+r.IntN(25), 1+r.IntN(12), 1+r.IntN(28), r.IntN(24), r.IntN(60), r.IntN(60))), &v.CreationDateTime, false)
	opt(0x85, BCD(fmt.Sprintf("%04d%02d%02d%04d%02d%02d", 2005+r.IntN(10), 1+r.IntN(12), 1+r.IntN(28), 2016+r.IntN(10), 1+r.IntN(12), 1+r.IntN(28))), &v.ValidityPeriod, false)
	opt(0x86, []byte{byte(r.Uint32()), byte(r.Uint32())}, &v.PID, false)
	opt(0x87, []byte{0x01, 0x01}, &v.FormatOwner, true)
	ft := []byte{0x00, 0x08}
	if enc == ISO39794 {
		ft = []byte{0x00, 0x28}
	}
	opt(0x88, ft, &v.FormatType, true)
	return v
}

// BCD packs an even-length string of decimal digits, two per byte.
func BCD(digits string) []byte {
	if len(digits)%2 != 0 {
		panic("ldsgen: BCD needs an even number of digits")
	}
	out := make([]byte, len(digits)/2)
	for i := range out {
		out[i] = (digits[2*i]-'0')<<4 | (digits[2*i+1] - '0')
	}
	return out
}

// Build19794 serialises an ISO 19794-5:2005 facial record ("FAC\0" "010\0") and fills in
// the length fields of the view.
func Build19794(faces []Face19794) (record []byte, recordLength uint32) {
	var body []byte
	for i := range faces {
		f := &faces[i]
		f.BlockLength = uint32(20 + 8*len(f.Features) + 12 + len(f.Image))
		b := make([]byte, 0, f.BlockLength)
		b = binary.BigEndian.AppendUint32(b, f.BlockLength)
		b = binary.BigEndian.AppendUint16(b, uint16(len(f.Features)))
		b = append(b, f.Gender, f.EyeColor, f.HairColor)
		b = append(b, f.Properties[:]...)
		b = append(b, f.Expression[:]...)
		b = append(b, f.Pose[:]...)
		b = append(b, f.PoseUncertainty[:]...)
		for _, p := range f.Features {
			b = append(b, p.Type, p.MajorPoint, p.MinorPoint)
			b = binary.BigEndian.AppendUint16(b, p.X)
			b = binary.BigEndian.AppendUint16(b, p.Y)
			b = append(b, p.Reserved)
		}
		b = append(b, f.ImageType, f.ImageDataType)
		b = binary.BigEndian.AppendUint16(b, f.Width)
		b = binary.BigEndian.AppendUint16(b, f.Height)
		b = append(b, f.ColorSpace, f.SourceType)
		b = binary.BigEndian.AppendUint16(b, f.DeviceType)
		b = binary.BigEndian.AppendUint16(b, f.Quality)
		b = append(b, f.Image...)
		body = append(body, b...)
	}
	recordLength = uint32(14 + len(body))
	record = append(record, 'F', 'A', 'C', 0, '0', '1', '0', 0)
	record = binary.BigEndian.AppendUint32(record, recordLength)
	record = binary.BigEndian.AppendUint16(record, uint16(len(faces)))
	record = append(record, body...)
	return record, recordLength
}

func randFace19794(r *rand.Rand, img []byte) Face19794 {
	f := Face19794{
		Gender: uint8(r.IntN(3)), EyeColor: uint8(r.IntN(8)), HairColor: uint8(r.IntN(8)),
		ImageType: uint8(r.IntN(3)), Width: uint16(100 + r.IntN(900)), Height: uint16(100 + r.IntN(900)),
		ColorSpace: uint8(r.IntN(4)), SourceType: uint8(r.IntN(8)), DeviceType: uint16(r.Uint32()), Quality: uint16(r.IntN(101)),
		Image: img,
	}
	// image data type: 0 JPEG, 1 JPEG 2000
	if len(img) >= 2 && img[0] == 0xFF && img[1] == 0xD8 {
		f.ImageDataType = 0
	} else {
		f.ImageDataType = 1
	}
	copy(f.Properties[:], RandBytes(r, 3))
	copy(f.Expression[:], []byte{0, byte(r.IntN(8))})
	copy(f.Pose[:], RandBytes(r, 3))
	copy(f.PoseUncertainty[:], RandBytes(r, 3))
	if chance(r, 40) {
		n := 1 + r.IntN(6)
		for i := 0; i < n; i++ {
			f.Features = append(f.Features, FeaturePoint{Type: 1, MajorPoint: uint8(1 + r.IntN(12)), MinorPoint: uint8(1 + r.IntN(12)), X: uint16(r.IntN(1000)), Y: uint16(r.IntN(1000))})
		}
	}
	return f
}

// Build39794 serialises the value of tag 7F2E: A1 { 65 { A0 versionBlock, A1 representationBlocks } }
// following the ICAO 39794-5 application profile (automatic tags: context-specific,
// implicit, CHOICE alternatives explicit).
func Build39794(f *Face39794) []byte {
	versionBlock := TLV(0xA0, CtxInt(0, int64(f.Generation)), CtxInt(1, int64(f.Year)))
	// imageInformation2DBlock: imageDataFormat [0] CHOICE{code [0] ENUMERATED}
	info := TLV(0xA0, CtxInt(0, int64(f.ImageDataFormat)))
	if f.CameraDistance != nil {
		info = append(info, CtxInt(4, int64(*f.CameraDistance))...)
	}
	if f.SensorDiagonal != nil {
		info = append(info, CtxInt(5, int64(*f.SensorDiagonal))...)
	}
	if f.LensFocalLength != nil {
		info = append(info, CtxInt(6, int64(*f.LensFocalLength))...)
	}
	if f.ImageWidth != nil && f.ImageHeight != nil {
		info = append(info, TLV(0xA7, CtxInt(0, int64(*f.ImageWidth)), CtxInt(1, int64(*f.ImageHeight)))...)
	}
	block2D := Cat(TLV(0x80, f.Image), TLV(0xA1, info))
	// imageRepresentation [1] CHOICE{ base [0] CHOICE{ imageRepresentation2DBlock [0] SEQUENCE } }
	imageRepresentation := TLV(0xA1, TLV(0xA0, TLV(0xA0, block2D)))
	rep := Cat(CtxInt(0, int64(f.RepresentationID)), imageRepresentation)
	if f.CaptureYear != nil {
		dt := CtxInt(0, int64(*f.CaptureYear))
		if f.CaptureMonth != nil {
			dt = append(dt, CtxInt(1, int64(*f.CaptureMonth))...)
			if f.CaptureDay != nil {
				dt = append(dt, CtxInt(2, int64(*f.CaptureDay))...)
			}
		}
		rep = append(rep, TLV(0xA2, dt)...)
	}
	if f.SessionID != nil {
		rep = append(rep, CtxInt(5, int64(*f.SessionID))...)
	}
	if f.DerivedFrom != nil {
		rep = append(rep, CtxInt(6, int64(*f.DerivedFrom))...)
	}
	representationBlocks := TLV(0xA1, DERSeq(rep))
	return TLV(0xA1, TLV(0x65, versionBlock, representationBlocks))
}

func randFace39794(r *rand.Rand, img []byte) *Face39794 {
	f := &Face39794{Generation: 3, Year: 2019, RepresentationID: r.IntN(4), Image: img}
	if len(img) >= 2 && img[0] == 0xFF && img[1] == 0xD8 {
		f.ImageDataFormat = 2
	} else {
		f.ImageDataFormat = 3 + r.IntN(2)
	}
	ip := func(v int) *int { return &v }
	if chance(r, 50) {
		f.CaptureYear = ip(2000 + r.IntN(30))
		if chance(r, 70) {
			f.CaptureMonth = ip(1 + r.IntN(12))
			if chance(r, 70) {
				f.CaptureDay = ip(1 + r.IntN(28))
			}
		}
	}
	if chance(r, 30) {
		f.SessionID = ip(r.IntN(70000))
	}
	if chance(r, 30) {
		f.DerivedFrom = ip(r.IntN(300))
	}
	if chance(r, 30) {
		f.CameraDistance = ip(r.IntN(50001))
	}
	if chance(r, 30) {
		f.SensorDiagonal = ip(r.IntN(2001))
	}
	if chance(r, 30) {
		f.LensFocalLength = ip(r.IntN(2001))
	}
	if chance(r, 50) {
		f.ImageWidth, f.ImageHeight = ip(r.IntN(65536)), ip(r.IntN(65536))
	}
	return f
}

// NewDG2 builds EF.DG2:
//
//	75 { 7F61 { 02 01 n, 7F60 { A1 {BHT}, 5F2E facial record | 7F2E {39794-5} } x n } }
func NewDG2(r *rand.Rand, o DG2Opts) ([]byte, DG2View) {
	nT := o.Templates
	if o.Images != nil {
		nT = len(o.Images)
	}
	if nT == 0 {
		nT = 1 + r.IntN(4)
	}
	if nT < 1 || nT > 9 {
		panic("ldsgen: DG2 needs 1..9 templates")
	}
	var v DG2View
	// first draw all logical content, then serialise (so that size fitting only re-serialises)
	for t := 0; t < nT; t++ {
		enc := o.Encoding
		if enc == EncodingAny {
			enc = pick(r, []BioEncoding{ISO19794, ISO19794, ISO39794})
		}
		var imgs [][]byte
		if o.Images != nil {
			imgs = o.Images[t]
		} else {
			nI := 1
			if enc == ISO19794 {
				nI = o.ImagesPerTemplate
				if nI == 0 {
					nI = 1 + r.IntN(2)
				}
			}
			for i := 0; i < nI; i++ {
				sz := o.ImageBytes
				if sz == 0 {
					sz = MinImageSize + r.IntN(577)
				}
				imgs = append(imgs, RandImage(r, o.ImageKind, sz))
			}
		}
		tv := TemplateView{Encoding: enc}
		tv.BHT = randBHT(r, enc, o.FullHeader)
		if enc == ISO19794 {
			for _, im := range imgs {
				tv.Faces = append(tv.Faces, randFace19794(r, im))
			}
		} else {
			if len(imgs) != 1 {
				panic("ldsgen: an ISO 39794-5 template holds exactly one image")
			}
			tv.Face39794 = randFace39794(r, imgs[0])
		}
		v.Templates = append(v.Templates, tv)
	}
	baseLast := lastImage(&v)
	build := func(pad int) []byte {
		if pad > 0 {
			setLastImage(&v, padImage(baseLast, pad))
		} else {
			setLastImage(&v, baseLast)
		}
		var bits []byte
		for t := range v.Templates {
			tv := &v.Templates[t]
			bht := encodeBHT(tv.BHT)
			if tv.Encoding == ISO19794 {
				var rec []byte
				rec, tv.RecordLength = Build19794(tv.Faces)
				tv.NumberOfFaces = uint16(len(tv.Faces))
				bits = append(bits, TLV(0x7F60, bht, TLV(0x5F2E, rec))...)
			} else {
				bits = append(bits, TLV(0x7F60, bht, TLV(0x7F2E, Build39794(tv.Face39794)))...)
			}
		}
		return TLV(0x75, TLV(0x7F61, TLV(0x02, []byte{byte(len(v.Templates))}), bits))
	}
	if o.TotalSize > 0 {
		out, _, ok := FitSize(o.TotalSize, build)
		if !ok {
			panic("ldsgen: DG2 TotalSize not reachable")
		}
		return out, v
	}
	return build(0), v
}

func lastImage(v *DG2View) []byte {
	t := &v.Templates[len(v.Templates)-1]
	if t.Encoding == ISO19794 {
		return t.Faces[len(t.Faces)-1].Image
	}
	return t.Face39794.Image
}

func setLastImage(v *DG2View, img []byte) {
	t := &v.Templates[len(v.Templates)-1]
	if t.Encoding == ISO19794 {
		t.Faces[len(t.Faces)-1].Image = img
	} else {
		t.Face39794.Image = img
	}
}

// padImage appends pad filler bytes to an image (kept before a trailing EOI marker).
func padImage(img []byte, pad int) []byte {
	out := make([]byte, 0, len(img)+pad)
	n := len(img)
	if n >= 2 && img[n-2] == 0xFF && img[n-1] == 0xD9 {
		out = append(out, img[:n-2]...)
		out = append(out, make([]byte, pad)...)
		return append(out, 0xFF, 0xD9)
	}
	out = append(out, img...)
	return append(out, make([]byte, pad)...)
}

func encodeBHT(v BHTView) []byte {
	var body []byte
	add := func(tag uint32, val []byte) {
		if val != nil {
			body = append(body, TLV(tag, val)...)
		}
	}
	add(0x80, v.ICAOHeaderVersion)
	add(0x81, v.BiometricType)
	add(0x82, v.BiometricSubType)
	add(0x83, v.CreationDateTime)
	add(0x85, v.ValidityPeriod)
	add(0x86, v.PID)
	add(0x87, v.FormatOwner)
	add(0x88, v.FormatType)
	return TLV(0xA1, body)
}

// ---------------------------------------------------------------------------------------
// DG7

// DG7Opts steers NewDG7.
type DG7Opts struct {
	Images     int // 1..9 (0: random, mostly 1..3)
	ImageBytes int // 0: random 24..400
	ImageKind  ImageKind
	TotalSize  int // pad the last image to reach exactly this file size
}

// DG7View is what a reader of the DG7 bytes must see.
type DG7View struct {
	Images [][]byte
}

// NewDG7 builds EF.DG7: 67 { 02 01 n, 5F43 image x n }.
func NewDG7(r *rand.Rand, o DG7Opts) ([]byte, DG7View) {
	n := o.Images
	if n == 0 {
		n = 1 + r.IntN(3)
		if chance(r, 10) {
			n = 1 + r.IntN(9)
		}
	}
	if n < 1 || n > 9 {
		panic("ldsgen: DG7 needs 1..9 images")
	}
	var v DG7View
	for i := 0; i < n; i++ {
		sz := o.ImageBytes
		if sz == 0 {
			sz = MinImageSize + r.IntN(377)
		}
		v.Images = append(v.Images, RandImage(r, o.ImageKind, sz))
	}
	lastBase := v.Images[n-1]
	build := func(pad int) []byte {
		v.Images[n-1] = lastBase
		if pad > 0 {
			v.Images[n-1] = padImage(lastBase, pad)
		}
		body := TLV(0x02, []byte{byte(n)})
		for _, im := range v.Images {
			body = append(body, TLV(0x5F43, im)...)
		}
		return TLV(0x67, body)
	}
	if o.TotalSize > 0 {
		out, _, ok := FitSize(o.TotalSize, build)
		if !ok {
			panic("ldsgen: DG7 TotalSize not reachable")
		}
		return out, v
	}
	return build(0), v
}
