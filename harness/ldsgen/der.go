// Package ldsgen is an independent, PRNG-driven generator of ICAO Doc 9303-10 LDS files
// (EF.COM, EF.SOD, DG1, DG2, DG7, DG11..DG16, EF.CardAccess, EF.CardSecurity).
//
// Every generator returns (fileBytes, expectedView): the expected view is what was put
// into the file, so it is a constructive, library-independent reading of the bytes.
// The package uses the standard library only and never imports a gmrtd package; all
// BER/DER is written by hand (see TLV, OID, Int).
//
// Determinism: all randomness comes from the *rand.Rand handed in (math/rand/v2); no
// global state, no clock, no crypto/rand.
package ldsgen

import (
	"math/big"
	"math/rand/v2"
)

// ---------------------------------------------------------------------------------------
// BER-TLV / DER building blocks

// EncTag encodes a tag given in its "hex as written in Doc 9303" form (0x61, 0x5F1F, 0x7F61).
func EncTag(tag uint32) []byte {
	switch {
	case tag > 0xFFFFFF:
		return []byte{byte(tag >> 24), byte(tag >> 16), byte(tag >> 8), byte(tag)}
	case tag > 0xFFFF:
		return []byte{byte(tag >> 16), byte(tag >> 8), byte(tag)}
	case tag > 0xFF:
		return []byte{byte(tag >> 8), byte(tag)}
	}
	return []byte{byte(tag)}
}

// EncLen encodes a definite length in the minimal (DER) form.
func EncLen(n int) []byte {
	switch {
	case n < 0x80:
		return []byte{byte(n)}
	case n <= 0xFF:
		return []byte{0x81, byte(n)}
	case n <= 0xFFFF:
		return []byte{0x82, byte(n >> 8), byte(n)}
	case n <= 0xFFFFFF:
		return []byte{0x83, byte(n >> 16), byte(n >> 8), byte(n)}
	}
	return []byte{0x84, byte(n >> 24), byte(n >> 16), byte(n >> 8), byte(n)}
}

// TLV returns tag || minimal length || concatenation of the parts.
func TLV(tag uint32, parts ...[]byte) []byte {
	n := 0
	for _, p := range parts {
		n += len(p)
	}
	out := make([]byte, 0, n+8)
	out = append(out, EncTag(tag)...)
	out = append(out, EncLen(n)...)
	for _, p := range parts {
		out = append(out, p...)
	}
	return out
}

// Cat concatenates byte strings into a fresh slice.
func Cat(parts ...[]byte) []byte {
	var out []byte
	for _, p := range parts {
		out = append(out, p...)
	}
	return out
}

// OID is an object identifier as a list of arcs.
type OID []int

func (o OID) Equal(p OID) bool {
	if len(o) != len(p) {
		return false
	}
	for i := range o {
		if o[i] != p[i] {
			return false
		}
	}
	return true
}

// String gives the dotted notation ("2.23.136.1.1.1").
func (o OID) String() string {
	s := ""
	for i, a := range o {
		if i > 0 {
			s += "."
		}
		s += itoa(a)
	}
	return s
}

func itoa(v int) string {
	if v == 0 {
		return "0"
	}
	neg := v < 0
	if neg {
		v = -v
	}
	var b [24]byte
	i := len(b)
	for v > 0 {
		i--
		b[i] = byte('0' + v%10)
		v /= 10
	}
	if neg {
		i--
		b[i] = '-'
	}
	return string(b[i:])
}

func base128(v int) []byte {
	if v == 0 {
		return []byte{0}
	}
	var tmp []byte
	for v > 0 {
		tmp = append([]byte{byte(v & 0x7f)}, tmp...)
		v >>= 7
	}
	for i := 0; i < len(tmp)-1; i++ {
		tmp[i] |= 0x80
	}
	return tmp
}

// DEROID encodes OBJECT IDENTIFIER (tag 06).
func DEROID(o OID) []byte {
	if len(o) < 2 {
		panic("ldsgen: OID needs two arcs")
	}
	body := base128(o[0]*40 + o[1])
	for _, a := range o[2:] {
		body = append(body, base128(a)...)
	}
	return TLV(0x06, body)
}

// intBody is the minimal two's complement content of an INTEGER (non-negative input).
func intBody(v *big.Int) []byte {
	if v.Sign() < 0 {
		panic("ldsgen: negative INTEGER not supported")
	}
	b := v.Bytes()
	if len(b) == 0 {
		return []byte{0}
	}
	if b[0]&0x80 != 0 {
		b = append([]byte{0}, b...)
	}
	return b
}

// DERInt encodes a non-negative INTEGER (tag 02).
func DERInt(v int64) []byte { return TLV(0x02, intBody(big.NewInt(v))) }

// DERBigInt encodes a non-negative INTEGER (tag 02).
func DERBigInt(v *big.Int) []byte { return TLV(0x02, intBody(v)) }

// CtxInt encodes an IMPLICIT [n] INTEGER / ENUMERATED (context class, primitive).
func CtxInt(n int, v int64) []byte { return TLV(uint32(0x80+n), intBody(big.NewInt(v))) }

func DERSeq(parts ...[]byte) []byte      { return TLV(0x30, parts...) }
func DERSet(parts ...[]byte) []byte      { return TLV(0x31, parts...) }
func DEROctets(b []byte) []byte          { return TLV(0x04, b) }
func DERNull() []byte                    { return []byte{0x05, 0x00} }
func DERPrintable(s string) []byte       { return TLV(0x13, []byte(s)) }
func DERUTF8(s string) []byte            { return TLV(0x0C, []byte(s)) }
func DERBitString(b []byte) []byte       { return TLV(0x03, []byte{0}, b) }
func DERExplicit(n int, b []byte) []byte { return TLV(uint32(0xA0+n), b) }

// ---------------------------------------------------------------------------------------
// size fitting

// FitSize searches the padding amount for which build(pad) has exactly target bytes.
// build must be monotone in pad (one more byte of padding never shrinks the output).
// ok=false when the size is unreachable (length-of-length jumps skip one or two sizes).
func FitSize(target int, build func(pad int) []byte) (out []byte, pad int, ok bool) {
	pad = 0
	for iter := 0; iter < 24; iter++ {
		out = build(pad)
		d := target - len(out)
		if d == 0 {
			return out, pad, true
		}
		pad += d
		if pad < 0 {
			return nil, 0, false
		}
	}
	return nil, 0, false
}

// ---------------------------------------------------------------------------------------
// random helpers

const upperAZ = "ABCDEFGHIJKLMNOPQRSTUVWXYZ"
const digits = "0123456789"
const alnum = upperAZ + digits

func randFrom(r *rand.Rand, alphabet string, n int) string {
	b := make([]byte, n)
	for i := range b {
		b[i] = alphabet[r.IntN(len(alphabet))]
	}
	return string(b)
}

// RandBytes fills n bytes from the PRNG.
func RandBytes(r *rand.Rand, n int) []byte {
	b := make([]byte, n)
	i := 0
	for ; i+8 <= n; i += 8 {
		v := r.Uint64()
		b[i], b[i+1], b[i+2], b[i+3] = byte(v), byte(v>>8), byte(v>>16), byte(v>>24)
		b[i+4], b[i+5], b[i+6], b[i+7] = byte(v>>32), byte(v>>40), byte(v>>48), byte(v>>56)
	}
	for ; i < n; i++ {
		b[i] = byte(r.Uint32())
	}
	return b
}

func chance(r *rand.Rand, percent int) bool { return r.IntN(100) < percent }

func pick[T any](r *rand.Rand, xs []T) T { return xs[r.IntN(len(xs))] }

// ImageKind selects the magic bytes of a generated image.
type ImageKind int

const (
	ImageAny  ImageKind = iota // random choice
	ImageJPEG                  // FF D8 FF E0 .. JFIF .. FF D9
	ImageJP2                   // JPEG 2000 file format (signature box)
	ImageJ2K                   // JPEG 2000 raw codestream FF 4F FF 51
)

// RandImage returns size bytes that start with the magic of a JPEG / JPEG 2000 image and
// continue with random payload. size is raised to the minimum that holds the header.
func RandImage(r *rand.Rand, kind ImageKind, size int) []byte {
	if kind == ImageAny {
		kind = ImageKind(1 + r.IntN(3))
	}
	var head, tail []byte
	switch kind {
	case ImageJPEG:
		head = []byte{0xFF, 0xD8, 0xFF, 0xE0, 0x00, 0x10, 'J', 'F', 'I', 'F', 0x00, 0x01, 0x01, 0x00, 0x00, 0x01, 0x00, 0x01, 0x00, 0x00}
		tail = []byte{0xFF, 0xD9}
	case ImageJP2:
		head = []byte{0x00, 0x00, 0x00, 0x0C, 0x6A, 0x50, 0x20, 0x20, 0x0D, 0x0A, 0x87, 0x0A, 0x00, 0x00, 0x00, 0x14, 'f', 't', 'y', 'p', 'j', 'p', '2', ' '}
	default:
		head = []byte{0xFF, 0x4F, 0xFF, 0x51, 0x00, 0x2F, 0x00, 0x00}
		tail = []byte{0xFF, 0xD9}
	}
	if size < len(head)+len(tail) {
		size = len(head) + len(tail)
	}
	out := make([]byte, 0, size)
	out = append(out, head...)
	out = append(out, RandBytes(r, size-len(head)-len(tail))...)
	out = append(out, tail...)
	return out
}

// MinImageSize is the smallest size RandImage honours exactly for every kind.
const MinImageSize = 24
