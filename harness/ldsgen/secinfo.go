package ldsgen

import (
	"bytes"
	"crypto/elliptic"
	"math/big"
	"math/rand/v2"
	"sort"
)

// Object identifiers of Doc 9303-11 / BSI TR-03110.
var (
	OIDBsiDe            = OID{0, 4, 0, 127, 0, 7}
	OIDPKDH             = OID{0, 4, 0, 127, 0, 7, 2, 2, 1, 1}
	OIDPKECDH           = OID{0, 4, 0, 127, 0, 7, 2, 2, 1, 2}
	OIDTA               = OID{0, 4, 0, 127, 0, 7, 2, 2, 2}
	OIDCADH             = OID{0, 4, 0, 127, 0, 7, 2, 2, 3, 1}
	OIDCAECDH           = OID{0, 4, 0, 127, 0, 7, 2, 2, 3, 2}
	OIDPACE             = OID{0, 4, 0, 127, 0, 7, 2, 2, 4}
	OIDAAProtocol       = OID{2, 23, 136, 1, 1, 5}
	OIDSecurityObject   = OID{0, 4, 0, 127, 0, 7, 3, 2, 1} // id-SecurityObject (CardSecurity eContentType)
	OIDLDSSecObject     = OID{2, 23, 136, 1, 1, 1}         // id-icao-mrtd-security-ldsSecurityObject
	OIDSignedData       = OID{1, 2, 840, 113549, 1, 7, 2}
	OIDContentType      = OID{1, 2, 840, 113549, 1, 9, 3}
	OIDMessageDigest    = OID{1, 2, 840, 113549, 1, 9, 4}
	OIDRSAEncryption    = OID{1, 2, 840, 113549, 1, 1, 1}
	OIDECPublicKey      = OID{1, 2, 840, 10045, 2, 1}
	OIDDHPublicNumber   = OID{1, 2, 840, 10046, 2, 1}
	OIDPrimeField       = OID{1, 2, 840, 10045, 1, 1}
	OIDSecp256r1        = OID{1, 2, 840, 10045, 3, 1, 7}
	OIDSecp384r1        = OID{1, 3, 132, 0, 34}
	OIDBrainpoolP256    = OID{1, 3, 36, 3, 3, 2, 8, 1, 1, 7}
	OIDSHA1             = OID{1, 3, 14, 3, 2, 26}
	OIDSHA224           = OID{2, 16, 840, 1, 101, 3, 4, 2, 4}
	OIDSHA256           = OID{2, 16, 840, 1, 101, 3, 4, 2, 1}
	OIDSHA384           = OID{2, 16, 840, 1, 101, 3, 4, 2, 2}
	OIDSHA512           = OID{2, 16, 840, 1, 101, 3, 4, 2, 3}
	OIDECDSAPlainSHA256 = OID{0, 4, 0, 127, 0, 7, 1, 1, 4, 1, 3}
	OIDECDSASHA256      = OID{1, 2, 840, 10045, 4, 3, 2}
	OIDSHA256RSA        = OID{1, 2, 840, 113549, 1, 1, 11}
)

// PACEOID returns id-PACE-{DH-GM(1),ECDH-GM(2),DH-IM(3),ECDH-IM(4),ECDH-CAM(6)}-{3DES(1),AES128(2),AES192(3),AES256(4)}.
func PACEOID(mapping, cipher int) OID { return append(append(OID{}, OIDPACE...), mapping, cipher) }

// CAOID returns id-CA-{DH(1),ECDH(2)}-{3DES(1),AES128(2),AES192(3),AES256(4)}.
func CAOID(agreement, cipher int) OID {
	return OID{0, 4, 0, 127, 0, 7, 2, 2, 3, agreement, cipher}
}

// SecInfoKind classifies a SecurityInfo by the rules of Doc 9303-11 section 9.2.
type SecInfoKind int

const (
	KindPACEInfo SecInfoKind = iota
	KindPACEDomainParameterInfo
	KindActiveAuthenticationInfo
	KindChipAuthenticationInfo
	KindChipAuthenticationPublicKeyInfo
	KindTerminalAuthenticationInfo
	KindUnknown
)

func (k SecInfoKind) String() string {
	return [...]string{"PACEInfo", "PACEDomainParameterInfo", "ActiveAuthenticationInfo", "ChipAuthenticationInfo", "ChipAuthenticationPublicKeyInfo", "TerminalAuthenticationInfo", "Unknown"}[k]
}

// SecInfo is one SecurityInfo: the logical content plus its DER encoding.
type SecInfo struct {
	Kind     SecInfoKind
	Protocol OID
	Version  int    // PACEInfo, ChipAuthenticationInfo, TerminalAuthenticationInfo, ActiveAuthenticationInfo
	ID       *int64 // parameterId / keyId (nil: absent)
	SigAlg   OID    // ActiveAuthenticationInfo.signatureAlgorithm
	// ChipAuthenticationPublicKeyInfo: the SubjectPublicKeyInfo and its parts
	SPKI         []byte
	SPKIAlg      OID
	SPKIParams   []byte // DER of AlgorithmIdentifier.parameters (nil: absent)
	SPKIKeyBytes []byte // content of the BIT STRING without the unused-bits octet
	// PACEDomainParameterInfo: AlgorithmIdentifier
	AlgID       []byte
	AlgIDOID    OID
	AlgIDParams []byte
	// DER is the complete SEQUENCE as it appears in the file.
	DER []byte
}

func optID(id *int64) []byte {
	if id == nil {
		return nil
	}
	return DERInt(*id)
}

// NewPACEInfo: SEQUENCE { protocol, version INTEGER (2), parameterId INTEGER OPTIONAL }.
func NewPACEInfo(protocol OID, version int, parameterID *int64) SecInfo {
	return SecInfo{Kind: KindPACEInfo, Protocol: protocol, Version: version, ID: parameterID,
		DER: DERSeq(DEROID(protocol), DERInt(int64(version)), optID(parameterID))}
}

// NewChipAuthInfo: SEQUENCE { protocol, version INTEGER (1|2), keyId INTEGER OPTIONAL }.
func NewChipAuthInfo(protocol OID, version int, keyID *int64) SecInfo {
	return SecInfo{Kind: KindChipAuthenticationInfo, Protocol: protocol, Version: version, ID: keyID,
		DER: DERSeq(DEROID(protocol), DERInt(int64(version)), optID(keyID))}
}

// NewChipAuthPublicKeyInfo: SEQUENCE { protocol (id-PK-DH|id-PK-ECDH), SubjectPublicKeyInfo, keyId OPTIONAL }.
// spki is a complete DER SubjectPublicKeyInfo (see RandECSPKI, RandDHSPKI or inject a real key).
func NewChipAuthPublicKeyInfo(protocol OID, spki []byte, keyID *int64) SecInfo {
	si := SecInfo{Kind: KindChipAuthenticationPublicKeyInfo, Protocol: protocol, ID: keyID, SPKI: spki,
		DER: DERSeq(DEROID(protocol), spki, optID(keyID))}
	si.SPKIAlg, si.SPKIParams, si.SPKIKeyBytes = SplitSPKI(spki)
	return si
}

// NewTerminalAuthInfo: SEQUENCE { protocol id-TA, version INTEGER (1) }.
func NewTerminalAuthInfo(version int) SecInfo {
	return SecInfo{Kind: KindTerminalAuthenticationInfo, Protocol: OIDTA, Version: version,
		DER: DERSeq(DEROID(OIDTA), DERInt(int64(version)))}
}

// NewActiveAuthInfo: SEQUENCE { protocol id-icao-mrtd-security-aaProtocolObject, version INTEGER (1), signatureAlgorithm OID }.
func NewActiveAuthInfo(sigAlg OID) SecInfo {
	return SecInfo{Kind: KindActiveAuthenticationInfo, Protocol: OIDAAProtocol, Version: 1, SigAlg: sigAlg,
		DER: DERSeq(DEROID(OIDAAProtocol), DERInt(1), DEROID(sigAlg))}
}

// NewPACEDomainParameterInfo: SEQUENCE { protocol (id-PACE-x without cipher), AlgorithmIdentifier, parameterId OPTIONAL }.
func NewPACEDomainParameterInfo(protocol OID, algOID OID, algParams []byte, parameterID *int64) SecInfo {
	alg := DERSeq(DEROID(algOID), algParams)
	return SecInfo{Kind: KindPACEDomainParameterInfo, Protocol: protocol, ID: parameterID, AlgID: alg, AlgIDOID: algOID, AlgIDParams: algParams,
		DER: DERSeq(DEROID(protocol), alg, optID(parameterID))}
}

// NewUnknownInfo: SEQUENCE { protocol, requiredData ANY, optionalData ANY OPTIONAL }.
func NewUnknownInfo(protocol OID, required, optional []byte) SecInfo {
	return SecInfo{Kind: KindUnknown, Protocol: protocol, DER: DERSeq(DEROID(protocol), required, optional)}
}

// SecInfosView is what a reader of a SecurityInfos SET must see: the infos in file order.
type SecInfosView struct {
	SetDER []byte // the SET OF SecurityInfo
	Infos  []SecInfo
}

// ByKind returns the infos of one kind in file order.
func (v SecInfosView) ByKind(k SecInfoKind) []SecInfo {
	var out []SecInfo
	for _, i := range v.Infos {
		if i.Kind == k {
			out = append(out, i)
		}
	}
	return out
}

// BuildSecurityInfos encodes SET OF SecurityInfo. sortDER orders the elements as DER
// requires; otherwise the given order is kept (common on real chips).
func BuildSecurityInfos(infos []SecInfo, sortDER bool) SecInfosView {
	list := append([]SecInfo{}, infos...)
	if sortDER {
		sort.SliceStable(list, func(i, j int) bool { return bytes.Compare(list[i].DER, list[j].DER) < 0 })
	}
	var body []byte
	for _, i := range list {
		body = append(body, i.DER...)
	}
	return SecInfosView{SetDER: DERSet(body), Infos: list}
}

// NewDG14 builds EF.DG14: 6E { SET OF SecurityInfo }.
func NewDG14(sortDER bool, infos ...SecInfo) ([]byte, SecInfosView) {
	v := BuildSecurityInfos(infos, sortDER)
	return TLV(0x6E, v.SetDER), v
}

// NewCardAccess builds EF.CardAccess: the bare SET OF SecurityInfo.
func NewCardAccess(sortDER bool, infos ...SecInfo) ([]byte, SecInfosView) {
	v := BuildSecurityInfos(infos, sortDER)
	return v.SetDER, v
}

// NewDG15 builds EF.DG15: 6F { SubjectPublicKeyInfo }.
func NewDG15(spkiDER []byte) []byte { return TLV(0x6F, spkiDER) }

// ---------------------------------------------------------------------------------------
// public keys (structurally valid; RSA/DH numbers are random, P-256 points are real)

// SplitSPKI takes a DER SubjectPublicKeyInfo apart (definite lengths only).
func SplitSPKI(spki []byte) (alg OID, params []byte, key []byte) {
	_, seq, _ := readTLV(spki)
	_, algID, rest := readTLV(seq)
	_, oidBody, p := readTLV(algID)
	alg = decodeOIDBody(oidBody)
	if len(p) > 0 {
		params = p
	}
	_, bits, _ := readTLV(rest)
	if len(bits) > 0 {
		key = bits[1:]
	}
	return
}

// readTLV reads one single-byte-tag DER element: tag, content, remainder.
func readTLV(b []byte) (tag byte, content, rest []byte) {
	if len(b) < 2 {
		panic("ldsgen: truncated DER")
	}
	tag = b[0]
	n := int(b[1])
	off := 2
	if n&0x80 != 0 {
		k := n & 0x7f
		n = 0
		for i := 0; i < k; i++ {
			n = n<<8 | int(b[2+i])
		}
		off = 2 + k
	}
	return tag, b[off : off+n], b[off+n:]
}

func decodeOIDBody(b []byte) OID {
	var out OID
	v := 0
	first := true
	for _, c := range b {
		v = v<<7 | int(c&0x7f)
		if c&0x80 == 0 {
			if first {
				a := v / 40
				if a > 2 {
					a = 2
				}
				out = append(out, a, v-40*a)
				first = false
			} else {
				out = append(out, v)
			}
			v = 0
		}
	}
	return out
}

func randOddBig(r *rand.Rand, bits int) *big.Int {
	b := RandBytes(r, (bits+7)/8)
	b[0] |= 0x80
	b[len(b)-1] |= 1
	return new(big.Int).SetBytes(b)
}

// RandRSASPKI: rsaEncryption SubjectPublicKeyInfo with a random odd modulus (NOT a real key).
func RandRSASPKI(r *rand.Rand, bits int) []byte {
	n := randOddBig(r, bits)
	return DERSeq(DERSeq(DEROID(OIDRSAEncryption), DERNull()), DERBitString(DERSeq(DERBigInt(n), DERInt(65537))))
}

// RandDHSPKI: dhpublicnumber SubjectPublicKeyInfo {p,g,q} with random numbers (NOT a real group).
func RandDHSPKI(r *rand.Rand, bits int) []byte {
	p, q, y := randOddBig(r, bits), randOddBig(r, 160), randOddBig(r, bits-1)
	return DERSeq(DERSeq(DEROID(OIDDHPublicNumber), DERSeq(DERBigInt(p), DERInt(2), DERBigInt(q))), DERBitString(DERBigInt(y)))
}

// ECParamsStyle selects how the curve is identified inside an EC SubjectPublicKeyInfo.
type ECParamsStyle int

const (
	ECNamed              ECParamsStyle = iota // namedCurve OID
	ECExplicit                                // ECParameters with cofactor
	ECExplicitNoCofactor                      // ECParameters without the optional cofactor
)

// RandECSPKI: id-ecPublicKey SubjectPublicKeyInfo on P-256 with a real point k*G
// (k from the PRNG), parameters named or explicit.
func RandECSPKI(r *rand.Rand, style ECParamsStyle) []byte {
	c := elliptic.P256()
	k := RandBytes(r, 32)
	k[0] &= 0x7f
	k[31] |= 1
	x, y := c.ScalarBaseMult(k) //nolint:staticcheck // deterministic from the PRNG on purpose
	pt := append([]byte{4}, append(x.FillBytes(make([]byte, 32)), y.FillBytes(make([]byte, 32))...)...)
	var params []byte
	if style == ECNamed {
		params = DEROID(OIDSecp256r1)
	} else {
		p := c.Params()
		a := new(big.Int).Sub(p.P, big.NewInt(3))
		g := append([]byte{4}, append(p.Gx.FillBytes(make([]byte, 32)), p.Gy.FillBytes(make([]byte, 32))...)...)
		parts := [][]byte{
			DERInt(1),
			DERSeq(DEROID(OIDPrimeField), DERBigInt(p.P)),
			DERSeq(DEROctets(a.FillBytes(make([]byte, 32))), DEROctets(p.B.FillBytes(make([]byte, 32)))),
			DEROctets(g),
			DERBigInt(p.N),
		}
		if style == ECExplicit {
			parts = append(parts, DERInt(1))
		}
		params = DERSeq(parts...)
	}
	return DERSeq(DERSeq(DEROID(OIDECPublicKey), params), DERBitString(pt))
}

// RandECSPKINamed: id-ecPublicKey with a named curve other than P-256; the point is
// random bytes of the right size (NOT necessarily on the curve).
func RandECSPKINamed(r *rand.Rand, curve OID, fieldBytes int) []byte {
	pt := append([]byte{4}, RandBytes(r, 2*fieldBytes)...)
	return DERSeq(DERSeq(DEROID(OIDECPublicKey), DEROID(curve)), DERBitString(pt))
}

// RandSPKI draws one of the SubjectPublicKeyInfo shapes above; ec selects EC vs RSA/DH.
func RandSPKI(r *rand.Rand, ec bool, dh bool) []byte {
	if ec {
		switch r.IntN(5) {
		case 0:
			return RandECSPKI(r, ECExplicit)
		case 1:
			return RandECSPKI(r, ECExplicitNoCofactor)
		case 2:
			return RandECSPKINamed(r, OIDBrainpoolP256, 32)
		case 3:
			return RandECSPKINamed(r, OIDSecp384r1, 48)
		}
		return RandECSPKI(r, ECNamed)
	}
	if dh {
		return RandDHSPKI(r, 1024)
	}
	return RandRSASPKI(r, 1024+512*r.IntN(3))
}

// SecInfoMix selects which kinds RandSecInfos may draw.
type SecInfoMix struct {
	PACE, PACEDomain, CA, CAKey, TA, AA, Unknown bool
	Max                                          int // maximum number of infos (0: 6)
}

// DG14Mix allows every kind (EF.DG14); CardAccessMix only PACE related infos.
var (
	DG14Mix       = SecInfoMix{PACE: true, PACEDomain: true, CA: true, CAKey: true, TA: true, AA: true, Unknown: true}
	CardAccessMix = SecInfoMix{PACE: true, PACEDomain: true, Unknown: true}
)

func optInt(r *rand.Rand, percent, n int) *int64 {
	if !chance(r, percent) {
		return nil
	}
	v := int64(r.IntN(n))
	return &v
}

// RandSecInfos draws 1..Max SecurityInfos of the allowed kinds (at least one).
func RandSecInfos(r *rand.Rand, m SecInfoMix) []SecInfo {
	var gens []func() SecInfo
	if m.PACE {
		gens = append(gens, func() SecInfo {
			mapping := pick(r, []int{1, 2, 3, 4, 6})
			cipher := 1 + r.IntN(4)
			if mapping == 6 && cipher == 1 {
				cipher = 2
			}
			// standardised domain parameters 0..2 (DH) / 8..18 (ECDH)
			var id *int64
			if chance(r, 85) {
				v := int64(8 + r.IntN(11))
				if mapping == 1 || mapping == 3 {
					v = int64(r.IntN(3))
				}
				id = &v
			}
			return NewPACEInfo(PACEOID(mapping, cipher), 2, id)
		})
	}
	if m.PACEDomain {
		gens = append(gens, func() SecInfo {
			mapping := pick(r, []int{2, 4, 6})
			_, spkiContent, _ := readTLV(RandECSPKI(r, ECExplicit))
			_, algIDContent, _ := readTLV(spkiContent)
			_, rest := splitFirst(algIDContent) // the explicit ECParameters
			return NewPACEDomainParameterInfo(append(append(OID{}, OIDPACE...), mapping), OIDECPublicKey, rest, optInt(r, 50, 32))
		})
	}
	if m.CA {
		gens = append(gens, func() SecInfo {
			return NewChipAuthInfo(CAOID(1+r.IntN(2), 1+r.IntN(4)), 1+r.IntN(2), optInt(r, 50, 100000))
		})
	}
	if m.CAKey {
		gens = append(gens, func() SecInfo {
			if chance(r, 75) {
				return NewChipAuthPublicKeyInfo(OIDPKECDH, RandSPKI(r, true, false), optInt(r, 50, 100000))
			}
			return NewChipAuthPublicKeyInfo(OIDPKDH, RandSPKI(r, false, true), optInt(r, 50, 100000))
		})
	}
	if m.TA {
		gens = append(gens, func() SecInfo { return NewTerminalAuthInfo(1) })
	}
	if m.AA {
		gens = append(gens, func() SecInfo {
			return NewActiveAuthInfo(pick(r, []OID{OIDECDSAPlainSHA256, {0, 4, 0, 127, 0, 7, 1, 1, 4, 1, 4}, {0, 4, 0, 127, 0, 7, 1, 1, 4, 1, 5}}))
		})
	}
	if m.Unknown {
		gens = append(gens, func() SecInfo {
			o := OID{1, 3, 6, 1, 4, 1, 99999, 1 + r.IntN(300), r.IntN(20000)}
			var req, opt []byte
			switch r.IntN(4) {
			case 0:
				req = DERInt(int64(r.IntN(1000)))
			case 1:
				req = DEROctets(RandBytes(r, r.IntN(24)))
			case 2:
				req = DERSeq(DERInt(int64(r.IntN(5))), DERPrintable(randFrom(r, upperAZ, 1+r.IntN(8))))
			default:
				req = DEROID(OID{1, 2, 3, r.IntN(500)})
			}
			if chance(r, 40) {
				opt = DERInt(int64(r.IntN(70000)))
			}
			return NewUnknownInfo(o, req, opt)
		})
	}
	if len(gens) == 0 {
		panic("ldsgen: empty SecInfoMix")
	}
	max := m.Max
	if max == 0 {
		max = 6
	}
	n := 1 + r.IntN(max)
	out := make([]SecInfo, n)
	for i := range out {
		out[i] = gens[r.IntN(len(gens))]()
	}
	return out
}

// splitFirst splits the content of a SEQUENCE into its first element and the rest.
func splitFirst(content []byte) (first, rest []byte) {
	_, _, rest = readTLV(content)
	return content[:len(content)-len(rest)], rest
}
