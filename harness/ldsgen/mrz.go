package ldsgen

import (
	"fmt"
	"math/rand/v2"
	"strings"
)

// Layout is the MRZ format carried in DG1.
type Layout int

const (
	TD3 Layout = 3 // 2 x 44, passport booklet
	TD2 Layout = 2 // 2 x 36
	TD1 Layout = 1 // 3 x 30, card
	// LayoutAny lets the generator choose.
	LayoutAny Layout = 0
)

func (l Layout) String() string { return fmt.Sprintf("TD%d", int(l)) }

// Name is a holder name in decoded form: the components of an identifier are separated
// by one space ("VAN DER BERG"); Secondary is empty when there is no secondary identifier.
type Name struct {
	Primary   string
	Secondary string
}

// Encode gives the Doc 9303 form PRIMARY<<SECONDARY with '<' between components.
func (n Name) Encode() string {
	s := strings.ReplaceAll(n.Primary, " ", "<")
	if n.Secondary != "" {
		s += "<<" + strings.ReplaceAll(n.Secondary, " ", "<")
	}
	return s
}

// MRZFields holds the logical content of an MRZ. Values are in decoded form (a space
// where the MRZ has a filler inside a value, no trailing fillers); a literal '<' is
// also accepted and means the same. It doubles as the expected view of DG1.
type MRZFields struct {
	Layout         Layout
	DocumentCode   string // "P", "PM", "ID", ...
	IssuingState   string // "UTO", "D", ...
	Name           Name
	DocumentNumber string // more than 9 characters selects the extended form (TD1/TD2 only)
	Nationality    string
	DateOfBirth    string // YYMMDD; unknown parts as '<' ("74<<<<")
	Sex            string // "M", "F" or "" (unspecified, encoded '<')
	DateOfExpiry   string // YYMMDD
	OptionalData   string
	OptionalData2  string // TD1 only
	// OptionalCDFiller: TD3 only - with empty optional data the optional-data check digit
	// is written as '<' (both '<' and '0' are allowed by Doc 9303-4).
	OptionalCDFiller bool
}

// CheckDigit computes the 7-3-1 check digit of Doc 9303-3 over s.
func CheckDigit(s string) byte {
	w := [3]int{7, 3, 1}
	sum := 0
	for i := 0; i < len(s); i++ {
		c := s[i]
		v := 0
		switch {
		case c >= '0' && c <= '9':
			v = int(c - '0')
		case c >= 'A' && c <= 'Z':
			v = int(c-'A') + 10
		case c == '<':
			v = 0
		default:
			panic(fmt.Sprintf("ldsgen: character %q not allowed in a check-digit field", c))
		}
		sum += v * w[i%3]
	}
	return byte('0' + sum%10)
}

func mrzPad(s string, width int) (string, error) {
	s = strings.ReplaceAll(s, " ", "<")
	if len(s) > width {
		return "", fmt.Errorf("ldsgen: value %q longer than field width %d", s, width)
	}
	return s + strings.Repeat("<", width-len(s)), nil
}

// NameWidth is the width of the name field of the layout.
func NameWidth(l Layout) int {
	switch l {
	case TD1:
		return 30
	case TD2:
		return 31
	}
	return 39
}

// Encode renders the machine readable zone (88, 72 or 90 characters, no line breaks)
// with all check digits.
func (f MRZFields) Encode() (string, error) {
	var err error
	get := func(s string, w int) string {
		var out string
		if err == nil {
			out, err = mrzPad(s, w)
		}
		return out
	}
	code := get(f.DocumentCode, 2)
	state := get(f.IssuingState, 3)
	nat := get(f.Nationality, 3)
	dob := get(f.DateOfBirth, 6)
	exp := get(f.DateOfExpiry, 6)
	sex := get(f.Sex, 1)
	name := get(f.Name.Encode(), NameWidth(f.Layout))
	if err != nil {
		return "", err
	}
	if len(dob) != 6 || len(exp) != 6 {
		return "", fmt.Errorf("ldsgen: dates must have 6 characters")
	}
	dn := strings.ReplaceAll(f.DocumentNumber, " ", "<")
	// document number field, its check digit position and the optional-data field
	docField := func(optWidth int) (num9, cd, opt string, e error) {
		if len(dn) <= 9 {
			num9, _ = mrzPad(dn, 9)
			cd = string(CheckDigit(num9))
			opt, e = mrzPad(f.OptionalData, optWidth)
			return
		}
		if strings.Contains(dn, "<") {
			return "", "", "", fmt.Errorf("ldsgen: extended document number must not contain fillers")
		}
		num9 = dn[:9]
		cd = "<"
		rest := dn[9:]
		opt, e = mrzPad(rest+string(CheckDigit(dn))+"<"+f.OptionalData, optWidth)
		return
	}
	switch f.Layout {
	case TD3:
		if len(dn) > 9 {
			return "", fmt.Errorf("ldsgen: TD3 has no extended document number")
		}
		num9, cd, opt, e := docField(14)
		if e != nil {
			return "", e
		}
		optCD := string(CheckDigit(opt))
		if f.OptionalCDFiller && strings.Trim(opt, "<") == "" {
			optCD = "<"
		}
		l2 := num9 + cd + nat + dob + string(CheckDigit(dob)) + sex + exp + string(CheckDigit(exp)) + opt + optCD
		comp := CheckDigit(l2[0:10] + l2[13:20] + l2[21:43])
		return code + state + name + l2 + string(comp), nil
	case TD2:
		num9, cd, opt, e := docField(7)
		if e != nil {
			return "", e
		}
		l2 := num9 + cd + nat + dob + string(CheckDigit(dob)) + sex + exp + string(CheckDigit(exp)) + opt
		comp := CheckDigit(l2[0:10] + l2[13:20] + l2[21:35])
		return code + state + name + l2 + string(comp), nil
	case TD1:
		num9, cd, opt, e := docField(15)
		if e != nil {
			return "", e
		}
		opt2, e := mrzPad(f.OptionalData2, 11)
		if e != nil {
			return "", e
		}
		l1 := code + state + num9 + cd + opt
		l2 := dob + string(CheckDigit(dob)) + sex + exp + string(CheckDigit(exp)) + nat + opt2
		comp := CheckDigit(l1[5:30] + l2[0:7] + l2[8:15] + l2[18:29])
		return l1 + l2 + string(comp) + name, nil
	}
	return "", fmt.Errorf("ldsgen: unknown layout %d", f.Layout)
}

// ---------------------------------------------------------------------------------------
// random MRZ content

// MRZOpts steers RandMRZ. The zero value means "choose everything at random".
type MRZOpts struct {
	Layout Layout
	// Extended: 0 random (TD1/TD2 only), 1 never, 2 always (ignored for TD3).
	Extended int
	// Name forces the holder name (must fit the layout's name field).
	Name *Name
	// Plain restricts the generator to the everyday shape: full dates, no fillers inside
	// values, sex M/F, 9-character document number.
	Plain bool
}

var stateCodes = []string{"UTO", "D", "GBR", "USA", "FRA", "NLD", "NZL", "SGP", "CHN", "MYS", "BLR", "UNO", "XXA", "XXB", "GBD", "RKS", "EUE", "UNK", "CHE", "AUS"}
var docCodesTD3 = []string{"P", "PM", "PD", "PS", "PT", "PO", "PP"}
var docCodesCard = []string{"I", "ID", "IP", "A", "AC", "C", "CR", "IR", "P"}

// RandNameComponents builds an identifier of n components from A-Z.
func randIdentifier(r *rand.Rand, comps, maxLen int) string {
	parts := make([]string, comps)
	for i := range parts {
		parts[i] = randFrom(r, upperAZ, 1+r.IntN(maxLen))
	}
	return strings.Join(parts, " ")
}

// RandName returns a random name whose encoded form fits width characters (width <= 0:
// no limit). With exact=true the encoded name fills the field completely.
func RandName(r *rand.Rand, width int, exact bool) Name {
	n := Name{Primary: randIdentifier(r, 1+r.IntN(3), 9)}
	if !chance(r, 10) {
		n.Secondary = randIdentifier(r, 1+r.IntN(3), 8)
	}
	if width <= 0 {
		return n
	}
	for len(n.Encode()) > width {
		// shorten the longer identifier by one character, never leaving a trailing space
		if len(n.Secondary) > len(n.Primary) || len(n.Primary) <= 1 {
			n.Secondary = strings.TrimRight(n.Secondary[:len(n.Secondary)-1], " ")
		} else {
			n.Primary = strings.TrimRight(n.Primary[:len(n.Primary)-1], " ")
		}
	}
	if exact {
		for len(n.Encode()) < width {
			if n.Secondary != "" {
				n.Secondary += randFrom(r, upperAZ, 1)
			} else {
				n.Primary += randFrom(r, upperAZ, 1)
			}
		}
	}
	return n
}

func randDate6(r *rand.Rand) string {
	return fmt.Sprintf("%02d%02d%02d", r.IntN(100), 1+r.IntN(12), 1+r.IntN(28))
}

// RandMRZ draws the logical MRZ content.
func RandMRZ(r *rand.Rand, o MRZOpts) MRZFields {
	f := MRZFields{Layout: o.Layout}
	if f.Layout == LayoutAny {
		f.Layout = pick(r, []Layout{TD3, TD3, TD2, TD1})
	}
	if f.Layout == TD3 {
		f.DocumentCode = pick(r, docCodesTD3)
	} else {
		f.DocumentCode = pick(r, docCodesCard)
	}
	f.IssuingState = pick(r, stateCodes)
	f.Nationality = pick(r, stateCodes)
	if o.Name != nil {
		f.Name = *o.Name
	} else {
		f.Name = RandName(r, NameWidth(f.Layout), !o.Plain && chance(r, 15))
	}
	f.DateOfBirth = randDate6(r)
	f.DateOfExpiry = randDate6(r)
	f.Sex = pick(r, []string{"M", "F"})
	f.DocumentNumber = randFrom(r, alnum, 9)
	if !o.Plain {
		switch r.IntN(12) {
		case 0:
			f.DateOfBirth = f.DateOfBirth[:2] + "<<<<" // unknown month and day
		case 1:
			f.DateOfBirth = f.DateOfBirth[:4] + "<<" // unknown day
		case 2:
			f.DateOfBirth = "<<<<<<"
		}
		if chance(r, 15) {
			f.Sex = ""
		}
		switch r.IntN(8) {
		case 0:
			f.DocumentNumber = randFrom(r, alnum, 5+r.IntN(4)) // shorter than 9
		case 1: // a space/special character inside the number is written as a filler
			f.DocumentNumber = randFrom(r, alnum, 1+r.IntN(3)) + "<" + randFrom(r, alnum, 1+r.IntN(4))
		}
	}
	ext := false
	if f.Layout != TD3 {
		switch o.Extended {
		case 0:
			ext = !o.Plain && chance(r, 30)
		case 2:
			ext = true
		}
	}
	optWidth := map[Layout]int{TD3: 14, TD2: 7, TD1: 15}[f.Layout]
	if ext {
		maxRest := optWidth - 2 // remaining characters + check digit + filler must fit
		if maxRest > 13 {
			maxRest = 13
		}
		rest := 1 + r.IntN(maxRest)
		f.DocumentNumber = randFrom(r, alnum, 9+rest)
		optWidth -= rest + 2
	}
	randOpt := func(w int) string {
		if w <= 0 || chance(r, 30) {
			return ""
		}
		n := 1 + r.IntN(w)
		s := randFrom(r, alnum, n)
		if !o.Plain && n >= 3 && chance(r, 20) { // inner filler
			b := []byte(s)
			b[1+r.IntN(n-2)] = '<'
			s = string(b)
		}
		return s
	}
	f.OptionalData = randOpt(optWidth)
	if f.Layout == TD1 {
		f.OptionalData2 = randOpt(11)
	}
	if f.Layout == TD3 && f.OptionalData == "" {
		f.OptionalCDFiller = chance(r, 50)
	}
	return f
}

// ---------------------------------------------------------------------------------------
// DG1

// DG1Opts steers NewDG1.
type DG1Opts struct {
	MRZOpts
	// Fields, when set, is used instead of random content.
	Fields *MRZFields
}

// DG1View is what a reader of the DG1 bytes must see.
type DG1View struct {
	MRZ    string // the raw MRZ characters (tag 5F1F)
	Fields MRZFields
}

// NewDG1 builds EF.DG1: 61 L { 5F1F L mrz }.
func NewDG1(r *rand.Rand, o DG1Opts) ([]byte, DG1View) {
	var f MRZFields
	if o.Fields != nil {
		f = *o.Fields
	} else {
		f = RandMRZ(r, o.MRZOpts)
	}
	m, err := f.Encode()
	if err != nil {
		panic(err)
	}
	return TLV(0x61, TLV(0x5F1F, []byte(m))), DG1View{MRZ: m, Fields: f}
}
