package ldsgen

import (
	"crypto/sha1"
	"crypto/sha256"
	"crypto/sha512"
	"fmt"
	"math/rand/v2"
	"sort"
)

// DGTag maps a data group number (1..16) to its outer tag.
func DGTag(dg int) uint32 {
	tags := [...]uint32{0, 0x61, 0x75, 0x63, 0x76, 0x65, 0x66, 0x67, 0x68, 0x69, 0x6A, 0x6B, 0x6C, 0x6D, 0x6E, 0x6F, 0x70}
	if dg < 1 || dg > 16 {
		panic(fmt.Sprintf("ldsgen: no data group %d", dg))
	}
	return tags[dg]
}

// ---------------------------------------------------------------------------------------
// EF.COM

// COMView is what a reader of the EF.COM bytes must see.
type COMView struct {
	LDSVersion     string   // "0107"
	UnicodeVersion string   // "040000"
	TagList        []uint32 // outer tags of the data groups present
	DGNumbers      []int
}

// NewCOM builds EF.COM: 60 { 5F01 LDS version, 5F36 Unicode version, 5C tag list }.
// Empty version strings select "0107" / "040000".
func NewCOM(dgNumbers []int, ldsVersion, unicodeVersion string) ([]byte, COMView) {
	if ldsVersion == "" {
		ldsVersion = "0107"
	}
	if unicodeVersion == "" {
		unicodeVersion = "040000"
	}
	if len(ldsVersion) != 4 || len(unicodeVersion) != 6 {
		panic("ldsgen: LDS version is 4 and Unicode version 6 characters")
	}
	v := COMView{LDSVersion: ldsVersion, UnicodeVersion: unicodeVersion, DGNumbers: append([]int{}, dgNumbers...)}
	for _, n := range dgNumbers {
		v.TagList = append(v.TagList, DGTag(n))
	}
	return TLV(0x60, TLV(0x5F01, []byte(ldsVersion)), TLV(0x5F36, []byte(unicodeVersion)), encTagList(v.TagList)), v
}

// RandCOM draws a version pair and a set of data groups (DG1 and DG2 always present).
func RandCOM(r *rand.Rand) ([]byte, COMView) {
	dgs := []int{1, 2}
	for n := 3; n <= 16; n++ {
		if chance(r, 30) {
			dgs = append(dgs, n)
		}
	}
	lds := pick(r, []string{"0107", "0108", "0106"})
	uni := pick(r, []string{"040000", "050000", "060000"})
	return NewCOM(dgs, lds, uni)
}

// ---------------------------------------------------------------------------------------
// LDS security object (eContent of EF.SOD)

// HashAlg is a digest algorithm usable in the LDS security object.
type HashAlg struct {
	Name string
	OID  OID
	Size int
	Sum  func([]byte) []byte
}

var (
	SHA1   = HashAlg{"SHA-1", OIDSHA1, 20, func(b []byte) []byte { s := sha1.Sum(b); return s[:] }}
	SHA224 = HashAlg{"SHA-224", OIDSHA224, 28, func(b []byte) []byte { s := sha256.Sum224(b); return s[:] }}
	SHA256 = HashAlg{"SHA-256", OIDSHA256, 32, func(b []byte) []byte { s := sha256.Sum256(b); return s[:] }}
	SHA384 = HashAlg{"SHA-384", OIDSHA384, 48, func(b []byte) []byte { s := sha512.Sum384(b); return s[:] }}
	SHA512 = HashAlg{"SHA-512", OIDSHA512, 64, func(b []byte) []byte { s := sha512.Sum512(b); return s[:] }}
	// HashAlgs lists all of the above.
	HashAlgs = []HashAlg{SHA1, SHA224, SHA256, SHA384, SHA512}
)

// DGHash is one DataGroupHash.
type DGHash struct {
	Number int
	Hash   []byte
}

// LSOOpts steers NewLDSSecurityObject.
type LSOOpts struct {
	Version int      // 0 or 1; 1 requires the version info
	Alg     *HashAlg // nil: random
	// NullParams writes hashAlgorithm.parameters NULL (otherwise absent); both are in use.
	NullParams bool
	// Files: data group number -> file bytes; hashes are computed over them.
	Files map[int][]byte
	// Hashes: used as-is when Files is nil; when both are nil 2..16 random hashes are drawn.
	Hashes         []DGHash
	LDSVersion     string // version 1 only ("0108")
	UnicodeVersion string // version 1 only ("040000")
}

// LSOView is what a reader of the LDSSecurityObject must see.
type LSOView struct {
	Version        int
	HashAlg        HashAlg
	ParamsDER      []byte // nil or 05 00
	Hashes         []DGHash
	HasVersionInfo bool
	LDSVersion     string
	UnicodeVersion string
}

// NewLDSSecurityObject builds
//
//	LDSSecurityObject ::= SEQUENCE { version, hashAlgorithm, dataGroupHashValues SEQUENCE OF
//	    DataGroupHash { dataGroupNumber, dataGroupHashValue }, ldsVersionInfo OPTIONAL }
func NewLDSSecurityObject(r *rand.Rand, o LSOOpts) ([]byte, LSOView) {
	v := LSOView{Version: o.Version}
	if o.Alg != nil {
		v.HashAlg = *o.Alg
	} else {
		v.HashAlg = pick(r, HashAlgs)
	}
	switch {
	case o.Files != nil:
		var nums []int
		for n := range o.Files {
			nums = append(nums, n)
		}
		sort.Ints(nums)
		for _, n := range nums {
			v.Hashes = append(v.Hashes, DGHash{n, v.HashAlg.Sum(o.Files[n])})
		}
	case o.Hashes != nil:
		v.Hashes = o.Hashes
	default:
		v.Hashes = []DGHash{{1, RandBytes(r, v.HashAlg.Size)}, {2, RandBytes(r, v.HashAlg.Size)}}
		for n := 3; n <= 16; n++ {
			if chance(r, 30) {
				v.Hashes = append(v.Hashes, DGHash{n, RandBytes(r, v.HashAlg.Size)})
			}
		}
	}
	alg := DERSeq(DEROID(v.HashAlg.OID))
	if o.NullParams {
		v.ParamsDER = DERNull()
		alg = DERSeq(DEROID(v.HashAlg.OID), DERNull())
	}
	var hashes []byte
	for _, h := range v.Hashes {
		hashes = append(hashes, DERSeq(DERInt(int64(h.Number)), DEROctets(h.Hash))...)
	}
	parts := [][]byte{DERInt(int64(o.Version)), alg, DERSeq(hashes)}
	if o.Version == 1 {
		v.HasVersionInfo = true
		v.LDSVersion, v.UnicodeVersion = o.LDSVersion, o.UnicodeVersion
		if v.LDSVersion == "" {
			v.LDSVersion = "0108"
		}
		if v.UnicodeVersion == "" {
			v.UnicodeVersion = "040000"
		}
		parts = append(parts, DERSeq(DERPrintable(v.LDSVersion), DERPrintable(v.UnicodeVersion)))
	}
	return DERSeq(parts...), v
}

// ---------------------------------------------------------------------------------------
// CMS wrapping

// UnsignedOpts steers BuildUnsignedSignedData.
type UnsignedOpts struct {
	DigestAlg    *HashAlg // nil: SHA-256
	Certificates [][]byte // DER certificates to embed in [0] (none by default)
	// SKI selects SignerIdentifier = [0] subjectKeyIdentifier (SignerInfo version 3)
	// instead of issuerAndSerialNumber (version 1).
	SKI bool
}

// BuildUnsignedSignedData returns a ContentInfo{signedData} that is structurally valid
// per RFC 5652 / Doc 9303-10 (SignedData v3, one SignerInfo with contentType and a
// correct messageDigest attribute) but whose signature value is RANDOM BYTES. It is
// good for parsers, never for signature verification; use a real CMS signer for that.
func BuildUnsignedSignedData(r *rand.Rand, eContentType OID, eContent []byte, o UnsignedOpts) []byte {
	da := SHA256
	if o.DigestAlg != nil {
		da = *o.DigestAlg
	}
	digestAlg := DERSeq(DEROID(da.OID))
	encap := DERSeq(DEROID(eContentType), DERExplicit(0, DEROctets(eContent)))
	var sid []byte
	siVersion := int64(1)
	if o.SKI {
		siVersion = 3
		sid = TLV(0x80, RandBytes(r, 20))
	} else {
		issuer := DERSeq(
			DERSet(DERSeq(DEROID(OID{2, 5, 4, 6}), DERPrintable("UT"))),
			DERSet(DERSeq(DEROID(OID{2, 5, 4, 3}), DERUTF8("ldsgen unsigned DS"))))
		sid = DERSeq(issuer, DERInt(int64(1+r.IntN(1<<30))))
	}
	signedAttrs := TLV(0xA0,
		DERSeq(DEROID(OIDContentType), DERSet(DEROID(eContentType))),
		DERSeq(DEROID(OIDMessageDigest), DERSet(DEROctets(da.Sum(eContent)))))
	signerInfo := DERSeq(DERInt(siVersion), sid, digestAlg, signedAttrs,
		DERSeq(DEROID(OIDECDSASHA256)),
		DEROctets(DERSeq(DERBigInt(randOddBig(r, 255)), DERBigInt(randOddBig(r, 255)))))
	parts := [][]byte{DERInt(3), DERSet(digestAlg), encap}
	if len(o.Certificates) > 0 {
		parts = append(parts, TLV(0xA0, o.Certificates...))
	}
	parts = append(parts, DERSet(signerInfo))
	return DERSeq(DEROID(OIDSignedData), DERExplicit(0, DERSeq(parts...)))
}

// WrapSOD puts a CMS SignedData (ContentInfo DER) into the EF.SOD template 77.
func WrapSOD(cmsDER []byte) []byte { return TLV(0x77, cmsDER) }

// SODView is what a reader of the EF.SOD bytes must see.
type SODView struct {
	LSO      LSOView
	EContent []byte // the LDSSecurityObject DER
	CMS      []byte // the ContentInfo DER inside tag 77
}

// NewUnsignedSOD = WrapSOD(BuildUnsignedSignedData(ldsSecurityObject)). NOT verifiable.
func NewUnsignedSOD(r *rand.Rand, lo LSOOpts, uo UnsignedOpts) ([]byte, SODView) {
	ec, lv := NewLDSSecurityObject(r, lo)
	cms := BuildUnsignedSignedData(r, OIDLDSSecObject, ec, uo)
	return WrapSOD(cms), SODView{LSO: lv, EContent: ec, CMS: cms}
}

// CardSecurityView is what a reader of EF.CardSecurity must see.
type CardSecurityView struct {
	SecInfos SecInfosView
	CMS      []byte
}

// NewUnsignedCardSecurity: ContentInfo{signedData} with eContentType id-SecurityObject
// and eContent = SET OF SecurityInfo; signature is random bytes (see BuildUnsignedSignedData).
// For a verifiable file pass BuildSecurityInfos(...).SetDER to a real CMS signer instead.
func NewUnsignedCardSecurity(r *rand.Rand, sortDER bool, uo UnsignedOpts, infos ...SecInfo) ([]byte, CardSecurityView) {
	sv := BuildSecurityInfos(infos, sortDER)
	cms := BuildUnsignedSignedData(r, OIDSecurityObject, sv.SetDER, uo)
	return cms, CardSecurityView{SecInfos: sv, CMS: cms}
}
