package ldsgen

import (
	"fmt"
	"math/rand/v2"
	"strings"
)

// DateEncoding selects how yyyymmdd / yyyymmddhhmmss values are stored.
type DateEncoding int

const (
	DateAny   DateEncoding = iota // random
	DateASCII                     // 8 / 14 ASCII digits (Doc 9303-10, 8th edition)
	DateBCD                       // 4 / 7 bytes BCD (LDS 1.7 era, seen in the field)
)

func encDate(digits string, bcd bool) []byte {
	if bcd {
		return BCD(digits)
	}
	return []byte(digits)
}

func randDate8(r *rand.Rand) string {
	return fmt.Sprintf("%04d%02d%02d", 1900+r.IntN(200), 1+r.IntN(12), 1+r.IntN(28))
}

var wordList = []string{"UTOPIA", "CITY", "NEW", "PORT", "SAINT", "NORTH", "LAKE", "ROAD", "STREET", "AVENUE", "MINISTRY", "OF", "INTERIOR", "PASSPORT", "OFFICE", "ENGINEER", "TEACHER", "DOCTOR", "DR", "PROF", "VALID", "FOR", "ALL", "COUNTRIES", "HOLDER", "IS", "A", "CITIZEN", "CUSTODY", "PARENT"}

// randPhrase: 1..n words separated by single spaces, optionally with digits.
func randPhrase(r *rand.Rand, n int) string {
	k := 1 + r.IntN(n)
	parts := make([]string, k)
	for i := range parts {
		switch r.IntN(6) {
		case 0:
			parts[i] = randFrom(r, digits, 1+r.IntN(5))
		case 1:
			parts[i] = randFrom(r, upperAZ, 1+r.IntN(10))
		default:
			parts[i] = pick(r, wordList)
		}
	}
	return strings.Join(parts, " ")
}

// randList: components of a '<'-separated list (no component is empty or contains '<').
func randList(r *rand.Rand, maxItems int) []string {
	k := 1 + r.IntN(maxItems)
	out := make([]string, k)
	for i := range out {
		out[i] = randPhrase(r, 3)
	}
	return out
}

func joinList(r *rand.Rand, items []string, sloppy bool) string {
	s := strings.Join(items, "<")
	if sloppy {
		switch r.IntN(3) {
		case 0:
			s = s + "<"
		case 1:
			s = strings.Replace(s, "<", "<<", 1)
		case 2:
			s = s + "<<"
		}
	}
	return s
}

// randFullName: like an MRZ name but of any length, sometimes with non-ASCII letters
// (DG11/DG12/DG16 carry names "in full", UTF-8).
func randFullName(r *rand.Rand) Name {
	n := Name{Primary: randIdentifier(r, 1+r.IntN(3), 12)}
	if !chance(r, 10) {
		n.Secondary = randIdentifier(r, 1+r.IntN(4), 12)
	}
	if chance(r, 8) {
		n.Primary += pick(r, []string{"É", "Ü", "Ø", "Ñ"})
	}
	return n
}

// ---------------------------------------------------------------------------------------
// DG11

// DG11 data element tags in the order of Doc 9303-10 table "Data Group 11 Tags".
var DG11Tags = []uint32{0x5F0E, 0x5F0F, 0x5F10, 0x5F2B, 0x5F11, 0x5F42, 0x5F12, 0x5F13, 0x5F14, 0x5F15, 0x5F16, 0x5F17, 0x5F18}

// DG11Opts steers NewDG11. Zero values mean "random".
type DG11Opts struct {
	// Tags: the data elements to write (any of DG11Tags, written in table order).
	// nil selects a random non-empty subset.
	Tags []uint32
	// OtherNames: number of other names when 5F0F is selected (0: random 1..5).
	OtherNames int
	Dates      DateEncoding
	// OtherNamesListTag is the tag announcing the other names in the tag list 5C:
	// 0x5F0F (default, the repeated element) or 0xA0 (the enclosing template; seen in the field).
	OtherNamesListTag uint32
	// DirectOtherNames writes the 5F0F elements directly under 6B without the A0
	// template and its counter. NOT conformant (seen in the field); off by default.
	DirectOtherNames bool
	// SloppySeparators adds leading/trailing/doubled '<' to list values (seen in the field).
	SloppySeparators bool
	Name             *Name  // force the holder name
	FullDateOfBirth  string // force yyyymmdd
	ImageBytes       int    // size of the proof-of-citizenship image (0: random)
}

// DG11View is what a reader of the DG11 bytes must see. Text values are the raw
// characters as written (a '<' inside a free-text value stands for a space).
type DG11View struct {
	TagList              []uint32 // as written in 5C
	Has                  map[uint32]bool
	NameOfHolder         Name
	OtherNames           []Name
	PersonalNumber       string
	FullDateOfBirth      string // yyyymmdd
	DateIsBCD            bool
	PlaceOfBirth         []string // non-empty components
	Address              []string
	Telephone            string
	Profession           string
	Title                string
	PersonalSummary      string
	ProofOfCitizenship   []byte
	OtherTravelDocuments []string
	CustodyInformation   string
}

func pickTags(r *rand.Rand, all []uint32, want []uint32) map[uint32]bool {
	has := map[uint32]bool{}
	if want != nil {
		for _, t := range want {
			has[t] = true
		}
		return has
	}
	p := 20 + r.IntN(70)
	for _, t := range all {
		if chance(r, p) {
			has[t] = true
		}
	}
	if len(has) == 0 {
		has[all[r.IntN(len(all))]] = true
	}
	return has
}

func encTagList(tags []uint32) []byte {
	var b []byte
	for _, t := range tags {
		b = append(b, EncTag(t)...)
	}
	return TLV(0x5C, b)
}

// NewDG11 builds EF.DG11: 6B { 5C tag list, data elements ... } with other names as
// A0 { 02 01 n, 5F0F x n }.
func NewDG11(r *rand.Rand, o DG11Opts) ([]byte, DG11View) {
	v := DG11View{Has: pickTags(r, DG11Tags, o.Tags)}
	bcd := o.Dates == DateBCD || (o.Dates == DateAny && chance(r, 40))
	var body []byte
	listTag := o.OtherNamesListTag
	if listTag == 0 {
		listTag = 0x5F0F
	}
	for _, t := range DG11Tags {
		if !v.Has[t] {
			continue
		}
		lt := t
		switch t {
		case 0x5F0E:
			if o.Name != nil {
				v.NameOfHolder = *o.Name
			} else {
				v.NameOfHolder = randFullName(r)
			}
			body = append(body, TLV(t, []byte(v.NameOfHolder.Encode()))...)
		case 0x5F0F:
			n := o.OtherNames
			if n == 0 {
				n = 1 + r.IntN(5)
			}
			var els []byte
			for i := 0; i < n; i++ {
				nm := randFullName(r)
				v.OtherNames = append(v.OtherNames, nm)
				els = append(els, TLV(0x5F0F, []byte(nm.Encode()))...)
			}
			if o.DirectOtherNames {
				body = append(body, els...)
			} else {
				body = append(body, TLV(0xA0, TLV(0x02, []byte{byte(n)}), els)...)
				lt = listTag
			}
		case 0x5F10:
			v.PersonalNumber = randFrom(r, alnum, 4+r.IntN(12))
			body = append(body, TLV(t, []byte(v.PersonalNumber))...)
		case 0x5F2B:
			v.FullDateOfBirth = o.FullDateOfBirth
			if v.FullDateOfBirth == "" {
				v.FullDateOfBirth = randDate8(r)
			}
			v.DateIsBCD = bcd
			body = append(body, TLV(t, encDate(v.FullDateOfBirth, bcd))...)
		case 0x5F11:
			v.PlaceOfBirth = randList(r, 3)
			body = append(body, TLV(t, []byte(joinList(r, v.PlaceOfBirth, o.SloppySeparators)))...)
		case 0x5F42:
			v.Address = randList(r, 5)
			body = append(body, TLV(t, []byte(joinList(r, v.Address, o.SloppySeparators)))...)
		case 0x5F12:
			v.Telephone = "+" + randFrom(r, digits, 6+r.IntN(8))
			body = append(body, TLV(t, []byte(v.Telephone))...)
		case 0x5F13:
			v.Profession = freeText(r, 3)
			body = append(body, TLV(t, []byte(v.Profession))...)
		case 0x5F14:
			v.Title = freeText(r, 2)
			body = append(body, TLV(t, []byte(v.Title))...)
		case 0x5F15:
			v.PersonalSummary = freeText(r, 8)
			body = append(body, TLV(t, []byte(v.PersonalSummary))...)
		case 0x5F16:
			sz := o.ImageBytes
			if sz == 0 {
				sz = MinImageSize + r.IntN(300)
			}
			v.ProofOfCitizenship = RandImage(r, ImageJPEG, sz)
			body = append(body, TLV(t, v.ProofOfCitizenship)...)
		case 0x5F17:
			v.OtherTravelDocuments = nil
			for i, k := 0, 1+r.IntN(3); i < k; i++ {
				v.OtherTravelDocuments = append(v.OtherTravelDocuments, randFrom(r, alnum, 6+r.IntN(4)))
			}
			body = append(body, TLV(t, []byte(joinList(r, v.OtherTravelDocuments, o.SloppySeparators)))...)
		case 0x5F18:
			v.CustodyInformation = freeText(r, 6)
			body = append(body, TLV(t, []byte(v.CustodyInformation))...)
		default:
			panic(fmt.Sprintf("ldsgen: %X is not a DG11 data element", t))
		}
		v.TagList = append(v.TagList, lt)
	}
	return TLV(0x6B, encTagList(v.TagList), body), v
}

// freeText: a phrase whose word separator is a space or (Doc 9303 style) a filler.
func freeText(r *rand.Rand, n int) string {
	s := randPhrase(r, n)
	if chance(r, 40) {
		s = strings.ReplaceAll(s, " ", "<")
	}
	return s
}

// ---------------------------------------------------------------------------------------
// DG12

// DG12 data element tags in the order of Doc 9303-10 table "Data Group 12 Tags".
var DG12Tags = []uint32{0x5F19, 0x5F26, 0x5F1A, 0x5F1B, 0x5F1C, 0x5F1D, 0x5F1E, 0x5F55, 0x5F56}

// DG12Opts steers NewDG12. Zero values mean "random".
type DG12Opts struct {
	Tags             []uint32 // nil: random non-empty subset of DG12Tags
	OtherPersons     int      // when 5F1A is selected (0: random 1..5)
	Dates            DateEncoding
	IssuingAuthority string // force
	DateOfIssue      string // force yyyymmdd
	ImageBytes       int
}

// DG12View is what a reader of the DG12 bytes must see.
type DG12View struct {
	TagList                     []uint32
	Has                         map[uint32]bool
	IssuingAuthority            string
	DateOfIssue                 string // yyyymmdd
	DateIsBCD                   bool
	OtherPersons                []Name
	EndorsementsAndObservations string
	TaxExitRequirements         string
	ImageFront                  []byte
	ImageRear                   []byte
	PersoDateTime               string // yyyymmddhhmmss
	PersoSystemSerialNumber     string
}

// NewDG12 builds EF.DG12: 6C { 5C tag list, data elements ... } with other persons as
// A0 { 02 01 n, 5F1A x n }.
func NewDG12(r *rand.Rand, o DG12Opts) ([]byte, DG12View) {
	v := DG12View{Has: pickTags(r, DG12Tags, o.Tags)}
	bcd := o.Dates == DateBCD || (o.Dates == DateAny && chance(r, 40))
	v.DateIsBCD = bcd
	var body []byte
	img := func() []byte {
		sz := o.ImageBytes
		if sz == 0 {
			sz = MinImageSize + r.IntN(300)
		}
		return RandImage(r, ImageJPEG, sz)
	}
	for _, t := range DG12Tags {
		if !v.Has[t] {
			continue
		}
		switch t {
		case 0x5F19:
			v.IssuingAuthority = o.IssuingAuthority
			if v.IssuingAuthority == "" {
				v.IssuingAuthority = randPhrase(r, 4)
			}
			body = append(body, TLV(t, []byte(v.IssuingAuthority))...)
		case 0x5F26:
			v.DateOfIssue = o.DateOfIssue
			if v.DateOfIssue == "" {
				v.DateOfIssue = randDate8(r)
			}
			body = append(body, TLV(t, encDate(v.DateOfIssue, bcd))...)
		case 0x5F1A:
			n := o.OtherPersons
			if n == 0 {
				n = 1 + r.IntN(5)
			}
			var els []byte
			for i := 0; i < n; i++ {
				nm := randFullName(r)
				v.OtherPersons = append(v.OtherPersons, nm)
				els = append(els, TLV(0x5F1A, []byte(nm.Encode()))...)
			}
			body = append(body, TLV(0xA0, TLV(0x02, []byte{byte(n)}), els)...)
		case 0x5F1B:
			v.EndorsementsAndObservations = randPhrase(r, 8)
			body = append(body, TLV(t, []byte(v.EndorsementsAndObservations))...)
		case 0x5F1C:
			v.TaxExitRequirements = randPhrase(r, 6)
			body = append(body, TLV(t, []byte(v.TaxExitRequirements))...)
		case 0x5F1D:
			v.ImageFront = img()
			body = append(body, TLV(t, v.ImageFront)...)
		case 0x5F1E:
			v.ImageRear = img()
			body = append(body, TLV(t, v.ImageRear)...)
		case 0x5F55:
			v.PersoDateTime = randDate8(r) + fmt.Sprintf("%02d%02d%02d", r.IntN(24), r.IntN(60), r.IntN(60))
			body = append(body, TLV(t, encDate(v.PersoDateTime, bcd))...)
		case 0x5F56:
			v.PersoSystemSerialNumber = randFrom(r, alnum, 4+r.IntN(12))
			body = append(body, TLV(t, []byte(v.PersoSystemSerialNumber))...)
		default:
			panic(fmt.Sprintf("ldsgen: %X is not a DG12 data element", t))
		}
		v.TagList = append(v.TagList, t)
	}
	return TLV(0x6C, encTagList(v.TagList), body), v
}

// ---------------------------------------------------------------------------------------
// DG13

// NewDG13 builds EF.DG13: 6D { opaque issuer-defined content }.
func NewDG13(content []byte) []byte { return TLV(0x6D, content) }

// RandDG13 draws issuer-defined content: a small TLV structure, printable text or raw
// binary. Raw binary avoids the octets 83 and 84: template 6D is a constructed tag, so
// generic BER decoders walk into the content, and a decoder that allocates an announced
// 3/4-byte length before checking it would make every consumer of these files slow (that
// is a robustness matter for other checks, not something DG13 generation should trigger).
func RandDG13(r *rand.Rand, maxLen int) (file []byte, content []byte) {
	if maxLen < 1 {
		maxLen = 200
	}
	switch r.IntN(3) {
	case 0:
		content = RandBytes(r, 1+r.IntN(maxLen))
		for i, c := range content {
			if c == 0x83 || c == 0x84 {
				content[i] = c & 0x0F
			}
		}
	case 1:
		content = []byte(randPhrase(r, 1+maxLen/8))
	default:
		for i, k := 0, 1+r.IntN(4); i < k; i++ {
			content = append(content, TLV(uint32(0x80+r.IntN(16)), RandBytes(r, r.IntN(40)))...)
		}
	}
	return NewDG13(content), content
}

// ---------------------------------------------------------------------------------------
// DG16

// PersonToNotify is one template A1..AF of DG16.
type PersonToNotify struct {
	DateRecorded string // yyyymmdd
	Name         Name
	Telephone    string
	Address      []string // non-empty components
}

// DG16Opts steers NewDG16.
type DG16Opts struct {
	Persons int // 1..15 (0: random, mostly 1..3)
	Dates   DateEncoding
}

// DG16View is what a reader of the DG16 bytes must see.
type DG16View struct {
	Persons   []PersonToNotify
	DateIsBCD bool
}

// NewDG16 builds EF.DG16: 70 { 02 01 n, A1 {5F50 5F51 5F52 5F53} .. An {...} }.
func NewDG16(r *rand.Rand, o DG16Opts) ([]byte, DG16View) {
	n := o.Persons
	if n == 0 {
		n = 1 + r.IntN(3)
		if chance(r, 20) {
			n = 1 + r.IntN(15)
		}
	}
	if n < 1 || n > 15 {
		panic("ldsgen: DG16 needs 1..15 persons")
	}
	bcd := o.Dates == DateBCD || (o.Dates == DateAny && chance(r, 30))
	v := DG16View{DateIsBCD: bcd}
	body := TLV(0x02, []byte{byte(n)})
	for i := 1; i <= n; i++ {
		p := PersonToNotify{DateRecorded: randDate8(r), Name: randFullName(r), Telephone: "+" + randFrom(r, digits, 6+r.IntN(8)), Address: randList(r, 4)}
		v.Persons = append(v.Persons, p)
		body = append(body, TLV(uint32(0xA0+i),
			TLV(0x5F50, encDate(p.DateRecorded, bcd)),
			TLV(0x5F51, []byte(p.Name.Encode())),
			TLV(0x5F52, []byte(p.Telephone)),
			TLV(0x5F53, []byte(strings.Join(p.Address, "<"))))...)
	}
	return TLV(0x70, body), v
}
