package mutate

import (
	"crypto/sha256"
	mrand "math/rand/v2"
)

// A minimal CBOR (RFC 8949) writer, enough to rebuild the library's envelopes
// {magic, version, sha256, payload} with arbitrary inner content and to lie about lengths.

// CHead writes a data item head: major type (0..7) and argument in the shortest form.
func CHead(major byte, n uint64) []byte {
	m := major << 5
	switch {
	case n < 24:
		return []byte{m | byte(n)}
	case n <= 0xff:
		return []byte{m | 24, byte(n)}
	case n <= 0xffff:
		return []byte{m | 25, byte(n >> 8), byte(n)}
	case n <= 0xffffffff:
		return []byte{m | 26, byte(n >> 24), byte(n >> 16), byte(n >> 8), byte(n)}
	}
	return []byte{m | 27, byte(n >> 56), byte(n >> 48), byte(n >> 40), byte(n >> 32), byte(n >> 24), byte(n >> 16), byte(n >> 8), byte(n)}
}

func CUint(n uint64) []byte   { return CHead(0, n) }
func CBytes(b []byte) []byte  { return append(CHead(2, uint64(len(b))), b...) }
func CText(s string) []byte   { return append(CHead(3, uint64(len(s))), s...) }
func CArrayHead(n int) []byte { return CHead(4, uint64(n)) }
func CMapHead(n int) []byte   { return CHead(5, uint64(n)) }

// CInts is an array of unsigned integers (object identifier arcs).
func CInts(v []int) []byte {
	out := CArrayHead(len(v))
	for _, x := range v {
		if x < 0 {
			out = append(out, CHead(1, uint64(-1-x))...)
		} else {
			out = append(out, CUint(uint64(x))...)
		}
	}
	return out
}

// KV is one map entry with a text key and a pre-encoded value.
type KV struct {
	Key string
	Val []byte
}

func CMap(kvs ...KV) []byte {
	out := CMapHead(len(kvs))
	for _, kv := range kvs {
		out = append(out, CText(kv.Key)...)
		out = append(out, kv.Val...)
	}
	return out
}

// Envelope frames payload the way the library does: magic, version, SHA-256 of the
// payload, payload. badSum writes a wrong checksum.
func Envelope(magic string, version uint64, payload []byte, badSum bool) []byte {
	d := sha256.Sum256(payload)
	if badSum {
		d[0] ^= 1
	}
	return CMap(KV{"magic", CText(magic)}, KV{"version", CUint(version)}, KV{"sha256", CBytes(d[:])}, KV{"payload", CBytes(payload)})
}

// CLieKinds are the kinds of CLie.
var CLieKinds = []string{"bytes-2^32", "bytes-2^63", "text-2^32", "array-2^32", "array-2^63", "map-2^32", "map-2^63", "nest-array", "nest-map", "nest-tag", "indef-bytes", "indef-array-open", "indef-map-open", "tag-bignum", "reserved-ai", "array-1e6-real", "bytes-1MiB-claim-short"}

// CLie returns a short CBOR item of a lying / adversarial kind; size steers depth or
// element count where applicable.
func CLie(kind string, size int) []byte {
	switch kind {
	case "bytes-2^32":
		return append([]byte{0x5a, 0xff, 0xff, 0xff, 0xff}, 1, 2, 3)
	case "bytes-2^63":
		return append([]byte{0x5b, 0x7f, 0xff, 0xff, 0xff, 0xff, 0xff, 0xff, 0xff}, 1, 2, 3)
	case "text-2^32":
		return append([]byte{0x7a, 0xff, 0xff, 0xff, 0xff}, 'a', 'b')
	case "array-2^32":
		return []byte{0x9a, 0xff, 0xff, 0xff, 0xff, 0x01}
	case "array-2^63":
		return []byte{0x9b, 0x7f, 0xff, 0xff, 0xff, 0xff, 0xff, 0xff, 0xff, 0x01}
	case "map-2^32":
		return []byte{0xba, 0xff, 0xff, 0xff, 0xff, 0x61, 'a', 0x01}
	case "map-2^63":
		return []byte{0xbb, 0x7f, 0xff, 0xff, 0xff, 0xff, 0xff, 0xff, 0xff, 0x61, 'a', 0x01}
	case "nest-array":
		out := make([]byte, size+1)
		for i := 0; i < size; i++ {
			out[i] = 0x81
		}
		out[size] = 0x00
		return out
	case "nest-map":
		out := make([]byte, 0, 2*size+1)
		for i := 0; i < size; i++ {
			out = append(out, 0xa1, 0x00)
		}
		return append(out, 0x00)
	case "nest-tag":
		out := make([]byte, size+1)
		for i := 0; i < size; i++ {
			out[i] = 0xc1
		}
		out[size] = 0x00
		return out
	case "indef-bytes":
		out := []byte{0x5f}
		for i := 0; i < size; i++ {
			out = append(out, 0x41, byte(i))
		}
		return append(out, 0xff)
	case "indef-array-open":
		out := []byte{0x9f}
		for i := 0; i < size; i++ {
			out = append(out, 0x00)
		}
		return out
	case "indef-map-open":
		return []byte{0xbf, 0x61, 'a'}
	case "tag-bignum":
		b := make([]byte, size)
		for i := range b {
			b[i] = 0xff
		}
		return append([]byte{0xc2}, CBytes(b)...)
	case "reserved-ai":
		return []byte{0x1c, 0x1d, 0x1e, 0x5c, 0x9d}
	case "array-1e6-real":
		out := CArrayHead(size)
		for i := 0; i < size; i++ {
			out = append(out, 0x00)
		}
		return out
	case "bytes-1MiB-claim-short":
		return append([]byte{0x5a, 0x00, 0x10, 0x00, 0x00}, make([]byte, 100)...)
	}
	return []byte{0xff}
}

// CBORBytes mutates a CBOR encoding at the byte level with a bias to item heads: it
// rewrites one octet that looks like a head with additional information 24..27 into a
// larger claim, or falls back to plain byte mutation.
func CBORBytes(r *mrand.Rand, b []byte) []byte {
	out := clone(b)
	if len(out) == 0 {
		return Random(r, 1+r.IntN(16))
	}
	switch r.IntN(5) {
	case 0: // enlarge a 1/2-octet length claim in place
		for tries := 0; tries < 32; tries++ {
			i := r.IntN(len(out))
			ai := out[i] & 0x1f
			mt := out[i] >> 5
			if mt >= 2 && mt <= 5 && (ai == 24 || ai == 25) && i+2 < len(out) {
				out[i+1] = 0xff
				if ai == 25 {
					out[i+2] = 0xff
				}
				return out
			}
		}
	case 1: // replace a short head by a 4- or 8-octet claim
		for tries := 0; tries < 32; tries++ {
			i := r.IntN(len(out))
			ai := out[i] & 0x1f
			mt := out[i] >> 5
			if mt >= 2 && mt <= 5 && ai < 24 {
				var h []byte
				if r.IntN(2) == 0 {
					h = []byte{mt<<5 | 26, 0xff, 0xff, 0xff, byte(r.Uint32())}
				} else {
					h = []byte{mt<<5 | 27, 0x7f, 0xff, 0xff, 0xff, 0xff, 0xff, 0xff, 0xff}
				}
				return append(append(clone(out[:i]), h...), out[i+1:]...)
			}
		}
	case 2: // change a major type
		i := r.IntN(len(out))
		out[i] = out[i]&0x1f | byte(r.IntN(8))<<5
		return out
	}
	return Bytes(r, out)
}
