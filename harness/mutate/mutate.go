// Package mutate holds the input generators of the C12 monitor (robustness against
// untrusted bytes): byte-level and BER-structure-aware mutators, directed adversarial
// families (length lies, indefinite markers, nesting, element counts, malformed OIDs,
// integer extremes) and a minimal CBOR writer that can lie about lengths.
//
// Standard library + refber only; it never imports a gmrtd package.
package mutate

import (
	mrand "math/rand/v2"

	"verifharness/refber"
)

// RandLen draws a length that is log-uniform over 0..max (many short, some long inputs).
func RandLen(r *mrand.Rand, max int) int {
	if max <= 0 {
		return 0
	}
	bits := 0
	for 1<<bits <= max {
		bits++
	}
	b := r.IntN(bits + 1)
	if b == 0 {
		return r.IntN(3)
	}
	n := 1<<(b-1) + r.IntN(1<<(b-1))
	if n > max {
		n = max
	}
	return n
}

// Random returns n random octets; style 0 uniform, 1 biased to BER-interesting octets,
// 2 one repeated octet, 3 ASCII.
func Random(r *mrand.Rand, n int) []byte {
	b := make([]byte, n)
	switch r.IntN(6) {
	case 0, 1, 2:
		for i := range b {
			b[i] = byte(r.Uint32())
		}
	case 3:
		for i := range b {
			if r.IntN(3) == 0 {
				b[i] = byte(r.Uint32())
			} else {
				b[i] = interesting[r.IntN(len(interesting))]
			}
		}
	case 4:
		c := interesting[r.IntN(len(interesting))]
		for i := range b {
			b[i] = c
		}
	case 5:
		for i := range b {
			b[i] = byte(0x20 + r.IntN(0x5f))
		}
	}
	return b
}

var interesting = []byte{0x00, 0x01, 0x02, 0x04, 0x05, 0x06, 0x0c, 0x13, 0x1f, 0x30, 0x31, 0x3f, 0x5f, 0x60, 0x61, 0x6e, 0x75, 0x77, 0x7c, 0x7f, 0x80, 0x81, 0x82, 0x83, 0x84, 0x85, 0x87, 0x8e, 0x99, 0x9f, 0xa0, 0xa1, 0xa3, 0xbf, 0xff}

func clone(b []byte) []byte { return append([]byte{}, b...) }

// Bytes applies 1..3 plain byte mutations: bit flip, substitution, truncation, extension,
// block deletion, block duplication, block overwrite with one octet.
func Bytes(r *mrand.Rand, b []byte) []byte {
	out := clone(b)
	for k := 1 + r.IntN(3); k > 0; k-- {
		n := len(out)
		switch r.IntN(8) {
		case 0:
			if n > 0 {
				out[r.IntN(n)] ^= 1 << uint(r.IntN(8))
			}
		case 1:
			if n > 0 {
				out[r.IntN(n)] = interesting[r.IntN(len(interesting))]
			}
		case 2:
			if n > 0 {
				out = out[:r.IntN(n)]
			}
		case 3:
			out = append(out, Random(r, 1+RandLen(r, 64))...)
		case 4:
			if n > 1 {
				i := r.IntN(n)
				j := min(n, i+1+RandLen(r, n/2))
				out = append(out[:i], out[j:]...)
			}
		case 5:
			if n > 0 && n < 1<<20 {
				i := r.IntN(n)
				j := min(n, i+1+RandLen(r, 256))
				dup := clone(out[i:j])
				reps := 1 + r.IntN(4)
				var ins []byte
				for ; reps > 0; reps-- {
					ins = append(ins, dup...)
				}
				out = append(out[:j], append(ins, out[j:]...)...)
			}
		case 6:
			if n > 0 {
				i := r.IntN(n)
				j := min(n, i+1+r.IntN(16))
				c := interesting[r.IntN(len(interesting))]
				for x := i; x < j; x++ {
					out[x] = c
				}
			}
		case 7:
			if n > 0 {
				out[r.IntN(n)] = byte(r.Uint32())
			}
		}
	}
	return out
}

// Splice joins a prefix of a with a suffix of b (cut points at random octets).
func Splice(r *mrand.Rand, a, b []byte) []byte {
	i, j := 0, 0
	if len(a) > 0 {
		i = r.IntN(len(a) + 1)
	}
	if len(b) > 0 {
		j = r.IntN(len(b) + 1)
	}
	return append(clone(a[:i]), b[j:]...)
}

// nodes lists the elements of a lenient BER reading of b (nil when unreadable).
func nodes(b []byte, limit int) []*refber.Node {
	tree, err := refber.Parse(b)
	if err != nil {
		return nil
	}
	var all []*refber.Node
	refber.Walk(tree, func(n *refber.Node, _ int) bool { all = append(all, n); return len(all) < limit })
	return all
}

// LieKinds are the ways LengthLie rewrites one length field.
var LieKinds = []string{"64MiB", "256MiB", "512MiB", "1GiB", "16MiB-3oct", "indefinite", "nonminimal", "plus-one", "minus-one", "zero", "ff-1oct", "5-octets", "max-short"}

// LengthLie rewrites the length field of one element of b (chosen at random among the
// elements of a BER reading; the outermost one when pickOuter) without touching the
// contents: the file then claims more (or fewer) octets than it has. kind selects from
// LieKinds. The 4 GiB claims are a separate directed family (Huge).
func LengthLie(r *mrand.Rand, b []byte, kind string, pickOuter bool) []byte {
	all := nodes(b, 4096)
	if len(all) == 0 {
		return append(clone(b), lieOctets(r, kind, 0)...)
	}
	n := all[0]
	if !pickOuter {
		n = all[r.IntN(len(all))]
	}
	lo := lieOctets(r, kind, n.ValLen)
	out := clone(b[:n.HdrOff+n.TagLen])
	out = append(out, lo...)
	return append(out, b[n.ValOff:]...)
}

func lieOctets(r *mrand.Rand, kind string, real int) []byte {
	be := func(k int, v uint64) []byte {
		p := make([]byte, 1+k)
		p[0] = byte(0x80 + k)
		for i := k; i >= 1; i-- {
			p[i] = byte(v)
			v >>= 8
		}
		return p
	}
	switch kind {
	case "17MiB":
		return be(4, 17<<20+uint64(r.IntN(1<<20)))
	case "64MiB":
		return be(4, 64<<20+uint64(r.IntN(1<<20)))
	case "256MiB":
		return be(4, 256<<20+uint64(r.IntN(1<<20)))
	case "512MiB":
		return be(4, 512<<20+uint64(r.IntN(1<<20)))
	case "1GiB":
		return be(4, 1<<30+uint64(r.IntN(1<<20)))
	case "16MiB-3oct":
		return []byte{0x83, 0xff, 0xff, byte(0xf0 + r.IntN(16))}
	case "indefinite":
		return []byte{0x80}
	case "nonminimal":
		return be(2+r.IntN(3), uint64(real))
	case "plus-one":
		return minimal(uint64(real + 1 + r.IntN(3)))
	case "minus-one":
		if real == 0 {
			return []byte{0x01}
		}
		return minimal(uint64(real - 1))
	case "zero":
		return []byte{0x00}
	case "ff-1oct":
		return []byte{0x81, 0xff}
	case "5-octets":
		return []byte{0x85, 0, 0, 0, 0, byte(real)}
	case "max-short":
		return []byte{0x7f}
	}
	return []byte{0x80}
}

func minimal(v uint64) []byte {
	if v < 0x80 {
		return []byte{byte(v)}
	}
	var tmp [8]byte
	i := 8
	for ; v > 0; v >>= 8 {
		i--
		tmp[i] = byte(v)
	}
	return append([]byte{byte(0x80 + 8 - i)}, tmp[i:]...)
}

// Huge4GiB returns short inputs whose first (or an inner) length field claims close to
// 4 GiB: `tag 84 ff ff ff fx`. tag is the identifier octet(s); wrap > 0 nests the claim
// inside that many correctly sized constructed elements.
func Huge4GiB(tag []byte, low byte, tail []byte) []byte {
	out := clone(tag)
	out = append(out, 0x84, 0xff, 0xff, 0xff, low)
	return append(out, tail...)
}

// MalformedOIDs are contents of tag 06 that are not valid object identifiers.
var MalformedOIDs = [][]byte{
	{},                       // 06 00
	{0x80},                   // 06 01 80: continuation bit without a following octet
	{0x80, 0x80},             // 06 02 80 80
	{0x2a, 0x80},             // truncated second arc
	{0x2a, 0x86, 0x48, 0x86}, // truncated in the middle of rsadsi
	{0x80, 0x01},             // leading 80 (non-minimal arc)
	{0xff},
	{0xff, 0xff, 0xff, 0xff, 0xff, 0xff, 0xff, 0xff, 0xff, 0xff, 0x7f}, // arc beyond 64 bits
	{0x2a, 0xff, 0xff, 0xff, 0xff, 0xff, 0xff, 0xff, 0xff, 0xff, 0xff, 0xff, 0xff, 0x7f},
	{0x00},
	{0x7f},
	{0x2a, 0x00, 0x80},
}

// replaceValue rewrites the contents of element n (primitive) with v, fixing the lengths
// of n only (the enclosing lengths are fixed up when fix is true by re-encoding the tree).
func replaceValue(b []byte, tree []*refber.Node, n *refber.Node, v []byte, fix bool) []byte {
	if fix {
		n.Value = v
		n.Constructed = false
		return refber.Encode(tree)
	}
	out := clone(b[:n.HdrOff+n.TagLen])
	out = append(out, minimal(uint64(len(v)))...)
	out = append(out, v...)
	return append(out, b[n.ValOff+n.ValLen:]...)
}

// OIDCorrupt replaces the contents of one OBJECT IDENTIFIER (tag 06) of b with a
// malformed one (or with random octets), keeping every enclosing length consistent so
// that the rest of the file stays well-formed. ok is false when b has no tag 06.
func OIDCorrupt(r *mrand.Rand, b []byte) (out []byte, ok bool) {
	tree, err := refber.Parse(b)
	if err != nil {
		return nil, false
	}
	var oids []*refber.Node
	refber.Walk(tree, func(n *refber.Node, _ int) bool {
		if n.Tag == 0x06 && !n.Constructed {
			oids = append(oids, n)
		}
		return len(oids) < 512
	})
	if len(oids) == 0 {
		return nil, false
	}
	n := oids[r.IntN(len(oids))]
	var v []byte
	switch x := r.IntN(10); {
	case x < 7:
		v = MalformedOIDs[r.IntN(len(MalformedOIDs))]
	case x < 8:
		v = Random(r, 1+r.IntN(12))
	case x < 9: // genuine value with the last octet's continuation bit set
		v = clone(n.Value)
		if len(v) > 0 {
			v[len(v)-1] |= 0x80
		}
	default: // very long arc list
		v = make([]byte, 200+r.IntN(3000))
		for i := range v {
			v[i] = byte(1 + r.IntN(0x7e))
		}
	}
	return replaceValue(b, tree, n, v, true), true
}

// IntExtreme replaces the contents of one INTEGER (tag 02) of b with an extreme value:
// empty, zero, negative, 1 KiB+1 / 64 KiB of ff, 2^63, 2^64, leading zeros.
func IntExtreme(r *mrand.Rand, b []byte, big int) (out []byte, ok bool) {
	tree, err := refber.Parse(b)
	if err != nil {
		return nil, false
	}
	var ints []*refber.Node
	refber.Walk(tree, func(n *refber.Node, _ int) bool {
		if n.Tag == 0x02 && !n.Constructed {
			ints = append(ints, n)
		}
		return len(ints) < 512
	})
	if len(ints) == 0 {
		return nil, false
	}
	n := ints[r.IntN(len(ints))]
	rep := func(c byte, k int) []byte {
		v := make([]byte, k)
		for i := range v {
			v[i] = c
		}
		return v
	}
	var v []byte
	switch r.IntN(14) {
	case 0:
		v = []byte{}
	case 1:
		v = []byte{0}
	case 2:
		v = []byte{0xff}
	case 3:
		v = []byte{0x80}
	case 4:
		v = []byte{0x7f, 0xff, 0xff, 0xff, 0xff, 0xff, 0xff, 0xff}
	case 5:
		v = []byte{0x00, 0x80, 0, 0, 0, 0, 0, 0, 0}
	case 6:
		v = []byte{0x01, 0, 0, 0, 0, 0, 0, 0, 0}
	case 7:
		v = []byte{0x80, 0, 0, 0, 0, 0, 0, 0}
	case 8:
		v = append([]byte{0x00}, rep(0xff, 1025)...)
	case 9:
		v = rep(0xff, 1025)
	case 10:
		v = append([]byte{0x00}, rep(0xff, big)...)
	case 11:
		v = append(rep(0, 64), n.Value...)
	case 12:
		v = []byte{0x7f, 0xff, 0xff, 0xff}
	case 13:
		v = append([]byte{0x00, 0xff}, Random(r, 15+r.IntN(600))...)
	}
	return replaceValue(b, tree, n, v, true), true
}

// TagSwap changes the identifier of one element to another tag of the same number of
// octets (keeping lengths), e.g. 30 <-> 31, 04 <-> 06, A0 <-> A1, 02 <-> 04.
func TagSwap(r *mrand.Rand, b []byte) (out []byte, ok bool) {
	all := nodes(b, 4096)
	if len(all) == 0 {
		return nil, false
	}
	n := all[r.IntN(len(all))]
	out = clone(b)
	if n.TagLen == 1 {
		pool := []byte{0x02, 0x03, 0x04, 0x05, 0x06, 0x0c, 0x13, 0x17, 0x18, 0x30, 0x31, 0x80, 0x81, 0x82, 0xa0, 0xa1, 0xa3, 0x5c, 0x60, 0x61, 0x6e, 0x75, 0x77, 0x7c}
		out[n.HdrOff] = pool[r.IntN(len(pool))]
	} else {
		out[n.HdrOff+n.TagLen-1] ^= byte(1 + r.IntN(0x7f))
	}
	return out, true
}

// Restructure deletes, duplicates (1..count times) or swaps elements of the tree and
// re-encodes canonically, so that the result is well-formed BER with a different shape.
func Restructure(r *mrand.Rand, b []byte, count int) (out []byte, ok bool) {
	tree, err := refber.Parse(b)
	if err != nil || len(tree) == 0 {
		return nil, false
	}
	var cons []*refber.Node
	refber.Walk(tree, func(n *refber.Node, _ int) bool {
		if n.Constructed && len(n.Children) > 0 {
			cons = append(cons, n)
		}
		return len(cons) < 2048
	})
	if len(cons) == 0 {
		return nil, false
	}
	p := cons[r.IntN(len(cons))]
	i := r.IntN(len(p.Children))
	switch r.IntN(4) {
	case 0:
		p.Children = append(p.Children[:i:i], p.Children[i+1:]...)
	case 1:
		if sz := p.Children[i].HdrLen + p.Children[i].ValLen + 2; sz*count > 1<<20 {
			count = max(1, (1<<20)/sz)
		}
		ins := make([]*refber.Node, 0, count)
		for k := 0; k < count; k++ {
			ins = append(ins, p.Children[i])
		}
		p.Children = append(p.Children[:i:i], append(ins, p.Children[i:]...)...)
	case 2:
		j := r.IntN(len(p.Children))
		p.Children[i], p.Children[j] = p.Children[j], p.Children[i]
	case 3: // move a subtree from somewhere else into here
		q := cons[r.IntN(len(cons))]
		if q != p {
			p.Children = append(p.Children, q)
			// q inside p may create a cycle if p is a descendant of q: guard by depth-limited encode
			if cyclic(p, 0) {
				p.Children = p.Children[:len(p.Children)-1]
			}
		}
	}
	return refber.Encode(tree), true
}

func cyclic(n *refber.Node, depth int) bool {
	if depth > 200 {
		return true
	}
	for _, c := range n.Children {
		if c.Constructed && cyclic(c, depth+1) {
			return true
		}
	}
	return false
}

// AllIndefinite re-encodes b with the indefinite-length form on every constructed
// element (with end-of-contents); onPrimitive additionally writes 80 as the length of
// one primitive element (never valid).
func AllIndefinite(r *mrand.Rand, b []byte, onPrimitive bool) (out []byte, ok bool) {
	tree, err := refber.Parse(b)
	if err != nil || len(tree) == 0 {
		return nil, false
	}
	var prims []*refber.Node
	refber.Walk(tree, func(n *refber.Node, _ int) bool {
		if n.Constructed {
			n.Indefinite, n.EOCLen = true, 2
		} else {
			prims = append(prims, n)
		}
		return true
	})
	out = refber.EncodeForm(tree)
	if onPrimitive && len(prims) > 0 {
		// locate the primitive in the new encoding by re-parsing
		all := nodes(out, 8192)
		var ps []*refber.Node
		for _, n := range all {
			if !n.Constructed && n.Tag != 0 {
				ps = append(ps, n)
			}
		}
		if len(ps) > 0 {
			n := ps[r.IntN(len(ps))]
			o2 := clone(out[:n.HdrOff+n.TagLen])
			o2 = append(o2, 0x80)
			out = append(o2, out[n.ValOff:]...)
		}
	}
	return out, true
}

// IndefiniteOne puts the indefinite marker on exactly one element (by index in document
// order modulo the number of elements), leaving the rest of the file untouched; the
// end-of-contents is appended to the element's contents when eoc is set.
func IndefiniteOne(b []byte, index int, eoc bool) (out []byte, ok bool) {
	all := nodes(b, 8192)
	if len(all) == 0 {
		return nil, false
	}
	n := all[index%len(all)]
	out = clone(b[:n.HdrOff+n.TagLen])
	out = append(out, 0x80)
	out = append(out, b[n.ValOff:n.ValOff+n.ValLen]...)
	if eoc {
		out = append(out, 0, 0)
	}
	return append(out, b[n.ValOff+n.ValLen:]...), true
}

// NestShapes are the shapes of Nest.
var NestShapes = []string{"definite", "indefinite", "indefinite-no-eoc", "mixed", "2-octet-tag", "octet-string-wrapped", "context"}

// Nest builds a chain of depth constructed elements around leaf.
func Nest(shape string, depth int, leaf []byte) []byte {
	switch shape {
	case "indefinite":
		out := make([]byte, 0, depth*4+len(leaf))
		for i := 0; i < depth; i++ {
			out = append(out, 0x30, 0x80)
		}
		out = append(out, leaf...)
		for i := 0; i < depth; i++ {
			out = append(out, 0, 0)
		}
		return out
	case "indefinite-no-eoc":
		out := make([]byte, 0, depth*2+len(leaf))
		for i := 0; i < depth; i++ {
			out = append(out, 0x30, 0x80)
		}
		return append(out, leaf...)
	}
	// definite shapes: build inside-out with a reversed header buffer
	cur := len(leaf)
	hdrs := make([][]byte, depth)
	for i := depth - 1; i >= 0; i-- {
		var tag []byte
		switch shape {
		case "2-octet-tag":
			tag = []byte{0x7f, 0x61}
		case "context":
			tag = []byte{byte(0xa0 + i%4)}
		case "mixed":
			tag = []byte{[]byte{0x30, 0x31, 0xa0, 0x60, 0x77, 0x6e}[i%6]}
		case "octet-string-wrapped":
			tag = []byte{0x24} // constructed OCTET STRING
		default:
			tag = []byte{0x30}
		}
		h := append(tag, minimal(uint64(cur))...)
		hdrs[i] = h
		cur += len(h)
	}
	out := make([]byte, 0, cur)
	for _, h := range hdrs {
		out = append(out, h...)
	}
	return append(out, leaf...)
}

// ManyShapes are the shapes of Many.
var ManyShapes = []string{"flat-null", "flat-int", "in-sequence", "in-set", "in-indefinite", "oids", "two-level", "octet-1"}

// Many builds n elements in the given shape.
func Many(shape string, n int) []byte {
	var el []byte
	switch shape {
	case "flat-null", "in-sequence", "in-set", "in-indefinite", "two-level":
		el = []byte{0x05, 0x00}
	case "flat-int":
		el = []byte{0x02, 0x01, 0x01}
	case "oids":
		el = []byte{0x06, 0x03, 0x2a, 0x03, 0x04}
	case "octet-1":
		el = []byte{0x04, 0x01, 0xaa}
	}
	body := make([]byte, 0, n*len(el)+16)
	if shape == "two-level" {
		for i := 0; i < n; i++ {
			body = append(body, 0x30, 0x02, 0x05, 0x00)
		}
	} else {
		for i := 0; i < n; i++ {
			body = append(body, el...)
		}
	}
	switch shape {
	case "in-sequence", "oids", "two-level":
		return append(append([]byte{0x30}, minimal(uint64(len(body)))...), body...)
	case "in-set":
		return append(append([]byte{0x31}, minimal(uint64(len(body)))...), body...)
	case "in-indefinite":
		return append(append([]byte{0x30, 0x80}, body...), 0, 0)
	}
	return body
}

// WrapTLV wraps content in tag (1..2 octets given as the raw tag number) with a minimal
// definite length.
func WrapTLV(tag uint32, content []byte) []byte {
	var out []byte
	if tag > 0xff {
		out = append(out, byte(tag>>8))
	}
	out = append(out, byte(tag))
	out = append(out, minimal(uint64(len(content)))...)
	return append(out, content...)
}

// Text mutates a text line: substitution with characters outside the MRZ alphabet,
// non-ASCII (multi-octet UTF-8, invalid UTF-8, NUL), odd lengths (deletion, insertion,
// truncation, repetition), line breaks.
func Text(r *mrand.Rand, s string) string {
	b := []byte(s)
	odd := []string{"<", " ", "\n", "\r\n", "\x00", "é", "ß", "Ж", "中", "\xff", "\xc3", "\xe2\x82", "𝄞", "a", "0", "-", "\t", "\u200b", "\ufeff", "I", "O"}
	for k := 1 + r.IntN(3); k > 0; k-- {
		n := len(b)
		switch r.IntN(9) {
		case 0:
			if n > 0 {
				b[r.IntN(n)] = byte(r.Uint32())
			}
		case 1:
			if n > 0 {
				i := r.IntN(n)
				ins := odd[r.IntN(len(odd))]
				b = append(b[:i:i], append([]byte(ins), b[i+1:]...)...)
			}
		case 2:
			i := r.IntN(n + 1)
			ins := odd[r.IntN(len(odd))]
			b = append(b[:i:i], append([]byte(ins), b[i:]...)...)
		case 3:
			if n > 0 {
				b = b[:r.IntN(n)]
			}
		case 4:
			if n > 0 {
				i := r.IntN(n)
				b = append(b[:i:i], b[i+1:]...)
			}
		case 5:
			b = append(b, Random(r, 1+r.IntN(40))...)
		case 6:
			if n > 0 && n < 1<<16 {
				b = append(b, b...)
			}
		case 7:
			if n > 0 {
				i := r.IntN(n)
				for x := i; x < n && x < i+1+r.IntN(12); x++ {
					b[x] = "<0123456789ABCDEFGHIJKLMNOPQRSTUVWXYZ"[r.IntN(37)]
				}
			}
		case 8:
			if n > 0 {
				i := r.IntN(n)
				for x := i; x < n && x < i+1+r.IntN(12); x++ {
					b[x] = '<'
				}
			}
		}
	}
	return string(b)
}

// RandomText draws a string of length n: MRZ alphabet, printable ASCII, arbitrary octets
// or multi-octet UTF-8.
func RandomText(r *mrand.Rand, n int) string {
	b := make([]byte, 0, n)
	style := r.IntN(4)
	for len(b) < n {
		switch style {
		case 0:
			b = append(b, "<0123456789ABCDEFGHIJKLMNOPQRSTUVWXYZ"[r.IntN(37)])
		case 1:
			b = append(b, byte(0x20+r.IntN(0x5f)))
		case 2:
			b = append(b, byte(r.Uint32()))
		case 3:
			b = append(b, []byte(string(rune(0x80+r.IntN(0x2000))))...)
		}
	}
	return string(b)
}
