package checks

import (
	"bytes"
	"crypto/sha256"
	"encoding/asn1"
	"encoding/binary"
	"fmt"
	"math/big"
	mrand "math/rand/v2"
	"runtime/debug"
	"sort"
	"strings"
	"sync"
	"sync/atomic"
	"time"

	"github.com/gmrtd/gmrtd/cms"
	"github.com/gmrtd/gmrtd/document"
	"github.com/gmrtd/gmrtd/iso7816"
	"github.com/gmrtd/gmrtd/mobile"
	"github.com/gmrtd/gmrtd/oid"
	"github.com/gmrtd/gmrtd/reader"
	"github.com/gmrtd/gmrtd/verifier"

	"verifharness/fw"
	"verifharness/issuer"
	"verifharness/perso"
)

// C20, client kind "lister": a user of a shared trust store (or of a shared mobile
// verifier) that treats whatever an accessor handed back - and whatever buffer it passed
// in, once the call has returned - as its own memory: it sorts, shuffles, truncates,
// appends to, overwrites and wipes ITS OWN listing while readers, verifiers and other
// listers keep using the store.
//
// Oracles (all follow from "each call returns the result a lone call would have returned
// ... independent readers and verifiers may run in parallel while sharing one trust store
// ... no data race occurs"):
//   - race detector: every access of the lister to caller-owned memory happens inside a
//     verifCallerOwned{Result,Input}_<what> function (see fw/parent.go collectRaces), so a
//     report that names such a frame is attributed to the accessor <what>;
//   - at quiescent points the store lists exactly the certificates that were added (count,
//     bytes, parsed fields, and the order a lone call on an unshared store returns) and
//     every lookup returns what the lone call returned before the store was shared;
//   - every concurrent lookup / read / verification returns the lone-call result.
//
// The lister never writes THROUGH an element (the bytes a Certificate's slices point to are
// shared with the store by the unchanged library's shallow copies, and GenericCertPool.Add
// keeps parsing views of the caller's buffer - neither is promised to be caller-owned).

// ---------------------------------------------------------------------------------------
// marked accesses to caller-owned memory

const (
	c20OpNone = iota
	c20OpSort
	c20OpReverse
	c20OpShuffle
	c20OpRotate
	c20OpOverwrite
	c20OpTruncAppend
	c20OpAppendSpare
	c20NConcurrentOps // the scribbles above keep every element a well-formed certificate
	c20OpZero         = iota - 1
	c20OpFieldZero
)

var c20OpNames = map[int]string{c20OpNone: "read-only", c20OpSort: "sort", c20OpReverse: "reverse", c20OpShuffle: "shuffle", c20OpRotate: "rotate",
	c20OpOverwrite: "overwrite-element", c20OpTruncAppend: "truncate-append", c20OpAppendSpare: "append-into-spare-capacity", c20OpZero: "zero", c20OpFieldZero: "zero-fields"}

// c20Use is what a lister does with a listing it received.
type c20Use struct {
	op    int
	r     *mrand.Rand
	want  []string        // fingerprints of the lone-call result (nil: do not compare)
	extra cms.Certificate // the lister's own certificate (not in any store)
}

func c20CertFP(c *cms.Certificate) string {
	h := sha256.New()
	w := func(b []byte) {
		var l [4]byte
		binary.BigEndian.PutUint32(l[:], uint32(len(b)))
		h.Write(l[:])
		h.Write(b)
	}
	t := &c.TbsCertificate
	w(c.Raw)
	w(t.Raw)
	w(t.Issuer.FullBytes)
	w(t.Subject.FullBytes)
	w(t.SubjectPublicKeyInfo.FullBytes)
	w(t.Validity.NotBefore.FullBytes)
	w(t.Validity.NotAfter.FullBytes)
	w(c.SignatureValue.Bytes)
	w([]byte(c.SignatureAlgorithm.Algorithm.String()))
	if t.SerialNumber != nil {
		w(t.SerialNumber.Bytes())
	} else {
		w([]byte("nil"))
	}
	for i := range t.Extensions {
		w(t.Extensions[i].Raw)
	}
	return fmt.Sprintf("%x", h.Sum(nil)[:10])
}

func c20FPs(l []cms.Certificate) []string {
	out := make([]string, len(l))
	for i := range l {
		out[i] = c20CertFP(&l[i])
	}
	return out
}

func c20SameStrings(a, b []string) bool {
	if len(a) != len(b) {
		return false
	}
	for i := range a {
		if a[i] != b[i] {
			return false
		}
	}
	return true
}

// use compares the listing with the lone-call result, then scribbles over it. It touches
// l (caller-owned), u and nothing else.
func (u *c20Use) use(l []cms.Certificate) (differs bool) {
	if u.want != nil {
		differs = !c20SameStrings(c20FPs(l), u.want)
	}
	if len(l) > 48 && u.op != c20OpZero && u.op != c20OpFieldZero && u.op != c20OpAppendSpare {
		// a big listing (built-in store, about a thousand certificates): permute a window of it
		off := u.r.IntN(len(l) - 48)
		l = l[off : off+48]
	}
	n := len(l)
	switch u.op {
	case c20OpSort:
		sort.Slice(l, func(i, j int) bool { return bytes.Compare(l[i].Raw, l[j].Raw) < 0 })
	case c20OpReverse:
		for i, j := 0, n-1; i < j; i, j = i+1, j-1 {
			l[i], l[j] = l[j], l[i]
		}
	case c20OpShuffle:
		u.r.Shuffle(n, func(i, j int) { l[i], l[j] = l[j], l[i] })
	case c20OpRotate:
		if n > 1 {
			first := l[0]
			copy(l, l[1:])
			l[n-1] = first
		}
	case c20OpOverwrite:
		if n > 0 {
			l[u.r.IntN(n)] = u.extra
		}
	case c20OpTruncAppend:
		if n > 0 {
			s := l[:u.r.IntN(n)]
			s = append(s, u.extra)
			_ = s
		}
	case c20OpAppendSpare:
		s := append(l, u.extra)
		_ = s
	case c20OpZero:
		clear(l)
	case c20OpFieldZero:
		for i := range l {
			l[i].Raw = nil
			l[i].SignatureValue = asn1.BitString{}
			l[i].TbsCertificate.Extensions = nil
			l[i].TbsCertificate.SubjectPublicKeyInfo = asn1.RawValue{}
		}
	}
	return differs
}

//go:noinline
func verifCallerOwnedResult_All(l []cms.Certificate, u *c20Use) bool { return u.use(l) }

//go:noinline
func verifCallerOwnedResult_BySKI(l []cms.Certificate, u *c20Use) bool { return u.use(l) }

//go:noinline
func verifCallerOwnedResult_ByIssuerCountry(l []cms.Certificate, u *c20Use) bool { return u.use(l) }

//go:noinline
func verifCallerOwnedResult_ByIssuerAndSerial(l []cms.Certificate, u *c20Use) bool { return u.use(l) }

// the certificate chain in a read / verification result
//
//go:noinline
func verifCallerOwnedResult_CertChain(chain [][]byte) {
	for _, c := range chain {
		for i := range c {
			c[i] = 0x5A
		}
	}
	clear(chain)
}

// bytes returned by a mobile.Document accessor
//
//go:noinline
func verifCallerOwnedResult_MobileBytes(b []byte) {
	for i := range b {
		b[i] = 0x5A
	}
}

// the 8-byte challenge given to WithAAChallenge
//
//go:noinline
func verifCallerOwnedInput_Challenge(b []byte) {
	for i := range b {
		b[i] = 0xEE
	}
}

// the evidence blob given to Verify
//
//go:noinline
func verifCallerOwnedInput_VerifyData(b []byte) {
	for i := range b {
		b[i] = 0xA5
	}
}

// the slice given to GenericCertPool.AddCerts
//
//go:noinline
func verifCallerOwnedInput_AddCerts(l []cms.Certificate) { clear(l) }

// the transceiver's response buffer, re-used for the next response
//
//go:noinline
func verifCallerOwnedInput_Response(b []byte) {
	for i := range b {
		b[i] = 0xA5
	}
}

func c20Owned(acc string, l []cms.Certificate, u *c20Use) bool {
	switch acc {
	case "All":
		return verifCallerOwnedResult_All(l, u)
	case "BySKI":
		return verifCallerOwnedResult_BySKI(l, u)
	case "ByIssuerCountry":
		return verifCallerOwnedResult_ByIssuerCountry(l, u)
	case "ByIssuerAndSerial":
		return verifCallerOwnedResult_ByIssuerAndSerial(l, u)
	}
	fw.Bug("unknown accessor %q", acc)
	return false
}

// ---------------------------------------------------------------------------------------
// a shared store, its lone-call behaviour and the quiescent-point oracle

type c20Query struct {
	acc  string
	arg  []byte
	hit  bool
	lone []string // fingerprints of the lone-call result
}

func (q *c20Query) call(p cms.CertPool) []cms.Certificate {
	switch q.acc {
	case "All":
		return p.All()
	case "BySKI":
		return p.BySKI(q.arg)
	case "ByIssuerCountry":
		return p.ByIssuerCountry(string(q.arg))
	case "ByIssuerAndSerial":
		l, err := p.ByIssuerAndSerial(q.arg)
		if err != nil {
			return nil
		}
		return l
	}
	return nil
}

type c20Target struct {
	name        string
	pool        cms.CertPool
	wantRaw     [][]byte // the certificates that were added, in insertion order (nil: taken from the lone listing)
	loneAll     []string
	orderStable bool // the lone listing is in insertion order (so a quiescent listing must be as well)
	queries     []c20Query
}

func c20SortedCopy(a []string) []string {
	b := append([]string{}, a...)
	sort.Strings(b)
	return b
}

// c20Lone records what lone calls return on the not yet shared store. maxCerts bounds the
// number of certificates that queries are derived from (big built-in store).
func c20Lone(t *c20Target, r *mrand.Rand, maxCerts int) {
	l := t.pool.All()
	if t.wantRaw == nil {
		for i := range l {
			t.wantRaw = append(t.wantRaw, append([]byte{}, l[i].Raw...))
		}
	}
	var got, want []string
	for i := range l {
		got = append(got, string(l[i].Raw))
	}
	for _, w := range t.wantRaw {
		want = append(want, string(w))
	}
	if !c20SameStrings(c20SortedCopy(got), c20SortedCopy(want)) {
		fw.LibFail("lister-lone-listing-differs", "%s: a lone All() on an unshared store lists %d certificates, not the %d that were added", t.name, len(got), len(want))
	}
	t.orderStable = c20SameStrings(got, want)
	t.loneAll = c20FPs(l)
	t.queries = []c20Query{{acc: "All", hit: true}}
	idx := r.Perm(len(l))
	if len(idx) > maxCerts {
		idx = idx[:maxCerts]
	}
	seen := map[string]bool{}
	add := func(q c20Query) {
		id := q.acc + "/" + string(q.arg)
		if !seen[id] {
			seen[id] = true
			t.queries = append(t.queries, q)
		}
	}
	for _, i := range idx {
		c := &l[i]
		if ski, err := c.TbsCertificate.Extensions.SubjectKeyIdentifier(); err == nil && ski != nil {
			add(c20Query{acc: "BySKI", arg: append([]byte{}, (*ski)...), hit: true})
		}
		if rdn, err := c.TbsCertificate.IssuerRDN(); err == nil && rdn != nil {
			if cc := rdn.ByOID(oid.OidCountryName); len(cc) > 0 {
				add(c20Query{acc: "ByIssuerCountry", arg: append([]byte{}, cc...), hit: true})
			}
		}
		if c.TbsCertificate.SerialNumber != nil {
			ias, err := asn1.Marshal(struct {
				Issuer asn1.RawValue
				Serial *big.Int
			}{asn1.RawValue{FullBytes: c.TbsCertificate.Issuer.FullBytes}, c.TbsCertificate.SerialNumber})
			if err == nil {
				add(c20Query{acc: "ByIssuerAndSerial", arg: ias, hit: true})
			}
		}
	}
	add(c20Query{acc: "BySKI", arg: randBytes(r, 20)})
	add(c20Query{acc: "ByIssuerCountry", arg: []byte("ZZ")})
	for i := range t.queries {
		q := &t.queries[i]
		if q.acc == "All" {
			q.lone = t.loneAll
			continue
		}
		q.lone = c20FPs(q.call(t.pool))
		if q.hit && len(q.lone) == 0 {
			fw.LibFail("lister-lone-lookup-empty", "%s: a lone %s for a certificate that is in the store returns nothing", t.name, q.acc)
		}
	}
}

// c20StoreCheck is the quiescent-point oracle: "" or what differs from the lone calls.
func c20StoreCheck(t *c20Target) string { return c20StoreCheckEx(t, true) }

// lookups = false compares the listing only (big built-in store, between two scribbles).
func c20StoreCheckEx(t *c20Target, lookups bool) string {
	l := t.pool.All()
	if len(l) != len(t.wantRaw) {
		return fmt.Sprintf("count:store lists %d certificates, %d were added", len(l), len(t.wantRaw))
	}
	var got, want []string
	for i := range l {
		got = append(got, string(l[i].Raw))
	}
	for _, w := range t.wantRaw {
		want = append(want, string(w))
	}
	gs, ws := c20SortedCopy(got), c20SortedCopy(want)
	for i := range gs {
		if gs[i] != ws[i] {
			return "certificate-lost-or-altered:the store no longer lists the certificates that were added (byte comparison of Certificate.Raw)"
		}
	}
	fp := c20FPs(l)
	if !c20SameStrings(c20SortedCopy(fp), c20SortedCopy(t.loneAll)) {
		return "certificate-fields-altered:parsed fields of a listed certificate differ from the lone listing"
	}
	if t.orderStable && !c20SameStrings(got, want) {
		return "reordered:a lone All() lists the certificates in insertion order, the shared store now lists them in another order"
	}
	for i := range t.queries {
		if !lookups {
			break
		}
		q := &t.queries[i]
		if q.acc == "All" {
			continue // compared above (including the order when a lone listing has a stable one)
		}
		if !c20SameStrings(c20FPs(q.call(t.pool)), q.lone) {
			return fmt.Sprintf("lookup-%s-differs:a %s that returned %d certificate(s) before the store was shared returns something else now", q.acc, q.acc, len(q.lone))
		}
	}
	return ""
}

func c20SplitWhat(s string) (string, string) {
	if i := strings.IndexByte(s, ':'); i >= 0 {
		return s[:i], s[i+1:]
	}
	return s, s
}

// ---------------------------------------------------------------------------------------
// building the stores

type c20Store struct {
	kind    string
	targets []*c20Target
	main    *c20Target
	parsed  []cms.Certificate // the slice given to AddCerts (kind generic-addcerts), caller-owned afterwards
}

var c20StoreKinds = []string{"generic-add", "signed-data", "combined", "generic-addcerts"}

func c20GenericAdd(certs [][]byte) *cms.GenericCertPool {
	p := &cms.GenericCertPool{}
	for _, c := range certs {
		// Add keeps parsing views of its argument: give it a buffer nobody else holds
		if err := p.Add(append([]byte{}, c...)); err != nil {
			fw.LibFail("trust-store-rejects-certificate", "GenericCertPool.Add rejects a well-formed certificate: %v", err)
		}
	}
	return p
}

func c20MasterListPool(seed uint64, certs [][]byte) *cms.SignedDataCertPool {
	r := mrand.New(mrand.NewPCG(seed, 77))
	root := issuer.NewPKI(r, issuer.PKIOpts{Country: "DE", CertHash: issuer.SHA256,
		CSCAName: issuer.SimpleName("DE", "BSI", "CSCA root"), DSName: issuer.SimpleName("DE", "BSI", "Master List Signer")})
	s := root.SignerSpec(issuer.SHA256, false)
	st := issuer.BaseTime
	s.EContentType, s.EContent, s.SigningTime = issuer.OIDCscaMasterList, issuer.MasterListContent(certs), &st
	ml := issuer.BuildSignedData(r, s)
	pool, err := cms.CreateCertPoolFromSignedData(ml, root.CSCACert)
	if err != nil || pool == nil {
		fw.LibFail("genuine-master-list-rejected", "CreateCertPoolFromSignedData rejects a correctly signed master list: %v", err)
	}
	return pool
}

// c20BuildStore is a pure function of (kind, seed, certs): the twin for the lone
// destructive probe is built by calling it again.
func c20BuildStore(kind string, seed uint64, certs [][]byte) *c20Store {
	st := &c20Store{kind: kind}
	switch kind {
	case "generic-add":
		st.main = &c20Target{name: kind, pool: c20GenericAdd(certs), wantRaw: certs}
		st.targets = []*c20Target{st.main}
	case "signed-data":
		st.main = &c20Target{name: kind, pool: c20MasterListPool(seed, certs), wantRaw: certs}
		st.targets = []*c20Target{st.main}
	case "combined":
		h := 1 + int(seed%uint64(len(certs)-1))
		g := c20GenericAdd(certs[:h])
		// a caller-built SignedDataCertPool (zero value filled through the embedded Add)
		sd := &cms.SignedDataCertPool{}
		for _, c := range certs[h:] {
			if err := sd.Add(append([]byte{}, c...)); err != nil {
				fw.LibFail("trust-store-rejects-certificate", "SignedDataCertPool.Add rejects a well-formed certificate: %v", err)
			}
		}
		cp := &cms.CombinedCertPool{}
		cp.AddCertPool(g)
		cp.AddCertPool(sd)
		st.main = &c20Target{name: kind, pool: cp, wantRaw: certs}
		st.targets = []*c20Target{st.main, {name: "combined/inner-generic", pool: g, wantRaw: certs[:h]}, {name: "combined/inner-signed-data", pool: sd, wantRaw: certs[h:]}}
	case "generic-addcerts":
		var cat []byte
		for _, c := range certs {
			cat = append(cat, c...)
		}
		parsed, err := cms.ParseCertificates(cat)
		if err != nil || len(parsed) != len(certs) {
			fw.LibFail("parse-certificates-failed", "ParseCertificates of %d concatenated well-formed certificates: %d, %v", len(certs), len(parsed), err)
		}
		p := &cms.GenericCertPool{}
		p.AddCerts(parsed)
		st.parsed = parsed
		st.main = &c20Target{name: kind, pool: p, wantRaw: certs}
		st.targets = []*c20Target{st.main}
	default:
		fw.Bug("store kind %q", kind)
	}
	return st
}

// a store that hands out its own slice: the self-test of the quiescent-point oracle
type c20LeakyPool struct{ certs []cms.Certificate }

func (p *c20LeakyPool) BySKI([]byte) []cms.Certificate                      { return nil }
func (p *c20LeakyPool) ByIssuerAndSerial([]byte) ([]cms.Certificate, error) { return nil, nil }
func (p *c20LeakyPool) ByIssuerCountry(string) []cms.Certificate            { return nil }
func (p *c20LeakyPool) All() []cms.Certificate                              { return p.certs }

var c20ListerSelfTest sync.Once

func c20SelfTestLeaky(certs [][]byte) {
	c20ListerSelfTest.Do(func() {
		for _, op := range []int{c20OpReverse, c20OpRotate, c20OpZero, c20OpFieldZero} {
			lp := &c20LeakyPool{}
			for _, c := range certs {
				pc, err := cms.ParseCertificates(append([]byte{}, c...))
				if err != nil {
					fw.LibFail("parse-certificates-failed", "ParseCertificates: %v", err)
				}
				lp.certs = append(lp.certs, pc...)
			}
			t := &c20Target{name: "self-test", pool: lp, wantRaw: certs}
			c20Lone(t, mrand.New(mrand.NewPCG(1, 1)), 0)
			t.queries = t.queries[:1] // All only
			if c20StoreCheck(t) != "" {
				fw.Bug("C20 lister self-test: the untouched leaky store already differs")
			}
			u := &c20Use{op: op, r: mrand.New(mrand.NewPCG(2, 2))}
			u.extra = lp.certs[len(lp.certs)-1]
			u.use(lp.All()) // not through a marker: single goroutine, harness-owned store
			if c20StoreCheck(t) == "" {
				fw.Bug("C20 lister self-test: scribble %q over the listing of a store that hands out its own slice went unnoticed", c20OpNames[op])
			}
		}
	})
}

// ---------------------------------------------------------------------------------------
// goroutine plumbing

type c20Fail struct {
	key, what string
	detail    any
}

// c20Guard runs f in the calling goroutine and converts a panic below library code (or
// inside a marked access to caller-owned memory, which by construction cannot fail unless
// that memory changes under the caller's feet) into a failure record.
func c20Guard(fails *[]c20Fail, f func()) {
	defer func() {
		if r := recover(); r != nil {
			st := string(debug.Stack())
			if key, trimmed, ok := fw.LibPanic(st); ok {
				*fails = append(*fails, c20Fail{key, fmt.Sprintf("library panicked in a client goroutine: %v", r), map[string]any{"stack": trimmed}})
				return
			}
			if i := strings.Index(st, "verifCallerOwnedResult_"); i >= 0 {
				acc := st[i+len("verifCallerOwnedResult_"):]
				if j := strings.IndexAny(acc, "( \n"); j >= 0 {
					acc = acc[:j]
				}
				*fails = append(*fails, c20Fail{"concurrency:lister:caller-owned-result-changed-under-the-caller:" + acc, fmt.Sprintf("the listing %s returned changed while its only owner was using it: %v", acc, r), map[string]any{"stack": tailStr(st, 2500)}})
				return
			}
			panic(r)
		}
	}()
	f()
}

type c20ListerStats struct {
	calls     map[string]int
	scribbles map[string]int
	equalLone int
	inputs    map[string]int
	fails     []c20Fail
}

func newC20ListerStats() *c20ListerStats {
	return &c20ListerStats{calls: map[string]int{}, scribbles: map[string]int{}, inputs: map[string]int{}}
}

// c20ListerLoop is the body of one lister goroutine: at least minOps accessor calls, more
// while readers are still running (busy > 0), never more than maxOps.
func c20ListerLoop(st *c20ListerStats, seed uint64, targets []*c20Target, extra cms.Certificate, busy *atomic.Int32, minOps, maxOps int, sleepUs int, scribble bool) {
	c20ListerLoopEx(st, seed, targets, extra, busy, minOps, maxOps, sleepUs, scribble, 3)
}

// allOneIn: every allOneIn-th call on average is forced to be All() (the full listing);
// 0: only the first call is All().
func c20ListerLoopEx(st *c20ListerStats, seed uint64, targets []*c20Target, extra cms.Certificate, busy *atomic.Int32, minOps, maxOps int, sleepUs int, scribble bool, allOneIn int) {
	lr := mrand.New(mrand.NewPCG(seed, 9))
	for n := 0; n < maxOps && (n < minOps || busy.Load() > 0); n++ {
		if sleepUs > 0 {
			time.Sleep(time.Duration(lr.IntN(sleepUs)) * time.Microsecond)
		}
		t := targets[lr.IntN(len(targets))]
		q := &t.queries[0]
		if allOneIn == 0 && n > 0 {
			// big store: the full listing once, lookups afterwards
			q = &t.queries[1+lr.IntN(len(t.queries)-1)]
		} else if allOneIn > 0 && lr.IntN(allOneIn) != 0 {
			q = &t.queries[lr.IntN(len(t.queries))]
		}
		op := c20OpNone
		if scribble {
			op = lr.IntN(c20NConcurrentOps)
		}
		l := q.call(t.pool)
		u := &c20Use{op: op, r: lr, want: q.lone, extra: extra}
		st.calls[q.acc]++
		st.scribbles[c20OpNames[op]]++
		if c20Owned(q.acc, l, u) {
			st.fails = append(st.fails, c20Fail{"concurrency:lister:lookup-differs-from-lone-call:" + q.acc,
				fmt.Sprintf("%s on the shared store %s returned %d certificate(s) that differ from what the same call returned before the store was shared (%d)", q.acc, t.name, len(l), len(q.lone)), nil})
			return
		}
		st.equalLone++
	}
}

func c20Report(k *fw.K, fails []c20Fail) bool {
	seen := map[string]bool{}
	for _, f := range fails {
		if !seen[f.key] {
			seen[f.key] = true
			k.Violation(f.key, f.what, f.detail)
		}
	}
	return len(fails) > 0
}

func c20CountMap(k *fw.K, prefix string, m map[string]int) {
	for name, n := range m {
		k.CountN(prefix+name, int64(n))
	}
}

func c20ChainOf(d *document.DocumentEx) [][]byte {
	if d == nil || d.Session.PassiveAuthResult == nil || d.Session.PassiveAuthResult.Sod == nil {
		return nil
	}
	return d.Session.PassiveAuthResult.Sod.CertChain
}

// c20SeqProbe: one lone lister on an unshared twin of the store - every accessor's result
// is wiped / rewritten and the store must not notice. Pinpoints accessor and scribble.
func c20SeqProbe(k *fw.K, st *c20Store, r *mrand.Rand, extra cms.Certificate, maxCerts int) bool {
	for _, t := range st.targets {
		c20Lone(t, r, maxCerts)
	}
	for _, t := range st.targets {
		for qi := range t.queries {
			q := &t.queries[qi]
			if !q.hit {
				continue
			}
			for _, op := range []int{c20OpReverse, c20OpTruncAppend, c20OpAppendSpare, c20OpFieldZero, c20OpZero} {
				l := q.call(t.pool)
				u := &c20Use{op: op, r: r, want: q.lone, extra: extra}
				if c20Owned(q.acc, l, u) {
					k.Violation("concurrency:lister:lookup-differs-from-lone-call:"+q.acc, "a repeated lone "+q.acc+" on store "+t.name+" returns something else than the first one", nil)
					return false
				}
				k.Count("lister_probe_scribbles_" + c20OpNames[op])
				for _, t2 := range st.targets {
					if d := c20StoreCheck(t2); d != "" {
						what, long := c20SplitWhat(d)
						k.Violation(fmt.Sprintf("concurrency:lister:store-changed-by-caller-owned-write:%s:%s:after-%s-%s", t2.name, what, q.acc, c20OpNames[op]),
							fmt.Sprintf("a client applied %q to ITS OWN listing returned by %s of store %s (nobody else was using the store); afterwards store %s differs from what was added: %s", c20OpNames[op], q.acc, t.name, t2.name, long), nil)
						return false
					}
				}
			}
		}
	}
	if st.parsed != nil {
		verifCallerOwnedInput_AddCerts(st.parsed)
		k.Count("lister_input_scribbles_AddCerts")
		if d := c20StoreCheck(st.main); d != "" {
			what, long := c20SplitWhat(d)
			k.Violation("concurrency:lister:store-changed-by-caller-owned-write:"+st.main.name+":"+what+":after-AddCerts-input-zeroed",
				"the caller wiped the slice it had passed to AddCerts after the call returned; the store changed: "+long, nil)
			return false
		}
	}
	k.Count("lister_probe_rounds_ok")
	return true
}

// ---------------------------------------------------------------------------------------
// workload: listers, readers, verifiers sharing one caller-built store

func c20Lister(k *fw.K, round int) {
	r := k.RNG
	c20Export()
	kind := c20StoreKinds[round%len(c20StoreKinds)]
	persos := []*perso.Perso{c20Perso(r, false), c20Perso(r, round%5 == 4)}
	var certs [][]byte
	for _, p := range persos {
		certs = append(certs, p.Trust...)
	}
	certs = append(certs, c20Blob.trust...)
	nDecoy := 1 + r.IntN(3)
	for i := 0; i <= nDecoy; i++ {
		cc := persos[i%2].Opts.Country[1] // same issuer country as a genuine CSCA: multi-element country lookups
		if i == 2 {
			cc = "QQ"
		}
		pk := issuer.NewPKI(r, issuer.PKIOpts{Country: cc, CertHash: issuer.SHA256, CSCAName: issuer.SimpleName(cc, "Decoy Gov", fmt.Sprintf("CSCA decoy %d-%d", round, i))})
		certs = append(certs, pk.CSCACert)
	}
	// the last decoy stays out of the store: it is the listers' own certificate
	extraDER := certs[len(certs)-1]
	certs = certs[:len(certs)-1]
	r.Shuffle(len(certs), func(i, j int) { certs[i], certs[j] = certs[j], certs[i] })
	ex, err := cms.ParseCertificates(append([]byte{}, extraDER...))
	if err != nil || len(ex) != 1 {
		fw.LibFail("parse-certificates-failed", "ParseCertificates: %v", err)
	}
	extra := ex[0]
	c20SelfTestLeaky(certs)

	storeSeed := r.Uint64()
	st := c20BuildStore(kind, storeSeed, certs)
	for _, t := range st.targets {
		c20Lone(t, r, 8)
	}
	pool := st.main.pool
	k.Distinct(fmt.Sprintf("lister|%s|%d|%d", kind, round, len(certs)))

	// lone verification on the not yet shared store
	loneVerify := ""
	{
		res, err := verifier.NewVerifier(pool).Verify(append([]byte{}, c20Blob.blob...))
		if err != nil || res == nil {
			fw.LibFail("lone-verify-failed", "a lone Verify of a genuine export fails: %v", err)
		}
		loneVerify = fmt.Sprintf("%v/%v", res.Summary().DataTrusted, res.Summary().ChipAuthenticity)
		if res.Summary().DataTrusted {
			k.Count("lister_lone_verify_trusted")
		}
	}
	wantRead := "true/" + document.ChipAuthStatus(document.CHIP_AUTH_STATUS_AA).String()

	nRead, nVer, nList, nLook := 3, 2, 3, 1
	type result struct {
		kind   string
		ok     bool
		sum    string
		chalOK bool
		chain  int
		fails  []c20Fail
	}
	results := make([]result, nRead+nVer)
	lstats := make([]*c20ListerStats, nList+nLook)
	seeds := make([]uint64, nRead+nVer+nList+nLook)
	for i := range seeds {
		seeds[i] = r.Uint64()
	}
	chals := make([][]byte, nRead)
	for i := range chals {
		chals[i] = randBytes(r, 8)
	}
	var busy atomic.Int32
	busy.Store(int32(nRead + nVer))
	start := make(chan struct{})
	var wg sync.WaitGroup
	for g := 0; g < nRead+nVer; g++ {
		wg.Add(1)
		go func(g int) {
			defer wg.Done()
			defer busy.Add(-1)
			res := &results[g]
			<-start
			c20Guard(&res.fails, func() {
				if g >= nRead {
					res.kind = "verify"
					own := append([]byte{}, c20Blob.blob...)
					d, err := verifier.NewVerifier(pool).Verify(own)
					verifCallerOwnedInput_VerifyData(own)
					res.ok = err == nil && d != nil
					res.chalOK = true
					if d != nil {
						res.sum = fmt.Sprintf("%v/%v", d.Summary().DataTrusted, d.Summary().ChipAuthenticity)
						ch := c20ChainOf(d)
						res.chain = len(ch)
						verifCallerOwnedResult_CertChain(ch)
					}
					return
				}
				res.kind = "read"
				p := persos[g%2]
				chip := &c20Chip{card: p.NewCard(seeds[g]), r: mrand.New(mrand.NewPCG(seeds[g], 4)), reuseResp: true}
				rd := reader.NewReader(nil, iso7816.NewNfcSession(chip), pool)
				own := append([]byte{}, chals[g]...)
				if _, err := rd.WithAAChallenge(own); err != nil {
					res.fails = append(res.fails, c20Fail{"setup:challenge-rejected", fmt.Sprintf("WithAAChallenge rejects 8 bytes: %v", err), nil})
					return
				}
				verifCallerOwnedInput_Challenge(own)
				pw, _ := passwordFor(p)
				chip.begin()
				d, _, err := rd.ReadDocument(pw, nil, nil)
				_, _, _, seen := chip.observed()
				res.ok = err == nil && d != nil
				res.chalOK = bytes.Equal(seen, chals[g])
				if d != nil {
					res.sum = fmt.Sprintf("%v/%v", d.Summary().DataTrusted, d.Summary().ChipAuthenticity)
					ch := c20ChainOf(d)
					res.chain = len(ch)
					verifCallerOwnedResult_CertChain(ch)
				}
			})
		}(g)
	}
	for g := 0; g < nList+nLook; g++ {
		lstats[g] = newC20ListerStats()
		wg.Add(1)
		go func(g int) {
			defer wg.Done()
			ls := lstats[g]
			<-start
			c20Guard(&ls.fails, func() {
				if g == 0 && st.parsed != nil {
					// the slice given to AddCerts is the caller's again
					verifCallerOwnedInput_AddCerts(st.parsed)
					ls.inputs["AddCerts"]++
				}
				c20ListerLoop(ls, seeds[nRead+nVer+g], st.targets, extra, &busy, 60, 500, 1200, g < nList)
			})
		}(g)
	}
	close(start)
	wg.Wait()

	k.AddEvals(int64(nRead + nVer))
	var fails []c20Fail
	chains := 0
	for g := range results {
		res := &results[g]
		fails = append(fails, res.fails...)
		if len(res.fails) > 0 {
			continue
		}
		want := wantRead
		if res.kind == "verify" {
			want = loneVerify
		}
		if !res.ok || res.sum != want {
			fails = append(fails, c20Fail{"concurrency:lister:result-differs:" + res.kind, fmt.Sprintf("call %d (%s) sharing the %s store with listers returned %v %q, a lone call returns %q", g, res.kind, kind, res.ok, res.sum, want), nil})
		} else if !res.chalOK {
			fails = append(fails, c20Fail{"concurrency:caller-owned-input-retained:WithAAChallenge", "the chip received another challenge than the one set: the caller overwrote its own buffer after WithAAChallenge had returned", nil})
		}
		chains += res.chain
	}
	for _, ls := range lstats {
		fails = append(fails, ls.fails...)
		k.AddEvals(int64(ls.equalLone))
		c20CountMap(k, "lister_calls_", ls.calls)
		c20CountMap(k, "lister_scribbles_", ls.scribbles)
		c20CountMap(k, "lister_input_scribbles_", ls.inputs)
		k.CountN("lister_concurrent_lookups_equal_lone", int64(ls.equalLone))
	}
	k.CountN("lister_input_scribbles_Challenge", int64(nRead))
	k.CountN("lister_input_scribbles_VerifyData", int64(nVer))
	k.CountN("lister_input_scribbles_Response_chips", int64(nRead))
	k.CountN("lister_result_chain_certificates_scribbled", int64(chains))
	held := !c20Report(k, fails)
	// quiescent point: the store still holds exactly what was added
	for _, t := range st.targets {
		if !held {
			break
		}
		if d := c20StoreCheck(t); d != "" {
			what, long := c20SplitWhat(d)
			k.Violation("concurrency:lister:store-changed:"+t.name+":"+what+":after-concurrent-listers",
				fmt.Sprintf("after %d listers rewrote their own listings while %d readers and %d verifiers shared the %s store, store %s differs from what was added: %s", nList, nRead, nVer, kind, t.name, long), nil)
			held = false
			break
		}
		k.Count("lister_store_checks_ok")
	}
	// lone destructive probe on an unshared twin (whatever the shared store went through:
	// it names the accessor and the kind of write the store does not survive)
	twin := c20BuildStore(kind, storeSeed, certs)
	if !c20SeqProbe(k, twin, r, extra, 3) || !held {
		return
	}
	k.Count("lister_rounds_ok_" + kind)
	k.Sample("lister", map[string]any{"store": kind, "certificates": len(certs), "targets": len(st.targets), "queries": len(st.main.queries),
		"lister_calls": lstats[0].calls, "lister_scribbles": lstats[0].scribbles})
}

// ---------------------------------------------------------------------------------------
// workload: listers on the built-in store behind the mobile bindings, one shared
// mobile.Verifier, NewSampleDocument callers; Document accessors' results are caller-owned

var c20MobileAccessors = []struct {
	name string
	f    func(d *mobile.Document) ([]byte, error)
}{
	{"SummaryJson", (*mobile.Document).SummaryJson},
	{"DocumentExJson", (*mobile.Document).DocumentExJson},
	{"DocumentExCbor", (*mobile.Document).DocumentExCbor},
	{"ApduLogJson", (*mobile.Document).ApduLogJson},
}

func c20Hash(b []byte) string { return fmt.Sprintf("%x", sha256.Sum256(b))[:16] }

func c20MobileLister(k *fw.K, round int) {
	r := k.RNG
	c20Export()
	if err := mobile.PreloadCscaCertPool(); err != nil {
		fw.LibFail("builtin-trust-store-failed", "PreloadCscaCertPool: %v", err)
	}
	bp := mobile.VerifCscaCertPool()
	if bp == nil {
		fw.LibFail("builtin-trust-store-failed", "no built-in pool after PreloadCscaCertPool")
	}
	t := &c20Target{name: "mobile-builtin", pool: bp}
	c20Lone(t, r, 1)
	for _, cc := range []string{"DE", "NL", "ID"}[round%3 : round%3+1] {
		q := c20Query{acc: "ByIssuerCountry", arg: []byte(cc), hit: true}
		q.lone = c20FPs(q.call(bp))
		if len(q.lone) > 0 {
			t.queries = append(t.queries, q)
		}
	}
	k.Distinct(fmt.Sprintf("mobile-lister|%d|%d", round, len(t.loneAll)))
	k.Max("max_builtin_store_certificates", int64(len(t.loneAll)))
	pk := issuer.NewPKI(r, issuer.PKIOpts{Country: "QQ", CertHash: issuer.SHA256})
	ex, err := cms.ParseCertificates(append([]byte{}, pk.CSCACert...))
	if err != nil || len(ex) != 1 {
		fw.LibFail("parse-certificates-failed", "ParseCertificates: %v", err)
	}
	extra := ex[0]

	// lone calls
	stable := map[string]bool{}
	loneAcc := map[string]string{}
	{
		d, err := mobile.NewVerifier().Verify(append([]byte{}, c20Blob.blob...))
		if err != nil || d == nil {
			fw.LibFail("lone-verify-failed", "a lone mobile Verify of a genuine export fails: %v", err)
		}
		d2, _ := mobile.NewVerifier().Verify(append([]byte{}, c20Blob.blob...))
		for _, a := range c20MobileAccessors {
			b1, e1 := a.f(d)
			b2, e2 := a.f(d)
			var b3 []byte
			if d2 != nil {
				b3, _ = a.f(d2)
			}
			// only what is reproducible between two lone calls can be demanded of a concurrent one
			stable[a.name] = e1 == nil && e2 == nil && bytes.Equal(b1, b2) && bytes.Equal(b1, b3)
			loneAcc[a.name] = c20Hash(b1)
			if stable[a.name] {
				k.Count("mobile_accessor_reproducible_" + a.name)
			}
		}
	}
	loneSample := ""
	{
		d, err := mobile.NewSampleDocument()
		if err != nil || d == nil {
			fw.LibFail("sample-document-failed", "NewSampleDocument: %v", err)
		}
		b, _ := d.SummaryJson()
		loneSample = c20Hash(b)
	}

	nVer, nSample, nList := 3, 2, 2
	mv := mobile.NewVerifier() // one verifier object shared by all verifying goroutines
	type result struct {
		fails []c20Fail
		calls int
	}
	results := make([]result, nVer+nSample)
	lstats := make([]*c20ListerStats, nList)
	seeds := make([]uint64, nVer+nSample+nList)
	for i := range seeds {
		seeds[i] = r.Uint64()
	}
	var busy atomic.Int32
	busy.Store(int32(nVer + nSample))
	start := make(chan struct{})
	var wg sync.WaitGroup
	for g := 0; g < nVer+nSample; g++ {
		wg.Add(1)
		go func(g int) {
			defer wg.Done()
			defer busy.Add(-1)
			res := &results[g]
			<-start
			c20Guard(&res.fails, func() {
				for n := 0; n < 2; n++ {
					if g >= nVer {
						d, err := mobile.NewSampleDocument()
						if err != nil || d == nil {
							res.fails = append(res.fails, c20Fail{"concurrency:mobile-lister:result-differs:sample", fmt.Sprintf("NewSampleDocument fails beside listers of the built-in store: %v", err), nil})
							return
						}
						b, _ := d.SummaryJson()
						if c20Hash(b) != loneSample {
							res.fails = append(res.fails, c20Fail{"concurrency:mobile-lister:result-differs:sample", "NewSampleDocument's summary differs from the lone call's", map[string]any{"summary": string(b)}})
							return
						}
						verifCallerOwnedResult_MobileBytes(b)
						res.calls++
						continue
					}
					own := append([]byte{}, c20Blob.blob...)
					d, err := mv.Verify(own)
					verifCallerOwnedInput_VerifyData(own)
					if err != nil || d == nil {
						res.fails = append(res.fails, c20Fail{"concurrency:mobile-lister:result-differs:verify", fmt.Sprintf("a shared mobile.Verifier fails beside listers of the built-in store: %v", err), nil})
						return
					}
					res.calls++
					for _, a := range c20MobileAccessors {
						b1, e1 := a.f(d)
						h1 := c20Hash(b1)
						verifCallerOwnedResult_MobileBytes(b1)
						b2, e2 := a.f(d)
						if !stable[a.name] {
							continue
						}
						if e1 != nil || h1 != loneAcc[a.name] {
							res.fails = append(res.fails, c20Fail{"concurrency:mobile-lister:result-differs:verify:" + a.name, a.name + " of a concurrent Verify's document differs from the lone call's", nil})
							return
						}
						if e2 != nil || c20Hash(b2) != h1 {
							res.fails = append(res.fails, c20Fail{"concurrency:mobile-document:accessor-result-aliased:" + a.name, "the caller overwrote the bytes " + a.name + " had returned; the next " + a.name + " of the same document returns something else", nil})
							return
						}
					}
				}
			})
		}(g)
	}
	for g := 0; g < nList; g++ {
		lstats[g] = newC20ListerStats()
		wg.Add(1)
		go func(g int) {
			defer wg.Done()
			ls := lstats[g]
			<-start
			c20Guard(&ls.fails, func() {
				c20ListerLoopEx(ls, seeds[nVer+nSample+g], []*c20Target{t}, extra, &busy, 6, 16, 3000, true, 0)
			})
		}(g)
	}
	close(start)
	wg.Wait()

	var fails []c20Fail
	for g := range results {
		fails = append(fails, results[g].fails...)
		k.AddEvals(int64(results[g].calls))
		if g < nVer {
			k.CountN("mobile_lister_shared_verifier_calls", int64(results[g].calls))
			k.CountN("mobile_document_accessor_results_scribbled", int64(results[g].calls*len(c20MobileAccessors)))
		} else {
			k.CountN("mobile_lister_sample_document_calls", int64(results[g].calls))
		}
	}
	for _, ls := range lstats {
		fails = append(fails, ls.fails...)
		k.AddEvals(int64(ls.equalLone))
		c20CountMap(k, "mobile_lister_calls_", ls.calls)
		c20CountMap(k, "mobile_lister_scribbles_", ls.scribbles)
	}
	if c20Report(k, fails) {
		return
	}
	if d := c20StoreCheck(t); d != "" {
		what, long := c20SplitWhat(d)
		k.Violation("concurrency:lister:store-changed:"+t.name+":"+what+":after-concurrent-listers",
			"after listers rewrote their own listings of the built-in trust store beside a shared mobile.Verifier, the store differs from its lone listing: "+long, nil)
		return
	}
	// lone destructive scribbles over every accessor's result of the built-in store (the
	// listing of about a thousand certificates is compared after the scribbles over All()
	// and once more, with every lookup, at the end)
	last := ""
	for qi := range t.queries {
		q := &t.queries[qi]
		if !q.hit {
			continue
		}
		ops := []int{c20OpZero}
		if q.acc == "All" {
			ops = []int{c20OpReverse, c20OpZero}
		}
		for _, op := range ops {
			l := q.call(bp)
			c20Owned(q.acc, l, &c20Use{op: op, r: r, extra: extra})
			k.Count("mobile_lister_probe_scribbles_" + c20OpNames[op])
		}
		last = q.acc
		if q.acc != "All" {
			continue
		}
		if d := c20StoreCheckEx(t, false); d != "" {
			what, long := c20SplitWhat(d)
			k.Violation(fmt.Sprintf("concurrency:lister:store-changed-by-caller-owned-write:%s:%s:after-All-scribbles", t.name, what),
				"a client reversed, then wiped its own listings returned by All of the built-in store; the store changed: "+long, nil)
			return
		}
	}
	if d := c20StoreCheck(t); d != "" {
		what, long := c20SplitWhat(d)
		k.Violation(fmt.Sprintf("concurrency:lister:store-changed-by-caller-owned-write:%s:%s:after-lookup-scribbles", t.name, what),
			"a client wiped its own results of BySKI / ByIssuerCountry / ByIssuerAndSerial of the built-in store (last: "+last+"); the store changed: "+long, nil)
		return
	}
	k.Count("mobile_lister_rounds_ok")
}
