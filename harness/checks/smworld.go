package checks

import (
	"fmt"
	"math/big"
	mrand "math/rand/v2"

	"github.com/gmrtd/gmrtd/cryptoutils"
	"github.com/gmrtd/gmrtd/iso7816"

	"verifharness/chipsim"
	"verifharness/fw"
	"verifharness/symref"
)

// funcTransceiver adapts a function to gmrtd's Transceiver interface and records what
// the library handed over (separate fields and encoded bytes).
type funcTransceiver struct {
	f    func(raw []byte) []byte
	last struct {
		cla, ins, p1, p2, le int
		data, enc            []byte
	}
	n    int
	rbuf []byte
}

// reuseReceiveBuffer: in every third case the simulated link hands out ONE receive buffer
// for all responses of a transceiver (as an NFC driver with a fixed buffer does): the bytes
// of a response are overwritten when the next response arrives. The transceiver interface is
// silent on ownership, so a conforming terminal must have copied what it still needs.
var reuseReceiveBuffer bool

func init() {
	fw.CaseStart = func(k *fw.K) { reuseReceiveBuffer = k.Idx%3 == 1 }
}

func (t *funcTransceiver) Transceive(cla, ins, p1, p2 int, data []byte, le int, enc []byte) []byte {
	t.n++
	t.last.cla, t.last.ins, t.last.p1, t.last.p2, t.last.le = cla, ins, p1, p2, le
	t.last.data = append([]byte{}, data...)
	t.last.enc = append([]byte{}, enc...)
	resp := t.f(append([]byte{}, enc...))
	if !reuseReceiveBuffer || resp == nil {
		return resp
	}
	if len(t.rbuf) < len(resp)+32 {
		t.rbuf = make([]byte, len(resp)+70000)
	}
	n := copy(t.rbuf, resp)
	for i := n; i < n+32; i++ {
		t.rbuf[i] = 0xA5
	}
	return t.rbuf[:n:n]
}

func libAlg(s symref.Suite) cryptoutils.BlockCipherAlg {
	if s == symref.TDES {
		return cryptoutils.TDES
	}
	return cryptoutils.AES
}

func randBytes(r *mrand.Rand, n int) []byte {
	b := make([]byte, n)
	for i := range b {
		b[i] = byte(r.Uint32())
	}
	return b
}

func randKey(r *mrand.Rand, s symref.Suite) []byte {
	k := randBytes(r, s.KeyLen())
	if s == symref.TDES {
		k = symref.AdjustParity(k)
	}
	return k
}

// startSSC picks an initial counter: zero, random, or a value about to wrap.
func startSSC(r *mrand.Rand, s symref.Suite, mode int) []byte {
	n := s.BlockSize()
	ssc := make([]byte, n)
	switch mode % 5 {
	case 0:
	case 1:
		copy(ssc, randBytes(r, n))
	case 2: // all FF minus a few: wraps within the session
		for i := range ssc {
			ssc[i] = 0xff
		}
		ssc[n-1] = 0xff - byte(r.IntN(6))
	case 3: // a carry chain of c trailing FF bytes under a random upper part (c = 8: the low half of an AES counter carries into the upper half)
		copy(ssc, randBytes(r, n))
		chains := []int{8, 8, 8, 1, 2, 3, 4, 7, 9, 12, 15}
		c := chains[r.IntN(len(chains))]
		if c >= n {
			c = n - 1
		}
		for i := n - c; i < n; i++ {
			ssc[i] = 0xff
		}
		ssc[n-1] = 0xff - byte(r.IntN(5))
		if ssc[n-c-1] == 0xff {
			ssc[n-c-1] = 0x2a
		}
	case 4: // leading zeros with random tail
		copy(ssc[n/2:], randBytes(r, n-n/2))
	}
	return ssc
}

func newLibSM(k *fw.K, s symref.Suite, kenc, kmac, ssc []byte) *iso7816.SecureMessaging {
	sm, err := iso7816.NewSecureMessaging(libAlg(s), append([]byte{}, kenc...), append([]byte{}, kmac...))
	if err != nil {
		fw.LibFail("new-secure-messaging-failed", "NewSecureMessaging(%v) with valid keys: %v", s, err)
	}
	// The counter is handed over in a scratch buffer of the caller's, as a terminal that
	// derives it on the fly does; in three of four cases the caller wipes or re-uses that
	// buffer straight afterwards (a pure function of the case index). The counter of the
	// session is the value at the time of the call.
	buf := append([]byte{}, ssc...)
	if err := sm.SetSSC(buf); err != nil {
		fw.LibFail("set-ssc-failed", "SetSSC with a counter of the right length: %v", err)
	}
	scribble(buf, int(k.Idx%4))
	return sm
}

// scribble is what a caller does to a buffer it owns once the callee has returned:
// 0 nothing, 1 wipe, 2 fill with other bytes, 3 count it up (re-use for the next value).
func scribble(b []byte, how int) {
	switch how % 4 {
	case 1:
		for i := range b {
			b[i] = 0
		}
	case 2:
		for i := range b {
			b[i] = b[i]*31 + 0xA7 + byte(i)
		}
	case 3:
		chipsim.IncSSC(b)
		chipsim.IncSSC(b)
		chipsim.IncSSC(b)
	}
}

var scribbleNames = []string{"kept", "wiped", "refilled", "counted-up"}

// plainCmd is a generated unprotected command.
type plainCmd struct {
	cla, ins, p1, p2 byte
	data             []byte
	ne               int
}

func (p plainCmd) String() string {
	return fmt.Sprintf("%02x%02x%02x%02x nc=%d ne=%d", p.cla, p.ins, p.p1, p.p2, len(p.data), p.ne)
}

func (p plainCmd) capdu() *iso7816.CApdu {
	var d []byte
	if len(p.data) > 0 {
		d = append([]byte{}, p.data...)
	}
	return iso7816.NewCApdu(p.cla, p.ins, p.p1, p.p2, d, p.ne)
}

var smDataLens = []int{0, 1, 2, 7, 8, 9, 15, 16, 17, 31, 32, 33, 100, 223, 230, 231, 232, 238, 239, 240, 246, 247, 248, 254, 255, 256, 257, 300, 1000}
var smBigDataLens = []int{4000, 32767, 65000, 65200, 65400, 65470}
var smNes = []int{0, 1, 4, 8, 255, 256, 257, 1000, 65535, 65536}

func genPlainCmd(r *mrand.Rand, allowBig bool) plainCmd {
	var p plainCmd
	// class byte as the caller builds it: plain, command chaining (10), proprietary (80)
	p.cla = []byte{0x00, 0x00, 0x00, 0x10, 0x80, 0x90}[r.IntN(6)]
	switch r.IntN(6) {
	case 0: // SELECT EF
		p.ins, p.p1, p.p2 = 0xA4, 0x02, 0x0C
		p.data = randBytes(r, 2)
		return p
	case 1: // READ BINARY
		p.ins, p.p1, p.p2 = 0xB0, byte(r.IntN(0x80)), byte(r.Uint32())
		p.ne = smNes[1+r.IntN(len(smNes)-1)]
		return p
	case 2: // odd-INS READ BINARY (B1) with offset DO
		p.ins = 0xB1
		p.data = append([]byte{0x54, 0x02}, randBytes(r, 2)...)
		p.ne = smNes[1+r.IntN(len(smNes)-1)]
		return p
	}
	p.ins = byte(r.Uint32())
	if p.ins&0xF0 == 0x60 || p.ins&0xF0 == 0x90 {
		p.ins = 0x86
	}
	p.p1, p.p2 = byte(r.Uint32()), byte(r.Uint32())
	n := smDataLens[r.IntN(len(smDataLens))]
	if allowBig && r.IntN(12) == 0 {
		n = smBigDataLens[r.IntN(len(smBigDataLens))]
	}
	if r.IntN(3) == 0 {
		n = r.IntN(300)
	}
	p.data = randBytes(r, n)
	// data ending in 80 00.. patterns exercises unpadding
	if n > 3 && r.IntN(4) == 0 {
		p.data[n-1] = 0
		p.data[n-2] = 0x80
	}
	p.ne = smNes[r.IntN(len(smNes))]
	return p
}

// smLibStatusWords: every status word the library's iso7816 package names (rapdu.go).
var smLibStatusWords = []uint16{0x9000, 0x6283, 0x6982, 0x6A81, 0x6A82, 0x6A86, 0x6A87}

// smISOStatusWords: the status words ISO/IEC 7816-4:2013 table 6 and ICAO 9303-10/-11 give
// a meaning to (SW2 ranges by their first, last and a middle value), i.e. what a chip's
// operating system can put into DO'99'.
var smISOStatusWords = []uint16{
	0x9000,
	0x6100, 0x6101, 0x6110, 0x61FF,
	0x6200, 0x6202, 0x6280, 0x6281, 0x6282, 0x6283, 0x6284, 0x6285, 0x6286, 0x6287, 0x62F1,
	0x6300, 0x6381, 0x63C0, 0x63C1, 0x63C2, 0x63C3, 0x63CF, 0x63F1,
	0x6400, 0x6401, 0x6402, 0x6480,
	0x6500, 0x6581,
	0x6600, 0x6601,
	0x6700,
	0x6800, 0x6881, 0x6882, 0x6883, 0x6884,
	0x6900, 0x6981, 0x6982, 0x6983, 0x6984, 0x6985, 0x6986, 0x6987, 0x6988,
	0x6A00, 0x6A80, 0x6A81, 0x6A82, 0x6A83, 0x6A84, 0x6A85, 0x6A86, 0x6A87, 0x6A88, 0x6A89, 0x6A8A,
	0x6B00,
	0x6C00, 0x6C01, 0x6C08, 0x6C28, 0x6CFF,
	0x6D00, 0x6E00, 0x6F00, 0x6F01, 0x6FFF,
	0x9001, 0x9100, 0x9FFF,
}

// drawSW draws the status word of a genuine protected response: 9000, a status the library
// names, a status the standards name, a uniformly random interindustry status (SW1 61..6F)
// or a uniformly random 16-bit value.
func drawSW(r *mrand.Rand) uint16 {
	switch r.IntN(10) {
	case 0, 1, 2:
		return 0x9000
	case 3, 4:
		return smLibStatusWords[r.IntN(len(smLibStatusWords))]
	case 5, 6:
		return smISOStatusWords[r.IntN(len(smISOStatusWords))]
	case 7:
		return uint16(0x6100 + r.IntN(0x0F00))
	}
	return uint16(r.Uint32())
}

// swName is the part of a violation key that names a status word: the exact value for the
// named ones, the SW1 class for the rest (so that a slip that hits a whole range does not
// produce thousands of keys).
func swName(sw uint16) string {
	for _, s := range smISOStatusWords {
		if s == sw {
			return fmt.Sprintf("sw-%04x", sw)
		}
	}
	return fmt.Sprintf("sw1-%02x", sw>>8)
}

func genRespData(r *mrand.Rand, allowBig bool) []byte {
	var n int
	switch r.IntN(8) {
	case 0:
		n = 0
	case 1:
		n = []int{1, 7, 8, 9, 15, 16, 17, 255, 256, 257, 300}[r.IntN(11)]
	case 2:
		if allowBig {
			n = 1024 + r.IntN(3072)
		} else {
			n = r.IntN(64)
		}
	default:
		n = r.IntN(120)
	}
	b := randBytes(r, n)
	if n > 2 && r.IntN(4) == 0 { // plaintext that itself ends like padding
		b[n-1] = 0
		b[n-2] = 0x80
	}
	return b
}

// smPair is a terminal-side library SM and the chip-side reference SM with equal state.
type smPair struct {
	suite      symref.Suite
	kenc, kmac []byte
	chip       *chipsim.SM
}

func bytesEq(a, b []byte) bool {
	if len(a) != len(b) {
		return false
	}
	for i := range a {
		if a[i] != b[i] {
			return false
		}
	}
	return true
}

type bigInt = big.Int

func bigOne(v int64) *big.Int { return big.NewInt(v) }
