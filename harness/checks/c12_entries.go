package checks

import (
	"bytes"
	"crypto/sha1"
	"crypto/sha256"
	"crypto/sha512"
	"encoding/asn1"
	"encoding/json"
	"fmt"
	mrand "math/rand/v2"
	"strings"

	"github.com/gmrtd/gmrtd/activeauth"
	"github.com/gmrtd/gmrtd/cms"
	"github.com/gmrtd/gmrtd/document"
	"github.com/gmrtd/gmrtd/document/iso19794"
	"github.com/gmrtd/gmrtd/document/iso39794"
	"github.com/gmrtd/gmrtd/htmlreport"
	"github.com/gmrtd/gmrtd/iso7816"
	"github.com/gmrtd/gmrtd/mobile"
	"github.com/gmrtd/gmrtd/mrz"
	"github.com/gmrtd/gmrtd/password"
	"github.com/gmrtd/gmrtd/tlv"
	"github.com/gmrtd/gmrtd/verifier"

	"verifharness/chipsim"
	"verifharness/fw"
	"verifharness/issuer"
	"verifharness/mutate"
	"verifharness/refber"
	"verifharness/symref"
)

// c12Entry is one public entry point that consumes untrusted bytes.
type c12Entry struct {
	name   string
	kind   string // ber | raw | text | cbor | tuple | sm
	seeds  [][]byte
	call   func(in []byte) bool // true: the library accepted the input
	cost   int                  // divisor of the per-entry input count
	bundle int                  // inputs per case (default 50)
	// tuple entries
	parts     int
	textParts bool
	// cbor entries
	magic   string
	version uint64
	level   string // doc | ev | ex
	// sm entries
	suite symref.Suite
	// prepare runs once per worker before the entry's first call (outside any measurement)
	prepare func()
}

func c12Clone(b []byte) []byte { return append([]byte{}, b...) }

// c12Ctor adapts a constructor; accepted objects are also serialised to JSON.
func c12Ctor[T any](f func([]byte) (*T, error)) func([]byte) bool {
	return func(in []byte) bool {
		v, err := f(c12Clone(in))
		if err != nil || v == nil {
			return false
		}
		_, _ = json.Marshal(v)
		return true
	}
}

func c12LimitSeeds(s [][]byte, n int) [][]byte {
	if len(s) > n {
		return s[:n]
	}
	return s
}

// c12OIDArcs is the harness's own lenient decoder of an OBJECT IDENTIFIER element
// (06 L content); nil when the element is not a well-formed OID.
func c12OIDArcs(el []byte) asn1.ObjectIdentifier {
	n, err := refber.ParseOne(el)
	if err != nil || n.Tag != 0x06 || n.Constructed || len(n.Value) == 0 || len(n.Value) > 64 {
		return nil
	}
	var arcs []int
	v := 0
	started := false
	for i, b := range n.Value {
		if !started && b == 0x80 {
			return nil
		}
		started = true
		if v > 1<<24 {
			return nil
		}
		v = v<<7 | int(b&0x7f)
		if b&0x80 == 0 {
			if len(arcs) == 0 {
				switch {
				case v < 40:
					arcs = append(arcs, 0, v)
				case v < 80:
					arcs = append(arcs, 1, v-40)
				default:
					arcs = append(arcs, 2, v-80)
				}
			} else {
				arcs = append(arcs, v)
			}
			v, started = 0, false
		} else if i == len(n.Value)-1 {
			return nil
		}
	}
	return arcs
}

var c12FallbackOIDs = []asn1.ObjectIdentifier{
	{2, 16, 840, 1, 101, 3, 4, 2, 1}, {1, 3, 14, 3, 2, 26}, {2, 16, 840, 1, 101, 3, 4, 2, 3}, {1, 2, 840, 113549, 1, 1, 11}, {1, 2, 840, 113549, 1, 1, 10},
	{1, 2, 840, 10045, 4, 3, 2}, {1, 2, 840, 113549, 1, 1, 5}, {1, 2, 840, 10045, 4, 1}, {1, 2, 3}, {},
}

func (w *c12World) followUps(docEx *document.DocumentEx, log *iso7816.ApduLog) {
	if docEx == nil {
		return
	}
	_ = docEx.Summary()
	_, _ = json.Marshal(docEx.Summary())
	_, _ = json.Marshal(docEx)
	_, _ = docEx.ToCbor()
	_, _ = htmlreport.Generate(docEx, log)
}

func c12Entries(w *c12World) []*c12Entry {
	var es []*c12Entry
	add := func(e *c12Entry) {
		if e.cost == 0 {
			e.cost = 1
		}
		es = append(es, e)
	}
	allFiles := w.kinds("CardAccess", "COM", "DG1", "DG11", "DG12", "DG14", "DG15", "DG16", "EFDIR", "SOD", "CardSecurity", "DG2", "DG7", "DG13", "cert", "secinfos")
	tlvSeeds := c12LimitSeeds(allFiles, 40)

	// ------------------------------------------------------------------ tlv
	walk := func(nodes *tlv.TlvNodes) {
		for _, t := range []tlv.TlvTag{0x30, 0x31, 0x06, 0x04, 0x02, 0x5F1F, 0x7F61, 0xA0, 0x77, 0x61} {
			n := nodes.NodeByTag(t)
			_ = n.IsValidNode()
			_ = n.Value()
			_ = n.Children()
			_ = n.NodeByTagOccur(t, 2).Tag()
		}
	}
	add(&c12Entry{name: "tlv.Decode", kind: "ber", seeds: tlvSeeds, call: func(in []byte) bool {
		nodes, err := tlv.Decode(c12Clone(in))
		if err != nil {
			return false
		}
		walk(nodes)
		return true
	}})
	add(&c12Entry{name: "tlv.Decode+String", kind: "ber", seeds: tlvSeeds, call: func(in []byte) bool {
		nodes, err := tlv.Decode(c12Clone(in))
		if err != nil {
			return false
		}
		_ = nodes.String()
		for _, n := range nodes.Nodes() {
			_ = n.String()
		}
		return true
	}})
	add(&c12Entry{name: "tlv.Decode+Encode", kind: "ber", seeds: tlvSeeds, call: func(in []byte) bool {
		nodes, err := tlv.Decode(c12Clone(in))
		if err != nil {
			return false
		}
		enc := nodes.Encode()
		for _, n := range nodes.Nodes() {
			_ = n.Encode()
		}
		_, _ = tlv.Decode(enc)
		return true
	}})
	add(&c12Entry{name: "tlv.DecodeEncode", kind: "ber", seeds: tlvSeeds, call: func(in []byte) bool {
		_, err := tlv.DecodeEncode(c12Clone(in))
		return err == nil
	}})
	add(&c12Entry{name: "tlv.Unwrap", kind: "ber", seeds: tlvSeeds, call: func(in []byte) bool {
		_, _, err := tlv.Unwrap(c12Clone(in))
		return err == nil
	}})
	add(&c12Entry{name: "tlv.UnwrapTag", kind: "ber", seeds: tlvSeeds, call: func(in []byte) bool {
		tag := tlv.TlvTag(0x30)
		if len(in) > 0 && len(in)%4 != 0 {
			tag = tlv.TlvTag(in[0])
		}
		_, err := tlv.UnwrapTag(tag, c12Clone(in))
		return err == nil
	}})
	var tagLists [][]byte
	for _, com := range w.seeds["COM"] {
		if tree, err := refber.Parse(com); err == nil {
			for _, n := range c12FindDeep(tree, 0x5C) {
				tagLists = append(tagLists, n.Content(com))
			}
		}
	}
	tagLists = append(tagLists, []byte{0x61, 0x75, 0x5F, 0x1F, 0x7F, 0x61, 0x7F, 0x81, 0x01})
	add(&c12Entry{name: "tlv.ParseTags", kind: "raw", seeds: tagLists, call: func(in []byte) bool {
		tags, err := tlv.ParseTags(bytes.NewReader(in))
		if err != nil {
			return false
		}
		for _, t := range tags {
			_ = t.Encode()
			_ = t.IsConstructed()
		}
		return true
	}})
	add(&c12Entry{name: "tlv.ParseTagAndLength", kind: "ber", seeds: tlvSeeds, call: func(in []byte) bool {
		r := bytes.NewReader(in)
		_, l, err := tlv.ParseTagAndLength(r)
		if err != nil {
			return false
		}
		if l >= 0 {
			_ = l.Encode()
		}
		_, _ = tlv.ParseLength(bytes.NewReader(in))
		_, _ = tlv.ParseTag(bytes.NewReader(in))
		return true
	}})

	// ------------------------------------------------------------------ iso7816
	add(&c12Entry{name: "iso7816.ParseRApdu", kind: "raw", seeds: w.seeds["rapdu"], call: func(in []byte) bool {
		r, err := iso7816.ParseRApdu(c12Clone(in))
		if err != nil || r == nil {
			return false
		}
		_ = r.String()
		_ = r.Encode()
		_ = r.IsSuccess()
		return true
	}})
	for _, s := range []symref.Suite{symref.TDES, symref.AllSuites[1], symref.AllSuites[3]} {
		s := s
		keys := w.smKeys[s]
		var seeds [][]byte
		r := w.c.PlanRNG(fmt.Sprintf("c12/sm/%v", s))
		for _, n := range []int{0, 1, 8, 15, 16, 17, 100, 231, 256, 1000} {
			sm := chipsim.NewSM(s, keys[0], keys[1], nil)
			seeds = append(seeds, sm.Wrap(randBytes(r, n), []uint16{0x9000, 0x6282, 0x6A82}[n%3]))
		}
		add(&c12Entry{name: "SecureMessaging.Decode/" + s.String(), kind: "sm", suite: s, seeds: seeds, call: func(in []byte) bool {
			sm, err := iso7816.NewSecureMessaging(libAlg(s), c12Clone(keys[0]), c12Clone(keys[1]))
			if err != nil {
				fw.Bug("NewSecureMessaging: %v", err)
			}
			rapdu, err := sm.Decode(c12Clone(in))
			if err != nil || rapdu == nil {
				return false
			}
			_ = rapdu.String()
			_ = sm.String()
			return true
		}})
	}

	// ------------------------------------------------------------------ document
	add(&c12Entry{name: "document.NewCardAccess", kind: "ber", seeds: w.seeds["CardAccess"], call: c12Ctor(document.NewCardAccess)})
	add(&c12Entry{name: "document.NewCardSecurity", kind: "ber", seeds: w.seeds["CardSecurity"], call: c12Ctor(document.NewCardSecurity)})
	add(&c12Entry{name: "document.NewEFDIR", kind: "ber", seeds: w.seeds["EFDIR"], call: c12Ctor(document.NewEFDIR)})
	add(&c12Entry{name: "document.NewCOM", kind: "ber", seeds: w.seeds["COM"], call: c12Ctor(document.NewCOM)})
	add(&c12Entry{name: "document.NewSOD", kind: "ber", seeds: w.seeds["SOD"], call: func(in []byte) bool {
		sod, err := document.NewSOD(c12Clone(in))
		if err != nil || sod == nil {
			return false
		}
		_, _ = json.Marshal(sod)
		for n := 0; n <= 17; n++ {
			_ = sod.DgHash(n)
			_ = sod.HasDgHash(n)
		}
		_, _ = sod.CertCountryAlpha2()
		return true
	}})
	add(&c12Entry{name: "document.NewDG1", kind: "ber", seeds: w.seeds["DG1"], call: c12Ctor(document.NewDG1)})
	add(&c12Entry{name: "document.NewDG2", kind: "ber", seeds: w.seeds["DG2"], call: c12Ctor(document.NewDG2)})
	add(&c12Entry{name: "document.NewDG7", kind: "ber", seeds: w.seeds["DG7"], call: c12Ctor(document.NewDG7)})
	add(&c12Entry{name: "document.NewDG11", kind: "ber", seeds: w.seeds["DG11"], call: c12Ctor(document.NewDG11)})
	add(&c12Entry{name: "document.NewDG12", kind: "ber", seeds: w.seeds["DG12"], call: c12Ctor(document.NewDG12)})
	add(&c12Entry{name: "document.NewDG13", kind: "ber", seeds: w.seeds["DG13"], call: c12Ctor(document.NewDG13)})
	add(&c12Entry{name: "document.NewDG14", kind: "ber", seeds: w.seeds["DG14"], call: c12Ctor(document.NewDG14)})
	add(&c12Entry{name: "document.NewDG15", kind: "ber", seeds: w.seeds["DG15"], call: c12Ctor(document.NewDG15)})
	add(&c12Entry{name: "document.NewDG16", kind: "ber", seeds: w.seeds["DG16"], call: c12Ctor(document.NewDG16)})
	dgSeeds := w.kinds("DG1", "DG2", "DG7", "DG11", "DG12", "DG13", "DG14", "DG15", "DG16")
	add(&c12Entry{name: "Document.NewDG", kind: "ber", seeds: c12LimitSeeds(dgSeeds, 40), call: func(in []byte) bool {
		// the data group number is taken from the input so that one input is one call:
		// the number the outer tag stands for, or (every fourth length) another one
		n := 1
		if len(in) > 0 {
			n = map[byte]int{0x61: 1, 0x75: 2, 0x63: 3, 0x76: 4, 0x65: 5, 0x66: 6, 0x67: 7, 0x68: 8, 0x69: 9, 0x6A: 10, 0x6B: 11, 0x6C: 12, 0x6D: 13, 0x6E: 14, 0x6F: 15, 0x70: 16}[in[0]]
		}
		if len(in)%4 == 3 {
			n = len(in) % 19
		}
		var doc document.Document
		if err := doc.NewDG(n, c12Clone(in)); err != nil {
			return false
		}
		_, _ = json.Marshal(&doc)
		_ = doc.LdsVersion()
		_ = doc.UnicodeVersion()
		return true
	}})
	add(&c12Entry{name: "document.DecodeSecurityInfos", kind: "ber", seeds: w.seeds["secinfos"], call: func(in []byte) bool {
		si, err := document.DecodeSecurityInfos(c12Clone(in))
		if err != nil || si == nil {
			return false
		}
		_, _ = json.Marshal(si)
		_ = si.TotalCnt()
		_ = si.Contains(si)
		return true
	}})
	{
		var seeds [][]byte
		si := w.seeds["secinfos"]
		for i := range si {
			seeds = append(seeds, c12Pack(si[i], si[i]), c12Pack(si[i], si[(i+1)%len(si)]))
		}
		add(&c12Entry{name: "SecurityInfos.Contains", kind: "tuple", parts: 2, seeds: c12LimitSeeds(seeds, 24), call: func(in []byte) bool {
			p := c12Unpack(in, 2)
			a, err := document.DecodeSecurityInfos(c12Clone(p[0]))
			if err != nil || a == nil {
				return false
			}
			b, err := document.DecodeSecurityInfos(c12Clone(p[1]))
			if err != nil || b == nil {
				return false
			}
			return a.Contains(b) == nil
		}})
	}
	add(&c12Entry{name: "iso19794.ProcessISO19794", kind: "raw", seeds: w.seeds["iso19794"], call: func(in []byte) bool {
		v, err := iso19794.ProcessISO19794(c12Clone(in))
		if err != nil || v == nil {
			return false
		}
		_ = v.Images()
		_, _ = json.Marshal(v)
		return true
	}})
	add(&c12Entry{name: "iso39794.ProcessISO39794p5", kind: "ber", seeds: w.seeds["iso39794"], call: func(in []byte) bool {
		v, err := iso39794.ProcessISO39794p5(c12Clone(in))
		if err != nil || v == nil {
			return false
		}
		_ = v.Images()
		_, _ = json.Marshal(v)
		return true
	}})

	// ------------------------------------------------------------------ cms
	add(&c12Entry{name: "cms.ParseSignedData+Verify", kind: "ber", seeds: w.seeds["signeddata"], cost: 2, call: func(in []byte) bool {
		sd, err := cms.ParseSignedData(c12Clone(in))
		if err != nil || sd == nil {
			return false
		}
		_, _ = json.Marshal(sd)
		_, verr := sd.Verify(w.pool)
		return verr == nil
	}})
	add(&c12Entry{name: "cms.ParseCertificates+Verify", kind: "ber", seeds: w.seeds["certs"], cost: 2, call: func(in []byte) bool {
		certs, err := cms.ParseCertificates(c12Clone(in))
		if err != nil {
			return false
		}
		_, _ = json.Marshal(certs)
		for i := range certs {
			if i >= 3 {
				break
			}
			_, _ = certs[i].Verify(w.pool)
			_, _ = certs[i].TbsCertificate.IssuerRDN()
			_, _ = certs[i].TbsCertificate.SubjectRDN()
		}
		return len(certs) > 0
	}})
	add(&c12Entry{name: "cms.GenericCertPool.Add", kind: "ber", seeds: w.seeds["certs"], call: func(in []byte) bool {
		pool := &cms.GenericCertPool{}
		if err := pool.Add(c12Clone(in)); err != nil {
			return false
		}
		_ = pool.Count()
		_ = pool.ByIssuerCountry("NL")
		_ = pool.BySKI([]byte{1, 2, 3})
		_, _ = pool.ByIssuerAndSerial(in)
		return true
	}})
	{
		var seeds [][]byte
		for _, ml := range w.seeds["masterlist"] {
			seeds = append(seeds, c12Pack(ml, w.seeds["masterlist-root"][0]))
		}
		for i, sd := range w.seeds["signeddata"] {
			if i < 4 {
				seeds = append(seeds, c12Pack(sd, w.roots[i%len(w.roots)]))
			}
		}
		add(&c12Entry{name: "cms.CreateCertPoolFromSignedData", kind: "tuple", parts: 2, seeds: seeds, cost: 2, call: func(in []byte) bool {
			p := c12Unpack(in, 2)
			pool, err := cms.CreateCertPoolFromSignedData(c12Clone(p[0]), c12Clone(p[1]))
			if err != nil || pool == nil {
				return false
			}
			_ = pool.Count()
			_ = pool.All()
			return true
		}})
	}
	{
		// (SubjectPublicKeyInfo, digest algorithm, digest, signature algorithm, signature) of the CSCA certificates
		var seeds [][]byte
		for _, s := range w.sessions {
			cert := s.p.PKI.CSCACert
			n, err := refber.ParseOne(cert)
			if err != nil || len(n.Children) != 3 {
				fw.Bug("c12: cannot take a harness certificate apart")
			}
			tbs, alg, sig := n.Children[0], n.Children[1], n.Children[2]
			if len(alg.Children) == 0 || len(sig.Value) < 2 {
				fw.Bug("c12: unexpected certificate shape")
			}
			spki := s.p.PKI.CSCAKey.SPKI()
			dig := sha256.Sum256(tbs.Raw(cert))
			seeds = append(seeds, c12Pack(spki, issuerDER(issuer.SHA256.OIDArcs()), dig[:], alg.Children[0].Raw(cert), sig.Value[1:]))
		}
		add(&c12Entry{name: "cms.VerifySignature", kind: "tuple", parts: 5, seeds: seeds, cost: 2, call: func(in []byte) bool {
			p := c12Unpack(in, 5)
			da, sa := c12OIDArcs(p[1]), c12OIDArcs(p[3])
			if da == nil {
				da = c12FallbackOIDs[len(p[1])%len(c12FallbackOIDs)]
			}
			if sa == nil {
				sa = c12FallbackOIDs[len(p[3])%len(c12FallbackOIDs)]
			}
			return cms.VerifySignature(c12Clone(p[0]), da, c12Clone(p[2]), sa, c12Clone(p[4])) == nil
		}})
	}
	add(&c12Entry{name: "cms.SubjectPublicKeyInfo", kind: "ber", seeds: w.seeds["spki"], call: func(in []byte) bool {
		spki, err := cms.Asn1decodeSubjectPublicKeyInfo(c12Clone(in))
		if err != nil {
			return false
		}
		_, _ = json.Marshal(spki)
		ok := false
		if spki.IsEC() {
			_, _ = spki.EcCurve()
			if _, _, err := spki.EcCurveAndPubKey(true); err == nil {
				ok = true
			}
			_, _, _ = spki.EcCurveAndPubKey(false)
		}
		if spki.IsRSA() {
			if k, err := spki.RsaPubKey(); err == nil && k != nil {
				ok = true
			}
		} else {
			_, _ = spki.RsaPubKey()
		}
		return ok
	}})

	// ------------------------------------------------------------------ mrz / password
	mrzSeeds := w.seeds["mrz"]
	add(&c12Entry{name: "mrz.MrzDecode", kind: "text", seeds: mrzSeeds, call: func(in []byte) bool {
		m, err := mrz.MrzDecode(string(in))
		if err != nil || m == nil {
			return false
		}
		_, _ = json.Marshal(m)
		_, _ = m.EncodeMrzi()
		return true
	}})
	add(&c12Entry{name: "mrz.ConvertMrzToMrzi", kind: "text", seeds: mrzSeeds, call: func(in []byte) bool {
		_, err := mrz.ConvertMrzToMrzi(string(in))
		return err == nil
	}})
	add(&c12Entry{name: "password.NewPasswordMrz", kind: "text", seeds: mrzSeeds, call: func(in []byte) bool {
		p, err := password.NewPasswordMrz(string(in))
		if err != nil || p == nil {
			return false
		}
		_, _ = p.Key()
		_, _ = p.Type()
		return true
	}})
	{
		var seeds [][]byte
		for _, s := range w.sessions {
			f := s.p.MRZ
			seeds = append(seeds, c12Pack([]byte(f.DocumentNumber), []byte(f.DateOfBirth), []byte(f.DateOfExpiry)))
		}
		add(&c12Entry{name: "password.NewPasswordMrzi", kind: "tuple", parts: 3, textParts: true, seeds: seeds, call: func(in []byte) bool {
			p := c12Unpack(in, 3)
			pw, err := password.NewPasswordMrzi(string(p[0]), string(p[1]), string(p[2]))
			if err != nil || pw == nil {
				return false
			}
			_, _ = pw.Key()
			return true
		}})
	}

	// ------------------------------------------------------------------ active authentication signature
	{
		var seeds [][]byte
		for _, s := range w.sessions {
			aa := s.docEx.Session.ActiveAuthResult
			dg15 := s.docEx.Document.Mf.Lds1.Dg15
			if aa != nil && aa.Evidence != nil && dg15 != nil {
				seeds = append(seeds, c12Pack(dg15.SubjectPublicKeyInfoBytes, aa.Evidence.Signature, aa.Evidence.Nonce))
			}
		}
		add(&c12Entry{name: "activeauth.ValidateActiveAuthSignature", kind: "tuple", parts: 3, seeds: seeds, cost: 2, call: func(in []byte) bool {
			p := c12Unpack(in, 3)
			dg15 := &document.DG15{SubjectPublicKeyInfoBytes: c12Clone(p[0])}
			res, err := activeauth.ValidateActiveAuthSignature(dg15, c12Clone(p[1]), c12Clone(p[2]))
			if res != nil {
				_, _ = json.Marshal(res)
			}
			return err == nil && res != nil && res.Success
		}})
	}

	// ------------------------------------------------------------------ CBOR imports and the offline verifiers
	add(&c12Entry{name: "document.NewDocumentFromCbor", kind: "cbor", level: "doc", magic: "gmrtd-raw-doc", version: 1, seeds: w.seeds["cbor-doc"], cost: 2, bundle: 25, call: func(in []byte) bool {
		doc, err := document.NewDocumentFromCbor(c12Clone(in))
		if err != nil || doc == nil {
			return false
		}
		_, _ = json.Marshal(doc)
		_, _ = doc.ToCbor()
		_ = doc.Verify()
		return true
	}})
	add(&c12Entry{name: "document.NewChipAuthEvidenceFromCbor", kind: "cbor", level: "ev", magic: "gmrtd-chip-auth-evidence", version: 2, seeds: w.seeds["cbor-ev"], call: func(in []byte) bool {
		b, err := document.NewChipAuthEvidenceFromCbor(c12Clone(in))
		if err != nil || b == nil {
			return false
		}
		_, _ = json.Marshal(b)
		return true
	}})
	add(&c12Entry{name: "document.UnmarshalVerifiableDoc", kind: "cbor", level: "ex", magic: "gmrtd-verifiable-doc", version: 1, seeds: w.seeds["cbor-ex"], cost: 2, bundle: 25, call: func(in []byte) bool {
		doc, b, err := document.UnmarshalVerifiableDoc(c12Clone(in))
		if err != nil || doc == nil || b == nil {
			return false
		}
		return true
	}})
	add(&c12Entry{name: "verifier.Verify", kind: "cbor", level: "ex", magic: "gmrtd-verifiable-doc", version: 1, seeds: w.seeds["cbor-ex"], cost: 4, bundle: 10, call: func(in []byte) bool {
		docEx, err := verifier.NewVerifier(w.pool).Verify(c12Clone(in))
		if err != nil || docEx == nil {
			return false
		}
		w.followUps(docEx, nil)
		return true
	}})
	add(&c12Entry{name: "mobile.Verifier.Verify", kind: "cbor", level: "ex", magic: "gmrtd-verifiable-doc", version: 1, seeds: w.seeds["cbor-ex"], cost: 8, bundle: 10, prepare: func() {
		// the built-in master lists are parsed once, outside any measurement
		if err := mobile.PreloadCscaCertPool(); err != nil {
			fw.Bug("c12: built-in CSCA store does not load: %v", err)
		}
	}, call: func(in []byte) bool {
		v := mobile.NewVerifier()
		if len(in)%2 == 0 {
			v, _ = v.WithAAChallenge([]byte{1, 2, 3, 4, 5, 6, 7, 8})
		}
		doc, err := v.Verify(c12Clone(in))
		if err != nil || doc == nil {
			return false
		}
		_, _ = doc.DocumentExJson()
		_, _ = doc.SummaryJson()
		_, _ = doc.DocumentExCbor()
		_, _ = doc.ApduLogJson()
		return true
	}})
	for _, e := range es {
		if len(e.seeds) == 0 {
			fw.Bug("c12: entry %s has no genuine seed", e.name)
		}
	}
	return es
}

func issuerDER(arcs []int) []byte {
	b, err := asn1.Marshal(asn1.ObjectIdentifier(arcs))
	if err != nil {
		fw.Bug("oid: %v", err)
	}
	return b
}

// genSM builds inputs for SecureMessaging.Decode: besides random octets and plain byte
// mutations (which fail the MAC check), responses whose data objects are mutated and then
// carry a CORRECT checksum for send-sequence counter 1, so that the decoder's handling of
// the protected contents (padding, indicator octet, status) is reached.
func (w *c12World) genSM(r *mrand.Rand, e *c12Entry, fam string) []byte {
	seed := w.pickSeed(r, e)
	switch fam {
	case "random":
		return mutate.Random(r, mutate.RandLen(r, 4096))
	case "mutate-bytes":
		return mutate.Bytes(r, seed)
	case "length-lie":
		return mutate.LengthLie(r, seed, c12LieKinds[r.IntN(len(c12LieKinds))], false)
	}
	// body = everything before DO'8E' and the trailing status
	body := seed
	if len(body) >= 12 {
		body = body[:len(body)-12]
	}
	sw := []byte{0x90, 0x00}
	switch fam {
	case "sm-remac-bytes":
		body = mutate.Bytes(r, body)
	case "sm-remac-ber":
		f := []string{"mutate-tree", "length-lie", "tag-swap", "restructure", "indefinite", "mutate-bytes"}[r.IntN(6)]
		if m := c12BERFamily(r, f, body, body); m != nil {
			body = m
		}
	case "sm-remac-directed":
		bs := e.suite.BlockSize()
		ct := func(n int) []byte { return randBytes(r, n) }
		switch r.IntN(12) {
		case 0:
			body = []byte{0x87, 0x00, 0x99, 0x02, 0x90, 0x00}
		case 1:
			body = []byte{0x87, 0x01, 0x01, 0x99, 0x02, 0x90, 0x00}
		case 2:
			body = append(chipsim.TLV(0x87, append([]byte{0x01}, ct(bs-1)...)), 0x99, 0x02, 0x90, 0x00)
		case 3:
			body = append(chipsim.TLV(0x87, append([]byte{0x02}, ct(bs)...)), 0x99, 0x02, 0x90, 0x00)
		case 4:
			body = append(chipsim.TLV(0x85, ct(bs)), 0x99, 0x02, 0x90, 0x00)
		case 5:
			body = append(chipsim.TLV(0x85, ct(bs+3)), 0x99, 0x02, 0x90, 0x00)
		case 6:
			body = []byte{0x99, 0x01, 0x90}
		case 7:
			body = []byte{0x99, 0x00}
		case 8:
			body = chipsim.TLV(0x87, append([]byte{0x01}, ct(bs*2)...))
		case 9:
			body = []byte{0x99, 0x03, 0x90, 0x00, 0x00}
		case 10: // valid padding-less plaintext: decrypts to octets without 80 padding
			body = append(chipsim.TLV(0x87, append([]byte{0x01}, ct(bs*(1+r.IntN(40)))...)), 0x99, 0x02, 0x90, 0x00)
		case 11:
			body = append([]byte{0x99, 0x02, 0x90, 0x00}, chipsim.TLV(0x87, append([]byte{0x01}, ct(bs)...))...)
		}
		if r.IntN(4) == 0 {
			sw = []byte{0x62, 0x82}
		}
	}
	ssc := make([]byte, e.suite.BlockSize())
	ssc[len(ssc)-1] = 1
	keys := w.smKeys[e.suite]
	mac := symref.MAC8(e.suite, keys[1], symref.Pad2(append(append([]byte{}, ssc...), body...), e.suite.BlockSize()))
	if fam == "sm-remac-directed" && r.IntN(8) == 0 {
		mac = mac[:r.IntN(8)]
	}
	out := append(append([]byte{}, body...), chipsim.TLV(0x8E, mac)...)
	return append(out, sw...)
}

var c12SMFams = []c12Fam{{"random", 10}, {"mutate-bytes", 15}, {"length-lie", 10}, {"sm-remac-bytes", 25}, {"sm-remac-ber", 25}, {"sm-remac-directed", 15}}

var _ = sha1.Sum
var _ = sha512.Sum512
var _ = strings.Contains
