package checks

import (
	"fmt"
	mrand "math/rand/v2"
	"sort"
	"strings"

	"github.com/gmrtd/gmrtd/iso7816"

	"verifharness/chipsim"
	"verifharness/fw"
	"verifharness/symref"
)

// C13, read HISTORIES: several ReadFile calls on ONE NfcSession against ONE chip. The chip
// keeps its current elementary file as a real chip does: a SELECT EF that does not complete
// (file absent, access refused, any error status) leaves the previously selected file
// current, SELECT MF / SELECT by AID leave no current file. Every single ReadFile result of
// the history is judged by the statement's own oracle - the exact bytes of THAT file (the
// file stored under the requested identifier in the directory that is current at that
// moment), or an error; "not found" only when the chip said so for that file.
//
// A history is 3..12 operations drawn from: ReadFile of a stored file, of an absent file
// (6A82), of a file whose SELECT is refused or answered with a warning (6982, 6985, 6283,
// 6282, 6A82 although stored, ...; the answers of successive SELECTs of one file follow a
// script, so a file can become readable later), of a file read before (favoured), reads in
// which one READ BINARY is refused once or the header read answers 9000 without data,
// SelectEF called directly, SelectMF, SelectAid (011D is EF.CardSecurity in the master file
// and EF.SOD in the application), secure messaging starting before or in the middle.

const (
	c13OpRead = iota
	c13OpSelectEF
	c13OpSelectAid
	c13OpSelectMF
	c13OpStartSM
)

type c13HistStep struct {
	op       int
	fid      uint16
	failNth  int    // the n-th READ BINARY of this read is refused once ...
	failSW   uint16 // ... with this status
	emptyHdr bool   // the header read of this read is answered 9000 without data
}

func (s c13HistStep) String() string {
	switch s.op {
	case c13OpRead:
		t := fmt.Sprintf("read(%04x)", s.fid)
		if s.failNth > 0 {
			t += fmt.Sprintf("[rb#%d->%04x]", s.failNth, s.failSW)
		}
		if s.emptyHdr {
			t += "[empty-header]"
		}
		return t
	case c13OpSelectEF:
		return fmt.Sprintf("selectEF(%04x)", s.fid)
	case c13OpSelectAid:
		return "selectAid"
	case c13OpSelectMF:
		return "selectMF"
	}
	return "startSM"
}

type c13HistKey struct {
	lds bool
	fid uint16
}

// c13SelScript: the statuses the chip answers to successive SELECT EF commands of one file;
// after the script the chip decides itself (9000 / 6A82), or keeps the last status (sticky)
type c13SelScript struct {
	sws    []uint16
	sticky bool
}

type c13History struct {
	beh        int
	maxRd      int
	sm         int  // 0 none, 1 3DES, 2 AES (started by the c13OpStartSM step)
	startInLDS bool // SelectAid before the first step
	deselect   bool // chip option: a SELECT EF that does not complete leaves no current file
	files      map[c13HistKey]c13File
	scripts    map[c13HistKey]c13SelScript
	steps      []c13HistStep
}

func (h c13History) String() string {
	var st []string
	for _, s := range h.steps {
		st = append(st, s.String())
	}
	var fl []string
	for key, f := range h.files {
		fl = append(fl, fmt.Sprintf("%v/%04x:%d+%d", key.lds, key.fid, f.total, f.trail))
	}
	sort.Strings(fl)
	var sc []string
	for key, s := range h.scripts {
		sc = append(sc, fmt.Sprintf("%v/%04x:%04x sticky=%v", key.lds, key.fid, s.sws, s.sticky))
	}
	sort.Strings(sc)
	return fmt.Sprintf("beh=%s maxread=%d sm=%d lds-first=%v deselect=%v files=[%s] select-scripts=[%s] steps=%s", c13Behaviours[h.beh].name, h.maxRd, h.sm, h.startInLDS, h.deselect,
		strings.Join(fl, " "), strings.Join(sc, " "), strings.Join(st, " "))
}

var c13HistMFFids = []uint16{chipsim.FidCardAccess, chipsim.FidCardSecurity, chipsim.FidDIR, chipsim.FidATR}

var c13HistLDSFids = func() []uint16 {
	out := []uint16{chipsim.FidCOM, chipsim.FidSOD}
	for n := 1; n <= 16; n++ {
		out = append(out, chipsim.FidDG(n))
	}
	return out
}()

// statuses of a SELECT EF script: refusals, "not there" statuses (also for stored files),
// warnings that complete the selection, malfunction
var c13HistSelectSWs = []uint16{0x6982, 0x6982, 0x6A82, 0x6A82, 0x6283, 0x6985, 0x6282, 0x6700, 0x6F00, 0x6A86, 0x6400, 0x6300, 0x6981, 0x6A80, 0x6988, 0x9000}

// behaviours of the chunking policy used in histories (indices into c13Behaviours)
var c13HistBehaviours = []string{"all", "all", "all-noext", "cap3", "cap7", "cap100", "cap223", "cap255", "random-short", "lecap128-6700", "lecap100-6700", "lecap200-6Cxx", "zero-above-235", "all-eofwarn", "page128"}

var c13HistMaxReads = []int{3, 4, 5, 127, 128, 129, 192, 255, 256, 256, 257, 1000, 65536, 65536}

func c13BehaviourIndex(name string) int {
	for i, b := range c13Behaviours {
		if b.name == name {
			return i
		}
	}
	fw.Bug("no chunking behaviour %q", name)
	return 0
}

func c13HistFids(lds bool) []uint16 {
	if lds {
		return c13HistLDSFids
	}
	return c13HistMFFids
}

// c13GenHistory draws one history.
func c13GenHistory(r *mrand.Rand) c13History {
	h := c13History{files: map[c13HistKey]c13File{}, scripts: map[c13HistKey]c13SelScript{}}
	h.beh = c13BehaviourIndex(c13HistBehaviours[r.IntN(len(c13HistBehaviours))])
	h.maxRd = c13HistMaxReads[r.IntN(len(c13HistMaxReads))]
	if r.IntN(3) == 0 {
		h.sm = 1 + r.IntN(2)
	}
	h.startInLDS = r.IntN(4) != 0
	h.deselect = r.IntN(4) == 0
	for _, lds := range []bool{false, true} {
		for _, fid := range c13HistFids(lds) {
			key := c13HistKey{lds, fid}
			if r.IntN(5) < 3 {
				f := c13File{tagLen: 1 + r.IntN(2)}
				switch r.IntN(8) {
				case 0:
					f.total = 8 + r.IntN(8)
				case 1, 2, 3:
					f.total = 16 + r.IntN(110)
				case 4, 5, 6:
					f.total = 140 + r.IntN(500)
					f.lenForm = 1 + r.IntN(2)
				default:
					f.total = 700 + r.IntN(3000)
					f.lenForm = 2
				}
				if f.lenForm == 1 && f.total > 250 {
					f.lenForm = 2
				}
				if r.IntN(4) == 0 {
					f.trail = 1 + r.IntN(20)
				}
				h.files[key] = f
			}
			if r.IntN(4) == 0 {
				sc := c13SelScript{sticky: r.IntN(3) == 0}
				for n := 1 + r.IntN(3); n > 0; n-- {
					sc.sws = append(sc.sws, c13HistSelectSWs[r.IntN(len(c13HistSelectSWs))])
				}
				h.scripts[key] = sc
			}
		}
	}
	nsteps := 3 + r.IntN(10)
	smAt := -1
	if h.sm > 0 {
		smAt = r.IntN(1 + nsteps/2)
	}
	lds := h.startInLDS
	var asked []uint16
	for len(h.steps) < nsteps {
		if len(h.steps) == smAt {
			h.steps = append(h.steps, c13HistStep{op: c13OpStartSM})
			smAt = -1
			continue
		}
		fids := c13HistFids(lds)
		pick := func() uint16 {
			if len(asked) > 0 && r.IntN(100) < 45 {
				if r.IntN(5) < 3 {
					return asked[len(asked)-1]
				}
				return asked[r.IntN(len(asked))]
			}
			return fids[r.IntN(len(fids))]
		}
		switch v := r.IntN(100); {
		case v < 74:
			s := c13HistStep{op: c13OpRead, fid: pick()}
			if r.IntN(10) == 0 {
				s.failNth = 1 + r.IntN(3)
				s.failSW = c13RefuseOnceSWs[r.IntN(len(c13RefuseOnceSWs))]
			} else if r.IntN(16) == 0 {
				s.emptyHdr = true
			}
			asked = append(asked, s.fid)
			h.steps = append(h.steps, s)
		case v < 84:
			s := c13HistStep{op: c13OpSelectEF, fid: pick()}
			asked = append(asked, s.fid)
			h.steps = append(h.steps, s)
		case v < 93:
			// the identifiers asked for so far stay candidates: 011D exists in both directories
			lds = true
			h.steps = append(h.steps, c13HistStep{op: c13OpSelectAid})
		default:
			lds = false
			h.steps = append(h.steps, c13HistStep{op: c13OpSelectMF})
		}
	}
	return h
}

// c13DirectedHistories: the shapes "read A; B is not there / refused; B again" and their
// neighbours, for every way the chip can fail to select B, in the clear and under secure
// messaging. A = DG1, B = DG2 (stored or not), C = DG3.
func c13DirectedHistories() []c13History {
	a, b, cc := chipsim.FidDG(1), chipsim.FidDG(2), chipsim.FidDG(3)
	rd := func(fid uint16) c13HistStep { return c13HistStep{op: c13OpRead, fid: fid} }
	shapes := [][]c13HistStep{
		{rd(a), rd(b), rd(b)},
		{rd(a), rd(b), rd(b), rd(b)},
		{rd(a), rd(b), rd(a), rd(b)},
		{rd(a), rd(b), rd(cc), rd(b), rd(b)},
		{rd(a), {op: c13OpSelectEF, fid: b}, rd(b)},
		{rd(a), rd(b), {op: c13OpSelectEF, fid: b}, rd(b)},
		{rd(b), rd(a), rd(b), rd(b)},
		{rd(a), rd(b), {op: c13OpSelectAid}, rd(b), rd(a), rd(b), rd(b)},
		{rd(a), {op: c13OpRead, fid: b, failNth: 1, failSW: 0x6982}, rd(b), rd(a)},
		{rd(a), {op: c13OpRead, fid: b, emptyHdr: true}, rd(b), rd(b)},
		{rd(chipsim.FidSOD), {op: c13OpSelectMF}, rd(chipsim.FidCardSecurity), rd(chipsim.FidCardAccess), rd(chipsim.FidCardSecurity), {op: c13OpSelectAid}, rd(chipsim.FidSOD), rd(chipsim.FidSOD)},
	}
	// how SELECT EF of B fails: absent (the chip's own 6A82), or stored and scripted
	type bKind struct {
		stored bool
		script []uint16
		sticky bool
	}
	kinds := []bKind{{stored: false}, {stored: true, script: []uint16{0x6A82}, sticky: true}, {stored: true, script: []uint16{0x6283}, sticky: true},
		{stored: true, script: []uint16{0x6982}, sticky: true}, {stored: true, script: []uint16{0x6982}}, {stored: true, script: []uint16{0x6A82}},
		{stored: true, script: []uint16{0x6985, 0x6985}}, {stored: true, script: []uint16{0x6700}, sticky: true}, {stored: true, script: []uint16{0x6282}},
		{stored: false, script: []uint16{0x6982}, sticky: true}, {stored: false, script: []uint16{0x6283}, sticky: true}, {stored: true}}
	var out []c13History
	for si, steps := range shapes {
		for ki, bk := range kinds {
			for sm := 0; sm <= 2; sm++ {
				h := c13History{beh: c13BehaviourIndex([]string{"all", "cap100", "all-noext"}[(si+ki)%3]), maxRd: []int{256, 65536, 128}[(si+ki+sm)%3], sm: sm, startInLDS: true,
					files: map[c13HistKey]c13File{}, scripts: map[c13HistKey]c13SelScript{}}
				h.files[c13HistKey{true, a}] = c13File{tagLen: 1, lenForm: 2, total: 304}
				h.files[c13HistKey{true, cc}] = c13File{tagLen: 2, lenForm: 0, total: 77, trail: 3}
				h.files[c13HistKey{true, chipsim.FidSOD}] = c13File{tagLen: 1, lenForm: 2, total: 704}
				h.files[c13HistKey{false, chipsim.FidCardSecurity}] = c13File{tagLen: 1, lenForm: 2, total: 500}
				h.files[c13HistKey{false, chipsim.FidCardAccess}] = c13File{tagLen: 1, lenForm: 0, total: 30}
				if bk.stored {
					h.files[c13HistKey{true, b}] = c13File{tagLen: 1, lenForm: 1, total: 200}
				}
				if len(bk.script) > 0 {
					h.scripts[c13HistKey{true, b}] = c13SelScript{sws: bk.script, sticky: bk.sticky}
				}
				if sm > 0 {
					at := (si + ki) % 2 // before the first read, or after it
					h.steps = append(h.steps, steps[:at]...)
					h.steps = append(h.steps, c13HistStep{op: c13OpStartSM})
					h.steps = append(h.steps, steps[at:]...)
				} else {
					h.steps = append(h.steps, steps...)
				}
				out = append(out, h)
			}
		}
	}
	return out
}

// c13HistObject builds the stored file and its top-level object; the content starts with the
// directory and the identifier, so that no two files of a chip have the same bytes.
func c13HistObject(r *mrand.Rand, key c13HistKey, f c13File) (stored, object []byte) {
	stored, object, ok := f.build(r)
	if !ok {
		fw.Bug("history file %+v cannot be built", f)
	}
	hdr, content, _ := f.headerLen()
	if content < 3 {
		fw.Bug("history file %+v too small", f)
	}
	mark := []byte{byte(key.fid >> 8), byte(key.fid), 0x4D}
	if key.lds {
		mark[2] = 0x4C
	}
	copy(object[hdr:], mark)
	copy(stored[hdr:], mark)
	for i := hdr + 3; i < len(object); i++ {
		object[i] ^= byte(key.fid) * 29
		stored[i] = object[i]
	}
	return stored, object
}

func c13RunHistory(k *fw.K, h c13History) {
	r := k.RNG
	b := c13Behaviours[h.beh]
	card := chipsim.NewCard()
	card.Extended = b.extended
	card.MaxReturn = b.maxReturn
	if b.shortRnd {
		card.ShortReadRNG = mrand.New(mrand.NewPCG(r.Uint64(), 3))
	}
	card.LeCap, card.LeCapSW, card.ZeroReadAbove, card.EOFWarning = b.leCap, b.leCapSW, b.zeroAbove, b.eofWarn
	card.PageSize = b.page
	card.FailedSelectDeselects = h.deselect
	objects := map[c13HistKey][]byte{}
	keys := make([]c13HistKey, 0, len(h.files))
	for key := range h.files {
		keys = append(keys, key)
	}
	sort.Slice(keys, func(i, j int) bool {
		if keys[i].lds != keys[j].lds {
			return !keys[i].lds
		}
		return keys[i].fid < keys[j].fid
	})
	for _, key := range keys {
		stored, object := c13HistObject(r, key, h.files[key])
		objects[key] = object
		if key.lds {
			card.LDS[key.fid] = stored
		} else {
			card.MF[key.fid] = stored
		}
	}
	whose := func(data []byte) string {
		for _, key := range keys {
			if bytesEq(data, objects[key]) {
				return fmt.Sprintf("%04x(lds=%v)", key.fid, key.lds)
			}
		}
		return ""
	}
	inLDS := false
	scriptPos := map[c13HistKey]int{}
	card.SelectEFStatus = func(fid uint16, stored bool) (uint16, bool, bool) {
		key := c13HistKey{inLDS, fid}
		sc, ok := h.scripts[key]
		if !ok {
			return 0, false, false
		}
		pos := scriptPos[key]
		scriptPos[key]++
		if pos >= len(sc.sws) {
			if !sc.sticky {
				return 0, false, false
			}
			pos = len(sc.sws) - 1
		}
		if !stored && c13SelectCompletes(sc.sws[pos]) {
			// a chip cannot complete the selection of a file it does not have
			return 0, false, false
		}
		return sc.sws[pos], c13SelectCompletes(sc.sws[pos]), true
	}
	// deviations of the current read step
	var cur c13HistStep
	reads := 0
	card.ReadPolicy = func(off, ne, n int) (int, uint16) {
		reads++
		if cur.failNth > 0 && reads == cur.failNth {
			return 0, cur.failSW
		}
		if cur.emptyHdr && reads == 1 {
			return 0, 0
		}
		return n, 0
	}
	tr := &funcTransceiver{f: card.Transceive}
	nfc := iso7816.NewNfcSession(tr)
	nfc.SetMaxLe(h.maxRd)
	selectAid := func() {
		sel, err := nfc.SelectAid(chipsim.LDS1AID)
		if err != nil || !sel {
			fw.LibFail("select-aid-failed", "SelectAid on the conforming simulated chip failed: %v", err)
		}
		inLDS = true
	}
	if h.startInLDS {
		selectAid()
	}
	// the last answer the chip gave to a SELECT EF of a file since the directory was selected
	lastSel := map[uint16]uint16{}
	det := func(i int, data []byte, err error, evs []chipsim.Event) map[string]any {
		var cmds []string
		for _, ev := range evs {
			if ev.Cmd != nil && len(cmds) < 10 {
				cmds = append(cmds, fmt.Sprintf("%02x %02x%02x %x ne=%d -> %d bytes %04x", ev.Cmd.INS, ev.Cmd.P1, ev.Cmd.P2, ev.Cmd.Data, ev.Cmd.Ne, len(ev.Data), ev.SW))
			}
		}
		return map[string]any{"history": h.String(), "step": i, "step_op": h.steps[i].String(), "in_lds": inLDS, "returned_len": len(data), "returned_head": hexCap(data, 12),
			"returned_is_the_object_of": whose(data), "err": fmt.Sprint(err), "commands_of_this_step": cmds}
	}
	k.Nontrivial("history|" + h.String())
	nreads := 0
	for i, st := range h.steps {
		evStart := len(card.Events)
		switch st.op {
		case c13OpStartSM:
			suite := symref.TDES
			if h.sm == 2 {
				suite = symref.AES128
			}
			kenc, kmac := randKey(r, suite), randKey(r, suite)
			card.SM = chipsim.NewSM(suite, kenc, kmac, nil)
			nfc.SetSecureMessaging(newLibSM(k, suite, kenc, kmac, make([]byte, suite.BlockSize())))
			k.Count("history_secure_messaging_started_mid_history")
			continue
		case c13OpSelectAid, c13OpSelectMF:
			// the directory the chip is in afterwards is taken from the chip (the command fails
			// when an earlier step has ended the secure messaging session)
			var err error
			if st.op == c13OpSelectAid {
				_, err = nfc.SelectAid(chipsim.LDS1AID)
				k.Count("history_select_aid_steps")
			} else {
				err = nfc.SelectMF()
				k.Count("history_select_mf_steps")
			}
			if err != nil {
				k.Count("history_directory_selection_failed")
			}
			for _, ev := range card.Events[evStart:] {
				if ev.Cmd != nil && ev.Cmd.INS == 0xA4 && ev.SW == 0x9000 && (ev.Cmd.P1 == 0x04 || ev.Cmd.P1 == 0x00) {
					inLDS = ev.Cmd.P1 == 0x04
					lastSel = map[uint16]uint16{}
				}
			}
			continue
		}
		key := c13HistKey{inLDS, st.fid}
		object, stored := objects[key]
		askedBefore := false
		for _, p := range h.steps[:i] {
			askedBefore = askedBefore || ((p.op == c13OpRead || p.op == c13OpSelectEF) && p.fid == st.fid)
		}
		// what the chip answers to the SELECT EF of this file during this step
		selSW := -1
		scan := func() {
			for _, ev := range card.Events[evStart:] {
				if ev.Cmd != nil && ev.Cmd.INS == 0xA4 && ev.Cmd.P1 == 0x02 && len(ev.Cmd.Data) == 2 && uint16(ev.Cmd.Data[0])<<8|uint16(ev.Cmd.Data[1]) == st.fid {
					selSW = int(ev.SW)
					lastSel[st.fid] = ev.SW
				}
			}
		}
		context := func() string {
			if selSW >= 0 {
				return fmt.Sprintf("select-in-this-call-answered-%04x", selSW)
			}
			if sw, ok := lastSel[st.fid]; ok {
				return fmt.Sprintf("no-select-in-this-call:last-select-of-this-file-answered-%04x", sw)
			}
			return "no-select-in-this-call:file-never-selected-in-this-directory"
		}
		saidNotThere := func() bool {
			if selSW >= 0 {
				return c13SelectSaysNotThere(uint16(selSW))
			}
			sw, ok := lastSel[st.fid]
			return ok && c13SelectSaysNotThere(sw)
		}
		if st.op == c13OpSelectEF {
			sel, err := nfc.SelectEF(st.fid)
			scan()
			k.Count("history_direct_select_ef_steps")
			if err == nil && !sel && !saidNotThere() {
				k.Violation("selectef:history:not-found-but-chip-did-not-say-so:"+context(), fmt.Sprintf("step %d: SelectEF(%04x) returned (false, nil) = 'not found' although the chip did not say so", i, st.fid), det(i, nil, err, card.Events[evStart:]))
				return
			}
			continue
		}
		cur, reads = st, 0
		card.ReadBinaries = 0
		data, err := nfc.ReadFile(st.fid)
		cur = c13HistStep{}
		scan()
		nreads++
		k.Count("history_reads")
		class := "stored_file"
		switch {
		case !stored:
			class = "absent_file"
		case selSW >= 0 && selSW != 0x9000:
			class = "stored_file_select_not_9000"
		}
		if askedBefore {
			k.Count("history_reads_of_a_file_asked_for_before:" + class)
			if prev := h.steps[i-1]; (prev.op == c13OpRead || prev.op == c13OpSelectEF) && prev.fid == st.fid {
				k.Count("history_reads_directly_after_a_request_for_the_same_file:" + class)
			}
		}
		if selSW < 0 {
			k.Count("history_reads_without_a_select_in_the_call")
		}
		if st.failNth > 0 || st.emptyHdr {
			k.Count("history_reads_with_a_refused_or_empty_read_binary")
		}
		if card.ReadBinaries > 1+1000+3 {
			k.Violation("readfile:history:chunk-limit", fmt.Sprintf("step %d: %d READ BINARY commands for one file", i, card.ReadBinaries), det(i, data, err, card.Events[evStart:]))
			return
		}
		switch {
		case err != nil:
			k.Count("history_result_error:" + class)
		case data == nil:
			if !saidNotThere() {
				ctx := context()
				if st.emptyHdr && selSW == 0x9000 {
					ctx += ":header-read-answered-9000-without-data"
				}
				k.Violation("readfile:history:not-found-but-chip-did-not-say-so:"+ctx, fmt.Sprintf("step %d: ReadFile(%04x) returned (nil, nil) = 'not found' although the chip did not say that the file is not there", i, st.fid), det(i, data, err, card.Events[evStart:]))
				return
			}
			if selSW < 0 {
				k.Count("history_not_found_from_an_earlier_select")
			}
			k.Count("history_result_not_found:" + class)
		case !stored:
			what := "data-for-absent-file"
			if whose(data) != "" {
				what = "another-files-bytes-for-absent-file"
			}
			k.Violation("readfile:history:"+what+":"+context(), fmt.Sprintf("step %d: ReadFile(%04x) returned %d bytes for a file the chip does not have in the current directory (the bytes are the object of %q)", i, st.fid, len(data), whose(data)), det(i, data, err, card.Events[evStart:]))
			return
		case !bytesEq(data, object):
			what := "wrong-bytes"
			switch {
			case whose(data) != "":
				what = "another-files-bytes"
			case len(data) < len(object) && bytesEq(data, object[:len(data)]):
				what = "prefix"
			}
			k.Violation("readfile:history:"+what+":"+context(), fmt.Sprintf("step %d: ReadFile(%04x) returned %d bytes that differ from the stored %d-byte object of that file (the bytes are the object of %q)", i, st.fid, len(data), len(object), whose(data)), det(i, data, err, card.Events[evStart:]))
			return
		default:
			k.Count("history_result_exact")
			if askedBefore {
				k.Count("history_result_exact_for_a_file_asked_for_before")
			}
		}
	}
	if nreads > 1 {
		k.AddEvals(int64(nreads - 1))
	}
	k.Max("history_max_reads_in_one_session", int64(nreads))
	k.Sample("history", map[string]any{"history": h.String(), "reads": nreads})
}
