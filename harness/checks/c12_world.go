package checks

import (
	"fmt"
	"math/big"
	mrand "math/rand/v2"
	"time"

	"github.com/gmrtd/gmrtd/cms"
	"github.com/gmrtd/gmrtd/document"
	"github.com/gmrtd/gmrtd/iso7816"

	"verifharness/chipsim"
	"verifharness/der"
	"verifharness/ecref"
	"verifharness/fw"
	"verifharness/issuer"
	"verifharness/ldsgen"
	"verifharness/mutate"
	"verifharness/perso"
	"verifharness/refber"
	"verifharness/symref"
)

// c12Session is one genuine live read of a simulated chip (source of whole-document seeds).
type c12Session struct {
	p         *perso.Perso
	pp        persoPlan
	docEx     *document.DocumentEx
	log       *iso7816.ApduLog
	blob      []byte
	respBytes int
	exchanges int
	readAlloc uint64
	readCPU   time.Duration
}

type c12World struct {
	c         *fw.Ctx
	seeds     map[string][][]byte
	sessions  []*c12Session
	pool      *cms.GenericCertPool
	roots     [][]byte
	base      map[string]*c12Base
	violSeen  map[string]int
	allocSeen map[string]int
	caseCPU   time.Duration
	debugOn   bool
	// SM keys of the SecureMessaging.Decode entries (known to the harness, fresh per run)
	smKeys                     map[symref.Suite][2][]byte
	docCache                   []*c12Doc
	evBaseDone, readerBaseDone bool
	cpuSum                     map[string]time.Duration
	refUnit                    time.Duration
}

func (w *c12World) add(kind string, b ...[]byte) {
	for _, x := range b {
		if len(x) > 0 {
			w.seeds[kind] = append(w.seeds[kind], x)
		}
	}
}

// kinds concatenates the seeds of several kinds (deduplicated, bounded).
func (w *c12World) kinds(names ...string) [][]byte {
	var out [][]byte
	seen := map[uint64]bool{}
	for _, n := range names {
		for _, s := range w.seeds[n] {
			h := c12Hash(s)
			if !seen[h] {
				seen[h] = true
				out = append(out, s)
			}
		}
	}
	return out
}

func c12Plans() []persoPlan {
	mk := func(f func(o *perso.Opts)) persoPlan {
		var pp persoPlan
		pp.extended, pp.maxLe = true, 65536
		pp.o.Digest = issuer.SHA256
		pp.o.PKI.CertHash = issuer.SHA256
		pp.o.Layout = ldsgen.TD3
		f(&pp.o)
		return pp
	}
	return []persoPlan{
		mk(func(o *perso.Opts) { // BAC, RSA AA, every optional data group, RSA PKI
			o.Access, o.DGs = perso.BACOnly, []int{2, 7, 11, 12, 13, 16}
			o.AA = perso.AAOpts{Kind: 1, Bits: 1024, Hash: chipsim.AASHA256}
			o.PKI.CSCAKey, o.PKI.DSKey = issuer.RSAKeyOf(2048, 0), issuer.RSAKeyOf(2048, 1)
			o.DG2Size = 2000
		}),
		mk(func(o *perso.Opts) { // PACE-GM + BAC, CA with key ids, ECDSA AA, TD1
			o.Access, o.ParamID, o.Suite, o.Layout = perso.PACEGMWithBAC, 12, symref.AllSuites[1], ldsgen.TD1
			o.CA = perso.CAOpts{On: true, Curve: 0, Suite: symref.AllSuites[1], Form: 0, Arrange: 1}
			o.AA = perso.AAOpts{Kind: 2, Curve: 0}
			o.DGs, o.SODBySKI, o.LDSv1 = []int{2, 11}, true, true
			o.Unsupported = []int{3}
		}),
		mk(func(o *perso.Opts) { // PACE-CAM on brainpoolP256r1, AES-128, TD2
			o.Access, o.ParamID, o.Suite, o.Layout = perso.PACECAM, 13, symref.AllSuites[1], ldsgen.TD2
			o.DGs = []int{2, 12}
			o.Digest = issuer.SHA384
		}),
		mk(func(o *perso.Opts) { // PACE-GM with the CAN, CA 3DES with two keys (explicit parameters)
			o.Access, o.ParamID, o.Suite, o.CAN = perso.PACEGMOnly, 12, symref.TDES, true
			o.CA = perso.CAOpts{On: true, Curve: 1, Suite: symref.TDES, Form: 1, Arrange: 2}
			o.Digest = issuer.SHA1
		}),
		mk(func(o *perso.Opts) { // BAC, CA without ids and with seed, ECDSA AA with DER signature, RSA-PSS DS
			o.Access = perso.BACOnly
			o.CA = perso.CAOpts{On: true, Curve: 3, Suite: symref.AllSuites[3], Form: 2, Arrange: 0}
			o.AA = perso.AAOpts{Kind: 2, Curve: 3, DER: true}
			o.PKI.CSCAKey, o.PKI.DSKey, o.PKI.DSPSS = issuer.RSAKeyOf(2048, 2), issuer.RSAKeyOf(2048, 3), true
			o.DGs = []int{7, 13}
		}),
		mk(func(o *perso.Opts) { // PACE-CAM on P-256 plus CA and RSA AA
			o.Access, o.ParamID, o.Suite = perso.PACECAM, 12, symref.AllSuites[2]
			o.CA = perso.CAOpts{On: true, Curve: 0, Suite: symref.AllSuites[2], Form: 0, Arrange: 0}
			o.AA = perso.AAOpts{Kind: 1, Bits: 2048, Hash: chipsim.AASHA1}
			o.Digest = issuer.SHA512
		}),
	}
}

// c12BuildWorld generates the genuine seeds. It is a pure function of the seed (every
// worker and every replay builds the same world).
func c12BuildWorld(c *fw.Ctx) *c12World {
	if err := ecref.SelfTest(); err != nil {
		fw.Bug("ecref self-test: %v", err)
	}
	w := &c12World{c: c, seeds: map[string][][]byte{}, base: map[string]*c12Base{}, violSeen: map[string]int{}, allocSeen: map[string]int{}, cpuSum: map[string]time.Duration{}, pool: &cms.GenericCertPool{}, smKeys: map[symref.Suite][2][]byte{}}
	r := c.PlanRNG("c12/world")

	// --- whole documents from live reads
	for i, pp := range c12Plans() {
		p := perso.Build(r, pp.o)
		fw.SeedCryptoRand(c.Seed, fmt.Sprintf("c12/world/%d", i))
		card := p.NewCard(uint64(c.Seed)*131 + uint64(i))
		card.Extended = true
		a0, t0 := c12Alloc(), c12CPU()
		res := liveRead(p, card, liveOpts{maxLe: pp.maxLe}, nil)
		s := &c12Session{p: p, pp: pp, docEx: res.docEx, log: res.log, readCPU: c12CPU() - t0, readAlloc: c12Alloc() - a0}
		if res.err != nil || res.docEx == nil {
			fw.Bug("c12: genuine live read %d failed: %v (%s)", i, res.err, pp.String())
		}
		for _, ev := range card.Events {
			s.respBytes += len(ev.Resp)
		}
		s.exchanges = len(card.Events)
		var err error
		if s.blob, err = res.docEx.ToCbor(); err != nil {
			fw.Bug("c12: ToCbor of a genuine read failed: %v", err)
		}
		w.sessions = append(w.sessions, s)
		if err := w.pool.Add(p.PKI.CSCACert); err != nil {
			fw.Bug("c12: trust store rejects a harness CSCA: %v", err)
		}
		w.roots = append(w.roots, p.PKI.CSCACert)
		w.add("cert", p.PKI.CSCACert, p.PKI.DSCert)
		w.add("CardAccess", p.MF[chipsim.FidCardAccess])
		w.add("CardSecurity", p.MF[chipsim.FidCardSecurity])
		w.add("COM", p.LDS[chipsim.FidCOM])
		w.add("SOD", p.LDS[chipsim.FidSOD])
		for n, b := range p.DGFiles {
			if n == 3 {
				continue
			}
			w.add(fmt.Sprintf("DG%d", n), b)
		}
		w.add("mrz", []byte(p.Zone))
		w.add("cbor-ex", s.blob)
		if b, err := res.docEx.Document.ToCbor(); err == nil {
			w.add("cbor-doc", b)
		}
		if b, err := res.docEx.Session.ChipAuthEvidenceToCbor(); err == nil {
			w.add("cbor-ev", b)
		}
		// protected and plain response APDUs as the terminal saw them
		for j, ev := range card.Events {
			if j%7 == 3 && len(ev.Resp) > 2 && len(ev.Resp) < 600 {
				w.add("rapdu", ev.Resp)
			}
		}
	}
	need := map[string]bool{}
	for _, s := range w.sessions {
		ss := s.docEx.Session
		if ss.ChipAuthResult != nil && ss.ChipAuthResult.Success && ss.ChipAuthResult.Evidence != nil {
			need["CA"] = true
		}
		if ss.PaceCamResult != nil && ss.PaceCamResult.Success && ss.PaceCamResult.Evidence != nil {
			need["CAM"] = true
		}
		if ss.ActiveAuthResult != nil && ss.ActiveAuthResult.Success && ss.ActiveAuthResult.Evidence != nil {
			need["AA"] = true
		}
	}
	if !need["CA"] || !need["CAM"] || !need["AA"] {
		fw.Bug("c12: the genuine sessions do not cover CA, PACE-CAM and AA evidence: %v", need)
	}

	// --- further files straight from the generators
	for i := 0; i < 3; i++ {
		dg2, _ := ldsgen.NewDG2(r, ldsgen.DG2Opts{Templates: 1 + i%2, Encoding: ldsgen.ISO39794, ImageBytes: 200})
		w.add("DG2", dg2)
		dg2b, _ := ldsgen.NewDG2(r, ldsgen.DG2Opts{Templates: 1, ImagesPerTemplate: 1 + i, Encoding: ldsgen.ISO19794, FullHeader: i == 0})
		w.add("DG2", dg2b)
		dg7, _ := ldsgen.NewDG7(r, ldsgen.DG7Opts{})
		dg11, _ := ldsgen.NewDG11(r, ldsgen.DG11Opts{})
		dg12, _ := ldsgen.NewDG12(r, ldsgen.DG12Opts{})
		dg16, _ := ldsgen.NewDG16(r, ldsgen.DG16Opts{})
		dg13, _ := ldsgen.RandDG13(r, 300)
		com, _ := ldsgen.RandCOM(r)
		w.add("DG7", dg7)
		w.add("DG11", dg11)
		w.add("DG12", dg12)
		w.add("DG16", dg16)
		w.add("DG13", dg13)
		w.add("COM", com)
		ca, _ := ldsgen.NewCardAccess(i%2 == 0, ldsgen.RandSecInfos(r, ldsgen.CardAccessMix)...)
		w.add("CardAccess", ca)
		dg14, v14 := ldsgen.NewDG14(i%2 == 0, ldsgen.RandSecInfos(r, ldsgen.DG14Mix)...)
		w.add("DG14", dg14)
		w.add("secinfos", v14.SetDER)
		sod, _ := ldsgen.NewUnsignedSOD(r, ldsgen.LSOOpts{Version: i % 2, LDSVersion: "0108", UnicodeVersion: "040000"}, ldsgen.UnsignedOpts{SKI: i == 1})
		w.add("SOD", sod)
		cs, _ := ldsgen.NewUnsignedCardSecurity(r, true, ldsgen.UnsignedOpts{}, ldsgen.RandSecInfos(r, ldsgen.DG14Mix)...)
		w.add("CardSecurity", cs)
		w.add("DG15", ldsgen.NewDG15(ldsgen.RandSPKI(r, i%2 == 0, false)))
		w.add("spki", ldsgen.RandSPKI(r, true, false), ldsgen.RandSPKI(r, false, false), ldsgen.RandECSPKI(r, ldsgen.ECParamsStyle(i)))
	}
	aid := []byte{0xA0, 0x00, 0x00, 0x02, 0x47, 0x10, 0x01}
	w.add("EFDIR",
		der.T(0x61, der.T(0x4F, aid)),
		ldsgen.Cat(der.T(0x61, der.T(0x4F, aid), der.T(0x50, []byte("eMRTD"))), der.T(0x61, der.T(0x4F, append(append([]byte{}, aid[:6]...), 0x02)), der.T(0x51, []byte{0x3F, 0x00}))))
	// CardAccess files double as bare SecurityInfos
	w.add("secinfos", w.seeds["CardAccess"]...)
	for _, dg14 := range w.seeds["DG14"] {
		if n, err := refber.ParseOne(dg14); err == nil {
			w.add("secinfos", n.Content(dg14))
		}
	}
	// biometric records and keys from inside the files
	for _, dg2 := range w.seeds["DG2"] {
		tree, err := refber.Parse(dg2)
		if err != nil {
			continue
		}
		for _, n := range c12FindDeep(tree, 0x5F2E) {
			w.add("iso19794", n.Content(dg2))
		}
		for _, n := range c12FindDeep(tree, 0x7F2E) {
			w.add("iso39794", n.Content(dg2))
		}
	}
	for _, dg15 := range w.seeds["DG15"] {
		if n, err := refber.ParseOne(dg15); err == nil {
			w.add("spki", n.Content(dg15))
		}
	}
	// CMS objects without the file wrapper
	for _, sod := range w.seeds["SOD"] {
		if n, err := refber.ParseOne(sod); err == nil {
			w.add("signeddata", n.Content(sod))
		}
	}
	w.add("signeddata", w.seeds["CardSecurity"]...)
	// master list: SignedData{ CscaMasterList{ version 0, SET OF Certificate } } signed below the first CSCA
	{
		pki := w.sessions[1].p.PKI
		var certs [][]byte
		for _, s := range w.sessions {
			certs = append(certs, s.p.PKI.CSCACert)
		}
		ml := der.Seq(der.Int64(0), der.SetUnsorted(certs...))
		ss := pki.SignerSpec(issuer.SHA256, false)
		st := issuer.BaseTime
		ss.EContentType, ss.EContent, ss.SigningTime = issuer.OIDCscaMasterList, ml, &st
		w.add("masterlist", issuer.BuildSignedData(r, ss))
		w.add("signeddata", w.seeds["masterlist"]...)
		w.add("masterlist-root", pki.CSCACert)
		var all []byte
		for _, cert := range certs {
			all = append(all, cert...)
		}
		w.add("certs", all, pki.DSCert, ldsgen.Cat(pki.CSCACert, pki.DSCert))
		w.add("certs", w.seeds["cert"]...)
	}
	// plain response APDUs
	w.add("rapdu", []byte{0x90, 0x00}, []byte{0x6A, 0x82}, append(ldsgen.RandBytes(r, 40), 0x90, 0x00), append(ldsgen.RandBytes(r, 256), 0x62, 0x82))
	// SM keys
	for _, s := range symref.AllSuites {
		w.smKeys[s] = [2][]byte{randKey(r, s), randKey(r, s)}
	}
	return w
}

// ---------------------------------------------------------------------------------------
// families

var c12BERFams = []c12Fam{
	{"random", 10}, {"ber-grammar", 6}, {"wrapped-random", 6}, {"mutate-bytes", 18}, {"mutate-tree", 12}, {"length-lie", 10},
	{"oid-corrupt", 8}, {"int-extreme", 7}, {"tag-swap", 5}, {"restructure", 6}, {"splice", 5}, {"indefinite", 7},
}
var c12RawFams = []c12Fam{{"random", 30}, {"mutate-bytes", 45}, {"splice", 10}, {"length-lie", 15}}
var c12CBORFams = []c12Fam{{"random", 8}, {"cbor-bytes", 22}, {"mutate-bytes", 10}, {"cbor-inner", 40}, {"cbor-lie", 12}, {"splice", 4}, {"cbor-envelope", 4}}
var c12TextFams = []c12Fam{{"random-text", 20}, {"text-mutation", 60}, {"text-length", 20}}
var c12TupleFams = []c12Fam{{"part-random", 12}, {"part-mutate-bytes", 28}, {"part-mutate-tree", 12}, {"part-length-lie", 10}, {"part-oid-corrupt", 10}, {"part-int-extreme", 12}, {"part-swap", 6}, {"part-empty", 4}, {"part-restructure", 6}}

func c12Families(e *c12Entry) []c12Fam {
	switch e.kind {
	case "ber":
		return c12BERFams
	case "cbor":
		return c12CBORFams
	case "text":
		return c12TextFams
	case "tuple":
		return c12TupleFams
	case "sm":
		return c12SMFams
	}
	return c12RawFams
}

func (w *c12World) pickSeed(r *mrand.Rand, e *c12Entry) []byte {
	if len(e.seeds) == 0 {
		return nil
	}
	return e.seeds[r.IntN(len(e.seeds))]
}

// berFamily applies one BER-aware family to seed (other: a second seed for splices).
func c12BERFamily(r *mrand.Rand, fam string, seed, other []byte) []byte {
	switch fam {
	case "random":
		return mutate.Random(r, mutate.RandLen(r, c12MaxInput))
	case "ber-grammar":
		return refber.Gen(r, refber.GenOptions{MaxDepth: 60, MaxSize: 16384, Tag0: r.IntN(4) == 0})
	case "wrapped-random":
		// the outer identifier of a genuine seed around random / grammar-generated contents
		n, err := refber.ParseOne(seed)
		var inner []byte
		if r.IntN(2) == 0 {
			inner = mutate.Random(r, mutate.RandLen(r, 4096))
		} else {
			inner = refber.Gen(r, refber.GenOptions{MaxDepth: 10, MaxSize: 4096})
		}
		if err != nil {
			return inner
		}
		return append(append(append([]byte{}, n.TagOctets()...), der.Len(len(inner))...), inner...)
	case "mutate-bytes":
		if r.IntN(2) == 0 {
			return refber.Mutate(r, seed)
		}
		return mutate.Bytes(r, seed)
	case "mutate-tree":
		tree, err := refber.Parse(seed)
		if err != nil {
			return refber.Mutate(r, seed)
		}
		return refber.EncodeForm(refber.MutateTree(r, tree))
	case "length-lie":
		return mutate.LengthLie(r, seed, c12LieKinds[r.IntN(len(c12LieKinds))], r.IntN(4) == 0)
	case "oid-corrupt":
		out, ok := mutate.OIDCorrupt(r, seed)
		if !ok {
			return nil
		}
		return out
	case "int-extreme":
		out, ok := mutate.IntExtreme(r, seed, []int{2048, 8192, 65536}[r.IntN(3)])
		if !ok {
			return nil
		}
		return out
	case "tag-swap":
		out, ok := mutate.TagSwap(r, seed)
		if !ok {
			return nil
		}
		return out
	case "restructure":
		out, ok := mutate.Restructure(r, seed, []int{1, 2, 50, 1000, 10001}[r.IntN(5)])
		if !ok {
			return nil
		}
		return out
	case "splice":
		return mutate.Splice(r, seed, other)
	case "indefinite":
		switch r.IntN(3) {
		case 0:
			out, ok := mutate.AllIndefinite(r, seed, false)
			if ok {
				return out
			}
		case 1:
			out, ok := mutate.AllIndefinite(r, seed, true)
			if ok {
				return out
			}
		}
		out, ok := mutate.IndefiniteOne(seed, r.IntN(4096), r.IntN(2) == 0)
		if !ok {
			return nil
		}
		return out
	}
	return nil
}

// the volume families claim at most 64 MiB (cheap to satisfy for a reader that allocates
// before checking); 256 MiB .. 1 GiB claims are a directed family (length-lie-big), 4 GiB
// claims run alone in their case
var c12LieKinds = []string{"17MiB", "16MiB-3oct", "nonminimal", "indefinite", "indefinite", "nonminimal", "plus-one", "minus-one", "zero", "ff-1oct", "5-octets", "max-short"}

func (w *c12World) gen(r *mrand.Rand, e *c12Entry, fam string) []byte {
	seed := w.pickSeed(r, e)
	other := w.pickSeed(r, e)
	switch e.kind {
	case "ber":
		if seed == nil && fam != "random" && fam != "ber-grammar" {
			return nil
		}
		return c12BERFamily(r, fam, seed, other)
	case "raw":
		switch fam {
		case "random":
			return mutate.Random(r, mutate.RandLen(r, c12MaxInput))
		case "mutate-bytes":
			return mutate.Bytes(r, seed)
		case "splice":
			return mutate.Splice(r, seed, other)
		case "length-lie":
			// binary records with 32-bit big-endian length fields: overwrite 4 aligned octets
			out := append([]byte{}, seed...)
			if len(out) >= 4 {
				i := r.IntN(len(out) - 3)
				v := []uint32{0xffffffff, 0x7fffffff, 0x80000000, 0x10000000, 0, 1, uint32(len(out)), uint32(len(out) + 1), 0xffff, 0x10000}[r.IntN(10)]
				out[i], out[i+1], out[i+2], out[i+3] = byte(v>>24), byte(v>>16), byte(v>>8), byte(v)
			}
			return out
		}
	case "text":
		switch fam {
		case "random-text":
			return []byte(mutate.RandomText(r, mutate.RandLen(r, 4096)))
		case "text-mutation":
			return []byte(mutate.Text(r, string(seed)))
		case "text-length":
			n := r.IntN(200)
			if r.IntN(8) == 0 {
				n = mutate.RandLen(r, c12MaxInput)
			}
			s := string(seed)
			for len(s) < n && len(s) > 0 {
				s += s
			}
			if len(s) > n {
				s = s[:n]
			}
			if r.IntN(3) == 0 {
				s = mutate.Text(r, s)
			}
			return []byte(s)
		}
	case "cbor":
		return w.genCBOR(r, e, fam, seed, other)
	case "sm":
		return w.genSM(r, e, fam)
	case "tuple":
		return w.genTuple(r, e, fam, seed, other)
	}
	return nil
}

// ---------------------------------------------------------------------------------------
// tuples: several values packed into one input (4-octet big-endian length + value each)

func c12Pack(parts ...[]byte) []byte {
	var out []byte
	for _, p := range parts {
		out = append(out, byte(len(p)>>24), byte(len(p)>>16), byte(len(p)>>8), byte(len(p)))
		out = append(out, p...)
	}
	return out
}

func c12Unpack(b []byte, n int) [][]byte {
	out := make([][]byte, 0, n)
	for len(out) < n {
		if len(b) < 4 {
			out = append(out, nil)
			b = nil
			continue
		}
		l := int(b[0])<<24 | int(b[1])<<16 | int(b[2])<<8 | int(b[3])
		b = b[4:]
		if l > len(b) {
			l = len(b)
		}
		out = append(out, b[:l])
		b = b[l:]
	}
	return out
}

func (w *c12World) genTuple(r *mrand.Rand, e *c12Entry, fam string, seed, other []byte) []byte {
	if seed == nil {
		return nil
	}
	parts := c12Unpack(seed, e.parts)
	oparts := c12Unpack(other, e.parts)
	i := r.IntN(e.parts)
	p := parts[i]
	var np []byte
	switch fam {
	case "part-random":
		np = mutate.Random(r, mutate.RandLen(r, 8192))
	case "part-mutate-bytes":
		np = c12BERFamily(r, "mutate-bytes", p, nil)
	case "part-mutate-tree":
		np = c12BERFamily(r, "mutate-tree", p, nil)
	case "part-length-lie":
		np = c12BERFamily(r, "length-lie", p, nil)
	case "part-oid-corrupt":
		np = c12BERFamily(r, "oid-corrupt", p, nil)
	case "part-int-extreme":
		np = c12BERFamily(r, "int-extreme", p, nil)
	case "part-restructure":
		np = c12BERFamily(r, "restructure", p, nil)
	case "part-swap":
		np = oparts[r.IntN(e.parts)]
	case "part-empty":
		np = []byte{}
	}
	if np == nil {
		if e.textParts {
			np = []byte(mutate.Text(r, string(p)))
		} else {
			return nil
		}
	}
	if e.textParts && fam != "part-swap" && fam != "part-empty" {
		np = []byte(mutate.Text(r, string(p)))
		if fam == "part-random" {
			np = []byte(mutate.RandomText(r, mutate.RandLen(r, 300)))
		}
	}
	parts[i] = np
	return c12Pack(parts...)
}

// ---------------------------------------------------------------------------------------
// CBOR documents

// c12Doc is a whole exported document taken apart, so that inner values can be changed and
// the envelopes (magic, version, SHA-256) be rebuilt correctly around them.
type c12Doc struct {
	files map[string][]byte // CBOR key of the raw-document map -> file
	cam   *document.PaceCamEvidence
	ca    *document.ChipAuthEvidence
	aa    *document.ActiveAuthEvidence
}

var c12DocKeys = []string{"cardAccess", "cardSecurity", "dir", "com", "sod", "dg1", "dg2", "dg7", "dg11", "dg12", "dg13", "dg14", "dg15", "dg16"}

func c12DocOf(d *document.DocumentEx) *c12Doc {
	out := &c12Doc{files: map[string][]byte{}}
	names := map[string]string{"cardAccess": "CardAccess", "cardSecurity": "CardSecurity", "com": "COM", "sod": "SOD", "dg1": "DG1", "dg2": "DG2", "dg7": "DG7", "dg11": "DG11", "dg12": "DG12", "dg13": "DG13", "dg14": "DG14", "dg15": "DG15", "dg16": "DG16"}
	for key, name := range names {
		if b := docFile(&d.Document, name); len(b) > 0 {
			out.files[key] = append([]byte{}, b...)
		}
	}
	if d.Document.Mf.Dir != nil {
		out.files["dir"] = append([]byte{}, d.Document.Mf.Dir.RawData...)
	}
	s := d.Session
	if s.PaceCamResult != nil && s.PaceCamResult.Evidence != nil {
		e := *s.PaceCamResult.Evidence
		out.cam = &e
	}
	if s.ChipAuthResult != nil && s.ChipAuthResult.Evidence != nil {
		e := *s.ChipAuthResult.Evidence
		out.ca = &e
	}
	if s.ActiveAuthResult != nil && s.ActiveAuthResult.Evidence != nil {
		e := *s.ActiveAuthResult.Evidence
		out.aa = &e
	}
	return out
}

func (d *c12Doc) clone() *c12Doc {
	out := &c12Doc{files: map[string][]byte{}}
	for k, v := range d.files {
		out.files[k] = v
	}
	if d.cam != nil {
		e := *d.cam
		out.cam = &e
	}
	if d.ca != nil {
		e := *d.ca
		out.ca = &e
	}
	if d.aa != nil {
		e := *d.aa
		out.aa = &e
	}
	return out
}

func (d *c12Doc) rawDocMap() []byte {
	var kvs []mutate.KV
	for _, k := range c12DocKeys {
		if b, ok := d.files[k]; ok {
			kvs = append(kvs, mutate.KV{Key: k, Val: mutate.CBytes(b)})
		}
	}
	return mutate.CMap(kvs...)
}

func (d *c12Doc) docCbor() []byte {
	return mutate.Envelope("gmrtd-raw-doc", 1, d.rawDocMap(), false)
}

func (d *c12Doc) bundleMap() []byte {
	var kvs []mutate.KV
	if d.cam != nil {
		e := d.cam
		kvs = append(kvs, mutate.KV{Key: "paceCam", Val: mutate.CMap(
			mutate.KV{Key: "paceOid", Val: mutate.CInts(e.PaceOid)}, mutate.KV{Key: "parameterId", Val: mutate.CInts([]int{e.ParameterId})[1:]},
			mutate.KV{Key: "nonce", Val: mutate.CBytes(e.Nonce)}, mutate.KV{Key: "termMapPri", Val: mutate.CBytes(e.TermMapPri)}, mutate.KV{Key: "termMapPub", Val: mutate.CBytes(e.TermMapPub)},
			mutate.KV{Key: "chipMapPub", Val: mutate.CBytes(e.ChipMapPub)}, mutate.KV{Key: "termKaPri", Val: mutate.CBytes(e.TermKaPri)}, mutate.KV{Key: "termKaPub", Val: mutate.CBytes(e.TermKaPub)},
			mutate.KV{Key: "chipKaPub", Val: mutate.CBytes(e.ChipKaPub)}, mutate.KV{Key: "ecadIC", Val: mutate.CBytes(e.EcadIC)})})
	}
	if d.ca != nil {
		e := d.ca
		var f []mutate.KV
		for _, x := range []struct {
			k string
			v []byte
		}{{"termPri", e.TermPri}, {"termPubKey", e.TermPubKey}, {"smRapdu", e.SmRapdu}, {"smSsc", e.SmSsc}} {
			if len(x.v) > 0 {
				f = append(f, mutate.KV{Key: x.k, Val: mutate.CBytes(x.v)})
			}
		}
		kvs = append(kvs, mutate.KV{Key: "chipAuth", Val: mutate.CMap(f...)})
	}
	if d.aa != nil {
		e := d.aa
		kvs = append(kvs, mutate.KV{Key: "activeAuth", Val: mutate.CMap(
			mutate.KV{Key: "algorithm", Val: mutate.CInts(e.Algorithm)}, mutate.KV{Key: "nonce", Val: mutate.CBytes(e.Nonce)}, mutate.KV{Key: "signature", Val: mutate.CBytes(e.Signature)})})
	}
	return mutate.CMap(kvs...)
}

func (d *c12Doc) evCbor() []byte {
	return mutate.Envelope("gmrtd-chip-auth-evidence", 2, d.bundleMap(), false)
}

func (d *c12Doc) exCbor() []byte {
	inner := mutate.CMap(mutate.KV{Key: "document", Val: mutate.CBytes(d.docCbor())}, mutate.KV{Key: "chipAuthEvidence", Val: mutate.CBytes(d.evCbor())})
	return mutate.Envelope("gmrtd-verifiable-doc", 1, inner, false)
}

// for an entry: which of the three envelopes it reads
func (d *c12Doc) encodeFor(level string) []byte {
	switch level {
	case "doc":
		return d.docCbor()
	case "ev":
		return d.evCbor()
	}
	return d.exCbor()
}

func (w *c12World) docs() []*c12Doc {
	if w.docCache == nil {
		for _, s := range w.sessions {
			w.docCache = append(w.docCache, c12DocOf(s.docEx))
		}
	}
	return w.docCache
}

// c12BigField replaces one evidence field (clamped like every volume input: the recorded
// response APDU goes through the TLV decoder before its checksum is verified).
func c12BigField(r *mrand.Rand, old []byte) []byte {
	out := append([]byte{}, c12BigFieldRaw(r, old)...)
	c12ClampClaims(out)
	return out
}

func c12BigFieldRaw(r *mrand.Rand, old []byte) []byte {
	switch r.IntN(9) {
	case 0:
		return []byte{}
	case 1:
		return mutate.Random(r, 1025)
	case 2:
		return mutate.Random(r, 1024)
	case 3:
		return make([]byte, 1<<20)
	case 4:
		return mutate.Random(r, 1+r.IntN(64))
	case 5:
		return mutate.Bytes(r, old)
	case 6:
		return append(make([]byte, 17), old...)
	case 7:
		if len(old) > 0 {
			return old[:len(old)-1]
		}
		return []byte{1}
	}
	return append(append([]byte{}, old...), 0)
}

func c12EvFields(d *c12Doc) []*[]byte {
	var f []*[]byte
	if d.cam != nil {
		e := d.cam
		f = append(f, &e.Nonce, &e.TermMapPri, &e.TermMapPub, &e.ChipMapPub, &e.TermKaPri, &e.TermKaPub, &e.ChipKaPub, &e.EcadIC)
	}
	if d.ca != nil {
		e := d.ca
		f = append(f, &e.TermPri, &e.TermPubKey, &e.SmRapdu, &e.SmSsc)
	}
	if d.aa != nil {
		e := d.aa
		f = append(f, &e.Nonce, &e.Signature)
	}
	return f
}

func (w *c12World) genCBOR(r *mrand.Rand, e *c12Entry, fam string, seed, other []byte) []byte {
	switch fam {
	case "random":
		return mutate.Random(r, mutate.RandLen(r, c12MaxInput))
	case "cbor-bytes":
		return mutate.CBORBytes(r, seed)
	case "mutate-bytes":
		return mutate.Bytes(r, seed)
	case "splice":
		return mutate.Splice(r, seed, other)
	case "cbor-lie":
		kind := mutate.CLieKinds[r.IntN(len(mutate.CLieKinds))]
		size := []int{4, 15, 16, 17, 31, 32, 33, 64, 1000, 10000}[r.IntN(10)]
		lie := mutate.CLie(kind, size)
		switch r.IntN(4) {
		case 0:
			return lie
		case 1: // as the payload of a correct envelope
			return mutate.Envelope(e.magic, e.version, lie, false)
		case 2: // in place of one envelope member
			key := []string{"magic", "version", "sha256", "payload"}[r.IntN(4)]
			kv := []mutate.KV{{Key: "magic", Val: mutate.CText(e.magic)}, {Key: "version", Val: mutate.CUint(e.version)}, {Key: "sha256", Val: mutate.CBytes(make([]byte, 32))}, {Key: "payload", Val: mutate.CBytes([]byte{0xa0})}}
			for i := range kv {
				if kv[i].Key == key {
					kv[i].Val = lie
				}
			}
			return mutate.CMap(kv...)
		}
		// inside the payload map, as the value of a known key
		keys := c12DocKeys
		if e.level == "ev" {
			keys = []string{"paceCam", "chipAuth", "activeAuth"}
		} else if e.level == "ex" {
			keys = []string{"document", "chipAuthEvidence"}
		}
		return mutate.Envelope(e.magic, e.version, mutate.CMap(mutate.KV{Key: keys[r.IntN(len(keys))], Val: lie}), false)
	case "cbor-envelope":
		docs := w.docs()
		d := docs[r.IntN(len(docs))]
		var payload []byte
		switch e.level {
		case "doc":
			payload = d.rawDocMap()
		case "ev":
			payload = d.bundleMap()
		default:
			payload = mutate.CMap(mutate.KV{Key: "document", Val: mutate.CBytes(d.docCbor())}, mutate.KV{Key: "chipAuthEvidence", Val: mutate.CBytes(d.evCbor())})
		}
		switch r.IntN(5) {
		case 0:
			return mutate.Envelope(e.magic, e.version, payload, true)
		case 1:
			return mutate.Envelope(e.magic, []uint64{0, 1, 2, 3, 1 << 32, 1<<64 - 1}[r.IntN(6)], payload, false)
		case 2:
			return mutate.Envelope([]string{"", "gmrtd-raw-doc", "gmrtd-verifiable-doc", "gmrtd-chip-auth-evidence", "x"}[r.IntN(5)], e.version, payload, false)
		case 3:
			mp := mutate.Bytes(r, payload)
			c12ClampClaims(mp) // the files inside are parsed when the checksum matches
			return mutate.Envelope(e.magic, e.version, mp, false)
		}
		mp := mutate.CBORBytes(r, payload)
		c12ClampClaims(mp)
		return mutate.Envelope(e.magic, e.version, mp, false)
	case "cbor-inner":
		docs := w.docs()
		d := docs[r.IntN(len(docs))].clone()
		x := r.IntN(10)
		if e.level == "ev" {
			x = 7 + r.IntN(3)
		} else if e.level == "doc" {
			x = r.IntN(7)
		}
		switch {
		case x < 5: // one file replaced by a BER-family mutant of itself
			var keys []string
			for _, k := range c12DocKeys {
				if _, ok := d.files[k]; ok {
					keys = append(keys, k)
				}
			}
			k := keys[r.IntN(len(keys))]
			f := c12BERFams[r.IntN(len(c12BERFams))].name
			m := c12BERFamily(r, f, d.files[k], d.files[keys[r.IntN(len(keys))]])
			if m == nil {
				m = mutate.Bytes(r, d.files[k])
			}
			c12ClampClaims(m)
			d.files[k] = m
		case x < 6: // a file dropped
			for _, k := range c12DocKeys {
				if _, ok := d.files[k]; ok && r.IntN(4) == 0 {
					delete(d.files, k)
				}
			}
		case x < 7: // files exchanged between slots
			a, b := c12DocKeys[r.IntN(len(c12DocKeys))], c12DocKeys[r.IntN(len(c12DocKeys))]
			fa, oka := d.files[a]
			fb, okb := d.files[b]
			if oka {
				d.files[b] = fa
			}
			if okb {
				d.files[a] = fb
			}
		case x < 9: // one evidence field changed
			if f := c12EvFields(d); len(f) > 0 {
				p := f[r.IntN(len(f))]
				*p = c12BigField(r, *p)
			} else {
				d.ca = &document.ChipAuthEvidence{TermPri: []byte{1}, TermPubKey: []byte{4, 1, 2}, SmRapdu: []byte{0x99, 2, 0x90, 0, 0x90, 0}}
			}
		default: // evidence of another session / evidence without its document part
			o := docs[r.IntN(len(docs))]
			d.cam, d.ca, d.aa = o.cam, o.ca, o.aa
			if r.IntN(2) == 0 {
				delete(d.files, []string{"dg14", "dg15", "cardSecurity", "sod"}[r.IntN(4)])
			}
		}
		return d.encodeFor(e.level)
	}
	return nil
}

// ---------------------------------------------------------------------------------------
// directed inputs

type c12Directed struct {
	family string
	gen    func() [][]byte
}

func c12OuterTag(seed []byte) []byte {
	if n, err := refber.ParseOne(seed); err == nil {
		return n.TagOctets()
	}
	if len(seed) > 0 {
		return seed[:1]
	}
	return []byte{0x30}
}

func c12Wrap(tag, content []byte) []byte {
	return append(append(append([]byte{}, tag...), der.Len(len(content))...), content...)
}

func (w *c12World) directed(e *c12Entry) []c12Directed {
	var out []c12Directed
	// the inputs are generated inside the case that owns them (every worker enumerates the list)
	add := func(family string, gen func() [][]byte) { out = append(out, c12Directed{family, gen}) }
	switch e.kind {
	case "ber":
		var outer []byte
		if len(e.seeds) > 0 {
			outer = c12OuterTag(e.seeds[0])
		}
		both := func(x []byte) [][]byte {
			if outer == nil {
				return [][]byte{x}
			}
			return [][]byte{x, c12Wrap(outer, x)}
		}
		for _, shape := range mutate.NestShapes {
			shape := shape
			add("nest:"+shape, func() [][]byte {
				var ins [][]byte
				for _, depth := range []int{49, 50, 51, 52, 1000} {
					ins = append(ins, both(mutate.Nest(shape, depth, []byte{0x05, 0x00}))...)
				}
				return ins
			})
		}
		add("nest:100000", func() [][]byte {
			return [][]byte{mutate.Nest("indefinite", 100000, nil), mutate.Nest("indefinite-no-eoc", 100000, nil), mutate.Nest("definite", 100000, []byte{0x05, 0x00})}
		})
		for _, shape := range mutate.ManyShapes {
			shape := shape
			add("many:"+shape, func() [][]byte {
				var ins [][]byte
				for _, n := range []int{9999, 10000, 10001, 100000} {
					ins = append(ins, both(mutate.Many(shape, n))...)
				}
				return ins
			})
		}
		// indefinite marker on every element of the first seeds
		for si := range e.seeds {
			if si >= 3 {
				break
			}
			s := e.seeds[si]
			add("indefinite-every-element", func() [][]byte {
				var ins [][]byte
				for idx := 0; idx < 96; idx++ {
					if x, ok := mutate.IndefiniteOne(s, idx, idx%2 == 0); ok {
						ins = append(ins, x)
					}
				}
				return ins
			})
		}
		// malformed OID contents: bare elements and wrapped forms (inside genuine files: family oid-corrupt)
		add("oid-bare", func() [][]byte {
			var oids [][]byte
			for _, v := range mutate.MalformedOIDs {
				el := c12Wrap([]byte{0x06}, v)
				oids = append(oids, both(el)...)
				oids = append(oids, both(c12Wrap([]byte{0x30}, el))...)
			}
			return oids
		})
		// large claims on the outermost and on an inner element of the first seed
		if len(e.seeds) > 0 {
			add("length-lie-big", func() [][]byte {
				var ins [][]byte
				lr := mrand.New(mrand.NewPCG(uint64(len(e.name)), 77))
				// (512 MiB and 1 GiB claims behave the same and mostly cost memory bandwidth)
				ins = append(ins, mutate.LengthLie(lr, e.seeds[0], "256MiB", true), mutate.LengthLie(lr, e.seeds[0], "256MiB", false))
				return ins
			})
		}
		// 4 GiB claims: ONE input per case (a reader that allocates first ends the worker), at a
		// selection of entries only: every death costs a respawn and a confirming run, and the
		// 256 MiB .. 1 GiB claims above already cover every entry
		var huge [][]byte
		switch e.name {
		case "tlv.Decode":
			huge = [][]byte{mutate.Huge4GiB([]byte{0x04}, 0xf0, nil), c12Wrap([]byte{0x30}, mutate.Huge4GiB([]byte{0x04}, 0xf0, nil))}
		case "tlv.Unwrap":
			huge = [][]byte{mutate.Huge4GiB([]byte{0x04}, 0xf0, nil)}
		case "document.NewSOD", "document.NewDG13":
			huge = [][]byte{mutate.Huge4GiB(outer, 0xf0, []byte{0x30, 0x00})}
		case "document.NewDG1", "document.NewDG11":
			huge = [][]byte{c12Wrap(outer, mutate.Huge4GiB([]byte{0x04}, 0xf0, nil))}
		}
		for _, h := range huge {
			h := h
			add("length-4GiB", func() [][]byte { return [][]byte{h} })
		}
	case "cbor":
		add("cbor-lie-directed", func() [][]byte {
			var ins [][]byte
			for _, kind := range mutate.CLieKinds {
				for _, size := range []int{4, 16, 17, 32, 33, 1000, 100000} {
					lie := mutate.CLie(kind, size)
					ins = append(ins, lie, mutate.Envelope(e.magic, e.version, lie, false))
				}
			}
			return ins
		})
		if e.name == "verifier.Verify" {
			// a 4 GiB claim inside a data group of an otherwise genuine export (alone in its case)
			add("length-4GiB", func() [][]byte {
				d := w.docs()[0].clone()
				d.files["dg11"] = c12Wrap([]byte{0x6B}, mutate.Huge4GiB([]byte{0x04}, 0xf0, nil))
				return [][]byte{d.exCbor()}
			})
		}
		if e.level == "ex" {
			// the smallest bundles that reach each VerifyEvidence without the document part it needs
			mk := func(ev []mutate.KV, files ...mutate.KV) []byte {
				doc := mutate.Envelope("gmrtd-raw-doc", 1, mutate.CMap(files...), false)
				evid := mutate.Envelope("gmrtd-chip-auth-evidence", 2, mutate.CMap(ev...), false)
				return mutate.Envelope("gmrtd-verifiable-doc", 1, mutate.CMap(mutate.KV{Key: "document", Val: mutate.CBytes(doc)}, mutate.KV{Key: "chipAuthEvidence", Val: mutate.CBytes(evid)}), false)
			}
			one := mutate.CBytes([]byte{1})
			caEv := mutate.KV{Key: "chipAuth", Val: mutate.CMap(mutate.KV{Key: "termPri", Val: one}, mutate.KV{Key: "termPubKey", Val: one}, mutate.KV{Key: "smRapdu", Val: one})}
			aaEv := mutate.KV{Key: "activeAuth", Val: mutate.CMap(mutate.KV{Key: "algorithm", Val: mutate.CInts([]int{1, 2, 840, 113549, 1, 1, 1})}, mutate.KV{Key: "nonce", Val: one}, mutate.KV{Key: "signature", Val: one})}
			camEv := mutate.KV{Key: "paceCam", Val: mutate.CMap(mutate.KV{Key: "paceOid", Val: mutate.CInts([]int{0, 4, 0, 127, 0, 7, 2, 2, 4, 6, 2})}, mutate.KV{Key: "parameterId", Val: mutate.CUint(13)},
				mutate.KV{Key: "nonce", Val: one}, mutate.KV{Key: "termMapPri", Val: one}, mutate.KV{Key: "termMapPub", Val: one}, mutate.KV{Key: "chipMapPub", Val: one},
				mutate.KV{Key: "termKaPri", Val: one}, mutate.KV{Key: "termKaPub", Val: one}, mutate.KV{Key: "chipKaPub", Val: one}, mutate.KV{Key: "ecadIC", Val: one})}
			add("minimal-ca-evidence-no-dg14", func() [][]byte { return [][]byte{mk([]mutate.KV{caEv})} })
			add("minimal-aa-evidence-no-dg15", func() [][]byte { return [][]byte{mk([]mutate.KV{aaEv})} })
			add("minimal-cam-evidence-no-cardsecurity", func() [][]byte { return [][]byte{mk([]mutate.KV{camEv})} })
			add("minimal-all-evidence-empty-document", func() [][]byte { return [][]byte{mk([]mutate.KV{camEv, caEv, aaEv})} })
			add("empty-evidence-maps", func() [][]byte {
				return [][]byte{mk([]mutate.KV{{Key: "chipAuth", Val: mutate.CMap()}, {Key: "activeAuth", Val: mutate.CMap()}, {Key: "paceCam", Val: mutate.CMap()}})}
			})
		}
	case "text":
		for si := range e.seeds {
			if si >= 6 {
				break
			}
			s := e.seeds[si]
			add("text-directed", func() [][]byte {
				var ins [][]byte
				for n := 0; n <= len(s)+3 && n < 100; n++ {
					if n <= len(s) {
						ins = append(ins, s[:n])
					} else {
						ins = append(ins, append(append([]byte{}, s...), make([]byte, n-len(s))...))
					}
				}
				for _, rep := range []string{"é", "\xff", "\x00", "中", "\n"} {
					for _, pos := range []int{0, 1, 5, 14, 29, 30, 43, 44, 59, 60, len(s) - 1} {
						if pos >= 0 && pos < len(s) {
							ins = append(ins, []byte(string(s[:pos])+rep+string(s[pos+1:])))
						}
					}
				}
				return ins
			})
		}
	}
	return out
}

// ---------------------------------------------------------------------------------------
// doubling families

func (w *c12World) scales(e *c12Entry) []c12Scale {
	var out []c12Scale
	rnd := func(n int) []byte {
		r := mrand.New(mrand.NewPCG(uint64(n), 12))
		b := make([]byte, n)
		for i := range b {
			b[i] = byte(r.Uint32())
		}
		return b
	}
	switch e.kind {
	case "ber":
		var seed, outer []byte
		if len(e.seeds) > 0 {
			seed = e.seeds[0]
			outer = c12OuterTag(seed)
		} else {
			outer = []byte{0x30}
		}
		out = append(out,
			c12Scale{"random", 1024, 1 << 20, rnd},
			c12Scale{"nest-indefinite", 64, 1 << 17, func(n int) []byte { return mutate.Nest("indefinite", n, nil) }},
			c12Scale{"many-null", 256, 1 << 18, func(n int) []byte { return mutate.Many("flat-null", n) }},
			c12Scale{"many-in-outer", 256, 1 << 18, func(n int) []byte { return c12Wrap(outer, mutate.Many("flat-int", n)) }},
			c12Scale{"big-octets-in-outer", 1024, 1 << 20, func(n int) []byte { return c12Wrap(outer, c12Wrap([]byte{0x04}, rnd(n))) }},
			c12Scale{"big-printable-in-outer", 1024, 1 << 20, func(n int) []byte {
				b := make([]byte, n)
				for i := range b {
					b[i] = 'A' + byte(i%26)
				}
				return c12Wrap(outer, c12Wrap([]byte{0x0c}, b))
			}},
		)
		if seed != nil {
			out = append(out,
				c12Scale{"first-integer-grows", 256, 1 << 16, func(n int) []byte { return c12GrowFirst(seed, 0x02, n) }},
				c12Scale{"first-oid-grows", 256, 1 << 16, func(n int) []byte { return c12GrowFirst(seed, 0x06, n) }},
				c12Scale{"first-octets-grows", 1024, 1 << 20, func(n int) []byte { return c12GrowFirst(seed, 0x04, n) }},
			)
			for j := 0; j < 4; j++ {
				j := j
				out = append(out, c12Scale{fmt.Sprintf("repeat-child-of-%d", j), 16, 1 << 14, func(n int) []byte { return c12RepeatChild(seed, j, n) }})
			}
		}
	case "raw", "sm":
		out = append(out, c12Scale{"random", 1024, 1 << 20, rnd})
		if len(e.seeds) > 0 {
			s := e.seeds[0]
			out = append(out, c12Scale{"seed-repeated", 1, 1 << 10, func(n int) []byte {
				if n*len(s) > 1<<20 {
					return nil
				}
				var b []byte
				for i := 0; i < n; i++ {
					b = append(b, s...)
				}
				return b
			}})
		}
	case "text":
		out = append(out, c12Scale{"random-text", 64, 1 << 20, func(n int) []byte {
			return []byte(mutate.RandomText(mrand.New(mrand.NewPCG(uint64(n), 5)), n))
		}})
		if len(e.seeds) > 0 {
			s := e.seeds[0]
			out = append(out, c12Scale{"seed-repeated", 1, 1 << 14, func(n int) []byte {
				if n*len(s) > 1<<20 {
					return nil
				}
				var b []byte
				for i := 0; i < n; i++ {
					b = append(b, s...)
				}
				return b
			}}, c12Scale{"seed-padded", 64, 1 << 20, func(n int) []byte {
				b := append([]byte{}, s...)
				for len(b) < n {
					b = append(b, '<')
				}
				return b
			}})
		}
	case "cbor":
		out = append(out,
			c12Scale{"random", 1024, 1 << 20, rnd},
			c12Scale{"nest-array", 16, 1 << 17, func(n int) []byte { return mutate.CLie("nest-array", n) }},
			c12Scale{"array-real", 1024, 1 << 20, func(n int) []byte { return mutate.CLie("array-1e6-real", n) }},
			c12Scale{"indef-bytes-chunks", 1024, 1 << 19, func(n int) []byte { return mutate.CLie("indef-bytes", n) }},
			c12Scale{"payload-array", 1024, 1 << 20, func(n int) []byte {
				return mutate.Envelope(e.magic, e.version, mutate.CLie("array-1e6-real", n), false)
			}},
		)
		if e.level != "ev" {
			docs := w.docs()
			d0 := docs[0]
			out = append(out, c12Scale{"dg13-grows", 1024, 1 << 20, func(n int) []byte {
				d := d0.clone()
				d.files["dg13"] = c12Wrap([]byte{0x6D}, rnd(n))
				return d.encodeFor(e.level)
			}}, c12Scale{"dg11-elements", 16, 1 << 13, func(n int) []byte {
				d := d0.clone()
				d.files["dg11"] = c12Wrap([]byte{0x6B}, mutate.Many("octet-1", n))
				return d.encodeFor(e.level)
			}})
		}
	}
	return out
}

// c12GrowFirst replaces the contents of the first primitive element with the given tag by
// n octets (ff.. with a leading 00 for integers, arcs for OIDs), lengths kept consistent.
func c12GrowFirst(seed []byte, tag uint32, n int) []byte {
	tree, err := refber.Parse(seed)
	if err != nil {
		return nil
	}
	var target *refber.Node
	refber.Walk(tree, func(x *refber.Node, _ int) bool {
		if target == nil && x.Tag == tag && !x.Constructed {
			target = x
		}
		return target == nil
	})
	if target == nil {
		return nil
	}
	v := make([]byte, n)
	for i := range v {
		switch tag {
		case 0x06:
			v[i] = byte(1 + i%100)
		default:
			v[i] = 0xff
		}
	}
	if tag == 0x02 {
		v[0] = 0
	}
	if tag == 0x06 {
		v[0] = 0x2a
	}
	target.Value = v
	return refber.Encode(tree)
}

// c12RepeatChild repeats the first child of the j-th constructed element n times.
func c12RepeatChild(seed []byte, j, n int) []byte {
	tree, err := refber.Parse(seed)
	if err != nil {
		return nil
	}
	var cons []*refber.Node
	refber.Walk(tree, func(x *refber.Node, _ int) bool {
		if x.Constructed && len(x.Children) > 0 {
			cons = append(cons, x)
		}
		return len(cons) <= j
	})
	if j >= len(cons) {
		return nil
	}
	p := cons[j]
	ch := p.Children[0]
	if (ch.HdrLen+ch.ValLen)*n > 1<<20 {
		return nil
	}
	kids := make([]*refber.Node, 0, n+len(p.Children))
	for i := 0; i < n; i++ {
		kids = append(kids, ch)
	}
	p.Children = append(kids, p.Children[1:]...)
	return refber.Encode(tree)
}

// c12FindDeep returns every element with the tag, at any depth.
func c12FindDeep(tree []*refber.Node, tag uint32) []*refber.Node {
	var out []*refber.Node
	refber.Walk(tree, func(n *refber.Node, _ int) bool {
		if n.Tag == tag {
			out = append(out, n)
		}
		return true
	})
	return out
}

var _ = big.NewInt
