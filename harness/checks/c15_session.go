package checks

import (
	"errors"
	"fmt"
	"math/big"
	mrand "math/rand/v2"

	"github.com/gmrtd/gmrtd/document"

	"verifharness/chipsim"
	"verifharness/ecref"
	"verifharness/fw"
	"verifharness/perso"
	"verifharness/symref"
)

// C15, session-state dimension.
//
// The evidence of a mechanism lives in Session.<Mech>Result.Evidence. A session carries more
// state next to it: the Success flag of the result, the recorded error of the step
// (Session.<Mech>Err; PACE-CAM shares PaceErr with PACE), and the outcomes of the other steps
// (BAC, PACE, passive authentication, Document.Verify, chip activation). A failed step
// legitimately has evidence AND an error (activeauth.ValidateActiveAuthSignature fills in the
// evidence before it checks the signature). "Exporting and importing yields the same
// evidence values" is stated for the evidence, whatever the rest of the session says, so
// every evidence struct that is present before the export must be present and equal after
// the import, and a mechanism without evidence must come back without evidence.
//
// Only the evidence structs are required to round-trip: the unchanged exporter
// (document/session_cbor.go) carries nothing else (no Success flags, no error strings, no
// BAC / PACE / passive authentication results), so nothing else is compared.

// c15Mech is the state of one mechanism in a session.
type c15Mech struct {
	result bool // <Mech>Result != nil
	ev     bool // <Mech>Result.Evidence != nil
	err    bool // <Mech>Err != nil
	ok     bool // <Mech>Result.Success
}

// 10 states: 0 = nothing recorded, 1 = only an error (the step failed before a result
// existed), 2..9 = result present with evidence x error x success.
const c15MechStates = 10

func c15MechOf(s int) c15Mech {
	if s < 2 {
		return c15Mech{err: s == 1}
	}
	b := s - 2
	return c15Mech{result: true, ev: b&1 != 0, err: b&2 != 0, ok: b&4 != 0}
}

func b01(b bool) int {
	if b {
		return 1
	}
	return 0
}

func (m c15Mech) String() string {
	return fmt.Sprintf("res=%d_ev=%d_err=%d_ok=%d", b01(m.result), b01(m.ev), b01(m.err), b01(m.ok))
}

// error values of the kinds a session holds
type c15StepErr struct {
	step string
	sw   uint16
}

func (e *c15StepErr) Error() string {
	if e == nil {
		return "c15StepErr(nil)"
	}
	return fmt.Sprintf("%s: status %04x", e.step, e.sw)
}

type c15ValErr string

func (e c15ValErr) Error() string { return string(e) }

func c15Err(r *mrand.Rand, step string) error {
	switch r.IntN(8) {
	case 0:
		return errors.New("[" + step + "] failed")
	case 1:
		return fmt.Errorf("[%s] ValidateActiveAuthSignature error: %w", step, errors.New("signature mismatch"))
	case 2:
		return &c15StepErr{step: step, sw: uint16(0x6000 + r.IntN(0x1000))}
	case 3:
		return errors.New("") // an error with an empty message is still an error
	case 4:
		return errors.Join(errors.New(step+": first"), &c15StepErr{step: step, sw: 0x6982})
	case 5:
		return c15ValErr(step + " \x00\xff not UTF-8, " + string(randBytes(r, 1+r.IntN(40))))
	case 6:
		return fmt.Errorf("[%s] outer: %w", step, fmt.Errorf("middle: %w", &c15StepErr{step: step, sw: 0x6300}))
	}
	// a non-nil error interface holding a nil pointer (err != nil is true)
	var e *c15StepErr
	return e
}

func c15PaceCamEv(r *mrand.Rand, style int) *document.PaceCamEvidence {
	e := &document.PaceCamEvidence{
		PaceOid:     c15OID(r, style),
		ParameterId: 8 + r.IntN(11),
		Nonce:       c15Bytes(r, style, []int{16, 24, 32}),
		TermMapPri:  c15Bytes(r, style, c15ScalarSizes),
		TermMapPub:  c15Bytes(r, style, c15PointSizes),
		ChipMapPub:  c15Bytes(r, style, c15PointSizes),
		TermKaPri:   c15Bytes(r, style, c15ScalarSizes),
		TermKaPub:   c15Bytes(r, style, c15PointSizes),
		ChipKaPub:   c15Bytes(r, style, c15PointSizes),
		EcadIC:      c15Bytes(r, style, []int{32, 48, 64, 80}),
	}
	if style == 1 {
		e.ParameterId = []int{0, -1, 23, 24, 255, 256, 65536, -25, 1 << 40, -(1 << 40)}[r.IntN(10)]
	}
	return e
}

func c15ChipAuthEv(r *mrand.Rand, style int) *document.ChipAuthEvidence {
	return &document.ChipAuthEvidence{
		TermPri:    c15Bytes(r, style, c15ScalarSizes),
		TermPubKey: c15Bytes(r, style, c15PointSizes),
		SmRapdu:    c15Bytes(r, style, []int{14, 18, 30, 46}),
		SmSsc:      c15Bytes(r, style, []int{8, 16}),
	}
}

func c15ActiveAuthEv(r *mrand.Rand, style int) *document.ActiveAuthEvidence {
	return &document.ActiveAuthEvidence{
		Algorithm: c15OID(r, style),
		Nonce:     c15Bytes(r, style, []int{8}),
		Signature: c15Bytes(r, style, []int{56, 64, 96, 128, 132, 192, 256}),
	}
}

// c15SessionOf builds a session whose three mechanisms are in the given states; the state
// of the other steps is drawn from r.
func c15SessionOf(r *mrand.Rand, cam, ca, aa c15Mech, style int) document.Session {
	var s document.Session
	if cam.result {
		s.PaceCamResult = &document.PaceCamResult{Success: cam.ok}
		if cam.ev {
			s.PaceCamResult.Evidence = c15PaceCamEv(r, style)
		}
	}
	if cam.err {
		s.PaceErr = c15Err(r, "DoPACE")
	}
	if ca.result {
		s.ChipAuthResult = &document.ChipAuthResult{Success: ca.ok}
		if ca.ev {
			s.ChipAuthResult.Evidence = c15ChipAuthEv(r, style)
		}
	}
	if ca.err {
		s.ChipAuthErr = c15Err(r, "DoChipAuth")
	}
	if aa.result {
		s.ActiveAuthResult = &document.ActiveAuthResult{Success: aa.ok}
		if aa.ev {
			s.ActiveAuthResult.Evidence = c15ActiveAuthEv(r, style)
		}
	}
	if aa.err {
		s.ActiveAuthErr = c15Err(r, "DoActiveAuth")
	}
	c15OtherSteps(r, &s)
	return s
}

// c15OtherSteps fills in the state of the steps that carry no evidence.
func c15OtherSteps(r *mrand.Rand, s *document.Session) {
	switch r.IntN(3) {
	case 1:
		s.ChipActivationRsp = &document.ChipActivationRsp{Atr: []byte{0x3B, 0x80}}
	case 2:
		s.ChipActivationRsp = &document.ChipActivationRsp{Atr: randBytes(r, 2+r.IntN(20)), Ats: randBytes(r, 1+r.IntN(20))}
	}
	switch r.IntN(4) {
	case 1:
		s.BacResult = &document.BacResult{Success: true}
	case 2:
		s.BacResult, s.BacErr = &document.BacResult{Success: false}, c15Err(r, "DoBAC")
	case 3:
		s.BacErr = c15Err(r, "DoBAC")
	}
	switch r.IntN(4) {
	case 1:
		s.PaceResult = &document.PaceResult{Success: true, Oid: c15OID(r, 0), ParameterId: 8 + r.IntN(11)}
	case 2:
		s.PaceResult = &document.PaceResult{Success: false, Oid: c15OID(r, 0), ParameterId: 8 + r.IntN(11)}
	case 3:
		s.PaceResult = &document.PaceResult{}
	}
	chain := func() *document.PassiveAuth {
		var certs [][]byte
		for n := r.IntN(3); n > 0; n-- {
			certs = append(certs, randBytes(r, 20+r.IntN(200)))
		}
		return document.NewPassiveAuth(certs)
	}
	switch r.IntN(5) {
	case 1:
		s.PassiveAuthResult = &document.PassiveAuthResult{Success: true, Sod: chain()}
	case 2:
		s.PassiveAuthResult = &document.PassiveAuthResult{Success: true, Sod: chain(), CardSec: chain()}
	case 3:
		s.PassiveAuthResult, s.PassiveAuthErr = &document.PassiveAuthResult{Success: false}, c15Err(r, "PassiveAuth")
	case 4:
		s.PassiveAuthErr = c15Err(r, "PassiveAuth")
	}
	if r.IntN(3) == 0 {
		s.DocumentVerifyErr = c15Err(r, "Document.Verify")
	}
}

// c15SessionMechs reads the three mechanism states off a session (for counters and for the
// live sessions, whose state is whatever the library recorded).
func c15SessionMechs(s *document.Session) (cam, ca, aa c15Mech) {
	if s.PaceCamResult != nil {
		cam.result, cam.ok, cam.ev = true, s.PaceCamResult.Success, s.PaceCamResult.Evidence != nil
	}
	cam.err = s.PaceErr != nil
	if s.ChipAuthResult != nil {
		ca.result, ca.ok, ca.ev = true, s.ChipAuthResult.Success, s.ChipAuthResult.Evidence != nil
	}
	ca.err = s.ChipAuthErr != nil
	if s.ActiveAuthResult != nil {
		aa.result, aa.ok, aa.ev = true, s.ActiveAuthResult.Success, s.ActiveAuthResult.Evidence != nil
	}
	aa.err = s.ActiveAuthErr != nil
	return
}

func c15CountSession(k *fw.K, prefix string, s *document.Session) {
	cam, ca, aa := c15SessionMechs(s)
	k.Count(prefix + "_CAM_" + cam.String())
	k.Count(prefix + "_CA_" + ca.String())
	k.Count(prefix + "_AA_" + aa.String())
	for _, m := range []c15Mech{cam, ca, aa} {
		if m.ev && m.err {
			k.Count(prefix + "_mechanisms_with_evidence_AND_recorded_error")
		}
		if m.ev && !m.ok {
			k.Count(prefix + "_mechanisms_with_evidence_and_Success_false")
		}
		if !m.ev && m.err {
			k.Count(prefix + "_mechanisms_with_recorded_error_and_no_evidence")
		}
	}
	if s.PassiveAuthErr != nil || s.DocumentVerifyErr != nil || s.BacErr != nil {
		k.Count(prefix + "_with_other_step_errors")
	}
}

// c15Diagnose says under which session state an evidence difference appears: the same
// evidence is exported again from sessions that differ from the original only in the error
// fields / the Success flags / the steps without evidence. The result only refines the
// violation key; the verdict was reached before.
func c15Diagnose(s *document.Session, want *document.ChipAuthEvidenceBundle) string {
	try := func(mod func(t *document.Session)) bool {
		t := *s
		if t.PaceCamResult != nil {
			c := *t.PaceCamResult
			t.PaceCamResult = &c
		}
		if t.ChipAuthResult != nil {
			c := *t.ChipAuthResult
			t.ChipAuthResult = &c
		}
		if t.ActiveAuthResult != nil {
			c := *t.ActiveAuthResult
			t.ActiveAuthResult = &c
		}
		mod(&t)
		blob, err := t.ChipAuthEvidenceToCbor()
		if err != nil {
			return false
		}
		got, err := document.NewChipAuthEvidenceFromCbor(blob)
		if err != nil {
			return false
		}
		f, _ := c15CmpEvidence(want, got)
		return f == ""
	}
	noErrs := func(t *document.Session) {
		t.BacErr, t.PaceErr, t.ChipAuthErr, t.ActiveAuthErr, t.DocumentVerifyErr, t.PassiveAuthErr = nil, nil, nil, nil, nil, nil
	}
	allOK := func(t *document.Session) {
		if t.PaceCamResult != nil {
			t.PaceCamResult.Success = true
		}
		if t.ChipAuthResult != nil {
			t.ChipAuthResult.Success = true
		}
		if t.ActiveAuthResult != nil {
			t.ActiveAuthResult.Success = true
		}
	}
	bare := func(t *document.Session) {
		t.ChipActivationRsp, t.BacResult, t.PaceResult, t.PassiveAuthResult = nil, nil, nil, nil
	}
	switch {
	case try(func(t *document.Session) {}):
		return "" // not reproducible from the evidence level alone
	case try(noErrs):
		return ":only-with-recorded-step-error"
	case try(allOK):
		return ":only-with-unsuccessful-result"
	case try(func(t *document.Session) { noErrs(t); allOK(t) }):
		return ":only-with-recorded-step-error-and-unsuccessful-result"
	case try(func(t *document.Session) { noErrs(t); allOK(t); bare(t) }):
		return ":only-with-other-session-state"
	}
	return ""
}

// ---------------------------------------------------------------------------------------
// live sessions that fail in one step or another

var c15FailModes = []string{
	"aa-ec-wrong-key",                    // AA evidence + ActiveAuthErr
	"aa-rsa-wrong-key+ca",                // AA evidence + ActiveAuthErr, then CA succeeds with evidence
	"cam+aa-signs-other-challenge",       // PACE-CAM evidence (success) + AA evidence + ActiveAuthErr
	"ca-refused",                         // ChipAuthResult without evidence + ChipAuthErr
	"aa-ec-wrong-key+ca-impostor",        // AA evidence + ActiveAuthErr, CA fails: ChipAuthErr, no evidence
	"aa-not-answered+ca",                 // ActiveAuthResult without evidence + ActiveAuthErr, CA evidence
	"untrusted+cam+aa-rsa-wrong-key",     // PassiveAuthErr on top
	"wrong-password",                     // PaceErr / BacErr, the read itself fails: partial document
	"aa-rsa-signs-other-challenge+no-ca", // RSA AA over another challenge
	"untrusted+ca",                       // genuine CA evidence in a session whose passive authentication failed
}

// c15LiveFailed reads a simulated chip that deviates in the step the mode names and returns
// what the reader recorded (ReadDocument returns the partial DocumentEx on errors, too).
func c15LiveFailed(k *fw.K, r *mrand.Rand, i int, label string) (*document.DocumentEx, string) {
	mode := c15FailModes[i%len(c15FailModes)]
	v := i / len(c15FailModes)
	pp := randPlan(r, false)
	o := &pp.o
	pp.extended, pp.maxLe, pp.chipCap, pp.leCap, pp.shortRnd, pp.skipImg = true, 65536, 0, 0, false, false
	if o.DG2Size > 3000 {
		o.DG2Size = 0
	}
	if len(o.DGs) > 1 {
		o.DGs = o.DGs[i%len(o.DGs):][:1] // see c15LivePlan
	}
	o.Untrusted = false
	o.AA, o.CA = perso.AAOpts{}, perso.CAOpts{}
	if o.Access == perso.PACECAM {
		o.Access = perso.PACEGMOnly
	}
	cam := func() {
		o.Access, o.ParamID = perso.PACECAM, 8+v%11
		if o.Suite == symref.TDES {
			o.Suite = symref.AllSuites[1+v%3]
		}
	}
	aaEC := func() { o.AA = perso.AAOpts{Kind: 2, Curve: v % 11, DER: v%2 == 1} }
	aaRSA := func() { o.AA = perso.AAOpts{Kind: 1, Bits: []int{1024, 1536, 2048}[v%3], Hash: chipsim.AAHash(v % 5)} }
	caOn := func() {
		o.CA = perso.CAOpts{On: true, Curve: (v + 3) % 11, Suite: symref.AllSuites[v%4], Form: v % 3, Arrange: v % 3}
	}
	lo := liveOpts{maxLe: pp.maxLe}
	switch mode {
	case "aa-ec-wrong-key":
		aaEC()
	case "aa-rsa-wrong-key+ca":
		aaRSA()
		caOn()
	case "cam+aa-signs-other-challenge":
		cam()
		aaEC()
	case "ca-refused":
		caOn()
	case "aa-ec-wrong-key+ca-impostor":
		aaEC()
		caOn()
	case "aa-not-answered+ca":
		if v%2 == 0 {
			aaEC()
		} else {
			aaRSA()
		}
		caOn()
	case "untrusted+cam+aa-rsa-wrong-key":
		o.Untrusted = true
		cam()
		aaRSA()
	case "wrong-password":
		lo.wrongPw = true
		aaEC()
		caOn()
	case "aa-rsa-signs-other-challenge+no-ca":
		aaRSA()
	case "untrusted+ca":
		o.Untrusted = true
		caOn()
	}
	p := perso.Build(r, pp.o)
	fw.SeedCryptoRand(int64(i)*2+1, label)
	card := p.NewCard(uint64(i)*2 + 1)
	card.Extended = true

	wrongKey := func() {
		a := card.AA
		if a.N != nil {
			// another private exponent: the recovered string is not a 9796-2 message
			a.D = new(big.Int).Xor(a.D, big.NewInt(1<<20))
		} else {
			d := new(big.Int).Add(a.Priv, big.NewInt(int64(2+r.IntN(1000))))
			a.Priv = d.Mod(d, a.Curve.N)
			if a.Priv.Sign() == 0 {
				a.Priv = big.NewInt(7)
			}
		}
	}
	otherChallenge := func() {
		a := card.AA
		hf, ef := a.HashFn, a.ECHash
		a.HashFn = func(h chipsim.AAHash, data []byte) []byte {
			if len(data) == 0 {
				return hf(h, data) // length probe
			}
			d := append([]byte{}, data...)
			d[len(d)-1] ^= 0x01
			return hf(h, d)
		}
		a.ECHash = func(c *ecref.Curve, data []byte) []byte {
			d := append([]byte{}, data...)
			d[len(d)-1] ^= 0x01
			return ef(c, d)
		}
	}
	switch mode {
	case "aa-ec-wrong-key", "aa-rsa-wrong-key+ca", "untrusted+cam+aa-rsa-wrong-key":
		wrongKey()
	case "cam+aa-signs-other-challenge", "aa-rsa-signs-other-challenge+no-ca":
		otherChallenge()
	case "ca-refused":
		for j := range card.CA.Keys {
			card.CA.Keys[j].Priv = nil
		}
	case "aa-ec-wrong-key+ca-impostor":
		wrongKey()
		for j := range card.CA.Keys {
			card.CA.Keys[j].Priv = nil
		}
		fr := fw.NewRNG(int64(i), label+"/fake-secret")
		card.CA.FakeSecret = func(key *chipsim.CAKey, pk ecref.Point) []byte { return randBytes(fr, key.Curve.ByteLen) }
	case "aa-not-answered+ca":
		card.AA = nil // INTERNAL AUTHENTICATE is answered 6D00
	}
	res := liveRead(p, card, lo, nil)
	desc := "fail=" + mode + " " + pp.String()
	if res.docEx == nil {
		k.Count("live_failed_no_document_returned")
		return nil, desc
	}
	if res.err != nil {
		k.Count("live_failed_read_returned_error_with_partial_document")
	}
	return res.docEx, desc
}

func c15ErrString(s *document.Session) string {
	out := ""
	for _, e := range []struct {
		name string
		err  error
	}{{"BacErr", s.BacErr}, {"PaceErr", s.PaceErr}, {"ChipAuthErr", s.ChipAuthErr}, {"ActiveAuthErr", s.ActiveAuthErr}, {"DocumentVerifyErr", s.DocumentVerifyErr}, {"PassiveAuthErr", s.PassiveAuthErr}} {
		if e.err != nil {
			msg := e.err.Error()
			if len(msg) > 120 {
				msg = msg[:120] + "..."
			}
			out += fmt.Sprintf("%s=%q ", e.name, msg)
		}
	}
	return out
}

// c15SessionCases: the session-state round trips (synthetic cross product and failed live
// sessions). Appended after the older case blocks so that their indices stay what they were.
func c15SessionCases(c *fw.Ctx, pool *c15Pool) {
	// --- every combination of the three mechanism states
	const combos = c15MechStates * c15MechStates * c15MechStates
	reps := c.Pick(1, 6)
	c.Cases(combos*reps, func(j int) string {
		x := j % combos
		return fmt.Sprintf("session-state|cam=%d ca=%d aa=%d rep=%d", x/100, (x/10)%10, x%10, j/combos)
	}, func(j int, k *fw.K) {
		r := k.RNG
		x, rep := j%combos, j/combos
		cam, ca, aa := c15MechOf(x/100), c15MechOf((x/10)%10), c15MechOf(x%10)
		// the document: nothing, one small file, or a few small files (file patterns and sizes
		// are the subject of the roundtrip cases)
		pat, mode := 0, 0
		switch (x + rep) % 4 {
		case 1:
			pat = 1 << 5 // DG1
		case 2:
			cheap := []int{2, 3, 5, 10} // DIR, COM, DG1, DG13
			for n := 1 + r.IntN(3); n > 0; n-- {
				pat |= 1 << cheap[r.IntN(4)]
			}
		case 3:
			if rep > 0 {
				pat, mode = int(r.Uint32())&(1<<14-1)&^(1<<6|1<<7), 1 // anything but the images
			}
		}
		d := c15BuildDoc(k, r, pool, pat, mode)
		style := []int{0, 3, 1, 0, 2, 1}[(x/7+rep)%6]
		docEx := &document.DocumentEx{Document: *d.doc, Session: c15SessionOf(r, cam, ca, aa, style)}
		k.Nontrivial(fmt.Sprintf("state|%d|%d|%d|%d", x, rep, pat, style))
		c15CountSession(k, "session_state", &docEx.Session)
		label := fmt.Sprintf("session state PACE-CAM{%v} CA{%v} AA{%v} pattern=%014b", cam, ca, aa, pat)
		bl := c15RoundTrip(k, docEx, label)
		if bl == nil {
			return
		}
		k.Count("session_state_roundtrip_ok")
		if c15Subset(bl.want) != b01(cam.ev)|b01(ca.ev)<<1|b01(aa.ev)<<2 {
			fw.Bug("C15 session-state case %d: evidence subset %03b does not match the planned states", j, c15Subset(bl.want))
		}
		if x%97 == 13 {
			k.Sample("session-state-roundtrip", map[string]any{"state": label, "errors": c15ErrString(&docEx.Session), "evidence_subset": c15Subset(bl.want), "blob_bytes": len(bl.outer)})
		}
	})

	// --- failed live sessions
	nfail := c.Pick(20, 200)
	c.Cases(nfail, func(i int) string {
		return fmt.Sprintf("live-failed|i=%d mode=%s", i, c15FailModes[i%len(c15FailModes)])
	}, func(i int, k *fw.K) {
		docEx, plan := c15LiveFailed(k, k.RNG, i, fmt.Sprintf("c15/live-failed/%d", i))
		if docEx == nil {
			return
		}
		k.Nontrivial(plan)
		k.Count("live_failed_mode_" + c15FailModes[i%len(c15FailModes)])
		c15CountSession(k, "live_failed", &docEx.Session)
		k.Count(fmt.Sprintf("live_failed_evidence_subset_%03b", c15Subset(c15Want(&docEx.Session))))
		bl := c15RoundTrip(k, docEx, "live-failed "+plan)
		if bl != nil {
			k.Count("live_failed_roundtrip_ok")
			if i < len(c15FailModes) {
				cam, ca, aa := c15SessionMechs(&docEx.Session)
				k.Sample("live-failed-roundtrip", map[string]any{"plan": plan, "state": fmt.Sprintf("PACE-CAM{%v} CA{%v} AA{%v}", cam, ca, aa), "errors": c15ErrString(&docEx.Session), "files": len(bl.files), "evidence_subset": c15Subset(bl.want)})
			}
		}
	})
}
