package checks

import (
	"fmt"
	mrand "math/rand/v2"
	"strings"

	"verifharness/fw"
	"verifharness/issuer"
	"verifharness/ldsgen"
	"verifharness/refverify"
)

// Wrong-country forgeries by way of the MRZ issuing state: a document that is genuine in
// every other respect (hash list over its own data groups, signed by the genuine document
// signer below a TRUSTED CSCA of country C) but whose DG1 names an issuing state that is not
// C: a special ICAO code that is no ISO 3166-1 country (UNO, XXA, EUE, UTO, ...), an
// unassigned three-letter code, a mis-shaped field, or another country.
// Oracle: accepted => the issuing state maps to C under the documented rule (ISO 3166-1
// alpha-3 or 'D', refverify.StateAlpha2 - an independent table).

// Codes of Doc 9303-3 section 5 that are not ISO 3166-1 countries, plus withdrawn ISO codes.
var c01SpecialStates = []string{
	"UTO",                      // Utopia (specimens)
	"UNO", "UNA", "UNK", "XIM", // United Nations, specialised agency, UNMIK, Interpol
	"XXA", "XXB", "XXC", "XXX", // stateless, refugee (1951 / other), unspecified
	"XOM", "XPO", "XCC", "XCE", "XCO", "XEC", "XES", "XMP", "XBA", "XDC", "XCT", "XSC", // Order of Malta, PCA, CARICOM, CoE, COMESA, ECOWAS, SICA, MERCOSUR, AfDB, ...
	"EUE", "EUR", // European Union laissez-passer
	"RKS", "XKX", // Kosovo
	"GBD", "GBN", "GBO", "GBP", "GBS", // British nationality classes
	"ZIM", "ANT", "NTZ", "YUG", "SCG", "TMP", "ZAR", "SUN", "DDR", "CSK", "BUR", "ROM", // withdrawn / historic
}

type c01State struct {
	class string
	state string // decoded form as ldsgen takes it (blank = filler)
}

// c01StatePlan lists the issuing states tried against a base of country cc ({alpha-3, alpha-2}).
func c01StatePlan(c *fw.Ctx, r *mrand.Rand, cc [2]string) []c01State {
	var out []c01State
	for _, s := range c01SpecialStates {
		out = append(out, c01State{"icao-special-code", s})
	}
	a3, a2 := cc[0], cc[1]
	for _, s := range []string{"", a2, " " + a2, a3[:1] + " " + a3[2:], a3[:2], a3[1:], " " + a3[:2], a3[:2] + "0", "DD", "D D", " D", "000", "D0"} {
		out = append(out, c01State{"mis-shaped-field", s})
	}
	// near misses of the signer's own code: alpha-2 plus a letter, one letter changed, reversed
	for n := 0; n < 6; n++ {
		var t string
		switch n % 3 {
		case 0:
			t = a2 + string(rune('A'+r.IntN(26)))
		case 1:
			b := []byte(a3)
			b[r.IntN(3)] = byte('A' + r.IntN(26))
			t = string(b)
		case 2:
			t = string([]byte{a3[2], a3[1], a3[0]})
			if n > 2 {
				t = string([]byte{a3[1], a3[0], a3[2]})
			}
		}
		if t == a3 {
			continue
		}
		if _, assigned := refverify.StateAlpha2(t); assigned {
			out = append(out, c01State{"other-country", t})
		} else {
			out = append(out, c01State{"near-miss-of-signers-code", t})
		}
	}
	// Germany's one-letter code names Germany, not the signer's country (no base is German)
	out = append(out, c01State{"other-country", "D"}, c01State{"other-country", "DEU"})
	iso := refverify.ISOAlpha3Codes()
	if c.Thorough() {
		for _, s := range iso {
			if s != a3 && s != "DEU" {
				out = append(out, c01State{"other-country", s})
			}
		}
	} else {
		for n := 0; n < 8; {
			s := iso[r.IntN(len(iso))]
			if s != a3 {
				out = append(out, c01State{"other-country", s})
				n++
			}
		}
	}
	// unassigned three-letter codes (not ISO 3166-1 under the independent table); half of
	// them from the user-assigned ranges AAA-AAZ, QMA-QZZ, XAA-XZZ, ZZA-ZZZ
	for n, want := 0, c.Pick(10, 120); n < want; {
		b := []byte{byte('A' + r.IntN(26)), byte('A' + r.IntN(26)), byte('A' + r.IntN(26))}
		switch r.IntN(8) {
		case 0:
			b[0], b[1] = 'A', 'A'
		case 1:
			b[0], b[1] = 'Q', byte('M'+r.IntN(14))
		case 2:
			b[0] = 'X'
		case 3:
			b[0], b[1] = 'Z', 'Z'
		}
		s := string(b)
		if _, assigned := refverify.StateAlpha2(s); assigned {
			continue
		}
		out = append(out, c01State{"unassigned-code", s})
		n++
	}
	return out
}

// withState re-issues the base document with another issuing state in DG1: hash list and
// signature are genuine (the signer really signs it), only the country does not fit.
func (b *c01Base) withState(r *mrand.Rand, pki *issuer.PKI, state string) c01Input {
	f := b.mrz
	f.IssuingState = state
	dg1, _ := ldsgen.NewDG1(r, ldsgen.DG1Opts{Fields: &f})
	in := b.in.clone()
	in.dgs[1] = dg1
	in.dg1State = state
	lds := b.lds
	lds.DGHashes = map[int][]byte{}
	for n, fb := range in.dgs {
		lds.DGHashes[n] = b.p.digest.Sum(fb)
	}
	in.sod = b.sign(r, pki, lds.DER(), nil)
	return in
}

func c01StateCase(c *fw.Ctx, k *fw.K, i int) {
	r := k.RNG
	b := c01BuildBase(r, i)
	k.Nontrivial(fmt.Sprintf("dg1state-base|%d|%s", i, b.p.String()))
	if ok, why, _ := c01Ref(b.in); !ok {
		fw.Bug("reference rejects the harness's own genuine document: %s (%s)", why, b.p.String())
	}
	k.AddEvals(1)
	if acc, note := c01Lib(b.in); !acc {
		k.Violation("pa:genuine-rejected", fmt.Sprintf("genuine base document rejected: %s", note), map[string]any{"base_profile": b.p.String()})
		return
	}
	k.Count("bases_accepted")
	// further trusted CSCAs of other countries: the forgery is a document of "nobody" that
	// is signed below SOME trusted country
	var others [][]byte
	for j := 1; j <= 2; j++ {
		oc := c09Countries[(b.p.country+j)%len(c09Countries)]
		others = append(others, issuer.NewPKI(r, issuer.PKIOpts{Country: oc[1], CertHash: issuer.SHA256, CSCAName: issuer.SimpleName(oc[1], "Gov", "CSCA "+oc[0])}).CSCACert)
	}
	for j, s := range c01StatePlan(c, r, b.country) {
		in := b.withState(r, b.pki, s.state)
		store := "anchor-only"
		switch j % 3 {
		case 1:
			in.trust = append(in.trust, others...)
			store = "anchor-first-of-3"
		case 2:
			in.trust = append(append([][]byte{}, others...), in.trust...)
			store = "anchor-last-of-3"
		}
		if ok, _, _ := c01Ref(in); ok {
			fw.Bug("reference accepts issuing state %q below a CSCA of %s", s.state, b.country[1])
		}
		k.Distinct(fmt.Sprintf("%d|dg1state|%s|%s|%s", i, s.class, s.state, store))
		if j%16 == 0 && i < 2 {
			k.Sample("dg1-state-forgery", map[string]any{"class": s.class, "mrz_state_field": strings.ReplaceAll(fmt.Sprintf("%-3s", s.state), " ", "<"), "signer_country": b.country[1], "store": store})
		}
		st := s.state
		inn := in
		c01Judge(k, i, "forgery:dg1-state:"+s.class, in, "", func() map[string]any {
			return map[string]any{"base_profile": b.p.String(), "mutation": "dg1-issuing-state", "mrz_state_field": strings.ReplaceAll(fmt.Sprintf("%-3s", st), " ", "<"),
				"signer_country": b.country[1], "store": store, "dg1": hexCap(inn.dgs[1], 400), "sod": hexCap(inn.sod, 6000), "trust0": hexCap(first2(inn.trust), 3000)}
		})
	}
	// spellings the documented rule may or may not take for the signer's own country: judged
	// by the implication only (lower case is read leniently by the reference)
	for _, s := range []string{strings.ToLower(b.country[0]), strings.ToLower(b.country[0][:1]) + b.country[0][1:]} {
		in := b.withState(r, b.pki, s)
		k.Distinct(fmt.Sprintf("%d|dg1state|spelling|%s", i, s))
		c01Judge(k, i, "dg1-state-spelling", in, "", func() map[string]any {
			return map[string]any{"base_profile": b.p.String(), "mrz_state_field": s, "signer_country": b.country[1]}
		})
	}
	// Germany's 'D': a genuine German document (D<<) and the same document below the CSCA of
	// another country
	de := issuer.NewPKI(r, issuer.PKIOpts{Country: "DE", CertHash: issuer.SHA256, CSCAName: issuer.SimpleName("DE", "BSI", "CSCA DEU"), DSName: issuer.SimpleName("DE", "BSI", "DS 1")})
	{
		in := b.withState(r, de, "D")
		in.trust, in.cardSec = [][]byte{de.CSCACert}, nil
		if ok, why, _ := c01Ref(in); !ok {
			fw.Bug("reference rejects the genuine German document (D<<): %s", why)
		}
		k.AddEvals(1)
		if acc, note := c01Lib(in); !acc {
			k.Violation("pa:genuine-rejected:issuing-state-D", fmt.Sprintf("genuine German document (issuing state D<<, DS below a trusted DE CSCA) rejected: %s", note),
				map[string]any{"dg1": hexCap(in.dgs[1], 400), "sod": hexCap(in.sod, 6000), "trust0": hexCap(first2(in.trust), 3000)})
			return
		}
		k.Count("german_D_documents_accepted")
		// the same German PKI, documents of other states
		for _, s := range []string{"DD", b.country[0], "UTO", "XXA", ""} {
			in := b.withState(r, de, s)
			in.trust, in.cardSec = [][]byte{de.CSCACert}, nil
			if ok, _, _ := c01Ref(in); ok {
				fw.Bug("reference accepts issuing state %q below a CSCA of DE", s)
			}
			k.Distinct(fmt.Sprintf("%d|dg1state|below-de|%s", i, s))
			st := s
			c01Judge(k, i, "forgery:dg1-state:below-german-csca", in, "", func() map[string]any {
				return map[string]any{"mrz_state_field": strings.ReplaceAll(fmt.Sprintf("%-3s", st), " ", "<"), "signer_country": "DE", "dg1": hexCap(in.dgs[1], 400), "sod": hexCap(in.sod, 6000)}
			})
		}
	}
	// certificates of a country code that is no ISO 3166-1 country (EU, the code of the
	// European Union laissez-passer issuer): no MRZ issuing state maps to it under the
	// documented rule (ISO alpha-3, or D), least of all a blank field
	eu := issuer.NewPKI(r, issuer.PKIOpts{Country: "EU", CertHash: issuer.SHA256, CSCAName: issuer.SimpleName("EU", "European Union", "CSCA EU"), DSName: issuer.SimpleName("EU", "European Union", "DS 1")})
	for _, s := range []string{"", "EU", "EUR", b.country[0]} {
		in := b.withState(r, eu, s)
		in.trust, in.cardSec = [][]byte{eu.CSCACert}, nil
		if ok, _, _ := c01Ref(in); ok {
			fw.Bug("reference accepts issuing state %q below a CSCA of EU", s)
		}
		k.Distinct(fmt.Sprintf("%d|dg1state|below-eu|%s", i, s))
		st := s
		c01Judge(k, i, "forgery:dg1-state:below-eu-csca", in, "", func() map[string]any {
			return map[string]any{"mrz_state_field": strings.ReplaceAll(fmt.Sprintf("%-3s", st), " ", "<"), "signer_country": "EU", "dg1": hexCap(in.dgs[1], 400), "sod": hexCap(in.sod, 6000)}
		})
	}
}
