package checks

import (
	"encoding/json"
	"fmt"
	mrand "math/rand/v2"

	"github.com/gmrtd/gmrtd/document"
	"github.com/gmrtd/gmrtd/mobile"

	"verifharness/chipsim"
	"verifharness/ecref"
	"verifharness/fw"
	"verifharness/issuer"
	"verifharness/perso"
	"verifharness/symref"
)

// C08 - an end-to-end read returns the chip's files and correct step outcomes.

func init() {
	register(&fw.Spec{
		ID:    "C08",
		Level: "exploration",
		Rule: "case = one generated chip personalisation (access control: BAC only / PACE-GM with BAC / PACE-GM only / PACE-CAM; parameter id 8..18; suite; MRZ layouts or CAN; DG subset of {2,7,11,12,13,16} plus unsupported numbers in the SOD; DG2 sizes on chunk / 127-128 / 255-256 / 32767-32768 / 65535 boundaries; AA none/RSA/ECDSA; CA none or curve x suite x parameter form x key-id arrangement; issuer trusted or not; digest; LDS version) read with reader.ReadDocument under one transport setting (reader max-read, chip chunk cap, short random reads, Le cap with the fallback ladder, extended length on/off, images skipped); " +
			"oracle: no error, every file byte-identical to the chip's, every supported listed data group read, step outcomes equal to the chip's truth, PA verdict = issuer in the trust store; non-trivial = every read; distinct = the plan",
		MinEvaluations: 100,
		Assumptions: []string{
			"the simulated chip (chipsim) and personalisation (perso/issuer/ldsgen) are conforming; their protocol halves are validated separately (C04, C05, C06, C07)",
			"transport pairings follow the property's 'the transport supports / the chip tolerates': no extended reader setting against a short-only chip, files of 32 KiB or more only with one extended read covering them, chunk counts below the reader's limit, response sizes (PACE keys, AA signatures) within the reader's max-read",
			"chip authentication is required to be reported only when the documented pipeline runs it (no AA / PACE-CAM success before it)",
		},
		Run: runC08,
	})
}

func c08Run(k *fw.K, pp persoPlan, seed uint64) {
	r := k.RNG
	p := perso.Build(r, pp.o)
	card := p.NewCard(seed)
	card.Extended = pp.extended
	card.MaxReturn = pp.chipCap
	if pp.shortRnd {
		card.ShortReadRNG = mrand.New(mrand.NewPCG(seed, 99))
		card.ShortReadMinNe = 8 // the 4-byte header read is always served in full
	}
	if pp.leCap > 0 {
		card.LeCap, card.LeCapSW = pp.leCap, 0x6700
	}
	k.Nontrivial(pp.String())
	k.Count("reads")
	res := liveRead(p, card, liveOpts{maxLe: pp.maxLe, skipImages: pp.skipImg}, nil)
	o := pp.o
	det := func() map[string]any {
		m := map[string]any{"plan": pp.String(), "zone": p.Zone, "can": p.CANStr, "err": fmt.Sprint(res.err), "exchanges": len(card.Events),
			"chip_bac_done": card.BACDone, "chip_pace_done": card.PACEDone, "chip_cam_done": card.CAMDone, "chip_ca_done": card.CADone, "chip_aa_challenges": len(card.AAChallenges), "chip_sm_aborted": card.SMAborted}
		if res.docEx != nil {
			s := res.docEx.Session
			m["session"] = fmt.Sprintf("bac=%v/%v pace=%v/%v cam=%v ca=%v/%v aa=%v/%v pa=%v/%v verify=%v", s.BacResult, s.BacErr, s.PaceResult, s.PaceErr, s.PaceCamResult != nil && s.PaceCamResult.Success, s.ChipAuthResult != nil && s.ChipAuthResult.Success, s.ChipAuthErr, s.ActiveAuthResult != nil && s.ActiveAuthResult.Success, s.ActiveAuthErr, s.PassiveAuthResult != nil && s.PassiveAuthResult.Success, s.PassiveAuthErr, s.DocumentVerifyErr)
		}
		var last []string
		for i := max(0, len(card.Events)-6); i < len(card.Events); i++ {
			ev := card.Events[i]
			if ev.Cmd != nil {
				last = append(last, fmt.Sprintf("%02x %02x%02x nc=%d ne=%d -> %d/%04x %s", ev.Cmd.INS, ev.Cmd.P1, ev.Cmd.P2, len(ev.Cmd.Data), ev.Cmd.Ne, len(ev.Data), ev.SW, ev.Note))
			} else {
				last = append(last, fmt.Sprintf("raw %x -> %04x %s", ev.Raw[:min(len(ev.Raw), 8)], ev.SW, ev.Note))
			}
		}
		m["last_exchanges"] = last
		return m
	}
	acc := o.Access.String()
	if res.err != nil || res.docEx == nil {
		k.Violation("read:error:"+acc+":"+c08ErrClass(res.err, card), fmt.Sprintf("ReadDocument failed on a conforming chip: %v", res.err), det())
		return
	}
	d := &res.docEx.Document
	s := &res.docEx.Session
	// files
	names := []string{"SOD", "COM"}
	if o.Access != perso.BACOnly {
		names = append(names, "CardAccess")
	}
	if o.Access == perso.PACECAM {
		names = append(names, "CardSecurity")
	}
	if o.EFDIR {
		names = append(names, "DIR")
	}
	for _, n := range supportedDGs {
		if _, ok := p.DGFiles[n]; !ok {
			continue
		}
		if pp.skipImg && (n == 2 || n == 7) {
			if docFile(d, fmt.Sprintf("DG%d", n)) != nil {
				k.Count("image_read_although_skipped")
			}
			continue
		}
		names = append(names, fmt.Sprintf("DG%d", n))
	}
	for _, name := range names {
		got, want := docFile(d, name), chipFile(p, name)
		if got == nil {
			k.Violation("read:file-missing:"+name, fmt.Sprintf("%s is stored on the chip (and listed) but missing from the document", name), det())
			return
		}
		if !bytesEq(got, want) {
			k.Violation("read:file-differs:"+name, fmt.Sprintf("%s differs from the chip's file (%d vs %d bytes)", name, len(got), len(want)), det())
			return
		}
	}
	for _, n := range o.Unsupported {
		_ = n
		k.Count("unsupported_dg_listed")
	}
	// step outcomes vs chip truth
	paceExp := o.Access != perso.BACOnly
	paceOK := s.PaceResult != nil && s.PaceResult.Success
	if paceOK != paceExp || paceOK != card.PACEDone {
		k.Violation("read:step:pace", fmt.Sprintf("PACE reported %v, expected %v, chip completed %v", paceOK, paceExp, card.PACEDone), det())
		return
	}
	bacOK := s.BacResult != nil && s.BacResult.Success
	if bacOK != card.BACDone || (o.Access == perso.BACOnly && !bacOK) {
		k.Violation("read:step:bac", fmt.Sprintf("BAC reported %v, chip completed %v", bacOK, card.BACDone), det())
		return
	}
	camOK := s.PaceCamResult != nil && s.PaceCamResult.Success
	if camOK != (o.Access == perso.PACECAM) || camOK != card.CAMDone {
		k.Violation("read:step:pace-cam", fmt.Sprintf("PACE-CAM reported %v, chip %v", camOK, card.CAMDone), det())
		return
	}
	aaOK := s.ActiveAuthResult != nil && s.ActiveAuthResult.Success
	if aaOK != (o.AA.Kind != 0) {
		k.Violation("read:step:aa", fmt.Sprintf("AA reported %v although the chip supports AA=%v", aaOK, o.AA.Kind != 0), det())
		return
	}
	caOK := s.ChipAuthResult != nil && s.ChipAuthResult.Success
	caExp := o.CA.On && !aaOK && !camOK
	if caOK != card.CADone || (caExp && !caOK) {
		k.Violation("read:step:ca", fmt.Sprintf("CA reported %v, chip completed %v, pipeline expected to run it: %v", caOK, card.CADone, caExp), det())
		return
	}
	paOK := s.PassiveAuthResult != nil && s.PassiveAuthResult.Success
	if paOK != !o.Untrusted {
		k.Violation(fmt.Sprintf("read:step:pa:trusted=%v", !o.Untrusted), fmt.Sprintf("passive authentication reported %v with issuer-in-store=%v: %v", paOK, !o.Untrusted, s.PassiveAuthErr), det())
		return
	}
	if s.DocumentVerifyErr != nil {
		k.Violation("read:step:document-verify", fmt.Sprintf("completeness check failed on a complete document: %v", s.DocumentVerifyErr), det())
		return
	}
	sum := res.docEx.Summary()
	if sum.DataTrusted != !o.Untrusted {
		k.Violation("read:summary:data-trusted", fmt.Sprintf("DataTrusted=%v with issuer-in-store=%v", sum.DataTrusted, !o.Untrusted), det())
		return
	}
	k.Count("reads_ok")
	k.Count("reads_ok_" + acc)
	if paceOK && o.CAN {
		k.Count("reads_ok_can")
	}
	if caOK {
		k.Count("reads_ok_with_ca")
	}
	if aaOK {
		k.Count("reads_ok_with_aa")
	}
	if o.DG2Size >= 32768 {
		k.Count("reads_ok_dg2_ge_32k")
	}
	k.Max("max_exchanges_per_read", int64(len(card.Events)))
	k.Sample("read-"+acc, map[string]any{"plan": pp.String(), "exchanges": len(card.Events), "files": names})
}

// the same read through the mobile bindings (built-in trust store: the harness issuer is
// not in it, so the expected verdict is "not trusted"); files come back through the CBOR export
func c08Mobile(k *fw.K, pp persoPlan, seed uint64) {
	r := k.RNG
	p := perso.Build(r, pp.o)
	card := p.NewCard(seed)
	card.Extended = pp.extended
	card.MaxReturn = pp.chipCap
	tr := &funcTransceiver{f: card.Transceive}
	mr := mobile.NewReader(nil, tr)
	if err := mr.SetApduMaxLe(pp.maxLe); err != nil {
		k.Violation("mobile:setapdumaxle-rejected", fmt.Sprintf("SetApduMaxLe(%d): %v", pp.maxLe, err), nil)
		return
	}
	if pp.skipImg {
		mr.SkipImages()
	}
	var pw *mobile.MrtdPassword
	var err error
	if p.Opts.CAN {
		pw, err = mobile.NewPasswordCan(p.CANStr)
	} else {
		pw, err = mobile.NewPasswordMrz(p.Zone)
	}
	if err != nil {
		fw.LibFail("mobile-password-rejected", "mobile password constructor rejects valid input: %v", err)
	}
	k.Nontrivial("mobile|" + pp.String())
	k.Count("mobile_reads")
	doc, err := mr.ReadDocument(pw, []byte{0x3B}, nil)
	det := map[string]any{"plan": pp.String(), "err": fmt.Sprint(err), "exchanges": len(card.Events)}
	if err != nil || doc == nil {
		k.Violation("mobile:read:error:"+pp.o.Access.String(), fmt.Sprintf("mobile.Reader.ReadDocument failed on a conforming chip: %v", err), det)
		return
	}
	blob, err := doc.DocumentExCbor()
	if err != nil {
		k.Violation("mobile:export-failed", fmt.Sprintf("DocumentExCbor: %v", err), det)
		return
	}
	d, _, err := document.UnmarshalVerifiableDoc(blob)
	if err != nil {
		k.Violation("mobile:export-not-importable", fmt.Sprintf("UnmarshalVerifiableDoc of the mobile export: %v", err), det)
		return
	}
	names := []string{"SOD", "COM", "DG1"}
	for _, n := range supportedDGs {
		if _, ok := p.DGFiles[n]; ok && !(pp.skipImg && (n == 2 || n == 7)) {
			names = append(names, fmt.Sprintf("DG%d", n))
		}
	}
	for _, name := range names {
		if !bytesEq(docFile(d, name), chipFile(p, name)) {
			k.Violation("mobile:read:file-differs:"+name, name+" from the mobile read differs from the chip's file", det)
			return
		}
	}
	sj, err := doc.SummaryJson()
	var sum struct {
		DataTrusted      bool `json:"dataTrusted"`
		ChipAuthenticity int  `json:"chipAuthenticity"`
	}
	if err != nil || json.Unmarshal(sj, &sum) != nil {
		k.Violation("mobile:summary-unreadable", "SummaryJson cannot be read", det)
		return
	}
	if sum.DataTrusted {
		k.Violation("mobile:trusted-with-foreign-issuer", "mobile read marks data trusted although the issuer is not in the built-in trust store", det)
		return
	}
	k.Count("mobile_reads_ok")
}

func c08ErrClass(err error, card *chipsim.Card) string {
	if err == nil {
		return "nil-document"
	}
	s := err.Error()
	for _, kw := range []string{"readEfCardAccess", "selectMrtdApplication", "readEfDir", "readEfSod", "readEfCom", "readLDS1dgs", "performChipAuthentication"} {
		if containsStr(s, kw) {
			return kw
		}
	}
	return "other"
}

func containsStr(s, sub string) bool {
	for i := 0; i+len(sub) <= len(s); i++ {
		if s[i:i+len(sub)] == sub {
			return true
		}
	}
	return false
}

func runC08(c *fw.Ctx) {
	if err := symref.SelfTest(); err != nil {
		fw.Bug("symref self-test: %v", err)
	}
	if err := ecref.SelfTest(); err != nil {
		fw.Bug("ecref self-test: %v", err)
	}
	n := c.Pick(240, 24000)
	c.Cases(n, func(i int) string { return fmt.Sprintf("read|i=%d", i) }, func(i int, k *fw.K) {
		pp := randPlan(k.RNG, c.Thorough() || i%10 == 0)
		c08Run(k, pp, uint64(i)+1)
	})
	nm := c.Pick(24, 1600)
	c.Cases(nm, func(i int) string { return fmt.Sprintf("mobile|i=%d", i) }, func(i int, k *fw.K) {
		pp := randPlan(k.RNG, false)
		pp.shortRnd, pp.leCap = false, 0
		c08Mobile(k, pp, uint64(i)+9000)
	})
	// tiny per-read sizes (1..8 bytes): legal settings that need small files to stay below
	// the reader's chunk limit - a BAC-only chip with an EC-signed security object
	nt := c.Pick(16, 256)
	c.Cases(nt, func(i int) string { return fmt.Sprintf("tiny-max-read|i=%d", i) }, func(i int, k *fw.K) {
		r := k.RNG
		var pp persoPlan
		pp.o = perso.Opts{Access: perso.BACOnly, Digest: issuer.SHA256, SODBySKI: true}
		pp.o.PKI.CSCAKey, pp.o.PKI.DSKey = issuer.NewECKey(r, ecref.ByName("P-256")), issuer.NewECKey(r, ecref.ByName("P-256"))
		pp.o.PKI.CertHash = issuer.SHA256
		pp.maxLe = 1 + i%8
		pp.extended = i%2 == 0
		c08Run(k, pp, uint64(i)+7000)
	})
}
