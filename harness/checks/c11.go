package checks

import (
	"encoding/json"
	"fmt"
	mrand "math/rand/v2"
	"sort"
	"strconv"
	"strings"

	"github.com/gmrtd/gmrtd/document"
	"github.com/gmrtd/gmrtd/mobile"

	"verifharness/chipsim"
	"verifharness/ecref"
	"verifharness/fw"
	"verifharness/perso"
	"verifharness/symref"
)

// C11 - link faults at any point of a session fail safe.
// The transceiver replaces the chip's response at one exchange index (every index x every
// fault kind, enumerated) or at several (random sequences); the chip keeps its own truth.

func init() {
	register(&fw.Spec{
		ID:               "C11",
		Level:            "fault_enumeration",
		CrashIsViolation: true,
		HangSeconds:      90,
		Rule: "case = one read (reader.ReadDocument; a slice through mobile.Reader.ReadDocument) of a small simulated chip in one of the configurations {BAC, PACE-GM, PACE-CAM, BAC+AA-RSA, PACE+CA, PACE+AA-ECDSA, ...} with the response of exchange k replaced by one fault kind {empty, 1 byte, truncated by 1 / half, one bit flipped, random bytes of the same length, 70000 / 1 / 16 / 40 extra bytes, bare 6A82 / 6982 / 6700 / 6F00 / 6283 / 9000, a bare status word drawn from 36 values of every class, genuine data with another outer status, the data stripped and the trailing status kept (a bare 9000 in the clear), only the first data byte and the status}; every k of the exchange sequence x every kind is enumerated (session randomness is deterministic, so the prefix before k is identical to the clean run); plus chips without access control (no EF.CardAccess, no BAC, all files in the clear; every k x the kinds that do not alter data); plus the n-th SELECT EF of the read (every n, every configuration) x 16 status kinds {6982 6985 6A86 6282 6283 6A82 6700 6F00 6300 6981 6A80 6200 6400 9001, other outer status, drawn}; plus random multi-fault sequences; " +
			"oracle: no crash / runaway (exchange count), every returned file byte-identical to the chip's, no step reported successful that the chip did not complete, trusted only with genuine files, an altered authentication exchange leaves an error or that step recorded as failed, an answer to SELECT EF altered into anything but 6A82 / 6283 while the chip answered 9000 leaves an error, the file, or (EF.CardAccess / EF.CardSecurity) a recorded PACE attempt / failure; an altered answer to a READ BINARY of a file (the chip delivered data with 9000; in the clear - EF.CardAccess, every file of a chip without access control - or protected) leaves an error, the file, or (EF.CardAccess / EF.CardSecurity) a recorded PACE attempt / failure; non-trivial = a fault was actually injected; distinct = (configuration, k, kind) or the fault sequence",
		MinEvaluations: 1500,
		Exhaustive:     func(string) bool { return true },
		Assumptions: []string{
			"exhaustive over (exchange index, fault kind) for the enumerated configurations; the fault values themselves (which bit, which random bytes) are sampled",
			"a fault that makes a step 'failed' is allowed, and so is a fault that makes a file 'absent' by delivering 6A82 / 6283 to its SELECT (the link then says what a chip without the file says); wrong bytes, wrong success, trust without genuine files, crashes, runaway reads, and a stored file or the PACE step that vanishes without error after any other altered SELECT answer or after an altered READ BINARY answer (e.g. a success status without data) are violations",
			"on a chip without access control only faults that do not alter data are injected: garbled data in the clear cannot be noticed by any reader at read time",
		},
		Run: runC11,
	})
}

var c11Kinds = []string{"empty", "one-byte", "truncate-1", "truncate-half", "bitflip", "random-same-length", "extra-70000", "sw-6a82", "sw-6982", "sw-6700", "sw-6f00", "sw-6283", "sw-9000", "other-outer-sw", "sw-drawn", "data-stripped-keep-status", "first-byte-only", "extra-1", "extra-16", "extra-40"}

// status words the kind "sw-drawn" draws from (one per case, from the case's PRNG): warnings,
// execution and checking errors of every class, "more data" and a value that is no status word
var c11DrawnStatuses = []uint16{0x6982, 0x6985, 0x6A86, 0x6282, 0x6283, 0x6A82, 0x6700, 0x6F00, 0x6300,
	0x6200, 0x6281, 0x6284, 0x63C2, 0x6400, 0x6581, 0x6800, 0x6882, 0x6981, 0x6983, 0x6984, 0x6986, 0x6988,
	0x6A80, 0x6A81, 0x6A83, 0x6A84, 0x6A87, 0x6A88, 0x6B00, 0x6C10, 0x6D00, 0x6E00, 0x6FFF, 0x6110, 0x9001, 0x9100}

// kinds that replace or keep the data but never alter it: usable on a chip without access
// control, where every file travels in the clear and no reader can notice garbled data
var c11StatusKinds = []string{"empty", "one-byte", "sw-6a82", "sw-6982", "sw-6700", "sw-6f00", "sw-6283", "sw-9000", "other-outer-sw", "sw-drawn", "sw-6985", "sw-6a86", "sw-6282", "data-stripped-keep-status", "first-byte-only", "extra-1", "extra-16", "extra-40"}

// kinds applied to the n-th SELECT EF of a read
var c11SelectKinds = []string{"sw-6982", "sw-6985", "sw-6a86", "sw-6282", "sw-6283", "sw-6a82", "sw-6700", "sw-6f00", "sw-6300", "sw-6981", "sw-6a80", "sw-6200", "sw-6400", "sw-9001", "other-outer-sw", "sw-drawn"}

func c11Fault(r *mrand.Rand, kind string, resp []byte) []byte {
	n := len(resp)
	switch kind {
	case "empty":
		return []byte{}
	case "one-byte":
		return []byte{0x90}
	case "truncate-1":
		return append([]byte{}, resp[:max(0, n-1)]...)
	case "truncate-half":
		return append([]byte{}, resp[:n/2]...)
	case "bitflip":
		v := append([]byte{}, resp...)
		if n > 0 {
			v[r.IntN(n)] ^= 1 << uint(r.IntN(8))
		}
		return v
	case "random-same-length":
		return randBytes(r, n)
	case "extra-70000":
		v := append([]byte{}, resp[:max(0, n-2)]...)
		v = append(v, randBytes(r, 70000)...)
		return append(v, resp[max(0, n-2):]...)
	case "extra-1", "extra-16", "extra-40":
		// a few stray octets in front of the status word: more data than was asked for, which
		// any reader can tell from the length alone (also on a link without secure messaging)
		var extra int
		fmt.Sscanf(kind, "extra-%d", &extra)
		v := append([]byte{}, resp[:max(0, n-2)]...)
		v = append(v, randBytes(r, extra)...)
		return append(v, resp[max(0, n-2):]...)
	case "data-stripped-keep-status":
		// the response data is lost, the trailing status word arrives (9000 -> a bare 9000)
		return append([]byte{}, resp[max(0, n-2):]...)
	case "first-byte-only":
		// only the first data byte and the trailing status word arrive
		if n < 3 {
			return append([]byte{}, resp...)
		}
		return []byte{resp[0], resp[n-2], resp[n-1]}
	case "sw-drawn":
		sw := c11DrawnStatuses[r.IntN(len(c11DrawnStatuses))]
		return []byte{byte(sw >> 8), byte(sw)}
	case "other-outer-sw":
		v := append([]byte{}, resp...)
		if n >= 2 {
			if v[n-2] == 0x90 && v[n-1] == 0x00 {
				v[n-2], v[n-1] = 0x62, 0x82
			} else {
				v[n-2], v[n-1] = 0x90, 0x00
			}
		}
		return v
	}
	// "sw-xxxx": the bare status word xxxx
	if hx, ok := strings.CutPrefix(kind, "sw-"); ok && len(hx) == 4 {
		if sw, err := strconv.ParseUint(hx, 16, 16); err == nil {
			return []byte{byte(sw >> 8), byte(sw)}
		}
	}
	fw.Bug("unknown fault kind %q", kind)
	return nil
}

// c11Plan says where faults are injected: at exchange indices and / or at the n-th SELECT EF
// (counted from 0 over the whole read, protected or not).
type c11Plan struct {
	byIndex  map[int]string
	bySelect map[int]string
}

func (pl c11Plan) empty() bool { return len(pl.byIndex) == 0 && len(pl.bySelect) == 0 }

// configurations c11Open.. are chips without access control: no EF.CardAccess, no BAC, every
// file readable in the clear (reader.ReadDocument records the failed BAC attempt and reads on)
const c11Open = 100

func c11IsOpen(ci int) bool { return ci >= c11Open }

// c11FileName names the file a SELECT EF addressed (011D is EF.CardSecurity in the master file
// and EF.SOD in the LDS application).
func c11FileName(fid uint16, inLDS bool) string {
	switch {
	case !inLDS && fid == chipsim.FidCardAccess:
		return "CardAccess"
	case !inLDS && fid == chipsim.FidCardSecurity:
		return "CardSecurity"
	case inLDS && fid == chipsim.FidSOD:
		return "SOD"
	case inLDS && fid == chipsim.FidCOM:
		return "COM"
	case inLDS && fid >= 0x0101 && fid <= 0x0110:
		return fmt.Sprintf("DG%d", fid-0x0100)
	}
	return ""
}

func c11Config(r *mrand.Rand, ci int) perso.Opts {
	o := perso.Opts{DGs: []int{2, 11}, Digest: 2}
	o.PKI.CertHash = 2
	// order of the hash list in the security object (the reader reads the files in that order):
	// every third configuration descending, every third shuffled
	switch ci % 3 {
	case 1:
		o.SODOrder = perso.SODDescending
	case 2:
		o.SODOrder, o.SODOrderSeed = perso.SODShuffled, uint64(ci)
	}
	if c11IsOpen(ci) {
		// personalised like a BAC chip (no EF.CardAccess); c11Run removes the access condition
		o.Access = perso.BACOnly
		o.Suite = symref.AllSuites[1]
		o.ParamID = 8
		switch ci - c11Open {
		case 1:
			o.AA = perso.AAOpts{Kind: 1, Bits: 1024, Hash: 2}
		case 2:
			o.DGs = []int{2, 7, 11, 12}
			o.AA = perso.AAOpts{Kind: 2, Curve: 3}
		}
		return o
	}
	o.ParamID = 8 + (ci*5)%11
	o.Suite = symref.AllSuites[1+ci%3]
	switch ci % 9 {
	case 0:
		o.Access = perso.BACOnly
	case 1:
		o.Access = perso.PACEGMWithBAC // PACE first, BAC available as fallback
	case 2:
		o.Access = perso.PACECAM
	case 3:
		o.Access = perso.BACOnly
		o.AA = perso.AAOpts{Kind: 1, Bits: 1024, Hash: 2}
	case 4:
		o.Access = perso.PACEGMOnly
		o.CA = perso.CAOpts{On: true, Curve: (ci * 3) % 11, Suite: symref.AllSuites[ci%4], Arrange: ci % 3}
	case 5:
		o.Access = perso.PACEGMOnly
		o.AA = perso.AAOpts{Kind: 2, Curve: (ci * 7) % 11}
	case 6:
		o.Access = perso.PACEGMOnly
		o.Suite = symref.TDES
		o.CA = perso.CAOpts{On: true, Curve: ci % 11, Suite: symref.TDES, Arrange: 3}
	case 7:
		o.Access = perso.BACOnly
		o.CA = perso.CAOpts{On: true, Curve: (ci * 2) % 11, Suite: symref.AllSuites[(ci+1)%4], Form: 1, Arrange: 1}
	case 8:
		o.Access = perso.PACECAM
		o.AA = perso.AAOpts{Kind: 2, Curve: ci % 11, DER: true}
		o.CAN = true
	}
	return o
}

const c11MaxK = 70

// c11CleanCounts returns the number of exchanges and of SELECT EF commands of the clean read
// of a configuration. Session randomness is deterministic, so the exchanges before a single
// fault are those of the clean read: a single fault planned at or beyond these counts is never
// injected and the run would be the clean run again (which the "clean" class evaluates); such
// cases are counted and not executed. Computed once per worker process and configuration.
var c11CleanCache = map[int][2]int{}

func c11CleanCounts(ci int) (exchanges, selects int) {
	if v, ok := c11CleanCache[ci]; ok {
		return v[0], v[1]
	}
	pr := fw.NewRNG(int64(ci)+77, "c11-perso")
	p := perso.Build(pr, c11Config(pr, ci))
	card := p.NewCard(uint64(ci) + 5)
	if c11IsOpen(ci) {
		card.AuthRequired, card.BAC = false, nil
	}
	fw.SeedCryptoRand(int64(ci)+99, "c11-session")
	liveRead(p, card, liveOpts{maxLe: 256}, func(next func([]byte) []byte) func([]byte) []byte {
		return func(raw []byte) []byte {
			exchanges++
			resp := next(raw)
			if n := len(card.Events); n > 0 {
				if cmd := card.Events[n-1].Cmd; cmd != nil && cmd.INS == 0xA4 && cmd.P1 == 0x02 && len(cmd.Data) == 2 {
					selects++
				}
			}
			return resp
		}
	})
	c11CleanCache[ci] = [2]int{exchanges, selects}
	return exchanges, selects
}

// a read of a chip without access control has no authentication exchanges: fewer indices
const c11MaxOpenK = 48

// upper bound of the number of SELECT EF commands of one read
const c11MaxSelects = 13

// run one read with faults at the given exchange indices; returns false if nothing was injected
func c11Run(k *fw.K, ci int, plan c11Plan, viaMobile bool, label string) bool {
	// the personalisation must be identical for every case of a configuration
	pr := fw.NewRNG(int64(ci)+77, "c11-perso")
	p := perso.Build(pr, c11Config(pr, ci))
	card := p.NewCard(uint64(ci) + 5)
	if c11IsOpen(ci) {
		card.AuthRequired, card.BAC = false, nil
	}
	fw.SeedCryptoRand(int64(ci)+99, "c11-session")
	r := k.RNG
	injected := 0
	exch := 0
	altered := map[string]bool{} // authentication steps whose exchange was really altered by a fault
	alteredUnderSM := false
	// files whose SELECT EF the chip answered 9000 (it stores the file and made it current) while
	// the link delivered something else that does not say "file not found" -> what was delivered
	selAltered := map[string]string{}
	selCount := 0
	inLDS := false
	// files of which the chip delivered data with 9000 to a READ BINARY while the link delivered
	// something else (data lost or cut, another status, garbage) -> what was delivered
	readAltered := map[string]string{}
	chipCur, libCur := "", "" // the file the chip has selected / the library was told is selected
	wrap := func(next func([]byte) []byte) func([]byte) []byte {
		return func(raw []byte) []byte {
			idx := exch
			exch++
			if exch > 5000 {
				// runaway: stop feeding genuine answers
				return []byte{0x6F, 0x00}
			}
			resp := next(raw)
			kind, ok := plan.byIndex[idx]
			isSelEF := false
			if n := len(card.Events); n > 0 {
				if cmd := card.Events[n-1].Cmd; cmd != nil && cmd.INS == 0xA4 {
					switch {
					case cmd.P1 == 0x04 && card.Events[n-1].SW == 0x9000:
						inLDS = true
						chipCur, libCur = "", ""
					case cmd.P1 == 0x00 && card.Events[n-1].SW == 0x9000:
						inLDS = false
						chipCur, libCur = "", ""
					case cmd.P1 == 0x02 && len(cmd.Data) == 2:
						isSelEF = true
						if sk, sok := plan.bySelect[selCount]; sok {
							kind, ok = sk, true
						}
						selCount++
					}
				}
			}
			selName := ""
			if isSelEF {
				ev := card.Events[len(card.Events)-1]
				selName = c11FileName(uint16(ev.Cmd.Data[0])<<8|uint16(ev.Cmd.Data[1]), inLDS)
				if ev.SW == 0x9000 {
					chipCur = selName
				}
				// the library takes the file as selected when it is given a 9000: the chip's own
				// unaltered answer, or (below) a bare 9000 delivered in the clear
				libCur = "?"
				if ev.SW == 0x9000 && !ok {
					libCur = selName
				}
			}
			if ok {
				injected++
				f := c11Fault(r, kind, resp)
				if isSelEF && !card.Events[len(card.Events)-1].Protected && len(f) == 2 && f[0] == 0x90 && f[1] == 0x00 {
					libCur = selName
				}
				// what counts as altered: another status word, or other data where the genuine
				// response carried data (extra bytes on a status-only response that keep the
				// status are ignored by the command helpers and change nothing)
				sameSW := len(f) >= 2 && len(resp) >= 2 && f[len(f)-2] == resp[len(resp)-2] && f[len(f)-1] == resp[len(resp)-1]
				benign := sameSW && len(resp) == 2
				if sameSW && !benign && len(f) > len(resp) && bytesEq(f[:len(resp)-2], resp[:len(resp)-2]) && c11OneCompleteTLV(resp[:len(resp)-2]) {
					// the genuine data object arrives intact and complete, followed by surplus
					// octets, under the genuine status: the step consumes exactly the object it
					// would have consumed (same reading as for status-only responses)
					benign = true
					k.Count("surplus_octets_after_a_complete_data_object_not_counted_as_altered")
				}
				if !bytesEq(f, resp) && !benign && len(card.Events) > 0 {
					ev := card.Events[len(card.Events)-1]
					if ev.Protected {
						alteredUnderSM = true
					}
					if isSelEF && ev.SW == 0x9000 {
						fsw := -1
						if len(f) >= 2 {
							fsw = int(f[len(f)-2])<<8 | int(f[len(f)-1])
						}
						name := c11FileName(uint16(ev.Cmd.Data[0])<<8|uint16(ev.Cmd.Data[1]), inLDS)
						switch {
						case fsw == 0x6A82 || fsw == 0x6283:
							// the link says "not there": indistinguishable from the chip saying so
							k.Count("select_answer_replaced_by_a_not_found_status")
						case name != "":
							k.Count("select_answer_replaced_by_another_status_or_garbage")
							if ev.Protected {
								k.Count("select_answer_replaced_under_secure_messaging")
							} else {
								k.Count("select_answer_replaced_in_the_clear")
							}
							if _, dup := selAltered[name]; !dup {
								selAltered[name] = fmt.Sprintf("%x", f[max(0, len(f)-2):])
							}
						}
					}
					if ev.Cmd != nil && ev.Cmd.INS == 0xB0 && ev.SW == 0x9000 && len(ev.Data) > 0 && chipCur != "" && chipCur == libCur {
						k.Count("read_binary_answer_altered")
						if ev.Protected {
							k.Count("read_binary_answer_altered_under_secure_messaging")
						} else {
							k.Count("read_binary_answer_altered_in_the_clear")
							if len(f) == 2 && f[0] == 0x90 && f[1] == 0x00 {
								k.Count("read_binary_answer_in_the_clear_replaced_by_bare_9000")
								if ev.Cmd.P1 == 0 && ev.Cmd.P2 == 0 {
									k.Count("header_read_answer_in_the_clear_replaced_by_bare_9000:" + chipCur)
								}
							}
						}
						if _, dup := readAltered[chipCur]; !dup {
							readAltered[chipCur] = fmt.Sprintf("%s at offset %d (%d bytes delivered instead of %d)", kind, int(ev.Cmd.P1)<<8|int(ev.Cmd.P2), len(f), len(resp))
						}
					}
					if ev.Cmd != nil {
						switch {
						case ev.Cmd.INS == 0x22 && ev.Cmd.P1 == 0xC1, ev.Cmd.INS == 0x86 && !ev.Protected:
							altered["pace"] = true
						case ev.Cmd.INS == 0x84, ev.Cmd.INS == 0x82:
							altered["bac"] = true
						case ev.Cmd.INS == 0x88:
							altered["aa"] = true
						case ev.Cmd.INS == 0x22 && ev.Cmd.P1 == 0x41, ev.Cmd.INS == 0x86 && ev.Protected:
							altered["ca"] = true
						}
					}
				}
				return f
			}
			return resp
		}
	}
	det := func(extra string) map[string]any {
		return map[string]any{"config": fmt.Sprintf("%d: %+v", ci, p.Opts.Access) + fmt.Sprintf(" aa=%+v ca=%+v can=%v", p.Opts.AA, p.Opts.CA, p.Opts.CAN), "faults": fmt.Sprint(plan.byIndex), "select_faults": fmt.Sprint(plan.bySelect), "via_mobile": viaMobile, "exchanges": exch, "note": extra,
			"chip": fmt.Sprintf("bac=%v pace=%v cam=%v ca=%v aa_challenges=%d", card.BACDone, card.PACEDone, card.CAMDone, card.CADone, len(card.AAChallenges))}
	}
	var docEx *document.DocumentEx
	var err error
	if viaMobile {
		tr := &funcTransceiver{f: wrap(card.Transceive)}
		mr := mobile.NewReader(nil, tr)
		var mp *mobile.MrtdPassword
		if p.Opts.CAN {
			mp, err = mobile.NewPasswordCan(p.CANStr)
		} else {
			mp, err = mobile.NewPasswordMrz(p.Zone)
		}
		if err != nil {
			fw.LibFail("mobile-password-rejected", "mobile password constructor rejects valid input: %v", err)
		}
		doc, rerr := mr.ReadDocument(mp, []byte{0x3B}, nil)
		err = rerr
		if doc != nil {
			if js, jerr := doc.DocumentExJson(); jerr == nil && len(js) > 0 {
				var probe struct {
					Session struct {
						PassiveAuthResult *struct {
							Success bool `json:"success"`
						} `json:"passiveAuthResult"`
					} `json:"session"`
				}
				if json.Unmarshal(js, &probe) == nil && probe.Session.PassiveAuthResult != nil && probe.Session.PassiveAuthResult.Success {
					k.Violation("fault:mobile:pa-success-with-foreign-issuer", "mobile read reports passive authentication success for an issuer that is not in the built-in store", det(""))
					return injected > 0
				}
			}
			if sj, serr := doc.SummaryJson(); serr == nil {
				var sum struct {
					DataTrusted bool `json:"dataTrusted"`
				}
				if json.Unmarshal(sj, &sum) == nil && sum.DataTrusted {
					k.Violation("fault:mobile:trusted-with-foreign-issuer", "mobile read reports trusted data for an issuer that is not in the built-in store", det(""))
					return injected > 0
				}
			}
		}
	} else {
		res := liveRead(p, card, liveOpts{maxLe: 256}, wrap)
		docEx, err = res.docEx, res.err
	}
	if exch > 5000 {
		k.Violation("fault:runaway", fmt.Sprintf("the read issued more than 5000 exchanges after a fault (%s)", label), det(""))
		return injected > 0
	}
	k.Max("max_exchanges_after_fault", int64(exch))
	if err != nil {
		k.Count("reads_ended_with_error")
	} else {
		k.Count("reads_ended_without_error")
	}
	if docEx == nil {
		return injected > 0
	}
	d := &docEx.Document
	s := &docEx.Session
	// files: anything returned must be the chip's bytes
	for _, name := range []string{"CardAccess", "CardSecurity", "SOD", "COM", "DG1", "DG2", "DG7", "DG11", "DG12", "DG13", "DG14", "DG15", "DG16"} {
		got := docFile(d, name)
		if got == nil {
			continue
		}
		want := chipFile(p, name)
		if !bytesEq(got, want) && name == "CardAccess" {
			// EF.CardAccess is read in the clear before any session exists: no reader can
			// notice a garbled plain response at read time. What the library can and must do
			// is not to call the result trusted (CardAccess is checked against DG14).
			if docEx.Summary().DataTrusted {
				k.Violation("fault:garbled-cardaccess-trusted", fmt.Sprintf("a garbled EF.CardAccess was returned and the data is still marked trusted (%s)", label), det(fmt.Sprintf("verifyErr=%v", s.DocumentVerifyErr)))
				return injected > 0
			}
			k.Count("garbled_plain_cardaccess_returned_untrusted")
			continue
		}
		if !bytesEq(got, want) {
			k.Violation("fault:file-differs:"+name, fmt.Sprintf("%s returned with %d bytes that differ from the chip's %d-byte file (%s)", name, len(got), len(want), label), det(""))
			return injected > 0
		}
	}
	if s.BacResult != nil && s.BacResult.Success && !card.BACDone {
		k.Violation("fault:step-success-without-chip:bac", "BAC reported successful although the chip did not complete it", det(""))
		return injected > 0
	}
	if s.PaceResult != nil && s.PaceResult.Success && !card.PACEDone {
		k.Violation("fault:step-success-without-chip:pace", "PACE reported successful although the chip did not complete it", det(""))
		return injected > 0
	}
	if s.PaceCamResult != nil && s.PaceCamResult.Success && !card.CAMDone {
		k.Violation("fault:step-success-without-chip:pace-cam", "PACE-CAM reported successful although the chip did not complete it", det(""))
		return injected > 0
	}
	if s.ChipAuthResult != nil && s.ChipAuthResult.Success && !card.CADone {
		k.Violation("fault:step-success-without-chip:ca", "chip authentication reported successful although the chip did not complete it", det(""))
		return injected > 0
	}
	if s.ActiveAuthResult != nil && s.ActiveAuthResult.Success && (len(card.AAChallenges) == 0 || p.Opts.AA.Kind == 0) {
		k.Violation("fault:step-success-without-chip:aa", "active authentication reported successful although the chip never signed a challenge", det(""))
		return injected > 0
	}
	// a fault on an exchange of an authentication step leaves a trace: an error, or that step
	// recorded as failed
	if err == nil {
		for step := range altered {
			var recorded bool
			switch step {
			case "pace":
				recorded = s.PaceErr != nil || (s.PaceResult != nil && !s.PaceResult.Success)
			case "bac":
				recorded = s.BacErr != nil || (s.BacResult != nil && !s.BacResult.Success)
			case "aa":
				recorded = s.ActiveAuthErr != nil || (s.ActiveAuthResult != nil && !s.ActiveAuthResult.Success)
			case "ca":
				recorded = s.ChipAuthErr != nil || (s.ChipAuthResult != nil && !s.ChipAuthResult.Success)
			}
			if !recorded {
				k.Violation("fault:step-fault-left-no-trace:"+step, fmt.Sprintf("an exchange of the %s step was altered (%s) but the read ended without an error and without recording that step as failed", step, label), det(""))
				return injected > 0
			}
		}
		// an altered answer to SELECT EF that does not say "file not found" (the chip had answered
		// 9000): the read ended without an error, so the file must have been obtained - or, for the
		// files of the PACE step, that step must be recorded as attempted and failed
		names := make([]string, 0, len(selAltered))
		for name := range selAltered {
			names = append(names, name)
		}
		sort.Strings(names)
		for _, name := range names {
			if docFile(d, name) != nil {
				k.Count("file_obtained_although_select_answer_was_altered")
				continue
			}
			paceTrace := s.PaceErr != nil || s.PaceResult != nil || s.PaceCamResult != nil
			switch {
			case name == "CardAccess":
				if p.Opts.Access == perso.BACOnly || paceTrace {
					k.Count("cardaccess_lost_with_pace_trace")
					continue
				}
				k.Violation("fault:cardaccess-select-status-skipped-pace-silently", fmt.Sprintf("the answer to SELECT EF.CardAccess was replaced by %s (the chip answered 9000 and supports PACE); the read ended without an error, without EF.CardAccess and without any PACE attempt or failure recorded (%s)", selAltered[name], label), det(fmt.Sprintf("bacResult=%v bacErr=%v", s.BacResult != nil, s.BacErr)))
				return injected > 0
			case name == "CardSecurity":
				if paceTrace && (s.PaceErr != nil || (s.PaceCamResult != nil && !s.PaceCamResult.Success) || (s.PaceResult != nil && !s.PaceResult.Success)) {
					k.Count("cardsecurity_lost_with_pace_failure_recorded")
					continue
				}
				k.Violation("fault:file-silently-missing-after-select-status:CardSecurity", fmt.Sprintf("the answer to SELECT EF.CardSecurity was replaced by %s; the read ended without an error, without the file and without a PACE failure recorded (%s)", selAltered[name], label), det(""))
				return injected > 0
			default:
				var n int
				stored := name == "SOD" || name == "COM"
				if _, err := fmt.Sscanf(name, "DG%d", &n); err == nil {
					_, stored = p.DGFiles[n]
					supported := false
					for _, sn := range supportedDGs {
						supported = supported || sn == n
					}
					stored = stored && supported
				}
				if !stored {
					continue
				}
				k.Violation("fault:file-silently-missing-after-select-status:"+name, fmt.Sprintf("the chip stores %s and answered SELECT EF with 9000, the link delivered %s instead (not a 'file not found' status); the read ended without an error and without the file (%s)", name, selAltered[name], label), det(""))
				return injected > 0
			}
		}
		// an altered answer to a READ BINARY of a file (the chip delivered data with 9000): the read
		// ended without an error, so that file must have been obtained (the fault was harmless: a
		// short answer the read loop made up for) - or, for the files of the PACE step, that step
		// must be recorded as attempted and failed. The file is never silently missing.
		names = names[:0]
		for name := range readAltered {
			names = append(names, name)
		}
		sort.Strings(names)
		for _, name := range names {
			if docFile(d, name) != nil {
				k.Count("file_obtained_although_a_read_binary_answer_was_altered")
				continue
			}
			paceTrace := s.PaceErr != nil || s.PaceResult != nil || s.PaceCamResult != nil
			switch {
			case name == "CardAccess":
				if paceTrace {
					k.Count("cardaccess_lost_after_read_fault_with_pace_trace")
					continue
				}
				k.Violation("fault:cardaccess-read-answer-altered-skipped-pace-silently", fmt.Sprintf("the chip stores EF.CardAccess, answered SELECT EF with 9000 and READ BINARY with data; the link delivered %s; the read ended without an error, without EF.CardAccess and without any PACE attempt or failure recorded (%s)", readAltered[name], label), det(fmt.Sprintf("bacResult=%v bacErr=%v", s.BacResult != nil, s.BacErr)))
				return injected > 0
			case name == "CardSecurity":
				if s.PaceErr != nil || (s.PaceCamResult != nil && !s.PaceCamResult.Success) || (s.PaceResult != nil && !s.PaceResult.Success) {
					k.Count("cardsecurity_lost_after_read_fault_with_pace_failure_recorded")
					continue
				}
				k.Violation("fault:file-silently-missing-after-read-fault:CardSecurity", fmt.Sprintf("the chip delivered EF.CardSecurity, the link delivered %s; the read ended without an error, without the file and without a PACE failure recorded (%s)", readAltered[name], label), det(""))
				return injected > 0
			default:
				var n int
				stored := name == "SOD" || name == "COM"
				if _, err := fmt.Sscanf(name, "DG%d", &n); err == nil {
					_, stored = p.DGFiles[n]
					supported := false
					for _, sn := range supportedDGs {
						supported = supported || sn == n
					}
					stored = stored && supported
				}
				if !stored {
					continue
				}
				k.Violation("fault:file-silently-missing-after-read-fault:"+name, fmt.Sprintf("the chip stores %s, answered SELECT EF with 9000 and READ BINARY with data; the link delivered %s; the read ended without an error and without the file (%s)", name, readAltered[name], label), det(""))
				return injected > 0
			}
		}
		// every data group is read under secure messaging: after an altered protected exchange a
		// read that ends without an error must still hold every listed, stored, supported file
		if alteredUnderSM {
			for _, n := range supportedDGs {
				if _, ok := p.DGFiles[n]; ok && docFile(d, fmt.Sprintf("DG%d", n)) == nil {
					k.Violation("fault:file-silently-missing-after-protected-fault", fmt.Sprintf("DG%d is stored and listed but missing, and the read ended without an error although a protected exchange was altered (%s)", n, label), det(""))
					return injected > 0
				}
			}
		}
	}
	sum := docEx.Summary()
	if sum.DataTrusted {
		// all returned files are genuine (checked above); trust additionally needs SOD and DG1
		if docFile(d, "SOD") == nil || docFile(d, "DG1") == nil {
			k.Violation("fault:trusted-without-files", "data marked trusted although SOD or DG1 was not obtained", det(""))
			return injected > 0
		}
		k.Count("trusted_after_fault_with_genuine_files")
	}
	if sum.ChipAuthenticity != document.CHIP_AUTH_STATUS_NONE {
		k.Count("chip_authentic_after_fault")
	}
	return injected > 0
}

func runC11(c *fw.Ctx) {
	if err := ecref.SelfTest(); err != nil {
		fw.Bug("ecref self-test: %v", err)
	}
	_ = chipsim.FidCOM
	nconf := c.Pick(6, 18)
	nopen := c.Pick(2, 3)
	// all configurations: the access-controlled ones, then the chips without access control
	var configs []int
	for ci := 0; ci < nconf; ci++ {
		configs = append(configs, ci)
	}
	for j := 0; j < nopen; j++ {
		configs = append(configs, c11Open+j)
	}
	// clean runs (also establishes, per worker, that the configuration reads cleanly)
	c.Cases(len(configs), func(i int) string { return fmt.Sprintf("clean|config=%d", configs[i]) }, func(i int, k *fw.K) {
		k.Nontrivial("")
		c11Run(k, configs[i], c11Plan{}, false, "clean")
		k.Count("clean_runs")
		if c11IsOpen(configs[i]) {
			k.Count("clean_runs_chip_without_access_control")
		}
	})
	// exhaustive single faults
	type single struct{ ci, k, kind int }
	var singles []single
	for ci := 0; ci < nconf; ci++ {
		for kk := 0; kk < c11MaxK; kk++ {
			for kind := range c11Kinds {
				singles = append(singles, single{ci, kk, kind})
			}
		}
	}
	c.Cases(len(singles), func(i int) string {
		s := singles[i]
		return fmt.Sprintf("single|config=%d k=%d kind=%s", s.ci, s.k, c11Kinds[s.kind])
	}, func(i int, k *fw.K) {
		s := singles[i]
		label := fmt.Sprintf("k=%d %s", s.k, c11Kinds[s.kind])
		if n, _ := c11CleanCounts(s.ci); s.k >= n {
			k.Count("single_fault_index_beyond_end_of_session")
			k.AddEvals(-1) // nothing was executed
			return
		}
		if c11Run(k, s.ci, c11Plan{byIndex: map[int]string{s.k: c11Kinds[s.kind]}}, false, label) {
			k.Nontrivial("")
			k.Count("single_faults_injected")
		} else {
			k.Count("single_fault_index_beyond_end_of_session")
		}
	})
	// chips without access control: every exchange index x every fault kind that does not alter data
	var opens []single
	for j := 0; j < nopen; j++ {
		for kk := 0; kk < c11MaxOpenK; kk++ {
			for kind := range c11StatusKinds {
				opens = append(opens, single{c11Open + j, kk, kind})
			}
		}
	}
	c.Cases(len(opens), func(i int) string {
		s := opens[i]
		return fmt.Sprintf("open|config=%d k=%d kind=%s", s.ci, s.k, c11StatusKinds[s.kind])
	}, func(i int, k *fw.K) {
		s := opens[i]
		label := fmt.Sprintf("chip without access control, k=%d %s", s.k, c11StatusKinds[s.kind])
		if n, _ := c11CleanCounts(s.ci); s.k >= n {
			k.Count("open_chip_fault_index_beyond_end_of_session")
			k.AddEvals(-1) // nothing was executed
			return
		}
		if c11Run(k, s.ci, c11Plan{byIndex: map[int]string{s.k: c11StatusKinds[s.kind]}}, false, label) {
			k.Nontrivial("")
			k.Count("open_chip_faults_injected")
		} else {
			k.Count("open_chip_fault_index_beyond_end_of_session")
		}
	})
	// the n-th SELECT EF of the read (wherever it falls in the exchange sequence, in the clear or
	// protected) x status kinds, for every configuration
	type selCase struct{ ci, n, kind int }
	var sels []selCase
	for _, ci := range configs {
		for n := 0; n < c11MaxSelects; n++ {
			for kind := range c11SelectKinds {
				sels = append(sels, selCase{ci, n, kind})
			}
		}
	}
	c.Cases(len(sels), func(i int) string {
		s := sels[i]
		return fmt.Sprintf("select|config=%d select=%d kind=%s", s.ci, s.n, c11SelectKinds[s.kind])
	}, func(i int, k *fw.K) {
		s := sels[i]
		label := fmt.Sprintf("SELECT EF #%d %s", s.n, c11SelectKinds[s.kind])
		if _, n := c11CleanCounts(s.ci); s.n >= n {
			k.Count("select_fault_beyond_last_select_of_session")
			k.AddEvals(-1) // nothing was executed
			return
		}
		if c11Run(k, s.ci, c11Plan{bySelect: map[int]string{s.n: c11SelectKinds[s.kind]}}, false, label) {
			k.Nontrivial("")
			k.Count("select_faults_injected")
		} else {
			k.Count("select_fault_beyond_last_select_of_session")
		}
	})
	// random multi-fault sequences
	nm := c.Pick(500, 40000)
	c.Cases(nm, func(i int) string { return fmt.Sprintf("multi|i=%d", i) }, func(i int, k *fw.K) {
		r := k.RNG
		ci := r.IntN(nconf)
		faults := map[int]string{}
		nf := 2 + r.IntN(4)
		for j := 0; j < nf; j++ {
			faults[r.IntN(50)] = c11Kinds[r.IntN(len(c11Kinds))]
		}
		if r.IntN(4) == 0 {
			// sometimes a chip without access control, with the kinds that do not alter data
			ci = c11Open + r.IntN(nopen)
			for idx := range faults {
				delete(faults, idx)
			}
			for j := 0; j < nf; j++ {
				faults[r.IntN(40)] = c11StatusKinds[r.IntN(len(c11StatusKinds))]
			}
		}
		if c11Run(k, ci, c11Plan{byIndex: faults}, false, "multi") {
			k.Nontrivial(fmt.Sprintf("multi|%d|%v", ci, faults))
			k.Count("multi_fault_runs")
		}
	})
	// mobile bindings slice
	nmo := c.Pick(60, 2400)
	c.Cases(nmo, func(i int) string { return fmt.Sprintf("mobile|i=%d", i) }, func(i int, k *fw.K) {
		r := k.RNG
		ci := r.IntN(nconf)
		faults := map[int]string{r.IntN(45): c11Kinds[r.IntN(len(c11Kinds))]}
		if i%10 == 0 {
			faults = nil
		}
		if c11Run(k, ci, c11Plan{byIndex: faults}, true, "mobile") || faults == nil {
			k.Nontrivial(fmt.Sprintf("mobile|%d|%v", ci, faults))
			k.Count("mobile_runs")
		}
	})
}

// c11OneCompleteTLV reports whether b is exactly one BER data object with a definite length.
func c11OneCompleteTLV(b []byte) bool {
	if len(b) < 2 {
		return false
	}
	i := 1
	if b[0]&0x1F == 0x1F {
		for i < len(b) && b[i]&0x80 != 0 {
			i++
		}
		i++
	}
	if i >= len(b) {
		return false
	}
	l := int(b[i])
	i++
	if l&0x80 != 0 {
		n := l & 0x7F
		if n == 0 || n > 3 || i+n > len(b) {
			return false
		}
		l = 0
		for j := 0; j < n; j++ {
			l = l<<8 | int(b[i+j])
		}
		i += n
	}
	return i+l == len(b)
}
