package checks

import (
	"encoding/json"
	"fmt"
	mrand "math/rand/v2"

	"github.com/gmrtd/gmrtd/document"
	"github.com/gmrtd/gmrtd/mobile"

	"verifharness/chipsim"
	"verifharness/ecref"
	"verifharness/fw"
	"verifharness/perso"
	"verifharness/symref"
)

// C11 - link faults at any point of a session fail safe.
// The transceiver replaces the chip's response at one exchange index (every index x every
// fault kind, enumerated) or at several (random sequences); the chip keeps its own truth.

func init() {
	register(&fw.Spec{
		ID:               "C11",
		Level:            "fault_enumeration",
		CrashIsViolation: true,
		HangSeconds:      90,
		Rule: "case = one read (reader.ReadDocument; a slice through mobile.Reader.ReadDocument) of a small simulated chip in one of the configurations {BAC, PACE-GM, PACE-CAM, BAC+AA-RSA, PACE+CA, PACE+AA-ECDSA, ...} with the response of exchange k replaced by one fault kind {empty, 1 byte, truncated by 1 / half, one bit flipped, random bytes of the same length, 70000 extra bytes, bare 6A82 / 6982 / 6700 / 6F00 / 6283 / 9000, genuine data with another outer status}; every k of the exchange sequence x every kind is enumerated (session randomness is deterministic, so the prefix before k is identical to the clean run); plus random multi-fault sequences; " +
			"oracle: no crash / runaway (exchange count), every returned file byte-identical to the chip's, no step reported successful that the chip did not complete, trusted only with genuine files; non-trivial = a fault was actually injected; distinct = (configuration, k, kind) or the fault sequence",
		MinEvaluations: 1500,
		Exhaustive:     func(string) bool { return true },
		Assumptions: []string{
			"exhaustive over (exchange index, fault kind) for the enumerated configurations; the fault values themselves (which bit, which random bytes) are sampled",
			"a fault that makes a file 'absent' or a step 'failed' is allowed; only wrong bytes, wrong success, trust without genuine files, crashes and runaway reads are violations",
		},
		Run: runC11,
	})
}

var c11Kinds = []string{"empty", "one-byte", "truncate-1", "truncate-half", "bitflip", "random-same-length", "extra-70000", "sw-6a82", "sw-6982", "sw-6700", "sw-6f00", "sw-6283", "sw-9000", "other-outer-sw"}

func c11Fault(r *mrand.Rand, kind string, resp []byte) []byte {
	n := len(resp)
	switch kind {
	case "empty":
		return []byte{}
	case "one-byte":
		return []byte{0x90}
	case "truncate-1":
		return append([]byte{}, resp[:max(0, n-1)]...)
	case "truncate-half":
		return append([]byte{}, resp[:n/2]...)
	case "bitflip":
		v := append([]byte{}, resp...)
		if n > 0 {
			v[r.IntN(n)] ^= 1 << uint(r.IntN(8))
		}
		return v
	case "random-same-length":
		return randBytes(r, n)
	case "extra-70000":
		v := append([]byte{}, resp[:max(0, n-2)]...)
		v = append(v, randBytes(r, 70000)...)
		return append(v, resp[max(0, n-2):]...)
	case "sw-6a82":
		return []byte{0x6A, 0x82}
	case "sw-6982":
		return []byte{0x69, 0x82}
	case "sw-6700":
		return []byte{0x67, 0x00}
	case "sw-6f00":
		return []byte{0x6F, 0x00}
	case "sw-6283":
		return []byte{0x62, 0x83}
	case "sw-9000":
		return []byte{0x90, 0x00}
	case "other-outer-sw":
		v := append([]byte{}, resp...)
		if n >= 2 {
			if v[n-2] == 0x90 && v[n-1] == 0x00 {
				v[n-2], v[n-1] = 0x62, 0x82
			} else {
				v[n-2], v[n-1] = 0x90, 0x00
			}
		}
		return v
	}
	fw.Bug("unknown fault kind %q", kind)
	return nil
}

func c11Config(r *mrand.Rand, ci int) perso.Opts {
	o := perso.Opts{DGs: []int{2, 11}, Digest: 2}
	o.PKI.CertHash = 2
	o.ParamID = 8 + (ci*5)%11
	o.Suite = symref.AllSuites[1+ci%3]
	switch ci % 9 {
	case 0:
		o.Access = perso.BACOnly
	case 1:
		o.Access = perso.PACEGMWithBAC // PACE first, BAC available as fallback
	case 2:
		o.Access = perso.PACECAM
	case 3:
		o.Access = perso.BACOnly
		o.AA = perso.AAOpts{Kind: 1, Bits: 1024, Hash: 2}
	case 4:
		o.Access = perso.PACEGMOnly
		o.CA = perso.CAOpts{On: true, Curve: (ci * 3) % 11, Suite: symref.AllSuites[ci%4], Arrange: ci % 3}
	case 5:
		o.Access = perso.PACEGMOnly
		o.AA = perso.AAOpts{Kind: 2, Curve: (ci * 7) % 11}
	case 6:
		o.Access = perso.PACEGMOnly
		o.Suite = symref.TDES
		o.CA = perso.CAOpts{On: true, Curve: ci % 11, Suite: symref.TDES, Arrange: 3}
	case 7:
		o.Access = perso.BACOnly
		o.CA = perso.CAOpts{On: true, Curve: (ci * 2) % 11, Suite: symref.AllSuites[(ci+1)%4], Form: 1, Arrange: 1}
	case 8:
		o.Access = perso.PACECAM
		o.AA = perso.AAOpts{Kind: 2, Curve: ci % 11, DER: true}
		o.CAN = true
	}
	return o
}

const c11MaxK = 70

// run one read with faults at the given exchange indices; returns false if nothing was injected
func c11Run(k *fw.K, ci int, faults map[int]string, viaMobile bool, label string) bool {
	// the personalisation must be identical for every case of a configuration
	pr := fw.NewRNG(int64(ci)+77, "c11-perso")
	p := perso.Build(pr, c11Config(pr, ci))
	card := p.NewCard(uint64(ci) + 5)
	fw.SeedCryptoRand(int64(ci)+99, "c11-session")
	r := k.RNG
	injected := 0
	exch := 0
	altered := map[string]bool{} // authentication steps whose exchange was really altered by a fault
	alteredUnderSM := false
	wrap := func(next func([]byte) []byte) func([]byte) []byte {
		return func(raw []byte) []byte {
			idx := exch
			exch++
			if exch > 5000 {
				// runaway: stop feeding genuine answers
				return []byte{0x6F, 0x00}
			}
			resp := next(raw)
			if kind, ok := faults[idx]; ok {
				injected++
				f := c11Fault(r, kind, resp)
				// what counts as altered: another status word, or other data where the genuine
				// response carried data (extra bytes on a status-only response that keep the
				// status are ignored by the command helpers and change nothing)
				sameSW := len(f) >= 2 && len(resp) >= 2 && f[len(f)-2] == resp[len(resp)-2] && f[len(f)-1] == resp[len(resp)-1]
				benign := sameSW && len(resp) == 2
				if !bytesEq(f, resp) && !benign && len(card.Events) > 0 {
					ev := card.Events[len(card.Events)-1]
					if ev.Protected {
						alteredUnderSM = true
					}
					if ev.Cmd != nil {
						switch {
						case ev.Cmd.INS == 0x22 && ev.Cmd.P1 == 0xC1, ev.Cmd.INS == 0x86 && !ev.Protected:
							altered["pace"] = true
						case ev.Cmd.INS == 0x84, ev.Cmd.INS == 0x82:
							altered["bac"] = true
						case ev.Cmd.INS == 0x88:
							altered["aa"] = true
						case ev.Cmd.INS == 0x22 && ev.Cmd.P1 == 0x41, ev.Cmd.INS == 0x86 && ev.Protected:
							altered["ca"] = true
						}
					}
				}
				return f
			}
			return resp
		}
	}
	det := func(extra string) map[string]any {
		return map[string]any{"config": fmt.Sprintf("%d: %+v", ci, p.Opts.Access) + fmt.Sprintf(" aa=%+v ca=%+v can=%v", p.Opts.AA, p.Opts.CA, p.Opts.CAN), "faults": fmt.Sprint(faults), "via_mobile": viaMobile, "exchanges": exch, "note": extra,
			"chip": fmt.Sprintf("bac=%v pace=%v cam=%v ca=%v aa_challenges=%d", card.BACDone, card.PACEDone, card.CAMDone, card.CADone, len(card.AAChallenges))}
	}
	var docEx *document.DocumentEx
	var err error
	if viaMobile {
		tr := &funcTransceiver{f: wrap(card.Transceive)}
		mr := mobile.NewReader(nil, tr)
		var mp *mobile.MrtdPassword
		if p.Opts.CAN {
			mp, err = mobile.NewPasswordCan(p.CANStr)
		} else {
			mp, err = mobile.NewPasswordMrz(p.Zone)
		}
		if err != nil {
			fw.LibFail("mobile-password-rejected", "mobile password constructor rejects valid input: %v", err)
		}
		doc, rerr := mr.ReadDocument(mp, []byte{0x3B}, nil)
		err = rerr
		if doc != nil {
			if js, jerr := doc.DocumentExJson(); jerr == nil && len(js) > 0 {
				var probe struct {
					Session struct {
						PassiveAuthResult *struct {
							Success bool `json:"success"`
						} `json:"passiveAuthResult"`
					} `json:"session"`
				}
				if json.Unmarshal(js, &probe) == nil && probe.Session.PassiveAuthResult != nil && probe.Session.PassiveAuthResult.Success {
					k.Violation("fault:mobile:pa-success-with-foreign-issuer", "mobile read reports passive authentication success for an issuer that is not in the built-in store", det(""))
					return injected > 0
				}
			}
			if sj, serr := doc.SummaryJson(); serr == nil {
				var sum struct {
					DataTrusted bool `json:"dataTrusted"`
				}
				if json.Unmarshal(sj, &sum) == nil && sum.DataTrusted {
					k.Violation("fault:mobile:trusted-with-foreign-issuer", "mobile read reports trusted data for an issuer that is not in the built-in store", det(""))
					return injected > 0
				}
			}
		}
	} else {
		res := liveRead(p, card, liveOpts{maxLe: 256}, wrap)
		docEx, err = res.docEx, res.err
	}
	if exch > 5000 {
		k.Violation("fault:runaway", fmt.Sprintf("the read issued more than 5000 exchanges after a fault (%s)", label), det(""))
		return injected > 0
	}
	k.Max("max_exchanges_after_fault", int64(exch))
	if err != nil {
		k.Count("reads_ended_with_error")
	} else {
		k.Count("reads_ended_without_error")
	}
	if docEx == nil {
		return injected > 0
	}
	d := &docEx.Document
	s := &docEx.Session
	// files: anything returned must be the chip's bytes
	for _, name := range []string{"CardAccess", "CardSecurity", "SOD", "COM", "DG1", "DG2", "DG7", "DG11", "DG12", "DG13", "DG14", "DG15", "DG16"} {
		got := docFile(d, name)
		if got == nil {
			continue
		}
		want := chipFile(p, name)
		if !bytesEq(got, want) && name == "CardAccess" {
			// EF.CardAccess is read in the clear before any session exists: no reader can
			// notice a garbled plain response at read time. What the library can and must do
			// is not to call the result trusted (CardAccess is checked against DG14).
			if docEx.Summary().DataTrusted {
				k.Violation("fault:garbled-cardaccess-trusted", fmt.Sprintf("a garbled EF.CardAccess was returned and the data is still marked trusted (%s)", label), det(fmt.Sprintf("verifyErr=%v", s.DocumentVerifyErr)))
				return injected > 0
			}
			k.Count("garbled_plain_cardaccess_returned_untrusted")
			continue
		}
		if !bytesEq(got, want) {
			k.Violation("fault:file-differs:"+name, fmt.Sprintf("%s returned with %d bytes that differ from the chip's %d-byte file (%s)", name, len(got), len(want), label), det(""))
			return injected > 0
		}
	}
	if s.BacResult != nil && s.BacResult.Success && !card.BACDone {
		k.Violation("fault:step-success-without-chip:bac", "BAC reported successful although the chip did not complete it", det(""))
		return injected > 0
	}
	if s.PaceResult != nil && s.PaceResult.Success && !card.PACEDone {
		k.Violation("fault:step-success-without-chip:pace", "PACE reported successful although the chip did not complete it", det(""))
		return injected > 0
	}
	if s.PaceCamResult != nil && s.PaceCamResult.Success && !card.CAMDone {
		k.Violation("fault:step-success-without-chip:pace-cam", "PACE-CAM reported successful although the chip did not complete it", det(""))
		return injected > 0
	}
	if s.ChipAuthResult != nil && s.ChipAuthResult.Success && !card.CADone {
		k.Violation("fault:step-success-without-chip:ca", "chip authentication reported successful although the chip did not complete it", det(""))
		return injected > 0
	}
	if s.ActiveAuthResult != nil && s.ActiveAuthResult.Success && (len(card.AAChallenges) == 0 || p.Opts.AA.Kind == 0) {
		k.Violation("fault:step-success-without-chip:aa", "active authentication reported successful although the chip never signed a challenge", det(""))
		return injected > 0
	}
	// a fault on an exchange of an authentication step leaves a trace: an error, or that step
	// recorded as failed
	if err == nil {
		for step := range altered {
			var recorded bool
			switch step {
			case "pace":
				recorded = s.PaceErr != nil || (s.PaceResult != nil && !s.PaceResult.Success)
			case "bac":
				recorded = s.BacErr != nil || (s.BacResult != nil && !s.BacResult.Success)
			case "aa":
				recorded = s.ActiveAuthErr != nil || (s.ActiveAuthResult != nil && !s.ActiveAuthResult.Success)
			case "ca":
				recorded = s.ChipAuthErr != nil || (s.ChipAuthResult != nil && !s.ChipAuthResult.Success)
			}
			if !recorded {
				k.Violation("fault:step-fault-left-no-trace:"+step, fmt.Sprintf("an exchange of the %s step was altered (%s) but the read ended without an error and without recording that step as failed", step, label), det(""))
				return injected > 0
			}
		}
		// every data group is read under secure messaging: after an altered protected exchange a
		// read that ends without an error must still hold every listed, stored, supported file
		if alteredUnderSM {
			for _, n := range supportedDGs {
				if _, ok := p.DGFiles[n]; ok && docFile(d, fmt.Sprintf("DG%d", n)) == nil {
					k.Violation("fault:file-silently-missing-after-protected-fault", fmt.Sprintf("DG%d is stored and listed but missing, and the read ended without an error although a protected exchange was altered (%s)", n, label), det(""))
					return injected > 0
				}
			}
		}
	}
	sum := docEx.Summary()
	if sum.DataTrusted {
		// all returned files are genuine (checked above); trust additionally needs SOD and DG1
		if docFile(d, "SOD") == nil || docFile(d, "DG1") == nil {
			k.Violation("fault:trusted-without-files", "data marked trusted although SOD or DG1 was not obtained", det(""))
			return injected > 0
		}
		k.Count("trusted_after_fault_with_genuine_files")
	}
	if sum.ChipAuthenticity != document.CHIP_AUTH_STATUS_NONE {
		k.Count("chip_authentic_after_fault")
	}
	return injected > 0
}

func runC11(c *fw.Ctx) {
	if err := ecref.SelfTest(); err != nil {
		fw.Bug("ecref self-test: %v", err)
	}
	_ = chipsim.FidCOM
	nconf := c.Pick(6, 18)
	// clean runs (also establishes, per worker, that the configuration reads cleanly)
	c.Cases(nconf, func(ci int) string { return fmt.Sprintf("clean|config=%d", ci) }, func(ci int, k *fw.K) {
		k.Nontrivial("")
		c11Run(k, ci, nil, false, "clean")
		k.Count("clean_runs")
	})
	// exhaustive single faults
	type single struct{ ci, k, kind int }
	var singles []single
	for ci := 0; ci < nconf; ci++ {
		for kk := 0; kk < c11MaxK; kk++ {
			for kind := range c11Kinds {
				singles = append(singles, single{ci, kk, kind})
			}
		}
	}
	c.Cases(len(singles), func(i int) string {
		s := singles[i]
		return fmt.Sprintf("single|config=%d k=%d kind=%s", s.ci, s.k, c11Kinds[s.kind])
	}, func(i int, k *fw.K) {
		s := singles[i]
		label := fmt.Sprintf("k=%d %s", s.k, c11Kinds[s.kind])
		if c11Run(k, s.ci, map[int]string{s.k: c11Kinds[s.kind]}, false, label) {
			k.Nontrivial("")
			k.Count("single_faults_injected")
		} else {
			k.Count("single_fault_index_beyond_end_of_session")
		}
	})
	// random multi-fault sequences
	nm := c.Pick(500, 40000)
	c.Cases(nm, func(i int) string { return fmt.Sprintf("multi|i=%d", i) }, func(i int, k *fw.K) {
		r := k.RNG
		ci := r.IntN(nconf)
		faults := map[int]string{}
		nf := 2 + r.IntN(4)
		for j := 0; j < nf; j++ {
			faults[r.IntN(50)] = c11Kinds[r.IntN(len(c11Kinds))]
		}
		if c11Run(k, ci, faults, false, "multi") {
			k.Nontrivial(fmt.Sprintf("multi|%d|%v", ci, faults))
			k.Count("multi_fault_runs")
		}
	})
	// mobile bindings slice
	nmo := c.Pick(60, 2400)
	c.Cases(nmo, func(i int) string { return fmt.Sprintf("mobile|i=%d", i) }, func(i int, k *fw.K) {
		r := k.RNG
		ci := r.IntN(nconf)
		faults := map[int]string{r.IntN(45): c11Kinds[r.IntN(len(c11Kinds))]}
		if i%10 == 0 {
			faults = nil
		}
		if c11Run(k, ci, faults, true, "mobile") || faults == nil {
			k.Nontrivial(fmt.Sprintf("mobile|%d|%v", ci, faults))
			k.Count("mobile_runs")
		}
	})
}
