package checks

import (
	"bytes"
	"crypto/sha256"
	"encoding/asn1"
	"encoding/json"
	"fmt"
	mrand "math/rand/v2"
	"reflect"
	"sort"
	"strings"

	"github.com/gmrtd/gmrtd/document"

	"verifharness/fw"
	"verifharness/ldsgen"
	"verifharness/perso"
	"verifharness/symref"
)

// C15 - document serialisation round-trips and detects corruption.
//
// Round trip: a Document built from generated well-formed files through the library's own
// constructors (any subset of the 14 file types) plus any subset of the three evidence
// structs is exported and imported again; file set, bytes, JSON view and evidence values
// must be the same.
// Corruption: every single-byte substitution / truncation / extension of an exported blob
// either fails to import or imports to the original content.
// Envelope: foreign magic or newer version with a VALID checksum (envelopes rebuilt by the
// harness's own 60-line CBOR writer, which does not use the library's CBOR package) is
// rejected at each of the three nesting levels.

func init() {
	register(&fw.Spec{
		ID:    "C15",
		Level: "exploration",
		Rule: "roundtrip case = one document over a presence pattern of the 14 file types (thorough: all 2^14 patterns on small files; quick: 600 sampled patterns incl. all single-file and all-but-one patterns; some with DG2/DG7 up to 64 KiB) x one of the 8 evidence subsets (synthetic field values: plausible sizes, nil / empty / one-byte / leading-zero / 512-byte edge values, arbitrary OIDs), exported with DocumentEx.ToCbor, Document.ToCbor and Session.ChipAuthEvidenceToCbor and imported again; live case = a genuine simulated read (CA / PACE-CAM / AA) exported and imported; " +
			"session-state case = one of the 10^3 combinations of the state of PACE-CAM x CA x AA in the session (nothing recorded | only an error | result with evidence present/absent x recorded step error present/absent x Success true/false; error values of 8 kinds) with the steps that carry no evidence (chip activation, BAC, PACE, passive authentication, Document.Verify results and errors) drawn at random, on an empty / small document (thorough: 6 repetitions with other values and documents); live-failed case = a simulated read against a chip that deviates in one step (AA signed with another key / over another challenge / not answered, CA refused / with foreign session keys, untrusted issuer, wrong password; 10 modes) so that the reader itself records evidence next to an error; oracle for both: every evidence struct present before the export is present and field-for-field equal after the import, absent ones stay absent, whatever the other session fields say (only evidence is required to round-trip: the format carries neither Success flags nor errors); " +
			"corruption case = one exported blob at one level (outer / document / evidence): every byte position x all 255 substitutions when the blob is <= 640 bytes, otherwise every structural byte (map heads, keys, value heads, checksums, region borders) plus a stride through the contents x all 255 substitutions; truncation at every length; extension by 1..16 zero / FF / random bytes and by a second CBOR item; " +
			"envelope case = magic and version rewritten with a valid checksum at each nesting level, directly and nested in valid outer envelopes; " +
			"non-trivial = every import attempt; distinct = distinct (document, evidence) for round trips, distinct (blob, level, kind, position) for mutations",
		MinEvaluations: 500000,
		// Watchdog only (a hang is a verdict for C11/C12, for C15 it means "broken harness").
		// Was 600. Two thorough runs at seed 1 on a machine at load average ~500 (16 cores) ended
		// with HANG on corrupt|blob=23 level=outer (#17173) and corrupt|blob=123 level=outer
		// (#17473): 64 KiB-class blobs that take about one minute of CPU each when replayed
		// alone (no violation). The limit is a wall-clock guard and says nothing about the
		// library, so it is raised rather than the workload cut.
		HangSeconds: 3600,
		Assumptions: []string{
			"the files of one generated document need not be mutually consistent (the SOD does not have to list the data groups present): serialisation treats every file on its own",
			"an evidence field that is empty but not nil may come back as nil (CBOR omitempty / null cannot tell them apart): counted, not flagged",
			"EF.DIR content is a hand-written application template list (61 { 4F aid, 50 label })",
			"version 0 (older than any release) for the document envelopes and version 1 for evidence are only observed; the property demands rejection of a foreign magic and of a newer version",
			"a file rejected by its constructor is left out of the document (parsing of well-formed files belongs to C19)",
			"of a session only the three evidence structs must survive export and import; Success flags, recorded errors and the results of BAC / PACE / passive authentication are not part of the format and are not compared",
		},
		Run: runC15,
	})
}

// ---------------------------------------------------------------------------------------
// a minimal CBOR writer / reader of the harness's own (definite lengths only)

func c15Head(major byte, n uint64) []byte {
	m := major << 5
	switch {
	case n < 24:
		return []byte{m | byte(n)}
	case n < 1<<8:
		return []byte{m | 24, byte(n)}
	case n < 1<<16:
		return []byte{m | 25, byte(n >> 8), byte(n)}
	case n < 1<<32:
		return []byte{m | 26, byte(n >> 24), byte(n >> 16), byte(n >> 8), byte(n)}
	}
	return []byte{m | 27, byte(n >> 56), byte(n >> 48), byte(n >> 40), byte(n >> 32), byte(n >> 24), byte(n >> 16), byte(n >> 8), byte(n)}
}

func c15Text(s string) []byte   { return append(c15Head(3, uint64(len(s))), s...) }
func c15Bstr(b []byte) []byte   { return append(c15Head(2, uint64(len(b))), b...) }
func c15Uint(v uint64) []byte   { return c15Head(0, v) }
func c15Cat(p ...[]byte) []byte { return bytes.Join(p, nil) }

// the envelope {magic, version, sha256, payload} with a checksum that matches the payload
func c15Envelope(magic string, version uint64, payload []byte) []byte {
	sum := sha256.Sum256(payload)
	return c15Cat(c15Head(5, 4),
		c15Text("magic"), c15Text(magic),
		c15Text("version"), c15Uint(version),
		c15Text("sha256"), c15Bstr(sum[:]),
		c15Text("payload"), c15Bstr(payload))
}

func c15RawEx(docBlob, evBlob []byte) []byte {
	return c15Cat(c15Head(5, 2), c15Text("document"), c15Bstr(docBlob), c15Text("chipAuthEvidence"), c15Bstr(evBlob))
}

// readHead decodes one item head at p: major type, argument, offset after the head.
func c15ReadHead(b []byte, p int) (major byte, arg uint64, next int, ok bool) {
	if p >= len(b) {
		return 0, 0, 0, false
	}
	major, ai := b[p]>>5, b[p]&0x1f
	p++
	switch {
	case ai < 24:
		return major, uint64(ai), p, true
	case ai <= 27:
		n := 1 << (ai - 24)
		if p+n > len(b) {
			return 0, 0, 0, false
		}
		for i := 0; i < n; i++ {
			arg = arg<<8 | uint64(b[p+i])
		}
		return major, arg, p + n, true
	}
	return 0, 0, 0, false // indefinite / reserved: not produced by the exporter
}

// skip returns the offset after the complete item at p.
func c15Skip(b []byte, p int, depth int) (int, bool) {
	if depth > 16 {
		return 0, false
	}
	major, arg, next, ok := c15ReadHead(b, p)
	if !ok {
		return 0, false
	}
	switch major {
	case 0, 1, 7:
		return next, true
	case 2, 3:
		if arg > uint64(len(b)-next) {
			return 0, false
		}
		return next + int(arg), true
	case 4, 5:
		n := arg
		if major == 5 {
			n *= 2
		}
		if n > uint64(len(b)) {
			return 0, false
		}
		for i := uint64(0); i < n; i++ {
			if next, ok = c15Skip(b, next, depth+1); !ok {
				return 0, false
			}
		}
		return next, true
	case 6:
		return c15Skip(b, next, depth+1)
	}
	return 0, false
}

type c15Field struct {
	key     string
	keyOff  int // offset of the key item
	valOff  int // offset of the value item (its head)
	valBody int // offset of the value's content (after the head) for strings
	valEnd  int
	major   byte
	arg     uint64
}

// c15Map reads a definite-length map with text keys occupying exactly b.
func c15Map(b []byte) (headLen int, fields []c15Field, ok bool) {
	major, n, p, ok := c15ReadHead(b, 0)
	if !ok || major != 5 || n > 64 {
		return 0, nil, false
	}
	headLen = p
	for i := uint64(0); i < n; i++ {
		km, kl, kn, ok := c15ReadHead(b, p)
		if !ok || km != 3 || kl > uint64(len(b)-kn) {
			return 0, nil, false
		}
		f := c15Field{key: string(b[kn : kn+int(kl)]), keyOff: p}
		p = kn + int(kl)
		vm, va, vn, ok := c15ReadHead(b, p)
		if !ok {
			return 0, nil, false
		}
		end, ok := c15Skip(b, p, 0)
		if !ok {
			return 0, nil, false
		}
		f.valOff, f.valBody, f.valEnd, f.major, f.arg = p, vn, end, vm, va
		fields = append(fields, f)
		p = end
	}
	if p != len(b) {
		return 0, nil, false
	}
	return headLen, fields, true
}

type c15Env struct {
	magic   string
	version uint64
	sum     []byte
	payload []byte
}

func c15ParseEnv(b []byte) (*c15Env, bool) {
	_, fs, ok := c15Map(b)
	if !ok || len(fs) != 4 {
		return nil, false
	}
	e := &c15Env{}
	seen := 0
	for _, f := range fs {
		switch {
		case f.key == "magic" && f.major == 3:
			e.magic = string(b[f.valBody:f.valEnd])
			seen |= 1
		case f.key == "version" && f.major == 0:
			e.version = f.arg
			seen |= 2
		case f.key == "sha256" && f.major == 2:
			e.sum = b[f.valBody:f.valEnd]
			seen |= 4
		case f.key == "payload" && f.major == 2:
			e.payload = b[f.valBody:f.valEnd]
			seen |= 8
		}
	}
	return e, seen == 15
}

// c15Regions labels every byte of an exported blob with its structural role, descending
// into byte strings that hold a nested CBOR map (payload, document, chipAuthEvidence).
func c15Regions(b []byte) []string {
	lab := make([]string, len(b))
	for i := range lab {
		lab[i] = "unparsed"
	}
	var walk func(base int, data []byte, prefix string, depth int)
	walk = func(base int, data []byte, prefix string, depth int) {
		hl, fs, ok := c15Map(data)
		if !ok {
			return
		}
		set := func(from, to int, l string) {
			for i := from; i < to; i++ {
				lab[base+i] = prefix + l
			}
		}
		set(0, hl, "map-head")
		for _, f := range fs {
			set(f.keyOff, f.valOff, "key:"+f.key)
			switch f.major {
			case 2, 3:
				set(f.valOff, f.valBody, "head:"+f.key)
				set(f.valBody, f.valEnd, "val:"+f.key)
				if f.major == 2 && depth < 4 && f.valEnd > f.valBody && data[f.valBody]>>5 == 5 {
					walk(base+f.valBody, data[f.valBody:f.valEnd], prefix+f.key+"/", depth+1)
				}
			case 5:
				set(f.valOff, f.valEnd, "val:"+f.key)
				walk(base+f.valOff, data[f.valOff:f.valEnd], prefix+f.key+"/", depth+1)
			default:
				set(f.valOff, f.valEnd, "val:"+f.key)
			}
		}
	}
	walk(0, b, "", 0)
	return lab
}

// ---------------------------------------------------------------------------------------
// documents

var c15Names = []string{"CardAccess", "CardSecurity", "DIR", "COM", "SOD", "DG1", "DG2", "DG7", "DG11", "DG12", "DG13", "DG14", "DG15", "DG16"}

type c15File struct {
	name string
	raw  []byte
	obj  any // the parsed struct (pointer), nil when absent
}

// c15View lists the files a Document holds.
func c15View(d *document.Document) []c15File {
	out := make([]c15File, 0, 14)
	add := func(name string, present bool, raw []byte, obj any) {
		if present {
			out = append(out, c15File{name, raw, obj})
		}
	}
	mf, l := &d.Mf, &d.Mf.Lds1
	if mf.CardAccess != nil {
		add("CardAccess", true, mf.CardAccess.RawData, mf.CardAccess)
	}
	if mf.CardSecurity != nil {
		add("CardSecurity", true, mf.CardSecurity.RawData, mf.CardSecurity)
	}
	if mf.Dir != nil {
		add("DIR", true, mf.Dir.RawData, mf.Dir)
	}
	if l.Com != nil {
		add("COM", true, l.Com.RawData, l.Com)
	}
	if l.Sod != nil {
		add("SOD", true, l.Sod.RawData, l.Sod)
	}
	if l.Dg1 != nil {
		add("DG1", true, l.Dg1.RawData, l.Dg1)
	}
	if l.Dg2 != nil {
		add("DG2", true, l.Dg2.RawData, l.Dg2)
	}
	if l.Dg7 != nil {
		add("DG7", true, l.Dg7.RawData, l.Dg7)
	}
	if l.Dg11 != nil {
		add("DG11", true, l.Dg11.RawData, l.Dg11)
	}
	if l.Dg12 != nil {
		add("DG12", true, l.Dg12.RawData, l.Dg12)
	}
	if l.Dg13 != nil {
		add("DG13", true, l.Dg13.RawData, l.Dg13)
	}
	if l.Dg14 != nil {
		add("DG14", true, l.Dg14.RawData, l.Dg14)
	}
	if l.Dg15 != nil {
		add("DG15", true, l.Dg15.RawData, l.Dg15)
	}
	if l.Dg16 != nil {
		add("DG16", true, l.Dg16.RawData, l.Dg16)
	}
	return out
}

// c15SetFile parses b with the library constructor of the file type and installs it.
func c15SetFile(d *document.Document, name string, b []byte) (err error) {
	mf, l := &d.Mf, &d.Mf.Lds1
	switch name {
	case "CardAccess":
		mf.CardAccess, err = document.NewCardAccess(b)
	case "CardSecurity":
		mf.CardSecurity, err = document.NewCardSecurity(b)
	case "DIR":
		mf.Dir, err = document.NewEFDIR(b)
	case "COM":
		l.Com, err = document.NewCOM(b)
	case "SOD":
		l.Sod, err = document.NewSOD(b)
	default:
		var n int
		fmt.Sscanf(name, "DG%d", &n)
		err = d.NewDG(n, b)
	}
	return err
}

// c15Pool: files that need an issuer (security objects, key files), made once per run.
type c15Pool struct {
	files map[string][][]byte
}

func c15Accepts(name string, b []byte) (ok bool) {
	defer func() {
		if recover() != nil {
			ok = false
		}
	}()
	var d document.Document
	if err := c15SetFile(&d, name, b); err != nil {
		return false
	}
	return len(c15View(&d)) == 1
}

func c15BuildPool(c *fw.Ctx) *c15Pool {
	r := c.PlanRNG("c15-pool")
	pool := &c15Pool{files: map[string][][]byte{}}
	dropped := 0
	add := func(name string, b []byte) {
		if len(b) == 0 {
			return
		}
		if !c15Accepts(name, b) {
			dropped++
			return
		}
		pool.files[name] = append(pool.files[name], b)
	}
	n := c.Pick(6, 10)
	for i := 0; i < n; i++ {
		pp := randPlan(r, false)
		o := &pp.o
		o.DGs, o.Unsupported, o.DG2Size = nil, nil, 0
		if i%2 == 0 {
			o.Access, o.ParamID = perso.PACECAM, 8+r.IntN(11)
			if o.Suite == symref.TDES {
				o.Suite = symref.AllSuites[1+r.IntN(3)]
			}
		} else if o.Access == perso.BACOnly {
			o.Access = perso.PACEGMOnly
		}
		if i%3 == 0 {
			o.AA = perso.AAOpts{Kind: 1, Bits: []int{1024, 1536, 2048}[r.IntN(3)]}
		} else {
			o.AA = perso.AAOpts{Kind: 2, Curve: r.IntN(11), DER: r.IntN(2) == 0}
		}
		o.CA = perso.CAOpts{On: true, Curve: r.IntN(11), Suite: symref.AllSuites[r.IntN(4)], Form: i % 3, Arrange: i % 3}
		p := perso.Build(r, *o)
		add("CardAccess", chipFile(p, "CardAccess"))
		add("CardSecurity", chipFile(p, "CardSecurity"))
		add("SOD", chipFile(p, "SOD"))
		add("DG14", chipFile(p, "DG14"))
		add("DG15", chipFile(p, "DG15"))
	}
	// some more small CardAccess / DG14 variants straight from the generator
	for i := 0; i < 4; i++ {
		id := int64(8 + r.IntN(11))
		infos := []ldsgen.SecInfo{ldsgen.NewPACEInfo(ldsgen.PACEOID(2, 1+r.IntN(4)), 2, &id)}
		if i%2 == 1 {
			id2 := int64(8 + r.IntN(11))
			infos = append(infos, ldsgen.NewPACEInfo(ldsgen.PACEOID(4, 2+r.IntN(3)), 2, &id2))
		}
		ca, _ := ldsgen.NewCardAccess(true, infos...)
		add("CardAccess", ca)
		d14, _ := ldsgen.NewDG14(true, ldsgen.NewTerminalAuthInfo(1+i%2), ldsgen.NewChipAuthInfo(ldsgen.CAOID(2, 1+r.IntN(4)), 1, nil))
		add("DG14", d14)
	}
	for _, name := range []string{"CardAccess", "CardSecurity", "SOD", "DG14", "DG15"} {
		if len(pool.files[name]) == 0 {
			fw.Bug("C15 pool: the library accepts none of the generated %s files", name)
		}
		// smallest first: the thorough sweep of all patterns uses the small ones
		fs := pool.files[name]
		sort.SliceStable(fs, func(i, j int) bool { return len(fs[i]) < len(fs[j]) })
	}
	c.Note("c15_pool_files_rejected_by_constructor", fmt.Sprint(dropped))
	return pool
}

func c15DIR(r *mrand.Rand) []byte {
	aids := [][]byte{{0xA0, 0x00, 0x00, 0x02, 0x47, 0x10, 0x01}, {0xA0, 0x00, 0x00, 0x02, 0x47, 0x20, 0x01}, {0xA0, 0x00, 0x00, 0x02, 0x47, 0x20, 0x02}, {0xA0, 0x00, 0x00, 0x02, 0x47, 0x20, 0x03}}
	var out []byte
	n := 1 + r.IntN(3)
	for i := 0; i < n; i++ {
		parts := [][]byte{ldsgen.TLV(0x4F, aids[r.IntN(len(aids))])}
		if r.IntN(2) == 0 {
			parts = append(parts, ldsgen.TLV(0x50, []byte("eMRTD")[:1+r.IntN(5)]))
		}
		out = append(out, ldsgen.TLV(0x61, parts...)...)
	}
	return out
}

// mode 0: small files; 1: generator defaults; 2: defaults with a large DG2 / DG7
func c15GenFile(r *mrand.Rand, pool *c15Pool, name string, mode int) []byte {
	small := mode == 0
	switch name {
	case "CardAccess", "CardSecurity", "SOD", "DG14", "DG15":
		fs := pool.files[name]
		if small {
			return fs[r.IntN(min(2, len(fs)))]
		}
		return fs[r.IntN(len(fs))]
	case "DIR":
		return c15DIR(r)
	case "COM":
		b, _ := ldsgen.RandCOM(r)
		return b
	case "DG1":
		b, _ := ldsgen.NewDG1(r, ldsgen.DG1Opts{})
		return b
	case "DG2":
		o := ldsgen.DG2Opts{}
		if small {
			o = ldsgen.DG2Opts{Templates: 1, ImagesPerTemplate: 1, ImageBytes: 24}
		} else if mode == 2 {
			o = ldsgen.DG2Opts{Templates: 1, ImagesPerTemplate: 1, ImageBytes: []int{4000, 16000, 32700, 50000, 65000, 65400}[r.IntN(6)]}
		}
		o.Encoding = ldsgen.BioEncoding(r.IntN(2))
		b, _ := ldsgen.NewDG2(r, o)
		return b
	case "DG7":
		o := ldsgen.DG7Opts{}
		if small {
			o = ldsgen.DG7Opts{Images: 1, ImageBytes: 24}
		} else if mode == 2 && r.IntN(2) == 0 {
			o = ldsgen.DG7Opts{Images: 1, ImageBytes: 2000 + r.IntN(30000)}
		}
		b, _ := ldsgen.NewDG7(r, o)
		return b
	case "DG11":
		o := ldsgen.DG11Opts{}
		if small {
			o.Tags = []uint32{ldsgen.DG11Tags[r.IntN(len(ldsgen.DG11Tags))]}
			if o.Tags[0] == 0x5F0F {
				o.OtherNames = 1
			}
			o.ImageBytes = 24
		}
		b, _ := ldsgen.NewDG11(r, o)
		return b
	case "DG12":
		o := ldsgen.DG12Opts{}
		if small {
			o.Tags = []uint32{ldsgen.DG12Tags[r.IntN(len(ldsgen.DG12Tags))]}
			if o.Tags[0] == 0x5F1A {
				o.OtherPersons = 1
			}
			o.ImageBytes = 24
		}
		b, _ := ldsgen.NewDG12(r, o)
		return b
	case "DG13":
		m := 200
		if small {
			m = 12
		}
		b, _ := ldsgen.RandDG13(r, m)
		return b
	case "DG16":
		o := ldsgen.DG16Opts{}
		if small {
			o.Persons = 1
		}
		b, _ := ldsgen.NewDG16(r, o)
		return b
	}
	fw.Bug("c15GenFile: %s", name)
	return nil
}

type c15Doc struct {
	doc     *document.Document
	pattern int
	names   []string
	total   int
}

func c15BuildDoc(k *fw.K, r *mrand.Rand, pool *c15Pool, pattern int, mode int) *c15Doc {
	d := &c15Doc{doc: &document.Document{}, pattern: pattern}
	for bit, name := range c15Names {
		if pattern&(1<<bit) == 0 {
			continue
		}
		b := c15GenFile(r, pool, name, mode)
		if err := c15SetFile(d.doc, name, b); err != nil {
			k.Count("constructor_rejected_generated_" + name)
			continue
		}
		d.names = append(d.names, name)
		d.total += len(b)
	}
	return d
}

// ---------------------------------------------------------------------------------------
// evidence

func c15OID(r *mrand.Rand, style int) asn1.ObjectIdentifier {
	switch r.IntN(6) {
	case 0:
		return asn1.ObjectIdentifier{0, 4, 0, 127, 0, 7, 2, 2, 4, 6, 2 + r.IntN(3)}
	case 1:
		return asn1.ObjectIdentifier{1, 2, 840, 113549, 1, 1, 1}
	case 2:
		return asn1.ObjectIdentifier{1, 2, 840, 10045, 2, 1}
	case 3:
		if style == 1 {
			if r.IntN(2) == 0 {
				return nil
			}
			return asn1.ObjectIdentifier{}
		}
	}
	n := 2 + r.IntN(12)
	o := make(asn1.ObjectIdentifier, n)
	o[0], o[1] = r.IntN(3), r.IntN(40)
	for i := 2; i < n; i++ {
		switch r.IntN(4) {
		case 0:
			o[i] = r.IntN(24)
		case 1:
			o[i] = r.IntN(70000)
		case 2:
			o[i] = int(r.Uint64() >> 1 >> uint(r.IntN(40)))
		default:
			o[i] = r.IntN(300)
		}
	}
	return o
}

// style 0: plausible sizes; 1: edge values; 2: large; 3: tiny (keeps blobs small)
func c15Bytes(r *mrand.Rand, style int, plausible []int) []byte {
	switch style {
	case 1:
		switch r.IntN(8) {
		case 0:
			return nil
		case 1:
			return []byte{}
		case 2:
			return []byte{0}
		case 3:
			return []byte{byte(r.Uint32())}
		case 4:
			b := randBytes(r, 32)
			b[0], b[1] = 0, 0
			return b
		case 5:
			return bytes.Repeat([]byte{0xff}, 23+r.IntN(4)) // around the 1-byte length boundary
		case 6:
			return randBytes(r, 255+r.IntN(3))
		}
	case 2:
		return randBytes(r, 256+r.IntN(400))
	case 3:
		return randBytes(r, 1+r.IntN(6))
	}
	return randBytes(r, plausible[r.IntN(len(plausible))])
}

var (
	c15ScalarSizes = []int{20, 24, 28, 32, 40, 48, 64, 66}
	c15PointSizes  = []int{41, 49, 57, 65, 81, 97, 129, 133}
)

func c15Evidence(r *mrand.Rand, subset int, style int) document.Session {
	var s document.Session
	if subset&1 != 0 {
		e := &document.PaceCamEvidence{
			PaceOid:     c15OID(r, style),
			ParameterId: 8 + r.IntN(11),
			Nonce:       c15Bytes(r, style, []int{16, 24, 32}),
			TermMapPri:  c15Bytes(r, style, c15ScalarSizes),
			TermMapPub:  c15Bytes(r, style, c15PointSizes),
			ChipMapPub:  c15Bytes(r, style, c15PointSizes),
			TermKaPri:   c15Bytes(r, style, c15ScalarSizes),
			TermKaPub:   c15Bytes(r, style, c15PointSizes),
			ChipKaPub:   c15Bytes(r, style, c15PointSizes),
			EcadIC:      c15Bytes(r, style, []int{32, 48, 64, 80}),
		}
		if style == 1 {
			e.ParameterId = []int{0, -1, 23, 24, 255, 256, 65536, -25, 1 << 40, -(1 << 40)}[r.IntN(10)]
		}
		s.PaceCamResult = &document.PaceCamResult{Success: r.IntN(4) != 0, Evidence: e}
	}
	if subset&2 != 0 {
		e := &document.ChipAuthEvidence{
			TermPri:    c15Bytes(r, style, c15ScalarSizes),
			TermPubKey: c15Bytes(r, style, c15PointSizes),
			SmRapdu:    c15Bytes(r, style, []int{14, 18, 30, 46}),
			SmSsc:      c15Bytes(r, style, []int{8, 16}),
		}
		s.ChipAuthResult = &document.ChipAuthResult{Success: r.IntN(4) != 0, Evidence: e}
	}
	if subset&4 != 0 {
		e := &document.ActiveAuthEvidence{
			Algorithm: c15OID(r, style),
			Nonce:     c15Bytes(r, style, []int{8}),
			Signature: c15Bytes(r, style, []int{56, 64, 96, 128, 132, 192, 256}),
		}
		s.ActiveAuthResult = &document.ActiveAuthResult{Success: r.IntN(4) != 0, Evidence: e}
	}
	// results without evidence and unrelated session state must not matter
	if subset&1 == 0 && r.IntN(4) == 0 {
		s.PaceCamResult = &document.PaceCamResult{Success: true}
	}
	if subset&2 == 0 && r.IntN(4) == 0 {
		s.ChipAuthResult = &document.ChipAuthResult{Success: true}
	}
	if subset&4 == 0 && r.IntN(4) == 0 {
		s.ActiveAuthResult = &document.ActiveAuthResult{Success: false}
	}
	if r.IntN(3) == 0 {
		s.BacResult = &document.BacResult{Success: true}
		s.PaceResult = &document.PaceResult{Success: true, Oid: c15OID(r, 0), ParameterId: 13}
	}
	return s
}

func c15Want(s *document.Session) *document.ChipAuthEvidenceBundle {
	w := &document.ChipAuthEvidenceBundle{}
	if s.PaceCamResult != nil {
		w.PaceCam = s.PaceCamResult.Evidence
	}
	if s.ChipAuthResult != nil {
		w.ChipAuth = s.ChipAuthResult.Evidence
	}
	if s.ActiveAuthResult != nil {
		w.ActiveAuth = s.ActiveAuthResult.Evidence
	}
	return w
}

func c15Subset(w *document.ChipAuthEvidenceBundle) int {
	n := 0
	if w.PaceCam != nil {
		n |= 1
	}
	if w.ChipAuth != nil {
		n |= 2
	}
	if w.ActiveAuth != nil {
		n |= 4
	}
	return n
}

// deep copy so that later changes by anybody cannot alter the reference values
func c15CloneBundle(w *document.ChipAuthEvidenceBundle) *document.ChipAuthEvidenceBundle {
	cp := func(b []byte) []byte {
		if b == nil {
			return nil
		}
		return append([]byte{}, b...)
	}
	co := func(o asn1.ObjectIdentifier) asn1.ObjectIdentifier {
		if o == nil {
			return nil
		}
		return append(asn1.ObjectIdentifier{}, o...)
	}
	out := &document.ChipAuthEvidenceBundle{}
	if e := w.PaceCam; e != nil {
		out.PaceCam = &document.PaceCamEvidence{PaceOid: co(e.PaceOid), ParameterId: e.ParameterId, Nonce: cp(e.Nonce), TermMapPri: cp(e.TermMapPri), TermMapPub: cp(e.TermMapPub),
			ChipMapPub: cp(e.ChipMapPub), TermKaPri: cp(e.TermKaPri), TermKaPub: cp(e.TermKaPub), ChipKaPub: cp(e.ChipKaPub), EcadIC: cp(e.EcadIC)}
	}
	if e := w.ChipAuth; e != nil {
		out.ChipAuth = &document.ChipAuthEvidence{TermPri: cp(e.TermPri), TermPubKey: cp(e.TermPubKey), SmRapdu: cp(e.SmRapdu), SmSsc: cp(e.SmSsc)}
	}
	if e := w.ActiveAuth; e != nil {
		out.ActiveAuth = &document.ActiveAuthEvidence{Algorithm: co(e.Algorithm), Nonce: cp(e.Nonce), Signature: cp(e.Signature)}
	}
	return out
}

// c15CmpEvidence returns the first differing field ("" when equal). nil and empty values
// are the same value; nilLost counts empty-but-present values that came back nil.
func c15CmpEvidence(want, got *document.ChipAuthEvidenceBundle) (field string, nilLost int) {
	if got == nil {
		return "bundle-nil", 0
	}
	bs := func(name string, a, b []byte) {
		if field == "" && !bytes.Equal(a, b) {
			field = name
		}
		if len(a) == 0 && (a == nil) != (b == nil) {
			nilLost++
		}
	}
	oid := func(name string, a, b asn1.ObjectIdentifier) {
		if field == "" && !(len(a) == 0 && len(b) == 0) && !a.Equal(b) {
			field = name
		}
	}
	if (want.PaceCam != nil) != (got.PaceCam != nil) {
		return "PaceCam.presence", 0
	}
	if (want.ChipAuth != nil) != (got.ChipAuth != nil) {
		return "ChipAuth.presence", 0
	}
	if (want.ActiveAuth != nil) != (got.ActiveAuth != nil) {
		return "ActiveAuth.presence", 0
	}
	if w, g := want.PaceCam, got.PaceCam; w != nil {
		oid("PaceCam.PaceOid", w.PaceOid, g.PaceOid)
		if field == "" && w.ParameterId != g.ParameterId {
			field = "PaceCam.ParameterId"
		}
		bs("PaceCam.Nonce", w.Nonce, g.Nonce)
		bs("PaceCam.TermMapPri", w.TermMapPri, g.TermMapPri)
		bs("PaceCam.TermMapPub", w.TermMapPub, g.TermMapPub)
		bs("PaceCam.ChipMapPub", w.ChipMapPub, g.ChipMapPub)
		bs("PaceCam.TermKaPri", w.TermKaPri, g.TermKaPri)
		bs("PaceCam.TermKaPub", w.TermKaPub, g.TermKaPub)
		bs("PaceCam.ChipKaPub", w.ChipKaPub, g.ChipKaPub)
		bs("PaceCam.EcadIC", w.EcadIC, g.EcadIC)
	}
	if w, g := want.ChipAuth, got.ChipAuth; w != nil {
		bs("ChipAuth.TermPri", w.TermPri, g.TermPri)
		bs("ChipAuth.TermPubKey", w.TermPubKey, g.TermPubKey)
		bs("ChipAuth.SmRapdu", w.SmRapdu, g.SmRapdu)
		bs("ChipAuth.SmSsc", w.SmSsc, g.SmSsc)
	}
	if w, g := want.ActiveAuth, got.ActiveAuth; w != nil {
		oid("ActiveAuth.Algorithm", w.Algorithm, g.Algorithm)
		bs("ActiveAuth.Nonce", w.Nonce, g.Nonce)
		bs("ActiveAuth.Signature", w.Signature, g.Signature)
	}
	return field, nilLost
}

// c15CmpFiles compares file set and bytes; returns "" or "<what>:<name>".
func c15CmpFiles(want []c15File, got *document.Document) string {
	if got == nil {
		return "document-nil:-"
	}
	gv := c15View(got)
	gm := map[string][]byte{}
	for _, f := range gv {
		gm[f.name] = f.raw
	}
	for _, f := range want {
		g, ok := gm[f.name]
		if !ok {
			return "file-missing:" + f.name
		}
		if !bytes.Equal(g, f.raw) {
			return "file-differs:" + f.name
		}
		delete(gm, f.name)
	}
	for _, name := range c15Names {
		if _, ok := gm[name]; ok {
			return "file-added:" + name
		}
	}
	return ""
}

func c15Hex(b []byte) string {
	if len(b) > 48 {
		return fmt.Sprintf("%x..%x (%d bytes)", b[:32], b[len(b)-8:], len(b))
	}
	return fmt.Sprintf("%x", b)
}

// ---------------------------------------------------------------------------------------
// round trip

type c15Blobs struct {
	outer, doc, ev []byte
	files          []c15File
	want           *document.ChipAuthEvidenceBundle
}

func c15JSON(v any) (s string, err error) {
	b, err := json.Marshal(v)
	return string(b), err
}

// c15RoundTrip exports docEx at the three levels, imports again and judges. nil: a
// violation was recorded that makes the blobs useless for further steps.
func c15RoundTrip(k *fw.K, docEx *document.DocumentEx, label string) *c15Blobs {
	files := c15View(&docEx.Document)
	// own copies of the reference bytes
	for i := range files {
		files[i].raw = append([]byte{}, files[i].raw...)
	}
	want := c15CloneBundle(c15Want(&docEx.Session))
	det := func(extra map[string]any) map[string]any {
		names := []string{}
		for _, f := range files {
			names = append(names, fmt.Sprintf("%s(%d)", f.name, len(f.raw)))
		}
		m := map[string]any{"document": label, "files": strings.Join(names, " "), "evidence_subset": c15Subset(want)}
		for kk, v := range extra {
			m[kk] = v
		}
		return m
	}
	out := &c15Blobs{files: files, want: want}
	var err error
	if out.outer, err = docEx.ToCbor(); err != nil {
		k.Violation("cbor:export-failed:level=outer", fmt.Sprintf("DocumentEx.ToCbor failed: %v", err), det(nil))
		return nil
	}
	if out.doc, err = docEx.Document.ToCbor(); err != nil {
		k.Violation("cbor:export-failed:level=document", fmt.Sprintf("Document.ToCbor failed: %v", err), det(nil))
		return nil
	}
	if out.ev, err = docEx.Session.ChipAuthEvidenceToCbor(); err != nil {
		k.Violation("cbor:export-failed:level=evidence", fmt.Sprintf("ChipAuthEvidenceToCbor failed: %v", err), det(nil))
		return nil
	}
	k.AddEvals(3)
	// determinism (observed only)
	if again, err := docEx.ToCbor(); err == nil && bytes.Equal(again, out.outer) {
		k.Count("export_twice_identical")
	} else {
		k.Count("export_twice_DIFFERENT")
	}
	// a blob belongs to the caller: exporting OTHER documents afterwards (an empty one, and
	// this document without its first file) must leave the bytes handed out untouched
	snapOuter, snapDoc, snapEv := append([]byte{}, out.outer...), append([]byte{}, out.doc...), append([]byte{}, out.ev...)
	{
		var empty document.Document
		_, _ = empty.ToCbor()
		_, _ = (&document.DocumentEx{}).ToCbor()
		_, _ = (&document.Session{}).ChipAuthEvidenceToCbor()
		if len(files) > 0 {
			if b, err := docEx.Document.ToCbor(); err == nil {
				if less, err := document.NewDocumentFromCbor(b); err == nil && less != nil {
					if c15SetFile(less, files[0].name, nil) == nil {
						_, _ = less.ToCbor()
						_, _ = (&document.DocumentEx{Document: *less}).ToCbor()
					}
				}
			}
		}
		k.Count("blobs_held_across_other_exports")
		for _, h := range []struct {
			level     string
			now, snap []byte
		}{{"outer", out.outer, snapOuter}, {"document", out.doc, snapDoc}, {"evidence", out.ev, snapEv}} {
			if !bytes.Equal(h.now, h.snap) {
				k.Violation("cbor:blob-changed-by-a-later-export:level="+h.level, "the bytes returned by an export changed when other documents were exported afterwards (the blob aliases reused memory): the blob no longer describes its document", det(map[string]any{"before": c15Hex(h.snap), "after": c15Hex(h.now)}))
				return nil
			}
		}
	}
	// the export must not have changed the exported document
	if d := c15CmpFiles(files, &docEx.Document); d != "" {
		k.Violation("cbor:export-modified-source:"+d, "exporting changed the exported document", det(nil))
	}

	ok := true
	checkDoc := func(level string, got *document.Document) {
		sfx := ""
		if level != "outer" {
			sfx = ":level=" + level
		}
		if d := c15CmpFiles(files, got); d != "" {
			what, name, _ := strings.Cut(d, ":")
			var w, g []byte
			for _, f := range files {
				if f.name == name {
					w = f.raw
				}
			}
			if got != nil {
				for _, f := range c15View(got) {
					if f.name == name {
						g = f.raw
					}
				}
			}
			k.Violation("cbor:roundtrip:"+d+sfx, fmt.Sprintf("after export and import (%s) %s: %s", level, what, name), det(map[string]any{"exported": c15Hex(w), "imported": c15Hex(g)}))
			ok = false
			return
		}
		gv := c15View(got)
		for i, f := range files {
			j1, e1 := c15JSON(f.obj)
			j2, e2 := c15JSON(gv[i].obj)
			if e1 != nil || e2 != nil {
				k.Count("json_marshal_error")
				if (e1 == nil) != (e2 == nil) {
					k.Violation("cbor:roundtrip:json-differs:"+f.name+sfx, fmt.Sprintf("JSON view of %s: marshal error before=%v after=%v", f.name, e1, e2), det(nil))
					ok = false
				}
				continue
			}
			if j1 != j2 {
				k.Violation("cbor:roundtrip:json-differs:"+f.name+sfx, fmt.Sprintf("the JSON view of %s differs after export and import (%s)", f.name, level), det(map[string]any{"before": c15Hex([]byte(j1)), "after": c15Hex([]byte(j2))}))
				ok = false
				continue
			}
			if reflect.DeepEqual(f.obj, gv[i].obj) {
				k.Count("parsed_struct_deep_equal")
			} else {
				k.Count("parsed_struct_NOT_deep_equal_" + f.name)
			}
		}
		j1, e1 := c15JSON(&docEx.Document)
		j2, e2 := c15JSON(got)
		if (e1 == nil) != (e2 == nil) || j1 != j2 {
			k.Violation("cbor:roundtrip:json-differs:Document"+sfx, fmt.Sprintf("the JSON view of the whole document differs after export and import (%s): errors %v / %v", level, e1, e2), det(nil))
			ok = false
		}
	}
	checkEv := func(level string, got *document.ChipAuthEvidenceBundle) {
		sfx := ""
		if level != "outer" {
			sfx = ":level=" + level
		}
		field, nilLost := c15CmpEvidence(want, got)
		if nilLost > 0 {
			k.CountN("evidence_empty_value_came_back_nil_or_vice_versa", int64(nilLost))
		}
		if field != "" {
			cam, ca, aa := c15SessionMechs(&docEx.Session)
			when := c15Diagnose(&docEx.Session, want)
			k.Violation("cbor:roundtrip:evidence-differs:"+field+when+sfx, fmt.Sprintf("evidence value %s differs after export and import (%s)%s", field, level, strings.ReplaceAll(when, ":", " ")),
				det(map[string]any{"exported": c15EvString(want), "imported": c15EvString(got), "session_state": fmt.Sprintf("PACE-CAM{%v} CA{%v} AA{%v}", cam, ca, aa), "session_errors": c15ErrString(&docEx.Session)}))
			ok = false
		}
	}

	doc2, b2, err := document.UnmarshalVerifiableDoc(out.outer)
	k.AddEvals(1)
	if err != nil {
		k.Violation("cbor:roundtrip:import-rejected:level=outer", fmt.Sprintf("UnmarshalVerifiableDoc rejects an unchanged export: %v", err), det(nil))
		return nil
	}
	checkDoc("outer", doc2)
	checkEv("outer", b2)

	doc3, err := document.NewDocumentFromCbor(out.doc)
	k.AddEvals(1)
	if err != nil {
		k.Violation("cbor:roundtrip:import-rejected:level=document", fmt.Sprintf("NewDocumentFromCbor rejects an unchanged export: %v", err), det(nil))
		return nil
	}
	checkDoc("document", doc3)
	// export(import(export)) is observed only
	if re, err := doc3.ToCbor(); err == nil && bytes.Equal(re, out.doc) {
		k.Count("reexport_identical")
	} else {
		k.Count("reexport_DIFFERENT")
	}

	b3, err := document.NewChipAuthEvidenceFromCbor(out.ev)
	k.AddEvals(1)
	if err != nil {
		k.Violation("cbor:roundtrip:import-rejected:level=evidence", fmt.Sprintf("NewChipAuthEvidenceFromCbor rejects an unchanged export: %v", err), det(nil))
		return nil
	}
	checkEv("evidence", b3)
	if !ok {
		return nil
	}
	k.Count("roundtrip_ok")
	return out
}

func c15EvString(b *document.ChipAuthEvidenceBundle) string {
	if b == nil {
		return "<nil bundle>"
	}
	var sb strings.Builder
	if e := b.PaceCam; e != nil {
		fmt.Fprintf(&sb, "PaceCam{oid=%v pid=%d nonce=%x tmpri=%x tmpub=%x cmpub=%x tkpri=%x tkpub=%x ckpub=%x ecad=%x} ", e.PaceOid, e.ParameterId, e.Nonce, e.TermMapPri, e.TermMapPub, e.ChipMapPub, e.TermKaPri, e.TermKaPub, e.ChipKaPub, e.EcadIC)
	}
	if e := b.ChipAuth; e != nil {
		fmt.Fprintf(&sb, "ChipAuth{pri=%x pub=%x rapdu=%x ssc=%x} ", e.TermPri, e.TermPubKey, e.SmRapdu, e.SmSsc)
	}
	if e := b.ActiveAuth; e != nil {
		fmt.Fprintf(&sb, "ActiveAuth{alg=%v nonce=%x sig=%x}", e.Algorithm, e.Nonce, e.Signature)
	}
	s := sb.String()
	if len(s) > 1500 {
		s = s[:1500] + "..."
	}
	return s
}

// ---------------------------------------------------------------------------------------
// corruption

type c15Target struct {
	level string
	blob  []byte
	files []c15File                        // nil at level evidence
	want  *document.ChipAuthEvidenceBundle // nil at level document
}

const (
	c15Rejected = iota
	c15AcceptedEqual
	c15AcceptedDifferent
)

// judge imports b at the target's level: rejected, accepted with the original content,
// or accepted with different content (diff says what differs).
func (t *c15Target) judge(b []byte) (verdict int, diff string) {
	var doc *document.Document
	var bundle *document.ChipAuthEvidenceBundle
	var err error
	switch t.level {
	case "outer":
		doc, bundle, err = document.UnmarshalVerifiableDoc(b)
	case "document":
		doc, err = document.NewDocumentFromCbor(b)
	case "evidence":
		bundle, err = document.NewChipAuthEvidenceFromCbor(b)
	}
	if err != nil {
		return c15Rejected, ""
	}
	if t.files != nil || t.level != "evidence" {
		if d := c15CmpFiles(t.files, doc); d != "" {
			return c15AcceptedDifferent, d
		}
	}
	if t.want != nil {
		if f, _ := c15CmpEvidence(t.want, bundle); f != "" {
			return c15AcceptedDifferent, "evidence-differs:" + f
		}
	}
	return c15AcceptedEqual, ""
}

func c15Positions(blob []byte, lab []string, r *mrand.Rand, stride int) []int {
	n := len(blob)
	if n <= 640 {
		out := make([]int, n)
		for i := range out {
			out[i] = i
		}
		return out
	}
	sel := make([]bool, n)
	// region lengths
	for i := 0; i < n; {
		j := i
		for j < n && lab[j] == lab[i] {
			j++
		}
		isVal := strings.Contains(lab[i], "val:") || lab[i] == "unparsed"
		if !isVal || j-i <= 40 {
			for p := i; p < j; p++ {
				sel[p] = true
			}
		} else {
			for d := 0; d < 4; d++ {
				sel[i+d], sel[j-1-d] = true, true
			}
		}
		i = j
	}
	for p := r.IntN(stride); p < n; p += stride {
		sel[p] = true
	}
	for d := 0; d < 8 && d < n; d++ {
		sel[d], sel[n-1-d] = true, true
	}
	var out []int
	for p, s := range sel {
		if s {
			out = append(out, p)
		}
	}
	return out
}

// c15CountStructural shows in the evidence that the substitution sweep reaches every
// structural byte (map heads, keys, value heads - everything that is not the content of a
// value) of every nesting level the harness's reader can label: per nesting path the number
// of structural bytes in the blobs and how many of them the sweep left out (expected: none).
func c15CountStructural(k *fw.K, level string, lab []string, positions []int) {
	swept := make([]bool, len(lab))
	for _, p := range positions {
		swept[p] = true
	}
	for p, l := range lab {
		if l == "unparsed" {
			k.Count("bytes_the_harness_reader_could_not_label_level=" + level)
			continue
		}
		cut := strings.LastIndex(l, "/") + 1
		if strings.HasPrefix(l[cut:], "val:") {
			continue
		}
		path := "/" + l[:cut]
		k.Count("structural_bytes_level=" + level + "_nesting=" + path)
		if !swept[p] {
			k.Count("structural_bytes_NOT_SWEPT_level=" + level + "_nesting=" + path)
		}
	}
}

func c15Corrupt(c *fw.Ctx, k *fw.K, t *c15Target, blobID int, r *mrand.Rand) {
	blob := t.blob
	n := len(blob)
	// control
	if v, d := t.judge(blob); v != c15AcceptedEqual {
		k.Violation("cbor:roundtrip:control-failed:level="+t.level, fmt.Sprintf("the unchanged blob does not import to the original content (verdict %d %s)", v, d), map[string]any{"blob": c15Hex(blob)})
		return
	}
	lab := c15Regions(blob)
	k.Max("max_mutated_blob_bytes", int64(n))
	if n <= 640 {
		k.Count("blobs_mutated_exhaustively_level=" + t.level)
	} else {
		k.Count("blobs_mutated_strided_level=" + t.level)
	}
	reported := map[string]bool{}
	report := func(kind, region, diff string, detail map[string]any) {
		key := fmt.Sprintf("cbor:corruption:accepted-different-content:level=%s:kind=%s", t.level, kind)
		id := key + "|" + region + "|" + diff
		k.Count("ACCEPTED_DIFFERENT_" + kind + "_level=" + t.level)
		if reported[id] || len(reported) >= 12 {
			return
		}
		reported[id] = true
		detail["region"], detail["difference"], detail["blob_len"] = region, diff, n
		if n <= 2048 {
			detail["blob"] = fmt.Sprintf("%x", blob)
		}
		k.Violation(key, fmt.Sprintf("a %s in region %s of a %s-level blob imports without error to different content (%s)", kind, region, t.level, diff), detail)
	}
	// --- substitutions
	stride := c.Pick(211, 67)
	if n > 16384 {
		stride = n / c.Pick(120, 300)
	}
	positions := c15Positions(blob, lab, r, stride)
	c15CountStructural(k, t.level, lab, positions)
	buf := append([]byte{}, blob...)
	var rej, eq int64
	eqRegions := map[string]int64{}
	swept, thinned, tried := 0, 0, int64(0)
	for _, p := range positions {
		// Once content-changing mutations are being accepted the point is made; going on
		// would feed arbitrarily damaged files to the file parsers for no further insight.
		if len(reported) >= 1 {
			k.Count("substitution_sweep_stopped_after_violation")
			break
		}
		swept++
		o := blob[p]
		// Every accepted mutant costs a complete import of the document. Correct code
		// accepts a few hundred per blob (unknown "version" key, letter case of keys); if
		// a large blob accepts tens of thousands, the rest of the sweep tries the 8 single
		// bit flips and 0x00 / 0xFF only (coverage is reduced, the oracle is unchanged).
		thin := n > 4096 && eq > 20000
		if thin {
			thinned++
		}
		for v := 1; v < 256; v++ {
			if thin && v&(v-1) != 0 && byte(v) != o && byte(v) != ^o {
				continue
			}
			tried++
			buf[p] = o ^ byte(v)
			verdict, diff := t.judge(buf)
			switch verdict {
			case c15Rejected:
				rej++
			case c15AcceptedEqual:
				eq++
				eqRegions[lab[p]]++
				if v == 1 || v == 0x20 {
					k.Sample("accepted-equal-substitution", map[string]any{"level": t.level, "offset": p, "region": lab[p], "from": fmt.Sprintf("%02x", o), "to": fmt.Sprintf("%02x", buf[p])})
				}
			default:
				report("substitution", lab[p], diff, map[string]any{"offset": p, "from": fmt.Sprintf("%02x", o), "to": fmt.Sprintf("%02x", buf[p])})
			}
			if len(reported) >= 1 {
				break
			}
		}
		buf[p] = o
		k.Distinct(fmt.Sprintf("%d|%s|s|%d", blobID, t.level, p))
	}
	_ = swept
	k.AddEvals(tried)
	if thinned > 0 {
		k.CountN("substitution_positions_thinned_after_many_accepted_mutants", int64(thinned))
	}
	k.CountN("substitution_rejected_level="+t.level, rej)
	k.CountN("substitution_accepted_equal_level="+t.level, eq)
	for reg, cnt := range eqRegions {
		k.CountN("substitution_accepted_equal_in_"+reg+"_level="+t.level, cnt)
	}
	// --- truncation at every length
	rej, eq = 0, 0
	for l := 0; l < n; l++ {
		verdict, diff := t.judge(blob[:l:l])
		switch verdict {
		case c15Rejected:
			rej++
		case c15AcceptedEqual:
			eq++
		default:
			report("truncation", lab[l], diff, map[string]any{"kept_bytes": l})
		}
	}
	k.AddEvals(int64(n))
	k.Distinct(fmt.Sprintf("%d|%s|t", blobID, t.level))
	k.CountN("truncation_rejected_level="+t.level, rej)
	k.CountN("truncation_accepted_equal_level="+t.level, eq)
	// --- extension
	rej, eq = 0, 0
	var exts [][]byte
	for l := 1; l <= 16; l++ {
		exts = append(exts, make([]byte, l), bytes.Repeat([]byte{0xff}, l), randBytes(r, l))
	}
	exts = append(exts, []byte{0xf6}, []byte{0xa0}, []byte{0x40}, blob, c15Cat(c15Text("payload"), c15Bstr(nil)), c15Cat(c15Text("version"), c15Uint(0)))
	for i, e := range exts {
		verdict, diff := t.judge(c15Cat(blob, e))
		switch verdict {
		case c15Rejected:
			rej++
		case c15AcceptedEqual:
			eq++
		default:
			report("extension", "end", diff, map[string]any{"appended": c15Hex(e)})
		}
		k.Distinct(fmt.Sprintf("%d|%s|e|%d", blobID, t.level, i))
	}
	k.AddEvals(int64(len(exts)))
	k.CountN("extension_rejected_level="+t.level, rej)
	k.CountN("extension_accepted_equal_level="+t.level, eq)
}

// ---------------------------------------------------------------------------------------
// envelope (magic / version) rewriting

func c15EnvelopeChecks(k *fw.K, bl *c15Blobs, r *mrand.Rand) {
	outerEnv, ok1 := c15ParseEnv(bl.outer)
	docEnv, ok2 := c15ParseEnv(bl.doc)
	evEnv, ok3 := c15ParseEnv(bl.ev)
	if !ok1 || !ok2 || !ok3 {
		k.Inconclusive("the harness's CBOR reader cannot take the exported envelopes apart")
		return
	}
	tOuter := &c15Target{level: "outer", files: bl.files, want: bl.want}
	tDoc := &c15Target{level: "document", files: bl.files}
	tEv := &c15Target{level: "evidence", want: bl.want}
	// wrap: place a (rewritten) inner envelope into valid outer envelopes
	nest := func(docBlob, evBlob []byte) []byte {
		return c15Envelope(outerEnv.magic, outerEnv.version, c15RawEx(docBlob, evBlob))
	}
	// controls: rebuilding with the genuine values must import to the original
	controls := []struct {
		name string
		t    *c15Target
		b    []byte
	}{
		{"outer", tOuter, c15Envelope(outerEnv.magic, outerEnv.version, outerEnv.payload)},
		{"document", tDoc, c15Envelope(docEnv.magic, docEnv.version, docEnv.payload)},
		{"evidence", tEv, c15Envelope(evEnv.magic, evEnv.version, evEnv.payload)},
		{"nested", tOuter, nest(bl.doc, bl.ev)},
	}
	for _, cc := range controls {
		k.AddEvals(1)
		if v, d := cc.t.judge(cc.b); v != c15AcceptedEqual {
			k.Count("envelope_rebuild_control_failed_" + cc.name)
			k.Inconclusive(fmt.Sprintf("an envelope rebuilt with the genuine magic/version/checksum (%s) is not imported as the original (verdict %d %s): the export format is not the one the harness mirrors", cc.name, v, d))
			return
		}
	}
	if bytes.Equal(controls[0].b, bl.outer) && bytes.Equal(controls[1].b, bl.doc) && bytes.Equal(controls[2].b, bl.ev) && bytes.Equal(controls[3].b, bl.outer) {
		k.Count("harness_rebuilt_envelopes_byte_identical")
	}
	type lvl struct {
		name    string
		env     *c15Env
		direct  *c15Target
		nestFn  func(inner []byte) []byte // nil for the outer level
		foreign []string
	}
	flip := func(s string) string {
		b := []byte(s)
		p := r.IntN(len(b))
		b[p] ^= 1 << uint(r.IntN(7))
		return string(b)
	}
	common := func(own string) []string {
		return []string{"", own + " ", " " + own, own + "\x00", strings.ToUpper(own), own[:len(own)-1], own + "2", flip(own), "gmrtd", string(randBytes(r, 1+r.IntN(30)))}
	}
	levels := []lvl{
		{"outer", outerEnv, tOuter, nil, append(common(outerEnv.magic), docEnv.magic, evEnv.magic)},
		{"document", docEnv, tDoc, func(in []byte) []byte { return nest(in, bl.ev) }, append(common(docEnv.magic), outerEnv.magic, evEnv.magic)},
		{"evidence", evEnv, tEv, func(in []byte) []byte { return nest(bl.doc, in) }, append(common(evEnv.magic), outerEnv.magic, docEnv.magic)},
	}
	flagged := map[string]bool{}
	for _, L := range levels {
		try := func(kind, keyPrefix, what string, blob []byte, assert bool, via string) {
			t := L.direct
			if via == "nested" {
				t = tOuter
			}
			k.AddEvals(1)
			k.Distinct(fmt.Sprintf("%s|%s|%s|%s", L.name, kind, what, via))
			v, d := t.judge(blob)
			if v == c15Rejected {
				k.Count(kind + "_rejected_level=" + L.name)
				return
			}
			if !assert {
				k.Count(kind + "_ACCEPTED(observed-only)_level=" + L.name)
				return
			}
			k.Count(kind + "_ACCEPTED_level=" + L.name)
			if flagged[keyPrefix+L.name+via] {
				return
			}
			flagged[keyPrefix+L.name+via] = true
			res := "to the original content"
			if v == c15AcceptedDifferent {
				res = "to different content (" + d + ")"
			}
			k.Violation(keyPrefix+":level="+L.name, fmt.Sprintf("a %s-level envelope with %s and a valid checksum (%s import) is accepted, importing %s", L.name, what, via, res), map[string]any{"rewritten": what, "via": via, "blob": c15Hex(blob)})
		}
		for _, m := range L.foreign {
			if m == L.env.magic {
				continue
			}
			b := c15Envelope(m, L.env.version, L.env.payload)
			try("foreign_magic", "cbor:foreign-magic-accepted", fmt.Sprintf("magic %q", m), b, true, "direct")
			if L.nestFn != nil {
				try("foreign_magic", "cbor:foreign-magic-accepted", fmt.Sprintf("magic %q", m), L.nestFn(b), true, "nested")
			}
		}
		v0 := L.env.version
		for _, nv := range []uint64{v0 + 1, v0 + 2, v0 + 22, 23, 24, 255, 256, 65535, 65536, 1<<32 - 1, 1 << 32, 1<<63 - 1, 1 << 63, 1<<64 - 1, v0 + 1 + uint64(r.IntN(1000))} {
			if nv <= v0 {
				continue
			}
			b := c15Envelope(L.env.magic, nv, L.env.payload)
			try("newer_version", "cbor:newer-version-accepted", fmt.Sprintf("version %d (exporter writes %d)", nv, v0), b, true, "direct")
			if L.nestFn != nil {
				try("newer_version", "cbor:newer-version-accepted", fmt.Sprintf("version %d (exporter writes %d)", nv, v0), L.nestFn(b), true, "nested")
			}
		}
		// both at once
		try("foreign_magic", "cbor:foreign-magic-accepted", "a foreign magic and a newer version", c15Envelope(L.foreign[1], v0+1, L.env.payload), true, "direct")
		// older versions: observed only
		for ov := uint64(0); ov < v0; ov++ {
			try(fmt.Sprintf("older_version_%d", ov), "", "", c15Envelope(L.env.magic, ov, L.env.payload), false, "direct")
		}
	}
}

// ---------------------------------------------------------------------------------------
// live sessions

func c15LivePlan(r *mrand.Rand, i int) persoPlan {
	pp := randPlan(r, false)
	o := &pp.o
	switch i % 4 {
	case 0:
		o.AA = perso.AAOpts{}
		o.CA = perso.CAOpts{On: true, Curve: (i / 4) % 11, Suite: symref.AllSuites[(i/44)%4], Form: i % 3, Arrange: (i / 4) % 3}
		if o.Access == perso.PACECAM {
			o.Access = perso.PACEGMOnly
		}
	case 1:
		o.Access, o.ParamID = perso.PACECAM, 8+(i/4)%11
		if o.Suite == symref.TDES {
			o.Suite = symref.AllSuites[1+(i/4)%3]
		}
		o.AA = perso.AAOpts{}
	case 2:
		o.AA = perso.AAOpts{Kind: 1, Bits: []int{1024, 1536, 2048}[(i/4)%3], Hash: 0}
	case 3:
		o.AA = perso.AAOpts{Kind: 2, Curve: (i / 4) % 11, DER: (i/44)%2 == 1}
	}
	pp.extended, pp.maxLe, pp.chipCap, pp.leCap, pp.shortRnd, pp.skipImg = true, 65536, 0, 0, false, false
	if o.DG2Size > 3000 {
		o.DG2Size = 0
	}
	// perso.Build draws the optional data groups while ranging over a map; with at most
	// one of them the personalisation is a pure function of the PRNG (faithful replays).
	// The presence patterns are covered by the synthetic documents.
	if len(o.DGs) > 1 {
		o.DGs = o.DGs[i%len(o.DGs):][:1]
	}
	return pp
}

func c15Live(k *fw.K, r *mrand.Rand, i int, label string) (*document.DocumentEx, string) {
	pp := c15LivePlan(r, i)
	p := perso.Build(r, pp.o)
	fw.SeedCryptoRand(int64(i)*2+1, label)
	card := p.NewCard(uint64(i)*2 + 1)
	card.Extended = true
	res := liveRead(p, card, liveOpts{maxLe: pp.maxLe}, nil)
	if res.err != nil || res.docEx == nil {
		k.Count("live_read_failed")
		return nil, pp.String()
	}
	return res.docEx, pp.String()
}

// ---------------------------------------------------------------------------------------

func c15QuickPatterns(r *mrand.Rand, n int) []int {
	const all = 1<<14 - 1
	seen := map[int]bool{}
	var out []int
	add := func(p int) {
		if !seen[p] && len(out) < n {
			seen[p] = true
			out = append(out, p)
		}
	}
	add(0)
	add(all)
	for b := 0; b < 14; b++ {
		add(1 << b)
		add(all &^ (1 << b))
	}
	add(all &^ 7)   // LDS only
	add(7)          // master file only
	add(0x3FE8 | 0) // typical: SOD + DGs
	for len(out) < n {
		p := int(r.Uint32()) & all
		if r.IntN(3) == 0 { // sparse patterns
			p &= int(r.Uint32())
		}
		add(p)
	}
	return out
}

func runC15(c *fw.Ctx) {
	pool := c15BuildPool(c)

	// --- round trips over presence patterns
	var patterns []int
	if c.Thorough() {
		for p := 0; p < 1<<14; p++ {
			patterns = append(patterns, p)
		}
	} else {
		patterns = c15QuickPatterns(c.PlanRNG("c15-patterns"), 600)
	}
	c.Cases(len(patterns), func(i int) string { return fmt.Sprintf("roundtrip|pattern=%014b ev=%03b", patterns[i], i%8) }, func(i int, k *fw.K) {
		r := k.RNG
		mode := 0
		if c.Quick() {
			mode = []int{0, 1, 1, 0, 1}[i%5]
			if i%40 == 7 {
				mode = 2
			}
		} else if i%64 == 9 {
			mode = 1
		} else if i%1024 == 77 {
			mode = 2
		}
		d := c15BuildDoc(k, r, pool, patterns[i], mode)
		style := (i / 8) % 3
		docEx := &document.DocumentEx{Document: *d.doc, Session: c15Evidence(r, i%8, style)}
		k.Nontrivial(fmt.Sprintf("p=%d|e=%d|m=%d|s=%d|%d", patterns[i], i%8, mode, style, i))
		k.Count(fmt.Sprintf("documents_with_%02d_files", len(d.names)))
		k.Count(fmt.Sprintf("evidence_subset_%03b", i%8))
		k.Max("max_document_file_bytes", int64(d.total))
		bl := c15RoundTrip(k, docEx, fmt.Sprintf("pattern=%014b mode=%d", patterns[i], mode))
		if bl != nil && (i%97 == 5 || mode == 2) {
			k.Sample("roundtrip", map[string]any{"files": d.names, "file_bytes": d.total, "evidence_subset": i % 8, "blob_bytes": len(bl.outer)})
		}
	})

	// --- round trips of genuine live reads
	nlive := c.Pick(16, 120)
	c.Cases(nlive, func(i int) string { return fmt.Sprintf("live|i=%d", i) }, func(i int, k *fw.K) {
		docEx, plan := c15Live(k, k.RNG, i, fmt.Sprintf("c15/live/%d", i))
		if docEx == nil {
			return
		}
		k.Nontrivial(plan)
		k.Count(fmt.Sprintf("live_evidence_subset_%03b", c15Subset(c15Want(&docEx.Session))))
		bl := c15RoundTrip(k, docEx, "live "+plan)
		if bl != nil && i < 4 {
			k.Sample("live-roundtrip", map[string]any{"plan": plan, "blob_bytes": len(bl.outer), "evidence_subset": c15Subset(bl.want)})
		}
	})

	// --- envelope rewriting
	nenv := c.Pick(60, 600)
	c.Cases(nenv, func(i int) string { return fmt.Sprintf("envelope|i=%d", i) }, func(i int, k *fw.K) {
		r := k.RNG
		pat := int(r.Uint32()) & (1<<14 - 1)
		if i%3 == 0 {
			pat &= int(r.Uint32())
		}
		d := c15BuildDoc(k, r, pool, pat, i%2)
		docEx := &document.DocumentEx{Document: *d.doc, Session: c15Evidence(r, i%8, (i/8)%3)}
		k.Nontrivial(fmt.Sprintf("env|%d|%d", pat, i))
		bl := c15RoundTrip(k, docEx, fmt.Sprintf("pattern=%014b", pat))
		if bl == nil {
			return
		}
		c15EnvelopeChecks(k, bl, r)
	})

	// --- corruption: one case per (blob, level)
	nblobs := c.Pick(40, 400)
	levels := []string{"outer", "document", "evidence"}
	c.Cases(nblobs*3, func(j int) string { return fmt.Sprintf("corrupt|blob=%d level=%s", j/3, levels[j%3]) }, func(j int, k *fw.K) {
		i, level := j/3, levels[j%3]
		// the blob depends on i only, so the three levels work on the same export
		r := fw.NewRNG(c.Seed, fmt.Sprintf("c15-corrupt/%d", i))
		var docEx *document.DocumentEx
		label := ""
		switch i % 5 {
		case 0, 1: // small enough for the exhaustive sweep
			var pat int
			cheap := []int{2, 3, 10} // DIR, COM, DG13
			for n := r.IntN(3); n > 0; n-- {
				pat |= 1 << cheap[r.IntN(3)]
			}
			if i%10 == 1 {
				pat = 1 << 5 // DG1 alone
			}
			d := c15BuildDoc(k, r, pool, pat, 0)
			sub := (i / 5) % 8
			docEx = &document.DocumentEx{Document: *d.doc, Session: c15Evidence(r, sub, 3)}
			label = fmt.Sprintf("small pattern=%014b ev=%03b", pat, sub)
		case 2:
			pat := int(r.Uint32()) & (1<<14 - 1)
			d := c15BuildDoc(k, r, pool, pat, 0)
			docEx = &document.DocumentEx{Document: *d.doc, Session: c15Evidence(r, r.IntN(8), 0)}
			label = fmt.Sprintf("medium pattern=%014b", pat)
		case 3:
			pat := int(r.Uint32())&(1<<14-1) | 1<<6
			mode := 1
			if i%20 == 3 {
				mode = 2
			}
			d := c15BuildDoc(k, r, pool, pat, mode)
			docEx = &document.DocumentEx{Document: *d.doc, Session: c15Evidence(r, r.IntN(8), r.IntN(3))}
			label = fmt.Sprintf("rich pattern=%014b mode=%d", pat, mode)
		case 4:
			var plan string
			docEx, plan = c15Live(k, r, i, fmt.Sprintf("c15/corrupt-live/%d", i))
			if docEx == nil {
				return
			}
			label = "live " + plan
		}
		bl := c15RoundTrip(k, docEx, label)
		if bl == nil {
			return
		}
		k.Nontrivial(fmt.Sprintf("corrupt|%d|%s", i, level))
		var t *c15Target
		switch level {
		case "outer":
			t = &c15Target{level: level, blob: bl.outer, files: bl.files, want: bl.want}
		case "document":
			t = &c15Target{level: level, blob: bl.doc, files: bl.files}
		case "evidence":
			t = &c15Target{level: level, blob: bl.ev, want: bl.want}
		}
		if i < 2 && level == "outer" {
			k.Sample("corrupt-blob", map[string]any{"document": label, "blob_bytes": len(t.blob), "blob": c15Hex(t.blob)})
		}
		c15Corrupt(c, k, t, i, r)
	})

	// --- session state: evidence x recorded error x success per mechanism; failed live reads
	c15SessionCases(c, pool)
}
