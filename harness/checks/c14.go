package checks

import (
	"encoding/asn1"
	"fmt"
	"math/big"

	"github.com/gmrtd/gmrtd/document"
	"github.com/gmrtd/gmrtd/verifier"

	"verifharness/chipsim"
	"verifharness/ecref"
	"verifharness/fw"
	"verifharness/perso"
	"verifharness/symref"
)

// C14 - offline verification reproduces live verdicts and detects evidence tampering.

func init() {
	register(&fw.Spec{
		ID:    "C14",
		Level: "exploration",
		Rule: "case = one genuine simulated session with at least one of CA / PACE-CAM / AA (all curves and suites over the runs) read live, serialised with DocumentEx.ToCbor and verified with verifier.Verify against the same trust store; then every evidence field x value-changing mutations (bit flip low/high, +1, another session's value, other valid point / OID / parameter id, truncation) re-serialised through the public structs, and every data group x sampled byte mutations; plus ground genuine sessions (genuine oracle only in the quick tier): PACE-CAM and CA with an agreed x-coordinate with 1 / 2 leading zero octets on every curve x suite, chip and terminal ephemeral keys, static keys, mapping secret, chip authentication data, nonce and private scalars with leading zero octets (chip grinding, personalisation grinding, steering of the terminal's key draws), AA with every pooled RSA modulus size 1024..4096 (incl. sizes not divisible by 8) x every hash, ECDSA on every curve plain and DER, signature components shorter than the modulus / order; " +
			"oracle: live and offline agree on PA, completeness and each mechanism that ran; genuine evidence verifies; a single-field change leaves the corresponding verdict not successful; a changed data group makes PA fail; non-trivial = every verification; distinct = (session, field, mutation)",
		MinEvaluations: 500,
		Assumptions: []string{
			"only value-changing single-field mutations (no zero-prefixing of scalars, no k+n aliases, no deletion of the optional legacy counter); the documented joint replacement of chip agreement key and encrypted chip authentication data is never generated",
			"EF.COM / EF.DIR have no corresponding verdict; SOD and CardSecurity byte mutations belong to C01",
		},
		Run: runC14,
	})
}

type c14Session struct {
	p     *perso.Perso
	docEx *document.DocumentEx
	blob  []byte
	card  *chipsim.Card
}

// prep (optional) configures the fresh chip (grinding options) and may interpose on the
// terminal's randomness before the session starts.
func c14Live(k *fw.K, p *perso.Perso, pp persoPlan, seed uint64, label string, prep func(card *chipsim.Card)) *c14Session {
	fw.SeedCryptoRand(int64(seed), label)
	card := p.NewCard(seed)
	card.Extended = true
	if prep != nil {
		prep(card)
	}
	res := liveRead(p, card, liveOpts{maxLe: pp.maxLe}, nil)
	if res.err != nil || res.docEx == nil {
		k.Count("live_read_failed")
		return nil
	}
	blob, err := res.docEx.ToCbor()
	if err != nil {
		k.Violation("offline:export-failed", fmt.Sprintf("DocumentEx.ToCbor failed on a live result: %v", err), map[string]any{"plan": pp.String()})
		return nil
	}
	return &c14Session{p: p, docEx: res.docEx, blob: blob, card: card}
}

// rebuild a DocumentEx from a blob so that it can be mutated independently
// c14EvidenceFromLive replaces the evidence of a re-imported copy by deep copies of the values
// captured live, so that a field mutation always starts from what the session recorded and
// not from what the importer kept of it (an importer that drops a field would otherwise hide
// that the field is no longer protected).
func c14EvidenceFromLive(d, live *document.DocumentEx) {
	cp := func(b []byte) []byte {
		if b == nil {
			return nil
		}
		return append([]byte{}, b...)
	}
	if l, t := live.Session.ChipAuthResult, d.Session.ChipAuthResult; l != nil && l.Evidence != nil && t != nil {
		e := *l.Evidence
		e.TermPri, e.TermPubKey, e.SmRapdu, e.SmSsc = cp(e.TermPri), cp(e.TermPubKey), cp(e.SmRapdu), cp(e.SmSsc)
		t.Evidence = &e
	}
	if l, t := live.Session.PaceCamResult, d.Session.PaceCamResult; l != nil && l.Evidence != nil && t != nil {
		e := *l.Evidence
		e.PaceOid = append(e.PaceOid[:0:0], e.PaceOid...)
		e.Nonce, e.TermMapPri, e.TermMapPub, e.ChipMapPub = cp(e.Nonce), cp(e.TermMapPri), cp(e.TermMapPub), cp(e.ChipMapPub)
		e.TermKaPri, e.TermKaPub, e.ChipKaPub, e.EcadIC = cp(e.TermKaPri), cp(e.TermKaPub), cp(e.ChipKaPub), cp(e.EcadIC)
		t.Evidence = &e
	}
	if l, t := live.Session.ActiveAuthResult, d.Session.ActiveAuthResult; l != nil && l.Evidence != nil && t != nil {
		e := *l.Evidence
		e.Algorithm = append(e.Algorithm[:0:0], e.Algorithm...)
		e.Nonce, e.Signature = cp(e.Nonce), cp(e.Signature)
		t.Evidence = &e
	}
}

func c14Clone(blob []byte) *document.DocumentEx {
	doc, b, err := document.UnmarshalVerifiableDoc(blob)
	if err != nil {
		fw.LibFail("genuine-export-not-importable", "cannot re-import a genuine export: %v", err)
	}
	d := &document.DocumentEx{Document: *doc}
	if b.PaceCam != nil {
		d.Session.PaceCamResult = &document.PaceCamResult{Success: true, Evidence: b.PaceCam}
	}
	if b.ChipAuth != nil {
		d.Session.ChipAuthResult = &document.ChipAuthResult{Success: true, Evidence: b.ChipAuth}
	}
	if b.ActiveAuth != nil {
		d.Session.ActiveAuthResult = &document.ActiveAuthResult{Success: true, Evidence: b.ActiveAuth}
	}
	return d
}

type c14Mut struct {
	mech, field, kind string
	apply             func(d *document.DocumentEx) bool // false: not applicable
}

func flipLow(b []byte) []byte {
	v := append([]byte{}, b...)
	v[len(v)-1] ^= 0x01
	return v
}
func flipHigh(b []byte) []byte {
	v := append([]byte{}, b...)
	v[0] ^= 0x40
	return v
}
func flipMid(b []byte) []byte {
	v := append([]byte{}, b...)
	v[len(v)/2] ^= 0x10
	return v
}
func plusOne(b []byte) []byte {
	x := new(big.Int).SetBytes(b)
	x.Add(x, big.NewInt(1))
	if len(x.Bytes()) > len(b) {
		return flipLow(b)
	}
	return x.FillBytes(make([]byte, len(b)))
}

func c14Mutations(cur, other *document.DocumentEx, curveOf func(mech string) *ecref.Curve, k *fw.K) []c14Mut {
	var out []c14Mut
	addBytes := func(mech, field string, get func(d *document.DocumentEx) *[]byte, kinds map[string]func([]byte) []byte) {
		for kind, f := range kinds {
			kind, f := kind, f
			out = append(out, c14Mut{mech, field, kind, func(d *document.DocumentEx) bool {
				ptr := get(d)
				if ptr == nil || len(*ptr) == 0 {
					return false
				}
				nv := f(*ptr)
				if nv == nil || bytesEq(nv, *ptr) {
					return false
				}
				*ptr = nv
				return true
			}})
		}
	}
	otherVal := func(get func(d *document.DocumentEx) *[]byte) func([]byte) []byte {
		return func([]byte) []byte {
			if other == nil {
				return nil
			}
			p := get(other)
			if p == nil {
				return nil
			}
			return append([]byte{}, *p...)
		}
	}
	trunc := func(b []byte) []byte { return append([]byte{}, b[:len(b)-1]...) }
	otherPoint := func(mech string) func([]byte) []byte {
		return func([]byte) []byte {
			c := curveOf(mech)
			if c == nil {
				return nil
			}
			return c.Encode(c.Mul(new(big.Int).SetBytes(randBytes(k.RNG, c.ByteLen-1)), c.G()))
		}
	}
	scalarKinds := func(get func(d *document.DocumentEx) *[]byte) map[string]func([]byte) []byte {
		return map[string]func([]byte) []byte{"flip-low": flipLow, "flip-high": flipHigh, "plus-one": plusOne, "other-session": otherVal(get), "truncate": trunc}
	}
	negated := func(mech string) func([]byte) []byte {
		return func(b []byte) []byte {
			c := curveOf(mech)
			if c == nil {
				return nil
			}
			pt, err := c.Decode(b)
			if err != nil {
				return nil
			}
			return c.Encode(c.Neg(pt)) // same x-coordinate, other y: still a point of the curve
		}
	}
	pointKinds := func(mech string, get func(d *document.DocumentEx) *[]byte) map[string]func([]byte) []byte {
		return map[string]func([]byte) []byte{"negated-point": negated(mech), "flip-low": flipLow, "flip-mid": flipMid, "other-valid-point": otherPoint(mech), "other-session": otherVal(get), "truncate": trunc}
	}
	bytesKinds := func(get func(d *document.DocumentEx) *[]byte) map[string]func([]byte) []byte {
		return map[string]func([]byte) []byte{"flip-low": flipLow, "flip-high": flipHigh, "flip-mid": flipMid, "other-session": otherVal(get), "truncate": trunc}
	}
	ca := func(f func(e *document.ChipAuthEvidence) *[]byte) func(d *document.DocumentEx) *[]byte {
		return func(d *document.DocumentEx) *[]byte {
			if d.Session.ChipAuthResult == nil || d.Session.ChipAuthResult.Evidence == nil {
				return nil
			}
			return f(d.Session.ChipAuthResult.Evidence)
		}
	}
	cam := func(f func(e *document.PaceCamEvidence) *[]byte) func(d *document.DocumentEx) *[]byte {
		return func(d *document.DocumentEx) *[]byte {
			if d.Session.PaceCamResult == nil || d.Session.PaceCamResult.Evidence == nil {
				return nil
			}
			return f(d.Session.PaceCamResult.Evidence)
		}
	}
	aa := func(f func(e *document.ActiveAuthEvidence) *[]byte) func(d *document.DocumentEx) *[]byte {
		return func(d *document.DocumentEx) *[]byte {
			if d.Session.ActiveAuthResult == nil || d.Session.ActiveAuthResult.Evidence == nil {
				return nil
			}
			return f(d.Session.ActiveAuthResult.Evidence)
		}
	}
	// CA
	g := ca(func(e *document.ChipAuthEvidence) *[]byte { return &e.TermPri })
	addBytes("CA", "TermPri", g, scalarKinds(g))
	g = ca(func(e *document.ChipAuthEvidence) *[]byte { return &e.TermPubKey })
	addBytes("CA", "TermPubKey", g, pointKinds("CA", g))
	g = ca(func(e *document.ChipAuthEvidence) *[]byte { return &e.SmRapdu })
	addBytes("CA", "SmRapdu", g, bytesKinds(g))
	g = ca(func(e *document.ChipAuthEvidence) *[]byte { return &e.SmSsc })
	addBytes("CA", "SmSsc", g, map[string]func([]byte) []byte{"flip-low": flipLow, "plus-one": plusOne, "flip-high": flipHigh, "other-session": otherVal(g),
		"longer-than-block": func(b []byte) []byte { return append([]byte{0x01}, append(make([]byte, 16), b...)...) }})
	// PACE-CAM
	g = cam(func(e *document.PaceCamEvidence) *[]byte { return &e.Nonce })
	addBytes("CAM", "Nonce", g, map[string]func([]byte) []byte{"flip-low": flipLow, "flip-high": flipHigh, "plus-one": plusOne, "other-session": otherVal(g), "truncate": trunc})
	g = cam(func(e *document.PaceCamEvidence) *[]byte { return &e.TermMapPri })
	addBytes("CAM", "TermMapPri", g, scalarKinds(g))
	g = cam(func(e *document.PaceCamEvidence) *[]byte { return &e.TermMapPub })
	addBytes("CAM", "TermMapPub", g, pointKinds("CAM", g))
	g = cam(func(e *document.PaceCamEvidence) *[]byte { return &e.ChipMapPub })
	addBytes("CAM", "ChipMapPub", g, pointKinds("CAM", g))
	g = cam(func(e *document.PaceCamEvidence) *[]byte { return &e.TermKaPri })
	addBytes("CAM", "TermKaPri", g, scalarKinds(g))
	g = cam(func(e *document.PaceCamEvidence) *[]byte { return &e.TermKaPub })
	addBytes("CAM", "TermKaPub", g, pointKinds("CAM", g))
	g = cam(func(e *document.PaceCamEvidence) *[]byte { return &e.ChipKaPub })
	addBytes("CAM", "ChipKaPub", g, pointKinds("CAM", g))
	g = cam(func(e *document.PaceCamEvidence) *[]byte { return &e.EcadIC })
	addBytes("CAM", "EcadIC", g, bytesKinds(g))
	out = append(out, c14Mut{"CAM", "PaceOid", "other-cam-suite", func(d *document.DocumentEx) bool {
		if d.Session.PaceCamResult == nil || d.Session.PaceCamResult.Evidence == nil {
			return false
		}
		e := d.Session.PaceCamResult.Evidence
		o := append(asn1.ObjectIdentifier{}, e.PaceOid...)
		last := o[len(o)-1]
		o[len(o)-1] = 2 + (last-2+1)%3 // another of .2 .3 .4
		e.PaceOid = o
		return true
	}}, c14Mut{"CAM", "PaceOid", "generic-mapping-oid", func(d *document.DocumentEx) bool {
		if d.Session.PaceCamResult == nil || d.Session.PaceCamResult.Evidence == nil {
			return false
		}
		e := d.Session.PaceCamResult.Evidence
		o := append(asn1.ObjectIdentifier{}, e.PaceOid...)
		o[len(o)-2] = 2
		e.PaceOid = o
		return true
	}}, c14Mut{"CAM", "ParameterId", "other-parameter-id", func(d *document.DocumentEx) bool {
		if d.Session.PaceCamResult == nil || d.Session.PaceCamResult.Evidence == nil {
			return false
		}
		e := d.Session.PaceCamResult.Evidence
		e.ParameterId = 8 + (e.ParameterId-8+1+k.RNG.IntN(10))%11
		return true
	}})
	// AA
	g = aa(func(e *document.ActiveAuthEvidence) *[]byte { return &e.Nonce })
	addBytes("AA", "Nonce", g, map[string]func([]byte) []byte{"flip-low": flipLow, "flip-high": flipHigh, "plus-one": plusOne, "other-session": otherVal(g), "truncate": trunc})
	g = aa(func(e *document.ActiveAuthEvidence) *[]byte { return &e.Signature })
	addBytes("AA", "Signature", g, bytesKinds(g))
	out = append(out, c14Mut{"AA", "Algorithm", "other-key-type", func(d *document.DocumentEx) bool {
		if d.Session.ActiveAuthResult == nil || d.Session.ActiveAuthResult.Evidence == nil {
			return false
		}
		e := d.Session.ActiveAuthResult.Evidence
		rsa := asn1.ObjectIdentifier{1, 2, 840, 113549, 1, 1, 1}
		ec := asn1.ObjectIdentifier{1, 2, 840, 10045, 2, 1}
		if e.Algorithm.Equal(rsa) {
			e.Algorithm = ec
		} else {
			e.Algorithm = rsa
		}
		return true
	}}, c14Mut{"AA", "Algorithm", "unrelated-oid", func(d *document.DocumentEx) bool {
		if d.Session.ActiveAuthResult == nil || d.Session.ActiveAuthResult.Evidence == nil {
			return false
		}
		d.Session.ActiveAuthResult.Evidence.Algorithm = asn1.ObjectIdentifier{2, 5, 4, 3}
		return true
	}})
	return out
}

func mechOK(d *document.DocumentEx, mech string) bool {
	if d == nil {
		return false
	}
	s := d.Session
	switch mech {
	case "CA":
		return s.ChipAuthResult != nil && s.ChipAuthResult.Success
	case "CAM":
		return s.PaceCamResult != nil && s.PaceCamResult.Success
	case "AA":
		return s.ActiveAuthResult != nil && s.ActiveAuthResult.Success
	case "PA":
		return s.PassiveAuthResult != nil && s.PassiveAuthResult.Success
	}
	return false
}

func c14Case(c *fw.Ctx, k *fw.K, i int) {
	r := k.RNG
	pp := randPlan(r, false)
	// make sure a mechanism runs; rotate which one is guaranteed
	o := &pp.o
	switch i % 4 {
	case 0:
		o.AA = perso.AAOpts{}
		o.CA = perso.CAOpts{On: true, Curve: (i / 4) % 11, Suite: symref.AllSuites[(i/44)%4], Form: i % 3, Arrange: (i / 4) % 4}
		if o.CA.Arrange == 3 {
			o.CA.Suite = symref.TDES
		}
		if o.Access == perso.PACECAM {
			o.Access = perso.PACEGMOnly
		}
	case 1:
		o.Access, o.ParamID = perso.PACECAM, 8+(i/4)%11
		if o.Suite == symref.TDES {
			o.Suite = symref.AllSuites[1+(i/4)%3]
		}
		o.AA = perso.AAOpts{}
	case 2:
		// every modulus size of the key pool (up to 4096 bits, incl. sizes that are not a
		// multiple of 8) x every ISO 9796-2 hash
		o.AA = perso.AAOpts{Kind: 1, Bits: c14RSABits[(i/4)%len(c14RSABits)], Hash: chipsim.AAHash((i/4 + i/240) % 5)}
	case 3:
		o.AA = perso.AAOpts{Kind: 2, Curve: (i / 4) % 11, DER: (i/44)%2 == 1}
	}
	pp.extended, pp.maxLe, pp.chipCap, pp.leCap, pp.shortRnd, pp.skipImg = true, 65536, 0, 0, false, false
	if o.DG2Size > 3000 {
		o.DG2Size = 0
	}
	p := perso.Build(r, *o)
	s1 := c14Live(k, p, pp, uint64(i)*2+1, fmt.Sprintf("c14/%d/a", i), nil)
	if s1 == nil {
		return
	}
	s2 := c14Live(k, p, pp, uint64(i)*2+2, fmt.Sprintf("c14/%d/b", i), nil)
	c14Judge(c, k, fmt.Sprint(i), pp, p, s1, s2, c14JudgeOpts{fields: true, dgs: true, sample: i%8 == 0})
}

type c14JudgeOpts struct {
	fields, dgs bool   // run the evidence-field / data-group mutations
	sample      bool   // keep the genuine case as an evidence sample
	class       string // edge class of a ground session ("" for drawn sessions): part of the violation key ...
	classMech   string // ... of this mechanism (CA, CAM, AA)
}

// c14Tag names the corner a genuine session is in, for violation keys: a shared secret with
// leading zero octets as seen by the chip (whatever the session was ground for), else the
// class the session was ground for when that class concerns this mechanism, else (AA) the
// key kind.
func c14Tag(s *c14Session, pp persoPlan, mech string, jo c14JudgeOpts) string {
	switch mech {
	case "CAM":
		if s.card.PACE != nil && s.card.PACE.SharedXLeading > 0 {
			return ":shared-x-leading-zero"
		}
	case "CA":
		if s.card.CA != nil && len(s.card.CA.K) > 0 && s.card.CA.K[0] == 0 {
			return ":shared-x-leading-zero"
		}
	}
	if jo.class != "" && jo.classMech == mech {
		return ":" + jo.class
	}
	if mech == "AA" {
		switch aa := pp.o.AA; aa.Kind {
		case 1:
			return fmt.Sprintf(":rsa-%d", aa.Bits)
		case 2:
			form := "plain"
			if aa.DER {
				form = "der"
			}
			return ":ecdsa-" + ecref.All()[aa.Curve].Name + "-" + form
		}
	}
	return ""
}

// c14Judge verifies the export of the genuine session s1 offline and compares the verdicts
// with the live ones; then (optionally) the single-field and data-group mutations. id is
// unique per case (distinctness of evaluations), s2 (may be nil) a second session with the
// same chip that donates "other session" values.
func c14Judge(c *fw.Ctx, k *fw.K, id string, pp persoPlan, p *perso.Perso, s1, s2 *c14Session, jo c14JudgeOpts) {
	o := &pp.o
	r := k.RNG
	pool := trustPool(p.Trust)
	k.Nontrivial(pp.String() + "|" + jo.class + "|" + id)
	det := func(extra map[string]any) map[string]any {
		m := map[string]any{"plan": pp.String(), "zone": p.Zone}
		if jo.class != "" {
			m["edge_class"] = jo.class
		}
		for kk, v := range extra {
			m[kk] = v
		}
		return m
	}
	off, err := verifier.NewVerifier(pool).Verify(s1.blob)
	k.AddEvals(1)
	k.Count("genuine_offline_verifications")
	if err != nil || off == nil {
		k.Violation("offline:genuine-rejected", fmt.Sprintf("offline verification of a genuine export failed: %v", err), det(nil))
		return
	}
	live := s1.docEx
	if mechOK(live, "PA") != mechOK(off, "PA") {
		k.Violation("offline:pa-differs", fmt.Sprintf("passive authentication live=%v offline=%v (%v)", mechOK(live, "PA"), mechOK(off, "PA"), off.Session.PassiveAuthErr), det(nil))
		return
	}
	if (live.Session.DocumentVerifyErr == nil) != (off.Session.DocumentVerifyErr == nil) {
		k.Violation("offline:completeness-differs", fmt.Sprintf("completeness live=%v offline=%v", live.Session.DocumentVerifyErr, off.Session.DocumentVerifyErr), det(nil))
		return
	}
	ran := 0
	for _, m := range []string{"CA", "CAM", "AA"} {
		if mechOK(live, m) {
			ran++
			k.Count("genuine_sessions_with_" + m)
			c14CountSizes(k, live, m)
			if tag := c14Tag(s1, pp, m, c14JudgeOpts{}); tag != "" && m != "AA" {
				k.Count("genuine_sessions_with_" + m + "_" + tag[1:])
			}
			if !mechOK(off, m) {
				k.Violation("offline:genuine-evidence-rejected:"+m+c14Tag(s1, pp, m, jo), fmt.Sprintf("%s succeeded live but its captured evidence does not verify offline: ca=%v cam/pace=%v aa=%v", m, off.Session.ChipAuthErr, off.Session.PaceErr, off.Session.ActiveAuthErr), det(nil))
				return
			}
		} else if mechOK(off, m) {
			k.Violation("offline:verdict-without-live-success:"+m+c14Tag(s1, pp, m, jo), fmt.Sprintf("%s is successful offline although it did not succeed live", m), det(nil))
			return
		}
	}
	if live.Summary().DataTrusted != off.Summary().DataTrusted || live.Summary().ChipAuthenticity != off.Summary().ChipAuthenticity {
		k.Violation("offline:summary-differs", fmt.Sprintf("summary live=%v/%v offline=%v/%v", live.Summary().DataTrusted, live.Summary().ChipAuthenticity, off.Summary().DataTrusted, off.Summary().ChipAuthenticity), det(nil))
		return
	}
	if ran == 0 {
		k.Count("sessions_without_mechanism")
	}
	if jo.sample {
		k.Sample("genuine", map[string]any{"plan": pp.String(), "blob_bytes": len(s1.blob), "chip_authenticity": off.Summary().ChipAuthenticity.String()})
	}
	// --- evidence field mutations
	curveOf := func(mech string) *ecref.Curve {
		if mech == "CA" {
			return ecref.All()[o.CA.Curve]
		}
		return ecref.ByParamID(o.ParamID)
	}
	var otherEx *document.DocumentEx
	if s2 != nil {
		otherEx = c14Clone(s2.blob)
	}
	muts := c14Mutations(nil, otherEx, curveOf, k)
	if ca := s1.card.CA; ca != nil && ca.KSEnc != nil && mechOK(live, "CA") {
		// the chip (which holds the session keys) can MAC any response at the recorded counter:
		// a different, validly protected response is still a changed evidence value
		for _, sw := range []uint16{0x6A82, 0x6283, 0x6982} {
			sw := sw
			muts = append(muts, c14Mut{"CA", "SmRapdu", fmt.Sprintf("remac-status-%04x", sw), func(d *document.DocumentEx) bool {
				e := d.Session.ChipAuthResult.Evidence
				if len(e.SmSsc) == 0 {
					return false
				}
				sm := chipsim.NewSM(ca.Suite, ca.KSEnc, ca.KSMac, nil)
				// Wrap increments before use: position the counter one below the recorded value
				v := new(big.Int).SetBytes(e.SmSsc)
				v.Sub(v, big.NewInt(1))
				if v.Sign() < 0 || len(e.SmSsc) != len(sm.SSC) {
					return false
				}
				v.FillBytes(sm.SSC)
				e.SmRapdu = sm.Wrap(nil, sw)
				return true
			}})
		}
	}
	for _, mu := range muts {
		if !jo.fields || !mechOK(live, mu.mech) {
			continue
		}
		d := c14Clone(s1.blob)
		c14EvidenceFromLive(d, live)
		if !mu.apply(d) {
			continue
		}
		blob, err := d.ToCbor()
		if err != nil {
			k.Count("mutant_export_failed")
			continue
		}
		k.AddEvals(1)
		k.Distinct(fmt.Sprintf("%s|%s|%s|%s", id, mu.mech, mu.field, mu.kind))
		res, err := verifier.NewVerifier(pool).Verify(blob)
		if err != nil || res == nil || !mechOK(res, mu.mech) {
			k.Count("mutation_detected_" + mu.mech + "_" + mu.field)
			continue
		}
		k.Violation(fmt.Sprintf("offline:tamper-undetected:%s:%s:%s", mu.mech, mu.field, mu.kind), fmt.Sprintf("%s evidence field %s changed (%s) but the %s verdict is still successful", mu.mech, mu.field, mu.kind, mu.mech), det(map[string]any{"field": mu.field, "mutation": mu.kind}))
	}
	// --- data group byte mutations: PA must fail
	if jo.dgs && mechOK(live, "PA") {
		for _, n := range supportedDGs {
			name := fmt.Sprintf("DG%d", n)
			raw := docFile(&live.Document, name)
			if raw == nil {
				continue
			}
			for rep := 0; rep < c.Pick(2, 6); rep++ {
				d := c14Clone(s1.blob)
				mut := append([]byte{}, raw...)
				pos := r.IntN(len(mut))
				if rep == 0 {
					pos = len(mut) - 1
				}
				mut[pos] ^= 1 << uint(r.IntN(8))
				if !c14SetRaw(&d.Document, n, mut) {
					continue
				}
				blob, err := d.ToCbor()
				if err != nil {
					continue
				}
				k.AddEvals(1)
				k.Distinct(fmt.Sprintf("%s|dg%d|%d", id, n, pos))
				res, err := verifier.NewVerifier(pool).Verify(blob)
				if err != nil || res == nil || !mechOK(res, "PA") {
					k.Count("dg_mutation_detected")
					continue
				}
				k.Violation(fmt.Sprintf("offline:dg-tamper-undetected:DG%d", n), fmt.Sprintf("DG%d changed at offset %d but passive authentication is still successful offline", n, pos), det(map[string]any{"dg": n, "offset": pos}))
			}
		}
		// a key file that the security object lists is taken out of the bundle: the completeness
		// verdict (and with it the trusted verdict) must fail offline as it does live
		for _, n := range []int{14, 15} {
			if docFile(&live.Document, fmt.Sprintf("DG%d", n)) == nil || live.Document.Mf.Lds1.Sod == nil || !live.Document.Mf.Lds1.Sod.HasDgHash(n) {
				continue
			}
			d := c14Clone(s1.blob)
			if n == 14 {
				d.Document.Mf.Lds1.Dg14 = nil
			} else {
				d.Document.Mf.Lds1.Dg15 = nil
			}
			blob, err := d.ToCbor()
			if err != nil {
				continue
			}
			k.AddEvals(1)
			k.Distinct(fmt.Sprintf("%s|dg%d|removed", id, n))
			res, err := verifier.NewVerifier(pool).Verify(blob)
			if err != nil || res == nil || !res.Summary().DataTrusted {
				k.Count(fmt.Sprintf("listed_key_file_removed_detected_DG%d", n))
				continue
			}
			others := "with-DG14"
			if docFile(&live.Document, "DG14") == nil {
				others = "no-DG14-on-chip"
			}
			if n == 14 {
				others = "with-DG15"
				if docFile(&live.Document, "DG15") == nil {
					others = "no-DG15-on-chip"
				}
			}
			k.Violation(fmt.Sprintf("offline:listed-file-removed-still-trusted:DG%d:%s", n, others), fmt.Sprintf("DG%d, listed in the security object, was removed from the bundle but the offline verdict is still trusted (completeness: %v)", n, res.Session.DocumentVerifyErr), det(map[string]any{"dg": n}))
		}
	}
}

func c14SetRaw(d *document.Document, n int, raw []byte) bool {
	l := &d.Mf.Lds1
	switch n {
	case 1:
		l.Dg1.RawData = raw
	case 2:
		l.Dg2.RawData = raw
	case 7:
		l.Dg7.RawData = raw
	case 11:
		l.Dg11.RawData = raw
	case 12:
		l.Dg12.RawData = raw
	case 13:
		l.Dg13.RawData = raw
	case 14:
		l.Dg14.RawData = raw
	case 15:
		l.Dg15.RawData = raw
	case 16:
		l.Dg16.RawData = raw
	default:
		return false
	}
	return true
}

func runC14(c *fw.Ctx) {
	if err := ecref.SelfTest(); err != nil {
		fw.Bug("ecref self-test: %v", err)
	}
	n := c.Pick(120, 6000)
	c.Cases(n, func(i int) string { return fmt.Sprintf("session|i=%d", i) }, func(i int, k *fw.K) { c14Case(c, k, i) })
	// ground genuine sessions: leading-zero secrets / coordinates / scalars, largest keys
	edges := c14EdgePlan(c)
	c.Cases(len(edges), func(i int) string { return "edge|" + edges[i].String() }, func(i int, k *fw.K) { c14EdgeCase(c, k, i, edges[i]) })
}
