package checks

import (
	"fmt"
	mrand "math/rand/v2"
	"sort"

	"verifharness/chipsim"
	"verifharness/fw"
	"verifharness/mutate"
	"verifharness/perso"
	"verifharness/refber"
)

// reader.ReadDocument against a simulated chip that deviates: files replaced by mutants
// (served correctly, under secure messaging where the protocol has it), single responses
// or every response from some exchange on replaced at the byte level, response DATA
// replaced before it is protected (so that the reader's parsers behind secure messaging
// are reached), odd chunking. The reader recovers panics and returns them as errors: that
// is an error return, not a violation; what remains are process death, allocation and time.

const c12ReaderEntry = "reader.ReadDocument"

type c12ReaderPlan struct {
	session int
	mode    string // file | raw | plain | chunking
	seed    uint64
	desc    string
}

func c12DecSSC(ssc []byte) {
	for i := len(ssc) - 1; i >= 0; i-- {
		ssc[i]--
		if ssc[i] != 0xff {
			return
		}
	}
}

// c12RawResponse mutates the octets of a response as sent.
func c12RawResponse(r *mrand.Rand, resp []byte, earlier [][]byte) []byte {
	switch r.IntN(14) {
	case 0:
		return []byte{}
	case 1:
		return []byte{0x90}
	case 2:
		return []byte{0x90, 0x00}
	case 3:
		return []byte{byte(0x61 + r.IntN(15)), byte(r.Uint32())}
	case 4:
		return append(mutate.Random(r, mutate.RandLen(r, 70000)), 0x90, 0x00)
	case 5:
		return mutate.Random(r, mutate.RandLen(r, 600))
	case 6:
		if len(earlier) > 0 {
			return earlier[r.IntN(len(earlier))]
		}
	case 7:
		if len(resp) >= 2 {
			out := append([]byte{}, resp...)
			out[len(out)-2], out[len(out)-1] = []byte{0x62, 0x63, 0x67, 0x69, 0x6A, 0x6C, 0x6D, 0x6F}[r.IntN(8)], byte(r.Uint32())
			return out
		}
	case 8:
		if len(resp) > 2 {
			return append(mutate.LengthLie(r, resp[:len(resp)-2], c12LieKinds[r.IntN(len(c12LieKinds))], r.IntN(2) == 0), resp[len(resp)-2:]...)
		}
	case 9:
		if len(resp) > 2 {
			if m := c12BERFamily(r, c12BERFams[r.IntN(len(c12BERFams))].name, resp[:len(resp)-2], resp); m != nil {
				return append(m, resp[len(resp)-2:]...)
			}
		}
	}
	return mutate.Bytes(r, resp)
}

// c12PlainData mutates the plain response data (before protection).
func c12PlainData(r *mrand.Rand, data []byte, sw uint16) ([]byte, uint16) {
	switch r.IntN(12) {
	case 0:
		return nil, sw
	case 1:
		return data, []uint16{0x6282, 0x6300, 0x6700, 0x6982, 0x6A80, 0x6A82, 0x6A88, 0x6B00, 0x6CFF, 0x61FF, 0x9001, 0x0000}[r.IntN(12)]
	case 2:
		return mutate.Random(r, len(data)), sw
	case 3:
		return mutate.Random(r, mutate.RandLen(r, 66000)), sw
	case 4:
		if len(data) > 0 {
			return data[:r.IntN(len(data))], sw
		}
	case 5:
		return append(append([]byte{}, data...), mutate.Random(r, 1+mutate.RandLen(r, 300))...), sw
	case 6:
		return mutate.LengthLie(r, data, c12LieKinds[r.IntN(len(c12LieKinds))], r.IntN(2) == 0), sw
	case 7, 8:
		if m := c12BERFamily(r, c12BERFams[r.IntN(len(c12BERFams))].name, data, data); m != nil {
			return m, sw
		}
	case 9:
		// a header that announces a huge object (what ReadFile sizes its loop from)
		return append([]byte{0x60 + byte(r.IntN(16)), 0x84, 0x7f, 0xff, 0xff, byte(r.Uint32())}, data...), sw
	}
	return mutate.Bytes(r, data), sw
}

// readOnce performs one read of a fresh card under the plan; it returns whether the
// reader reported success and the number of response octets delivered.
func (w *c12World) readOnce(pl c12ReaderPlan) (ok bool, delivered int) {
	s := w.sessions[pl.session]
	r := mrand.New(mrand.NewPCG(pl.seed, 0xc12))
	fw.SeedCryptoRand(int64(pl.seed), "c12/reader")
	card := s.p.NewCard(pl.seed)
	card.Extended = true
	lo := liveOpts{maxLe: s.pp.maxLe}
	total := s.exchanges
	if total < 8 {
		total = 8
	}
	switch pl.mode {
	case "file":
		// one or two files replaced by mutants
		for n := 1 + r.IntN(2); n > 0; n-- {
			var fids []int
			inLDS := r.IntN(4) != 0
			m := card.LDS
			if !inLDS {
				m = card.MF
			}
			for fid := range m {
				fids = append(fids, int(fid))
			}
			if len(fids) == 0 {
				m = card.LDS
				for fid := range m {
					fids = append(fids, int(fid))
				}
			}
			sort.Ints(fids)
			fid := uint16(fids[r.IntN(len(fids))])
			old := m[fid]
			fam := c12BERFams[r.IntN(len(c12BERFams))].name
			nf := c12BERFamily(r, fam, old, old)
			if nf == nil {
				nf = mutate.Bytes(r, old)
			}
			c12ClampClaims(nf)
			m[fid] = nf
		}
	case "file-dg14-keyid-in-info-only":
		// the chip's own DG14 with a keyId added to the ChipAuthenticationInfo only (H13): chip
		// authentication is attempted before the hashes are compared
		if dg14 := c12AddKeyIDToCAInfo(card.LDS[chipsim.FidDG(14)]); dg14 != nil {
			card.LDS[chipsim.FidDG(14)] = dg14
		}
	case "file-4GiB":
		// DG11 (listed in this session's security object) whose only element claims 4 GiB
		card.LDS[chipsim.FidDG(11)] = []byte{0x6B, 0x06, 0x04, 0x84, 0xff, 0xff, 0xff, 0xf0}
	case "chunking":
		switch r.IntN(5) {
		case 0:
			card.MaxReturn = 1 + r.IntN(40)
		case 1:
			card.ShortReadRNG = mrand.New(mrand.NewPCG(pl.seed, 9))
		case 2:
			card.ZeroReadAbove = 1 + r.IntN(200)
		case 3:
			card.EOFWarning = true
			card.MaxReturn = 1 + r.IntN(300)
		case 4:
			card.LeCap, card.LeCapSW = 16+r.IntN(240), []uint16{0x6700, 0x6C00}[r.IntN(2)]
		}
		lo.maxLe = []int{1, 2, 3, 7, 64, 255, 256, 257, 65536}[r.IntN(9)]
		card.Extended = r.IntN(2) == 0
		if r.IntN(2) == 0 {
			lo.skipPace = true
		}
	}
	at := r.IntN(total)
	fromThenOn := r.IntN(4) == 0
	var earlier [][]byte
	if pl.mode == "raw" || pl.mode == "plain" {
		card.Hook = func(ev *chipsim.Event) []byte {
			if len(earlier) < 64 {
				earlier = append(earlier, ev.Resp)
			}
			if ev.Index < at || (!fromThenOn && ev.Index > at) {
				return nil
			}
			if pl.mode == "raw" {
				out := c12RawResponse(r, ev.Resp, earlier)
				out = append([]byte{}, out...)
				c12ClampClaims(out)
				return out
			}
			nd, nsw := c12PlainData(r, ev.Data, ev.SW)
			nd = append([]byte{}, nd...)
			c12ClampClaims(nd)
			if ev.Protected && card.SM != nil {
				sm := card.SM.Clone()
				c12DecSSC(sm.SSC)
				return sm.Wrap(nd, nsw)
			}
			return append(append([]byte{}, nd...), byte(nsw>>8), byte(nsw))
		}
	}
	res := liveRead(s.p, card, lo, func(next func([]byte) []byte) func([]byte) []byte {
		return func(raw []byte) []byte {
			out := next(raw)
			delivered += len(out)
			return out
		}
	})
	w.followUps(res.docEx, res.log)
	return res.err == nil, delivered
}

// readerBaseline: warm genuine reads (same code path as the cases, without deviation).
func (w *c12World) readerBaseline() {
	if w.readerBaseDone {
		return
	}
	w.readerBaseDone = true
	c := w.c
	b := &c12Base{}
	for pass := 0; pass < 2; pass++ {
		b = &c12Base{}
		for i := range w.sessions {
			pl := c12ReaderPlan{session: i, mode: "none", seed: uint64(c.Seed)*977 + uint64(i)}
			var ok bool
			m := c12Measure(func() bool { ok, _ = w.readOnce(pl); return ok })
			if !ok || m.panicked {
				fw.Bug("c12: genuine read %d fails in the reader baseline", i)
			}
			if m.alloc > b.alloc {
				b.alloc = m.alloc
			}
			if m.cpu > b.cpu {
				b.cpu = m.cpu
			}
		}
	}
	w.base[c12ReaderEntry] = b
}

func c12ReaderCases(c *fw.Ctx, w *c12World) {
	// directed: a chip file with a 4 GiB length claim inside (alone in its case: a reader that
	// allocates before checking dies of a fatal error that its recover() cannot catch)
	c.Case(fmt.Sprintf("entry=%s|family=chip-file-4GiB|session=0", c12ReaderEntry), func(k *fw.K) {
		w.readerBaseline()
		w.withLogging(k, func() {
			k.Nontrivial("reader|file-4GiB")
			pl := c12ReaderPlan{session: 0, mode: "file-4GiB", seed: 4}
			delivered := 0
			w.exec(k, c12ReaderEntry, "chip-file-4GiB", 8, func() string { return "DG11 = 6b060484fffffff0 on the chip of session 0" }, func() bool {
				ok, d := w.readOnce(pl)
				delivered = d
				return ok
			})
			_ = delivered
		})
	})
	for si, s := range w.sessions {
		// chip authentication only runs when neither AA nor PACE-CAM has authenticated the chip
		if !s.pp.o.CA.On || s.pp.o.AA.Kind != 0 || s.pp.o.Access == perso.PACECAM {
			continue
		}
		si := si
		c.Case(fmt.Sprintf("entry=%s|family=chip-file-dg14-keyid-in-info-only|session=%d", c12ReaderEntry, si), func(k *fw.K) {
			w.readerBaseline()
			w.withLogging(k, func() {
				k.Nontrivial(fmt.Sprintf("reader|dg14-keyid|%d", si))
				pl := c12ReaderPlan{session: si, mode: "file-dg14-keyid-in-info-only", seed: 14}
				w.exec(k, c12ReaderEntry, "chip-file-dg14-keyid-in-info-only", len(w.sessions[si].p.DG14), func() string {
					return fmt.Sprintf("DG14 on the chip = %x", c12AddKeyIDToCAInfo(w.sessions[si].p.DG14))
				}, func() bool {
					ok, _ := w.readOnce(pl)
					return ok
				})
			})
		})
	}
	n := c.Pick(640, 20000)
	modes := []string{"file", "file", "file", "raw", "raw", "plain", "plain", "plain", "chunking", "file"}
	c.Cases(n, func(i int) string {
		return fmt.Sprintf("entry=%s|family=chip-%s|session=%d|i=%d", c12ReaderEntry, modes[i%len(modes)], (i/len(modes))%len(w.sessions), i)
	}, func(i int, k *fw.K) {
		pl := c12ReaderPlan{session: (i / len(modes)) % len(w.sessions), mode: modes[i%len(modes)], seed: k.RNG.Uint64()}
		w.readerBaseline()
		w.withLogging(k, func() {
			k.Nontrivial(fmt.Sprintf("reader|%d", i))
			// the input length (octets delivered by the chip) is only known after the call; the
			// bound is evaluated with the count of the metered run
			delivered := 0
			fn := func() bool {
				ok, d := w.readOnce(pl)
				delivered = d
				return ok
			}
			// first run to learn the length, metered run applies the oracles (the plan is
			// deterministic, so both runs see the same chip)
			m0 := c12Measure(fn)
			k.AddEvals(1)
			if m0.panicked {
				w.viol(k, "panic:"+c12TopLibFrame(m0.stack), fmt.Sprintf("%s let a panic escape: %s", c12ReaderEntry, m0.panicVal), map[string]any{"plan": fmt.Sprintf("%+v", pl), "stack": c12TrimStack(m0.stack)})
				return
			}
			n := delivered
			if m0.accepted {
				k.Count("reader_reads_succeeded_despite_deviation")
			} else {
				k.Count("reader_reads_failed")
			}
			k.Count("family chip-" + pl.mode)
			k.Max("max_cpu_ms "+c12ReaderEntry, m0.cpu.Milliseconds())
			k.Max("max_alloc_KiB "+c12ReaderEntry, int64(m0.alloc>>10))
			if m0.alloc > w.allocBound(c12ReaderEntry, n) || m0.cpu > w.cpuBound(c12ReaderEntry, n) {
				w.exec(k, c12ReaderEntry, "chip-"+pl.mode, n, func() string { return fmt.Sprintf("plan %+v (session %s)", pl, w.sessions[pl.session].pp.String()) }, fn)
			}
		})
	})
}

// c12AddKeyIDToCAInfo makes sure every ChipAuthenticationInfo (protocol
// 0.4.0.127.0.7.2.2.3.*) of a DG14 has a keyId (5 when it had none) and removes the keyId
// of every ChipAuthenticationPublicKeyInfo (0.4.0.127.0.7.2.2.1.*).
func c12AddKeyIDToCAInfo(dg14 []byte) []byte {
	tree, err := refber.Parse(dg14)
	if err != nil {
		return nil
	}
	found := false
	refber.Walk(tree, func(n *refber.Node, _ int) bool {
		if n.Tag == 0x30 && len(n.Children) >= 2 && n.Children[0].Tag == 0x06 {
			v := n.Children[0].Value
			if len(v) == 10 && v[0] == 0x04 && v[7] == 0x03 && n.Children[1].Tag == 0x02 {
				if len(n.Children) == 2 {
					n.Children = append(n.Children, &refber.Node{Tag: 0x02, TagLen: 1, Value: []byte{0x05}})
				}
				found = true
			}
			if len(v) == 9 && v[0] == 0x04 && v[7] == 0x01 && n.Children[1].Tag == 0x30 && len(n.Children) == 3 {
				n.Children = n.Children[:2]
			}
		}
		return true
	})
	if !found {
		return nil
	}
	return refber.Encode(tree)
}
