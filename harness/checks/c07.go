package checks

import (
	"encoding/asn1"
	"fmt"
	"math/big"
	mrand "math/rand/v2"

	"github.com/gmrtd/gmrtd/activeauth"
	"github.com/gmrtd/gmrtd/cms"
	"github.com/gmrtd/gmrtd/document"
	"github.com/gmrtd/gmrtd/iso7816"
	"github.com/gmrtd/gmrtd/verifier"

	"verifharness/chipsim"
	"verifharness/der"
	"verifharness/ecref"
	"verifharness/fw"
	"verifharness/issuer"
	"verifharness/refverify"
)

// C07 - active authentication accepts exactly valid signatures over the challenge.
// Genuine responses come from the harness's chip half (ISO/IEC 9796-2 scheme 1 and ECDSA);
// the reference verifier is integer-valued: an encoding variant of a valid signature may
// be accepted or rejected, but nothing invalid may be accepted.

func init() {
	register(&fw.Spec{
		ID:    "C07",
		Level: "exploration",
		Rule: "genuine case = one AA response produced by the harness chip for a DG15 key (RSA moduli 1024, 1025..1031, 1536, 2048, 3072, 4096 x trailers BC/38CC/34CC/36CC/35CC x M1 shapes; ECDSA on all 11 curves x plain / DER) and a challenge, validated by activeauth.ValidateActiveAuthSignature; " +
			"mutation case = that response with one alteration (bit flips of signature / challenge / key, signature by another key, right hash under a wrong trailer, hash over another challenge, M1 altered, s+N, zero-prefixed values, DER with trailing bytes); oracle: library accepts => the integer-valued reference accepts; genuine => library accepts; " +
			"plumbing case = DoActiveAuth with a caller-supplied challenge against the simulated chip (challenge on the wire = recorded nonce = supplied challenge); non-trivial = every validation; distinct = (key, challenge, variant bytes); " +
			"shape case = genuine ECDSA responses constructed to have a given encoding shape (plain r||s starting like a DER header 30 L-2 / 30 81 L-3 / 30 80 / 30 82, r or s starting 30 / 02 / 00, DER with every INTEGER padding / length combination) on one curve: must be accepted by ValidateActiveAuthSignature, a live DoActiveAuth and VerifyEvidence; " +
			"crafted case = RSA responses S = F^d mod N for short and degenerate recovered messages F (0..6 octets, every trailer, digest lengths 0..hashlen+4): accepted => reference accepts, no panic; " +
			"buffer case = the caller's challenge buffer is changed after WithChallenge / WithAAChallenge (activeauth, reader, mobile, verifiers): chip-side challenge and recorded nonce equal the value handed over",
		MinEvaluations: 3000,
		Assumptions: []string{
			"reference RSA recovery: F = s^e mod n as a byte string without leading zero octets must be 6A || M1 || H(M1 || RND.IFD) || trailer with the hash named by the trailer; reference ECDSA: ecref.Verify over H(RND.IFD), H by key size (>=512 SHA-512, >=384 SHA-384, >=256 SHA-256, else SHA-224), r||s split in halves or DER",
			"for moduli whose bit length is not a multiple of 8 the genuine chip builds a byte-oriented recoverable string one octet shorter than the modulus",
		},
		Run: runC07,
	})
}

func c07Hash(h chipsim.AAHash, data []byte) []byte {
	return []issuer.HashAlg{issuer.SHA1, issuer.SHA224, issuer.SHA256, issuer.SHA384, issuer.SHA512}[h].Sum(data)
}

func c07ECHash(c *ecref.Curve, data []byte) []byte {
	nb := c.N.BitLen()
	switch {
	case nb >= 512:
		return issuer.SHA512.Sum(data)
	case nb >= 384:
		return issuer.SHA384.Sum(data)
	case nb >= 256:
		return issuer.SHA256.Sum(data)
	}
	return issuer.SHA224.Sum(data)
}

// reference verifiers -------------------------------------------------------------------

func c07RefRSA(n, e *big.Int, sig, rnd []byte) bool {
	if len(sig) == 0 || n.BitLen() < 1024 {
		return false
	}
	s := new(big.Int).SetBytes(sig)
	f := new(big.Int).Exp(s, e, n).Bytes() // minimal = without leading zero octets
	if len(f) < 4 || f[0] != 0x6A {
		return false
	}
	var h chipsim.AAHash
	var tl int
	switch {
	case f[len(f)-1] == 0xBC:
		h, tl = chipsim.AASHA1, 1
	case f[len(f)-1] == 0xCC:
		tl = 2
		switch f[len(f)-2] {
		case 0x38:
			h = chipsim.AASHA224
		case 0x34:
			h = chipsim.AASHA256
		case 0x36:
			h = chipsim.AASHA384
		case 0x35:
			h = chipsim.AASHA512
		default:
			return false
		}
	default:
		return false
	}
	hl := len(c07Hash(h, nil))
	body := f[1 : len(f)-tl]
	if len(body) < hl {
		return false
	}
	m1, d := body[:len(body)-hl], body[len(body)-hl:]
	return bytesEq(d, c07Hash(h, append(append([]byte{}, m1...), rnd...)))
}

func c07ParseDER(sig []byte) (r, s *big.Int, ok bool) {
	// 30 L 02 L r 02 L s [trailing bytes tolerated]
	if len(sig) < 8 || sig[0] != 0x30 {
		return nil, nil, false
	}
	dos, err := chipsim.ParseDOs(sig[:min(len(sig), 2+derLen(sig))])
	if err != nil || len(dos) != 1 {
		return nil, nil, false
	}
	in, err := chipsim.ParseDOs(dos[0].Val)
	if err != nil || len(in) != 2 || in[0].Tag != 2 || in[1].Tag != 2 || len(in[0].Val) == 0 || len(in[1].Val) == 0 {
		return nil, nil, false
	}
	if in[0].Val[0]&0x80 != 0 || in[1].Val[0]&0x80 != 0 {
		return nil, nil, false
	}
	return new(big.Int).SetBytes(in[0].Val), new(big.Int).SetBytes(in[1].Val), true
}

func derLen(b []byte) int {
	if len(b) < 2 {
		return 0
	}
	if b[1] < 0x80 {
		return int(b[1])
	}
	n := int(b[1] & 0x7f)
	if len(b) < 2+n {
		return 0
	}
	l := 0
	for i := 0; i < n; i++ {
		l = l<<8 | int(b[2+i])
	}
	return l + n
}

func c07RefEC(c *ecref.Curve, q ecref.Point, sig, rnd []byte) bool {
	h := c07ECHash(c, rnd)
	if len(sig) > 0 && len(sig)%2 == 0 {
		half := len(sig) / 2
		if c.Verify(q, h, new(big.Int).SetBytes(sig[:half]), new(big.Int).SetBytes(sig[half:])) {
			return true
		}
	}
	if len(sig) > 0 && sig[0] == 0x30 {
		if r, s, ok := c07ParseDER(sig); ok && c.Verify(q, h, r, s) {
			return true
		}
	}
	return false
}

// ---------------------------------------------------------------------------------------

type c07Key struct {
	desc string
	aa   *chipsim.AAState
	spki []byte
	// for reference
	n, e  *big.Int
	curve *ecref.Curve
	q     ecref.Point
}

func (k *c07Key) ref(sig, rnd []byte) bool {
	if k.n != nil {
		return c07RefRSA(k.n, k.e, sig, rnd)
	}
	return c07RefEC(k.curve, k.q, sig, rnd)
}

func c07NewDG15(spki []byte) []byte { return der.T(0x6F, spki) }

var c07RSABits = []int{1024, 1025, 1026, 1027, 1028, 1029, 1030, 1031, 1536, 2048, 3072, 4096}

func c07MakeKey(r *mrand.Rand, i int) *c07Key {
	k := &c07Key{}
	aa := &chipsim.AAState{RNG: mrand.New(mrand.NewPCG(r.Uint64(), 23)), HashFn: c07Hash, ECHash: c07ECHash}
	if i%2 == 0 {
		bits := c07RSABits[(i/2)%len(c07RSABits)]
		idx := (i / 2 / len(c07RSABits))
		key := issuer.RSAKeyOf(bits, idx)
		aa.N, aa.E, aa.D = key.RSA.N, key.RSA.E, key.RSA.D
		aa.Hash = chipsim.AAHash((i / 2 / 3) % 5)
		aa.M1Mode = (i / 2) % 3
		// SHA-512 + 2-byte trailer needs room for M1: 1024-bit keys have 128-1-64-2 = 61 octets, fine
		k.n, k.e = key.RSA.N, key.RSA.E
		k.spki = key.SPKI()
		k.desc = fmt.Sprintf("RSA-%d e=%v hash=%d m1mode=%d", bits, key.RSA.E, aa.Hash, aa.M1Mode)
	} else {
		c := ecref.All()[(i/2)%11]
		key := issuer.NewECKey(r, c)
		key.Explicit = (i/22)%2 == 1
		// ICAO 9303-12: explicit ECParameters MUST include the optional cofactor, so the
		// form without cofactor is not a conforming DG15 and is not generated here
		key.WithSeed = key.Explicit && (i/44)%2 == 1
		aa.Curve, aa.Priv = c, key.EC.D
		aa.DER = (i/2/11)%2 == 1
		k.curve, k.q = c, key.EC.Q
		k.spki = key.SPKI()
		k.desc = fmt.Sprintf("EC-%s der=%v explicit=%v", c.Name, aa.DER, key.Explicit)
	}
	k.aa = aa
	return k
}

type c07Variant struct {
	kind string
	sig  []byte
	rnd  []byte
	spki []byte
}

func c07Variants(r *mrand.Rand, k *c07Key, sig, rnd []byte, other *c07Key, thorough bool) []c07Variant {
	var out []c07Variant
	add := func(kind string, s, c, sp []byte) { out = append(out, c07Variant{kind, s, c, sp}) }
	n := len(sig)
	// signature bit flips: a prefix, a suffix and strided positions
	pos := map[int]bool{}
	for i := 0; i < min(n, 6); i++ {
		pos[i] = true
		pos[n-1-i] = true
	}
	stride := max(1, n/16)
	if thorough {
		stride = max(1, n/64)
	}
	for i := 0; i < n; i += stride {
		pos[i] = true
	}
	for p := range pos {
		for _, bit := range []uint{0, 3, 7} {
			v := append([]byte{}, sig...)
			v[p] ^= 1 << bit
			add("sig-bitflip", v, rnd, k.spki)
		}
	}
	// challenge bit flips (all 64)
	for b := 0; b < 64; b++ {
		c := append([]byte{}, rnd...)
		c[b/8] ^= 1 << uint(b%8)
		add("challenge-bitflip", sig, c, k.spki)
	}
	add("challenge-truncated", sig, rnd[:7], k.spki)
	add("challenge-extended", sig, append(append([]byte{}, rnd...), 0), k.spki)
	add("challenge-empty", sig, nil, k.spki)
	// signature made for another challenge
	rnd2 := randBytes(r, 8)
	var sig2 []byte
	if k.n != nil {
		sig2 = k.aa.SignRSA(rnd2)
	} else {
		sig2 = k.aa.SignEC(rnd2)
	}
	add("sig-for-other-challenge", sig2, rnd, k.spki)
	// signature by another key of the same kind
	if other != nil {
		var so []byte
		if other.n != nil {
			so = other.aa.SignRSA(rnd)
		} else {
			so = other.aa.SignEC(rnd)
		}
		add("sig-by-other-key", so, rnd, k.spki)
		add("key-swapped", sig, rnd, other.spki)
	}
	// key bit flips (sampled)
	for j := 0; j < 12; j++ {
		sp := append([]byte{}, k.spki...)
		p := len(sp) - 1 - r.IntN(min(len(sp), 80))
		sp[p] ^= 1 << uint(r.IntN(8))
		add("key-bitflip", sig, rnd, sp)
	}
	add("sig-empty", nil, rnd, k.spki)
	add("sig-truncated", sig[:n-1], rnd, k.spki)
	add("sig-zero", make([]byte, n), rnd, k.spki)
	add("sig-extended", append(append([]byte{}, sig...), 0), rnd, k.spki)
	if k.n != nil {
		aa := k.aa
		kb := (k.n.BitLen() + 7) / 8
		signF := func(f []byte) []byte {
			return new(big.Int).Exp(new(big.Int).SetBytes(f), aa.D, aa.N).FillBytes(make([]byte, kb))
		}
		f := aa.LastF
		m1 := aa.LastM1
		t := chipsim.AATrailers[aa.Hash]
		// right hash, wrong trailer
		for h2, t2 := range chipsim.AATrailers {
			if h2 == aa.Hash {
				continue
			}
			f2 := append(append([]byte{}, f[:len(f)-len(t)]...), t2...)
			add("rsa-wrong-trailer", signF(f2), rnd, k.spki)
		}
		// unknown trailers
		for _, t2 := range [][]byte{{0xCC}, {0x33, 0xCC}, {0x00}, {0xBD}} {
			f2 := append(append([]byte{}, f[:len(f)-len(t)]...), t2...)
			add("rsa-unknown-trailer", signF(f2), rnd, k.spki)
		}
		// a correct SHA-1 digest under an unknown xxCC trailer (must not be read as "SHA-1")
		for _, t2 := range [][]byte{{0x33, 0xCC}, {0x00, 0xCC}, {0x3A, 0xCC}, {0xBC, 0xCC}} {
			m1u := randBytes(r, kb-1-20-2-(kb-len(f)))
			fu := append([]byte{0x6A}, m1u...)
			fu = append(fu, c07Hash(chipsim.AASHA1, append(append([]byte{}, m1u...), rnd...))...)
			fu = append(fu, t2...)
			add("rsa-sha1-digest-under-unknown-trailer", signF(fu), rnd, k.spki)
		}
		// hash over M1 only / over the challenge only / over another challenge, properly signed
		hl := len(c07Hash(aa.Hash, nil))
		mk := func(d []byte) []byte {
			f2 := append([]byte{0x6A}, m1...)
			f2 = append(f2, d...)
			return append(f2, t...)
		}
		add("rsa-hash-without-challenge", signF(mk(c07Hash(aa.Hash, m1))), rnd, k.spki)
		add("rsa-hash-challenge-only", signF(mk(c07Hash(aa.Hash, rnd))), rnd, k.spki)
		add("rsa-hash-other-challenge", signF(mk(c07Hash(aa.Hash, append(append([]byte{}, m1...), rnd2...)))), rnd, k.spki)
		add("rsa-hash-challenge-first", signF(mk(c07Hash(aa.Hash, append(append([]byte{}, rnd...), m1...)))), rnd, k.spki)
		// header altered
		for _, hd := range []byte{0x4A, 0x6B, 0x2A, 0x00} {
			f2 := append([]byte{}, f...)
			f2[0] = hd
			add("rsa-wrong-header", signF(f2), rnd, k.spki)
		}
		// M1 altered but digest kept
		if len(m1) > 0 {
			f2 := append([]byte{}, f...)
			f2[1+r.IntN(len(m1))] ^= 0x10
			add("rsa-m1-altered", signF(f2), rnd, k.spki)
		}
		_ = hl
		// integer-equivalent encodings (either verdict is fine)
		sn := new(big.Int).Add(new(big.Int).SetBytes(sig), k.n)
		add("rsa-s-plus-n", sn.Bytes(), rnd, k.spki)
		add("rsa-zero-prefixed", append([]byte{0, 0}, sig...), rnd, k.spki)
		// s = 0, 1, n-1
		add("rsa-s-one", big.NewInt(1).FillBytes(make([]byte, kb)), rnd, k.spki)
		add("rsa-s-n-minus-1", new(big.Int).Sub(k.n, big.NewInt(1)).FillBytes(make([]byte, kb)), rnd, k.spki)
	} else {
		c := k.curve
		nl := (c.N.BitLen() + 7) / 8
		var rr, ss *big.Int
		if k.aa.DER {
			rr, ss, _ = c07ParseDER(sig)
		} else {
			rr, ss = new(big.Int).SetBytes(sig[:n/2]), new(big.Int).SetBytes(sig[n/2:])
		}
		if rr != nil {
			plain := func(a, b *big.Int, l int) []byte {
				return append(a.FillBytes(make([]byte, l)), b.FillBytes(make([]byte, l))...)
			}
			// the other encoding of the same (r, s): valid for the reference
			if k.aa.DER {
				add("ec-plain-of-der", plain(rr, ss, nl), rnd, k.spki)
			} else {
				add("ec-der-of-plain", issuer.ECDSASigDER(rr, ss), rnd, k.spki)
			}
			add("ec-zero-prefixed", plain(rr, ss, nl+2), rnd, k.spki)
			add("ec-der-trailing", append(issuer.ECDSASigDER(rr, ss), 0xAA, 0xBB), rnd, k.spki)
			// s + N, N - s, swapped, r = 0, s = 0
			spn := new(big.Int).Add(ss, c.N)
			add("ec-s-plus-n", plain(rr, spn, nl+1), rnd, k.spki)
			add("ec-n-minus-s", plain(rr, new(big.Int).Sub(c.N, ss), nl), rnd, k.spki) // valid (malleability)
			add("ec-swapped", plain(ss, rr, nl), rnd, k.spki)
			add("ec-r-zero", plain(big.NewInt(0), ss, nl), rnd, k.spki)
			add("ec-s-zero", plain(rr, big.NewInt(0), nl), rnd, k.spki)
			add("ec-r-equals-n", plain(c.N, ss, nl+1), rnd, k.spki)
			// signature over the challenge under another hash
			for _, h := range []issuer.HashAlg{issuer.SHA1, issuer.SHA224, issuer.SHA256, issuer.SHA384, issuer.SHA512} {
				d := h.Sum(rnd)
				if bytesEq(d, c07ECHash(c, rnd)) {
					continue
				}
				r2, s2, ok := c.Sign(k.aa.Priv, d, new(big.Int).SetBytes(randBytes(r, c.ByteLen)))
				if ok {
					add("ec-wrong-hash", plain(r2, s2, nl), rnd, k.spki)
				}
			}
		}
	}
	return out
}

func c07Validate(k *fw.K, spki, sig, rnd []byte) (accepted bool, evidenceOK bool, errStr string) {
	dg15, err := document.NewDG15(c07NewDG15(spki))
	if err != nil || dg15 == nil {
		return false, true, "NewDG15: " + fmt.Sprint(err)
	}
	res, err := activeauth.ValidateActiveAuthSignature(dg15, sig, rnd)
	accepted = err == nil && res != nil && res.Success
	evidenceOK = true
	if accepted && (res.Evidence == nil || !bytesEq(res.Evidence.Nonce, rnd) || !bytesEq(res.Evidence.Signature, sig)) {
		evidenceOK = false
	}
	if err == nil && res != nil && !res.Success {
		errStr = "no error but Success=false"
	}
	return accepted, evidenceOK, fmt.Sprint(err) + errStr
}

func c07Case(c *fw.Ctx, k *fw.K, i int) {
	r := k.RNG
	key := c07MakeKey(r, i)
	other := c07MakeKey(r, i+2*len(c07RSABits)*11) // same kind (parity), other parameters
	if other.n != nil && other.n.Cmp(key.n) == 0 {
		other = c07MakeKey(r, i+2) // next modulus size: certainly another key
	}
	nch := c.Pick(2, 4)
	for j := 0; j < nch; j++ {
		rnd := randBytes(r, 8)
		switch j {
		case 1:
			rnd = make([]byte, 8)
		case 2:
			rnd = []byte{0xff, 0xff, 0xff, 0xff, 0xff, 0xff, 0xff, 0xff}
		}
		var sig []byte
		if key.n != nil {
			sig = key.aa.SignRSA(rnd)
		} else {
			sig = key.aa.SignEC(rnd)
		}
		det := func(kind string, s, ch, sp []byte) map[string]any {
			return map[string]any{"key": key.desc, "spki": hexCap(sp, 700), "challenge": fmt.Sprintf("%x", ch), "response": hexCap(s, 1100), "variant": kind, "genuine_response": hexCap(sig, 1100)}
		}
		if !key.ref(sig, rnd) {
			fw.Bug("reference rejects the harness's own genuine AA response (%s)", key.desc)
		}
		k.AddEvals(1)
		k.Count("genuine")
		acc, evOK, es := c07Validate(k, key.spki, sig, rnd)
		if !acc {
			kind := "rsa"
			if key.n == nil {
				kind = "ec:" + key.curve.Name
				if key.aa.DER {
					kind += ":der"
				}
			} else if key.n.BitLen()%8 != 0 {
				kind = "rsa:modulus-bits-not-multiple-of-8"
			}
			k.Violation("aa:genuine-rejected:"+kind, fmt.Sprintf("genuine AA response rejected (%s): %s", key.desc, es), det("genuine", sig, rnd, key.spki))
			continue
		}
		if !evOK {
			k.Violation("aa:evidence-mismatch", "recorded evidence differs from the validated nonce/signature", det("genuine", sig, rnd, key.spki))
		}
		if j == 0 {
			k.Sample("genuine", map[string]any{"key": key.desc, "challenge": fmt.Sprintf("%x", rnd), "response": hexCap(sig, 80)})
		}
		for _, v := range c07Variants(r, key, sig, rnd, other, c.Thorough()) {
			if bytesEq(v.sig, sig) && bytesEq(v.rnd, rnd) && bytesEq(v.spki, key.spki) {
				continue
			}
			k.AddEvals(1)
			k.Distinct(fmt.Sprintf("%s|%x|%x|%x", key.desc, v.rnd, fnvBytes(v.sig), fnvBytes(v.spki)))
			acc, _, _ := c07Validate(k, v.spki, v.sig, v.rnd)
			if !acc {
				k.Count("rejected_" + v.kind)
				continue
			}
			// accepted: the reference must agree (only when the key is the unmodified one can
			// the reference be evaluated; a mutated key that still parses is judged with the
			// mutated parameters when it is the swapped key of 'other')
			var refOK, refKnown bool
			switch {
			case bytesEq(v.spki, key.spki):
				refOK, refKnown = key.ref(v.sig, v.rnd), true
			case other != nil && bytesEq(v.spki, other.spki):
				refOK, refKnown = other.ref(v.sig, v.rnd), true
			default:
				// mutated key: resolve it with the reference SPKI reader (explicit
				// parameters identify a standardised curve by its prime, as the library
				// documents) and judge the response under the key it then denotes
				if pk, err := refverify.ParseSPKI(v.spki); err == nil {
					mk := &c07Key{}
					if pk.RSA != nil {
						mk.n, mk.e = pk.RSA.N, pk.RSA.E
					} else {
						mk.curve, mk.q = pk.Curve, pk.Q
					}
					refOK, refKnown = mk.ref(v.sig, v.rnd), true
					if refOK {
						k.Count("accepted_key_mutation_outside_the_identified_key")
					}
				}
			}
			if !refKnown {
				k.Violation("aa:accepted-under-unparseable-key", fmt.Sprintf("response accepted under a mutated DG15 key that the reference cannot resolve (%s)", v.kind), det(v.kind, v.sig, v.rnd, v.spki))
				continue
			}
			if refOK {
				k.Count("accepted_valid_equivalent_" + v.kind)
				continue
			}
			k.Violation("aa:accepts-invalid:"+v.kind, fmt.Sprintf("%s variant accepted although it is not a valid signature over the challenge (%s)", v.kind, key.desc), det(v.kind, v.sig, v.rnd, v.spki))
		}
	}
}

func fnvBytes(b []byte) uint64 {
	h := uint64(14695981039346656037)
	for _, x := range b {
		h ^= uint64(x)
		h *= 1099511628211
	}
	return h
}

// plumbing: caller-supplied challenge goes on the wire and into the evidence
func c07Plumbing(k *fw.K, i int) {
	r := k.RNG
	key := c07MakeKey(r, i)
	if key.n != nil && (key.n.BitLen()+7)/8 > 256 {
		key = c07MakeKey(r, 2*(i%8)) // short-APDU session: signature must fit 256 octets
	}
	card := chipsim.NewCard()
	card.AA = key.aa
	tr := &funcTransceiver{f: card.Transceive}
	nfc := iso7816.NewNfcSession(tr)
	doc := &document.Document{}
	dg15, err := document.NewDG15(c07NewDG15(key.spki))
	if err != nil {
		fw.LibFail("dg15-rejected", "NewDG15 rejects a well-formed DG15: %v", err)
	}
	doc.Mf.Lds1.Dg15 = dg15
	ch := randBytes(r, 8)
	supplied := i%3 != 0
	aa := activeauth.NewActiveAuth(nfc, doc)
	if supplied {
		if aa, err = aa.WithChallenge(ch); err != nil {
			k.Violation("aa:withchallenge-rejected", fmt.Sprintf("WithChallenge rejects an 8-byte challenge: %v", err), nil)
			return
		}
	}
	k.Nontrivial(fmt.Sprintf("plumb|%s|%x|%v", key.desc, ch, supplied))
	k.Count("plumbing_runs")
	res, err := aa.DoActiveAuth()
	det := map[string]any{"key": key.desc, "supplied_challenge": fmt.Sprintf("%x", ch), "supplied": supplied, "chip_saw": fmt.Sprintf("%x", card.AAChallenges), "err": fmt.Sprint(err)}
	if err != nil || res == nil || !res.Success {
		k.Violation("aa:live-genuine-failed", fmt.Sprintf("DoActiveAuth against the chip holding the DG15 key failed: %v", err), det)
		return
	}
	if len(card.AAChallenges) != 1 || len(card.AAChallenges[0]) != 8 {
		k.Violation("aa:wire-challenge-shape", "chip did not receive exactly one 8-byte challenge", det)
		return
	}
	wire := card.AAChallenges[0]
	if supplied && !bytesEq(wire, ch) {
		k.Violation("aa:supplied-challenge-not-transmitted", fmt.Sprintf("challenge on the wire %x differs from the caller's %x", wire, ch), det)
		return
	}
	if res.Evidence == nil || !bytesEq(res.Evidence.Nonce, wire) {
		k.Violation("aa:recorded-nonce-differs-from-wire", "evidence nonce differs from the challenge that was transmitted", det)
		return
	}
	if !bytesEq(res.Evidence.Signature, key.aa.LastSig) {
		k.Violation("aa:recorded-signature-differs", "evidence signature differs from the chip's response", det)
		return
	}
	k.Count("plumbing_ok")

	// offline nonce binding: verification with a supplied challenge hard-fails exactly when
	// the recorded nonce differs - whatever else is wrong with the evidence
	mk := func(mod func(e *document.ActiveAuthEvidence)) []byte {
		ev := *res.Evidence
		ev.Nonce = append([]byte{}, res.Evidence.Nonce...)
		ev.Signature = append([]byte{}, res.Evidence.Signature...)
		if mod != nil {
			mod(&ev)
		}
		dx := &document.DocumentEx{Document: *doc}
		dx.Session.ActiveAuthResult = &document.ActiveAuthResult{Success: true, Evidence: &ev}
		blob, err := dx.ToCbor()
		if err != nil {
			fw.LibFail("export-failed", "ToCbor of a document with AA evidence: %v", err)
		}
		return blob
	}
	other := append([]byte{}, wire...)
	other[r.IntN(8)] ^= 1 << uint(r.IntN(8))
	type oc struct {
		name      string
		blob      []byte
		challenge []byte
		recorded  []byte
	}
	altered := append([]byte{}, wire...)
	altered[0] ^= 0x80
	cases := []oc{
		{"genuine/no-challenge", mk(nil), nil, wire},
		{"genuine/same-challenge", mk(nil), wire, wire},
		{"genuine/other-challenge", mk(nil), other, wire},
		{"nonce-altered/original-challenge", mk(func(e *document.ActiveAuthEvidence) { e.Nonce = altered }), wire, altered},
		{"signature-damaged/other-challenge", mk(func(e *document.ActiveAuthEvidence) { e.Signature[len(e.Signature)/2] ^= 0x04 }), other, wire},
		{"signature-damaged/same-challenge", mk(func(e *document.ActiveAuthEvidence) { e.Signature[len(e.Signature)/2] ^= 0x04 }), wire, wire},
		{"algorithm-foreign/other-challenge", mk(func(e *document.ActiveAuthEvidence) { e.Algorithm = asn1.ObjectIdentifier{2, 5, 4, 3} }), other, wire},
		{"nonce-extended/original-challenge", mk(func(e *document.ActiveAuthEvidence) { e.Nonce = append(e.Nonce, 0) }), wire, append(append([]byte{}, wire...), 0)},
	}
	for _, cs := range cases {
		v := verifier.NewVerifier(&cms.GenericCertPool{})
		if cs.challenge != nil {
			if _, err := v.WithAAChallenge(cs.challenge); err != nil {
				k.Violation("aa:offline:withchallenge-rejected", fmt.Sprintf("Verifier.WithAAChallenge rejects an 8-byte challenge: %v", err), det)
				return
			}
		}
		k.AddEvals(1)
		k.Distinct(fmt.Sprintf("offline|%s|%s|%x", key.desc, cs.name, cs.challenge))
		out, verr := v.Verify(cs.blob)
		mismatch := cs.challenge != nil && !bytesEq(cs.challenge, cs.recorded)
		d2 := map[string]any{"key": key.desc, "case": cs.name, "supplied": fmt.Sprintf("%x", cs.challenge), "recorded_nonce": fmt.Sprintf("%x", cs.recorded), "err": fmt.Sprint(verr)}
		if mismatch && verr == nil {
			k.Violation("aa:offline:nonce-mismatch-not-a-hard-failure:"+cs.name, "offline verification with a supplied challenge that differs from the recorded nonce does not return an error", d2)
			return
		}
		if !mismatch && verr != nil {
			k.Violation("aa:offline:hard-failure-without-mismatch:"+cs.name, fmt.Sprintf("offline verification fails hard although the supplied challenge equals the recorded nonce (or none was supplied): %v", verr), d2)
			return
		}
		if cs.name == "genuine/no-challenge" || cs.name == "genuine/same-challenge" {
			if out == nil || out.Session.ActiveAuthResult == nil || !out.Session.ActiveAuthResult.Success {
				k.Violation("aa:offline:genuine-evidence-rejected", "genuine AA evidence does not verify offline", d2)
				return
			}
		}
		k.Count("offline_nonce_binding_cases")
	}
}

func runC07(c *fw.Ctx) {
	if err := ecref.SelfTest(); err != nil {
		fw.Bug("ecref self-test: %v", err)
	}
	n := c.Pick(96, 1056)
	c.Cases(n, func(i int) string { return fmt.Sprintf("keys|i=%d", i) }, func(i int, k *fw.K) {
		k.Nontrivial("")
		c07Case(c, k, i)
	})
	np := c.Pick(60, 600)
	c.Cases(np, func(i int) string { return fmt.Sprintf("plumbing|i=%d", i) }, func(i int, k *fw.K) { c07Plumbing(k, i) })

	// genuine ECDSA responses of constructed shapes (c07_shapes.go): every curve, named and
	// explicit parameters
	c07ShapeSelfTest()
	ns := c.Pick(33, 660)
	c.Cases(ns, func(i int) string {
		return fmt.Sprintf("ec-shapes|curve=%s|group=%s|i=%d", ecref.All()[i%11].Name, c07ECShapeGroups[(i/11)%3], i)
	}, func(i int, k *fw.K) {
		k.Nontrivial("")
		c07ECShapeCase(c, k, i)
	})
	// hostile key holder: responses that open to a chosen recovered message (c07_crafted.go)
	type ck struct{ bits, idx int }
	var cks []ck
	for _, b := range []int{1024, 1027, 1031, 2048} {
		cks = append(cks, ck{b, 0})
	}
	if c.Thorough() {
		cks = nil
		for _, b := range c07RSABits {
			for idx := 0; idx < min(2, issuer.RSAKeyCount(b)); idx++ {
				cks = append(cks, ck{b, idx})
			}
		}
	}
	c.Cases(len(cks)*len(c07CraftGroups), func(i int) string {
		return fmt.Sprintf("crafted-recovered-message|bits=%d|group=%s|i=%d", cks[i/len(c07CraftGroups)].bits, c07CraftGroups[i%len(c07CraftGroups)], i)
	}, func(i int, k *fw.K) {
		k.Nontrivial("")
		c07CraftedCase(c, k, cks[i/len(c07CraftGroups)].bits, cks[i/len(c07CraftGroups)].idx, i%len(c07CraftGroups))
	})
	// the caller's challenge buffer changes after the hand-over (c07_buffers.go)
	c.Cases(c.Pick(42, 420), func(i int) string { return fmt.Sprintf("challenge-buffer-direct|i=%d", i) }, func(i int, k *fw.K) { c07BufferDirect(k, i) })
	c.Cases(c.Pick(10, 100), func(i int) string { return fmt.Sprintf("challenge-buffer-reader|i=%d", i) }, func(i int, k *fw.K) { c07BufferReader(k, i) })
	c.Cases(c.Pick(5, 50), func(i int) string { return fmt.Sprintf("challenge-buffer-mobile|i=%d", i) }, func(i int, k *fw.K) { c07BufferMobile(k, i) })
	c.Cases(c.Pick(16, 160), func(i int) string { return fmt.Sprintf("challenge-buffer-verifier|i=%d", i) }, func(i int, k *fw.K) { c07BufferVerifier(k, i) })
}
