package checks

import (
	"bytes"
	"encoding/hex"
	"fmt"
	"runtime"
	"runtime/debug"
	"strings"

	"github.com/gmrtd/gmrtd/tlv"

	"verifharness/fw"
	"verifharness/refber"
)

// C16 - TLV decoding is faithful, canonicalising and bounded.
//
// Reference: refber (independent lenient BER reader with byte offsets). Every oracle is an
// implication on "the library accepts"; refusing an input is never a violation.
//
// Violation keys (each names one class of discrepancy):
//   tlv:eoc-in-definite-swallowed           the only difference to the reference tree is that a
//                                           trailing `00 00` of definite contents / of the top
//                                           level is missing from the library's tree (H3)
//   tlv:eoc-longform-in-definite-swallowed  same with tag 0 / long-form zero length (00 81 00)
//   tlv:eoc-in-definite-drops-siblings      library's tree = reference tree cut at a tag-0/len-0
//                                           element of definite contents (siblings lost)
//   tlv:accepts-unparseable                 library accepts what no lenient BER reading parses
//   tlv:tree-mismatch:<tag|nesting|value|count>   any other difference of the trees
//   tlv:encode-not-canonical / tlv:reencode-rejected / tlv:reencode-tree-differs /
//   tlv:reencode-not-idempotent / tlv:decodeencode-differs / tlv:canonical-not-reproduced
//   tlv:lookup-wrong-element / tlv:lookup-missing / tlv:lookup-beyond-count
//   tlv:depth-limit-not-enforced / tlv:count-limit-not-enforced      (asserted at 2x the limits)
//   tlv:unwrap-mismatch / tlv:unwraptag-wrong-tag-accepted
//   panic:tlv.Unwrap:indefinite-length      Unwrap/UnwrapTag on an indefinite-length element (H7)
//   panic:tlv.Unwrap:other                  any other panic inside Unwrap
//   (panics inside Decode/Encode/lookups are recorded by the framework as panic:<pkg.func>)

func init() {
	register(&fw.Spec{
		ID:    "C16",
		Level: "exploration",
		Rule: "case = one byte string given to tlv.Decode / DecodeEncode / Unwrap / UnwrapTag and to the independent BER reader; " +
			"families: directed (end-of-contents in definite contents and at top level, missing end-of-contents, 4-octet tags, zero tags, length forms at 127/128/255/256/65535/65536), " +
			"nesting chains of depth 1..1000 in 6 shapes, element counts 1..40000 in 5 shapes, and 50k (quick) | 2M (thorough) grammar-generated encodings " +
			"(35% arbitrary BER with 1-4 octet tags, short/81-84/non-minimal/indefinite lengths, nesting 0..60, up to 8 KiB; 20% canonical; 5% with tag-0/length-0 elements; 20% byte-mutated; 15% tree-mutated; 5% junk/splices); " +
			"non-trivial = the library accepts the input (so the tree, lookup and canonicalisation oracles ran) or a limit assertion applies; distinct = distinct input bytes",
		MinEvaluations: 40000,
		Assumptions: []string{
			"the harness's own BER reader (refber, std lib only, self-tested against its generator's constructive trees) is the reference for tags, nesting, values and byte accounting",
			"`00 00` is an end-of-contents only inside indefinite-length contents; elsewhere it is an element with tag 0 and length 0 (X.690 8.1.5)",
			"missing end-of-contents at the end of the enclosing contents, non-minimal tag numbers and `00 81 00` read as end-of-contents inside indefinite contents are leniency (counted, not flagged)",
			"limits: refusal is asserted only for nesting >= 100 and >= 20000 elements (twice the documented 50 / 10000); behaviour at the exact limits is reported in counters",
			"mutated inputs have long-form length claims clamped below 1 MiB (allocation before checking is C12's subject, not C16's)",
		},
		Run: runC16,
	})
}

// Reading decision (DESIGN appendix B, C16): inside indefinite-length contents the library
// also takes `00 81 00` / `00 82 00 00` ... (tag 0, zero length in long form) for the
// end-of-contents. Universal tag 0 is reserved, so the input has no valid BER reading either
// way, and no octet is dropped; it is counted as leniency like a missing end-of-contents.
// Set to false to flag it (key tlv:eoc-longform-in-indefinite).
const c16LongFormEOCIsLeniency = true

const c16ViolCap = 25 // per key and worker process; the rest is only counted

var c16ViolSeen = map[string]int{}

func c16Viol(k *fw.K, key, what string, detail map[string]any) {
	c16ViolSeen[key]++
	if c16ViolSeen[key] > c16ViolCap {
		k.Count("violations_beyond_cap " + key)
		return
	}
	k.Violation(key, what, detail)
}

func c16Hex(b []byte) string {
	if len(b) <= 96 {
		return hex.EncodeToString(b)
	}
	return hex.EncodeToString(b[:64]) + "..." + hex.EncodeToString(b[len(b)-24:])
}

func c16LibConstructed(n tlv.TlvNode) bool {
	switch n.(type) {
	case *tlv.TlvConstructedNode, tlv.TlvConstructedNode:
		return true
	case *tlv.TlvSimpleNode, tlv.TlvSimpleNode:
		return false
	}
	return n.Tag().IsConstructed()
}

// c16Convert copies the library's tree into refber nodes (tags, nesting, primitive values).
func c16Convert(ns []tlv.TlvNode, depth int) []*refber.Node {
	out := make([]*refber.Node, 0, len(ns))
	for _, n := range ns {
		r := &refber.Node{Tag: uint32(n.Tag()), Constructed: c16LibConstructed(n)}
		if r.Constructed {
			if depth < 4000 {
				r.Children = c16Convert(n.Children(), depth+1)
			}
		} else {
			r.Value = n.Value()
		}
		out = append(out, r)
	}
	return out
}

// c16Same: identity of two library nodes (false when the dynamic types are not comparable).
func c16Same(a, b tlv.TlvNode) (same bool) {
	defer func() {
		if recover() != nil {
			same = false
		}
	}()
	return a == b
}

func c16IsTag0Len0(n *refber.Node) bool {
	return n.Tag == 0 && !n.Constructed && !n.Indefinite && n.ValLen == 0 && len(n.Value) == 0
}

// c16Prune returns a copy of the forest in which the LAST child of every definite-length
// contents (and of the top level) is removed when it is a tag-0/length-0 element: what a
// reader does that takes `00 00` for an end-of-contents everywhere.
func c16Prune(ns []*refber.Node, definite bool, short, long *int, bytesLost *int) []*refber.Node {
	out := make([]*refber.Node, 0, len(ns))
	for i, n := range ns {
		if definite && i == len(ns)-1 && c16IsTag0Len0(n) {
			if n.LenOctets <= 1 {
				*short++
			} else {
				*long++
			}
			*bytesLost += n.HdrLen
			continue
		}
		if n.Constructed {
			c := *n
			c.Children = c16Prune(n.Children, !n.Indefinite, short, long, bytesLost)
			out = append(out, &c)
		} else {
			out = append(out, n)
		}
	}
	return out
}

// c16Cut returns a copy of the forest in which every definite-length contents (and the
// top level) stops at its first tag-0/length-0 element; cut reports whether a sibling
// was lost that way.
func c16Cut(ns []*refber.Node, definite bool, lost *int) []*refber.Node {
	out := make([]*refber.Node, 0, len(ns))
	for i, n := range ns {
		if definite && c16IsTag0Len0(n) {
			*lost += len(ns) - 1 - i
			break
		}
		if n.Constructed {
			c := *n
			c.Children = c16Cut(n.Children, !n.Indefinite, lost)
			out = append(out, &c)
		} else {
			out = append(out, n)
		}
	}
	return out
}

func c16MismatchKind(d string) string {
	switch {
	case strings.Contains(d, ": tag "):
		return "tag"
	case strings.Contains(d, ": constructed "):
		return "nesting"
	case strings.Contains(d, ": value "):
		return "value"
	}
	return "count"
}

type c16Res struct {
	accepted bool
	refOK    bool
	depth    int
	count    int
}

// c16Check runs every oracle on one input. canonical: the input was generated definite and
// minimal-length (so the equality "output = input" applies).
func c16Check(k *fw.K, x []byte, canonical bool) c16Res {
	var res c16Res
	det := func(extra map[string]any) map[string]any {
		m := map[string]any{"input_len": len(x), "input": c16Hex(x)}
		for a, b := range extra {
			m[a] = b
		}
		return m
	}

	// ---- reference
	A, aerr := refber.Parse(x)
	if aerr == nil {
		if err := refber.CheckLayout(A, len(x)); err != nil {
			fw.Bug("refber accounting self-check failed on %x: %v", x, err)
		}
		res.refOK = true
		res.depth, res.count = refber.Depth(A), refber.Count(A)
	}

	// ---- Unwrap / UnwrapTag (first: it does not depend on Decode)
	c16Unwrap(k, x, det)

	// ---- library
	in := bytes.Clone(x)
	lib, lerr := tlv.Decode(in)
	if lerr != nil {
		k.Count("lib_refuses")
		if aerr == nil {
			switch {
			case res.depth > 50 || res.count > 10000:
				k.Count("lib_refuses_readable_ber_beyond_a_limit")
			default:
				lost, longLen, tag0 := 0, false, false
				c16Cut(A, true, &lost)
				refber.Walk(A, func(n *refber.Node, _ int) bool {
					longLen = longLen || n.LenOctets > 5
					tag0 = tag0 || c16IsTag0Len0(n)
					return true
				})
				if lost > 0 {
					k.Count("lib_refuses_readable_ber_with_00_00_before_siblings")
				} else if tag0 {
					k.Count("lib_refuses_readable_ber_with_other_tag0_len0_element")
				} else if longLen {
					k.Count("lib_refuses_readable_ber_with_length_field_over_4_octets")
				} else {
					k.Count("lib_refuses_readable_ber_other")
					k.Sample("refused-readable", det(map[string]any{"error": lerr.Error(), "reference_tree": refber.Summary(A, 160)}))
				}
			}
		}
		return res
	}
	res.accepted = true
	k.Count("lib_accepts")
	if !bytes.Equal(in, x) {
		c16Viol(k, "tlv:decode-modifies-input", "tlv.Decode changed its input buffer", det(nil))
	}
	L := c16Convert(lib.Nodes(), 0)

	// ---- tree faithful + byte accounting
	R := A // the reference reading the library's tree agrees with
	agree := false
	h3 := false
	if aerr == nil {
		if refber.Equal(L, A) {
			agree = true
		}
	}
	if !agree {
		type cand struct {
			tree    []*refber.Node
			lenient bool
		}
		var cands []cand
		if aerr == nil {
			cands = append(cands, cand{A, false})
		}
		if B, berr := refber.ParseOpts(x, refber.Options{LongFormEOC: true}); berr == nil {
			if err := refber.CheckLayout(B, len(x)); err != nil {
				fw.Bug("refber accounting self-check (long-form EOC reading) failed on %x: %v", x, err)
			}
			cands = append(cands, cand{B, true})
		}
		if len(cands) == 0 {
			c16Viol(k, "tlv:accepts-unparseable", fmt.Sprintf("tlv.Decode accepts %d octets that the lenient BER reader cannot parse: %v", len(x), aerr),
				det(map[string]any{"reference_error": aerr.Error(), "library_tree": refber.Summary(L, 200)}))
			return res
		}
		for _, c := range cands {
			if c.lenient && refber.Equal(L, c.tree) {
				k.Count("lenient_longform_eoc_in_indefinite")
				if !c16LongFormEOCIsLeniency {
					c16Viol(k, "tlv:eoc-longform-in-indefinite", "tlv.Decode ends indefinite-length contents at a tag-0 element whose zero length is in long form (00 81 00); X.690 knows only 00 00",
						det(map[string]any{"reference_tree": refber.Summary(A, 200), "library_tree": refber.Summary(L, 200)}))
				}
				R, agree = c.tree, true
				break
			}
		}
		if !agree {
			for _, c := range cands {
				short, long, lostBytes := 0, 0, 0
				P := c16Prune(c.tree, true, &short, &long, &lostBytes)
				if short+long > 0 && refber.Equal(L, P) {
					key := "tlv:eoc-in-definite-swallowed"
					if long > 0 {
						key = "tlv:eoc-longform-in-definite-swallowed"
					}
					if c.lenient {
						k.Count("lenient_longform_eoc_in_indefinite")
					}
					k.Count("h3_swallowed_inputs")
					c16Viol(k, key, fmt.Sprintf("tlv.Decode accepts the input but %d octets are in no element of its tree: %d trailing tag-0/length-0 element(s) of definite-length contents / of the top level are taken for end-of-contents and dropped (reference tree has %d elements, library tree %d)",
						lostBytes, short+long, refber.Count(c.tree), refber.Count(L)),
						det(map[string]any{"reference_tree": refber.Summary(c.tree, 200), "library_tree": refber.Summary(L, 200), "octets_unaccounted": lostBytes, "reencoded": c16Hex(lib.Encode())}))
					R, agree, h3 = P, true, true
					break
				}
			}
		}
		if !agree {
			for _, c := range cands {
				lost := 0
				Cut := c16Cut(c.tree, true, &lost)
				if lost > 0 && refber.Equal(L, Cut) {
					c16Viol(k, "tlv:eoc-in-definite-drops-siblings", fmt.Sprintf("tlv.Decode accepts the input but stops at a `00 00` inside definite-length contents and silently drops %d following sibling element(s)", lost),
						det(map[string]any{"reference_tree": refber.Summary(c.tree, 200), "library_tree": refber.Summary(L, 200)}))
					return res
				}
			}
			d := refber.Diff(L, cands[0].tree)
			c16Viol(k, "tlv:tree-mismatch:"+c16MismatchKind(d), "tlv.Decode accepts the input but its tree differs from the BER reading (library vs reference) at "+d,
				det(map[string]any{"reference_tree": refber.Summary(cands[0].tree, 200), "library_tree": refber.Summary(L, 200)}))
			return res
		}
	}

	// ---- leniency counters (on the reading the library agrees with)
	if !h3 {
		missing, nmTag, nmLen, indef := false, false, false, false
		refber.Walk(R, func(n *refber.Node, _ int) bool {
			if n.Indefinite {
				indef = true
				if n.EOCLen == 0 {
					missing = true
				}
			}
			if n.NonMinimalTag() {
				nmTag = true
			}
			if n.NonMinimalLength() {
				nmLen = true
			}
			return true
		})
		if missing {
			k.Count("lenient_missing_eoc_accepted")
		}
		if nmTag {
			k.Count("lenient_nonminimal_tag_number_accepted")
		}
		if nmLen {
			k.Count("accepted_with_nonminimal_length")
		}
		if indef {
			k.Count("accepted_with_indefinite_length")
		}
	}
	k.Max("max_accepted_depth", int64(refber.Depth(R)))
	k.Max("max_accepted_elements", int64(refber.Count(R)))

	// ---- limits (asserted at twice the documented limits only)
	if aerr == nil {
		if res.depth >= 100 {
			c16Viol(k, "tlv:depth-limit-not-enforced", fmt.Sprintf("tlv.Decode accepts %d nested constructed elements (documented limit 50)", res.depth), det(nil))
		}
		if res.count >= 20000 {
			c16Viol(k, "tlv:count-limit-not-enforced", fmt.Sprintf("tlv.Decode accepts %d elements (documented limit 10000)", res.count), det(nil))
		}
	}

	// ---- canonicalisation
	y := lib.Encode()
	want := refber.Encode(R)
	if !bytes.Equal(y, want) {
		c16Viol(k, "tlv:encode-not-canonical", "Encode() of the decoded tree is not the definite, minimal-length encoding of that tree",
			det(map[string]any{"got": c16Hex(y), "want": c16Hex(want), "tree": refber.Summary(R, 200)}))
	}
	lib2, err2 := tlv.Decode(bytes.Clone(y))
	if err2 != nil {
		c16Viol(k, "tlv:reencode-rejected", "Decode(Encode(Decode(x))) fails: "+err2.Error(), det(map[string]any{"reencoded": c16Hex(y)}))
	} else {
		L2 := c16Convert(lib2.Nodes(), 0)
		if d := refber.Diff(L2, L); d != "" {
			c16Viol(k, "tlv:reencode-tree-differs", "Decode(Encode(Decode(x))) is not the tree Decode(x) (re-decoded vs first) at "+d,
				det(map[string]any{"reencoded": c16Hex(y), "first_tree": refber.Summary(L, 200), "second_tree": refber.Summary(L2, 200)}))
		}
		if y2 := lib2.Encode(); !bytes.Equal(y2, y) {
			c16Viol(k, "tlv:reencode-not-idempotent", "Encode(Decode(y)) differs from y = Encode(Decode(x))", det(map[string]any{"y": c16Hex(y), "y2": c16Hex(y2)}))
		}
	}
	if z, err := tlv.DecodeEncode(bytes.Clone(x)); err != nil || !bytes.Equal(z, y) {
		c16Viol(k, "tlv:decodeencode-differs", fmt.Sprintf("DecodeEncode(x) (err=%v) differs from Decode(x).Encode()", err), det(map[string]any{"decodeencode": c16Hex(z), "encode": c16Hex(y)}))
	}
	if z, err := tlv.DecodeEncode(bytes.Clone(y)); err != nil || !bytes.Equal(z, y) {
		c16Viol(k, "tlv:reencode-not-idempotent", fmt.Sprintf("DecodeEncode(y) (err=%v) differs from y = DecodeEncode(x)", err), det(map[string]any{"y": c16Hex(y), "decodeencode_y": c16Hex(z)}))
	}
	if !h3 {
		isCanon := aerr == nil && refber.IsCanonical(A)
		if isCanon {
			k.Count("accepted_already_canonical")
		}
		if (canonical || isCanon) && !bytes.Equal(y, x) {
			c16Viol(k, "tlv:canonical-not-reproduced", "the input is already definite and minimal-length but DecodeEncode does not reproduce it", det(map[string]any{"output": c16Hex(y)}))
		}
	}

	// ---- lookups by tag and occurrence
	c16Lookups(k, x, lib, R)
	return res
}

// c16Unwrap checks Unwrap / UnwrapTag against the reference header reader.
func c16Unwrap(k *fw.K, x []byte, det func(map[string]any) map[string]any) {
	h, herr := refber.ReadHeader(x, 0, len(x))
	var tag tlv.TlvTag
	var val []byte
	var err error
	panicked := func() (p any) {
		defer func() { p = recover() }()
		tag, val, err = tlv.Unwrap(bytes.Clone(x))
		return nil
	}()
	if panicked != nil {
		key := "panic:tlv.Unwrap:other"
		if herr == nil && h.Indefinite {
			key = "panic:tlv.Unwrap:indefinite-length"
		}
		k.Count("unwrap_panics")
		c16Viol(k, key, fmt.Sprintf("tlv.Unwrap panics instead of returning an error: %v", panicked), det(nil))
		return
	}
	if err != nil {
		k.Count("unwrap_refuses")
		if herr == nil && !h.Indefinite && h.Len == uint64(len(x)-h.HdrLen) {
			k.Count("unwrap_refuses_single_definite_element")
		}
		return
	}
	k.Count("unwrap_accepts")
	ok := herr == nil && !h.Indefinite && h.Len == uint64(len(x)-h.HdrLen) && uint32(tag) == h.Tag && bytes.Equal(val, x[h.HdrLen:])
	if !ok {
		c16Viol(k, "tlv:unwrap-mismatch", "tlv.Unwrap succeeds but tag/value are not the single top-level element spanning the whole input",
			det(map[string]any{"got_tag": fmt.Sprintf("%x", uint32(tag)), "got_value": c16Hex(val), "reference_header": fmt.Sprintf("%+v err=%v", h, herr)}))
		return
	}
	v2, err := tlv.UnwrapTag(tag, bytes.Clone(x))
	if err != nil || !bytes.Equal(v2, val) {
		c16Viol(k, "tlv:unwrap-mismatch", fmt.Sprintf("UnwrapTag with the element's own tag disagrees with Unwrap (err=%v)", err), det(nil))
	}
	if _, err := tlv.UnwrapTag(tag^0x40, bytes.Clone(x)); err == nil {
		c16Viol(k, "tlv:unwraptag-wrong-tag-accepted", fmt.Sprintf("UnwrapTag(%x) succeeds on an element with tag %x", uint32(tag^0x40), uint32(tag)), det(nil))
	}
}

// c16Lookups: for the top level and every constructed node, NodeByTagOccur(t,i) is the
// i-th child with tag t, and there is no node beyond the count / for an absent tag.
func c16Lookups(k *fw.K, x []byte, lib *tlv.TlvNodes, R []*refber.Node) {
	type lookup func(tlv.TlvTag, int) tlv.TlvNode
	type lookup1 func(tlv.TlvTag) tlv.TlvNode
	budget := 600 // lookups per input (each is linear in the number of siblings)
	var fail bool
	var rec func(path string, lk lookup, first lookup1, kids []tlv.TlvNode, ref []*refber.Node, depth int)
	rec = func(path string, lk lookup, first lookup1, kids []tlv.TlvNode, ref []*refber.Node, depth int) {
		if fail || len(kids) != len(ref) {
			return
		}
		n := len(kids)
		total := map[uint32]int{}
		for _, r := range ref {
			total[r.Tag]++
		}
		seen := map[uint32]int{}
		stride := 1
		if n > 48 {
			stride = n / 24
		}
		for j, r := range ref {
			seen[r.Tag]++
			if !(j < 12 || j >= n-12 || j%stride == 0) || budget <= 0 {
				continue
			}
			budget--
			occ := seen[r.Tag]
			got := lk(tlv.TlvTag(r.Tag), occ)
			k.Count("lookups_checked")
			d := map[string]any{"input_len": len(x), "input": c16Hex(x), "at": path, "tag": fmt.Sprintf("%x", r.Tag), "occurrence": occ, "child_index": j, "siblings_with_tag": total[r.Tag]}
			if got == nil || !got.IsValidNode() {
				c16Viol(k, "tlv:lookup-missing", fmt.Sprintf("NodeByTagOccur(%x,%d) finds nothing although %d children have that tag", r.Tag, occ, total[r.Tag]), d)
				fail = true
				return
			}
			if !c16Same(got, kids[j]) && !(uint32(got.Tag()) == r.Tag && bytes.Equal(got.Encode(), r.Encode())) {
				d["got"] = c16Hex(got.Encode())
				d["want"] = c16Hex(r.Encode())
				c16Viol(k, "tlv:lookup-wrong-element", fmt.Sprintf("NodeByTagOccur(%x,%d) is not the %d-th child with that tag", r.Tag, occ, occ), d)
				fail = true
				return
			}
			if occ == 1 {
				if f := first(tlv.TlvTag(r.Tag)); !c16Same(f, got) && !(f != nil && f.IsValidNode() && bytes.Equal(f.Encode(), got.Encode())) {
					c16Viol(k, "tlv:lookup-wrong-element", fmt.Sprintf("NodeByTag(%x) is not the first child with that tag", r.Tag), d)
					fail = true
					return
				}
			}
		}
		// beyond the count, and an absent tag
		m := 0
		for t, c := range total {
			if m++; m > 8 {
				break
			}
			if got := lk(tlv.TlvTag(t), c+1); got != nil && got.IsValidNode() {
				c16Viol(k, "tlv:lookup-beyond-count", fmt.Sprintf("NodeByTagOccur(%x,%d) returns a node although only %d children have that tag", t, c+1, c),
					map[string]any{"input_len": len(x), "input": c16Hex(x), "at": path, "got": c16Hex(got.Encode())})
				fail = true
				return
			}
		}
		for _, t := range []uint32{0x5f7f, 0x04, 0x30, 0x00, 0xbf8101} {
			if total[t] == 0 {
				if got := lk(tlv.TlvTag(t), 1); got != nil && got.IsValidNode() {
					c16Viol(k, "tlv:lookup-beyond-count", fmt.Sprintf("NodeByTagOccur(%x,1) returns a node although no child has that tag", t),
						map[string]any{"input_len": len(x), "input": c16Hex(x), "at": path, "got": c16Hex(got.Encode())})
					fail = true
					return
				}
				break
			}
		}
		if depth > 400 {
			return
		}
		for j, r := range ref {
			if budget <= 0 {
				return
			}
			c := kids[j]
			if r.Constructed {
				rec(fmt.Sprintf("%s/%d", path, j), c.NodeByTagOccur, c.NodeByTag, c.Children(), r.Children, depth+1)
			} else if j < 2 {
				// a primitive has no children to find
				if got := c.NodeByTagOccur(tlv.TlvTag(r.Tag), 1); got != nil && got.IsValidNode() {
					c16Viol(k, "tlv:lookup-beyond-count", "NodeByTagOccur on a primitive element returns a node", map[string]any{"input_len": len(x), "input": c16Hex(x), "at": path})
					fail = true
					return
				}
			}
		}
	}
	rec("", lib.NodeByTagOccur, lib.NodeByTag, lib.Nodes(), R, 0)
}

// ---------------------------------------------------------------------------------------
// directed inputs

type c16Directed struct{ name, hex string }

func c16DirectedList() []c16Directed {
	rep := func(s string, n int) string { return strings.Repeat(s, n) }
	l := []c16Directed{
		// end-of-contents inside definite lengths and at top level
		{"eoc_top_alone", "0000"},
		{"eoc_top_trailing", "0101ff0000"},
		{"eoc_top_leading_then_sibling", "00000101ff"},
		{"eoc_top_twice", "00000000"},
		{"eoc_def_only", "30020000"},
		{"eoc_def_trailing", "30050101ff0000"},
		{"eoc_def_leading_then_sibling", "300500000101ff"},
		{"eoc_def_middle", "30080101aa00000101bb"},
		{"eoc_def_task_example", "300400000101"},
		{"eoc_def_twice", "300400000000"},
		{"eoc_def_after_inner_indefinite", "300930800101ff00000000"},
		{"eoc_def_inner_of_indefinite", "3080300200000000"},
		{"eoc_def_nested_trailing", "3009300530030101ff0000"},
		{"eoc_def_then_top_sibling", "300200000101ff"},
		{"eoc_def_longform_len", "3003008100"},
		{"eoc_def_longform_len2", "30060101ff008100"},
		{"eoc_top_longform_len", "0101ff00820000"},
		{"eoc_longform_in_indefinite_end", "30800101aa008100"},
		{"eoc_longform_in_indefinite_then_more", "30800081000201bb0000"},
		{"eoc_constructed_universal0", "2000"},
		{"eoc_in_constructed_universal0", "20020000"},
		// missing end-of-contents
		{"missing_eoc_empty", "3080"},
		{"missing_eoc_one_child", "30800101ff"},
		{"missing_eoc_two_levels", "30803080"},
		{"missing_eoc_inner_in_definite", "300530800101ff"},
		{"missing_eoc_one_for_two", "308030800101ff0000"},
		{"missing_eoc_dangling_zero", "30800101ff00"},
		{"eoc_both_present", "308030800101ff00000000"},
		{"indefinite_primitive", "0480aa0000"},
		// 4-octet tags with continuation
		{"tag4_ok", "1f81820300"},
		{"tag4_value", "1f8182030201aa"},
		{"tag5_refused", "1f8182830400"},
		{"tag4_all_ff", "1fffff7f00"},
		{"tag4_constructed", "3f81820303040100"},
		{"tag4_truncated", "1f8182"},
		{"tag3_padded", "1f800100"},
		{"tag4_padded", "1f80800100"},
		{"tag2_small_number", "1f0100"},
		{"tag2_zero_number", "1f0000"},
		{"tag2_7f49", "7f4903040100"},
		{"tag_lookup_mixed_lengths", "300f5f01005f0101aa1f0100df81010100"},
		// zero tags
		{"tag0_with_value", "0001ff"},
		{"tag0_with_zero_value", "000100"},
		{"tag0_longform_value", "00820001ff"},
		{"tag0_value_in_definite", "30030001ff"},
		{"tag0_value_in_indefinite", "30800001ff0000"},
		{"tag0_single_octet", "00"},
		{"tag0_indefinite", "0080"},
		{"tag0_twice_with_value", "0001aa0001bb"},
		// length forms
		{"len_81_00", "048100"},
		{"len_82_0000", "04820000"},
		{"len_83_000000", "0483000000"},
		{"len_84_00000000", "048400000000"},
		{"len_84_00000001", "048400000001aa"},
		{"len_85_refused", "04850000000000"},
		{"len_ff_reserved", "04ff"},
		{"len_cons_nonminimal", "30810302010 5"},
		{"len_127", "047f" + rep("aa", 127)},
		{"len_128", "048180" + rep("aa", 128)},
		{"len_128_nonminimal", "04820080" + rep("aa", 128)},
		{"len_255", "0481ff" + rep("aa", 255)},
		{"len_256", "04820100" + rep("aa", 256)},
		{"len_65535", "0482ffff" + rep("aa", 65535)},
		{"len_65536", "0483010000" + rep("aa", 65536)},
		{"len_cons_128", "308180" + rep("0402aabb", 32)},
		{"len_claim_exceeds", "3005020105aa"},
		{"len_claim_short", "3002020105"},
		{"child_overruns_parent", "30030203aabbcc"},
		{"empty", ""},
		// Unwrap on indefinite length (H7) and friends
		{"unwrap_indefinite_77", "7780"},
		{"unwrap_indefinite_77_eoc", "77800000"},
		{"unwrap_indefinite_sod_like", "7780300002010000" + "00"},
		{"unwrap_trailing", "0401aabb"},
		{"unwrap_single", "7f4e03010203"},
	}
	for i := range l {
		l[i].hex = strings.ReplaceAll(l[i].hex, " ", "")
	}
	return l
}

// ---------------------------------------------------------------------------------------
// limit families

func c16Chain(depth, shape int) []byte {
	var inner []*refber.Node
	for d := depth; d >= 1; d-- {
		n := &refber.Node{Tag: 0x30, TagLen: 1, Constructed: true}
		switch shape {
		case 0: // definite, empty innermost
			n.Children = inner
		case 1: // indefinite with every end-of-contents
			n.Indefinite, n.EOCLen = true, 2
			n.Children = inner
		case 2: // indefinite, no end-of-contents at all (lenient)
			n.Indefinite, n.EOCLen = true, 0
			n.Children = inner
		case 3: // alternating definite / indefinite, primitive leaf
			if d%2 == 0 {
				n.Indefinite, n.EOCLen = true, 2
			}
			n.Tag = 0xa0 | uint32(d%8)
			if d == depth {
				inner = []*refber.Node{{Tag: 0x04, TagLen: 1, Value: []byte{0xaa}}}
			}
			n.Children = inner
		case 4: // definite with a sibling at every level
			n.Children = append([]*refber.Node{{Tag: 0x02, TagLen: 1, Value: []byte{byte(d)}}}, inner...)
		case 5: // definite, non-minimal lengths, 2-octet tags
			n.Tag, n.TagLen = 0x7f21, 2
			n.LenOctets = 3
			n.Children = inner
		}
		inner = []*refber.Node{n}
	}
	return refber.EncodeForm(inner)
}

func c16Many(n, shape int) []byte {
	prim := func(i int) *refber.Node {
		return &refber.Node{Tag: uint32(0x80 + i%5), TagLen: 1, Value: []byte{byte(i)}}
	}
	var top []*refber.Node
	switch shape {
	case 0: // n top-level primitives
		for i := 0; i < n; i++ {
			top = append(top, &refber.Node{Tag: 0x04, TagLen: 1, Value: []byte{}})
		}
	case 1, 2: // one constructed element with n-1 primitives
		p := &refber.Node{Tag: 0x30, TagLen: 1, Constructed: true}
		if shape == 2 {
			p.Indefinite, p.EOCLen = true, 2
		}
		for i := 0; i < n-1; i++ {
			p.Children = append(p.Children, prim(i))
		}
		top = []*refber.Node{p}
	case 3: // pairs: constructed + one primitive
		for i := 0; i < n/2; i++ {
			top = append(top, &refber.Node{Tag: 0x31, TagLen: 1, Constructed: true, Children: []*refber.Node{prim(i)}})
		}
		if n%2 == 1 {
			top = append(top, prim(n))
		}
	case 4: // groups of 100 under constructed elements, nested two deep
		left := n
		for left > 0 {
			g := &refber.Node{Tag: 0xa1, TagLen: 1, Constructed: true}
			left--
			for i := 0; i < 99 && left > 0; i++ {
				g.Children = append(g.Children, prim(i))
				left--
			}
			top = append(top, g)
		}
	}
	return refber.EncodeForm(top)
}

// ---------------------------------------------------------------------------------------

var c16Depths = []int{1, 2, 10, 48, 49, 50, 51, 52, 60, 99, 100, 101, 200, 500, 1000}
var c16Counts = []int{1, 100, 5000, 9999, 10000, 10001, 10002, 19999, 20000, 20001, 40000}

func runC16(c *fw.Ctx) {
	// a worker runs its cases on one goroutine and allocates many small objects: with 16
	// workers x GOMAXPROCS=16 the collector's helper threads fight each other (70% of the
	// wall time in futex/preemption signals), so keep each worker process narrow.
	runtime.GOMAXPROCS(2)
	debug.SetGCPercent(400)

	// ---- directed
	dir := c16DirectedList()
	c.Cases(len(dir), func(i int) string { return "directed|" + dir[i].name }, func(i int, k *fw.K) {
		x, err := hex.DecodeString(dir[i].hex)
		if err != nil {
			fw.Bug("directed input %s: %v", dir[i].name, err)
		}
		r := c16Check(k, x, false)
		k.Nontrivial("d|" + dir[i].hex)
		if r.accepted {
			k.Count("directed " + dir[i].name + " accepted")
		} else {
			k.Count("directed " + dir[i].name + " refused")
		}
		k.Sample("directed", map[string]any{"name": dir[i].name, "input": c16Hex(x), "accepted": r.accepted})
	})

	// ---- nesting limits
	const nShapes = 6
	c.Cases(len(c16Depths)*nShapes, func(i int) string {
		return fmt.Sprintf("nesting|depth=%d shape=%d", c16Depths[i/nShapes], i%nShapes)
	}, func(i int, k *fw.K) {
		depth, shape := c16Depths[i/nShapes], i%nShapes
		x := c16Chain(depth, shape)
		r := c16Check(k, x, shape == 0 || shape == 4)
		if !r.refOK || r.depth != depth {
			fw.Bug("nesting chain depth=%d shape=%d: reference sees depth %d (ok=%v)", depth, shape, r.depth, r.refOK)
		}
		k.Nontrivial(fmt.Sprintf("n|%d|%d", depth, shape))
		if r.accepted {
			k.Count(fmt.Sprintf("nesting depth %4d accepted", depth))
		} else {
			k.Count(fmt.Sprintf("nesting depth %4d refused", depth))
		}
	})

	// ---- element count limits
	const mShapes = 5
	c.Cases(len(c16Counts)*mShapes, func(i int) string {
		return fmt.Sprintf("count|elements=%d shape=%d", c16Counts[i/mShapes], i%mShapes)
	}, func(i int, k *fw.K) {
		n, shape := c16Counts[i/mShapes], i%mShapes
		x := c16Many(n, shape)
		r := c16Check(k, x, shape != 2)
		if !r.refOK || r.count != n {
			fw.Bug("count family n=%d shape=%d: reference sees %d elements (ok=%v)", n, shape, r.count, r.refOK)
		}
		k.Nontrivial(fmt.Sprintf("m|%d|%d", n, shape))
		if r.accepted {
			k.Count(fmt.Sprintf("elements %5d accepted", n))
		} else {
			k.Count(fmt.Sprintf("elements %5d refused", n))
		}
	})

	// ---- grammar-generated inputs and their mutations
	n := c.Pick(50000, 10000000)
	c.Cases(n, func(i int) string {
		return fmt.Sprintf("%s|i=%d", c16Kind(i), i)
	}, func(i int, k *fw.K) {
		r := k.RNG
		var x []byte
		canonical := false
		opts := refber.GenOptions{MaxDepth: 60}
		if r.IntN(4) > 0 {
			opts.MaxDepth = 12 // most inputs well inside the limits; the rest up to 60
		}
		switch c16Kind(i) {
		case "gen":
			x = refber.Gen(r, opts)
		case "canon":
			x = refber.GenCanonical(r, opts)
			canonical = true
		case "tag0":
			opts.Tag0 = true
			opts.Canonical = r.IntN(2) == 0
			x = refber.Gen(r, opts)
		case "mut":
			opts.Canonical = r.IntN(3) == 0
			x = refber.Mutate(r, refber.Gen(r, opts))
			refber.ClampLengthClaims(x)
		case "treemut":
			opts.Canonical = r.IntN(3) == 0
			x = refber.EncodeForm(refber.MutateTree(r, refber.GenTree(r, opts)))
		default: // junk: splices of two encodings, or header-like octets
			if r.IntN(2) == 0 {
				a, b := refber.Gen(r, opts), refber.Gen(r, opts)
				x = append(append([]byte{}, a[:r.IntN(len(a)+1)]...), b[r.IntN(len(b)+1):]...)
			} else {
				x = make([]byte, r.IntN(24))
				hdr := []byte{0x00, 0x01, 0x04, 0x1f, 0x30, 0x3f, 0x80, 0x81, 0x82, 0x02, 0x03, 0xa0, 0xff, 0x7f}
				for j := range x {
					x[j] = hdr[r.IntN(len(hdr))]
				}
			}
			refber.ClampLengthClaims(x)
		}
		res := c16Check(k, x, canonical)
		if canonical && !res.refOK {
			fw.Bug("canonical generator output not readable by the reference: %x", x)
		}
		if res.accepted {
			k.Nontrivial(string(x))
			k.Count("accepted " + c16Kind(i))
		}
		if res.accepted && len(x) <= 24 {
			k.Sample(c16Kind(i), map[string]any{"input": c16Hex(x), "accepted": true})
		}
		k.Max("max_input_len", int64(len(x)))
	})
}

func c16Kind(i int) string {
	switch m := i % 20; {
	case m < 7:
		return "gen"
	case m < 11:
		return "canon"
	case m < 12:
		return "tag0"
	case m < 16:
		return "mut"
	case m < 19:
		return "treemut"
	}
	return "junk"
}
