package checks

import (
	"fmt"
	"math/big"
	"sort"

	"github.com/gmrtd/gmrtd/cms"

	"verifharness/fw"
	"verifharness/issuer"
	"verifharness/refverify"
)

// Master lists that vouch for themselves: the chain of the list's signer ends in a
// certificate that exists only inside the list (its certificates field or its signed
// content), never in the supplied root. Oracle (refverify.MasterListOK): accepted => the
// signer verifies under a certificate of the SUPPLIED roots; and what enters the trust store
// is exactly the certificate list of the signed content.

// c01MLJudge gives one list to the library. forged: the harness built it as a forgery (the
// reference must reject it, else the harness is broken); otherwise it is a genuine variant
// that must be accepted. It returns false after a violation.
func c01MLJudge(k *fw.K, i int, name string, ml, root []byte, forged bool) bool {
	k.AddEvals(1)
	k.Distinct(fmt.Sprintf("ml|%d|%s", i, name))
	refOK, why, listed := refverify.MasterListOK(ml, [][]byte{root})
	if forged && refOK {
		fw.Bug("reference accepts the forged master list %q", name)
	}
	if !forged && !refOK {
		fw.Bug("reference rejects the genuine master list variant %q: %s", name, why)
	}
	pool, err := cms.CreateCertPoolFromSignedData(ml, root)
	if err != nil || pool == nil {
		if !forged {
			k.Violation("ml:genuine-rejected:"+name, fmt.Sprintf("a correctly signed master list (%s) is rejected: %v", name, err), map[string]any{"ml": hexCap(ml, 6000), "root": hexCap(root, 3000)})
			return false
		}
		k.Count("masterlist_selfvouching_rejected")
		k.Count("rejected_ml:" + name)
		return true
	}
	if !refOK {
		k.Violation("ml:accepts:"+name, fmt.Sprintf("a master list whose signer does not chain to the supplied root entered the trust store (%s): %s", name, why),
			map[string]any{"ml": hexCap(ml, 6000), "root": hexCap(root, 3000), "reference_says": why, "pool_count": pool.Count()})
		return false
	}
	// accepted and rightly so: exactly the signed certificate list enters the store
	var got, want []string
	for _, c := range pool.All() {
		got = append(got, string(c.Raw))
	}
	for _, c := range listed {
		want = append(want, string(c))
	}
	sort.Strings(got)
	sort.Strings(want)
	same := len(got) == len(want)
	for j := 0; same && j < len(got); j++ {
		same = got[j] == want[j]
	}
	if !same {
		k.Violation("ml:pool-differs-from-signed-list:"+name, fmt.Sprintf("accepted master list (%s): the pool holds %d certificates, the signed list %d, or they differ", name, len(got), len(want)),
			map[string]any{"ml": hexCap(ml, 6000)})
		return false
	}
	k.Count("masterlist_variant_accepted_pool_equals_signed_list")
	return true
}

// c01MasterListSelfVouching runs the self-vouching forgeries and the genuine variants that
// look like them. root: the genuine PKI (CSCA = supplied root, DS = master list signer);
// certs: the genuine list.
func c01MasterListSelfVouching(c *fw.Ctx, k *fw.K, i int, root *issuer.PKI, certs [][]byte) bool {
	r := k.RNG
	st := issuer.BaseTime
	mk := func(pk *issuer.PKI, content []byte, tweak func(s *issuer.SignedDataSpec)) []byte {
		s := pk.SignerSpec(issuer.SHA256, i%4 >= 2)
		s.EContentType, s.EContent, s.SigningTime = issuer.OIDCscaMasterList, content, &st
		if tweak != nil {
			tweak(&s)
		}
		return issuer.BuildSignedData(r, s)
	}
	content := issuer.MasterListContent(certs)
	// the rogue PKI copies the names of the genuine one in every second case
	ro := issuer.PKIOpts{Country: "DE", CertHash: issuer.SHA256, CSCAKey: c09Key(r, 3+4+((i+1)%3), false), DSKey: c09Key(r, 3+4, false)}
	if i%2 == 0 {
		ro.CSCAName, ro.DSName = root.CSCAName, root.DSName
	} else {
		ro.CSCAName, ro.DSName = issuer.SimpleName("DE", "BSI", "CSCA root G2"), issuer.SimpleName("DE", "BSI", "Master List Signer 2")
	}
	rogue := issuer.NewPKI(r, ro)
	rootKeyID := root.CSCAKey.KeyID()
	withCerts := func(cs ...[]byte) func(s *issuer.SignedDataSpec) {
		return func(s *issuer.SignedDataSpec) { s.Certs = cs }
	}
	type item struct {
		name   string
		ml     []byte
		forged bool
	}
	var items []item
	add := func(name string, ml []byte, forged bool) { items = append(items, item{name, ml, forged}) }

	// genuine shapes that real lists have: the root (or an unrelated certificate) travels in
	// the certificates field next to the signer
	add("genuine-carrying-the-root", mk(root, content, withCerts(root.DSCert, root.CSCACert)), false)
	add("genuine-carrying-the-root-first", mk(root, content, withCerts(root.CSCACert, root.DSCert)), false)
	// ... and a genuine list whose (unsigned) certificates field also holds a rogue CA: fine
	// to accept, but that certificate is not part of the signed list
	add("genuine-with-rogue-ca-in-certificates-field", mk(root, content, withCerts(root.DSCert, rogue.CSCACert)), false)

	// forgeries
	add("carries-rogue-csca-of-its-signer", mk(rogue, content, withCerts(rogue.DSCert, rogue.CSCACert)), true)
	add("carries-rogue-csca-first", mk(rogue, content, withCerts(rogue.CSCACert, rogue.DSCert)), true)
	add("carries-rogue-csca-and-the-genuine-root", mk(rogue, content, withCerts(rogue.DSCert, rogue.CSCACert, root.CSCACert)), true)
	add("carries-genuine-root-then-rogue-csca", mk(rogue, content, withCerts(root.CSCACert, rogue.CSCACert, rogue.DSCert)), true)
	add("carries-genuine-signer-but-signed-by-rogue", mk(rogue, content, withCerts(root.DSCert, rogue.DSCert, rogue.CSCACert)), true)
	withRogue := issuer.MasterListContent(append(append([][]byte{}, certs...), rogue.CSCACert))
	add("rogue-csca-only-in-the-signed-list", mk(rogue, withRogue, nil), true)
	add("rogue-csca-in-signed-list-and-certificates", mk(rogue, withRogue, withCerts(rogue.DSCert, rogue.CSCACert)), true)
	add("rogue-list-is-only-the-rogue-csca", mk(rogue, issuer.MasterListContent([][]byte{rogue.CSCACert}), withCerts(rogue.DSCert, rogue.CSCACert)), true)
	{
		// self-signed signer that is its own CA
		ds := rogue.DSSpec
		ds.Issuer, ds.AKI = ds.Subject, rogue.DSKey.KeyID()
		ds.BasicCons, ds.IsCA, ds.PathLen = true, true, 0
		ds.KeyUsage = issuer.KUDigitalSignature | issuer.KUKeyCertSign
		ds.Scheme = issuer.SchemeFor(rogue.DSKey, false)
		cert := issuer.BuildCert(r, ds, rogue.DSKey)
		add("signed-by-selfsigned-ca-signer", mk(rogue, content, func(s *issuer.SignedDataSpec) { s.Certs, s.SIDIssuerDER = [][]byte{cert}, ds.Subject.DER() }), true)
	}
	{
		// rogue CSCA with subject AND key identifier of the supplied root, other key
		ca := rogue.CSCASpec
		ca.Issuer, ca.Subject = root.CSCAName, root.CSCAName
		ca.SKI, ca.AKI = rootKeyID, rootKeyID
		twin := issuer.BuildCert(r, ca, rogue.CSCAKey)
		ds := rogue.DSSpec
		ds.Issuer, ds.AKI = root.CSCAName, rootKeyID
		cert := issuer.BuildCert(r, ds, rogue.CSCAKey)
		sid := func(s *issuer.SignedDataSpec) { s.SIDIssuerDER = root.CSCAName.DER() }
		add("carries-rogue-twin-of-the-root", mk(rogue, content, func(s *issuer.SignedDataSpec) { sid(s); s.Certs = [][]byte{cert, twin} }), true)
		add("carries-rogue-twin-and-the-genuine-root", mk(rogue, content, func(s *issuer.SignedDataSpec) { sid(s); s.Certs = [][]byte{cert, twin, root.CSCACert} }), true)
		add("carries-genuine-root-then-rogue-twin", mk(rogue, content, func(s *issuer.SignedDataSpec) { sid(s); s.Certs = [][]byte{root.CSCACert, twin, cert} }), true)
	}
	{
		// rogue CSCA that claims to have been issued by the supplied root (issuer name and
		// authority key identifier of the root, signature by its own key)
		ca := rogue.CSCASpec
		ca.Issuer, ca.AKI = root.CSCAName, rootKeyID
		claim := issuer.BuildCert(r, ca, rogue.CSCAKey)
		add("carries-rogue-csca-claiming-issuance-by-the-root", mk(rogue, content, withCerts(rogue.DSCert, claim)), true)
	}
	{
		// a rogue chain of two below a rogue root, all carried
		interKey := c09Key(r, 3+4, false)
		interName := issuer.SimpleName("DE", "BSI", "CSCA link")
		inter := issuer.CertSpec{Serial: big.NewInt(int64(7001 + i)), Issuer: rogue.CSCAName, Subject: interName, NotBefore: rogue.CSCASpec.NotBefore, NotAfter: rogue.CSCASpec.NotAfter,
			Key: interKey, SKI: interKey.KeyID(), AKI: rogue.CSCAKey.KeyID(), KeyUsage: issuer.KUKeyCertSign | issuer.KUCRLSign, BasicCons: true, IsCA: true, PathLen: 0,
			Scheme: issuer.SchemeFor(rogue.CSCAKey, false), Hash: issuer.SHA256}
		interCert := issuer.BuildCert(r, inter, rogue.CSCAKey)
		ds := rogue.DSSpec
		ds.Issuer, ds.AKI, ds.Scheme = interName, interKey.KeyID(), issuer.SchemeFor(interKey, false)
		cert := issuer.BuildCert(r, ds, interKey)
		add("carries-rogue-chain-of-two", mk(rogue, content, func(s *issuer.SignedDataSpec) {
			s.SIDIssuerDER = interName.DER()
			s.Certs = [][]byte{cert, interCert, rogue.CSCACert}
		}), true)
	}
	good := true
	for _, it := range items {
		if !c01MLJudge(k, i, it.name, it.ml, root.CSCACert, it.forged) {
			// keep going: the evidence should show every shape that gets through
			good = false
			continue
		}
		if !it.forged {
			continue
		}
		// failing -> passing: single-bit mutations of the forgery
		for m, nm := 0, c.Pick(6, 40); m < nm; m++ {
			v := append([]byte{}, it.ml...)
			pos := r.IntN(len(v))
			v[pos] ^= 1 << uint(r.IntN(8))
			k.AddEvals(1)
			pool, err := cms.CreateCertPoolFromSignedData(v, root.CSCACert)
			if err != nil || pool == nil {
				k.Count("masterlist_selfvouching_bitflip_rejected")
				continue
			}
			if ok, why, _ := refverify.MasterListOK(v, [][]byte{root.CSCACert}); !ok {
				k.Violation("ml:accepts:mutated:"+it.name, fmt.Sprintf("bit flip at offset %d turns the forged master list (%s) into an accepted one: %s", pos, it.name, why),
					map[string]any{"offset": pos, "ml": hexCap(v, 6000), "root": hexCap(root.CSCACert, 3000)})
				good = false
				break
			}
			k.Count("masterlist_selfvouching_bitflip_accepted_still_valid")
		}
	}
	// no usable root supplied: nothing can be anchored, whoever signed
	selfVouching := items[3].ml
	for _, nr := range []struct {
		name string
		root []byte
	}{{"empty", []byte{}}, {"absent", nil}, {"the-lists-own-signer", root.DSCert}, {"the-rogue-signer", rogue.DSCert}} {
		if !c01MLJudge(k, i, "root-"+nr.name+":genuine-list", mk(root, content, nil), nr.root, true) {
			good = false
		}
		if !c01MLJudge(k, i, "root-"+nr.name+":self-vouching-list", selfVouching, nr.root, true) {
			good = false
		}
	}
	if !good {
		return false
	}
	if i < 2 {
		k.Sample("masterlist-selfvouching", map[string]any{"variants": len(items), "rogue_copies_names": i%2 == 0, "sid_by_ski": i%4 >= 2})
	}
	return true
}
