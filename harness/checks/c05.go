package checks

import (
	crand "crypto/rand"
	"fmt"
	mrand "math/rand/v2"

	"github.com/gmrtd/gmrtd/bac"
	"github.com/gmrtd/gmrtd/document"
	"github.com/gmrtd/gmrtd/iso7816"
	"github.com/gmrtd/gmrtd/mrz"
	"github.com/gmrtd/gmrtd/password"

	"verifharness/chipsim"
	"verifharness/fw"
	"verifharness/mrzref"
	"verifharness/symref"
)

// C05 - BAC derives the ICAO keys and authenticates mutually.
// The chip is personalised from the MRZ *fields* by the harness's own key derivation and
// plays the chip half of BAC; the oracle compares session keys / counter and requires
// failure plus no SM session for every hostile 40-byte answer.

func init() {
	register(&fw.Spec{
		ID:    "C05",
		Level: "exploration",
		Rule: "positive case = one generated MRZ (TD1/TD2/TD3, document numbers 1..22 characters incl. the extended form, fillers) x password route (full MRZ, three fields, decoded and re-encoded) x chip/terminal randoms (PRNG and scripted extremes: all-zero, all-FF, equal halves) run through bac.DoBAC against the simulated chip, followed by protected exchanges; " +
			"hostile case = one BAC run whose EXTERNAL AUTHENTICATE answer is replaced (each of the 320 single-bit flips, MAC under another MRZ's key, replay from another run, valid MAC over a plaintext with altered RND.IC / RND.IFD, swapped halves, 0/39/41 bytes, error status, wrong password); " +
			"non-trivial = every BAC run; distinct = (MRZ information, route, randoms class) resp. (hostile kind, position)",
		MinEvaluations: 2000,
		Assumptions: []string{
			"chip keys are derived by the harness from the MRZ fields (mrzref.Information + symref.KDF, both self-tested against ICAO 9303-11 Appendix D), never via gmrtd",
			"terminal randomness is made deterministic/scripted by replacing crypto/rand.Reader in the worker process",
		},
		Run: runC05,
	})
}

// scriptReader feeds scripted bytes first, then PRNG bytes.
type scriptReader struct {
	script []byte
	r      *mrand.Rand
}

func (s *scriptReader) Read(p []byte) (int, error) {
	for i := range p {
		if len(s.script) > 0 {
			p[i] = s.script[0]
			s.script = s.script[1:]
		} else {
			p[i] = byte(s.r.Uint32())
		}
	}
	return len(p), nil
}

func c05Extreme(r *mrand.Rand, mode, n int) []byte {
	b := make([]byte, n)
	switch mode % 5 {
	case 0:
		return nil // PRNG
	case 1:
	case 2:
		for i := range b {
			b[i] = 0xff
		}
	case 3: // equal halves
		h := randBytes(r, n/2)
		copy(b, h)
		copy(b[n/2:], h)
	case 4: // high bit patterns / parity-looking
		for i := range b {
			b[i] = 0x80
		}
	}
	return b
}

type c05World struct {
	card *chipsim.Card
	nfc  *iso7816.NfcSession
	tr   *funcTransceiver
}

func c05NewWorld(r *mrand.Rand, info string) *c05World {
	w := &c05World{}
	w.card = chipsim.NewCard()
	w.card.AuthRequired = true
	w.card.BAC = chipsim.NewBAC(info, mrand.New(mrand.NewPCG(r.Uint64(), 11)))
	w.card.LDS[chipsim.FidCOM] = []byte{0x60, 0x0A, 0x5F, 0x01, 0x04, 0x30, 0x31, 0x30, 0x37, 0x5C, 0x01, 0x61}
	w.tr = &funcTransceiver{f: w.card.Transceive}
	w.nfc = iso7816.NewNfcSession(w.tr)
	if sel, err := w.nfc.SelectAid(chipsim.LDS1AID); err != nil || !sel {
		fw.LibFail("select-aid-failed", "SelectAid failed on the conforming simulated chip: %v", err)
	}
	return w
}

func c05Password(k *fw.K, route int, zone string, f mrzref.Fields) (*password.Password, string) {
	switch route % 3 {
	case 0:
		p, err := password.NewPasswordMrz(zone)
		if err != nil {
			k.Violation("bac:password:full-mrz-rejected:"+f.Layout, fmt.Sprintf("NewPasswordMrz rejects a generated valid zone: %v", err), map[string]any{"zone": zone})
			return nil, "full-mrz"
		}
		return p, "full-mrz"
	case 1:
		p, err := password.NewPasswordMrzi(f.DocumentNumber, f.DateOfBirth, f.DateOfExpiry)
		if err != nil {
			k.Violation("bac:password:fields-rejected:"+f.Layout, fmt.Sprintf("NewPasswordMrzi rejects the key fields: %v", err), map[string]any{"zone": zone, "doc": f.DocumentNumber, "dob": f.DateOfBirth, "exp": f.DateOfExpiry})
			return nil, "three-fields"
		}
		return p, "three-fields"
	default:
		m, err := mrz.MrzDecode(zone)
		if err != nil {
			k.Violation("bac:password:decode-rejected:"+f.Layout, fmt.Sprintf("MrzDecode rejects a generated valid zone: %v", err), map[string]any{"zone": zone})
			return nil, "decoded"
		}
		s, err := m.EncodeMrzi()
		if err != nil {
			k.Violation("bac:password:reencode-failed:"+f.Layout, fmt.Sprintf("EncodeMrzi fails on decoded fields: %v", err), map[string]any{"zone": zone})
			return nil, "decoded"
		}
		return &password.Password{PasswordType: password.PASSWORD_TYPE_MRZi, Password: s}, "decoded"
	}
}

func c05DocLen(layout string, i int) int {
	maxDoc := map[string]int{mrzref.TD1: 22, mrzref.TD2: 14, mrzref.TD3: 9}[layout]
	return 1 + (i/3)%maxDoc
}

var c05Layouts = []string{mrzref.TD1, mrzref.TD2, mrzref.TD3}

func c05Positive(k *fw.K, i int) {
	r := k.RNG
	layout := c05Layouts[i%3]
	zone, f := mrzref.Generate(r, layout, c05DocLen(layout, i))
	info := mrzref.Information(f)
	w := c05NewWorld(r, info)
	route := (i / 3) % 3
	pw, routeName := c05Password(k, route, zone, f)
	if pw == nil {
		return
	}
	if (i/27)%4 == 3 {
		// the same Password object served another document before: its exported fields are
		// overwritten with this document's values (a corrected OCR read), after Key() was used
		_, fo := mrzref.Generate(r, c05Layouts[(i+1)%3], 9)
		if po, err := password.NewPasswordMrzi(fo.DocumentNumber, fo.DateOfBirth, fo.DateOfExpiry); err == nil {
			_, _ = po.Key()
			po.PasswordType, po.Password = pw.PasswordType, pw.Password
			pw = po
			routeName += "+reused-object"
			k.Count("positive_reused_password_object")
		}
	}
	mode := (i / 9) % 5
	// scripted extremes
	w.card.BAC.NextRndIC = c05Extreme(r, mode, 8)
	w.card.BAC.NextKIC = c05Extreme(r, (mode+i/45)%5, 16)
	var script []byte
	if tm := (i / 45) % 5; tm != 0 {
		script = append(c05Extreme(r, tm, 8), c05Extreme(r, tm+1, 16)...)
		if script == nil {
			script = nil
		}
	}
	crand.Reader = &scriptReader{script: script, r: mrand.New(mrand.NewPCG(r.Uint64(), 5))}
	k.Nontrivial(fmt.Sprintf("pos|%s|%s|%d|%d", info, routeName, mode, (i/45)%5))
	k.Count("positive_" + layout + "_" + routeName)
	if f.Extended() {
		k.Count("positive_extended_document_number")
	}
	det := func() map[string]any {
		return map[string]any{"zone": zone, "mrz_information_ref": info, "password": pw.Password, "route": routeName,
			"rnd_ic": fmt.Sprintf("%x", w.card.BAC.RndIC), "rnd_ifd": fmt.Sprintf("%x", w.card.BAC.RndIFD), "k_ifd": fmt.Sprintf("%x", w.card.BAC.KIFD), "k_ic": fmt.Sprintf("%x", w.card.BAC.KIC), "chip_failures": w.card.BAC.Failures}
	}
	res, err := bac.NewBAC(w.nfc, &document.Document{}, pw).DoBAC()
	cls := f.Layout
	if f.Extended() {
		cls += ":extended"
	}
	if err != nil || res == nil || !res.Success {
		k.Violation("bac:genuine-failed:"+cls+":"+routeName, fmt.Sprintf("BAC against the conforming chip personalised with the same MRZ failed: %v", err), det())
		return
	}
	if !w.card.BACDone {
		k.Violation("bac:success-without-chip-completion", "DoBAC reports success but the chip did not complete BAC", det())
		return
	}
	sm := w.nfc.SM()
	if sm == nil {
		k.Violation("bac:no-sm-after-success", "DoBAC succeeded but no SM session is installed", det())
		return
	}
	if !bytesEq(sm.KsEnc(), w.card.BAC.KSEnc) {
		k.Violation("bac:ksenc-mismatch", fmt.Sprintf("terminal KSenc %x, chip KSenc %x", sm.KsEnc(), w.card.BAC.KSEnc), det())
		return
	}
	if !bytesEq(sm.SSC(), w.card.BAC.SSC0) {
		k.Violation("bac:ssc-mismatch", fmt.Sprintf("terminal SSC %x, chip SSC %x", sm.SSC(), w.card.BAC.SSC0), det())
		return
	}
	// protected exchanges (prove KSmac and the counter)
	data, err := w.nfc.ReadFile(chipsim.FidCOM)
	if err != nil || !bytesEq(data, w.card.LDS[chipsim.FidCOM]) {
		k.Violation("bac:first-protected-exchange-failed", fmt.Sprintf("reading EF.COM under the BAC session failed: %v", err), det())
		return
	}
	if w.card.SMAborted != 0 || w.card.SM == nil || !bytesEq(sm.SSC(), w.card.SM.SSC) {
		k.Violation("bac:lockstep-after-bac", "counters differ after protected exchanges", det())
		return
	}
	k.Count("positive_ok")
	if i%50 == 0 {
		k.Sample("positive", map[string]any{"zone": zone, "route": routeName, "mrz_information": info, "ssc0": fmt.Sprintf("%x", w.card.BAC.SSC0)})
	}
}

var c05HostileKinds = []string{"mac-under-other-mrz", "whole-answer-under-other-mrz", "replay-other-run", "altered-rnd-ic-valid-mac", "altered-rnd-ifd-valid-mac", "swapped-halves-valid-mac",
	"len0", "len39", "len41", "len40-random", "sw6300", "sw6982-with-data", "sw6283-with-data", "zero-kic-genuine", "wrong-password"}

func c05Hostile(k *fw.K, i int, kind string, bit int) {
	r := k.RNG
	layout := c05Layouts[i%3]
	zone, f := mrzref.Generate(r, layout, 0)
	info := mrzref.Information(f)
	_, f2 := mrzref.Generate(r, layout, 0)
	info2 := mrzref.Information(f2)
	if info2 == info {
		return
	}
	w := c05NewWorld(r, info)
	pw, _ := c05Password(k, i, zone, f)
	if pw == nil {
		return
	}
	crand.Reader = &scriptReader{r: mrand.New(mrand.NewPCG(r.Uint64(), 5))}
	ke2, km2 := chipsim.BACKeysFromMRZInfo(info2)
	des := func(key, data []byte, enc bool) []byte {
		return symref.CBC(symref.Block(symref.TDES, key), make([]byte, 8), data, enc)
	}
	mac := func(key, e []byte) []byte { return symref.RetailMAC(key, symref.Pad2(e, 8)) }
	var replayed []byte
	if kind == "replay-other-run" {
		// a genuine answer captured from an earlier run of the same chip
		w0 := c05NewWorld(r, info)
		w0.card.Hook = func(ev *chipsim.Event) []byte {
			if ev.Cmd != nil && ev.Cmd.INS == 0x82 && ev.SW == 0x9000 {
				replayed = append([]byte{}, ev.Resp...)
			}
			return nil
		}
		bac.NewBAC(w0.nfc, &document.Document{}, pw).DoBAC()
		if replayed == nil {
			fw.LibFail("bac-genuine-run-failed", "a genuine BAC run (needed to capture an answer for the replay case) failed")
		}
	}
	expectGenuine := false
	w.card.Hook = func(ev *chipsim.Event) []byte {
		if ev.Cmd == nil || ev.Cmd.INS != 0x82 {
			return nil
		}
		b := w.card.BAC
		genuine := ev.SW == 0x9000
		switch kind {
		case "bitflip":
			if !genuine {
				return nil
			}
			v := append([]byte{}, ev.Resp...)
			v[bit/8] ^= 1 << uint(bit%8)
			return v
		case "mac-under-other-mrz":
			if !genuine {
				return nil
			}
			e := ev.Resp[:32]
			return append(append(append([]byte{}, e...), mac(km2, e)...), 0x90, 0x00)
		case "whole-answer-under-other-mrz":
			if !genuine {
				return nil
			}
			pt := append(append(append([]byte{}, b.RndIC...), b.RndIFD...), b.KIC...)
			e := des(ke2, pt, true)
			return append(append(e, mac(km2, e)...), 0x90, 0x00)
		case "replay-other-run":
			return append([]byte{}, replayed...)
		case "altered-rnd-ic-valid-mac", "altered-rnd-ifd-valid-mac", "swapped-halves-valid-mac":
			if !genuine {
				return nil
			}
			ric, rifd := append([]byte{}, b.RndIC...), append([]byte{}, b.RndIFD...)
			switch kind {
			case "altered-rnd-ic-valid-mac":
				ric[r.IntN(8)] ^= 1 << uint(r.IntN(8))
			case "altered-rnd-ifd-valid-mac":
				rifd[r.IntN(8)] ^= 1 << uint(r.IntN(8))
			default:
				ric, rifd = rifd, ric
				if bytesEq(ric, rifd) {
					ric[0] ^= 1
				}
			}
			e := des(b.KEnc, append(append(ric, rifd...), b.KIC...), true)
			return append(append(e, mac(b.KMac, e)...), 0x90, 0x00)
		case "len0":
			return []byte{0x90, 0x00}
		case "len39":
			return append(append([]byte{}, ev.Resp[:min(39, len(ev.Resp))]...), 0x90, 0x00)
		case "len41":
			if !genuine {
				return nil
			}
			return append(append(append([]byte{}, ev.Resp[:40]...), 0x00), 0x90, 0x00)
		case "len40-random":
			return append(randBytes(r, 40), 0x90, 0x00)
		case "sw6300":
			return []byte{0x63, 0x00}
		case "sw6982-with-data":
			if !genuine {
				return nil
			}
			return append(append([]byte{}, ev.Resp[:40]...), 0x69, 0x82)
		case "sw6283-with-data":
			if !genuine {
				return nil
			}
			return append(append([]byte{}, ev.Resp[:40]...), 0x62, 0x83)
		case "zero-kic-genuine":
			expectGenuine = true
			return nil
		case "wrong-password":
			return nil
		}
		fw.Bug("unknown hostile kind %q", kind)
		return nil
	}
	if kind == "zero-kic-genuine" {
		w.card.BAC.NextKIC = make([]byte, 16) // legitimate chip choice: must still succeed
	}
	if kind == "wrong-password" {
		var err error
		pw, err = password.NewPasswordMrzi(f2.DocumentNumber, f2.DateOfBirth, f2.DateOfExpiry)
		if err != nil {
			return
		}
	}
	desc := kind
	if kind == "bitflip" {
		desc = fmt.Sprintf("bitflip@%d", bit)
	}
	k.Nontrivial("hostile|" + desc + "|" + info)
	k.Count("hostile_" + kind)
	res, err := bac.NewBAC(w.nfc, &document.Document{}, pw).DoBAC()
	det := map[string]any{"zone": zone, "kind": desc, "err": fmt.Sprint(err), "chip_ext_auth_request": fmt.Sprintf("%x", w.card.BAC.LastRequest)}
	if expectGenuine {
		if err != nil || res == nil || !res.Success {
			k.Violation("bac:genuine-failed:zero-kic", fmt.Sprintf("BAC with K.IC = 0 (a legitimate chip value) failed: %v", err), det)
		}
		return
	}
	if err == nil && res != nil && res.Success {
		k.Violation("bac:hostile-accepted:"+kind, fmt.Sprintf("DoBAC reports success for a %s answer", desc), det)
		return
	}
	if w.nfc.SM() != nil {
		k.Violation("bac:sm-installed-after-failure:"+kind, fmt.Sprintf("DoBAC failed for a %s answer but a secure-messaging session is installed", desc), det)
		return
	}
	k.Count("hostile_rejected")
}

func runC05(c *fw.Ctx) {
	if err := symref.SelfTest(); err != nil {
		fw.Bug("symref self-test: %v", err)
	}
	if msg := mrzref.SelfTest(); msg != "" {
		fw.Bug("mrzref self-test: %s", msg)
	}
	npos := c.Pick(1800, 1800000)
	c.Cases(npos, func(i int) string { return fmt.Sprintf("positive|%s i=%d", c05Layouts[i%3], i) }, func(i int, k *fw.K) { c05Positive(k, i) })
	// hostile: sessions x all 320 bit flips + kinds
	nh := c.Pick(8, 3000)
	for s := 0; s < nh; s++ {
		s := s
		c.Cases(320, func(b int) string { return fmt.Sprintf("hostile-bitflip|session=%d bit=%d", s, b) }, func(b int, k *fw.K) { c05Hostile(k, s, "bitflip", b) })
	}
	nk := c.Pick(20, 20000)
	c.Cases(nk*len(c05HostileKinds), func(i int) string {
		return fmt.Sprintf("hostile|%s session=%d", c05HostileKinds[i%len(c05HostileKinds)], i/len(c05HostileKinds))
	}, func(i int, k *fw.K) {
		c05Hostile(k, i/len(c05HostileKinds), c05HostileKinds[i%len(c05HostileKinds)], 0)
	})
}
