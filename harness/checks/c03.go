package checks

import (
	"bytes"
	"fmt"
	"hash/fnv"
	mrand "math/rand/v2"

	"github.com/gmrtd/gmrtd/cryptoutils"
	"github.com/gmrtd/gmrtd/iso7816"

	"verifharness/chipsim"
	"verifharness/fw"
	"verifharness/symref"
)

// C03 - secure messaging delivers only authenticated, in-sequence responses.
//
// Unit level: the independent chip-side SM produces the genuine protected response of
// each exchange; every variant of it is given to a fresh library SM positioned at the
// counter of that exchange. Oracle: Decode ok => (data, status) == genuine.
// History level: an attacker transceiver sits between NfcSession.DoAPDU and the chip;
// oracle: DoAPDU ok at exchange t => the chip processed the command of exchange t and
// answered exactly that.

func init() {
	register(&fw.Spec{
		ID:    "C03",
		Level: "exploration",
		Rule: "unit: one evaluation = one byte string presented to SecureMessaging.Decode as the response of one exchange (genuine, every single-bit flip, byte substitution at every position, truncation at every length, every deletion/duplication/permutation of data objects, outer status change, replay of every earlier response of the session, cross-session response, unprotected variants, extensions), " +
			"over suites 3DES/AES-128/192/256 x random keys x start counters (zero, random, about to wrap); history: one evaluation = one DoAPDU call - or one call of an exported single-command helper of NfcSession (GetChallenge, Internal/External/GeneralAuthenticate, MseSetAT, SelectEF, SelectAid, ReadBinaryFromOffset) - under an attacker script (pass, naked status with/without forwarding, deliver a withheld response later, replay, cross-session, bit flip), after each of which the caller's session must still be the installed one; " +
			"status: per status word (quick: SW1 61..6F, 90 x SW2 00..FF and the named ones; thorough: all 65536 x 4 suites) the genuine protected response must decode exactly and keep the counters together, five unauthenticated responses claiming that status must be rejected; genuine responses of the unit level carry 9000, named and uniformly random status words; " +
			"non-trivial = variant differs from the genuine response; distinct = hash of (suite, counter, variant bytes) resp. (script, exchange index)",
		MinEvaluations: 20000,
		Assumptions: []string{
			"the harness's chip-side SM (chipsim/sm.go, validated against the ICAO 9303-11 Appendix D.4 worked example) produces the genuine protected responses",
			"MAC forgery is out of reach; the monitor checks the plumbing around the primitives (key, counter, coverage of the MAC, comparison before use)",
		},
		Run: runC03,
	})
}

type c03Variant struct {
	kind string
	b    []byte
}

func c03Variants(r *mrand.Rand, resp []byte, plain []byte, sw uint16, earlier [][]byte, foreign []byte, thorough bool) []c03Variant {
	var out []c03Variant
	add := func(kind string, b []byte) { out = append(out, c03Variant{kind, b}) }
	n := len(resp)
	// single-bit flips
	stride := 1
	if n > 64 {
		stride = n / 48
		if thorough {
			stride = max(1, n/160)
		}
	}
	for i := 0; i < n; i += stride {
		for bit := 0; bit < 8; bit++ {
			v := append([]byte{}, resp...)
			v[i] ^= 1 << uint(bit)
			add("bitflip", v)
		}
	}
	// the last 16 bytes (DO8E + SW) and first 6 bytes (header of the first DO) always
	for i := max(0, n-16); i < n; i++ {
		if stride == 1 {
			break
		}
		for bit := 0; bit < 8; bit++ {
			v := append([]byte{}, resp...)
			v[i] ^= 1 << uint(bit)
			add("bitflip", v)
		}
	}
	// byte substitution at every (strided) position
	for i := 0; i < n; i += stride {
		v := append([]byte{}, resp...)
		nv := byte(r.Uint32())
		if nv == v[i] {
			nv ^= 0x55
		}
		v[i] = nv
		add("bytesub", v)
	}
	// truncation at every length (keeping / not keeping the status word)
	tstride := 1
	if n > 200 {
		tstride = n / 100
	}
	for l := 0; l < n; l += tstride {
		add("truncate", append([]byte{}, resp[:l]...))
		if l >= 2 && l < n-2 {
			add("truncate-keep-sw", append(append([]byte{}, resp[:l]...), resp[n-2:]...))
		}
	}
	// data-object level
	body := resp[:n-2]
	swb := resp[n-2:]
	dos, err := chipsim.ParseDOs(body)
	if err != nil {
		fw.Bug("genuine response does not parse: %v", err)
	}
	m := len(dos)
	join := func(idx []int) []byte {
		var b []byte
		for _, i := range idx {
			b = append(b, dos[i].Raw...)
		}
		return append(b, swb...)
	}
	// every subset deletion
	for mask := 0; mask < (1<<uint(m))-1; mask++ {
		var idx []int
		for i := 0; i < m; i++ {
			if mask>>uint(i)&1 == 1 {
				idx = append(idx, i)
			}
		}
		add("do-delete", join(idx))
	}
	// duplication of each object, at each position
	for i := 0; i < m; i++ {
		for pos := 0; pos <= m; pos++ {
			var idx []int
			for j := 0; j < m; j++ {
				if j == pos {
					idx = append(idx, i)
				}
				idx = append(idx, j)
			}
			if pos == m {
				idx = append(idx, i)
			}
			add("do-dup", join(idx))
		}
	}
	// every permutation
	perm := make([]int, m)
	for i := range perm {
		perm[i] = i
	}
	var permute func(k int)
	permute = func(k int) {
		if k == m {
			ident := true
			for i, p := range perm {
				if p != i {
					ident = false
				}
			}
			if !ident {
				add("do-perm", join(perm))
			}
			return
		}
		for i := k; i < m; i++ {
			perm[k], perm[i] = perm[i], perm[k]
			permute(k + 1)
			perm[k], perm[i] = perm[i], perm[k]
		}
	}
	permute(0)
	// outer status changed
	for _, s := range []uint16{0x9000, 0x6A82, 0x6282, 0x6300, 0x6982, 0x6988, 0x0000, 0xFFFF, sw ^ 0x0001, sw ^ 0x8000} {
		if s == sw {
			continue
		}
		v := append([]byte{}, body...)
		add("outer-sw", append(v, byte(s>>8), byte(s)))
	}
	// protected status rewritten consistently (DO99 and outer) without re-MAC
	for _, s := range []uint16{0x9000, 0x6A82, 0x6300} {
		if s == sw {
			continue
		}
		v := append([]byte{}, resp...)
		for i := 0; i+3 < len(v)-2; i++ {
			if v[i] == 0x99 && v[i+1] == 0x02 && v[i+2] == byte(sw>>8) && v[i+3] == byte(sw) {
				v[i+2], v[i+3] = byte(s>>8), byte(s)
			}
		}
		v[len(v)-2], v[len(v)-1] = byte(s>>8), byte(s)
		add("status-rewrite", v)
	}
	// replay of every earlier response of the same session
	for _, e := range earlier {
		if !bytesEq(e, resp) {
			add("replay-earlier", append([]byte{}, e...))
		}
	}
	// the same exchange from a session with other keys
	add("cross-session", append([]byte{}, foreign...))
	// unprotected variants
	add("unprotected-sw", []byte{byte(sw >> 8), byte(sw)})
	add("unprotected-sw", []byte{0x90, 0x00})
	add("unprotected-sw", []byte{0x6A, 0x82})
	add("unprotected-plain", append(append([]byte{}, plain...), byte(sw>>8), byte(sw)))
	add("unprotected-plain", append(append([]byte{}, plain...), 0x90, 0x00))
	if len(plain) > 0 {
		// plaintext wrapped in a DO87-looking object without MAC
		add("unprotected-do87", append(append(chipsim.TLV(0x87, append([]byte{1}, plain...)), 0x99, 0x02, byte(sw>>8), byte(sw)), swb...))
	}
	add("unprotected-do99", append([]byte{0x99, 0x02, byte(sw >> 8), byte(sw)}, swb...))
	add("unprotected-do99-8e-zero", append(append([]byte{0x99, 0x02, byte(sw >> 8), byte(sw), 0x8E, 0x08}, make([]byte, 8)...), swb...))
	add("unprotected-8e-empty", append([]byte{0x99, 0x02, byte(sw >> 8), byte(sw), 0x8E, 0x00}, swb...))
	// extension: extra bytes / extra objects
	for _, extra := range [][]byte{{0x00}, {0x00, 0x00}, {0x80, 0x01, 0xAA}, {0x85, 0x01, 0x01}, {0x87, 0x01, 0x01}, {0x99, 0x02, 0x90, 0x00}, {0x8E, 0x08, 1, 2, 3, 4, 5, 6, 7, 8}, randBytes(r, 1+r.IntN(8))} {
		add("extend-append", append(append(append([]byte{}, body...), extra...), swb...))
		add("extend-prepend", append(append(append([]byte{}, extra...), body...), swb...))
	}
	// a second data object carrying a valid cryptogram of an earlier response (tag 85 or 87)
	for _, e := range earlier {
		edos, err := chipsim.ParseDOs(e[:len(e)-2])
		if err != nil {
			continue
		}
		for _, d := range edos {
			if d.Tag != 0x87 {
				continue
			}
			for _, tag := range []byte{0x85, 0x87} {
				extra := chipsim.TLV(tag, d.Val)
				add("extra-data-object-earlier-cryptogram", append(append(append([]byte{}, extra...), body...), swb...))
				add("extra-data-object-earlier-cryptogram", append(append(append([]byte{}, body...), extra...), swb...))
			}
		}
	}
	// the genuine data object under the other tag
	if m > 0 && dos[0].Tag == 0x87 {
		v := chipsim.TLV(0x85, dos[0].Val)
		for _, d := range dos[1:] {
			v = append(v, d.Raw...)
		}
		add("data-object-retagged", append(v, swb...))
	}
	// equivalent re-encoding: non-minimal length of the first object
	if m > 0 && len(dos[0].Val) < 0x80 {
		v := append([]byte{dos[0].Tag, 0x81, byte(len(dos[0].Val))}, dos[0].Val...)
		for _, d := range dos[1:] {
			v = append(v, d.Raw...)
		}
		add("nonminimal-length", append(v, swb...))
	}
	// MAC moved: 8E value replaced by the first 8 bytes of the cryptogram / zeros / truncated MAC
	for i, d := range dos {
		if d.Tag != 0x8E {
			continue
		}
		for _, mv := range [][]byte{make([]byte, 8), d.Val[:4], append(append([]byte{}, d.Val...), 0)} {
			var v []byte
			for j, dd := range dos {
				if j == i {
					v = append(v, chipsim.TLV(0x8E, mv)...)
				} else {
					v = append(v, dd.Raw...)
				}
			}
			add("mac-altered", append(v, swb...))
		}
	}
	return out
}

func c03Unit(c *fw.Ctx, k *fw.K, i int) {
	r := k.RNG
	suite := symref.AllSuites[i%4]
	kenc, kmac := randKey(r, suite), randKey(r, suite)
	fkenc, fkmac := randKey(r, suite), randKey(r, suite)
	ssc0 := startSSC(r, suite, i/4)
	lib := newLibSM(k, suite, kenc, kmac, ssc0)
	chip := chipsim.NewSM(suite, kenc, kmac, ssc0)
	nex := c.Pick(10, 30)
	var earlier [][]byte
	for j := 0; j < nex; j++ {
		cmd := genPlainCmd(r, false)
		prot, err := lib.Encode(cmd.capdu())
		if err != nil {
			k.Count("unit_encode_error")
			return
		}
		if _, err := chip.Unwrap(prot.Encode()); err != nil {
			// C10's subject; without an accepted command there is no genuine response
			k.Count("unit_chip_refused_command")
			return
		}
		plain := genRespData(r, j%7 == 3)
		sw := drawSW(r)
		sscPre := append([]byte{}, chip.SSC...)
		resp := chip.Wrap(plain, sw)
		foreign := chipsim.NewSM(suite, fkenc, fkmac, sscPre).Wrap(plain, sw)
		sscAfterEncode := lib.SSC()

		// genuine response: must decode to exactly (plain, sw)
		k.AddEvals(1)
		k.Count("unit_genuine")
		got, err := lib.Decode(append([]byte{}, resp...))
		det := func(kind string, v []byte) map[string]any {
			return map[string]any{"suite": suite.String(), "kenc": fmt.Sprintf("%x", kenc), "kmac": fmt.Sprintf("%x", kmac), "ssc_after_encode": fmt.Sprintf("%x", sscAfterEncode),
				"genuine_response": hexCap(resp, 400), "variant_kind": kind, "variant": hexCap(v, 400), "plain_len": len(plain), "sw": fmt.Sprintf("%04x", sw)}
		}
		if err != nil {
			k.Violation("sm:decode:genuine-rejected", fmt.Sprintf("genuine protected response rejected: %v", err), det("genuine", resp))
			return
		}
		if !bytesEq(got.Data, plain) || got.Status != sw {
			k.Violation("sm:decode:genuine-wrong-plaintext", fmt.Sprintf("genuine response decoded to %d bytes / %04x, expected %d bytes / %04x", len(got.Data), got.Status, len(plain), sw), det("genuine", resp))
			return
		}
		if !bytesEq(lib.SSC(), chip.SSC) {
			k.Violation("sm:decode:ssc-after-genuine", fmt.Sprintf("counter after a genuine exchange: terminal %x chip %x", lib.SSC(), chip.SSC), det("genuine", resp))
			return
		}
		if j < 2 {
			k.Sample("unit-genuine", map[string]any{"suite": suite.String(), "cmd": cmd.String(), "response": hexCap(resp, 120), "plain_len": len(plain), "sw": fmt.Sprintf("%04x", sw)})
		}
		// the genuine checksum object (8E 08 <mac>)
		gd, _ := chipsim.ParseDOs(resp[:len(resp)-2])
		var genuineMAC []byte
		for _, d := range gd {
			if d.Tag == 0x8E {
				genuineMAC = d.Raw
			}
		}
		if len(genuineMAC) != 10 {
			fw.Bug("genuine response without an 8-byte MAC object")
		}
		// variants
		for _, v := range c03Variants(r, resp, plain, sw, earlier, foreign, c.Thorough()) {
			if bytesEq(v.b, resp) {
				continue
			}
			k.AddEvals(1)
			h := fnv.New64a()
			h.Write([]byte{byte(suite)})
			h.Write(sscAfterEncode)
			h.Write(v.b)
			k.Distinct(fmt.Sprintf("u%x", h.Sum64()))
			t := newLibSM(k, suite, kenc, kmac, sscAfterEncode)
			rr, err := t.Decode(append([]byte{}, v.b...))
			if err != nil {
				k.Count("unit_rejected_" + v.kind)
				continue
			}
			if !bytes.Contains(v.b, genuineMAC) {
				// whatever it decodes to: a response without the genuine checksum object was
				// not authenticated under the session MAC key and counter
				k.Violation("sm:decode:accepts:unauthenticated:"+v.kind, fmt.Sprintf("%s variant accepted although it does not carry the genuine MAC", v.kind), det(v.kind, v.b))
				continue
			}
			if v.kind == "outer-sw" {
				// the statement demands it explicitly: the protected status must equal the outer one
				k.Violation("sm:decode:accepts:outer-status-differs-from-protected", fmt.Sprintf("response accepted although its outer status word differs from the protected status (%04x)", sw), det(v.kind, v.b))
				continue
			}
			if rr != nil && bytesEq(rr.Data, plain) && rr.Status == sw {
				k.Count("unit_accepted_equivalent_" + v.kind)
				continue
			}
			var gl int
			var gs uint16
			if rr != nil {
				gl, gs = len(rr.Data), rr.Status
			}
			k.Violation("sm:decode:accepts:"+v.kind, fmt.Sprintf("%s variant accepted with %d bytes / status %04x; genuine is %d bytes / %04x", v.kind, gl, gs, len(plain), sw), det(v.kind, v.b))
		}
		// validly MACed responses of the chip whose decrypted data field is not well-formed
		// ISO 9797-1 method-2 padding (no 80 marker, non-zero octets after the marker, a marker
		// in the middle of data): there is no plaintext such a response stands for
		if j%4 == 1 {
			bs := suite.BlockSize()
			base := genRespData(r, false)
			if len(base) < 3 {
				base = []byte{0x11, 0x22, 0x33}
			}
			for mi, name := range []string{"no-marker-zeros", "nonzero-after-marker", "marker-inside-data-no-final-marker", "all-zero-block", "marker-then-ff"} {
				var pt []byte
				switch mi {
				case 0:
					pt = append(append([]byte{}, base...), make([]byte, bs-len(base)%bs)...)
					for q := range pt {
						if pt[q] == 0x80 {
							pt[q] = 0x81
						}
					}
					if pt[len(pt)-1] == 0 && len(pt)%bs == 0 && bs-len(base)%bs == bs {
						pt = pt[:len(pt)-bs] // base was block aligned: nothing was added, keep it unpadded
					}
				case 1:
					pt = symref.Pad2(base, bs)
					if len(pt)-len(base) < 3 {
						pt = append(pt, make([]byte, bs)...)
						pt[len(base)] = 0x80
					}
					pt[len(pt)-2] = 0x01
				case 2:
					pt = append(append([]byte{}, base...), 0x80)
					for len(pt)%bs != bs-1 {
						pt = append(pt, byte(0x21+len(pt)%7))
					}
					pt = append(pt, 0x55)
				case 3:
					pt = make([]byte, bs)
				default:
					pt = append(append([]byte{}, base...), 0x80)
					for len(pt)%bs != 0 {
						pt = append(pt, 0xFF)
					}
					if pt[len(pt)-1] == 0x80 {
						pt = append(pt, bytesRepeat(0xFF, bs)...)
					}
				}
				if len(pt) == 0 || len(pt)%bs != 0 {
					continue
				}
				mal := chipsim.NewSM(suite, kenc, kmac, sscPre).WrapPadded(pt, sw)
				k.AddEvals(1)
				k.Count("unit_malformed_padding_" + name)
				t := newLibSM(k, suite, kenc, kmac, sscAfterEncode)
				rr, err := t.Decode(append([]byte{}, mal...))
				if err != nil {
					k.Count("unit_rejected_malformed-padding")
					continue
				}
				var gl int
				if rr != nil {
					gl = len(rr.Data)
				}
				k.Violation("sm:decode:accepts:malformed-padding:"+name, fmt.Sprintf("a validly MACed response whose decrypted data (%x) is not well-formed ISO 9797-1 method-2 padding was accepted and delivered %d bytes", pt, gl), det("malformed-padding:"+name, mal))
			}
		}
		earlier = append(earlier, resp)
	}
}

func bytesRepeat(b byte, n int) []byte {
	out := make([]byte, n)
	for i := range out {
		out[i] = b
	}
	return out
}

// c03OddKeys: sessions built with key material of a length the cipher's MAC cannot use (3DES
// keys of 8 or 24 octets; the constructor may refuse them - then there is nothing to judge).
// No genuine response exists for such a session, so EVERY response presented must be refused;
// in particular responses an attacker can build without any key.
func c03OddKeys(k *fw.K, i int) {
	r := k.RNG
	for _, n := range []int{8, 24, 15, 17, 32} {
		kenc, kmac := randBytes(r, n), randBytes(r, n)
		sm, err := iso7816.NewSecureMessaging(cryptoutils.TDES, append([]byte{}, kenc...), append([]byte{}, kmac...))
		if err != nil || sm == nil {
			k.Count(fmt.Sprintf("odd_key_length_%d_refused_by_constructor", n))
			continue
		}
		k.Count(fmt.Sprintf("odd_key_length_%d_session_built", n))
		ssc := randBytes(r, 8)
		for _, sw := range []uint16{0x9000, 0x6A82, 0x6982, 0x6283} {
			swb := []byte{byte(sw >> 8), byte(sw)}
			forged := map[string][]byte{
				"empty-mac":    append(append([]byte{0x99, 0x02, swb[0], swb[1], 0x8E, 0x00}, swb...)),
				"zero-mac":     append(append([]byte{0x99, 0x02, swb[0], swb[1], 0x8E, 0x08, 0, 0, 0, 0, 0, 0, 0, 0}, swb...)),
				"random-mac":   append(append(append([]byte{0x99, 0x02, swb[0], swb[1], 0x8E, 0x08}, randBytes(r, 8)...), swb...)),
				"no-mac":       append([]byte{0x99, 0x02, swb[0], swb[1]}, swb...),
				"data-and-mac": append(append(append([]byte{0x87, 0x09, 0x01}, randBytes(r, 8)...), 0x99, 0x02, swb[0], swb[1], 0x8E, 0x00), swb...),
			}
			for _, name := range []string{"empty-mac", "zero-mac", "random-mac", "no-mac", "data-and-mac"} {
				if err := sm.SetSSC(append([]byte{}, ssc...)); err != nil {
					k.Count("odd_key_setssc_refused")
					break
				}
				k.AddEvals(1)
				k.Distinct(fmt.Sprintf("oddkey|%d|%d|%04x|%s", i, n, sw, name))
				rr, err := sm.Decode(append([]byte{}, forged[name]...))
				if err != nil {
					k.Count("odd_key_forged_response_refused")
					continue
				}
				st := uint16(0)
				if rr != nil {
					st = rr.Status
				}
				k.Violation(fmt.Sprintf("sm:decode:accepts:unauthenticated:key-length-%d:%s", n, name), fmt.Sprintf("a 3DES session built from %d-octet keys accepted a response that needs no key to build (%x) and delivered status %04x", n, forged[name], st),
					map[string]any{"kenc": fmt.Sprintf("%x", kenc), "kmac": fmt.Sprintf("%x", kmac), "ssc": fmt.Sprintf("%x", ssc), "response": fmt.Sprintf("%x", forged[name])})
			}
		}
	}
	k.Nontrivial(fmt.Sprintf("oddkeys|%d", i))
}

func hexCap(b []byte, n int) string {
	if len(b) <= n {
		return fmt.Sprintf("%x", b)
	}
	return fmt.Sprintf("%x...(%d bytes)", b[:n], len(b))
}

// ---- history level

type c03Processed struct {
	data []byte
	sw   uint16
	resp []byte
}

type c03Chip struct {
	sm   *chipsim.SM
	dead bool
}

func c03App(cmd *chipsim.Cmd) ([]byte, uint16) {
	h := fnv.New64a()
	h.Write([]byte{cmd.INS, cmd.P1, cmd.P2})
	h.Write(cmd.Data)
	x := h.Sum64()
	if cmd.INS == 0xA4 {
		switch {
		case x%5 == 0:
			return nil, 0x6A82
		case x%23 == 0:
			return nil, 0x6283
		case x%29 == 0:
			return nil, smISOStatusWords[int(x>>16)%len(smISOStatusWords)]
		}
		return nil, 0x9000
	}
	n := int(x>>8) % 48
	if cmd.INS == 0x84 || cmd.INS == 0x82 {
		n = min(cmd.Ne, 300) // GET CHALLENGE / EXTERNAL AUTHENTICATE: as many bytes as asked for
	}
	if cmd.Ne == 0 {
		n = 0
	} else if n > cmd.Ne {
		n = cmd.Ne
	}
	r := mrand.New(mrand.NewPCG(x, 7))
	sw := uint16(0x9000)
	switch {
	case x%11 == 0:
		sw = 0x6282
	case x%13 == 0:
		sw = smISOStatusWords[int(x>>16)%len(smISOStatusWords)]
	case x%17 == 0:
		sw = uint16(x >> 24)
	}
	return randBytes(r, n), sw
}

func (ch *c03Chip) process(raw []byte) (*c03Processed, []byte) {
	if ch.dead {
		return nil, []byte{0x69, 0x88}
	}
	cmd, err := ch.sm.Unwrap(raw)
	if err != nil {
		ch.dead = true // 9303-11 9.8: SM error => session keys dropped
		return nil, []byte{0x69, 0x88}
	}
	d, sw := c03App(cmd)
	resp := ch.sm.Wrap(d, sw)
	return &c03Processed{d, sw, resp}, resp
}

var c03Actions = []string{"pass", "naked-noforward", "naked-forward", "short-forward", "short-noforward", "empty-forward", "deliver-held", "deliver-held", "replay", "cross", "bitflip", "pass", "pass"}

func c03History(c *fw.Ctx, k *fw.K, i int) {
	r := k.RNG
	suite := symref.AllSuites[i%4]
	kenc, kmac := randKey(r, suite), randKey(r, suite)
	ssc0 := startSSC(r, suite, i/4)
	chip := &c03Chip{sm: chipsim.NewSM(suite, kenc, kmac, ssc0)}
	other := &c03Chip{sm: chipsim.NewSM(suite, randKey(r, suite), randKey(r, suite), ssc0)}
	otherLib := newLibSM(k, suite, other.sm.KEnc, other.sm.KMac, ssc0)

	// script
	var script []string
	directed := [][]string{
		{"pass", "naked-forward", "deliver-held"},
		{"naked-forward", "naked-noforward", "deliver-held", "pass"},
		{"pass", "pass", "naked-forward", "deliver-held", "pass"},
		{"naked-forward", "deliver-held"},
		{"pass", "naked-noforward", "pass", "pass"},
		{"pass", "pass", "replay", "pass"},
		{"pass", "cross", "pass"},
		{"naked-forward", "pass"},
		{"short-forward", "deliver-held"},
		{"pass", "empty-forward", "deliver-held", "pass"},
		{"short-forward", "short-noforward", "deliver-held"},
	}
	if i%4 < 2 && (i/4)%3 == 0 {
		script = directed[(i/12)%len(directed)]
	} else {
		n := 3 + r.IntN(5)
		for j := 0; j < n; j++ {
			script = append(script, c03Actions[r.IntN(len(c03Actions))])
		}
	}

	var held [][]byte            // responses the attacker withheld
	var heldAt []int             // exchange index where each was produced
	var passed [][]byte          // responses delivered normally
	nakedSince := map[int]bool{} // exchange -> terminal saw a naked response
	var action string
	var cur *c03Processed
	var forwarded bool
	var heldIdx int
	tr := &funcTransceiver{}
	var lastNaked bool
	var inner func(raw []byte) []byte
	tr.f = func(raw []byte) []byte {
		out := inner(raw)
		lastNaked = len(out) == 2 // what the terminal saw was a bare status word
		return out
	}
	inner = func(raw []byte) []byte {
		cur, forwarded = nil, false
		switch action {
		case "pass":
			forwarded = true
			p, resp := chip.process(raw)
			cur = p
			if p != nil {
				passed = append(passed, resp)
			}
			return resp
		case "naked-noforward":
			return []byte{0x6A, 0x82}
		case "naked-forward":
			p, resp := chip.process(raw)
			if p != nil {
				held = append(held, resp)
				heldAt = append(heldAt, tr.n-1)
			}
			return []byte{0x69, 0x82}
		case "short-forward", "empty-forward":
			// the command reaches the chip, the reply is lost and the link delivers a runt frame
			p, resp := chip.process(raw)
			if p != nil {
				held = append(held, resp)
				heldAt = append(heldAt, tr.n-1)
			}
			if action == "empty-forward" {
				return []byte{}
			}
			return []byte{0x90}
		case "short-noforward":
			return []byte{0x6A}
		case "deliver-held":
			if len(held) == 0 {
				return []byte{0x6A, 0x82}
			}
			heldIdx = r.IntN(len(held))
			return append([]byte{}, held[heldIdx]...)
		case "replay":
			if len(passed) == 0 {
				return []byte{0x6A, 0x82}
			}
			return append([]byte{}, passed[r.IntN(len(passed))]...)
		case "cross":
			// the same command position in a session with other keys
			oc := genPlainCmd(r, false)
			op, err := otherLib.Encode(oc.capdu())
			if err != nil {
				return []byte{0x6A, 0x82}
			}
			_, resp := other.process(op.Encode())
			otherLib.Decode(append([]byte{}, resp...))
			return resp
		case "bitflip":
			forwarded = true
			p, resp := chip.process(raw)
			cur = nil // what reaches the terminal is not the genuine response
			_ = p
			v := append([]byte{}, resp...)
			v[r.IntN(len(v))] ^= 1 << uint(r.IntN(8))
			return v
		}
		fw.Bug("unknown action %q", action)
		return nil
	}
	nfc := iso7816.NewNfcSession(tr)
	lib := newLibSM(k, suite, kenc, kmac, ssc0)
	nfc.SetSecureMessaging(lib)

	for t, a := range script {
		action = a
		// the command of this exchange: a generic one through DoAPDU or one of the exported
		// single-command helpers of NfcSession (they are how PACE, CA, TA, AA and file
		// reading send their commands on an established session)
		var call *smHelperCall
		if i%3 != 0 && r.IntN(5) < 2 {
			call = genHelperCall(r, smHelperOps[r.IntN(smHelperOpsSingle)], 256, nil)
		} else {
			call = genericCall(genPlainCmd(r, false))
		}
		cmd, _ := call.want(0, nil)
		k.AddEvals(1)
		k.Distinct(fmt.Sprintf("h|%v|%d|%s", script, t, call.String()))
		k.Count("hist_action_" + a)
		var rr *iso7816.RApdu
		var err error
		var res smHelperResult
		sent := tr.n
		if call.op == "DoAPDU" {
			rr, err = nfc.DoAPDU(cmd.capdu(), "c03")
		} else {
			k.Count("hist_via_" + call.op)
			res = call.call(nfc)
			err = res.err
		}
		// whatever was sent and answered: the session the caller installed stays installed
		// (once a session exists, nothing may reach the caller unauthenticated afterwards)
		if inst := nfc.SM(); inst == nil {
			k.Violation("sm:history:session-dropped:"+call.op, fmt.Sprintf("after %s at exchange %d (attacker action %q) no secure-messaging session is installed any more: later responses reach the caller unauthenticated", call.String(), t, a),
				map[string]any{"suite": suite.String(), "script": script, "exchange": t, "call": call.String()})
			return
		} else if p, ok := inst.(*iso7816.SecureMessaging); !ok || p != lib {
			k.Violation("sm:history:session-replaced:"+call.op, fmt.Sprintf("after %s at exchange %d another secure-messaging object is installed than the caller's", call.String(), t),
				map[string]any{"suite": suite.String(), "script": script, "exchange": t, "call": call.String()})
			return
		}
		if tr.n != sent+1 {
			k.Count("hist_call_not_one_transceive")
		}
		if call.op == "DoAPDU" && (err != nil || rr == nil) || call.op != "DoAPDU" && err != nil {
			k.Count("hist_error_" + a)
			nakedSince[t] = lastNaked
			continue
		}
		nakedSince[t] = false
		if call.op == "DoAPDU" {
			if forwarded && cur != nil && bytesEq(rr.Data, cur.data) && rr.Status == cur.sw {
				k.Count("hist_ok_genuine")
				continue
			}
		} else {
			rr = &iso7816.RApdu{Data: res.data}
			if forwarded && cur != nil {
				if ok, _ := call.resultAgrees(res, cur.data, cur.sw); ok {
					k.Count("hist_ok_genuine")
					k.Count("hist_ok_genuine_via_helper")
					continue
				}
			}
		}
		key := "sm:history:" + a + ":accepted"
		if a == "deliver-held" && len(held) > 0 {
			onlyNaked := true
			for e := heldAt[heldIdx]; e < t; e++ {
				if !nakedSince[e] {
					onlyNaked = false
				}
			}
			if onlyNaked {
				key = "sm:history:deliver-held:after-only-naked"
			}
		}
		if call.op != "DoAPDU" {
			if key != "sm:history:deliver-held:after-only-naked" {
				key += ":via-" + call.op
			}
			what := "success"
			if res.hasSelected {
				what = fmt.Sprintf("selected=%v", res.selected)
			}
			k.Violation(key, fmt.Sprintf("%s reported %s with %d bytes at exchange %d under attacker action %q although the chip did not produce such an answer for this exchange", call.String(), what, len(res.data), t, a),
				map[string]any{"suite": suite.String(), "script": script, "exchange": t, "call": call.String(), "returned": hexCap(res.data, 100)})
			continue
		}
		k.Violation(key, fmt.Sprintf("DoAPDU returned %d bytes / %04x at exchange %d under attacker action %q although the chip did not produce that answer for this exchange", len(rr.Data), rr.Status, t, a),
			map[string]any{"suite": suite.String(), "script": script, "exchange": t, "command": cmd.String(), "returned": hexCap(rr.Data, 100), "status": fmt.Sprintf("%04x", rr.Status)})
	}
	k.Sample("history", map[string]any{"suite": suite.String(), "script": script})
}

func runC03(c *fw.Ctx) {
	if err := symref.SelfTest(); err != nil {
		fw.Bug("symref self-test: %v", err)
	}
	nUnit := c.Pick(40, 400)
	c.Cases(nUnit, func(i int) string { return fmt.Sprintf("unit|suite=%v session=%d", symref.AllSuites[i%4], i) }, func(i int, k *fw.K) {
		k.Nontrivial("")
		c03Unit(c, k, i)
	})
	nHist := c.Pick(2000, 50000)
	c.Cases(nHist, func(i int) string { return fmt.Sprintf("history|suite=%v i=%d", symref.AllSuites[i%4], i) }, func(i int, k *fw.K) {
		k.Nontrivial("")
		c03History(c, k, i)
	})
	runC03Status(c)
	c.Cases(c.Pick(8, 200), func(i int) string { return fmt.Sprintf("odd-keys|i=%d", i) }, func(i int, k *fw.K) { c03OddKeys(k, i) })
}
