package checks

import (
	"bytes"
	"encoding/json"
	"fmt"
	"math/big"
	"strings"

	"github.com/gmrtd/gmrtd/document"
	"github.com/gmrtd/gmrtd/mrz"

	"verifharness/fw"
	"verifharness/ldsgen"
)

// C19 - parsed document attributes are exactly what the hashed bytes encode.
// Oracle: ldsgen returns, with every generated file, the values that were put in; the
// library's constructor view must show the same values (modulo the per-field weakest
// normalisation below), show every image / repeated element, refuse files of another
// data group, and be a function of the bytes alone (determinism, no aliasing).

func init() {
	register(&fw.Spec{
		ID:    "C19",
		Level: "exploration",
		Rule: "case = one generated well-formed LDS file of one of 13 types (DG1 TD1/TD2/TD3, DG2 with 1-4 templates x 1-2 images in ISO 19794-5 / 39794-5, DG7, DG11, DG12, DG13, DG14, DG15, DG16, EF.COM, EF.SOD, CardAccess, CardSecurity) " +
			"checked for view equality, completeness of repeated elements, determinism, aliasing and against the 12 other constructors plus every other Document.NewDG number, or one document assembling DG1/DG11/DG12 (all 8 presence combinations) plus optional DG2/DG7/DG16/COM/SOD whose summary is compared with the files; " +
			"quick 300 / thorough 5000 files per type and 40 / 600 documents per combination; non-trivial = the library returned a view for the file; distinct = distinct (type, shape descriptor: layout/encodings/tag set/counts)",
		MinEvaluations: 4000,
		Assumptions: []string{
			"the generator's expected view (what was written into the file) is the independent decoding; ldsgen builds all BER/DER by hand and imports no gmrtd package",
			"normalisation: filler '<' and space are equivalent inside text values, trailing fillers/spaces are insignificant, empty components of '<'-separated lists are insignificant; BCD and ASCII dates denote the same yyyymmdd digits",
			"EF.SOD / CardSecurity are structurally valid CMS with a random signature value (constructors only parse); Age/PossibleAges (clock) are not observed",
			"DG11 with A0 in the tag list or with bare 5F0F elements (non-conformant shapes seen in the field) are only counted, never judged",
		},
		Run: runC19,
	})
}

var c19Kinds = []string{"DG1", "DG2", "DG7", "DG11", "DG12", "DG13", "DG14", "DG15", "DG16", "COM", "SOD", "CardAccess", "CardSecurity"}

var c19DGNumber = map[string]int{"DG1": 1, "DG2": 2, "DG7": 7, "DG11": 11, "DG12": 12, "DG13": 13, "DG14": 14, "DG15": 15, "DG16": 16}

// c19Construct runs the library constructor of kind on data. view is nil when the
// constructor returned a nil pointer.
func c19Construct(kind string, data []byte) (view any, raw []byte, err error) {
	switch kind {
	case "DG1":
		v, e := document.NewDG1(data)
		if v == nil {
			return nil, nil, e
		}
		return v, v.RawData, e
	case "DG2":
		v, e := document.NewDG2(data)
		if v == nil {
			return nil, nil, e
		}
		return v, v.RawData, e
	case "DG7":
		v, e := document.NewDG7(data)
		if v == nil {
			return nil, nil, e
		}
		return v, v.RawData, e
	case "DG11":
		v, e := document.NewDG11(data)
		if v == nil {
			return nil, nil, e
		}
		return v, v.RawData, e
	case "DG12":
		v, e := document.NewDG12(data)
		if v == nil {
			return nil, nil, e
		}
		return v, v.RawData, e
	case "DG13":
		v, e := document.NewDG13(data)
		if v == nil {
			return nil, nil, e
		}
		return v, v.RawData, e
	case "DG14":
		v, e := document.NewDG14(data)
		if v == nil {
			return nil, nil, e
		}
		return v, v.RawData, e
	case "DG15":
		v, e := document.NewDG15(data)
		if v == nil {
			return nil, nil, e
		}
		return v, v.RawData, e
	case "DG16":
		v, e := document.NewDG16(data)
		if v == nil {
			return nil, nil, e
		}
		return v, v.RawData, e
	case "COM":
		v, e := document.NewCOM(data)
		if v == nil {
			return nil, nil, e
		}
		return v, v.RawData, e
	case "SOD":
		v, e := document.NewSOD(data)
		if v == nil {
			return nil, nil, e
		}
		return v, v.RawData, e
	case "CardAccess":
		v, e := document.NewCardAccess(data)
		if v == nil {
			return nil, nil, e
		}
		return v, v.RawData, e
	case "CardSecurity":
		v, e := document.NewCardSecurity(data)
		if v == nil {
			return nil, nil, e
		}
		return v, v.RawData, e
	}
	fw.Bug("c19Construct: unknown kind %s", kind)
	return nil, nil, nil
}

// c19DGView returns the view stored by Document.NewDG(n, ...).
func c19DGView(doc *document.Document, n int) any {
	l := &doc.Mf.Lds1
	switch n {
	case 1:
		if l.Dg1 != nil {
			return l.Dg1
		}
	case 2:
		if l.Dg2 != nil {
			return l.Dg2
		}
	case 7:
		if l.Dg7 != nil {
			return l.Dg7
		}
	case 11:
		if l.Dg11 != nil {
			return l.Dg11
		}
	case 12:
		if l.Dg12 != nil {
			return l.Dg12
		}
	case 13:
		if l.Dg13 != nil {
			return l.Dg13
		}
	case 14:
		if l.Dg14 != nil {
			return l.Dg14
		}
	case 15:
		if l.Dg15 != nil {
			return l.Dg15
		}
	case 16:
		if l.Dg16 != nil {
			return l.Dg16
		}
	}
	return nil
}

func c19JSON(v any) string {
	b, err := json.Marshal(v)
	if err != nil {
		return "json-error: " + err.Error()
	}
	return string(b)
}

func c19Hex(b []byte) string {
	if len(b) <= 96 {
		return fmt.Sprintf("%x", b)
	}
	return fmt.Sprintf("%x...(%d bytes)...%x", b[:64], len(b), b[len(b)-16:])
}

// ---- per-field weakest normalisation

// c19Text: filler and space are the same, trailing fillers/spaces do not count.
func c19Text(s string) string {
	return strings.TrimRight(strings.ReplaceAll(s, "<", " "), " ")
}

// c19List: components of a '<'-separated list; empty components do not count.
func c19List(xs []string) []string {
	out := []string{}
	for _, x := range xs {
		for _, p := range strings.Split(x, "<") {
			if p = strings.TrimRight(p, " "); p != "" {
				out = append(out, p)
			}
		}
	}
	return out
}

func c19ListEq(a, b []string) bool {
	a, b = c19List(a), c19List(b)
	if len(a) != len(b) {
		return false
	}
	for i := range a {
		if a[i] != b[i] {
			return false
		}
	}
	return true
}

func c19NameEq(lib *mrz.MrzName, exp ldsgen.Name) bool {
	return lib != nil && c19Text(lib.Primary) == c19Text(exp.Primary) && c19Text(lib.Secondary) == c19Text(exp.Secondary)
}

func c19NameStr(n *mrz.MrzName) string {
	if n == nil {
		return "<nil>"
	}
	return fmt.Sprintf("{%q %q}", n.Primary, n.Secondary)
}

// c19Names compares a repeated name element; returns "" when equal, else a class:
// "dropped" (library shows a strict prefix/subset in order with fewer elements),
// "extra", or "mismatch".
func c19Names(lib []mrz.MrzName, exp []ldsgen.Name) string {
	if len(lib) == len(exp) {
		for i := range lib {
			if !c19NameEq(&lib[i], exp[i]) {
				return "mismatch"
			}
		}
		return ""
	}
	if len(lib) < len(exp) {
		return "dropped"
	}
	return "extra"
}

func c19BigEq(lib *big.Int, exp *int64) bool {
	if lib == nil || exp == nil {
		return lib == nil && exp == nil
	}
	return lib.IsInt64() && lib.Int64() == *exp
}

func c19OIDEq(lib []int, exp ldsgen.OID) bool { return ldsgen.OID(lib).Equal(exp) }

// c19T bundles the per-file reporting context.
type c19T struct {
	k     *fw.K
	kind  string
	lk    string // lower-case kind used in keys
	shape string
	file  []byte
}

func (t *c19T) viol(key, what string, extra map[string]any) {
	d := map[string]any{"file_type": t.kind, "shape": t.shape, "file_hex": c19Hex(t.file)}
	for k, v := range extra {
		d[k] = v
	}
	t.k.Violation(key, what, d)
}

// field reports a mismatch of one exposed field.
func (t *c19T) field(name string, ok bool, lib, exp any) {
	if !ok {
		t.viol(t.lk+":field-mismatch:"+name, fmt.Sprintf("%s field %s: library shows %v, the bytes encode %v", t.kind, name, lib, exp), map[string]any{"library": fmt.Sprint(lib), "expected": fmt.Sprint(exp)})
	}
}

// ---------------------------------------------------------------------------------------
// view comparison per file type

func c19CmpDG1(t *c19T, view any, e ldsgen.DG1View) {
	v := view.(*document.DG1)
	t.field("rawMrz", v.RawMrz == e.MRZ, v.RawMrz, e.MRZ)
	m := v.Mrz
	if m == nil {
		t.viol("dg1:field-mismatch:mrz-missing", "DG1 accepted but no decoded MRZ in the view", nil)
		return
	}
	f := e.Fields
	eq := func(name, lib, exp string) {
		t.field(name, c19Text(lib) == c19Text(exp), fmt.Sprintf("%q", lib), fmt.Sprintf("%q", exp))
	}
	eq("documentCode", m.DocumentCode, f.DocumentCode)
	eq("issuingState", m.IssuingState, f.IssuingState)
	t.field("nameOfHolder", c19NameEq(m.NameOfHolder, f.Name), c19NameStr(m.NameOfHolder), fmt.Sprintf("%q", f.Name))
	key := "documentNumber"
	if len(f.DocumentNumber) > 9 {
		key = "documentNumber-extended"
	}
	eq(key, m.DocumentNumber, f.DocumentNumber)
	eq("nationality", m.Nationality, f.Nationality)
	eq("dateOfBirth", m.DateOfBirth, f.DateOfBirth)
	eq("sex", m.Sex, f.Sex)
	eq("dateOfExpiry", m.DateOfExpiry, f.DateOfExpiry)
	key = "optionalData"
	if len(f.DocumentNumber) > 9 {
		key = "optionalData-after-extended-number"
	}
	eq(key, m.OptionalData, f.OptionalData)
	eq("optionalData2", m.OptionalData2, f.OptionalData2)
}

func c19ImagesEq(a, b [][]byte) bool {
	if len(a) != len(b) {
		return false
	}
	for i := range a {
		if !bytes.Equal(a[i], b[i]) {
			return false
		}
	}
	return true
}

func c19CmpDG2(t *c19T, view any, e ldsgen.DG2View) {
	v := view.(*document.DG2)
	var libImgs [][]byte
	for _, im := range v.Images {
		libImgs = append(libImgs, im.Image)
	}
	all := e.AllImages()
	if !c19ImagesEq(libImgs, all) {
		last := e.Templates[len(e.Templates)-1].Images()
		det := map[string]any{"templates": len(e.Templates), "images_in_file": len(all), "images_in_view": len(libImgs)}
		if len(e.Templates) > 1 && c19ImagesEq(libImgs, last) {
			t.viol("dg2:images-of-earlier-templates-dropped", fmt.Sprintf("DG2 with %d templates holding %d images: Images shows only the %d image(s) of the last template", len(e.Templates), len(all), len(libImgs)), det)
		} else if len(libImgs) < len(all) {
			t.viol("dg2:images-dropped", fmt.Sprintf("DG2 holds %d images, the view shows %d", len(all), len(libImgs)), det)
		} else {
			t.viol("dg2:images-mismatch", "DG2 Images differ from the images in the file", det)
		}
	}
	if len(v.BITs) != len(e.Templates) {
		t.viol("dg2:templates-count", fmt.Sprintf("DG2 holds %d templates, the view shows %d", len(e.Templates), len(v.BITs)), nil)
		return
	}
	for i, et := range e.Templates {
		lb := v.BITs[i]
		h := func(name string, lib, exp []byte) {
			t.field("bht-"+name, bytes.Equal(lib, exp), fmt.Sprintf("%x", lib), fmt.Sprintf("%x", exp))
		}
		h("80", lb.BHT.IcaoHeaderVersion, et.BHT.ICAOHeaderVersion)
		h("81", lb.BHT.BiometricType, et.BHT.BiometricType)
		h("82", lb.BHT.BiometricSubType, et.BHT.BiometricSubType)
		h("83", lb.BHT.CreationDateTime, et.BHT.CreationDateTime)
		h("85", lb.BHT.ValidityPeriod, et.BHT.ValidityPeriod)
		h("86", lb.BHT.PID, et.BHT.PID)
		h("87", lb.BHT.FormatOwner, et.BHT.FormatOwner)
		h("88", lb.BHT.FormatType, et.BHT.FormatType)
		if et.Encoding == ldsgen.ISO19794 {
			r := lb.BDB.Iso19794
			if r == nil || lb.BDB.Iso39794 != nil {
				t.viol("dg2:field-mismatch:bdb-encoding", "template with tag 5F2E not shown as ISO 19794-5", nil)
				continue
			}
			hd := r.Facial.Header
			t.field("19794-header", hd.FormatID == [4]byte{'F', 'A', 'C', 0} && hd.VersionID == [4]byte{'0', '1', '0', 0} && hd.RecordLength == et.RecordLength && hd.NumberOfFaces == et.NumberOfFaces,
				fmt.Sprintf("%+v", hd), fmt.Sprintf("len=%d faces=%d", et.RecordLength, et.NumberOfFaces))
			if len(r.Facial.Images) != len(et.Faces) {
				t.viol("dg2:faces-dropped", fmt.Sprintf("facial record holds %d images, the view shows %d", len(et.Faces), len(r.Facial.Images)), nil)
				continue
			}
			for j, ef := range et.Faces {
				li := r.Facial.Images[j]
				fi, ii := li.FacialInformation, li.ImageInformation
				okFI := fi.Length == ef.BlockLength && int(fi.NumberOfPoints) == len(ef.Features) && fi.Gender == ef.Gender && fi.EyeColor == ef.EyeColor && fi.HairColor == ef.HairColor &&
					fi.Properties == ef.Properties && fi.Expression == ef.Expression && fi.Pose == ef.Pose && fi.PoseUncertainty == ef.PoseUncertainty
				t.field("19794-facialInformation", okFI, fmt.Sprintf("%+v", fi), fmt.Sprintf("%+v", ef.BlockLength))
				okII := ii.Type == ef.ImageType && ii.DataType == ef.ImageDataType && ii.Width == ef.Width && ii.Height == ef.Height && ii.ColorSpace == ef.ColorSpace &&
					ii.SourceType == ef.SourceType && ii.DeviceType == ef.DeviceType && ii.Quality == ef.Quality
				t.field("19794-imageInformation", okII, fmt.Sprintf("%+v", ii), fmt.Sprintf("w=%d h=%d", ef.Width, ef.Height))
				okF := len(li.Features) == len(ef.Features)
				for x := 0; okF && x < len(ef.Features); x++ {
					a, b := li.Features[x], ef.Features[x]
					okF = a.Type == b.Type && a.MajorPoint == b.MajorPoint && a.MinorPoint == b.MinorPoint && a.X == b.X && a.Y == b.Y && a.Reserved == b.Reserved
				}
				t.field("19794-featurePoints", okF, len(li.Features), len(ef.Features))
				t.field("19794-imageData", bytes.Equal(li.Data, ef.Image), len(li.Data), len(ef.Image))
			}
		} else {
			a := lb.BDB.Iso39794
			if a == nil || lb.BDB.Iso19794 != nil {
				t.viol("dg2:field-mismatch:bdb-encoding", "template with tag 7F2E not shown as ISO 39794-5", nil)
				continue
			}
			ef := et.Face39794
			fb := a.FaceImageDataBlock
			t.field("39794-versionBlock", fb.VersionBlock.Generation == ef.Generation && fb.VersionBlock.Year == ef.Year, fmt.Sprintf("%+v", fb.VersionBlock), fmt.Sprintf("%d/%d", ef.Generation, ef.Year))
			if len(fb.RepresentationBlocks) != 1 {
				t.viol("dg2:field-mismatch:39794-representationBlocks", "one representation block in the file", nil)
				continue
			}
			rb := fb.RepresentationBlocks[0]
			b2 := rb.ImageRepresentation.Base.ImageRepresentation2DBlock
			t.field("39794-representationId", rb.RepresentationId == ef.RepresentationID, rb.RepresentationId, ef.RepresentationID)
			t.field("39794-imageData", bytes.Equal(b2.RepresentationData2D, ef.Image), len(b2.RepresentationData2D), len(ef.Image))
			expFmt := ldsgen.TLV(0xA0, ldsgen.CtxInt(0, int64(ef.ImageDataFormat)))
			t.field("39794-imageDataFormat", bytes.Equal(b2.ImageInformation2DBlock.ImageDataFormat.Raw, expFmt), fmt.Sprintf("%x", []byte(b2.ImageInformation2DBlock.ImageDataFormat.Raw)), fmt.Sprintf("%x", expFmt))
			opt := func(name string, lib int, exp *int) {
				want := 0
				if exp != nil {
					want = *exp
				}
				t.field("39794-"+name, lib == want, lib, want)
			}
			opt("captureYear", rb.CaptureDateTimeBlock.Year, ef.CaptureYear)
			opt("captureMonth", rb.CaptureDateTimeBlock.Month, ef.CaptureMonth)
			opt("captureDay", rb.CaptureDateTimeBlock.Day, ef.CaptureDay)
			opt("sessionId", rb.SessionId, ef.SessionID)
			opt("derivedFrom", rb.DerivedFrom, ef.DerivedFrom)
			opt("cameraToSubjectDistance", b2.ImageInformation2DBlock.CameraToSubjectDistance, ef.CameraDistance)
			opt("sensorDiagonal", b2.ImageInformation2DBlock.SensorDiagonal, ef.SensorDiagonal)
			opt("lensFocalLength", b2.ImageInformation2DBlock.LensFocalLength, ef.LensFocalLength)
			opt("imageWidth", b2.ImageInformation2DBlock.ImageSizeBlock.Width, ef.ImageWidth)
			opt("imageHeight", b2.ImageInformation2DBlock.ImageSizeBlock.Height, ef.ImageHeight)
		}
	}
}

func c19CmpDG7(t *c19T, view any, e ldsgen.DG7View) {
	v := view.(*document.DG7)
	var lib [][]byte
	for _, im := range v.Images {
		lib = append(lib, im.Image)
	}
	if !c19ImagesEq(lib, e.Images) {
		if len(lib) < len(e.Images) {
			t.viol("dg7:images-dropped", fmt.Sprintf("DG7 holds %d images, the view shows %d", len(e.Images), len(lib)), nil)
		} else {
			t.viol("dg7:images-mismatch", "DG7 images differ from the file", map[string]any{"in_file": len(e.Images), "in_view": len(lib)})
		}
	}
}

func c19DateKey(tag string, bcd bool) string {
	if bcd {
		return tag + "-bcd"
	}
	return tag + "-ascii"
}

func c19CmpDG11(t *c19T, view any, e ldsgen.DG11View) {
	d := view.(*document.DG11).Details
	str := func(tag uint32, name string, lib, exp string) {
		if !e.Has[tag] {
			exp = ""
			name += "-absent"
		}
		t.field(name, c19Text(lib) == c19Text(exp), fmt.Sprintf("%q", lib), fmt.Sprintf("%q", exp))
	}
	list := func(tag uint32, name string, lib, exp []string) {
		if !e.Has[tag] {
			exp = nil
			name += "-absent"
		}
		t.field(name, c19ListEq(lib, exp), fmt.Sprintf("%q", lib), fmt.Sprintf("%q", exp))
	}
	if e.Has[0x5F0E] {
		t.field("5F0E", c19NameEq(d.NameOfHolder, e.NameOfHolder), c19NameStr(d.NameOfHolder), fmt.Sprintf("%q", e.NameOfHolder))
	} else {
		t.field("5F0E-absent", d.NameOfHolder == nil || (d.NameOfHolder.Primary == "" && d.NameOfHolder.Secondary == ""), c19NameStr(d.NameOfHolder), "absent")
	}
	switch c19Names(d.OtherNames, e.OtherNames) {
	case "dropped":
		t.viol("dg11:other-names-dropped", fmt.Sprintf("DG11 holds %d other names, the view shows %d", len(e.OtherNames), len(d.OtherNames)), nil)
	case "extra":
		t.viol("dg11:other-names-extra", fmt.Sprintf("DG11 holds %d other names, the view shows %d", len(e.OtherNames), len(d.OtherNames)), nil)
	case "mismatch":
		t.field("5F0F", false, fmt.Sprintf("%v", d.OtherNames), fmt.Sprintf("%q", e.OtherNames))
	}
	str(0x5F10, "5F10", d.PersonalNumber, e.PersonalNumber)
	str(0x5F2B, c19DateKey("5F2B", e.DateIsBCD), d.FullDateOfBirth, e.FullDateOfBirth)
	list(0x5F11, "5F11", d.PlaceOfBirth, e.PlaceOfBirth)
	list(0x5F42, "5F42", d.Address, e.Address)
	str(0x5F12, "5F12", d.Telephone, e.Telephone)
	str(0x5F13, "5F13", d.Profession, e.Profession)
	str(0x5F14, "5F14", d.Title, e.Title)
	str(0x5F15, "5F15", d.PersonalSummary, e.PersonalSummary)
	t.field("5F16", bytes.Equal(d.ProofOfCitizenship, e.ProofOfCitizenship), len(d.ProofOfCitizenship), len(e.ProofOfCitizenship))
	list(0x5F17, "5F17", d.OtherTravelDocuments, e.OtherTravelDocuments)
	str(0x5F18, "5F18", d.CustodyInformation, e.CustodyInformation)
}

func c19CmpDG12(t *c19T, view any, e ldsgen.DG12View) {
	d := view.(*document.DG12).Details
	str := func(tag uint32, name string, lib, exp string) {
		if !e.Has[tag] {
			exp = ""
			name += "-absent"
		}
		t.field(name, c19Text(lib) == c19Text(exp), fmt.Sprintf("%q", lib), fmt.Sprintf("%q", exp))
	}
	str(0x5F19, "5F19", d.IssuingAuthority, e.IssuingAuthority)
	str(0x5F26, c19DateKey("5F26", e.DateIsBCD), d.DateOfIssue, e.DateOfIssue)
	switch c19Names(d.OtherPersons, e.OtherPersons) {
	case "dropped":
		t.viol("dg12:other-persons-dropped", fmt.Sprintf("DG12 holds %d other persons, the view shows %d", len(e.OtherPersons), len(d.OtherPersons)), nil)
	case "extra":
		t.viol("dg12:other-persons-extra", fmt.Sprintf("DG12 holds %d other persons, the view shows %d", len(e.OtherPersons), len(d.OtherPersons)), nil)
	case "mismatch":
		t.field("5F1A", false, fmt.Sprintf("%v", d.OtherPersons), fmt.Sprintf("%q", e.OtherPersons))
	}
	str(0x5F1B, "5F1B", d.EndorsementsAndObservations, e.EndorsementsAndObservations)
	str(0x5F1C, "5F1C", d.TaxExitRequirements, e.TaxExitRequirements)
	t.field("5F1D", bytes.Equal(d.ImageFront, e.ImageFront), len(d.ImageFront), len(e.ImageFront))
	t.field("5F1E", bytes.Equal(d.ImageRear, e.ImageRear), len(d.ImageRear), len(e.ImageRear))
	str(0x5F55, c19DateKey("5F55", e.DateIsBCD), d.PersoDateTime, e.PersoDateTime)
	str(0x5F56, "5F56", d.PersoSystemSerialNumber, e.PersoSystemSerialNumber)
}

func c19CmpDG16(t *c19T, view any, e ldsgen.DG16View) {
	v := view.(*document.DG16)
	if len(v.PersonsToNotify) != len(e.Persons) {
		key := "dg16:persons-extra"
		if len(v.PersonsToNotify) < len(e.Persons) {
			key = "dg16:persons-dropped"
		}
		t.viol(key, fmt.Sprintf("DG16 holds %d persons to notify, the view shows %d", len(e.Persons), len(v.PersonsToNotify)), nil)
		return
	}
	for i, ep := range e.Persons {
		lp := v.PersonsToNotify[i]
		t.field(c19DateKey("5F50", e.DateIsBCD), lp.DateRecorded == ep.DateRecorded, lp.DateRecorded, ep.DateRecorded)
		t.field("5F51", c19NameEq(lp.Name, ep.Name), c19NameStr(lp.Name), fmt.Sprintf("%q", ep.Name))
		t.field("5F52", c19Text(lp.Telephone) == c19Text(ep.Telephone), lp.Telephone, ep.Telephone)
		t.field("5F53", c19ListEq(lp.Address, ep.Address), fmt.Sprintf("%q", lp.Address), fmt.Sprintf("%q", ep.Address))
	}
}

func c19CmpSecInfos(t *c19T, s *document.SecurityInfos, e ldsgen.SecInfosView) {
	if s == nil {
		t.viol(t.lk+":field-mismatch:securityInfos-missing", "file accepted but no SecurityInfos in the view", nil)
		return
	}
	t.field("securityInfos-rawData", bytes.Equal(s.RawData, e.SetDER), len(s.RawData), len(e.SetDER))
	if n := s.TotalCnt(); n != len(e.Infos) {
		key := t.lk + ":security-infos-extra"
		if n < len(e.Infos) {
			key = t.lk + ":security-infos-dropped"
		}
		t.viol(key, fmt.Sprintf("file holds %d SecurityInfos, the view shows %d", len(e.Infos), n), nil)
	}
	cnt := func(kind ldsgen.SecInfoKind, n int) []ldsgen.SecInfo {
		exp := e.ByKind(kind)
		if len(exp) != n {
			t.viol(t.lk+":security-infos-count:"+kind.String(), fmt.Sprintf("file holds %d %s, the view shows %d", len(exp), kind, n), nil)
			return nil
		}
		return exp
	}
	for i, x := range cnt(ldsgen.KindPACEInfo, len(s.PaceInfos)) {
		l := s.PaceInfos[i]
		t.field("PACEInfo", c19OIDEq(l.Protocol, x.Protocol) && l.Version == x.Version && c19BigEq(l.ParameterId, x.ID), c19JSON(l), fmt.Sprintf("%x", x.DER))
	}
	for i, x := range cnt(ldsgen.KindPACEDomainParameterInfo, len(s.PaceDomainParamInfos)) {
		l := s.PaceDomainParamInfos[i]
		t.field("PACEDomainParameterInfo", c19OIDEq(l.Protocol, x.Protocol) && c19OIDEq(l.DomainParameter.Algorithm, x.AlgIDOID) && bytes.Equal(l.DomainParameter.Parameters.FullBytes, x.AlgIDParams) && c19BigEq(l.ParameterId, x.ID), c19JSON(l), fmt.Sprintf("%x", x.DER))
	}
	for i, x := range cnt(ldsgen.KindActiveAuthenticationInfo, len(s.ActiveAuthInfos)) {
		l := s.ActiveAuthInfos[i]
		t.field("ActiveAuthenticationInfo", c19OIDEq(l.Protocol, x.Protocol) && l.Version == x.Version && c19OIDEq(l.SignatureAlgorithm, x.SigAlg), c19JSON(l), fmt.Sprintf("%x", x.DER))
	}
	for i, x := range cnt(ldsgen.KindChipAuthenticationInfo, len(s.ChipAuthInfos)) {
		l := s.ChipAuthInfos[i]
		t.field("ChipAuthenticationInfo", c19OIDEq(l.Protocol, x.Protocol) && l.Version == x.Version && c19BigEq(l.KeyId, x.ID), c19JSON(l), fmt.Sprintf("%x", x.DER))
	}
	for i, x := range cnt(ldsgen.KindChipAuthenticationPublicKeyInfo, len(s.ChipAuthPubKeyInfos)) {
		l := s.ChipAuthPubKeyInfos[i]
		pk := l.ChipAuthenticationPublicKey
		ok := c19OIDEq(l.Protocol, x.Protocol) && c19BigEq(l.KeyId, x.ID) && c19OIDEq(pk.Algorithm.Algorithm, x.SPKIAlg) &&
			bytes.Equal(pk.Algorithm.Parameters.FullBytes, x.SPKIParams) && bytes.Equal(pk.SubjectPublicKey.Bytes, x.SPKIKeyBytes) && pk.SubjectPublicKey.BitLength == 8*len(x.SPKIKeyBytes)
		t.field("ChipAuthenticationPublicKeyInfo", ok, c19JSON(l), fmt.Sprintf("%x", x.DER))
	}
	for i, x := range cnt(ldsgen.KindTerminalAuthenticationInfo, len(s.TermAuthInfos)) {
		l := s.TermAuthInfos[i]
		t.field("TerminalAuthenticationInfo", c19OIDEq(l.Protocol, x.Protocol) && l.Version == x.Version, c19JSON(l), fmt.Sprintf("%x", x.DER))
	}
	for i, x := range cnt(ldsgen.KindUnknown, len(s.UnhandledInfos)) {
		l := s.UnhandledInfos[i]
		t.field("UnknownInfo", c19OIDEq(l.Protocol, x.Protocol) && bytes.Equal(l.Raw, x.DER), c19JSON(l), fmt.Sprintf("%x", x.DER))
	}
	if len(s.EfDirInfos) != 0 {
		t.viol(t.lk+":security-infos-count:EFDirInfo", "no EFDirInfo in the file", nil)
	}
}

func c19CmpCOM(t *c19T, view any, e ldsgen.COMView) {
	v := view.(*document.COM)
	t.field("5F01", v.LdsVersion == e.LDSVersion, v.LdsVersion, e.LDSVersion)
	t.field("5F36", v.UnicodeVersion == e.UnicodeVersion, v.UnicodeVersion, e.UnicodeVersion)
	ok := len(v.TagList) == len(e.TagList)
	for i := 0; ok && i < len(e.TagList); i++ {
		ok = uint32(v.TagList[i]) == e.TagList[i]
	}
	t.field("5C", ok, fmt.Sprintf("%x", v.TagList), fmt.Sprintf("%x", e.TagList))
}

func c19CmpSOD(t *c19T, view any, e ldsgen.SODView) {
	v := view.(*document.SOD)
	if v.SD == nil || v.LdsSecurityObject == nil {
		t.viol("sod:field-mismatch:missing", "EF.SOD accepted without SignedData / LDS security object in the view", nil)
		return
	}
	t.field("eContent", bytes.Equal(v.SD.Content.EContent, e.EContent), len(v.SD.Content.EContent), len(e.EContent))
	t.field("eContentType", c19OIDEq(v.SD.Content.EContentType, ldsgen.OIDLDSSecObject), v.SD.Content.EContentType, ldsgen.OIDLDSSecObject)
	l, x := v.LdsSecurityObject, e.LSO
	t.field(fmt.Sprintf("lso-version-v%d", x.Version), l.Version == x.Version, l.Version, x.Version)
	t.field("lso-hashAlgorithm", c19OIDEq(l.HashAlgorithm.Algorithm, x.HashAlg.OID) && bytes.Equal(l.HashAlgorithm.Parameters.FullBytes, x.ParamsDER), c19JSON(l.HashAlgorithm), x.HashAlg.Name)
	if len(l.DataGroupHashValues) != len(x.Hashes) {
		key := "sod:hashes-extra"
		if len(l.DataGroupHashValues) < len(x.Hashes) {
			key = "sod:hashes-dropped"
		}
		t.viol(key, fmt.Sprintf("security object lists %d data group hashes, the view shows %d", len(x.Hashes), len(l.DataGroupHashValues)), nil)
	} else {
		for i, h := range x.Hashes {
			lh := l.DataGroupHashValues[i]
			t.field("lso-dataGroupHash", lh.DataGroupNumber == h.Number && bytes.Equal(lh.DataGroupHashValue, h.Hash), fmt.Sprintf("%d:%x", lh.DataGroupNumber, lh.DataGroupHashValue), fmt.Sprintf("%d:%x", h.Number, h.Hash))
		}
	}
	for _, h := range x.Hashes {
		t.field("DgHash()", bytes.Equal(v.DgHash(h.Number), h.Hash), fmt.Sprintf("%x", v.DgHash(h.Number)), fmt.Sprintf("%x", h.Hash))
	}
	t.field("lso-ldsVersionInfo", l.LdsVersionInfo.LdsVersion == x.LDSVersion && l.LdsVersionInfo.UnicodeVersion == x.UnicodeVersion, fmt.Sprintf("%+v", l.LdsVersionInfo), x.LDSVersion+"/"+x.UnicodeVersion)
}

func c19CmpCardSecurity(t *c19T, view any, e ldsgen.CardSecurityView) {
	v := view.(*document.CardSecurity)
	if v.SD == nil {
		t.viol("cardsecurity:field-mismatch:missing", "CardSecurity accepted without SignedData in the view", nil)
		return
	}
	t.field("eContent", bytes.Equal(v.SD.Content.EContent, e.SecInfos.SetDER), len(v.SD.Content.EContent), len(e.SecInfos.SetDER))
	c19CmpSecInfos(t, v.SecurityInfos, e.SecInfos)
}

// ---------------------------------------------------------------------------------------
// generation of one file of a kind

type c19Case struct {
	file  []byte
	shape string // fine descriptor (distinct count)
	class string // coarse class used in "rejected" keys
	judge bool   // false: non-conformant shape seen in the field, only counted
	cmp   func(t *c19T, view any)
}

func c19Gen(kind string, k *fw.K, i int, thorough bool) c19Case {
	r := k.RNG
	big := thorough && i%25 == 7 // a few realistic sizes in the thorough tier
	switch kind {
	case "DG1":
		lay := []ldsgen.Layout{ldsgen.TD3, ldsgen.TD2, ldsgen.TD1}[i%3]
		b, v := ldsgen.NewDG1(r, ldsgen.DG1Opts{MRZOpts: ldsgen.MRZOpts{Layout: lay, Plain: i%10 == 9}})
		f := v.Fields
		class := lay.String()
		if len(f.DocumentNumber) > 9 {
			class += "-extended"
		}
		shape := fmt.Sprintf("%s|dn=%d|dob=%d|sex=%q|opt=%d/%d|sec=%v|cdfill=%v|name=%d", class, len(f.DocumentNumber), len(c19Text(f.DateOfBirth)), f.Sex, len(f.OptionalData), len(f.OptionalData2), f.Name.Secondary != "", f.OptionalCDFiller, len(f.Name.Encode()))
		return c19Case{b, shape, class, true, func(t *c19T, view any) { c19CmpDG1(t, view, v) }}
	case "DG2":
		o := ldsgen.DG2Opts{Templates: 1 + i%4, FullHeader: i%7 == 0}
		switch (i / 4) % 4 {
		case 0:
			o.Encoding = ldsgen.ISO19794
		case 1:
			o.Encoding = ldsgen.ISO39794
		}
		if big {
			o.ImageBytes = 4000 + r.IntN(20000)
		}
		target := 0
		if i%11 == 5 { // exercise the exact-size knob (harness self-check below)
			o.ImageBytes = 300
			target = 4096 + r.IntN(3000)
			o.TotalSize = target
		}
		b, v := ldsgen.NewDG2(r, o)
		if target != 0 && len(b) != target {
			fw.Bug("ldsgen.NewDG2 TotalSize=%d produced %d bytes", target, len(b))
		}
		enc, nimg := "", 0
		for _, tv := range v.Templates {
			enc += map[ldsgen.BioEncoding]string{ldsgen.ISO19794: "a", ldsgen.ISO39794: "b"}[tv.Encoding]
			enc += fmt.Sprint(len(tv.Images()))
			nimg += len(tv.Images())
		}
		class := fmt.Sprintf("templates=%d", len(v.Templates))
		return c19Case{b, fmt.Sprintf("%s|%s|imgs=%d|sz=%d", class, enc, nimg, len(b)/512), class, true, func(t *c19T, view any) { c19CmpDG2(t, view, v) }}
	case "DG7":
		o := ldsgen.DG7Opts{}
		if i%5 == 0 {
			o.Images = 1 + (i/5)%9
		}
		if big {
			o.ImageBytes = 2000 + r.IntN(8000)
		}
		b, v := ldsgen.NewDG7(r, o)
		class := fmt.Sprintf("images=%d", len(v.Images))
		return c19Case{b, fmt.Sprintf("%s|sz=%d", class, len(b)/256), class, true, func(t *c19T, view any) { c19CmpDG7(t, view, v) }}
	case "DG11":
		o := ldsgen.DG11Opts{SloppySeparators: i%10 == 3}
		judge, class := true, "conformant"
		switch {
		case i%6 == 0: // repetition space of other names: 1..5 with everything else random
			o.OtherNames = 1 + (i/6)%5
			o.Tags = []uint32{0x5F0E, 0x5F0F}
			if i%12 == 0 {
				o.Tags = append(o.Tags, 0x5F2B, 0x5F11, 0x5F42)
			}
		case i%25 == 1:
			o.OtherNamesListTag, judge, class = 0xA0, false, "A0-in-tag-list"
			o.Tags = []uint32{0x5F0E, 0x5F0F, 0x5F10}
		case i%25 == 2:
			o.DirectOtherNames, judge, class = true, false, "bare-5F0F"
			o.Tags = []uint32{0x5F0E, 0x5F0F, 0x5F10}
		}
		b, v := ldsgen.NewDG11(r, o)
		shape := fmt.Sprintf("%s|tags=%x|other=%d|bcd=%v|sloppy=%v", class, v.TagList, len(v.OtherNames), v.DateIsBCD && v.Has[0x5F2B], o.SloppySeparators)
		return c19Case{b, shape, class, judge, func(t *c19T, view any) { c19CmpDG11(t, view, v) }}
	case "DG12":
		o := ldsgen.DG12Opts{}
		if i%6 == 0 {
			o.OtherPersons = 1 + (i/6)%5
			o.Tags = []uint32{0x5F19, 0x5F1A}
			if i%12 == 0 {
				o.Tags = append(o.Tags, 0x5F26, 0x5F55)
			}
		}
		b, v := ldsgen.NewDG12(r, o)
		shape := fmt.Sprintf("tags=%x|other=%d|bcd=%v", v.TagList, len(v.OtherPersons), v.DateIsBCD)
		return c19Case{b, shape, "conformant", true, func(t *c19T, view any) { c19CmpDG12(t, view, v) }}
	case "DG13":
		b, content := ldsgen.RandDG13(r, 300)
		return c19Case{b, fmt.Sprintf("len=%d", len(content)), "opaque", true, func(t *c19T, view any) {
			v := view.(*document.DG13)
			t.field("content", bytes.Equal(v.Content, content), fmt.Sprintf("%x", v.Content), fmt.Sprintf("%x", content))
		}}
	case "DG14", "CardAccess", "CardSecurity":
		mix := ldsgen.DG14Mix
		if kind == "CardAccess" {
			mix = ldsgen.CardAccessMix
		}
		infos := ldsgen.RandSecInfos(r, mix)
		sorted := i%3 == 0
		kinds := ""
		for _, x := range infos {
			kinds += fmt.Sprint(int(x.Kind))
			if x.ID != nil {
				kinds += "i"
			}
		}
		shape := fmt.Sprintf("infos=%s|sorted=%v", kinds, sorted)
		switch kind {
		case "DG14":
			b, v := ldsgen.NewDG14(sorted, infos...)
			return c19Case{b, shape, "secinfos", true, func(t *c19T, view any) { c19CmpSecInfos(t, view.(*document.DG14).SecInfos, v) }}
		case "CardAccess":
			b, v := ldsgen.NewCardAccess(sorted, infos...)
			return c19Case{b, shape, "secinfos", true, func(t *c19T, view any) { c19CmpSecInfos(t, view.(*document.CardAccess).SecurityInfos, v) }}
		}
		uo := ldsgen.UnsignedOpts{SKI: i%4 == 1}
		b, v := ldsgen.NewUnsignedCardSecurity(r, sorted, uo, infos...)
		return c19Case{b, shape + fmt.Sprintf("|ski=%v", uo.SKI), "unsigned-cms", true, func(t *c19T, view any) { c19CmpCardSecurity(t, view, v) }}
	case "DG15":
		var spki []byte
		switch i % 3 {
		case 0:
			spki = ldsgen.RandSPKI(r, false, false)
		default:
			spki = ldsgen.RandSPKI(r, true, false)
		}
		b := ldsgen.NewDG15(spki)
		return c19Case{b, fmt.Sprintf("rsa=%v|len=%d", i%3 == 0, len(spki)), "spki", true, func(t *c19T, view any) {
			v := view.(*document.DG15)
			t.field("subjectPublicKeyInfo", bytes.Equal(v.SubjectPublicKeyInfoBytes, spki), fmt.Sprintf("%x", v.SubjectPublicKeyInfoBytes), fmt.Sprintf("%x", spki))
		}}
	case "DG16":
		o := ldsgen.DG16Opts{}
		if i%4 == 0 {
			o.Persons = 1 + (i/4)%15
		}
		b, v := ldsgen.NewDG16(r, o)
		class := fmt.Sprintf("persons=%d", len(v.Persons))
		return c19Case{b, fmt.Sprintf("%s|bcd=%v", class, v.DateIsBCD), class, true, func(t *c19T, view any) { c19CmpDG16(t, view, v) }}
	case "COM":
		b, v := ldsgen.RandCOM(r)
		return c19Case{b, fmt.Sprintf("lds=%s|uni=%s|dgs=%v", v.LDSVersion, v.UnicodeVersion, v.DGNumbers), "com", true, func(t *c19T, view any) { c19CmpCOM(t, view, v) }}
	case "SOD":
		lo := ldsgen.LSOOpts{Version: i % 2, NullParams: i%4 >= 2}
		if lo.Version == 1 {
			lo.LDSVersion, lo.UnicodeVersion = []string{"0108", "0107"}[(i/2)%2], []string{"040000", "060000"}[(i/4)%2]
		}
		uo := ldsgen.UnsignedOpts{SKI: i%8 >= 4}
		b, v := ldsgen.NewUnsignedSOD(r, lo, uo)
		class := fmt.Sprintf("v%d", lo.Version)
		return c19Case{b, fmt.Sprintf("%s|alg=%s|null=%v|hashes=%d|ski=%v", class, v.LSO.HashAlg.Name, lo.NullParams, len(v.LSO.Hashes), uo.SKI), class, true, func(t *c19T, view any) { c19CmpSOD(t, view, v) }}
	}
	fw.Bug("c19Gen: unknown kind %s", kind)
	return c19Case{}
}

// c19CheckFile runs every oracle on one generated file.
func c19CheckFile(k *fw.K, kind string, cs c19Case) {
	t := &c19T{k: k, kind: kind, lk: strings.ToLower(kind), shape: cs.shape, file: cs.file}
	k.Count("files_" + kind)
	buf := bytes.Clone(cs.file)
	view, raw, err := c19Construct(kind, buf)
	k.AddEvals(1)
	switch {
	case err != nil || view == nil:
		if cs.judge {
			t.viol(t.lk+":rejected:"+cs.class, fmt.Sprintf("well-formed %s rejected: %v", kind, err), nil)
		} else {
			k.Count("nonconformant_rejected_" + kind + "_" + cs.class)
		}
	default:
		k.Nontrivial(kind + "|" + cs.shape)
		k.Count("views_" + kind)
		if !cs.judge {
			k.Count("nonconformant_accepted_" + kind + "_" + cs.class)
		}
		k.Sample(kind, map[string]any{"shape": cs.shape, "file_hex": c19Hex(cs.file)})
		if !bytes.Equal(raw, cs.file) {
			t.viol(t.lk+":rawdata-mismatch", "RawData differs from the bytes given to the constructor", nil)
		}
		j1 := c19JSON(view)
		if strings.HasPrefix(j1, "json-error") {
			t.viol(t.lk+":json-view-unavailable", j1, nil)
		}
		if cs.judge {
			cs.cmp(t, view)
		}
		// equal bytes => equal views
		view2, _, err2 := c19Construct(kind, bytes.Clone(cs.file))
		k.AddEvals(1)
		if err2 != nil || view2 == nil {
			t.viol(t.lk+":nondeterministic", fmt.Sprintf("second construction from equal bytes failed: %v", err2), nil)
		} else if j2 := c19JSON(view2); j2 != j1 {
			t.viol(t.lk+":nondeterministic", "two constructions from equal bytes give different JSON views", map[string]any{"first": c19Trunc(j1), "second": c19Trunc(j2)})
		}
		// the view is computed from the bytes at construction time, not from the caller's buffer
		for x := range buf {
			buf[x] ^= 0xA5
		}
		if j3 := c19JSON(view); j3 != j1 {
			t.viol(t.lk+":aliases-input", "overwriting the caller's input slice after construction changed the view", map[string]any{"before": c19Trunc(j1), "after": c19Trunc(j3)})
		}
		if _, raw3, _ := c19ViewRaw(view); !bytes.Equal(raw3, cs.file) {
			t.viol(t.lk+":aliases-input:rawdata", "overwriting the caller's input slice after construction changed RawData", nil)
		}
		// Document.NewDG gives the same view as the constructor
		if n, ok := c19DGNumber[kind]; ok {
			var doc document.Document
			e := doc.NewDG(n, bytes.Clone(cs.file))
			k.AddEvals(1)
			dv := c19DGView(&doc, n)
			if e != nil || dv == nil {
				t.viol("newdg:rejected:"+kind, fmt.Sprintf("Document.NewDG(%d) rejects a file that New%s accepts: %v", n, kind, e), nil)
			} else if c19JSON(dv) != j1 {
				t.viol("newdg:differs-from-constructor:"+kind, fmt.Sprintf("Document.NewDG(%d) view differs from New%s view", n, kind), nil)
			}
		}
	}
	// a file of another type is rejected by every other constructor / data group number
	for _, other := range c19Kinds {
		if other == kind {
			continue
		}
		ov, _, oe := c19Construct(other, bytes.Clone(cs.file))
		k.AddEvals(1)
		k.Distinct("pair|" + kind + "|" + other)
		if oe == nil {
			what := "returned a view"
			if ov == nil {
				what = "returned neither a view nor an error"
			}
			t.viol(fmt.Sprintf("ctor:wrong-file-accepted:file=%s:as=%s", kind, other), fmt.Sprintf("New%s given a %s file %s", other, kind, what), map[string]any{"view": c19Trunc(c19JSON(ov))})
		}
	}
	for _, other := range c19Kinds {
		n, ok := c19DGNumber[other]
		if !ok || other == kind {
			continue
		}
		var doc document.Document
		e := doc.NewDG(n, bytes.Clone(cs.file))
		k.AddEvals(1)
		if e == nil {
			t.viol(fmt.Sprintf("newdg:wrong-tag-accepted:file=%s:as=%d", kind, n), fmt.Sprintf("Document.NewDG(%d) accepts a %s file", n, kind), map[string]any{"stored_view": c19Trunc(c19JSON(c19DGView(&doc, n)))})
		}
	}
	k.Count("pairings")
}

func c19Trunc(s string) string {
	if len(s) > 600 {
		return s[:600] + "..."
	}
	return s
}

// c19ViewRaw reads RawData back from a view.
func c19ViewRaw(view any) (string, []byte, bool) {
	if g, ok := view.(interface{ GetRawData() []byte }); ok {
		return "", g.GetRawData(), true
	}
	fw.Bug("view %T has no GetRawData", view)
	return "", nil, false
}

func runC19(c *fw.Ctx) {
	per := c.Pick(300, 100000)
	for _, kind := range c19Kinds {
		kind := kind
		c.Cases(per, func(i int) string { return fmt.Sprintf("%s|i=%d", kind, i) }, func(i int, k *fw.K) {
			c19CheckFile(k, kind, c19Gen(kind, k, i, c.Thorough()))
		})
	}
	nsum := c.Pick(40, 12000)
	c.Cases(8*nsum, func(i int) string {
		return fmt.Sprintf("summary|dg1=%v dg11=%v dg12=%v|i=%d", i%8&1 != 0, i%8&2 != 0, i%8&4 != 0, i/8)
	}, func(i int, k *fw.K) { c19Summary(k, i%8, i/8) })
}

// ---------------------------------------------------------------------------------------
// identity summary: every value comes from the bytes of DG1 / DG11 / DG12 (...), never
// from anywhere else. Where two files carry the same attribute the summary may show
// either (the library documents DG11 over DG1); which one is only counted.

func c19Summary(k *fw.K, combo, j int) {
	r := k.RNG
	var doc document.Document
	var files []string
	det := map[string]any{}
	add := func(name string, b []byte) { files = append(files, name); det[name+"_hex"] = c19Hex(b) }
	fail := func(name string, err error) {
		k.Count("summary_skipped_" + name + "_rejected") // reported by the per-file cases
		k.Inconclusive(fmt.Sprintf("%s rejected while assembling a document: %v", name, err))
	}
	var e1 *ldsgen.DG1View
	var e11 *ldsgen.DG11View
	var e12 *ldsgen.DG12View
	var e2 *ldsgen.DG2View
	var e7 *ldsgen.DG7View
	var e16 *ldsgen.DG16View
	var eCom *ldsgen.COMView
	var eSod *ldsgen.SODView
	if combo&1 != 0 {
		b, v := ldsgen.NewDG1(r, ldsgen.DG1Opts{})
		if err := doc.NewDG(1, b); err != nil {
			fail("DG1", err)
			return
		}
		e1 = &v
		add("DG1", b)
	}
	if combo&2 != 0 {
		o := ldsgen.DG11Opts{}
		if j%3 != 0 { // make the overlapping attributes likely
			o.Tags = []uint32{0x5F0E, 0x5F2B}
			for _, t := range ldsgen.DG11Tags {
				if t != 0x5F0E && t != 0x5F2B && r.IntN(2) == 0 {
					o.Tags = append(o.Tags, t)
				}
			}
		}
		b, v := ldsgen.NewDG11(r, o)
		if err := doc.NewDG(11, b); err != nil {
			fail("DG11", err)
			return
		}
		e11 = &v
		add("DG11", b)
	}
	if combo&4 != 0 {
		b, v := ldsgen.NewDG12(r, ldsgen.DG12Opts{})
		if err := doc.NewDG(12, b); err != nil {
			fail("DG12", err)
			return
		}
		e12 = &v
		add("DG12", b)
	}
	if r.IntN(2) == 0 {
		b, v := ldsgen.NewDG2(r, ldsgen.DG2Opts{Templates: 1 + r.IntN(2), ImagesPerTemplate: 1})
		if err := doc.NewDG(2, b); err != nil {
			fail("DG2", err)
			return
		}
		e2 = &v
		add("DG2", b)
	}
	if r.IntN(3) == 0 {
		b, v := ldsgen.NewDG7(r, ldsgen.DG7Opts{})
		if err := doc.NewDG(7, b); err != nil {
			fail("DG7", err)
			return
		}
		e7 = &v
		add("DG7", b)
	}
	if r.IntN(3) == 0 {
		b, v := ldsgen.NewDG16(r, ldsgen.DG16Opts{})
		if err := doc.NewDG(16, b); err != nil {
			fail("DG16", err)
			return
		}
		e16 = &v
		add("DG16", b)
	}
	if r.IntN(5) < 3 {
		b, v := ldsgen.RandCOM(r)
		com, err := document.NewCOM(b)
		if err != nil {
			fail("COM", err)
			return
		}
		doc.Mf.Lds1.Com = com
		eCom = &v
		add("COM", b)
	}
	if r.IntN(5) < 3 {
		b, v := ldsgen.NewUnsignedSOD(r, ldsgen.LSOOpts{Version: r.IntN(2), LDSVersion: "0108", UnicodeVersion: "060000"}, ldsgen.UnsignedOpts{})
		sod, err := document.NewSOD(b)
		if err != nil {
			fail("SOD", err)
			return
		}
		doc.Mf.Lds1.Sod = sod
		eSod = &v
		add("SOD", b)
	}
	k.Nontrivial(fmt.Sprintf("summary|%v|overlap=%v", files, e1 != nil && e11 != nil && e11.Has[0x5F0E]))
	k.Count(fmt.Sprintf("summary_combo_%d", combo))
	ex := document.DocumentEx{Document: doc}
	sum := ex.Summary()
	if sum == nil || sum.IdentityAttributes == nil {
		k.Violation("summary:missing", "Summary() / IdentityAttributes is nil", det)
		return
	}
	ia := sum.IdentityAttributes
	det["files"] = files
	det["identity_attributes"] = c19Trunc(func() string {
		c := *ia
		c.Age, c.PossibleAges = nil, nil
		c.FaceImages, c.SignatureImages = nil, nil
		return c19JSON(c)
	}())
	bad := func(field, got string, cands []string) {
		d := map[string]any{"field": field, "summary_value": got, "values_in_files": cands}
		for kk, v := range det {
			d[kk] = v
		}
		k.Violation("summary:field-mismatch:"+field, fmt.Sprintf("summary %s = %q but the files encode %q", field, got, cands), d)
	}
	// from: got must be one of the candidate values ("" when there is no candidate)
	from := func(field, got string, cands ...string) {
		if len(cands) == 0 {
			cands = []string{""}
		}
		for _, cnd := range cands {
			if c19Text(got) == c19Text(cnd) {
				return
			}
		}
		bad(field, got, cands)
	}
	// --- DG1 only attributes
	f1 := ldsgen.MRZFields{}
	if e1 != nil {
		f1 = e1.Fields
	}
	from("documentCode", ia.DocumentCode, f1.DocumentCode)
	from("documentNumber", ia.DocumentNumber, f1.DocumentNumber)
	from("sex", ia.Sex, f1.Sex)
	from("mrzOptionalData", ia.MrzOptionalData, f1.OptionalData)
	from("mrzOptionalData2", ia.MrzOptionalData2, f1.OptionalData2)
	from("dateOfBirthMrzRaw", ia.DateOfBirthMrzRaw, f1.DateOfBirth)
	from("dateOfExpiryMrzRaw", ia.DateOfExpiryMrzRaw, f1.DateOfExpiry)
	if e1 != nil {
		from("dateOfExpiry", ia.DateOfExpiry, f1.DateOfExpiry, "20"+f1.DateOfExpiry)
	} else {
		from("dateOfExpiry", ia.DateOfExpiry)
	}
	country := func(field string, got *document.CountryInfo, code string) {
		code = c19Text(code)
		switch {
		case code == "":
			if got != nil && got.Alpha3 != "" {
				bad(field, got.Alpha3, []string{""})
			}
		case got == nil:
			bad(field, "<nil>", []string{code})
		case got.Alpha3 != code && !(code == "D" && got.Alpha3 == "DEU"):
			bad(field, got.Alpha3, []string{code})
		}
	}
	country("issuingState", ia.IssuingState, f1.IssuingState)
	country("nationality", ia.Nationality, f1.Nationality)
	// --- name: DG1 and/or DG11
	var names []ldsgen.Name
	if e1 != nil {
		names = append(names, f1.Name)
		if !c19NameEq(ia.NameMrzRaw, f1.Name) {
			bad("nameMrzRaw", c19NameStr(ia.NameMrzRaw), []string{fmt.Sprintf("%q", f1.Name)})
		}
	} else if ia.NameMrzRaw != nil && (ia.NameMrzRaw.Primary != "" || ia.NameMrzRaw.Secondary != "") {
		bad("nameMrzRaw", c19NameStr(ia.NameMrzRaw), nil)
	}
	if e11 != nil && e11.Has[0x5F0E] {
		names = append(names, e11.NameOfHolder)
	}
	switch {
	case len(names) == 0:
		if ia.Name != nil && (ia.Name.Primary != "" || ia.Name.Secondary != "") {
			bad("name", c19NameStr(ia.Name), nil)
		}
	default:
		hit := -1
		for x, n := range names {
			if c19NameEq(ia.Name, n) {
				hit = x
			}
		}
		if hit < 0 {
			bad("name", c19NameStr(ia.Name), []string{fmt.Sprintf("%q", names)})
		} else if len(names) == 2 {
			k.Count([]string{"summary_name_from_dg1", "summary_name_from_dg11"}[hit])
		}
	}
	// --- date of birth
	var dobs []string
	if e1 != nil && c19Text(f1.DateOfBirth) != "" {
		dobs = append(dobs, f1.DateOfBirth)
	}
	d11 := ldsgen.DG11View{}
	if e11 != nil {
		d11 = *e11
	}
	if d11.Has[0x5F2B] {
		dobs = append(dobs, d11.FullDateOfBirth)
		if len(dobs) == 2 && ia.DateOfBirth == d11.FullDateOfBirth {
			k.Count("summary_dob_from_dg11")
		}
	}
	from("dateOfBirth", ia.DateOfBirth, dobs...)
	from("dateOfBirthDg11Raw", ia.DateOfBirthDg11Raw, d11.FullDateOfBirth)
	// --- DG11 only attributes
	switch c19Names(ia.OtherNames, d11.OtherNames) {
	case "dropped":
		k.Violation("summary:other-names-dropped", fmt.Sprintf("DG11 holds %d other names, the summary shows %d", len(d11.OtherNames), len(ia.OtherNames)), det)
	case "extra", "mismatch":
		bad("otherNames", fmt.Sprint(ia.OtherNames), []string{fmt.Sprintf("%q", d11.OtherNames)})
	}
	from("personalNumber", ia.PersonalNumber, d11.PersonalNumber)
	from("telephone", ia.Telephone, d11.Telephone)
	from("profession", ia.Profession, d11.Profession)
	from("title", ia.Title, d11.Title)
	if !c19ListEq(ia.PlaceOfBirth, d11.PlaceOfBirth) {
		bad("placeOfBirth", fmt.Sprintf("%q", ia.PlaceOfBirth), d11.PlaceOfBirth)
	}
	if !c19ListEq(ia.Address, d11.Address) {
		bad("address", fmt.Sprintf("%q", ia.Address), d11.Address)
	}
	// --- DG12
	d12 := ldsgen.DG12View{}
	if e12 != nil {
		d12 = *e12
	}
	from("issuingAuthority", ia.IssuingAuthority, d12.IssuingAuthority)
	from("dateOfIssue", ia.DateOfIssue, d12.DateOfIssue)
	from("dateOfIssueRaw", ia.DateOfIssueRaw, d12.DateOfIssue)
	img := func(field string, got *document.ImageData, exp []byte) {
		var g []byte
		if got != nil {
			g = got.Data
		}
		if !bytes.Equal(g, exp) {
			bad(field, fmt.Sprintf("%d bytes", len(g)), []string{fmt.Sprintf("%d bytes", len(exp))})
		}
	}
	img("documentImageFront", ia.DocumentImageFront, d12.ImageFront)
	img("documentImageRear", ia.DocumentImageRear, d12.ImageRear)
	// --- images and persons
	imgs := func(field string, got []document.ImageData, exp [][]byte, lastTemplate [][]byte) {
		var g [][]byte
		for _, x := range got {
			g = append(g, x.Data)
		}
		if c19ImagesEq(g, exp) {
			return
		}
		if lastTemplate != nil && c19ImagesEq(g, lastTemplate) {
			k.Violation("summary:face-images-of-earlier-templates-dropped", fmt.Sprintf("DG2 holds %d face images in several templates, the summary shows only the %d of the last template", len(exp), len(g)), det)
			return
		}
		if len(g) < len(exp) {
			k.Violation("summary:"+field+"-dropped", fmt.Sprintf("the file holds %d images, the summary shows %d", len(exp), len(g)), det)
			return
		}
		bad(field, fmt.Sprintf("%d images", len(g)), []string{fmt.Sprintf("%d images", len(exp))})
	}
	if e2 != nil {
		var last [][]byte
		if len(e2.Templates) > 1 {
			last = e2.Templates[len(e2.Templates)-1].Images()
		}
		imgs("faceImages", ia.FaceImages, e2.AllImages(), last)
	} else {
		imgs("faceImages", ia.FaceImages, nil, nil)
	}
	if e7 != nil {
		imgs("signatureImages", ia.SignatureImages, e7.Images, nil)
	} else {
		imgs("signatureImages", ia.SignatureImages, nil, nil)
	}
	nP := 0
	if e16 != nil {
		nP = len(e16.Persons)
	}
	if len(ia.PersonsToNotify) != nP {
		key := "summary:field-mismatch:personsToNotify"
		if len(ia.PersonsToNotify) < nP {
			key = "summary:persons-to-notify-dropped"
		}
		k.Violation(key, fmt.Sprintf("DG16 holds %d persons, the summary shows %d", nP, len(ia.PersonsToNotify)), det)
	} else if e16 != nil {
		for x, p := range e16.Persons {
			lp := ia.PersonsToNotify[x]
			if !c19NameEq(lp.Name, p.Name) || lp.DateRecorded != p.DateRecorded || c19Text(lp.Telephone) != c19Text(p.Telephone) || !c19ListEq(lp.Address, p.Address) {
				bad("personsToNotify", c19JSON(lp), []string{fmt.Sprintf("%+v", p)})
			}
		}
	}
	// --- LDS / Unicode version: from EF.SOD (v1) or EF.COM
	var lds, uni []string
	if eSod != nil && eSod.LSO.HasVersionInfo {
		lds, uni = append(lds, eSod.LSO.LDSVersion), append(uni, eSod.LSO.UnicodeVersion)
	}
	if eCom != nil {
		lds, uni = append(lds, eCom.LDSVersion), append(uni, eCom.UnicodeVersion)
	}
	from("ldsVersion", sum.LdsVersion, lds...)
	from("unicodeVersion", sum.UnicodeVersion, uni...)
	from("Document.LdsVersion()", doc.LdsVersion(), lds...)
	from("Document.UnicodeVersion()", doc.UnicodeVersion(), uni...)
	if len(lds) == 2 && lds[0] != lds[1] {
		if sum.LdsVersion == lds[0] {
			k.Count("summary_ldsversion_from_sod")
		} else {
			k.Count("summary_ldsversion_from_com")
		}
	}
}
