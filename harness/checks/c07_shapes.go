package checks

import (
	"encoding/asn1"
	"fmt"
	"math/big"
	mrand "math/rand/v2"

	"github.com/gmrtd/gmrtd/activeauth"
	"github.com/gmrtd/gmrtd/document"
	"github.com/gmrtd/gmrtd/iso7816"

	"verifharness/chipsim"
	"verifharness/ecref"
	"verifharness/fw"
	"verifharness/issuer"
)

// C07, genuine ECDSA responses of chosen shapes.
//
// A plain r||s response is two integers; nothing stops it from starting with octets that
// look like the header of a DER SEQUENCE, an INTEGER tag or a zero octet, and a DER response
// has INTEGERs with and without the 00 sign octet and of less than the full length. Random
// signing reaches the 2- and 3-octet shapes with probability 2^-16 / 2^-24, so they are
// constructed:
//   - r = x(k*G) mod n depends on the nonce only: the nonces for the header look-alikes are
//     found offline (cmd/aagrind) and hard-coded below, those for one-octet shapes are found
//     by stepping k at run time (ecref.StepNonce);
//   - s = k^-1 (e + r d) mod n: for a wanted s the private key d = (s k - e) r^-1 is derived,
//     which is as good a DG15 key as any other (s is drawn uniformly from the wanted range).
// The response is then produced by the ordinary chip-side signer (chipsim.AAState.SignEC with
// the nonce fixed) and is a genuine response: the property demands acceptance - by
// ValidateActiveAuthSignature, by a live DoActiveAuth and by activeauth.VerifyEvidence.

type c07ShapeNonce struct{ curve, prefix, k, r string }

// output of `go1.26.8 run ./cmd/aagrind` (harness/cmd/aagrind); c07ShapeSelfTest recomputes
// every r from k with the Jacobian ladder before anything is judged
var c07ShapeNonces = []c07ShapeNonce{
	{"P-192", "302e", "3659f55b055f495b550fc196fb46b69624231f1e91e9b98b", "302e1e6629f8ad9201bc4ec69b4e428f5441670b8bc835da"},
	{"P-192", "30812d", "aac1b4baf7e86d4d0166d3109457d7a19f63ca0373214cdb", "30812d1126891edfbd962aac1b25a5815a209aa5d39c0b71"},
	{"brainpoolP192r1", "302e", "75350da582cf4a9729598fa0988595f7ad02bee2681e1046", "302e05aadf174dfec839c93041fa0d3af2f88062fca4b7d4"},
	{"brainpoolP192r1", "30812d", "a06ec8beb9211b54ddfb82258da6be8230d3dfe34ed76672", "30812dfdad198611061bb050abb7e8bc79ab9568adc2a1b8"},
	{"P-224", "3036", "f61e3e21300330212df380529b00fa4cbdee61e2247d9e6b2e504147", "303686180b2bc2669cd0d7a2768f0aacc066c25890561d0d73bfa348"},
	{"P-224", "308135", "99238befade393474c7cf04a771eb6ebc48a2ad51006e0464851e85e", "3081353a24b043a65d328d97eefbe3f5ab10b7869c1c1e3f82844f89"},
	{"brainpoolP224r1", "3036", "459080f87ce3d5c4648f670b254877f22a4245b4245b34d06ec329ae", "3036b63f65c1ec8a888d251f2ee7878b26a8a97621af69705d939976"},
	{"brainpoolP224r1", "308135", "3e26aaf508641d66149c3b9e820563616deea72f2b7baeb73225ecc1", "308135c3cf33cceb6b5a50506fe60a785a4b5f1ea75bb5a3605e757e"},
	{"P-256", "303e", "b8298baeb8e05c726dd9aae961ccdfde163e82ca430d2b94dee440fb4dd41a0b", "303e551bea2c8cc78f9c1949d1c94ef2bb39531bf60a99d5bef1bd690f98934f"},
	{"P-256", "30813d", "419f9de986c07f71deac9fa5853cb221b694341595ce3c0abff89d90251edbde", "30813d11fc92a9434652497427cd2ccda64570dbc93904ffbec99e5c60b7cbce"},
	{"brainpoolP256r1", "303e", "1a38f9adfc512b7b828ebed34e74b8f538ac049756fc70937d8a921c36c703df", "303ed9f501f9f8ecade119b01287197520c9d69ea6905dac44164711eb091051"},
	{"brainpoolP256r1", "30813d", "585b5b5882b30198634c17ff190685d15e572833cfaa6a44b2f88866f91a01c4", "30813d32579be35178d82936e5c320a7f06efb944e89702776eb49692e87ded2"},
	{"brainpoolP320r1", "304e", "9601ab611c4b35c0992aa2b83118e64b4f48370a2d70eb460d6ef9c035382ac7c45ffc075a6a9042", "304ec71b61829b7521ce084a9f71db20964d8dac99628166374377d0d289aa3542e1c029ad848d44"},
	{"brainpoolP320r1", "30814d", "b1cfdf241bf3719086bffb21d3d569de440d14f4ed96d0b00d3a94d0c11e4eeaca49f2d36d28f231", "30814d48cc24dbdd7c2e41bc3e78d04777e0e1e55e1d5b8b123bbc93164d9f2ad1d639974f1d3c73"},
	{"P-384", "305e", "6b71ade6db1ebb805b70805a456f8e0f8b3879fb4cd870cfd2d21e52102a04929d5a0461684642c79f6209ff89e4f481", "305e9d94806289183af0553db59a5a1ea4bf48acc4bb9e0d23eefa94be46bf025fde4a696fa38000b204f3185591cb3b"},
	{"P-384", "30815d", "b6ac8e842b4db01238ca149915f5f77ab1df33304ed3c3a419b649ddc869d83ca2d0cfc0f6831391a8bfcbec9eb5bf20", "30815d27c04a02c5091f8869b540d524406c74dc43deeb85d2b086023c0dd6cad3ea3d40ab05beec78c456939070f3e2"},
	{"brainpoolP384r1", "305e", "40f5d033604c50b7d62a0db494f41ec735d5df103dc24e81d8d93ac659257848d4d5d7ae52edd2afbf485e3af0acb693", "305e7baee022653eeea6c8cc0a7d8dd68a92dc8b7ce434aa5599e7efe55ff7443a2c913f2a75ee7f61550a1091ba7d56"},
	{"brainpoolP384r1", "30815d", "3cf6ebf9d07276276127c264a12e0ab6f8dbc8f2e2bbb4ff01ee4d1015b35b544d4074301e313c61964125016357c2db", "30815d486a6c759cd74d31ecaefb61ab6cb2d977c5b8f4495f72f5c54e9e25ecc380d930a2cd7ef6af26e4789c6550fa"},
	{"brainpoolP512r1", "307e", "161597c6e8cb8408468ba14212e9bac0de92ed61664e7f232e30f93eaef195e9cf0e6189164b54008cdd1b3735dac25b3472016d2f913d62ca870440dcb1de17", "307e088f5b0194115af45eb6ec17003e7196033bcb2128670bc72e482b6a8a9965f0eea7d369fcba835bd8c5d8f3f4cc5056edd693d10c636b3c83bb7fab5b1a"},
	{"brainpoolP512r1", "30817d", "38570c3da1132a3f05bf7453a7bd59d3939696ec7c9616ff568a1a8139bf6ee4f5ab68c3f8a2b0c0990cd85b3c02c76b4f20f3dab88881ae7438d44d89d29306", "30817d08b4425c963f41f9931a7f46c9143694c2eb33d63e5967af6b5edde3c37d9dccab429ea001ac516ec65f4a66da740a0a8ddb47ef3947db11755c22f657"},
	{"P-192", "3080", "57c7ac4376a0cbc2afbb731e5a20a65563aa2bf8726bd312", "3080eb8e96aa34130a1f7aa2c202af7a66ca0a2ff48470f8"},
	{"P-192", "3082", "a37012bdcd8764b229fde11b6cce190e7723f089104be2b3", "3082ff8bb72caff153bf0acaaa431edb0f4dcf560fc1d1d9"},
	{"brainpoolP192r1", "3080", "538fac2d7b0b9aad7ae8e08cce879bfea4eeae93c7bd7a83", "30803bf1caa0c7bc5a033d9daac24182fe9cf9d8cfba8155"},
	{"brainpoolP192r1", "3082", "6d44ca3f606ea728ac05a71b711961cb20a5c5fd179ec0b9", "3082955914261be44417a6fd8288382f70447bc4e146cbb7"},
	{"P-224", "3080", "c0b2f07eb9ad6320bdb6b5dba647bb720c8bc24715b08df8e9592f5d", "30800a9c873370bdbb13d5755e89d811178178241d0f7c0a0d3c01a1"},
	{"P-224", "3082", "791c8e6c6f4e0b49b605321ca3743cdc6eb9b0870829907ffec52982", "30827613c24c154cd2350296d05551c13b5b7abe8eb0d487eeb2894f"},
	{"brainpoolP224r1", "3080", "6c15451bb15ce893e80b902d7512f6df639bfebae334ba2bb16c1a51", "3080b08dae1d9f7903f890301c586c2c5f4349e574fae3565743e953"},
	{"brainpoolP224r1", "3082", "34a830b480ae1d73f8aadb6b1cdbbb76b8b0ee842363f9020c4f9be", "30827c0a39b2abe9b211a73ebe4873634b920e78769013a4549aa9d1"},
	{"P-256", "3080", "ad18b0a51f174d3f2742bf4f6e69fdda831c834e4da5de13d59b05f67d8115b7", "3080c4051cc795dd894c6aaa51fc621bc28606eee966f8228180ab3dca9744fc"},
	{"P-256", "3082", "3d7a9665d2b9ab15ffa5e65c3665230bcb51e74896eb3b34b1f3a95c44260ec6", "30826de9a20c55145cda6439299398805cc4bfefa43eff7565f163951f812c35"},
	{"brainpoolP256r1", "3080", "a3b718716dd9c28a2a8013f6ed21ba18782556004b0c53f1bd042ffb4d34e5d6", "3080b8be496330842791840c4c20a365e7cc3e6343e7946eec47e212f1c603a8"},
	{"brainpoolP256r1", "3082", "6cdde4171d429e00ca853d7eaae345c4a875e6a5b37942f0b7cfc3fcb4e6e64c", "30823a499a7b42f44314efb6f9b6ddc24a011f3ba71f57971227a0f2d788b7d0"},
	{"brainpoolP320r1", "3080", "1f8011eb60c98a5e173b599f5c69ed649b5bd9e4b772ef0496d25dcd1d3e5e775f8da4512e325c5c", "308075f51d97c529cf8f6d03dbbf822f68f96d3e666da46050fb361d3a62210880ff6ce8caa5e88a"},
	{"brainpoolP320r1", "3082", "4e55a132e99b1c4cc4b4e77d71904b72c801662bce432ba3175b2be5b1de836b97cc13649beedb5c", "30826ce93d12715cb78e934f93a56d19bc3462d9ec62ed5e5a159089c81433c890817e99eba5066f"},
	{"P-384", "3080", "176d3a2bd8bae050dcb5e0794865c12b0eb30933a9f31f02ccc28d34d9aefa38a163994effdba8cac18f6f8bc78cf096", "3080e1c77507585678233d3f15a204cbd87c7eb3df596663dc404d8bee4e92491e09e892c2e66df6a6be449d3c92a468"},
	{"P-384", "3082", "8d0d159243696fd3952b95187c7694cb965f6532f30f3fdc5f18ad32e9115e0019e29705d8dad087c1ad0e4e1de4f0a7", "308283912ab9b76eaa775bfbb6f02866d876dc52b196e90a16db615ecc3ebad0114050ef74f314bb8e2492b0272693f9"},
	{"brainpoolP384r1", "3080", "8687fd2c05bf05c323165fc0c9a0891eb39d937caa58b696630958f5290dc82c645025ac8aa30ce6b6b23d0e16e4c21b", "30806f4b397f8f2075db364b26cc745a224dceab8e23ed22435d096f646277389bccdb1949647633b7155aa7d9d3c023"},
	{"brainpoolP384r1", "3082", "6bfda235385cc2871e920062d6f68721e08c6fbaae7adc780a055a165de0ec70e7ee4ddbcea365e10389f26be1ff552f", "3082b42f569c55fa0c92ff3ddbe31419832133147a7f55d529e17b8d8583427c07f01936b80ac1b8b228ad94afa660e5"},
	{"brainpoolP512r1", "3080", "8ebfc846a7014c988635debb6565c6680230c18e2cda6f5e9f7fd6416c03d96f85740a5f71babba2a3bb3333db236ff48c0e5dbf2ca9c2737d3a9078687dcd4e", "30804ee475c1c6e1966366996465518c61edbb63ce959cb1b8e8086efc18851836b920af5f21da42bc4c38a9ed5a129b354c6d1090f68f3c8ed85a5216db385c"},
	{"brainpoolP512r1", "3082", "2a8b71ffb939a6a39228c85f3d9eb6c8b0bd8b8d1339e3a10f89bed53a74a01d953005a08473fceef2bf29806384a256a2af4c880024413f54f431538c681df2", "30826d34257c1f9f60ec1477492eaabdf3785f2062886d98827f4e9916cff626c4014c9840120e1384fe83876817a91a9d1eed91205345d4e6e4bec40e73c88c"},
}

func c07ShapeNonceFor(c *ecref.Curve, prefix []byte) (k, r *big.Int) {
	want := fmt.Sprintf("%x", prefix)
	for _, e := range c07ShapeNonces {
		if e.curve == c.Name && e.prefix == want {
			k, _ = new(big.Int).SetString(e.k, 16)
			r, _ = new(big.Int).SetString(e.r, 16)
			return k, r
		}
	}
	return nil, nil
}

// c07HeaderPrefixes: the DER-header look-alikes of a plain response of 2*nl octets.
func c07HeaderPrefixes(nl int) map[string][]byte {
	L := 2 * nl
	if L-2 >= 128 {
		return nil
	}
	return map[string][]byte{
		"plain-looks-like-der":                  {0x30, byte(L - 2)},
		"plain-looks-like-long-form-der":        {0x30, 0x81, byte(L - 3)},
		"plain-looks-like-indefinite-der":       {0x30, 0x80},
		"plain-looks-like-two-octet-length-der": {0x30, 0x82},
	}
}

func c07ShapeSelfTest() {
	seen := map[string]bool{}
	for _, e := range c07ShapeNonces {
		c := ecref.ByName(e.curve)
		k, ok := new(big.Int).SetString(e.k, 16)
		if c == nil || !ok {
			fw.Bug("c07 shape table: bad entry %s/%s", e.curve, e.prefix)
		}
		nl := (c.N.BitLen() + 7) / 8
		r := c.RFromNonce(k)
		if r == nil {
			fw.Bug("c07 shape table: %s/%s: nonce gives no r", e.curve, e.prefix)
		}
		got := fmt.Sprintf("%x", r.FillBytes(make([]byte, nl)))
		if got != e.r || len(e.prefix) == 0 || len(got) < len(e.prefix) || got[:len(e.prefix)] != e.prefix {
			fw.Bug("c07 shape table: %s/%s: r recomputed from the nonce is %s, table says %s", e.curve, e.prefix, got, e.r)
		}
		seen[e.curve+"/"+e.prefix] = true
	}
	for _, c := range ecref.All() {
		nl := (c.N.BitLen() + 7) / 8
		for name, pf := range c07HeaderPrefixes(nl) {
			if !seen[fmt.Sprintf("%s/%x", c.Name, pf)] {
				fw.Bug("c07 shape table: no nonce for %s %s (%x); run cmd/aagrind", c.Name, name, pf)
			}
		}
	}
}

// c07Range is a constraint on r or s: nil = none.
type c07Range struct{ lo, hi *big.Int }

func c07PrefixRange(c *ecref.Curve, prefix ...byte) *c07Range {
	nl := (c.N.BitLen() + 7) / 8
	lo, hi := ecref.PrefixRange(prefix, nl)
	return c07Clip(c, lo, hi)
}

// c07Clip intersects [lo, hi) with [1, n); nil when empty.
func c07Clip(c *ecref.Curve, lo, hi *big.Int) *c07Range {
	if lo.Sign() <= 0 {
		lo = big.NewInt(1)
	}
	if hi.Cmp(c.N) > 0 {
		hi = c.N
	}
	if lo.Cmp(hi) >= 0 {
		return nil
	}
	return &c07Range{lo, hi}
}

// top octet has / has not its high bit set (DER adds / does not add a 00 sign octet); the
// "clear" range also excludes a zero top octet so that the INTEGER has the full length
func c07TopBitRange(c *ecref.Curve, set bool) *c07Range {
	nl := (c.N.BitLen() + 7) / 8
	one := big.NewInt(1)
	if set {
		return c07Clip(c, new(big.Int).Lsh(one, uint(8*nl-1)), new(big.Int).Lsh(one, uint(8*nl)))
	}
	return c07Clip(c, new(big.Int).Lsh(one, uint(8*nl-8)), new(big.Int).Lsh(one, uint(8*nl-1)))
}

// the DER INTEGER is shorter than the order: top octet zero and the next one below 0x80
func c07ShortRange(c *ecref.Curve) *c07Range {
	nl := (c.N.BitLen() + 7) / 8
	return c07Clip(c, big.NewInt(1), new(big.Int).Lsh(big.NewInt(1), uint(8*(nl-1)-1)))
}

type c07ECShape struct {
	name   string
	der    bool
	table  []byte                          // r from the hard-coded nonce for this prefix
	rRange func(c *ecref.Curve) *c07Range  // r by stepping the nonce
	rAvoid func(nl int, r []byte) bool     // stepping continues while this holds
	sRange func(c *ecref.Curve) *c07Range  // s by deriving the key
	check  func(nl int, sig []byte) string // "" when the response has the wanted shape
	needR  bool                            // rRange must be satisfiable on this curve (else: shape not applicable)
}

func c07Pfx(p ...byte) func(c *ecref.Curve) *c07Range {
	return func(c *ecref.Curve) *c07Range { return c07PrefixRange(c, p...) }
}
func c07Top(set bool) func(c *ecref.Curve) *c07Range {
	return func(c *ecref.Curve) *c07Range { return c07TopBitRange(c, set) }
}

func c07StartsWith(off func(nl int) int, p ...byte) func(nl int, sig []byte) string {
	return func(nl int, sig []byte) string {
		o := off(nl)
		if len(sig) < o+len(p) || !bytesEq(sig[o:o+len(p)], p) {
			return fmt.Sprintf("octets at %d are not %x", o, p)
		}
		return ""
	}
}

func c07AtR(nl int) int { return 0 }
func c07AtS(nl int) int { return nl }

func c07AllOf(fs ...func(nl int, sig []byte) string) func(nl int, sig []byte) string {
	return func(nl int, sig []byte) string {
		for _, f := range fs {
			if s := f(nl, sig); s != "" {
				return s
			}
		}
		return ""
	}
}

const (
	c07Any   = -100 // any INTEGER length
	c07Short = 99   // INTEGER content shorter than the order
)

// c07DERShape checks the lengths of the two INTEGERs of a DER response relative to nl
// (0: exactly nl octets, 1: nl octets plus the 00 sign octet, c07Short, c07Any).
func c07DERShape(dr, ds int) func(nl int, sig []byte) string {
	return func(nl int, sig []byte) string {
		if len(sig) < 2 || sig[0] != 0x30 {
			return "not a SEQUENCE"
		}
		dos, err := chipsim.ParseDOs(sig)
		if err != nil || len(dos) != 1 {
			return "not one SEQUENCE"
		}
		in, err := chipsim.ParseDOs(dos[0].Val)
		if err != nil || len(in) != 2 {
			return "not two elements"
		}
		if dr != c07Short && dr != c07Any && len(in[0].Val) != nl+dr {
			return fmt.Sprintf("r INTEGER has %d octets, wanted %d", len(in[0].Val), nl+dr)
		}
		if dr == c07Short && len(in[0].Val) >= nl {
			return "r INTEGER is not short"
		}
		if ds != c07Short && ds != c07Any && len(in[1].Val) != nl+ds {
			return fmt.Sprintf("s INTEGER has %d octets, wanted %d", len(in[1].Val), nl+ds)
		}
		if ds == c07Short && len(in[1].Val) >= nl {
			return "s INTEGER is not short"
		}
		return ""
	}
}

func c07ECShapes(nl int) []c07ECShape {
	var out []c07ECShape
	hp := c07HeaderPrefixes(nl)
	for _, name := range []string{"plain-looks-like-der", "plain-looks-like-long-form-der", "plain-looks-like-indefinite-der", "plain-looks-like-two-octet-length-der"} {
		if pf, ok := hp[name]; ok {
			out = append(out, c07ECShape{name: name, table: pf, check: c07StartsWith(c07AtR, pf...)})
		}
	}
	if pf, ok := hp["plain-looks-like-der"]; ok {
		// ... and the s half starts like an INTEGER / SEQUENCE tag
		out = append(out,
			c07ECShape{name: "plain-looks-like-der-and-s-starts-02", table: pf, sRange: c07Pfx(0x02), check: c07AllOf(c07StartsWith(c07AtR, pf...), c07StartsWith(c07AtS, 0x02))},
			c07ECShape{name: "plain-looks-like-der-and-s-starts-30", table: pf, sRange: c07Pfx(0x30), check: c07AllOf(c07StartsWith(c07AtR, pf...), c07StartsWith(c07AtS, 0x30))},
			c07ECShape{name: "plain-looks-like-der-and-s-leading-zero", table: pf, sRange: c07Pfx(0x00), check: c07AllOf(c07StartsWith(c07AtR, pf...), c07StartsWith(c07AtS, 0x00))},
		)
	}
	notLen := func(nl int, r []byte) bool { return len(r) > 1 && int(r[1]) == 2*nl-2 }
	out = append(out,
		// 30 followed by a length octet that does not cover the rest
		c07ECShape{name: "plain-r-starts-30-length-not-matching", rRange: c07Pfx(0x30), rAvoid: notLen, needR: true, check: c07StartsWith(c07AtR, 0x30)},
		c07ECShape{name: "plain-r-starts-02", rRange: c07Pfx(0x02), needR: true, check: c07StartsWith(c07AtR, 0x02)},
		c07ECShape{name: "plain-s-starts-30", sRange: c07Pfx(0x30), check: c07StartsWith(c07AtS, 0x30)},
		c07ECShape{name: "plain-s-starts-02", sRange: c07Pfx(0x02), check: c07StartsWith(c07AtS, 0x02)},
		c07ECShape{name: "plain-r-starts-30-and-s-starts-02", rRange: c07Pfx(0x30), rAvoid: notLen, needR: true, sRange: c07Pfx(0x02), check: c07AllOf(c07StartsWith(c07AtR, 0x30), c07StartsWith(c07AtS, 0x02))},
		c07ECShape{name: "plain-r-leading-zero", rRange: c07Pfx(0x00), needR: true, check: c07StartsWith(c07AtR, 0x00)},
		c07ECShape{name: "plain-s-leading-zero", sRange: c07Pfx(0x00), check: c07StartsWith(c07AtS, 0x00)},
		c07ECShape{name: "plain-r-and-s-leading-zero", rRange: c07Pfx(0x00), needR: true, sRange: c07Pfx(0x00), check: c07AllOf(c07StartsWith(c07AtR, 0x00), c07StartsWith(c07AtS, 0x00))},
		// DER: INTEGERs with the 00 sign octet, without it, and shorter than the order
		c07ECShape{name: "der-r-padded-s-padded", der: true, rRange: c07Top(true), needR: true, sRange: c07Top(true), check: c07DERShape(1, 1)},
		c07ECShape{name: "der-r-padded-s-unpadded", der: true, rRange: c07Top(true), needR: true, sRange: c07Top(false), check: c07DERShape(1, 0)},
		c07ECShape{name: "der-r-unpadded-s-padded", der: true, rRange: c07Top(false), needR: true, sRange: c07Top(true), check: c07DERShape(0, 1)},
		c07ECShape{name: "der-r-unpadded-s-unpadded", der: true, rRange: c07Top(false), needR: true, sRange: c07Top(false), check: c07DERShape(0, 0)},
		c07ECShape{name: "der-r-short", der: true, rRange: c07ShortRange, needR: true, check: c07DERShape(c07Short, c07Any)},
		c07ECShape{name: "der-s-short", der: true, sRange: c07ShortRange, check: c07DERShape(c07Any, c07Short)},
		c07ECShape{name: "der-r-short-s-short", der: true, rRange: c07ShortRange, needR: true, sRange: c07ShortRange, check: c07DERShape(c07Short, c07Short)},
		c07ECShape{name: "der-r-content-starts-30", der: true, rRange: c07Pfx(0x30), needR: true, check: c07DERShape(0, c07Any)},
	)
	return out
}

func c07RandBelow(r *mrand.Rand, n *big.Int) *big.Int {
	b := randBytes(r, (n.BitLen()+7)/8+8)
	return new(big.Int).Mod(new(big.Int).SetBytes(b), n)
}

// c07BuildShape returns a chip (key + fixed nonce) whose response to rnd has the shape, or
// nil when the shape cannot occur on this curve.
func c07BuildShape(r *mrand.Rand, c *ecref.Curve, sh c07ECShape, rnd []byte, explicit bool) *c07Key {
	nl := (c.N.BitLen() + 7) / 8
	var k, rOfK *big.Int
	switch {
	case sh.table != nil:
		k, rOfK = c07ShapeNonceFor(c, sh.table) // r was recomputed from k by the self-test
		if k == nil {
			return nil
		}
	case sh.rRange != nil:
		rg := sh.rRange(c)
		if rg == nil {
			return nil
		}
		k0 := c07RandBelow(r, c.N)
		for tries := 0; ; tries++ {
			// the ranges used here hold at least 1/300 of all r: 20000 steps miss with e^-60
			kk, rr, ok := c.StepNonce(k0, 20000, rg.lo, rg.hi)
			if !ok || tries > 50 {
				fw.Bug("c07 shapes: no nonce with r in the wanted range on %s (%s)", c.Name, sh.name)
			}
			if sh.rAvoid != nil && sh.rAvoid(nl, rr.FillBytes(make([]byte, nl))) {
				k0 = new(big.Int).Add(kk, big.NewInt(1))
				continue
			}
			k, rOfK = kk, rr
			break
		}
	default:
		k = c07RandBelow(r, c.N)
		if k.Sign() == 0 {
			k.SetInt64(1)
		}
	}
	var d *big.Int
	if sh.sRange != nil {
		sg := sh.sRange(c)
		if sg == nil {
			return nil
		}
		rr := rOfK
		if rr == nil {
			rr = c.RFromNonce(k)
		}
		if rr == nil || rr.Sign() == 0 {
			fw.Bug("c07 shapes: nonce without r")
		}
		e := c.HashToInt(c07ECHash(c, rnd))
		for {
			s := new(big.Int).Add(sg.lo, c07RandBelow(r, new(big.Int).Sub(sg.hi, sg.lo)))
			// d = (s k - e) r^-1 mod n
			d = new(big.Int).Mul(s, k)
			d.Sub(d, e)
			d.Mul(d, new(big.Int).ModInverse(rr, c.N))
			d.Mod(d, c.N)
			if d.Sign() != 0 {
				break
			}
		}
	} else {
		for d == nil || d.Sign() == 0 {
			d = c07RandBelow(r, c.N)
		}
	}
	key := &issuer.Key{EC: &issuer.ECKey{Curve: c, D: d, Q: c.Mul(d, c.G())}}
	key.Explicit = explicit
	aa := &chipsim.AAState{RNG: mrand.New(mrand.NewPCG(r.Uint64(), 29)), HashFn: c07Hash, ECHash: c07ECHash, Curve: c, Priv: d, DER: sh.der, Nonce: k}
	return &c07Key{desc: fmt.Sprintf("EC-%s der=%v explicit=%v shape=%s", c.Name, sh.der, explicit, sh.name), aa: aa, spki: key.SPKI(), curve: c, q: key.EC.Q}
}

var c07ECOID = asn1.ObjectIdentifier{1, 2, 840, 10045, 2, 1}
var c07RSAOID = asn1.ObjectIdentifier{1, 2, 840, 113549, 1, 1, 1}

// c07Offline runs activeauth.VerifyEvidence on evidence assembled from its parts.
func c07Offline(spki, sig, rnd []byte, alg asn1.ObjectIdentifier) (accepted bool, errStr string) {
	dg15, err := document.NewDG15(c07NewDG15(spki))
	if err != nil || dg15 == nil {
		return false, "NewDG15: " + fmt.Sprint(err)
	}
	doc := &document.Document{}
	doc.Mf.Lds1.Dg15 = dg15
	ev := &document.ActiveAuthEvidence{Algorithm: alg, Nonce: append([]byte{}, rnd...), Signature: append([]byte{}, sig...)}
	res, err := activeauth.VerifyEvidence(doc, ev)
	return err == nil && res != nil && res.Success, fmt.Sprint(err)
}

// c07Live runs DoActiveAuth with the supplied challenge against a chip holding the key.
func c07Live(key *c07Key, rnd []byte) (ok bool, chipSig []byte, errStr string) {
	aa := *key.aa
	aa.Challenges = nil
	card := chipsim.NewCard()
	card.AA = &aa
	nfc := iso7816.NewNfcSession(&funcTransceiver{f: card.Transceive})
	doc := &document.Document{}
	dg15, err := document.NewDG15(c07NewDG15(key.spki))
	if err != nil {
		return false, nil, "NewDG15: " + fmt.Sprint(err)
	}
	doc.Mf.Lds1.Dg15 = dg15
	a, err := activeauth.NewActiveAuth(nfc, doc).WithChallenge(rnd)
	if err != nil {
		return false, nil, "WithChallenge: " + fmt.Sprint(err)
	}
	res, err := a.DoActiveAuth()
	return err == nil && res != nil && res.Success, aa.LastSig, fmt.Sprint(err)
}

// c07ECShapeGroups splits the shapes of one curve over three cases (header look-alikes from
// the table, one-octet shapes of plain responses, DER shapes).
var c07ECShapeGroups = []string{"header-lookalikes", "plain-octets", "der"}

func c07ECShapeGroup(sh c07ECShape) int {
	switch {
	case sh.table != nil:
		return 0
	case sh.der:
		return 2
	}
	return 1
}

// case i: curve i%11, group (i/11)%3, named / explicit parameters alternating
func c07ECShapeCase(c *fw.Ctx, k *fw.K, i int) {
	r := k.RNG
	cv := ecref.All()[i%11]
	group := (i / 11) % 3
	explicit := (i%11+group+i/33)%2 == 1
	nl := (cv.N.BitLen() + 7) / 8
	for si, sh := range c07ECShapes(nl) {
		if c07ECShapeGroup(sh) != group {
			continue
		}
		rnd := randBytes(r, 8)
		if (i/66+si)%5 == 4 {
			rnd = make([]byte, 8)
		}
		key := c07BuildShape(r, cv, sh, rnd, explicit)
		if key == nil {
			k.Count("ec_shape_not_possible_on_curve")
			continue
		}
		sig := key.aa.SignEC(rnd)
		if why := sh.check(nl, sig); why != "" {
			fw.Bug("c07 shapes: %s on %s: the constructed response does not have the shape: %s (%x)", sh.name, cv.Name, why, sig)
		}
		if !key.ref(sig, rnd) {
			fw.Bug("c07 shapes: reference rejects the harness's own genuine response (%s)", key.desc)
		}
		det := func(route, es string, s []byte) map[string]any {
			return map[string]any{"key": key.desc, "spki": hexCap(key.spki, 700), "challenge": fmt.Sprintf("%x", rnd), "response": hexCap(s, 300), "shape": sh.name, "route": route, "err": es,
				"nonce": fmt.Sprintf("%x", key.aa.Nonce), "private_key": fmt.Sprintf("%x", key.aa.Priv)}
		}
		k.AddEvals(3)
		k.Distinct(fmt.Sprintf("ecshape|%s|%x|%x", key.desc, rnd, fnvBytes(sig)))
		k.Count("ec_shape_genuine")
		k.Count("ec_shape:" + sh.name)
		if si%7 == i%7 {
			k.Sample("ec-shape", map[string]any{"shape": sh.name, "curve": cv.Name, "challenge": fmt.Sprintf("%x", rnd), "response": hexCap(sig, 160)})
		}
		acc, evOK, es := c07Validate(k, key.spki, sig, rnd)
		if !acc {
			k.Violation("aa:genuine-rejected:ec:"+sh.name, fmt.Sprintf("genuine ECDSA response of shape %s rejected by ValidateActiveAuthSignature (%s): %s", sh.name, key.desc, es), det("validate", es, sig))
		} else if !evOK {
			k.Violation("aa:evidence-mismatch", "recorded evidence differs from the validated nonce/signature", det("validate", es, sig))
		}
		if ok, es := c07Offline(key.spki, sig, rnd, c07ECOID); !ok {
			k.Violation("aa:offline:genuine-rejected:ec:"+sh.name, fmt.Sprintf("genuine ECDSA evidence of shape %s rejected by activeauth.VerifyEvidence (%s): %s", sh.name, key.desc, es), det("verify-evidence", es, sig))
		}
		ok, chipSig, es := c07Live(key, rnd)
		if !bytesEq(chipSig, sig) && ok {
			// the chip answered another challenge than the supplied one (judged by the plumbing cases)
			k.Count("ec_shape_live_response_differs")
		} else if !ok {
			k.Violation("aa:live-genuine-failed:ec:"+sh.name, fmt.Sprintf("DoActiveAuth rejects the genuine chip whose response has shape %s (%s): %s", sh.name, key.desc, es), det("live", es, chipSig))
		}
		// neighbours that are not signatures: accepted => valid for the reference
		for _, p := range []int{0, 1, len(sig) / 2, len(sig) - 1} {
			for _, bit := range []uint{uint(si) % 8} {
				v := append([]byte{}, sig...)
				v[p] ^= 1 << bit
				k.AddEvals(1)
				acc, _, _ := c07Validate(k, key.spki, v, rnd)
				if !acc {
					k.Count("rejected_ec-shape-bitflip")
					continue
				}
				if key.ref(v, rnd) {
					k.Count("accepted_valid_equivalent_ec-shape-bitflip")
					continue
				}
				k.Violation("aa:accepts-invalid:ec-shape-bitflip", fmt.Sprintf("bit flip of a %s response accepted although it is not a valid signature over the challenge (%s)", sh.name, key.desc), det("validate", "", v))
			}
		}
		// the same signature for another challenge
		rnd2 := append([]byte{}, rnd...)
		rnd2[r.IntN(8)] ^= 1 << uint(r.IntN(8))
		k.AddEvals(1)
		if acc, _, _ := c07Validate(k, key.spki, sig, rnd2); acc && !key.ref(sig, rnd2) {
			k.Violation("aa:accepts-invalid:ec-shape-other-challenge", fmt.Sprintf("%s response accepted for a challenge it was not made for (%s)", sh.name, key.desc), det("validate", "", sig))
		}
	}
}
