package checks

import (
	"fmt"
	mrand "math/rand/v2"
	"strings"

	"github.com/gmrtd/gmrtd/iso7816"

	"verifharness/chipsim"
	"verifharness/fw"
	"verifharness/symref"
)

// C10, further case classes.
//
//   helpers|  one session on which the exported command helpers of NfcSession (GetChallenge,
//             SelectEF, ReadFile, ...) and generic DoAPDU exchanges are interleaved: every APDU
//             any of them sends must be a well-formed protected APDU the chip authenticates
//             under its counter, the session must still be the installed one afterwards and
//             the counters must agree, so that the following exchange authenticates.
//   buffers|  the byte slices that cross the API of SecureMessaging belong to the caller, who
//             wipes, refills or re-uses them (SetSSC input, a second session from the same
//             slice, results of SSC()/KsEnc()): lockstep with the chip must hold.
//   status|   the status word of the genuine protected response as its own dimension: every
//             interindustry status (SW1 61..6F), 9000 and the named ones per suite in the
//             quick tier, all 65536 values per suite in the thorough tier, each on a short
//             history whose last exchange must still authenticate.

// c10Sess is one terminal-side session with its chip.
type c10Sess struct {
	suite      symref.Suite
	kenc, kmac []byte
	chip       *chipsim.SM
	lib        *iso7816.SecureMessaging
	nfc        *iso7816.NfcSession
	tr         *funcTransceiver
	respData   []byte
	respSW     uint16
	chipCmd    *chipsim.Cmd
	chipErr    error
	n          int
}

func newC10Sess(suite symref.Suite, kenc, kmac, ssc0 []byte, lib *iso7816.SecureMessaging) *c10Sess {
	s := &c10Sess{suite: suite, kenc: kenc, kmac: kmac, lib: lib}
	s.chip = chipsim.NewSM(suite, kenc, kmac, ssc0)
	s.tr = &funcTransceiver{}
	s.tr.f = func(raw []byte) []byte {
		s.chipCmd, s.chipErr = s.chip.Unwrap(raw)
		if s.chipErr != nil {
			return []byte{0x69, 0x88}
		}
		return s.chip.Wrap(s.respData, s.respSW)
	}
	s.nfc = iso7816.NewNfcSession(s.tr)
	s.nfc.SetSecureMessaging(lib)
	return s
}

// exchange runs one command through DoAPDU, answered by the genuine protected response
// (data, sw), and applies the lockstep oracle. Violation keys are prefix:<what>[:suffix].
func (s *c10Sess) exchange(k *fw.K, cmd plainCmd, data []byte, sw uint16, prefix, suffix string, extra map[string]any) bool {
	if cmd.ne == 0 {
		data = nil
	} else if len(data) > cmd.ne {
		data = data[:cmd.ne]
	}
	s.respData, s.respSW = data, sw
	s.chipCmd, s.chipErr = nil, nil
	before := s.tr.n
	k.AddEvals(1)
	sscBefore := s.lib.SSC()
	chipBefore := append([]byte{}, s.chip.SSC...)
	rr, err := s.nfc.DoAPDU(cmd.capdu(), "c10")
	s.n++
	det := func() map[string]any {
		m := map[string]any{"suite": s.suite.String(), "kenc": fmt.Sprintf("%x", s.kenc), "kmac": fmt.Sprintf("%x", s.kmac), "exchange_of_session": s.n - 1,
			"command": cmd.String(), "sent": hexCap(s.tr.last.enc, 120), "answer_status": fmt.Sprintf("%04x", sw), "answer_data_len": len(data),
			"terminal_ssc_before": fmt.Sprintf("%x", sscBefore), "chip_ssc_before": fmt.Sprintf("%x", chipBefore),
			"terminal_ssc": fmt.Sprintf("%x", s.lib.SSC()), "chip_ssc": fmt.Sprintf("%x", s.chip.SSC)}
		for kk, v := range extra {
			m[kk] = v
		}
		return m
	}
	key := func(what string) string {
		if suffix == "" {
			return prefix + ":" + what
		}
		return prefix + ":" + what + ":" + suffix
	}
	if s.tr.n != before+1 {
		k.Violation(key("transceive-count"), fmt.Sprintf("DoAPDU produced %d transceive calls", s.tr.n-before), det())
		return false
	}
	if s.chipErr != nil {
		reason := s.chipErr.(*chipsim.SMError).Reason
		k.Violation(key("chip-rejects:"+c10Slug(reason)), fmt.Sprintf("chip-side reference refuses the APDU sent for %s: %s (terminal counter before the exchange %x, chip %x)", cmd.String(), reason, sscBefore, chipBefore), det())
		return false
	}
	if s.chip.LastOuter.CLA != 0x0C {
		k.Violation(key("class"), fmt.Sprintf("class byte %02x, expected 0C", s.chip.LastOuter.CLA), det())
		return false
	}
	if s.chipCmd.INS != cmd.ins || s.chipCmd.P1 != cmd.p1 || s.chipCmd.P2 != cmd.p2 || !bytesEq(s.chipCmd.Data, cmd.data) || s.chipCmd.Ne != cmd.ne {
		k.Violation(key("intent-mismatch"), "the command the chip authenticated and decrypted differs from the intended one", det())
		return false
	}
	if err != nil {
		k.Violation(key("genuine-response-rejected"), fmt.Sprintf("genuine protected response (status %04x, %d bytes) rejected: %v", sw, len(data), err), det())
		return false
	}
	if !bytesEq(rr.Data, data) || rr.Status != sw {
		k.Violation(key("wrong-response"), fmt.Sprintf("DoAPDU returned %d bytes / %04x, chip sent %d bytes / %04x", len(rr.Data), rr.Status, len(data), sw), det())
		return false
	}
	if !bytesEq(s.lib.SSC(), s.chip.SSC) {
		k.Violation(key("counter"), fmt.Sprintf("after the exchange (status %04x) terminal counter %x, chip counter %x", sw, s.lib.SSC(), s.chip.SSC), det())
		return false
	}
	return true
}

// smallCmd draws a command of one of the four ISO cases with modest lengths.
func smallCmd(r *mrand.Rand) plainCmd {
	switch r.IntN(5) {
	case 0:
		return plainCmd{ins: 0xA4, p1: 2, p2: 0x0C, data: randBytes(r, 2)}
	case 1:
		return plainCmd{ins: 0xB0, p1: byte(r.IntN(0x80)), p2: byte(r.Uint32()), ne: []int{1, 4, 8, 100, 256}[r.IntN(5)]}
	case 2:
		return plainCmd{ins: 0x44}
	case 3:
		return plainCmd{ins: 0x87, data: randBytes(r, 1+r.IntN(40)), ne: 256}
	}
	return plainCmd{ins: 0x86, data: randBytes(r, 1+r.IntN(70)), ne: 256}
}

func (s *c10Sess) randomExchange(k *fw.K, prefix, suffix string, extra map[string]any) bool {
	r := k.RNG
	// status words: the plain ones only - the status dimension has its own classes
	sw := []uint16{0x9000, 0x9000, 0x9000, 0x6A82, 0x6282, 0x6982}[r.IntN(6)]
	return s.exchange(k, smallCmd(r), genRespData(r, false), sw, prefix, suffix, extra)
}

// ---- helpers|

func c10File(r *mrand.Rand, n int) []byte {
	tag := byte(0x60 + r.IntN(0x1F))
	if tag&0x1F == 0x1F {
		tag = 0x61
	}
	f := append([]byte{tag}, chipsim.BERLen(n)...)
	return append(f, randBytes(r, n)...)
}

func c10HelperHistory(c *fw.Ctx, k *fw.K, i int) {
	r := k.RNG
	suite := symref.AllSuites[i%4]
	kenc, kmac := randKey(r, suite), randKey(r, suite)
	sscMode := i / 4
	ssc0 := startSSC(r, suite, sscMode)
	chip := chipsim.NewSM(suite, kenc, kmac, ssc0)
	lib := newLibSM(k, suite, kenc, kmac, ssc0)

	// what the chip stores
	files := map[uint16][]byte{}
	var fids []uint16
	for _, fid := range []uint16{0x011E, 0x0101, 0x010E, 0x011D} {
		n := []int{0, 1, 2, 3, 5, 20, 126, 127, 128, 129, 254, 255, 256, 300, 700}[r.IntN(15)]
		files[fid] = c10File(r, n)
		fids = append(fids, fid)
	}
	var curFile []byte
	readCap := 0

	var recs []*smWire
	var respond func(cmd *chipsim.Cmd, idx int) ([]byte, uint16)
	tr := &funcTransceiver{}
	tr.f = func(raw []byte) []byte {
		w := &smWire{}
		w.record(tr, chip, raw)
		recs = append(recs, w)
		if w.err != nil {
			return []byte{0x69, 0x88}
		}
		w.respData, w.respSW = respond(w.cmd, len(recs)-1)
		if w.cmd.Ne == 0 {
			w.respData = nil
		} else if len(w.respData) > w.cmd.Ne {
			w.respData = w.respData[:w.cmd.Ne]
		}
		return chip.Wrap(w.respData, w.respSW)
	}
	nfc := iso7816.NewNfcSession(tr)
	nfc.SetSecureMessaging(lib)

	// serve: a chip that stores the files and answers honestly
	serve := func(cmd *chipsim.Cmd) ([]byte, uint16) {
		switch cmd.INS {
		case 0xA4:
			if cmd.P1 == 0x02 && len(cmd.Data) == 2 {
				f, ok := files[uint16(cmd.Data[0])<<8|uint16(cmd.Data[1])]
				if !ok {
					curFile = nil
					return nil, 0x6A82
				}
				curFile = f
			}
			return nil, 0x9000
		case 0xB0:
			if cmd.P1&0x80 != 0 {
				return nil, 0x6986
			}
			if curFile == nil { // a transparent file of unknown content
				return randBytes(r, min(cmd.Ne, 200)), 0x9000
			}
			off := int(cmd.P1)<<8 | int(cmd.P2)
			if off >= len(curFile) {
				return nil, 0x6B00
			}
			n := min(cmd.Ne, len(curFile)-off)
			if readCap > 0 {
				n = min(n, readCap)
			}
			return curFile[off : off+n], 0x9000
		case 0x84, 0x82:
			return randBytes(r, min(cmd.Ne, 300)), 0x9000
		case 0x88, 0x86:
			if cmd.Ne == 0 {
				return nil, 0x9000
			}
			return randBytes(r, 1+r.IntN(min(cmd.Ne, 260))), 0x9000
		case 0x22:
			return nil, 0x9000
		}
		d := genRespData(r, false)
		return d, 0x9000
	}
	errorSW := func() uint16 {
		for n := 0; n < 4; n++ {
			if sw := drawSW(r); sw != 0x9000 {
				return sw
			}
		}
		return 0x6A82
	}

	maxRead := 256 // NewNfcSession's default
	nops := c.Pick(24, 60)
	prevOp := "-"
	for j := 0; j < nops; j++ {
		// occasionally the caller changes the max-read setting (not a command)
		if r.IntN(10) == 0 {
			maxRead = []int{8, 100, 231, 255, 256, 256, 257, 1000, 65536}[r.IntN(9)]
			nfc.SetMaxLe(maxRead)
			k.Count("helpers_set_max_read")
		}
		var h *smHelperCall
		switch {
		case j == nops-1 || r.IntN(3) == 0:
			h = genericCall(genPlainCmd(r, false))
		default:
			op := smHelperOps[r.IntN(len(smHelperOps))]
			if j < len(smHelperOps) && i%2 == 0 {
				op = smHelperOps[(j+i/2)%len(smHelperOps)] // every helper early in every second history
			}
			h = genHelperCall(r, op, maxRead, fids)
		}
		// how the chip answers this call
		mode := r.IntN(20)
		injectAt := -1
		var injectSW uint16
		readCap = []int{0, 0, 0, 1, 100, 231}[r.IntN(6)]
		if h.op == "ReadFile" {
			if readCap == 1 && len(files[h.fid]) > 40 {
				readCap = 0
			}
			if r.IntN(3) == 0 {
				injectAt, injectSW = r.IntN(5), errorSW()
			}
		}
		var modeName string
		switch {
		case h.op == "ReadFile":
			modeName = fmt.Sprintf("serve-cap%d-inject%d", readCap, injectAt)
			respond = func(cmd *chipsim.Cmd, idx int) ([]byte, uint16) {
				if idx == injectAt {
					return nil, injectSW
				}
				return serve(cmd)
			}
		case mode < 12:
			modeName = "fit"
			respond = func(cmd *chipsim.Cmd, idx int) ([]byte, uint16) { return serve(cmd) }
		case mode < 17:
			modeName = "status"
			withData := r.IntN(3) == 0
			respond = func(cmd *chipsim.Cmd, idx int) ([]byte, uint16) {
				if idx > 0 && r.IntN(2) == 0 {
					return serve(cmd)
				}
				if withData {
					return randBytes(r, 1+r.IntN(16)), errorSW()
				}
				return nil, errorSW()
			}
		default:
			modeName = "odd-length"
			respond = func(cmd *chipsim.Cmd, idx int) ([]byte, uint16) {
				if cmd.Ne <= 1 {
					return nil, 0x9000
				}
				return randBytes(r, []int{0, 1, min(cmd.Ne, 300) - 1}[r.IntN(3)]), 0x9000
			}
		}

		recs = nil
		k.AddEvals(1)
		k.Count("helpers_call_" + h.op)
		k.Distinct(fmt.Sprintf("%v|ssc%d|%s|after=%s|%s", suite, sscMode%5, h.String(), prevOp, modeName))
		det := func() map[string]any {
			var sent []string
			for _, w := range recs {
				sent = append(sent, hexCap(w.enc, 60))
			}
			return map[string]any{"suite": suite.String(), "kenc": fmt.Sprintf("%x", kenc), "kmac": fmt.Sprintf("%x", kmac), "ssc0": fmt.Sprintf("%x", ssc0), "operation": j,
				"call": h.String(), "previous_call": prevOp, "chip_answers": modeName, "sent": sent, "terminal_ssc": fmt.Sprintf("%x", lib.SSC()), "chip_ssc": fmt.Sprintf("%x", chip.SSC)}
		}
		pfx := "sm:helper:" + h.op + ":"
		var res smHelperResult
		var rr *iso7816.RApdu
		if h.op == "DoAPDU" {
			cmd, _ := h.want(0, nil)
			var err error
			rr, err = nfc.DoAPDU(cmd.capdu(), "c10")
			res = smHelperResult{err: err}
		} else {
			res = h.call(nfc)
		}
		// every APDU of the call, as the chip saw it
		var prevSW []uint16
		for idx, w := range recs {
			want, have := h.want(idx, prevSW)
			neKnown := !h.neFromMaxRead || maxRead > 0
			if key, msg := w.judge(want, have, neKnown); key != "" {
				k.Violation(pfx+key, fmt.Sprintf("APDU %d of %s: %s", idx, h.String(), msg), det())
				return
			}
			if w.dataTag == 0x85 && w.do85Ind {
				k.Count("do85_with_padding_indicator")
			}
			prevSW = append(prevSW, w.respSW)
			k.Count("helpers_apdus_authenticated_by_chip")
			if w.respSW != 0x9000 {
				k.Count("helpers_apdus_answered_with_protected_error_status")
			}
		}
		if len(recs) > 1 {
			k.Count("helpers_calls_with_several_apdus")
		}
		// the session is still the installed one
		cur := nfc.SM()
		if cur == nil {
			k.Violation(pfx+"session-dropped", fmt.Sprintf("after %s no secure-messaging session is installed any more: whatever is sent next leaves unprotected", h.String()), det())
			return
		}
		if p, ok := cur.(*iso7816.SecureMessaging); !ok || p != lib {
			k.Violation(pfx+"session-replaced", fmt.Sprintf("after %s another secure-messaging object is installed than the one the caller installed", h.String()), det())
			return
		}
		if !bytesEq(lib.KsEnc(), kenc) {
			k.Violation(pfx+"session-keys-changed", fmt.Sprintf("after %s the session's encryption key differs from the installed one", h.String()), det())
			return
		}
		if len(recs) == 0 {
			k.Count("helpers_call_sent_nothing")
		}
		// every answer was a genuine protected response: the session may not refuse it
		if len(recs) > 0 && res.err != nil && strings.Contains(res.err.Error(), "SM.Decode error") {
			last := recs[len(recs)-1]
			k.Violation(pfx+"genuine-response-rejected:"+swName(last.respSW), fmt.Sprintf("genuine protected response (status %04x, %d bytes) rejected by the session: %v", last.respSW, len(last.respData), res.err), det())
			return
		}
		// counters
		if !bytesEq(lib.SSC(), chip.SSC) {
			cls := "9000"
			if len(recs) > 0 && recs[len(recs)-1].respSW != 0x9000 {
				cls = "error-status"
			}
			k.Violation(pfx+"counter:after-"+cls, fmt.Sprintf("after %s (%d APDUs) terminal counter %x, chip counter %x", h.String(), len(recs), lib.SSC(), chip.SSC), det())
			return
		}
		// what reached the caller
		if len(recs) > 0 {
			last := recs[len(recs)-1]
			switch {
			case h.op == "DoAPDU" && res.err != nil:
				k.Violation(pfx+"genuine-response-rejected", fmt.Sprintf("genuine protected response (status %04x, %d bytes) rejected: %v", last.respSW, len(last.respData), res.err), det())
				return
			case h.op == "DoAPDU":
				if !bytesEq(rr.Data, last.respData) || rr.Status != last.respSW {
					k.Violation(pfx+"wrong-response", fmt.Sprintf("DoAPDU returned %d bytes / %04x, chip sent %d bytes / %04x", len(rr.Data), rr.Status, len(last.respData), last.respSW), det())
					return
				}
			case res.err == nil:
				if ok, msg := h.resultAgrees(res, last.respData, last.respSW); !ok {
					k.Violation(pfx+"result-not-the-chips-answer", msg, det())
					return
				}
				k.Count("helpers_call_succeeded")
			default:
				k.Count("helpers_call_returned_error")
			}
		}
		if prevOp != "-" && prevOp != "DoAPDU" && len(recs) > 0 {
			k.Count("helpers_exchange_after_helper_authenticated")
		}
		if h.op == "ReadFile" {
			// the fallback ladder may have lowered the setting; the caller sets it again
			maxRead = 0
			if r.IntN(2) == 0 {
				maxRead = []int{231, 256, 256, 1000}[r.IntN(4)]
				nfc.SetMaxLe(maxRead)
			}
		}
		if j == 3 && i < 40 {
			k.Sample("helper-call", map[string]any{"suite": suite.String(), "call": h.String(), "apdus": len(recs), "chip_answers": modeName})
		}
		prevOp = h.op
	}
	k.Count("helpers_histories_completed")
}

// ---- buffers|

var c10BufferVariants = []string{
	"setssc-input-overwritten-at-once",
	"setssc-input-overwritten-later",
	"setssc-input-reused-for-second-session",
	"setssc-input-shared-by-two-sessions",
	"accessor-results-overwritten",
	"setssc-mid-session-input-overwritten",
	"setssc-input-kept-and-compared",
	"key-slices-overwritten",
}

func c10Buffers(c *fw.Ctx, k *fw.K, i int) {
	r := k.RNG
	suite := symref.AllSuites[i%4]
	variant := c10BufferVariants[(i/4)%len(c10BufferVariants)]
	round := i / (4 * len(c10BufferVariants))
	how := 1 + round%3
	kenc, kmac := randKey(r, suite), randKey(r, suite)
	ssc0 := startSSC(r, suite, round/3+i%5)
	pfx := "sm:caller-buffer:" + variant
	extra := map[string]any{"variant": variant, "ssc0": fmt.Sprintf("%x", ssc0), "buffer_afterwards": scribbleNames[how]}
	k.Count("buffers_" + variant)
	k.Distinct(fmt.Sprintf("%v|%s|%s|ssc%d", suite, variant, scribbleNames[how], (round/3+i%5)%5))
	nex := c.Pick(6, 16)

	mk := func(kenc, kmac []byte) *iso7816.SecureMessaging {
		sm, err := iso7816.NewSecureMessaging(libAlg(suite), append([]byte{}, kenc...), append([]byte{}, kmac...))
		if err != nil {
			fw.LibFail("new-secure-messaging-failed", "NewSecureMessaging(%v) with valid keys: %v", suite, err)
		}
		return sm
	}
	setSSC := func(sm *iso7816.SecureMessaging, b []byte) {
		if err := sm.SetSSC(b); err != nil {
			fw.LibFail("set-ssc-failed", "SetSSC with a counter of the right length: %v", err)
		}
	}
	// overwrite a buffer of the caller's; the session's counter may not move
	overwrite := func(s *c10Sess, buf []byte, how int, what string) bool {
		before := s.lib.SSC()
		scribble(buf, how)
		k.AddEvals(1)
		if after := s.lib.SSC(); !bytesEq(before, after) {
			k.Violation(pfx+":counter-follows-the-callers-slice:"+scribbleNames[how], fmt.Sprintf("the caller %s its own buffer (%s) and the session's counter went from %x to %x without any exchange", scribbleNames[how], what, before, after),
				map[string]any{"suite": suite.String(), "variant": variant, "ssc0": fmt.Sprintf("%x", ssc0), "chip_ssc": fmt.Sprintf("%x", s.chip.SSC)})
			return false
		}
		return true
	}

	switch variant {
	case "setssc-input-overwritten-at-once", "setssc-input-overwritten-later":
		buf := append([]byte{}, ssc0...)
		lib := mk(kenc, kmac)
		setSSC(lib, buf)
		s := newC10Sess(suite, kenc, kmac, ssc0, lib)
		at := 0
		if variant == "setssc-input-overwritten-later" {
			at = 1 + r.IntN(4)
		}
		for j := 0; j < nex; j++ {
			if j == at && !overwrite(s, buf, how, "the slice it had passed to SetSSC") {
				return
			}
			if !s.randomExchange(k, pfx, scribbleNames[how], extra) {
				return
			}
		}
	case "setssc-input-reused-for-second-session":
		// the initial counter lives in one slice of the caller's; a second chip is read later
		// (other keys, same initial counter, e.g. zero for PACE/CA sessions)
		buf := append([]byte{}, ssc0...)
		lib1 := mk(kenc, kmac)
		setSSC(lib1, buf)
		s1 := newC10Sess(suite, kenc, kmac, ssc0, lib1)
		n1 := 1 + r.IntN(5)
		for j := 0; j < n1; j++ {
			if !s1.randomExchange(k, pfx+":first-session", "", extra) {
				return
			}
		}
		if !bytesEq(buf, ssc0) {
			k.Count("buffers_callers_setssc_slice_modified_by_the_library")
		}
		kenc2, kmac2 := randKey(r, suite), randKey(r, suite)
		if r.IntN(2) == 0 {
			kenc2, kmac2 = kenc, kmac
		}
		lib2 := mk(kenc2, kmac2)
		setSSC(lib2, buf)
		s2 := newC10Sess(suite, kenc2, kmac2, ssc0, lib2)
		k.AddEvals(1)
		if !bytesEq(lib2.SSC(), ssc0) {
			k.Violation(pfx+":second-session:initial-counter", fmt.Sprintf("the caller never wrote to the slice holding the initial counter %x, yet after %d exchanges of the first session a second session set from the same slice starts at %x", ssc0, n1, lib2.SSC()),
				map[string]any{"suite": suite.String(), "ssc0": fmt.Sprintf("%x", ssc0), "callers_slice_now": fmt.Sprintf("%x", buf), "first_session_exchanges": n1})
			return
		}
		for j := 0; j < nex; j++ {
			if !s2.randomExchange(k, pfx+":second-session", "", extra) {
				return
			}
			if j%2 == 1 && !s1.randomExchange(k, pfx+":first-session", "", extra) {
				return
			}
		}
	case "setssc-input-shared-by-two-sessions":
		buf := append([]byte{}, ssc0...)
		lib1, lib2 := mk(kenc, kmac), mk(kmac, kenc)
		setSSC(lib1, buf)
		setSSC(lib2, buf)
		s1 := newC10Sess(suite, kenc, kmac, ssc0, lib1)
		s2 := newC10Sess(suite, kmac, kenc, ssc0, lib2)
		for j := 0; j < nex; j++ {
			s, name := s1, "first-session"
			if r.IntN(2) == 0 {
				s, name = s2, "second-session"
			}
			if !s.randomExchange(k, pfx+":"+name, "", extra) {
				return
			}
		}
	case "accessor-results-overwritten":
		lib := mk(kenc, kmac)
		setSSC(lib, append([]byte{}, ssc0...)) // a slice nobody touches again
		s := newC10Sess(suite, kenc, kmac, ssc0, lib)
		for j := 0; j < nex; j++ {
			switch r.IntN(4) {
			case 0:
				if !overwrite(s, lib.SSC(), how, "the slice SSC() had returned") {
					return
				}
			case 1:
				if !overwrite(s, lib.KsEnc(), how, "the slice KsEnc() had returned") {
					return
				}
				if !bytesEq(lib.KsEnc(), kenc) {
					k.Violation(pfx+":key-follows-the-callers-slice", "the caller overwrote the slice KsEnc() had returned and the session's key changed", map[string]any{"suite": suite.String()})
					return
				}
			case 2:
				if !overwrite(s, s.nfc.SM().SSC(), how, "the slice NfcSession.SM().SSC() had returned") {
					return
				}
			}
			if !s.randomExchange(k, pfx, scribbleNames[how], extra) {
				return
			}
		}
	case "setssc-mid-session-input-overwritten":
		// SetSSC on a running session (as chip authentication does when it restarts the
		// counter): both sides take the new value, the caller's buffer is re-used afterwards
		lib := mk(kenc, kmac)
		setSSC(lib, append([]byte{}, ssc0...))
		s := newC10Sess(suite, kenc, kmac, ssc0, lib)
		at := 1 + r.IntN(3)
		for j := 0; j < nex; j++ {
			if j == at {
				v := startSSC(r, suite, r.IntN(5))
				buf := append([]byte{}, v...)
				setSSC(lib, buf)
				copy(s.chip.SSC, v)
				extra["ssc_set_mid_session"] = fmt.Sprintf("%x", v)
				if !overwrite(s, buf, how, "the slice it had passed to SetSSC on the running session") {
					return
				}
			}
			if !s.randomExchange(k, pfx, scribbleNames[how], extra) {
				return
			}
		}
	case "setssc-input-kept-and-compared":
		// the caller keeps its slice as the record of the initial counter (evidence, logging,
		// expected-value computation): after n exchanges the chip's counter is initial + 2n.
		// Lockstep is the verdict; whether the slice still holds the initial value is counted.
		buf := append([]byte{}, ssc0...)
		lib := mk(kenc, kmac)
		setSSC(lib, buf)
		s := newC10Sess(suite, kenc, kmac, ssc0, lib)
		for j := 0; j < nex; j++ {
			if !s.randomExchange(k, pfx, "", extra) {
				return
			}
			exp := append([]byte{}, buf...)
			for n := 0; n < 2*(j+1); n++ {
				chipsim.IncSSC(exp)
			}
			if !bytesEq(exp, s.chip.SSC) {
				// not a verdict: the statement does not say who owns the slice after the call; the
				// cases that re-use the slice for a second session carry the verdict
				k.Count("buffers_callers_setssc_slice_modified_by_the_library")
			}
		}
	case "key-slices-overwritten":
		// Not required: NewSecureMessaging is not documented to copy its key arguments and the
		// statement does not speak about them. Observed and counted only.
		kb, mb := append([]byte{}, kenc...), append([]byte{}, kmac...)
		lib, err := iso7816.NewSecureMessaging(libAlg(suite), kb, mb)
		if err != nil {
			fw.LibFail("new-secure-messaging-failed", "NewSecureMessaging(%v) with valid keys: %v", suite, err)
		}
		setSSC(lib, append([]byte{}, ssc0...))
		which := r.IntN(2)
		if which == 0 {
			scribble(kb, how)
		} else {
			scribble(mb, how)
		}
		chip := chipsim.NewSM(suite, kenc, kmac, ssc0)
		cmd := smallCmd(r)
		name := fmt.Sprintf("buffers_key_slice_%s_overwritten_after_construction:%s:", []string{"enc", "mac"}[which], map[bool]string{true: "aes", false: "3des"}[suite.IsAES()])
		if prot, err := lib.Encode(cmd.capdu()); err != nil {
			k.Count(name + "encode_error_(not_required)")
		} else if _, err := chip.Unwrap(prot.Encode()); err != nil {
			k.Count(name + "chip_rejects_(not_required)")
		} else {
			k.Count(name + "session_unaffected")
		}
	}
	k.Count("buffers_cases_completed")
}

// ---- status|

func c10StatusBlock(c *fw.Ctx, k *fw.K, sws []uint16, allSuites bool) {
	r := k.RNG
	for _, sw := range sws {
		suites := []symref.Suite{symref.AllSuites[int(sw+sw>>8)%4]}
		if allSuites {
			suites = symref.AllSuites
		}
		for _, suite := range suites {
			kenc, kmac := randKey(r, suite), randKey(r, suite)
			ssc0 := startSSC(r, suite, int(sw>>4)+int(sw))
			s := newC10Sess(suite, kenc, kmac, ssc0, newLibSM(k, suite, kenc, kmac, ssc0))
			name := swName(sw)
			extra := map[string]any{"ssc0": fmt.Sprintf("%x", ssc0), "status_under_test": fmt.Sprintf("%04x", sw)}
			k.Distinct(fmt.Sprintf("status|%v|%04x", suite, sw))
			// status only, then data + status, then an ordinary exchange that must still work
			if !s.exchange(k, plainCmd{ins: 0xA4, p1: 2, p2: 0x0C, data: []byte{0x01, byte(sw)}}, nil, sw, "sm:status:protected-status-without-data", name, extra) {
				continue
			}
			if !s.exchange(k, plainCmd{ins: 0xB0, p2: byte(sw >> 8), ne: 8 + int(sw%3)*124}, randBytes(r, 1+int(sw)%19), sw, "sm:status:protected-status-with-data", name, extra) {
				continue
			}
			if !s.exchange(k, smallCmd(r), genRespData(r, false), 0x9000, "sm:status:exchange-after-protected-status", name, extra) {
				continue
			}
			k.Count("status_histories_completed")
			if sw>>8 != 0x90 && sw>>12 != 6 {
				k.Count("status_histories_outside_6xxx_9000")
			}
		}
	}
}

func c10StatusBlocks(c *fw.Ctx) [][]uint16 {
	var blocks [][]uint16
	block := func(sw1 int) []uint16 {
		b := make([]uint16, 256)
		for i := range b {
			b[i] = uint16(sw1<<8 | i)
		}
		return b
	}
	if c.Thorough() {
		for sw1 := 0; sw1 < 256; sw1++ {
			blocks = append(blocks, block(sw1))
		}
		return blocks
	}
	for sw1 := 0x61; sw1 <= 0x6F; sw1++ {
		blocks = append(blocks, block(sw1))
	}
	return append(blocks, block(0x90))
}

func runC10More(c *fw.Ctx) {
	nh := c.Pick(200, 12000)
	c.Cases(nh, func(i int) string { return fmt.Sprintf("helpers|suite=%v i=%d", symref.AllSuites[i%4], i) }, func(i int, k *fw.K) {
		k.Nontrivial("")
		c10HelperHistory(c, k, i)
	})
	nb := c.Pick(4*len(c10BufferVariants)*6, 4*len(c10BufferVariants)*150)
	c.Cases(nb, func(i int) string {
		return fmt.Sprintf("buffers|suite=%v %s i=%d", symref.AllSuites[i%4], c10BufferVariants[(i/4)%len(c10BufferVariants)], i)
	}, func(i int, k *fw.K) {
		k.Nontrivial("")
		c10Buffers(c, k, i)
	})
	// the named status words with every suite
	c.Case("status|named x all suites", func(k *fw.K) {
		k.Nontrivial("")
		c10StatusBlock(c, k, smISOStatusWords, true)
	})
	blocks := c10StatusBlocks(c)
	c.Cases(len(blocks), func(i int) string { return fmt.Sprintf("status|sw1=%02x", blocks[i][0]>>8) }, func(i int, k *fw.K) {
		k.Nontrivial("")
		c10StatusBlock(c, k, blocks[i], c.Thorough())
	})
}
