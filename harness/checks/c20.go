package checks

import (
	"crypto/sha256"
	"encoding/json"
	"fmt"
	mrand "math/rand/v2"
	"os"
	"os/exec"
	"runtime"
	"sort"
	"strings"
	"sync"
	"sync/atomic"
	"time"

	"github.com/anishathalye/porcupine"

	"github.com/gmrtd/gmrtd/cms"
	"github.com/gmrtd/gmrtd/document"
	"github.com/gmrtd/gmrtd/iso7816"
	"github.com/gmrtd/gmrtd/mobile"
	"github.com/gmrtd/gmrtd/reader"
	"github.com/gmrtd/gmrtd/verifier"

	"verifharness/chipsim"
	"verifharness/fw"
	"verifharness/perso"
)

// C20 - shared readers, verifiers and trust stores are safe under concurrency.
// Built with -race. Three oracles: the race detector (collected by the framework),
// linearizability of recorded call/return histories against a sequential configuration
// model (porcupine), and "loaded exactly once / one pool" for the built-in trust store.

func init() {
	register(&fw.Spec{
		ID:         "C20",
		Level:      "exploration",
		Race:       true,
		RealRand:   true,
		MaxWorkers: 8,
		Rule: "case = one concurrent round: (a) one mobile.Reader shared by several goroutines mixing ReadDocument with SetApduMaxLe / SkipImages / WithAAChallenge against one simulated chip; (b) one reader.Reader: a ReadDocument with concurrent setters; (c) one verifier.Verifier / mobile.Verifier: Verify with concurrent WithAAChallenge; (d) independent readers and verifiers sharing one GenericCertPool / CombinedCertPool; (e) cold start in a fresh process: 32 goroutines calling PreloadCscaCertPool / NewSampleDocument / Verifier.Verify; (f) client kind lister: readers, verifiers and listers sharing a caller-built GenericCertPool / master-list SignedDataCertPool / CombinedCertPool (and its inner stores) / AddCerts-filled store - a lister calls All / BySKI / ByIssuerCountry / ByIssuerAndSerial and sorts, reverses, shuffles, rotates, overwrites, truncates+appends to the slice it received; buffers passed in (AA challenge, Verify blob, AddCerts slice, transceiver response) are overwritten once the call has returned, certificate chains in results are overwritten; then a lone lister wipes every accessor's result on an unshared twin; (g) the same listers on the built-in store beside one shared mobile.Verifier, bytes returned by mobile.Document accessors overwritten; (h) timed setters: one ReadDocument of a reader.Reader / mobile.Reader on chips that store and list DG2 and DG7, with SkipImages / SkipPace / WithAAChallenge / SetApduMaxLe called by another thread when the read reaches its k-th transceiver or status callback, k enumerated over the whole read (the read goes on once the setter's thread has returned or is parked), alone, after other setter calls, two or three a few points apart, mobile: followed by a second read; GOMAXPROCS varied over {2,4,16}, chip responses delayed by PRNG yields; " +
			"oracles: no DATA RACE report with a gmrtd frame; every recorded history (call/return stamps from one atomic counter at the client boundary) linearizable against the sequential model of the configuration; independent instances return the lone-call result; master-list loaders each invoked once and every caller sees the same pool; accesses to caller-owned memory are made in verifCallerOwned* functions so that a race on it is attributed to the accessor that handed out (or the call that kept) the alias; at quiescent points a shared store lists exactly the added certificates and answers every lookup as the lone call did before sharing, every concurrent lookup equals the lone call; timed setters: the abstract result of the read (files obtained with contents, files selected on the chip, steps, phases reported, challenge on the wire, largest Le, verdicts) equals the measured result of a lone ReadDocument under a configuration that a sequential order of the calls produces, the order respecting calls that did not overlap; non-trivial = a round with at least two overlapping calls; distinct = (workload, observed completion order)",
		MinEvaluations: 20,
		HangSeconds:    3600, // broken-harness guard only; a timed-setter case is 50-100 reads, the first mobile case loads the built-in store under -race
		Assumptions: []string{
			"the race detector only sees the interleavings that occurred; rounds are repeated with yields at the transceiver (the natural suspension point inside a read) and different GOMAXPROCS",
			"the simulated chip is guarded by the harness's own lock and starts a new session whenever an unprotected SELECT arrives, so serialised reads are clean sessions",
			"linearizability is checked per object with porcupine (timeout => inconclusive)",
			"caller-owned = the slice an accessor returns and its elements as values, a buffer passed in once the call has returned; the bytes a Certificate's fields point to and the buffer given to GenericCertPool.Add are shared with the store by the unchanged library and are never written",
		},
		Run: runC20,
	})
}

// ---------------------------------------------------------------------------------------
// shared chip with yields

type c20Obs struct {
	maxNe     int
	dg2Reads  int
	paceSeen  bool
	challenge []byte
}

type c20Chip struct {
	mu       sync.Mutex
	card     *chipsim.Card
	r        *mrand.Rand
	inFlight atomic.Int32
	overlap  atomic.Int32
	perG     map[uint64]*c20Obs // observations per calling goroutine (the library has none of its own)
	// reuseResp: the transceiver owns its response buffer and overwrites the previous
	// response when the next command arrives (as a host binding with one I/O buffer does)
	reuseResp bool
	prevResp  []byte
}

// goroutine id of the caller (the usual runtime.Stack trick; test-harness use only)
func c20GID() uint64 {
	var buf [64]byte
	n := runtime.Stack(buf[:], false)
	var id uint64
	fmt.Sscanf(string(buf[:n]), "goroutine %d ", &id)
	return id
}

func (c *c20Chip) begin() {
	c.mu.Lock()
	if c.perG == nil {
		c.perG = map[uint64]*c20Obs{}
	}
	c.perG[c20GID()] = &c20Obs{}
	c.mu.Unlock()
}

func (c *c20Chip) Transceive(cla, ins, p1, p2 int, data []byte, le int, enc []byte) []byte {
	if c.inFlight.Add(1) > 1 {
		c.overlap.Add(1) // two reads talking to the chip at once (never with whole-call locking)
	}
	defer c.inFlight.Add(-1)
	gid := c20GID()
	c.mu.Lock()
	y := c.r.IntN(4)
	c.mu.Unlock()
	for i := 0; i < y; i++ {
		runtime.Gosched()
	}
	if y == 3 {
		time.Sleep(time.Duration(50) * time.Microsecond)
	}
	c.mu.Lock()
	defer c.mu.Unlock()
	if c.reuseResp && c.prevResp != nil {
		verifCallerOwnedInput_Response(c.prevResp)
	}
	resp := c.card.Transceive(append([]byte{}, enc...))
	if c.reuseResp {
		c.prevResp = resp
	}
	ev := c.card.Events[len(c.card.Events)-1]
	if c.perG == nil {
		c.perG = map[uint64]*c20Obs{}
	}
	o := c.perG[gid]
	if o == nil {
		o = &c20Obs{}
		c.perG[gid] = o
	}
	if ev.Cmd != nil {
		if ev.Cmd.INS == 0xB0 && ev.Cmd.Ne > o.maxNe {
			o.maxNe = ev.Cmd.Ne
		}
		if ev.Cmd.INS == 0xA4 && ev.Cmd.P1 == 0x02 && len(ev.Cmd.Data) == 2 && ev.Cmd.Data[0] == 0x01 && ev.Cmd.Data[1] == 0x02 && ev.SW == 0x9000 {
			o.dg2Reads++
		}
		if ev.Cmd.INS == 0x22 && ev.Cmd.P1 == 0xC1 {
			o.paceSeen = true
		}
		if ev.Cmd.INS == 0x88 {
			o.challenge = append([]byte{}, ev.Cmd.Data...)
		}
	}
	return resp
}

// what the chip observed during the calling goroutine's read
func (c *c20Chip) observed() (maxNe int, dg2 bool, pace bool, ch []byte) {
	c.mu.Lock()
	defer c.mu.Unlock()
	o := c.perG[c20GID()]
	if o == nil {
		return 0, false, false, nil
	}
	return o.maxNe, o.dg2Reads > 0, o.paceSeen, append([]byte{}, o.challenge...)
}

// ---------------------------------------------------------------------------------------
// history recording and the sequential model

type c20Op struct {
	Kind  string // "read", "maxle", "skipimages", "challenge", "verify"
	Val   int
	Bytes string
}

type c20Out struct {
	OK      bool
	MaxNe   int
	DG2     bool
	Chal    string
	Mism    bool // verifier: nonce mismatch error
	Summary string
}

type c20State struct {
	MaxLe      int
	SkipImages bool
	Chal       string
}

// c20Rec records call/return stamps at the client boundary. The stamps come from the
// process's monotonic clock and every client appends to its own buffer: the recorder adds
// no synchronisation between goroutines, so it cannot hide a data race from the detector.
type c20Rec struct {
	t0     time.Time
	perCli [][]porcupine.Operation
	ops    []porcupine.Operation // merged after the round
}

func newC20Rec(clients int) *c20Rec {
	return &c20Rec{t0: time.Now(), perCli: make([][]porcupine.Operation, clients)}
}

func (r *c20Rec) do(client int, in c20Op, f func() c20Out) c20Out {
	call := int64(time.Since(r.t0))
	out := f()
	ret := int64(time.Since(r.t0))
	if ret <= call {
		ret = call + 1
	}
	r.perCli[client] = append(r.perCli[client], porcupine.Operation{ClientId: client, Input: in, Call: call, Output: out, Return: ret})
	return out
}

func (r *c20Rec) merge() {
	r.ops = nil
	for _, l := range r.perCli {
		r.ops = append(r.ops, l...)
	}
}

func c20Model(nonce string) porcupine.Model {
	return porcupine.Model{
		Init: func() any { return c20State{MaxLe: 256} },
		Step: func(st, in, out any) (bool, any) {
			s := st.(c20State)
			op := in.(c20Op)
			o := out.(c20Out)
			switch op.Kind {
			case "maxle":
				if op.Val > 0 {
					s.MaxLe = op.Val
				}
				return true, s
			case "skipimages":
				s.SkipImages = true
				return true, s
			case "challenge":
				s.Chal = op.Bytes
				return true, s
			case "read":
				if !o.OK {
					return false, s // a lone read of the conforming chip succeeds
				}
				if o.DG2 == s.SkipImages {
					return false, s
				}
				if s.Chal != "" && o.Chal != s.Chal {
					return false, s
				}
				// the largest READ BINARY Le seen is the configured max-read capped by file sizes
				if o.MaxNe > s.MaxLe {
					return false, s
				}
				return true, s
			case "verify":
				want := s.Chal != "" && s.Chal != nonce
				return o.Mism == want, s
			}
			return false, s
		},
		Equal: func(a, b any) bool { return a.(c20State) == b.(c20State) },
		DescribeOperation: func(in, out any) string {
			return fmt.Sprintf("%+v -> %+v", in, out)
		},
	}
}

func c20Check(k *fw.K, name string, rec *c20Rec, nonce string) {
	rec.merge()
	k.AddEvals(int64(len(rec.ops)))
	// distinct interleaving = order of returns
	ops := append([]porcupine.Operation{}, rec.ops...)
	sort.Slice(ops, func(i, j int) bool { return ops[i].Return < ops[j].Return })
	var sb strings.Builder
	overl := 0
	for i, o := range ops {
		fmt.Fprintf(&sb, "%d:%s;", o.ClientId, o.Input.(c20Op).Kind)
		for j := 0; j < i; j++ {
			if ops[j].Return > o.Call {
				overl++
				break
			}
		}
	}
	h := sha256.Sum256([]byte(sb.String()))
	k.Distinct(fmt.Sprintf("%s|%x", name, h[:8]))
	if overl > 0 {
		k.Count("histories_with_overlapping_calls")
	}
	k.Count("histories_checked_" + name)
	res, info := porcupine.CheckOperationsVerbose(c20Model(nonce), rec.ops, 60*time.Second)
	switch res {
	case porcupine.Ok:
		k.Count("histories_linearizable")
	case porcupine.Unknown:
		k.Inconclusive("linearizability checker timed out on a " + name + " history")
	default:
		var lines []string
		for _, o := range ops {
			lines = append(lines, fmt.Sprintf("client %d [%d,%d] %+v -> %+v", o.ClientId, o.Call, o.Return, o.Input, o.Output))
		}
		_ = info
		k.Violation("linearizability:"+name, "a recorded concurrent history of "+name+" has no sequential explanation", map[string]any{"history": lines})
	}
}

// ---------------------------------------------------------------------------------------
// workloads

func c20Perso(r *mrand.Rand, pace bool) *perso.Perso {
	o := perso.Opts{DGs: []int{2, 11}, Digest: 2, DG2Size: 700}
	o.PKI.CertHash = 2
	o.AA = perso.AAOpts{Kind: 1, Bits: 1024, Hash: 2}
	if pace {
		o.Access, o.ParamID, o.Suite = perso.PACEGMOnly, 12, 1
	}
	return perso.Build(r, o)
}

func c20MobileReader(k *fw.K, round int) {
	r := k.RNG
	p := c20Perso(r, false)
	chip := &c20Chip{card: p.NewCard(uint64(round) + 3), r: mrand.New(mrand.NewPCG(r.Uint64(), 1))}
	mr := mobile.NewReader(nil, chip)
	pw, err := mobile.NewPasswordMrz(p.Zone)
	if err != nil {
		fw.LibFail("mobile-password-rejected", "mobile password constructor rejects valid input: %v", err)
	}
	var wg sync.WaitGroup
	nG := 4 + r.IntN(4)
	rec := newC20Rec(nG)
	seeds := make([]uint64, nG)
	for i := range seeds {
		seeds[i] = r.Uint64()
	}
	for g := 0; g < nG; g++ {
		wg.Add(1)
		go func(g int) {
			defer wg.Done()
			lr := mrand.New(mrand.NewPCG(seeds[g], 2))
			for n := 0; n < 4; n++ {
				time.Sleep(time.Duration(lr.IntN(1500)) * time.Microsecond)
				switch lr.IntN(5) {
				case 0, 1:
					rec.do(g, c20Op{Kind: "read"}, func() c20Out {
						chip.begin()
						doc, err := mr.ReadDocument(pw, []byte{0x3B}, nil)
						maxNe, dg2, _, ch := chip.observed()
						out := c20Out{OK: err == nil && doc != nil, MaxNe: maxNe, DG2: dg2, Chal: fmt.Sprintf("%x", ch)}
						if doc != nil {
							if js, e := doc.SummaryJson(); e == nil {
								out.Summary = fmt.Sprintf("%x", sha256.Sum256(js))[:8]
							}
						}
						return out
					})
				case 2:
					v := []int{64, 128, 200, 256}[lr.IntN(4)]
					rec.do(g, c20Op{Kind: "maxle", Val: v}, func() c20Out { mr.SetApduMaxLe(v); return c20Out{} })
				case 3:
					rec.do(g, c20Op{Kind: "skipimages"}, func() c20Out { mr.SkipImages(); return c20Out{} })
				case 4:
					ch := randBytes(lr, 8)
					own := append([]byte{}, ch...)
					rec.do(g, c20Op{Kind: "challenge", Bytes: fmt.Sprintf("%x", ch)}, func() c20Out { mr.WithAAChallenge(own); return c20Out{} })
					verifCallerOwnedInput_Challenge(own) // the buffer is the caller's again once the call has returned
				}
			}
		}(g)
	}
	wg.Wait()
	if chip.overlap.Load() > 0 {
		k.Violation("concurrency:mobile-reader:interleaved-sessions", fmt.Sprintf("two ReadDocument calls of one mobile.Reader talked to the chip at the same time (%d overlapping exchanges)", chip.overlap.Load()), nil)
		return
	}
	c20Check(k, "mobile.Reader", rec, "")
}

func c20Reader(k *fw.K, round int) {
	r := k.RNG
	p := c20Perso(r, round%3 == 0)
	chip := &c20Chip{card: p.NewCard(uint64(round) + 5), r: mrand.New(mrand.NewPCG(r.Uint64(), 1))}
	nfc := iso7816.NewNfcSession(chip)
	rd := reader.NewReader(nil, nfc, trustPool(p.Trust))
	pw, err := passwordFor(p)
	if err != nil {
		fw.LibFail("password-rejected", "password constructor rejects valid input: %v", err)
	}
	rec := newC20Rec(4)
	var wg sync.WaitGroup
	wg.Add(1)
	go func() {
		defer wg.Done()
		rec.do(0, c20Op{Kind: "read"}, func() c20Out {
			chip.begin()
			docEx, _, err := rd.ReadDocument(pw, nil, nil)
			maxNe, dg2, _, ch := chip.observed()
			out := c20Out{OK: err == nil && docEx != nil, MaxNe: maxNe, DG2: dg2, Chal: fmt.Sprintf("%x", ch)}
			if out.OK && !(docEx.Session.PassiveAuthResult != nil && docEx.Session.PassiveAuthResult.Success) {
				out.OK = false
			}
			return out
		})
	}()
	seeds := []uint64{r.Uint64(), r.Uint64(), r.Uint64()}
	for g := 1; g <= 3; g++ {
		wg.Add(1)
		go func(g int) {
			defer wg.Done()
			lr := mrand.New(mrand.NewPCG(seeds[g-1], 2))
			for n := 0; n < 6; n++ {
				// spread the setters over the duration of the read
				time.Sleep(time.Duration(lr.IntN(4000)) * time.Microsecond)
				if lr.IntN(2) == 0 {
					rec.do(g, c20Op{Kind: "skipimages"}, func() c20Out { rd.SkipImages(); return c20Out{} })
				} else {
					ch := randBytes(lr, 8)
					own := append([]byte{}, ch...)
					rec.do(g, c20Op{Kind: "challenge", Bytes: fmt.Sprintf("%x", ch)}, func() c20Out { rd.WithAAChallenge(own); return c20Out{} })
					verifCallerOwnedInput_Challenge(own)
				}
			}
		}(g)
	}
	wg.Wait()
	c20Check(k, "reader.Reader", rec, "")
}

// a genuine export with AA evidence (nonce known), produced once per process
var c20Blob struct {
	once  sync.Once
	blob  []byte
	nonce string
	trust [][]byte
}

func c20Export() {
	c20Blob.once.Do(func() {
		r := mrand.New(mrand.NewPCG(20, 20))
		p := c20Perso(r, false)
		card := p.NewCard(9)
		res := liveRead(p, card, liveOpts{maxLe: 256}, nil)
		if res.err != nil || res.docEx == nil || res.docEx.Session.ActiveAuthResult == nil || res.docEx.Session.ActiveAuthResult.Evidence == nil {
			fw.LibFail("genuine-read-failed", "cannot read the conforming chip for the verifier workload: %v", res.err)
		}
		b, err := res.docEx.ToCbor()
		if err != nil {
			fw.LibFail("export-failed", "ToCbor: %v", err)
		}
		c20Blob.blob, c20Blob.trust = b, p.Trust
		c20Blob.nonce = fmt.Sprintf("%x", res.docEx.Session.ActiveAuthResult.Evidence.Nonce)
	})
}

func c20Verifier(k *fw.K, round int, viaMobile bool) {
	c20Export()
	r := k.RNG
	nonceBytes := func() []byte {
		var b []byte
		fmt.Sscanf(c20Blob.nonce, "%x", &b)
		return b
	}()
	var verify func() (bool, bool) // (ok, nonce mismatch error)
	var setCh func([]byte)
	name := "verifier.Verifier"
	if viaMobile {
		name = "mobile.Verifier"
		v := mobile.NewVerifier()
		verify = func() (bool, bool) {
			_, err := v.Verify(c20Blob.blob)
			return err == nil, err != nil && strings.Contains(err.Error(), "nonce mismatch")
		}
		setCh = func(c []byte) { v.WithAAChallenge(c) }
	} else {
		v := verifier.NewVerifier(trustPool(c20Blob.trust))
		verify = func() (bool, bool) {
			_, err := v.Verify(c20Blob.blob)
			return err == nil, err != nil && strings.Contains(err.Error(), "nonce mismatch")
		}
		setCh = func(c []byte) { v.WithAAChallenge(c) }
	}
	var wg sync.WaitGroup
	nG := 4 + r.IntN(4)
	rec := newC20Rec(nG)
	seeds := make([]uint64, nG)
	for i := range seeds {
		seeds[i] = r.Uint64()
	}
	for g := 0; g < nG; g++ {
		wg.Add(1)
		go func(g int) {
			defer wg.Done()
			lr := mrand.New(mrand.NewPCG(seeds[g], 2))
			for n := 0; n < 4; n++ {
				time.Sleep(time.Duration(lr.IntN(800)) * time.Microsecond)
				if lr.IntN(3) != 0 {
					rec.do(g, c20Op{Kind: "verify"}, func() c20Out {
						ok, mism := verify()
						return c20Out{OK: ok, Mism: mism}
					})
				} else {
					ch := randBytes(lr, 8)
					if lr.IntN(2) == 0 {
						ch = nonceBytes // the matching challenge
					}
					own := append([]byte{}, ch...)
					rec.do(g, c20Op{Kind: "challenge", Bytes: fmt.Sprintf("%x", ch)}, func() c20Out { setCh(own); return c20Out{} })
					verifCallerOwnedInput_Challenge(own)
				}
			}
		}(g)
	}
	wg.Wait()
	c20Check(k, name, rec, c20Blob.nonce)
}

// independent readers / verifiers sharing one trust store
func c20SharedPool(k *fw.K, round int) {
	r := k.RNG
	var persos []*perso.Perso
	var all [][]byte
	for i := 0; i < 3; i++ {
		p := c20Perso(r, false)
		persos = append(persos, p)
		all = append(all, p.Trust...)
	}
	gp := trustPool(all)
	var pool cms.CertPool = gp
	if round%2 == 1 {
		cp := &cms.CombinedCertPool{}
		cp.AddCertPool(trustPool(all[:1]))
		cp.AddCertPool(trustPool(all[1:]))
		pool = cp
	}
	c20Export()
	type result struct {
		kind string
		ok   bool
		sum  string
	}
	n := 12
	results := make([]result, n)
	var wg sync.WaitGroup
	seeds := make([]uint64, n)
	for i := range seeds {
		seeds[i] = r.Uint64()
	}
	for g := 0; g < n; g++ {
		wg.Add(1)
		go func(g int) {
			defer wg.Done()
			if g%3 == 2 {
				res, err := verifier.NewVerifier(pool).Verify(c20Blob.blob)
				results[g] = result{kind: "verify", ok: err == nil && res != nil}
				if res != nil {
					results[g].sum = fmt.Sprintf("%v/%v", res.Summary().DataTrusted, res.Summary().ChipAuthenticity)
				}
				return
			}
			p := persos[g%3]
			chip := &c20Chip{card: p.NewCard(seeds[g]), r: mrand.New(mrand.NewPCG(seeds[g], 4))}
			nfc := iso7816.NewNfcSession(chip)
			rd := reader.NewReader(nil, nfc, pool)
			pw, _ := passwordFor(p)
			docEx, _, err := rd.ReadDocument(pw, nil, nil)
			results[g] = result{kind: "read", ok: err == nil && docEx != nil}
			if docEx != nil {
				results[g].sum = fmt.Sprintf("%v/%v", docEx.Summary().DataTrusted, docEx.Summary().ChipAuthenticity)
			}
		}(g)
	}
	wg.Wait()
	k.AddEvals(int64(n))
	k.Distinct(fmt.Sprintf("shared|%d|%v", round, pool != cms.CertPool(gp)))
	for g, res := range results {
		want := "true/" + document.ChipAuthStatus(document.CHIP_AUTH_STATUS_AA).String()
		if res.kind == "verify" {
			// the exported document's issuer is not in this pool: lone-call result is untrusted
			want = "false/" + document.ChipAuthStatus(document.CHIP_AUTH_STATUS_NONE).String()
		}
		if !res.ok || res.sum != want {
			k.Violation("concurrency:shared-pool:result-differs:"+res.kind, fmt.Sprintf("call %d (%s) sharing a trust store returned %v %q, a lone call returns %q", g, res.kind, res.ok, res.sum, want), nil)
			return
		}
	}
	k.Count("shared_pool_rounds_ok")
}

// cold start: runs in a fresh child process (VERIF_C20_COLD=1)
type c20ColdResult struct {
	Loads     int64  `json:"loads"`
	Errors    int    `json:"errors"`
	Pools     int    `json:"pools"`
	Calls     int    `json:"calls"`
	SampleOK  int    `json:"sample_ok"`
	VerifyOK  int    `json:"verify_ok"`
	Procs     int    `json:"procs"`
	BlobError string `json:"blob_error,omitempty"`
}

// C20ColdChild is the body of the fresh child process of the cold-start workload.
func C20ColdChild() {
	procs := 2
	fmt.Sscanf(os.Getenv("VERIF_C20_PROCS"), "%d", &procs)
	runtime.GOMAXPROCS(procs)
	var counter atomic.Int64
	restore := cms.VerifCountMasterListLoads(&counter)
	defer restore()
	blob, _ := os.ReadFile(os.Getenv("VERIF_C20_BLOB"))
	var res c20ColdResult
	res.Procs = procs
	var mu sync.Mutex
	pools := map[string]bool{}
	var wg sync.WaitGroup
	start := make(chan struct{})
	for g := 0; g < 32; g++ {
		wg.Add(1)
		go func(g int) {
			defer wg.Done()
			<-start
			var err error
			switch g % 3 {
			case 0:
				err = mobile.PreloadCscaCertPool()
			case 1:
				var d *mobile.Document
				d, err = mobile.NewSampleDocument()
				if err == nil && d != nil {
					mu.Lock()
					res.SampleOK++
					mu.Unlock()
				}
			case 2:
				var d *mobile.Document
				d, err = mobile.NewVerifier().Verify(blob)
				if err == nil && d != nil {
					mu.Lock()
					res.VerifyOK++
					mu.Unlock()
				}
			}
			p := mobile.VerifCscaCertPool()
			mu.Lock()
			res.Calls++
			if err != nil {
				res.Errors++
			}
			pools[fmt.Sprintf("%p", p)] = true
			mu.Unlock()
		}(g)
	}
	close(start)
	wg.Wait()
	res.Loads, res.Pools = counter.Load(), len(pools)
	b, _ := json.Marshal(res)
	fmt.Println("C20COLD " + string(b))
}

func c20Cold(k *fw.K, round int) {
	c20Export()
	blobPath := fmt.Sprintf("%s/c20-blob-%d-%d", os.TempDir(), os.Getpid(), round)
	if err := os.WriteFile(blobPath, c20Blob.blob, 0o600); err != nil {
		fw.Bug("write blob: %v", err)
	}
	defer os.Remove(blobPath)
	procs := []int{2, 4, 16}[round%3]
	cmd := exec.Command(os.Args[0], "C20")
	cmd.Env = append(os.Environ(), "VERIF_C20_COLD=1", fmt.Sprintf("VERIF_C20_PROCS=%d", procs), "VERIF_C20_BLOB="+blobPath)
	out, err := cmd.CombinedOutput()
	var res c20ColdResult
	found := false
	for _, line := range strings.Split(string(out), "\n") {
		if strings.HasPrefix(line, "C20COLD ") {
			if json.Unmarshal([]byte(line[8:]), &res) == nil {
				found = true
			}
		}
	}
	if err != nil || !found {
		fw.LibFail("cold-start-child-crashed", "the cold-start child process (32 concurrent first uses of the built-in trust store) did not finish: %v\n%s", err, tailStr(string(out), 1500))
	}
	k.AddEvals(int64(res.Calls))
	k.Distinct(fmt.Sprintf("cold|%d|%d", round, procs))
	k.Count("cold_start_rounds")
	det := map[string]any{"result": res}
	if res.Loads != 3 {
		k.Violation("concurrency:trust-store-loaded-more-than-once", fmt.Sprintf("the three built-in master-list loaders ran %d times in total during a cold start with 32 concurrent callers (expected 3)", res.Loads), det)
		return
	}
	if res.Pools != 1 {
		k.Violation("concurrency:several-trust-store-instances", fmt.Sprintf("concurrent callers observed %d different built-in pools", res.Pools), det)
		return
	}
	if res.Errors != 0 {
		k.Violation("concurrency:cold-start-errors", fmt.Sprintf("%d of %d concurrent cold-start calls failed", res.Errors, res.Calls), det)
		return
	}
	k.Count("cold_start_rounds_ok")
	if round == 0 {
		k.Sample("cold-start", det)
	}
}

func tailStr(s string, n int) string {
	if len(s) > n {
		return s[len(s)-n:]
	}
	return s
}

func runC20(c *fw.Ctx) {
	rounds := c.Pick(16, 1200)
	type wl struct {
		name string
		f    func(k *fw.K, round int)
	}
	wls := []wl{
		{"mobile-reader", c20MobileReader},
		{"reader", c20Reader},
		{"verifier", func(k *fw.K, r int) { c20Verifier(k, r, false) }},
		{"mobile-verifier", func(k *fw.K, r int) { c20Verifier(k, r, true) }},
		{"shared-pool", c20SharedPool},
	}
	for _, w := range wls {
		w := w
		c.Cases(rounds, func(i int) string { return fmt.Sprintf("%s|round=%d", w.name, i) }, func(i int, k *fw.K) {
			prev := runtime.GOMAXPROCS([]int{2, 4, 16}[i%3])
			defer runtime.GOMAXPROCS(prev)
			k.Nontrivial("")
			w.f(k, i)
		})
	}
	// client kind "lister": results of accessors and buffers passed in are caller-owned
	listers := []wl{
		{"lister", c20Lister},
		{"mobile-lister", c20MobileLister},
	}
	for wi, w := range listers {
		w := w
		n := []int{c.Pick(8, 400), c.Pick(3, 48)}[wi]
		c.Cases(n, func(i int) string { return fmt.Sprintf("%s|round=%d", w.name, i) }, func(i int, k *fw.K) {
			prev := runtime.GOMAXPROCS([]int{4, 16, 2}[i%3])
			defer runtime.GOMAXPROCS(prev)
			k.Nontrivial("")
			w.f(k, i)
		})
	}
	// setters called from another thread at every point of one read (checks/c20_timed.go)
	plans := c20tPlans(c)
	c.Cases(len(plans), func(i int) string { return fmt.Sprintf("timed-setters|plan=%d %s", i, plans[i]) }, func(i int, k *fw.K) {
		prev := runtime.GOMAXPROCS([]int{4, 16, 2}[i%3])
		defer runtime.GOMAXPROCS(prev)
		k.Nontrivial("")
		c20TimedSetters(k, i, plans[i])
	})
	cold := c.Pick(3, 60)
	c.Cases(cold, func(i int) string { return fmt.Sprintf("cold-start|round=%d", i) }, func(i int, k *fw.K) {
		k.Nontrivial("")
		c20Cold(k, i)
	})
}
