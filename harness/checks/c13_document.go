package checks

import (
	"fmt"
	"sort"

	"verifharness/chipsim"
	"verifharness/fw"
	"verifharness/perso"
)

// C13, a slice at the level of reader.ReadDocument: a whole personalised chip (the
// configurations of C11: BAC, PACE, PACE-CAM, with AA / CA, and chips without access
// control) from which some of the files its EF.SOD lists have been removed, so that the read
// is a sequence of ReadFile calls on one session in which some SELECT EF commands are
// answered 6A82 (or 6283) between successful reads. Oracle: every file the document holds is
// byte-identical to the chip's file of that name; no data for a file the chip does not have;
// when the read ends without an error every stored, listed, supported data group is there.

func c13DocumentVariants(quick bool) int {
	if quick {
		return 6
	}
	return 20
}

func c13RunDocument(k *fw.K, ci, variant int) {
	pr := fw.NewRNG(int64(ci)+77, "c13-document-perso")
	p := perso.Build(pr, c11Config(pr, ci))
	card := p.NewCard(uint64(ci) + 5)
	if c11IsOpen(ci) {
		card.AuthRequired, card.BAC = false, nil
	}
	var dgs []int
	for n := range p.DGFiles {
		dgs = append(dgs, n)
	}
	sort.Ints(dgs)
	removed := map[string]bool{}
	remove := func(n int) {
		delete(card.LDS, chipsim.FidDG(n))
		removed[fmt.Sprintf("DG%d", n)] = true
	}
	r := k.RNG
	switch {
	case variant < len(dgs) && variant < 4:
		remove(dgs[(variant+ci)%len(dgs)])
	case variant == 4:
		// every second listed file
		for j, n := range dgs {
			if j%2 == ci%2 {
				remove(n)
			}
		}
	default:
		for _, n := range dgs {
			if r.IntN(3) == 0 {
				remove(n)
			}
		}
		if r.IntN(4) == 0 {
			delete(card.LDS, chipsim.FidCOM)
			removed["COM"] = true
		}
	}
	deactivated := variant%3 == 2
	if deactivated {
		// the chip reports the removed files as deactivated (6283) instead of not found
		card.SelectEFStatus = func(fid uint16, stored bool) (uint16, bool, bool) {
			if !stored && fid >= 0x0101 && fid <= 0x011E {
				return 0x6283, false, true
			}
			return 0, false, false
		}
	}
	var names []string
	for name := range removed {
		names = append(names, name)
	}
	sort.Strings(names)
	desc := fmt.Sprintf("config=%d access=%v removed=%v deactivated=%v", ci, p.Opts.Access, names, deactivated)
	k.Nontrivial("document|" + desc)
	res := liveRead(p, card, liveOpts{maxLe: 256}, nil)
	selects, notFound := 0, 0
	for _, ev := range card.Events {
		if ev.Cmd != nil && ev.Cmd.INS == 0xA4 && ev.Cmd.P1 == 0x02 {
			selects++
			if ev.SW == 0x6A82 || ev.SW == 0x6283 {
				notFound++
			}
		}
	}
	det := func() map[string]any {
		return map[string]any{"case": desc, "err": fmt.Sprint(res.err), "select_ef_commands": selects, "answered_not_found": notFound}
	}
	k.Count("document_reads")
	k.CountN("document_select_ef_answered_not_found", int64(notFound))
	if len(removed) > 0 && notFound > 0 {
		k.Count("document_reads_with_listed_files_absent")
	}
	if res.err != nil {
		k.Count("document_read_ended_with_error")
	}
	if res.docEx == nil {
		return
	}
	d := &res.docEx.Document
	for _, name := range []string{"CardAccess", "CardSecurity", "SOD", "COM", "DG1", "DG2", "DG7", "DG11", "DG12", "DG13", "DG14", "DG15", "DG16"} {
		got := docFile(d, name)
		if got == nil {
			continue
		}
		if removed[name] {
			k.Violation("document:data-for-absent-file:"+name, fmt.Sprintf("the document holds %d bytes for %s, which the chip does not have", len(got), name), det())
			return
		}
		if !bytesEq(got, chipFile(p, name)) {
			k.Violation("document:file-differs:"+name, fmt.Sprintf("%s returned with %d bytes that differ from the chip's %d-byte file", name, len(got), len(chipFile(p, name))), det())
			return
		}
		k.Count("document_files_exact")
	}
	if res.err != nil {
		return
	}
	for _, n := range supportedDGs {
		name := fmt.Sprintf("DG%d", n)
		if _, ok := p.DGFiles[n]; ok && !removed[name] && docFile(d, name) == nil {
			k.Violation("document:file-missing-although-stored:"+name, fmt.Sprintf("%s is stored and listed, the read ended without an error and without the file", name), det())
			return
		}
	}
	k.Count("document_read_without_error_all_stored_files_exact")
}
