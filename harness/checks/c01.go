package checks

import (
	"crypto/sha256"
	"encoding/hex"
	"fmt"
	mrand "math/rand/v2"
	"time"

	"github.com/gmrtd/gmrtd/cms"
	"github.com/gmrtd/gmrtd/document"
	"github.com/gmrtd/gmrtd/passiveauth"

	"verifharness/ecref"
	"verifharness/fw"
	"verifharness/issuer"
	"verifharness/ldsgen"
	"verifharness/refverify"
)

// C01 - passive authentication accepts only CSCA-rooted, hash-consistent documents.
// Oracle: library accepts => the reference conditions of the statement hold
// (refverify.PA). Genuine bases must be accepted by both.

func init() {
	register(&fw.Spec{
		ID:    "C01",
		Level: "exploration",
		Rule: "base = one genuine document from the independent issuer (RSA PKCS#1 / PSS, ECDSA on several curves, SHA-1..512, with or without CardSecurity); evaluation = one input (SOD, data groups, CardSecurity, trust store) given to passiveauth.PassiveAuth: (a) single-bit flips swept over the SOD (every byte in thorough), every data group, CardSecurity and every trust-store certificate; (b) semantic forgeries (re-signed by an untrusted signer, DS under an untrusted CSCA copying name and key identifier, swapped DS certificate, hash list altered with/without recomputed messageDigest, altered / injected / mis-numbered data group, DS without digitalSignature, anchor without CA flag / keyCertSign, DS or anchor outside validity by one second, anchor of another country, DS country differing from DG1, anchor removed or replaced by a same-identifier impostor, security object carrying the rogue issuer of its own signer / a rogue twin of the anchor / a self-signed CA signer, forged master lists incl. lists that carry the issuer of their own signer in the certificates field or in the signed list); (c) byte mutations of forgeries; (d) wrong-country documents by MRZ issuing state: genuine in every other respect and signed below a trusted CSCA, DG1 naming a special ICAO code that is no ISO 3166-1 country, an unassigned code, a mis-shaped field or another country (all of ISO 3166-1 in thorough), with one or three countries in the store; " +
			"oracle: accepted => reference conditions hold; non-trivial = input differs from the genuine base; distinct = (base, mutation) hash",
		MinEvaluations: 5000,
		// broken-harness guard only (a hang is no verdict for C01): one thorough base case is
		// ~3-4 minutes of CPU and exceeded the default 900 s on a machine at load average 600+
		HangSeconds: 3600,
		Assumptions: []string{
			"reference = the statement's conditions only (refverify.PA on the harness's BER reader and primitives); signature validity is judged leniently (any supported digest, explicit EC parameters resolved by prime, alternative-curve fallback) so that correct code is never flagged",
			"mutations that land in unsigned regions may legitimately stay accepted; they are counted as accepted_still_valid",
			"forging signatures is out of reach; the monitor checks the plumbing around the primitives",
		},
		Run: runC01,
	})
}

type c01Input struct {
	sod      []byte
	cardSec  []byte
	dgs      map[int][]byte
	trust    [][]byte
	dg1State string // alpha-3
}

func (in c01Input) clone() c01Input {
	out := c01Input{sod: append([]byte{}, in.sod...), dg1State: in.dg1State, dgs: map[int][]byte{}}
	if in.cardSec != nil {
		out.cardSec = append([]byte{}, in.cardSec...)
	}
	for n, b := range in.dgs {
		out.dgs[n] = append([]byte{}, b...)
	}
	for _, t := range in.trust {
		out.trust = append(out.trust, append([]byte{}, t...))
	}
	return out
}

// c01Lib runs the library; parse failures count as rejection.
func c01Lib(in c01Input) (accepted bool, note string) {
	doc := &document.Document{}
	var err error
	if doc.Mf.Lds1.Sod, err = document.NewSOD(in.sod); err != nil || doc.Mf.Lds1.Sod == nil {
		return false, "NewSOD"
	}
	for n, b := range in.dgs {
		if err := doc.NewDG(n, b); err != nil {
			return false, fmt.Sprintf("NewDG(%d)", n)
		}
	}
	if in.cardSec != nil {
		if doc.Mf.CardSecurity, err = document.NewCardSecurity(in.cardSec); err != nil {
			return false, "NewCardSecurity"
		}
	}
	pool := &cms.GenericCertPool{}
	for _, t := range in.trust {
		if err := pool.Add(t); err != nil {
			return false, "pool.Add"
		}
	}
	res, err := passiveauth.PassiveAuth(doc, pool)
	if err != nil || res == nil || !res.Success {
		return false, fmt.Sprint(err)
	}
	return true, ""
}

// c01Fingerprint is what the LIBRARY's parsers read from an input, reduced to the values
// passive authentication depends on. It is only compared between a mutated input and the
// genuine base it came from: equal fingerprints mean the library verified exactly the
// genuine content (Go's encoding/asn1 ignores, for instance, the length of an EXPLICIT
// wrapper, so some byte changes do not change what is parsed).
func c01Fingerprint(in c01Input) (string, bool) {
	h := sha256.New()
	w := func(label string, b []byte) { fmt.Fprintf(h, "%s:%d:", label, len(b)); h.Write(b) }
	sdPrint := func(label string, sd *cms.SignedData) {
		w(label+".ct", []byte(sd.Content.EContentType.String()))
		w(label+".content", sd.Content.EContent)
		w(label+".certs", sd.Certificates.Bytes)
		for _, si := range sd.SignerInfos {
			w(label+".dalg", []byte(si.DigestAlgorithm.Algorithm.String()))
			w(label+".attrs", si.AuthenticatedAttributes.SetOfAsnBytes())
			w(label+".salg", []byte(si.DigestEncryptionAlgorithm.Algorithm.String()))
			w(label+".sparams", si.DigestEncryptionAlgorithm.Parameters.FullBytes)
			w(label+".sig", si.EncryptedDigest)
		}
	}
	sod, err := document.NewSOD(in.sod)
	if err != nil || sod == nil {
		return "", false
	}
	sdPrint("sod", sod.SD)
	if in.cardSec != nil {
		cs, err := document.NewCardSecurity(in.cardSec)
		if err != nil || cs == nil {
			return "", false
		}
		sdPrint("cs", cs.SD)
	}
	for n := 1; n <= 16; n++ {
		if b, ok := in.dgs[n]; ok {
			w(fmt.Sprintf("dg%d", n), b)
		}
	}
	for _, t := range in.trust {
		certs, err := cms.ParseCertificates(t)
		if err != nil {
			return "", false
		}
		for _, c := range certs {
			tb := c.TbsCertificate
			w("t.ver", []byte{byte(tb.Version)})
			if tb.SerialNumber != nil {
				w("t.serial", tb.SerialNumber.Bytes())
			}
			w("t.issuer", tb.Issuer.FullBytes)
			w("t.nb", tb.Validity.NotBefore.FullBytes)
			w("t.na", tb.Validity.NotAfter.FullBytes)
			w("t.subject", tb.Subject.FullBytes)
			w("t.spki", tb.SubjectPublicKeyInfo.FullBytes)
			for _, e := range tb.Extensions {
				w("t.ext", e.Raw)
			}
		}
	}
	return hex.EncodeToString(h.Sum(nil)), true
}

func c01Ref(in c01Input) (ok bool, why string, unknown bool) {
	pin := refverify.PAInput{SOD: in.sod, CardSecurity: in.cardSec, DGs: in.dgs, Store: in.trust}
	if dg1, okk := in.dgs[1]; okk && dg1 != nil {
		pin.DG1Present = true
		// issuing state: characters 3..5 of the MRZ inside 61 L 5F1F L
		if st, found := c01DG1State(dg1); found {
			if a2, ok2 := refverify.StateAlpha2(st); ok2 {
				pin.DG1State = a2
			} else {
				// readable, but no country under the documented rule (ISO 3166-1 alpha-3 or 'D')
				pin.DG1StateRaw = &st
			}
		}
	}
	return refverify.PA(pin)
}

func c01DG1State(dg1 []byte) (string, bool) {
	for i := 0; i+3 < len(dg1); i++ {
		if dg1[i] == 0x5F && dg1[i+1] == 0x1F {
			l := int(dg1[i+2])
			off := i + 3
			if l == 0x81 {
				l, off = int(dg1[i+3]), i+4
			}
			if off+5 <= len(dg1) && off+l <= len(dg1) {
				return string(dg1[off+2 : off+5]), true
			}
		}
	}
	return "", false
}

type c01Base struct {
	in       c01Input
	pki      *issuer.PKI
	p        c09Profile
	files    map[int][]byte
	lds      issuer.LDSSpec
	country  [2]string
	st       time.Time
	cscaName issuer.Name
	mrz      ldsgen.MRZFields
}

// c01BuildBase issues a genuine document and keeps what forgeries need.
func c01BuildBase(r *mrand.Rand, i int) *c01Base {
	b := &c01Base{}
	var p c09Profile
	// reduced matrix: key kinds rotate, everything DER
	kinds := [][2]int{{0, 0}, {3 + 4, 3 + 4}, {0, 3 + 5}, {3 + 10, 3 + 10}, {3 + 9, 0}, {1, 3 + 4}, {3 + 5, 3 + 5}, {3 + 4, 3 + 0}, {0, 0}, {3 + 7, 3 + 7}, {3 + 2, 3 + 2}, {3 + 6, 3 + 8}}
	kk := kinds[i%len(kinds)]
	p.cscaKind, p.dsKind = kk[0], kk[1]
	p.cscaPSS, p.dsPSS = (i/len(kinds))%2 == 1, i%3 == 1
	p.dsExplicit, p.cscaExplicit = i%2 == 0, i%4 == 1
	p.digest = issuer.AllHashes[i%5]
	p.certHash = issuer.AllHashes[1+i%4]
	p.bySKI = i%2 == 1
	p.ldsV1 = i%3 == 0
	p.timeMode = 1
	p.cardSecurity = i%3 == 2
	p.country = i % len(c09Countries)
	b.p = p
	cc := c09Countries[p.country]
	b.country = cc
	b.cscaName = issuer.SimpleName(cc[1], "Ministry", "CSCA "+cc[0])
	o := issuer.PKIOpts{Country: cc[1], CSCAKey: c09Key(r, p.cscaKind, p.cscaExplicit), DSKey: c09Key(r, p.dsKind, p.dsExplicit), CSCAPSS: p.cscaPSS, DSPSS: p.dsPSS, CertHash: p.certHash, CSCAName: b.cscaName}
	o.DSName = issuer.SimpleName(cc[1], "Ministry", "DS 1")
	b.pki = issuer.NewPKI(r, o)
	b.st = issuer.BaseTime
	f := ldsgen.RandMRZ(r, ldsgen.MRZOpts{Plain: true})
	f.IssuingState, f.Nationality = cc[0], cc[0]
	b.mrz = f
	dg1, _ := ldsgen.NewDG1(r, ldsgen.DG1Opts{Fields: &f})
	b.files = map[int][]byte{1: dg1}
	b.files[2], _ = ldsgen.NewDG2(r, ldsgen.DG2Opts{Templates: 1, ImagesPerTemplate: 1, ImageBytes: 40})
	b.files[11], _ = ldsgen.NewDG11(r, ldsgen.DG11Opts{})
	hashes := map[int][]byte{}
	for n, fb := range b.files {
		hashes[n] = p.digest.Sum(fb)
	}
	b.lds = issuer.LDSSpec{Hash: p.digest, DGHashes: hashes, HashNull: true}
	if p.ldsV1 {
		b.lds.Version, b.lds.LDSVer, b.lds.UniVer = 1, "0108", "040000"
	}
	b.in = c01Input{dgs: map[int][]byte{}, trust: [][]byte{b.pki.CSCACert}, dg1State: cc[0]}
	for n, fb := range b.files {
		b.in.dgs[n] = fb
	}
	b.in.sod = b.sign(r, b.pki, b.lds.DER(), nil)
	if p.cardSecurity {
		s2 := b.pki.SignerSpec(p.digest, false)
		s2.EContentType, s2.EContent, s2.SigningTime = issuer.OIDSecurityObject, issuer.QuickSecurityInfos(), &b.st
		b.in.cardSec = issuer.BuildSignedData(r, s2)
	}
	return b
}

// sign builds an EF.SOD over content with the given PKI's document signer.
func (b *c01Base) sign(r *mrand.Rand, pki *issuer.PKI, content []byte, tweak func(s *issuer.SignedDataSpec)) []byte {
	ss := pki.SignerSpec(b.p.digest, b.p.bySKI)
	ss.EContentType, ss.EContent, ss.SigningTime = issuer.OIDLDSSecurityObject, content, &b.st
	ss.DigestNull = true
	if tweak != nil {
		tweak(&ss)
	}
	return issuer.WrapSOD(issuer.BuildSignedData(r, ss))
}

// c01OtherKey draws a key of the given kind that differs from all the given keys (the
// pool of pre-generated RSA keys is small).
func c01OtherKey(r *mrand.Rand, kind int, explicit bool, not ...*issuer.Key) *issuer.Key {
	for try := 0; try < 64; try++ {
		k := c09Key(r, kind, explicit)
		same := false
		for _, n := range not {
			if n != nil && bytesEq(k.KeyID(), n.KeyID()) {
				same = true
			}
		}
		if !same {
			return k
		}
	}
	// fall back to an EC key, certainly fresh
	return issuer.NewECKey(r, ecref.ByName("P-256"))
}

type c01Forgery struct {
	name string
	in   c01Input
}

func (b *c01Base) forgeries(r *mrand.Rand) []c01Forgery {
	var out []c01Forgery
	add := func(name string, mod func(in *c01Input)) {
		in := b.in.clone()
		mod(&in)
		out = append(out, c01Forgery{name, in})
	}
	cc := b.country
	p := b.p
	content := b.lds.DER()
	// an untrusted PKI that copies the trusted CSCA's name and subject key identifier
	evilCSCA := c01OtherKey(r, p.cscaKind, p.cscaExplicit, b.pki.CSCAKey, b.pki.DSKey)
	evilDS := c01OtherKey(r, p.dsKind, p.dsExplicit, b.pki.CSCAKey, b.pki.DSKey, evilCSCA)
	evil := issuer.NewPKI(r, issuer.PKIOpts{Country: cc[1], CSCAKey: evilCSCA, DSKey: evilDS, CSCAPSS: p.cscaPSS, DSPSS: p.dsPSS, CertHash: p.certHash, CSCAName: b.cscaName, DSName: b.pki.DSName})
	add("resigned-by-untrusted-pki", func(in *c01Input) { in.sod = b.sign(r, evil, content, nil) })
	// DS issued by the untrusted CSCA but claiming the trusted key identifier
	{
		spec := evil.DSSpec
		spec.AKI = b.pki.CSCAKey.KeyID()
		cert := issuer.BuildCert(r, spec, evilCSCA)
		add("ds-under-untrusted-csca-copying-aki", func(in *c01Input) {
			in.sod = b.sign(r, evil, content, func(s *issuer.SignedDataSpec) { s.Certs = [][]byte{cert} })
		})
	}
	// the object carries the issuer of its own signer: a certificate that is only inside the
	// object itself is never a trust anchor, whatever it copies from the genuine one
	add("sod-carries-its-own-rogue-csca", func(in *c01Input) {
		in.sod = b.sign(r, evil, content, func(s *issuer.SignedDataSpec) { s.Certs = [][]byte{evil.DSCert, evil.CSCACert} })
	})
	add("sod-carries-its-own-rogue-csca-first", func(in *c01Input) {
		in.sod = b.sign(r, evil, content, func(s *issuer.SignedDataSpec) { s.Certs = [][]byte{evil.CSCACert, evil.DSCert} })
	})
	{
		// rogue CSCA copying subject AND key identifier of the trusted anchor, carried inside,
		// next to a DS that names the trusted key identifier
		ca := evil.CSCASpec
		ca.SKI, ca.AKI = b.pki.CSCAKey.KeyID(), b.pki.CSCAKey.KeyID()
		twin := issuer.BuildCert(r, ca, evilCSCA)
		ds := evil.DSSpec
		ds.AKI = b.pki.CSCAKey.KeyID()
		cert := issuer.BuildCert(r, ds, evilCSCA)
		add("sod-carries-rogue-twin-of-the-anchor", func(in *c01Input) {
			in.sod = b.sign(r, evil, content, func(s *issuer.SignedDataSpec) { s.Certs = [][]byte{cert, twin} })
		})
		add("sod-carries-rogue-csca-and-the-genuine-anchor", func(in *c01Input) {
			in.sod = b.sign(r, evil, content, func(s *issuer.SignedDataSpec) { s.Certs = [][]byte{evil.DSCert, evil.CSCACert, b.pki.CSCACert} })
		})
	}
	{
		// a self-signed signer that is its own CA
		ds := evil.DSSpec
		ds.Issuer, ds.AKI = ds.Subject, evilDS.KeyID()
		ds.BasicCons, ds.IsCA, ds.PathLen = true, true, 0
		ds.KeyUsage = issuer.KUDigitalSignature | issuer.KUKeyCertSign
		ds.Scheme = issuer.SchemeFor(evilDS, p.dsPSS)
		cert := issuer.BuildCert(r, ds, evilDS)
		add("sod-signed-by-selfsigned-ca-signer", func(in *c01Input) {
			in.sod = b.sign(r, evil, content, func(s *issuer.SignedDataSpec) {
				s.Certs, s.SIDIssuerDER = [][]byte{cert}, ds.Subject.DER()
			})
		})
	}
	// swapped DS certificate: a valid certificate of the trusted CSCA, but for another key
	{
		other := c01OtherKey(r, p.dsKind, p.dsExplicit, b.pki.CSCAKey, b.pki.DSKey)
		spec := b.pki.DSSpec
		spec.Key, spec.SKI = other, other.KeyID()
		cert := issuer.BuildCert(r, spec, b.pki.CSCAKey)
		add("swapped-ds-certificate", func(in *c01Input) {
			in.sod = b.sign(r, b.pki, content, func(s *issuer.SignedDataSpec) { s.Certs = [][]byte{cert} })
		})
		// signed by the other key while the genuine certificate is embedded
		add("signed-by-other-key-genuine-cert", func(in *c01Input) {
			in.sod = b.sign(r, b.pki, content, func(s *issuer.SignedDataSpec) { s.SignerKey = other })
		})
	}
	// hash list altered
	altered := b.lds
	altered.DGHashes = map[int][]byte{}
	for n, h := range b.lds.DGHashes {
		altered.DGHashes[n] = append([]byte{}, h...)
	}
	evilDG2 := append([]byte{}, b.files[2]...)
	evilDG2[len(evilDG2)-1] ^= 0x01
	altered.DGHashes[2] = p.digest.Sum(evilDG2)
	add("hashlist-altered-stale-messagedigest", func(in *c01Input) {
		in.dgs[2] = evilDG2
		in.sod = b.sign(r, b.pki, altered.DER(), func(s *issuer.SignedDataSpec) { s.MessageDigest = p.digest.Sum(content) })
	})
	add("hashlist-altered-recomputed-digest-old-signature", func(in *c01Input) {
		in.dgs[2] = evilDG2
		// genuine signature value over the ORIGINAL attributes, new content and new messageDigest
		genuine := b.pki.SignerSpec(p.digest, p.bySKI)
		genuine.EContentType, genuine.EContent, genuine.SigningTime, genuine.DigestNull = issuer.OIDLDSSecurityObject, content, &b.st, true
		sig := c01ExtractSig(issuer.BuildSignedData(r, genuine))
		in.sod = b.sign(r, b.pki, altered.DER(), func(s *issuer.SignedDataSpec) { s.Signature = sig })
	})
	add("dg-altered", func(in *c01Input) { in.dgs[2] = evilDG2 })
	add("dg1-altered", func(in *c01Input) {
		d := append([]byte{}, in.dgs[1]...)
		d[len(d)-3] ^= 0x02
		in.dgs[1] = d
	})
	add("dg-injected-not-in-list", func(in *c01Input) {
		in.dgs[12], _ = ldsgen.NewDG12(r, ldsgen.DG12Opts{})
	})
	add("dg-hash-under-other-number", func(in *c01Input) {
		sw := b.lds
		sw.DGHashes = map[int][]byte{1: b.lds.DGHashes[1], 2: b.lds.DGHashes[11], 11: b.lds.DGHashes[2]}
		in.sod = b.sign(r, b.pki, sw.DER(), nil) // genuinely signed, but inconsistent
	})
	add("dg-empty-hash-entry", func(in *c01Input) {
		sw := b.lds
		sw.DGHashes = map[int][]byte{1: b.lds.DGHashes[1], 2: {}, 11: b.lds.DGHashes[11]}
		in.sod = b.sign(r, b.pki, sw.DER(), nil)
	})
	// key usages / CA flags
	mkPKI := func(mod func(o *issuer.PKIOpts)) *issuer.PKI {
		o := b.pki.Opts
		mod(&o)
		return issuer.NewPKI(r, o)
	}
	withPKI := func(name string, pk *issuer.PKI, st *time.Time) {
		add(name, func(in *c01Input) {
			in.trust = [][]byte{pk.CSCACert}
			in.sod = b.sign(r, pk, content, func(s *issuer.SignedDataSpec) {
				if st != nil {
					s.SigningTime = st
				}
			})
			if in.cardSec != nil {
				in.cardSec = nil
			}
		})
	}
	withPKI("ds-without-digitalsignature", mkPKI(func(o *issuer.PKIOpts) { o.DSKeyUsage = issuer.KUKeyCertSign }), nil)
	// every other usage bit alone, and all of them together, in place of digitalSignature
	for _, ku := range []struct {
		name string
		bits int
	}{{"nonrepudiation", 0x40}, {"keyencipherment", 0x20}, {"dataencipherment", 0x10}, {"keyagreement", 0x08}, {"crlsign", 0x02}, {"all-but-digitalsignature", 0x7E}} {
		ku := ku
		withPKI("ds-keyusage-"+ku.name+"-without-digitalsignature", mkPKI(func(o *issuer.PKIOpts) { o.DSKeyUsage = ku.bits }), nil)
	}
	withPKI("anchor-keyusage-all-but-keycertsign", mkPKI(func(o *issuer.PKIOpts) { o.CSCAKeyUsage = 0xFA }), nil)
	no := false
	withPKI("anchor-without-ca-flag", mkPKI(func(o *issuer.PKIOpts) { o.CSCAIsCA = &no }), nil)
	withPKI("anchor-without-keycertsign", mkPKI(func(o *issuer.PKIOpts) { o.CSCAKeyUsage = issuer.KUCRLSign }), nil)
	// validity: one second outside each bound
	sec := func(t time.Time, d int) *time.Time { x := t.Add(time.Duration(d) * time.Second); return &x }
	withPKI("ds-not-yet-valid-1s", b.pki, sec(b.pki.Opts.DSNotBefore, -1))
	withPKI("ds-expired-1s", b.pki, sec(b.pki.Opts.DSNotAfter, 1))
	{
		pk := mkPKI(func(o *issuer.PKIOpts) {
			o.CSCANotBefore, o.CSCANotAfter = b.st.AddDate(-1, 0, 0), b.st.AddDate(1, 0, 0)
			o.DSNotBefore, o.DSNotAfter = b.st.AddDate(-2, 0, 0), b.st.AddDate(5, 0, 0)
		})
		withPKI("anchor-expired-1s", pk, sec(pk.Opts.CSCANotAfter, 1))
		withPKI("anchor-not-yet-valid-1s", pk, sec(pk.Opts.CSCANotBefore, -1))
	}
	// anchor of another country with the same key and identifier
	{
		oc := c09Countries[(p.country+1)%len(c09Countries)]
		spec := b.pki.CSCASpec
		spec.Issuer = issuer.SimpleName(oc[1], "Ministry", "CSCA "+oc[0])
		spec.Subject = spec.Issuer
		foreign := issuer.BuildCert(r, spec, b.pki.CSCAKey)
		add("anchor-of-another-country-same-key", func(in *c01Input) { in.trust = [][]byte{foreign} })
	}
	// DS whose issuer names country Y while DG1 says X (whole PKI of country Y, trusted)
	{
		oc := c09Countries[(p.country+2)%len(c09Countries)]
		pk := mkPKI(func(o *issuer.PKIOpts) {
			o.Country = oc[1]
			o.CSCAName = issuer.SimpleName(oc[1], "Ministry", "CSCA "+oc[0])
			o.DSName = issuer.SimpleName(oc[1], "Ministry", "DS 1")
		})
		withPKI("issuer-country-differs-from-dg1", pk, nil)
	}
	add("anchor-removed", func(in *c01Input) { in.trust = nil })
	add("anchor-replaced-by-same-ski-impostor", func(in *c01Input) { in.trust = [][]byte{evil.CSCACert} })
	add("anchor-replaced-by-ds-certificate", func(in *c01Input) { in.trust = [][]byte{b.pki.DSCert} })
	if b.in.cardSec != nil {
		add("cardsecurity-resigned-by-untrusted-pki", func(in *c01Input) {
			s2 := evil.SignerSpec(p.digest, false)
			s2.EContentType, s2.EContent, s2.SigningTime = issuer.OIDSecurityObject, issuer.QuickSecurityInfos(), &b.st
			in.cardSec = issuer.BuildSignedData(r, s2)
		})
		add("cardsecurity-carries-its-own-rogue-csca", func(in *c01Input) {
			s2 := evil.SignerSpec(p.digest, false)
			s2.EContentType, s2.EContent, s2.SigningTime = issuer.OIDSecurityObject, issuer.QuickSecurityInfos(), &b.st
			s2.Certs = [][]byte{evil.DSCert, evil.CSCACert}
			in.cardSec = issuer.BuildSignedData(r, s2)
		})
		// CardSecurity has its own signing time: the signer must be valid at THAT time
		for name, t := range map[string]time.Time{"cardsecurity-signer-expired-at-its-own-signing-time": b.pki.Opts.DSNotAfter.Add(time.Second), "cardsecurity-signer-not-yet-valid-at-its-own-signing-time": b.pki.Opts.DSNotBefore.Add(-time.Second)} {
			tt := t
			add(name, func(in *c01Input) {
				s2 := b.pki.SignerSpec(p.digest, false)
				s2.EContentType, s2.EContent, s2.SigningTime = issuer.OIDSecurityObject, issuer.QuickSecurityInfos(), &tt
				in.cardSec = issuer.BuildSignedData(r, s2)
			})
		}
		add("cardsecurity-content-altered", func(in *c01Input) {
			// other SecurityInfos under the genuine signer, with the messageDigest of the original content
			s2 := b.pki.SignerSpec(p.digest, false)
			s2.EContentType, s2.SigningTime = issuer.OIDSecurityObject, &b.st
			s2.EContent = append([]byte{}, issuer.QuickSecurityInfos()...)
			s2.EContent[len(s2.EContent)-1] ^= 0x01 // another parameter id
			s2.MessageDigest = p.digest.Sum(issuer.QuickSecurityInfos())
			in.cardSec = issuer.BuildSignedData(r, s2)
		})
	}
	return out
}

// c01ExtractSig pulls the signature octets out of a SignedData built by the issuer.
func c01ExtractSig(ci []byte) []byte {
	sd, err := refverify.ParseSignedData(ci)
	if err != nil || len(sd.Signers) != 1 {
		fw.Bug("cannot re-read the issuer's own SignedData")
	}
	return sd.Signers[0].Sig
}

func c01Judge(k *fw.K, base int, kind string, in c01Input, genuineFP string, detail func() map[string]any) {
	k.AddEvals(1)
	acc, _ := c01Lib(in)
	if !acc {
		k.Count("rejected_" + kind)
		return
	}
	ok, why, unknown := c01Ref(in)
	if unknown {
		k.Inconclusive(fmt.Sprintf("library accepts a %s input whose DG1 issuing state the reference cannot map", kind))
		return
	}
	if ok {
		k.Count("accepted_still_valid_" + kind)
		return
	}
	if genuineFP != "" {
		if fp, okf := c01Fingerprint(in); okf && fp == genuineFP {
			// the library parsed exactly the genuine content (lenient ASN.1 reading)
			k.Count("accepted_same_parsed_content_" + kind)
			return
		}
	}
	d := detail()
	d["reference_says"] = why
	k.Violation("pa:accepts:"+kind, fmt.Sprintf("passive authentication succeeds although the reference conditions do not hold (%s): %s", kind, why), d)
}

func c01Case(c *fw.Ctx, k *fw.K, i int) {
	r := k.RNG
	b := c01BuildBase(r, i)
	k.Nontrivial(fmt.Sprintf("base|%d|%s", i, b.p.String()))
	det := func(kind, where string, pos int, in c01Input) func() map[string]any {
		return func() map[string]any {
			return map[string]any{"base_profile": b.p.String(), "mutation": kind, "where": where, "offset": pos, "sod": hexCap(in.sod, 6000), "trust0": hexCap(first2(in.trust), 3000)}
		}
	}
	// the genuine base: accepted by both
	if ok, why, _ := c01Ref(b.in); !ok {
		fw.Bug("reference rejects the harness's own genuine document: %s (%s)", why, b.p.String())
	}
	k.AddEvals(1)
	if acc, note := c01Lib(b.in); !acc {
		k.Violation("pa:genuine-rejected", fmt.Sprintf("genuine base document rejected: %s", note), det("genuine", "", 0, b.in)())
		return
	}
	k.Count("bases_accepted")
	genuineFP, okfp := c01Fingerprint(b.in)
	if !okfp {
		fw.LibFail("genuine-base-not-parseable", "the library cannot parse the genuine base it just accepted")
	}
	// (a) byte sweeps
	sweep := func(where string, buf []byte, stride int, set func(in *c01Input, v []byte)) {
		for pos := 0; pos < len(buf); pos += stride {
			v := append([]byte{}, buf...)
			p := pos
			if stride > 1 {
				p = pos + r.IntN(min(stride, len(buf)-pos))
			}
			v[p] ^= 1 << uint(r.IntN(8))
			in := b.in.clone()
			set(&in, v)
			k.Distinct(fmt.Sprintf("%d|%s|%d|%x", i, where, p, v[p]))
			c01Judge(k, i, "bitflip-"+where, in, genuineFP, det("bitflip", where, p, in))
		}
	}
	sodStride := c.Pick(3, 1)
	sweep("sod", b.in.sod, sodStride, func(in *c01Input, v []byte) { in.sod = v })
	for n := range b.in.dgs {
		nn := n
		sweep(fmt.Sprintf("dg%d", nn), b.in.dgs[nn], c.Pick(max(1, len(b.in.dgs[nn])/12), max(1, len(b.in.dgs[nn])/60)), func(in *c01Input, v []byte) { in.dgs[nn] = v })
	}
	sweep("anchor", b.in.trust[0], c.Pick(3, 1), func(in *c01Input, v []byte) { in.trust[0] = v })
	if b.in.cardSec != nil {
		sweep("cardsecurity", b.in.cardSec, c.Pick(4, 1), func(in *c01Input, v []byte) { in.cardSec = v })
	}
	// (b) semantic forgeries and (c) their byte mutations
	for _, f := range b.forgeries(r) {
		if ok, _, _ := c01Ref(f.in); ok {
			fw.Bug("reference accepts the forgery %q (%s)", f.name, b.p.String())
		}
		k.Distinct(fmt.Sprintf("%d|forgery|%s", i, f.name))
		c01Judge(k, i, "forgery:"+f.name, f.in, "", det(f.name, "forgery", 0, f.in))
		nm := c.Pick(12, 60)
		for m := 0; m < nm; m++ {
			in := f.in.clone()
			where := "sod"
			switch m % 3 {
			case 0:
				in.sod[r.IntN(len(in.sod))] ^= 1 << uint(r.IntN(8))
			case 1:
				if len(in.trust) > 0 {
					where = "anchor"
					in.trust[0][r.IntN(len(in.trust[0]))] ^= 1 << uint(r.IntN(8))
				} else {
					in.sod[r.IntN(len(in.sod))] ^= 1 << uint(r.IntN(8))
				}
			case 2:
				// two-bit mutation of the SOD
				in.sod[r.IntN(len(in.sod))] ^= 1 << uint(r.IntN(8))
				in.sod[r.IntN(len(in.sod))] ^= 1 << uint(r.IntN(8))
			}
			k.Distinct(fmt.Sprintf("%d|forgery|%s|m%d", i, f.name, m))
			c01Judge(k, i, "mutated-forgery", in, "", det(f.name+"+bitflip", where, m, in))
		}
	}
	if i < 3 {
		k.Sample("base", map[string]any{"profile": b.p.String(), "sod_bytes": len(b.in.sod), "forgeries": len(b.forgeries(r))})
	}
}

func first2(t [][]byte) []byte {
	if len(t) == 0 {
		return nil
	}
	return t[0]
}

// master lists: accepted only when signed under the supplied root
func c01MasterList(c *fw.Ctx, k *fw.K, i int) {
	r := k.RNG
	root := issuer.NewPKI(r, issuer.PKIOpts{Country: "DE", CertHash: issuer.SHA256, CSCAKey: c09Key(r, 3+4+(i%3), false), DSKey: c09Key(r, 3+4, false),
		CSCAName: issuer.SimpleName("DE", "BSI", "CSCA root"), DSName: issuer.SimpleName("DE", "BSI", "Master List Signer")})
	var certs [][]byte
	for j := 0; j < 3; j++ {
		cc := c09Countries[(i+j)%len(c09Countries)]
		p := issuer.NewPKI(r, issuer.PKIOpts{Country: cc[1], CertHash: issuer.SHA256, CSCAName: issuer.SimpleName(cc[1], "Gov", "CSCA "+cc[0])})
		certs = append(certs, p.CSCACert)
	}
	st := issuer.BaseTime
	mk := func(pk *issuer.PKI, content []byte, tweak func(s *issuer.SignedDataSpec)) []byte {
		s := pk.SignerSpec(issuer.SHA256, false)
		s.EContentType, s.EContent, s.SigningTime = issuer.OIDCscaMasterList, content, &st
		if tweak != nil {
			tweak(&s)
		}
		return issuer.BuildSignedData(r, s)
	}
	content := issuer.MasterListContent(certs)
	genuine := mk(root, content, nil)
	k.Nontrivial(fmt.Sprintf("ml|%d", i))
	k.AddEvals(1)
	pool, err := cms.CreateCertPoolFromSignedData(genuine, root.CSCACert)
	if err != nil || pool == nil {
		k.Violation("ml:genuine-rejected", fmt.Sprintf("a correctly signed master list is rejected: %v", err), map[string]any{"ml": hexCap(genuine, 4000)})
		return
	}
	if pool.Count() != len(certs) {
		k.Violation("ml:certificate-count", fmt.Sprintf("master list pool holds %d certificates, list has %d", pool.Count(), len(certs)), nil)
		return
	}
	k.Count("masterlists_accepted")
	evil := issuer.NewPKI(r, issuer.PKIOpts{Country: "DE", CertHash: issuer.SHA256, CSCAName: issuer.SimpleName("DE", "BSI", "CSCA root"), DSName: issuer.SimpleName("DE", "BSI", "Master List Signer")})
	evilCert := issuer.NewPKI(r, issuer.PKIOpts{Country: "XX", CertHash: issuer.SHA256}).CSCACert
	forg := map[string][]byte{
		"resigned-by-untrusted-signer": mk(evil, content, nil),
		"altered-certificate-set":      mk(root, issuer.MasterListContent(append(append([][]byte{}, certs...), evilCert)), func(s *issuer.SignedDataSpec) { s.MessageDigest = issuer.SHA256.Sum(content) }),
		"signature-of-other-content":   mk(root, issuer.MasterListContent(append(append([][]byte{}, certs...), evilCert)), func(s *issuer.SignedDataSpec) { s.Signature = c01ExtractSig(genuine) }),
	}
	for name, ml := range forg {
		k.AddEvals(1)
		k.Distinct(fmt.Sprintf("ml|%d|%s", i, name))
		if p2, err := cms.CreateCertPoolFromSignedData(ml, root.CSCACert); err == nil && p2 != nil {
			k.Violation("ml:accepts:"+name, "a forged master list entered the trust store: "+name, map[string]any{"ml": hexCap(ml, 4000)})
			return
		}
		k.Count("masterlist_forgery_rejected")
	}
	// root that is not the signer's issuer
	k.AddEvals(1)
	if p2, err := cms.CreateCertPoolFromSignedData(genuine, evil.CSCACert); err == nil && p2 != nil {
		k.Violation("ml:accepts:root-not-signers-issuer", "master list accepted under a root that did not issue the signer", nil)
		return
	}
	k.Count("masterlist_forgery_rejected")
	// lists that vouch for themselves (signer chain ends in a certificate carried by the list)
	if !c01MasterListSelfVouching(c, k, i, root, certs) {
		return
	}
	// bit flips over the genuine list
	for pos := 0; pos < len(genuine); pos += 1 + r.IntN(9) {
		v := append([]byte{}, genuine...)
		v[pos] ^= 1 << uint(r.IntN(8))
		k.AddEvals(1)
		p2, err := cms.CreateCertPoolFromSignedData(v, root.CSCACert)
		if err != nil || p2 == nil {
			k.Count("masterlist_bitflip_rejected")
			continue
		}
		// accepted: must still carry exactly the original certificates
		same := p2.Count() == len(certs)
		if same {
			all := p2.All()
			for j := range all {
				if !bytesEq(all[j].Raw, certs[j]) {
					same = false
				}
			}
		}
		if same {
			k.Count("masterlist_bitflip_accepted_same_certificates")
			continue
		}
		k.Violation("ml:accepts:bitflip-different-certificates", fmt.Sprintf("bit flip at offset %d accepted and the resulting pool differs from the signed list", pos), map[string]any{"offset": pos, "ml": hexCap(v, 4000)})
		return
	}
}

func runC01(c *fw.Ctx) {
	if err := ecref.SelfTest(); err != nil {
		fw.Bug("ecref self-test: %v", err)
	}
	n := c.Pick(12, 60)
	c.Cases(n, func(i int) string { return fmt.Sprintf("base|i=%d", i) }, func(i int, k *fw.K) { c01Case(c, k, i) })
	nm := c.Pick(12, 80)
	c.Cases(nm, func(i int) string { return fmt.Sprintf("masterlist|i=%d", i) }, func(i int, k *fw.K) { c01MasterList(c, k, i) })
	ns := c.Pick(12, 36)
	c.Cases(ns, func(i int) string { return fmt.Sprintf("dg1state|i=%d", i) }, func(i int, k *fw.K) { c01StateCase(c, k, i) })
}
