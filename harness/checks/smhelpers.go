package checks

import (
	"fmt"
	mrand "math/rand/v2"
	"strings"

	"github.com/gmrtd/gmrtd/iso7816"

	"verifharness/chipsim"
)

// The exported command helpers of NfcSession (GetChallenge, SelectEF, ReadFile, ...) as
// operations of a secure-messaging history. Every one of them is a way in which a command
// leaves the terminal while a session is installed, so the statements of C10 (well-formed
// protected APDU, none unprotected, counters in lockstep) and C03 (only authenticated
// answers reach the caller) quantify over them exactly as over DoAPDU.

// smHelperResult is what one helper call handed back to its caller.
type smHelperResult struct {
	err         error
	data        []byte // response data given to the caller
	hasData     bool   // the helper returns response data
	selected    bool   // SelectEF / SelectAid
	hasSelected bool
}

// smHelperCall is one generated call.
type smHelperCall struct {
	op   string // method name, "DoAPDU" for the generic exchange
	args string
	fid  uint16 // SelectEF / ReadFile
	// want returns the command the i-th APDU of the call stands for, given the status words
	// the chip answered the earlier APDUs of this call with; ok=false: the call does not
	// determine it (chunking strategy of ReadFile) and only the wire-level form is judged.
	want func(i int, prevSW []uint16) (cmd plainCmd, ok bool)
	// neFromMaxRead: the response length of want(0) is the session's max-read setting
	neFromMaxRead bool
	// okStatus lists, for a call that returned without error, the status words the chip's
	// last answer may have had (per value of selected when the helper reports it).
	okStatus func(res smHelperResult) []uint16
	call     func(nfc *iso7816.NfcSession) smHelperResult
}

func (h *smHelperCall) String() string { return h.op + "(" + h.args + ")" }

var smSuccessOnly = func(smHelperResult) []uint16 { return []uint16{0x9000} }

func one(p plainCmd) func(int, []uint16) (plainCmd, bool) {
	return func(i int, _ []uint16) (plainCmd, bool) { return p, i == 0 }
}

// single-APDU helpers first; smHelperOpsSingle of them send exactly one command.
var smHelperOps = []string{"GetChallenge", "InternalAuthenticate", "ExternalAuthenticate", "GeneralAuthenticate", "MseSetAT", "SelectEF", "SelectAid", "ReadBinaryFromOffset", "SelectMF", "ReadFile"}

const smHelperOpsSingle = 8

var smAIDs = [][]byte{
	{0xA0, 0x00, 0x00, 0x02, 0x47, 0x10, 0x01},
	{0xA0, 0x00, 0x00, 0x02, 0x47, 0x20, 0x01},
	{0xA0, 0x00, 0x00, 0x02, 0x47, 0x20, 0x02},
	{0xA0, 0x00, 0x00, 0x02, 0x47, 0x20, 0x03},
}

// genHelperCall draws one call of helper `op`. maxRead is the session's max-read setting
// when the monitor knows it (0: unknown). fids are files the chip side can serve.
func genHelperCall(r *mrand.Rand, op string, maxRead int, fids []uint16) *smHelperCall {
	h := &smHelperCall{op: op, okStatus: smSuccessOnly}
	switch op {
	case "GetChallenge":
		n := []int{8, 8, 8, 1, 16, 32, 255, 256, 257, 300}[r.IntN(10)]
		h.args = fmt.Sprint(n)
		h.want = one(plainCmd{ins: 0x84, ne: n})
		h.call = func(nfc *iso7816.NfcSession) smHelperResult {
			out, err := nfc.GetChallenge(n)
			return smHelperResult{err: err, data: out, hasData: true}
		}
	case "InternalAuthenticate":
		d := randBytes(r, []int{8, 8, 8, 1, 7, 16, 40, 200}[r.IntN(8)])
		h.args = fmt.Sprintf("%d bytes", len(d))
		h.want = one(plainCmd{ins: 0x88, data: d, ne: maxRead})
		h.neFromMaxRead = true
		h.call = func(nfc *iso7816.NfcSession) smHelperResult {
			out, err := nfc.InternalAuthenticate(append([]byte{}, d...))
			return smHelperResult{err: err, data: out, hasData: true}
		}
	case "ExternalAuthenticate":
		d := randBytes(r, []int{40, 40, 8, 16, 1, 100, 255, 256}[r.IntN(8)])
		le := []int{40, 40, 0, 8, 255, 256, 257}[r.IntN(7)]
		h.args = fmt.Sprintf("%d bytes, le=%d", len(d), le)
		h.want = one(plainCmd{ins: 0x82, data: d, ne: le})
		h.call = func(nfc *iso7816.NfcSession) smHelperResult {
			out, err := nfc.ExternalAuthenticate(append([]byte{}, d...), le)
			return smHelperResult{err: err, data: out, hasData: true}
		}
	case "GeneralAuthenticate":
		chaining := r.IntN(3) == 0
		n := []int{2, 4, 12, 67, 69, 100, 135, 230, 231, 232, 255, 256, 300}[r.IntN(13)]
		d := append([]byte{0x7C}, chipsim.BERLen(n)...)
		d = append(d, randBytes(r, n)...)
		cla := byte(0)
		if chaining {
			cla = 0x10
		}
		h.args = fmt.Sprintf("chaining=%v, %d bytes", chaining, len(d))
		h.want = one(plainCmd{cla: cla, ins: 0x86, data: d, ne: maxRead})
		h.neFromMaxRead = true
		h.call = func(nfc *iso7816.NfcSession) smHelperResult {
			out, err := nfc.GeneralAuthenticate(chaining, append([]byte{}, d...))
			return smHelperResult{err: err, data: out, hasData: true}
		}
	case "MseSetAT":
		p1 := []byte{0xC1, 0x41, 0x81}[r.IntN(3)]
		p2 := []byte{0xA4, 0xA6, 0xB6}[r.IntN(3)]
		d := randBytes(r, []int{0, 3, 12, 15, 16, 17, 40}[r.IntN(7)])
		h.args = fmt.Sprintf("%02x, %02x, %d bytes", p1, p2, len(d))
		h.want = one(plainCmd{ins: 0x22, p1: p1, p2: p2, data: d})
		h.call = func(nfc *iso7816.NfcSession) smHelperResult {
			var arg []byte
			if len(d) > 0 {
				arg = append([]byte{}, d...)
			}
			return smHelperResult{err: nfc.MseSetAT(p1, p2, arg)}
		}
	case "SelectEF":
		fid := pickFid(r, fids)
		h.fid = fid
		h.args = fmt.Sprintf("%04x", fid)
		h.want = one(plainCmd{ins: 0xA4, p1: 0x02, p2: 0x0C, data: []byte{byte(fid >> 8), byte(fid)}})
		h.okStatus = func(res smHelperResult) []uint16 {
			if res.selected {
				return []uint16{0x9000}
			}
			return []uint16{0x6A82, 0x6283} // documented: not found, and "selected file invalidated"
		}
		h.call = func(nfc *iso7816.NfcSession) smHelperResult {
			sel, err := nfc.SelectEF(fid)
			return smHelperResult{err: err, selected: sel, hasSelected: true}
		}
	case "SelectAid":
		aid := smAIDs[r.IntN(len(smAIDs))]
		if r.IntN(4) == 0 {
			aid = randBytes(r, 5+r.IntN(12))
		}
		h.args = fmt.Sprintf("%x", aid)
		h.want = one(plainCmd{ins: 0xA4, p1: 0x04, p2: 0x0C, data: aid})
		h.okStatus = func(res smHelperResult) []uint16 {
			if res.selected {
				return []uint16{0x9000}
			}
			return []uint16{0x6A82}
		}
		h.call = func(nfc *iso7816.NfcSession) smHelperResult {
			sel, err := nfc.SelectAid(append([]byte{}, aid...))
			return smHelperResult{err: err, selected: sel, hasSelected: true}
		}
	case "ReadBinaryFromOffset":
		off := []int{0, 0, 4, 255, 256, 257, 0x7FFF, r.IntN(0x8000)}[r.IntN(8)]
		n := []int{1, 4, 4, 8, 100, 231, 255, 256, 257, 1000, 65535, 65536}[r.IntN(12)]
		h.args = fmt.Sprintf("%d, %d", off, n)
		h.want = one(plainCmd{ins: 0xB0, p1: byte(off >> 8), p2: byte(off), ne: n})
		h.call = func(nfc *iso7816.NfcSession) smHelperResult {
			out, err := nfc.ReadBinaryFromOffset(off, n)
			return smHelperResult{err: err, data: out, hasData: true}
		}
	case "SelectMF":
		// ISO 7816-4: SELECT with P1=00 and an absent data field, or with the data field 3F00,
		// selects the master file; the second form is only due when the first was refused.
		h.want = func(i int, prev []uint16) (plainCmd, bool) {
			switch {
			case i == 0:
				return plainCmd{ins: 0xA4, p1: 0x00, p2: 0x0C}, true
			case i == 1 && prev[0] != 0x9000:
				return plainCmd{ins: 0xA4, p1: 0x00, p2: 0x0C, data: []byte{0x3F, 0x00}}, true
			}
			return plainCmd{}, false
		}
		h.call = func(nfc *iso7816.NfcSession) smHelperResult { return smHelperResult{err: nfc.SelectMF()} }
	case "ReadFile":
		fid := pickFid(r, fids)
		h.fid = fid
		h.args = fmt.Sprintf("%04x", fid)
		h.want = func(int, []uint16) (plainCmd, bool) { return plainCmd{}, false }
		h.okStatus = nil
		h.call = func(nfc *iso7816.NfcSession) smHelperResult {
			_, err := nfc.ReadFile(fid)
			return smHelperResult{err: err} // what the bytes must be is C13's subject
		}
	default:
		panic("smhelpers: unknown helper " + op)
	}
	return h
}

func pickFid(r *mrand.Rand, fids []uint16) uint16 {
	if len(fids) > 0 && r.IntN(4) != 0 {
		return fids[r.IntN(len(fids))]
	}
	return []uint16{0x011E, 0x011D, 0x0101, 0x010E, 0x011C, uint16(r.Uint32())}[r.IntN(6)]
}

// genericCall wraps a generated command sent through DoAPDU.
func genericCall(cmd plainCmd) *smHelperCall {
	h := &smHelperCall{op: "DoAPDU", args: cmd.String(), want: one(cmd)}
	return h
}

// smWire is one APDU as the chip side saw it during a call.
type smWire struct {
	enc                  []byte
	cla, ins, p1, p2, le int
	data                 []byte
	cmd                  *chipsim.Cmd // what the chip authenticated and decrypted
	err                  error        // why it refused
	outer                *chipsim.Cmd
	dataTag              byte
	hadDO97, do85Ind     bool
	respData             []byte
	respSW               uint16
}

// record lets the chip-side session process one APDU and notes the observations.
func (w *smWire) record(tr *funcTransceiver, chip *chipsim.SM, raw []byte) {
	w.enc = raw
	w.cla, w.ins, w.p1, w.p2, w.le = tr.last.cla, tr.last.ins, tr.last.p1, tr.last.p2, tr.last.le
	w.data = tr.last.data
	chip.LastOuter = nil
	w.cmd, w.err = chip.Unwrap(raw)
	w.outer = chip.LastOuter
	w.dataTag, w.hadDO97, w.do85Ind = chip.LastDataTag, chip.LastHadDO97, chip.LastDO85WithIndicator
}

// judge applies the statement of C10 to one APDU of a call: protected, well-formed,
// authenticated under the chip's counter and - when the call determines the command -
// decrypting to it. It returns "" or (key suffix, description).
func (w *smWire) judge(want plainCmd, haveWant bool, neKnown bool) (string, string) {
	if w.err != nil {
		reason := w.err.(*chipsim.SMError).Reason
		if w.outer != nil && w.outer.CLA&0x0C != 0x0C {
			return "unprotected-command", fmt.Sprintf("the command left the terminal without secure messaging (class %02x): %s", w.outer.CLA, hexCap(w.enc, 40))
		}
		if p, perr := chipsim.ParseCommand(w.enc); perr == nil && p.CLA&0x0C != 0x0C {
			return "unprotected-command", fmt.Sprintf("the command left the terminal without secure messaging (class %02x): %s", p.CLA, hexCap(w.enc, 40))
		}
		return "chip-rejects:" + c10Slug(reason), "chip-side reference refuses the APDU: " + reason
	}
	o := w.outer
	if o.CLA != 0x0C {
		return "class", fmt.Sprintf("class byte %02x, expected 0C", o.CLA)
	}
	if w.cla != int(o.CLA) || w.ins != int(o.INS) || w.p1 != int(o.P1) || w.p2 != int(o.P2) || !bytesEq(w.data, o.Data) || w.le != o.Ne {
		return "transceive-fields", "fields handed to Transceive differ from the encoded APDU"
	}
	if exp := chipsim.ExpectedCase(len(o.Data), o.Ne); o.Case != exp {
		return "outer-form", fmt.Sprintf("protected APDU uses ISO case %s where %s suffices", o.Case, exp)
	}
	c := w.cmd
	if w.hadDO97 != (c.Ne > 0) {
		return "do97-presence", fmt.Sprintf("DO97 present=%v for Ne=%d", w.hadDO97, c.Ne)
	}
	if len(c.Data) > 0 {
		tag := byte(0x87)
		if c.INS%2 == 1 {
			tag = 0x85
		}
		if w.dataTag != tag {
			return "data-tag", fmt.Sprintf("data object tag %02x for INS %02x", w.dataTag, c.INS)
		}
	} else if w.dataTag != 0 {
		return "data-object-without-data", "data object present for a command without data"
	}
	if !haveWant {
		return "", ""
	}
	if c.INS != want.ins || c.P1 != want.p1 || c.P2 != want.p2 {
		return "intent-mismatch:header", fmt.Sprintf("chip recovers INS/P1/P2 %02x %02x %02x, the call stands for %02x %02x %02x", c.INS, c.P1, c.P2, want.ins, want.p1, want.p2)
	}
	if !bytesEq(c.Data, want.data) {
		return "intent-mismatch:data", fmt.Sprintf("chip decrypts %d data bytes, the call stands for %d", len(c.Data), len(want.data))
	}
	if neKnown {
		if c.Ne != want.ne {
			return "intent-mismatch:ne", fmt.Sprintf("chip reads Ne=%d from DO97, the call stands for %d", c.Ne, want.ne)
		}
	} else if c.Ne == 0 {
		return "intent-mismatch:ne", "no response length conveyed for a command that expects response data"
	}
	return "", ""
}

// resultAgrees: the implication "the helper returned without error => what it handed back is
// the chip's (last) answer of this call". ans == nil: the chip produced no answer.
func (h *smHelperCall) resultAgrees(res smHelperResult, ansData []byte, ansSW uint16) (bool, string) {
	if h.okStatus != nil {
		ok := false
		allowed := h.okStatus(res)
		for _, s := range allowed {
			if s == ansSW {
				ok = true
			}
		}
		if !ok {
			var l []string
			for _, s := range allowed {
				l = append(l, fmt.Sprintf("%04x", s))
			}
			what := "success"
			if res.hasSelected {
				what = fmt.Sprintf("selected=%v", res.selected)
			}
			return false, fmt.Sprintf("%s reported %s although the chip answered %04x (only %s mean that)", h.op, what, ansSW, strings.Join(l, "/"))
		}
	}
	if res.hasData && !bytesEq(res.data, ansData) {
		return false, fmt.Sprintf("%s returned %d bytes (%s), the chip answered %d bytes (%s)", h.op, len(res.data), hexCap(res.data, 32), len(ansData), hexCap(ansData, 32))
	}
	return true, ""
}
