package checks

import (
	"encoding/hex"
	"fmt"

	"verifharness/chipsim"
	"verifharness/fw"
)

// C13, answers to READ BINARY that are not taken from the stored file: the chip selected the
// file (SELECT EF answered 9000) and then answers
//
//   - the header probe, or the n-th read, or every read from the n-th on, with a success (or
//     warning) status and NO data: a blank / unpersonalised file, an applet that returns
//     nothing for an Le it does not like;
//   - the header probe with fewer bytes than a complete header (existing deviation hdrAns,
//     here with every header form, small max-read settings, secure messaging, a prior file);
//   - the header probe with filler bytes (00, 00 00, FF, ...), or the file is blank (only 00
//     or only FF bytes).
//
// Oracle: the statement's own. A file the chip selected is never "not found"; an error is
// always acceptable; data returned for a file that answers all its reads from the stored
// bytes is exact. For filler bytes and blank files there is no stored data object to compare
// with: only "never 'not found'" is demanded there.

func c13InstallAnswers(card *chipsim.Card, cs c13Case) {
	if cs.warnNth != 0 {
		n := 0
		card.ReadAnswer = func(off, ne int, data []byte, sw uint16) ([]byte, uint16) {
			n++
			if n != cs.warnNth || len(data) == 0 {
				return data, sw
			}
			alt := append([]byte{}, data...)
			alt[len(alt)-1] ^= 0x5A
			alt[len(alt)/2] ^= 0xFF
			return alt, cs.warnSW
		}
		return
	}
	if cs.emptyNth == 0 && cs.hdrLit == "" {
		return
	}
	lit, err := hex.DecodeString(cs.hdrLit)
	if err != nil {
		fw.Bug("bad header literal %q", cs.hdrLit)
	}
	n := 0
	card.ReadAnswer = func(off, ne int, data []byte, sw uint16) ([]byte, uint16) {
		n++
		if cs.hdrLit != "" && off == 0 && ne <= 4 {
			return append([]byte{}, lit[:min(len(lit), ne)]...), 0x9000
		}
		if cs.emptyNth > 0 && (n == cs.emptyNth || (cs.emptyFrom && n > cs.emptyNth)) {
			if cs.emptySW != 0 {
				return nil, cs.emptySW
			}
			return nil, 0x9000
		}
		return data, sw
	}
}

func c13AnswerKeySuffix(cs c13Case) string {
	switch {
	case cs.emptyNth == 1:
		sw := cs.emptySW
		if sw == 0 {
			sw = 0x9000
		}
		return fmt.Sprintf(":header-read-answered-%04x-without-data", sw)
	case cs.emptyNth > 1:
		return ":later-read-answered-without-data"
	case cs.hdrLit != "":
		return ":header-read-answered-with-filler-" + cs.hdrLit
	case cs.blank == 1:
		return ":blank-file-00"
	case cs.blank == 2:
		return ":blank-file-ff"
	}
	return ""
}

// c13AnswerCounters records what the chip really answered (from its event log).
func c13AnswerCounters(k *fw.K, cs c13Case, events []chipsim.Event, data []byte, err error) {
	first := true
	sawEmptyHeader, sawEmptyLater := false, false
	for _, ev := range events {
		if ev.Cmd == nil || ev.Cmd.INS != 0xB0 {
			continue
		}
		off := int(ev.Cmd.P1)<<8 | int(ev.Cmd.P2)
		if (ev.SW == 0x9000 || ev.SW>>8 == 0x62) && len(ev.Data) == 0 {
			if first && off == 0 {
				sawEmptyHeader = true
				k.Count(fmt.Sprintf("header_read_answered_%04x_without_data", ev.SW))
				if ev.Protected {
					k.Count("header_read_answered_without_data_under_secure_messaging")
				}
			} else if !sawEmptyLater {
				sawEmptyLater = true
				k.Count("later_read_answered_without_data")
			}
		}
		first = false
	}
	if cs.hdrLit != "" {
		k.Count("header_read_answered_with_filler_bytes")
	}
	if cs.blank != 0 {
		k.Count("blank_file_read")
	}
	if sawEmptyHeader {
		switch {
		case err != nil:
			k.Count("header_read_without_data_result_error")
		case data == nil:
			k.Count("header_read_without_data_result_not_found")
		default:
			k.Count("header_read_without_data_result_data")
		}
	}
}

// c13ForeignBytesOracle: the chip selected the file and answered the header probe with
// filler bytes, or the file is blank. Whatever is returned, it is not "not found".
func c13ForeignBytesOracle(k *fw.K, cs c13Case, data []byte, err error, det func() map[string]any) {
	switch {
	case err != nil:
		k.Count("filler_or_blank_result_error")
	case data == nil:
		k.Violation("readfile:not-found-but-present"+c13AnswerKeySuffix(cs), "ReadFile returned (nil, nil) = 'not found' although the chip answered SELECT EF with 9000 and READ BINARY with data", det())
	default:
		k.Count("filler_or_blank_result_data_not_judged")
	}
}

// ---- the product, enumerated by index ----------------------------------------------------

type c13AnswerMode struct {
	emptyNth  int
	emptyFrom bool
	emptySW   uint16
	hdrLit    string
	blank     int
	hdrAns    int
}

var c13AnswerModes = []c13AnswerMode{
	{emptyNth: 1}, {emptyNth: 1, emptyFrom: true}, {emptyNth: 1, emptySW: 0x6282}, {emptyNth: 1, emptyFrom: true, emptySW: 0x6282},
	{emptyNth: 2}, {emptyNth: 2, emptyFrom: true}, {emptyNth: 3}, {emptyNth: 4, emptyFrom: true}, {emptyNth: 2, emptySW: 0x6282},
	{hdrLit: "00"}, {hdrLit: "0000"}, {hdrLit: "000000"}, {hdrLit: "00000000"}, {hdrLit: "ff"}, {hdrLit: "ffff"}, {hdrLit: "ffffffff"},
	{hdrLit: "6100"}, {hdrLit: "8000"}, {hdrLit: "7f"}, {hdrLit: "5f01"},
	{blank: 1}, {blank: 2},
	{hdrAns: 1}, {hdrAns: 2}, {hdrAns: 3},
}

var c13AnswerTransports = []struct {
	maxRd int
	beh   string
}{{256, "all"}, {65536, "all"}, {1000, "all-noext"}, {4, "all"}, {1, "all"}, {3, "cap3"}, {256, "cap100"}, {128, "cap7"}}

var c13AnswerTotals = []int{1, 2, 3, 4, 5, 6, 7, 40, 130, 259, 300, 1000}

const c13AnswerN = 8 * 3 * 2 * 2 * 4 * 12 * 25

func c13AnswerAt(i int) (cs c13Case, ok bool) {
	if len(c13AnswerModes) != 25 || len(c13AnswerTransports) != 8 || len(c13AnswerTotals) != 12 {
		fw.Bug("c13AnswerN does not match the answer sets")
	}
	x := i
	next := func(n int) int { v := x % n; x /= n; return v }
	t := c13AnswerTransports[next(8)]
	sm := next(3)
	prior := next(2) == 1
	tagLen := 1 + next(2)
	lenForm := next(4)
	total := c13AnswerTotals[next(12)]
	m := c13AnswerModes[next(25)]
	cs = c13Case{f: c13File{tagLen: tagLen, lenForm: lenForm, total: total}, beh: c13BehaviourIndex(t.beh), maxRd: t.maxRd, sm: sm, prior: prior,
		emptyNth: m.emptyNth, emptyFrom: m.emptyFrom, emptySW: m.emptySW, hdrLit: m.hdrLit, blank: m.blank, hdrAns: m.hdrAns}
	if m.blank != 0 {
		// the header form plays no role for a blank file
		return cs, tagLen == 1 && lenForm == 0
	}
	if _, _, buildable := cs.f.headerLen(); !buildable {
		return cs, false
	}
	return cs, true
}

// quick tier: the header probe answered 9000 without data for every file form (always) plus
// a seed-determined 1/40 of the rest
func c13AnswerQuick(seed int64) []c13Case {
	var out []c13Case
	for i := 0; i < c13AnswerN; i++ {
		cs, ok := c13AnswerAt(i)
		if !ok {
			continue
		}
		core := cs.emptyNth == 1 && cs.emptySW == 0 && cs.maxRd == 256 && cs.beh == 0
		if core || c13Mix(seed+2, i)%40 == 0 {
			out = append(out, cs)
		}
	}
	return out
}

// c13WarnCases: the n-th READ BINARY delivers altered data of the right length under a status
// word that is neither 9000 nor 6282 (the two the reader takes as "data delivered"): whatever
// the status says, those bytes are not the file's, so the result is an error or the exact file.
func c13WarnCases() []c13Case {
	var out []c13Case
	for _, sw := range []uint16{0x6281, 0x6283, 0x6284, 0x6200, 0x6300, 0x63C2, 0x6400, 0x6581, 0x6100, 0x9001} {
		for nth := 1; nth <= 3; nth++ {
			for _, total := range []int{40, 300, 1000} {
				for ti, t := range []struct {
					maxRd int
					beh   string
				}{{256, "all"}, {256, "cap100"}} {
					for sm := 0; sm < 3; sm++ {
						if (int(sw)+nth+total+ti+sm)%2 == 1 && !(sw == 0x6281 && sm == 0) {
							continue // half of the product; 6281 in the clear always
						}
						cs := c13Case{f: c13File{tagLen: 1, lenForm: 2, total: total}, beh: c13BehaviourIndex(t.beh), maxRd: t.maxRd, sm: sm, warnNth: nth, warnSW: sw}
						if _, _, ok := cs.f.headerLen(); ok {
							out = append(out, cs)
						}
					}
				}
			}
		}
	}
	return out
}
