// Package checks holds one monitor per property (DESIGN.md section 5).
package checks

import (
	"sort"

	"verifharness/fw"
)

var registry []*fw.Spec

func register(s *fw.Spec) { registry = append(registry, s) }

func All() []*fw.Spec {
	sort.Slice(registry, func(i, j int) bool { return registry[i].ID < registry[j].ID })
	return registry
}
