package checks

import (
	"fmt"
	"strings"

	"github.com/gmrtd/gmrtd/iso7816"

	"verifharness/chipsim"
	"verifharness/fw"
	"verifharness/symref"
)

// C10 - protected commands are well-formed and counters stay in lockstep.
// Every APDU that reaches the transceiver while an SM session is installed is parsed by
// the strict ISO 7816-4 parser, authenticated and decrypted by the independent chip-side
// SM, and compared with the command the caller intended; counters are compared after
// every exchange, including exchanges answered with protected error statuses.

func init() {
	register(&fw.Spec{
		ID:    "C10",
		Level: "exploration",
		Rule: "case = one history of commands through NfcSession.DoAPDU with an SM session installed (suite x random keys x start counter incl. values about to wrap), every command drawn over ISO cases 1-4, odd/even INS, data lengths around block and 255/256/65535 boundaries, Ne in {0,1,..,65536}; each exchange is one evaluation: the chip-side reference must authenticate and decrypt the APDU to the intended command and both counters must agree afterwards; genuine protected responses carry 9000, the status words the library or ISO 7816-4 name, and uniformly random ones; " +
			"helpers| = one session on which the exported command helpers of NfcSession (GetChallenge, Internal/External/GeneralAuthenticate, MseSetAT, SelectMF/EF/Aid, ReadBinaryFromOffset, ReadFile) and DoAPDU are interleaved: every APDU of every call judged as above, the installed session object and its keys unchanged and counters equal after every call; " +
			"buffers| = caller-owned slices (SetSSC input wiped / refilled / counted up at once or later, one slice used for two sessions, results of SSC()/KsEnc() overwritten, SetSSC on a running session); " +
			"status| = the status word of the protected response on a three-exchange history (status alone, data + status, ordinary exchange): SW1 61..6F and 90 x SW2 00..FF with one suite each and the named ones with all suites (quick), all 65536 x 4 suites (thorough); " +
			"non-trivial = every exchange; distinct = (suite, start counter class, command shape (ins parity, Nc, Ne), response status)",
		MinEvaluations: 3000,
		Assumptions: []string{
			"chip-side SM reference validated against the ICAO 9303-11 Appendix D.4 example; DO'85' is accepted with or without the padding indicator (the property text describes the indicator form) and the form seen is reported",
			"command data whose protected form cannot fit a 65535-byte Lc is not generated",
		},
		Run: runC10,
	})
}

func c10Slug(reason string) string {
	for _, p := range []string{"outer APDU", "class", "data field", "data objects not in the form", "DO8E length", "MAC mismatch", "DO87 malformed", "DO85 malformed", "tag", "decrypted data not padded", "empty command data", "DO97 length"} {
		if strings.Contains(reason, p) {
			return strings.ReplaceAll(strings.ToLower(p), " ", "-")
		}
	}
	return "other"
}

func c10History(c *fw.Ctx, k *fw.K, i int) {
	r := k.RNG
	suite := symref.AllSuites[i%4]
	kenc, kmac := randKey(r, suite), randKey(r, suite)
	sscMode := i / 4
	ssc0 := startSSC(r, suite, sscMode)
	chip := chipsim.NewSM(suite, kenc, kmac, ssc0)
	lib := newLibSM(k, suite, kenc, kmac, ssc0)

	var respData []byte
	var respSW uint16
	var chipCmd *chipsim.Cmd
	var chipErr error
	tr := &funcTransceiver{}
	tr.f = func(raw []byte) []byte {
		chipCmd, chipErr = chip.Unwrap(raw)
		if chipErr != nil {
			return []byte{0x69, 0x88}
		}
		return chip.Wrap(respData, respSW)
	}
	nfc := iso7816.NewNfcSession(tr)
	nfc.SetSecureMessaging(lib)

	nex := c.Pick(20, 60)
	for j := 0; j < nex; j++ {
		cmd := genPlainCmd(r, true)
		if j%9 == 4 { // the four ISO cases with minimal content
			switch (j / 9) % 4 {
			case 0:
				cmd = plainCmd{ins: 0x44}
			case 1:
				cmd = plainCmd{ins: 0xB0, ne: 256}
			case 2:
				cmd = plainCmd{ins: 0xA4, p1: 2, p2: 0x0C, data: []byte{1, 0x1E}}
			case 3:
				cmd = plainCmd{ins: 0x86, data: randBytes(r, 1+r.IntN(40)), ne: 256}
			}
		}
		respData = genRespData(r, j%5 == 2)
		respSW = drawSW(r)
		if cmd.ne > 0 && len(respData) > cmd.ne {
			respData = respData[:cmd.ne]
		}
		if cmd.ne == 0 {
			respData = nil
		}
		chipCmd, chipErr = nil, nil
		before := tr.n
		k.AddEvals(1)
		shape := fmt.Sprintf("%v|ssc%d|ins%d|nc%d|ne%d|sw%04x", suite, sscMode%5, cmd.ins%2, len(cmd.data), cmd.ne, respSW)
		k.Distinct(shape)
		det := func() map[string]any {
			return map[string]any{"suite": suite.String(), "kenc": fmt.Sprintf("%x", kenc), "kmac": fmt.Sprintf("%x", kmac), "ssc0": fmt.Sprintf("%x", ssc0), "exchange": j,
				"command": cmd.String(), "data": hexCap(cmd.data, 64), "sent": hexCap(tr.last.enc, 200), "terminal_ssc": fmt.Sprintf("%x", lib.SSC()), "chip_ssc": fmt.Sprintf("%x", chip.SSC)}
		}
		rr, err := nfc.DoAPDU(cmd.capdu(), "c10")
		if tr.n != before+1 {
			k.Violation("sm:encode:transceive-count", fmt.Sprintf("DoAPDU produced %d transceive calls", tr.n-before), det())
			return
		}
		if chipErr != nil {
			reason := chipErr.(*chipsim.SMError).Reason
			k.Violation("sm:encode:chip-rejects:"+c10Slug(reason), fmt.Sprintf("chip-side reference refuses the APDU sent for %s: %s", cmd.String(), reason), det())
			return
		}
		outer := chip.LastOuter
		if outer.CLA != 0x0C {
			k.Violation("sm:encode:class", fmt.Sprintf("class byte %02x, expected 0C", outer.CLA), det())
			return
		}
		if tr.last.cla != int(outer.CLA) || tr.last.ins != int(outer.INS) || tr.last.p1 != int(outer.P1) || tr.last.p2 != int(outer.P2) || !bytesEq(tr.last.data, outer.Data) || tr.last.le != outer.Ne {
			k.Violation("sm:encode:transceive-fields", "fields handed to Transceive differ from the encoded APDU", det())
			return
		}
		if want := chipsim.ExpectedCase(len(outer.Data), outer.Ne); outer.Case != want {
			k.Violation("sm:encode:outer-form", fmt.Sprintf("protected APDU uses ISO case %s where %s suffices", outer.Case, want), det())
			return
		}
		if chipCmd.INS != cmd.ins || chipCmd.P1 != cmd.p1 || chipCmd.P2 != cmd.p2 {
			k.Violation("sm:encode:intent-mismatch:header", "INS/P1/P2 recovered by the chip differ from the intended command", det())
			return
		}
		if !bytesEq(chipCmd.Data, cmd.data) {
			k.Violation("sm:encode:intent-mismatch:data", fmt.Sprintf("chip decrypts %d data bytes, intended %d", len(chipCmd.Data), len(cmd.data)), det())
			return
		}
		if chipCmd.Ne != cmd.ne {
			k.Violation("sm:encode:intent-mismatch:ne", fmt.Sprintf("chip reads Ne=%d from DO97, intended %d", chipCmd.Ne, cmd.ne), det())
			return
		}
		if chip.LastHadDO97 != (cmd.ne > 0) {
			k.Violation("sm:encode:do97-presence", fmt.Sprintf("DO97 present=%v for Ne=%d", chip.LastHadDO97, cmd.ne), det())
			return
		}
		if len(cmd.data) > 0 {
			want := byte(0x87)
			if cmd.ins%2 == 1 {
				want = 0x85
			}
			if chip.LastDataTag != want {
				k.Violation("sm:encode:data-tag", fmt.Sprintf("data object tag %02x for INS %02x", chip.LastDataTag, cmd.ins), det())
				return
			}
			if chip.LastDataTag == 0x85 {
				if chip.LastDO85WithIndicator {
					k.Count("do85_with_padding_indicator")
				} else {
					k.Count("do85_without_padding_indicator")
				}
			}
		} else if chip.LastDataTag != 0 {
			k.Violation("sm:encode:data-object-without-data", "data object present for a command without data", det())
			return
		}
		switch {
		case !outer.Extended && outer.Ne == 256:
			k.Count("outer_le_short_00")
		case outer.Extended && outer.Ne == 65536:
			k.Count("outer_le_extended_0000")
		case outer.Ne == 0:
			k.Count("outer_le_absent")
		default:
			k.Count("outer_le_other")
		}
		k.Count("exchange_case_" + chipsim.ExpectedCase(len(cmd.data), cmd.ne))
		// response and lockstep
		if err != nil {
			k.Violation("sm:lockstep:genuine-response-rejected", fmt.Sprintf("genuine protected response (status %04x, %d bytes) rejected: %v", respSW, len(respData), err), det())
			return
		}
		if !bytesEq(rr.Data, respData) || rr.Status != respSW {
			k.Violation("sm:lockstep:wrong-response", fmt.Sprintf("DoAPDU returned %d bytes / %04x, chip sent %d bytes / %04x", len(rr.Data), rr.Status, len(respData), respSW), det())
			return
		}
		if !bytesEq(lib.SSC(), chip.SSC) {
			cls := "9000"
			if respSW != 0x9000 {
				cls = "error-status"
			}
			k.Violation("sm:lockstep:counter:after-"+cls, fmt.Sprintf("after exchange %d (status %04x) terminal counter %x, chip counter %x", j, respSW, lib.SSC(), chip.SSC), det())
			return
		}
		if respSW != 0x9000 {
			k.Count("exchange_after_protected_error_status")
		}
		if j == 1 {
			k.Sample("exchange", map[string]any{"suite": suite.String(), "command": cmd.String(), "sent": hexCap(tr.last.enc, 80), "status": fmt.Sprintf("%04x", respSW)})
		}
	}
	k.Count("histories_completed")
}

func runC10(c *fw.Ctx) {
	if err := symref.SelfTest(); err != nil {
		fw.Bug("symref self-test: %v", err)
	}
	n := c.Pick(300, 120000)
	c.Cases(n, func(i int) string { return fmt.Sprintf("history|suite=%v i=%d", symref.AllSuites[i%4], i) }, func(i int, k *fw.K) {
		k.Nontrivial("")
		c10History(c, k, i)
	})
	runC10More(c)
}
