package checks

import (
	"fmt"
	"verifharness/symref"

	"github.com/gmrtd/gmrtd/activeauth"
	"github.com/gmrtd/gmrtd/cms"
	"github.com/gmrtd/gmrtd/document"
	"github.com/gmrtd/gmrtd/iso7816"
	"github.com/gmrtd/gmrtd/mobile"
	"github.com/gmrtd/gmrtd/verifier"

	"verifharness/chipsim"
	"verifharness/ecref"
	"verifharness/fw"
	"verifharness/issuer"
	"verifharness/perso"
)

// C07, "a caller-supplied challenge is the one transmitted and recorded": the challenge is
// the VALUE handed over, whatever the caller does with its buffer afterwards. Callers wipe
// scratch buffers, fill them with the next session's random, or carve them out of a larger
// array. Each case hands over a buffer, changes it in one of these ways, runs the protocol
// and compares what the chip received and what the evidence records with the value at the
// time of the call - through activeauth.WithChallenge, reader.WithAAChallenge,
// mobile.Reader.WithAAChallenge, and (offline side of the same sentence) the challenge given
// to verifier.Verifier / mobile.Verifier.

var c07BufModes = []string{"zeroed", "overwritten", "one-bit-changed", "backing-array-refilled", "appended-into", "reused-for-second-object", "overwritten-after-run"}

// c07Buffer returns the caller's buffer holding orig and a function that applies the mode.
func c07Buffer(k *fw.K, mode string, orig []byte) (buf []byte, disturb func()) {
	r := k.RNG
	backing := make([]byte, 24)
	buf = backing[:8]
	if mode == "zeroed" || mode == "overwritten" || mode == "one-bit-changed" {
		buf = make([]byte, 8)
	}
	copy(buf, orig)
	other := func(n int) []byte {
		for {
			b := randBytes(r, n)
			if !bytesEq(b[:8], orig) {
				return b
			}
		}
	}
	switch mode {
	case "zeroed":
		disturb = func() { clear(buf) }
	case "overwritten", "reused-for-second-object", "overwritten-after-run":
		disturb = func() { copy(buf, other(8)) }
	case "one-bit-changed":
		p, b := r.IntN(8), uint(r.IntN(8))
		disturb = func() { buf[p] ^= 1 << b }
	case "backing-array-refilled":
		disturb = func() { copy(backing, other(24)) }
	case "appended-into":
		// the caller truncates and appends: the tail of the buffer is overwritten in place
		disturb = func() {
			t := other(8)
			t[7] = ^orig[7]
			_ = append(buf[:3], t[3:]...)
		}
	default:
		fw.Bug("c07 buffers: unknown mode %s", mode)
	}
	return buf, disturb
}

func c07AADoc(k *c07Key) *document.Document {
	doc := &document.Document{}
	dg15, err := document.NewDG15(c07NewDG15(k.spki))
	if err != nil {
		fw.LibFail("dg15-rejected", "NewDG15 rejects a well-formed DG15: %v", err)
	}
	doc.Mf.Lds1.Dg15 = dg15
	return doc
}

// direct route: activeauth.(*ActiveAuth).WithChallenge
func c07BufferDirect(k *fw.K, i int) {
	r := k.RNG
	key := c07MakeKey(r, i)
	if key.n != nil && (key.n.BitLen()+7)/8 > 256 {
		key = c07MakeKey(r, 2*(i%8))
	}
	mode := c07BufModes[(i/2)%len(c07BufModes)]
	orig := randBytes(r, 8)
	if i%5 == 4 {
		orig = []byte{0xff, 0xff, 0xff, 0xff, 0xff, 0xff, 0xff, 0xff}
	}
	want := append([]byte{}, orig...)
	buf, disturb := c07Buffer(k, mode, orig)
	k.Nontrivial(fmt.Sprintf("buffer|direct|%s|%s|%x", mode, key.desc, orig))
	k.Count("challenge_buffer:direct:" + mode)

	run := func(aa *activeauth.ActiveAuth, card *chipsim.Card, want []byte, label string) (*document.ActiveAuthResult, bool) {
		res, err := aa.DoActiveAuth()
		det := map[string]any{"key": key.desc, "route": "activeauth.WithChallenge", "buffer": mode, "object": label, "supplied_challenge": fmt.Sprintf("%x", want), "buffer_now": fmt.Sprintf("%x", buf), "chip_saw": fmt.Sprintf("%x", card.AAChallenges), "err": fmt.Sprint(err)}
		if len(card.AAChallenges) != 1 || len(card.AAChallenges[0]) != 8 {
			k.Violation("aa:wire-challenge-shape", "chip did not receive exactly one 8-byte challenge", det)
			return nil, false
		}
		if !bytesEq(card.AAChallenges[0], want) {
			k.Violation("aa:supplied-challenge-not-transmitted:buffer-"+mode, fmt.Sprintf("the chip received %x, the caller supplied %x (caller's buffer %s after the hand-over)", card.AAChallenges[0], want, mode), det)
			return nil, false
		}
		if err != nil || res == nil || !res.Success {
			k.Violation("aa:live-genuine-failed", fmt.Sprintf("DoActiveAuth against the chip holding the DG15 key failed: %v", err), det)
			return nil, false
		}
		if res.Evidence == nil || !bytesEq(res.Evidence.Nonce, want) {
			k.Violation("aa:supplied-challenge-not-recorded:buffer-"+mode, fmt.Sprintf("the evidence records another nonce than the supplied challenge %x (caller's buffer %s after the hand-over)", want, mode), det)
			return nil, false
		}
		return res, true
	}
	newAA := func() (*activeauth.ActiveAuth, *chipsim.Card) {
		st := *key.aa
		st.Challenges = nil
		card := chipsim.NewCard()
		card.AA = &st
		nfc := iso7816.NewNfcSession(&funcTransceiver{f: card.Transceive})
		return activeauth.NewActiveAuth(nfc, c07AADoc(key)), card
	}
	aa, card := newAA()
	if _, err := aa.WithChallenge(buf); err != nil {
		k.Violation("aa:withchallenge-rejected", fmt.Sprintf("WithChallenge rejects an 8-byte challenge: %v", err), nil)
		return
	}
	switch mode {
	case "reused-for-second-object":
		disturb()
		want2 := append([]byte{}, buf...)
		aa2, card2 := newAA()
		if _, err := aa2.WithChallenge(buf); err != nil {
			k.Violation("aa:withchallenge-rejected", fmt.Sprintf("WithChallenge rejects an 8-byte challenge: %v", err), nil)
			return
		}
		clear(buf)
		k.AddEvals(1)
		if _, ok := run(aa2, card2, want2, "second"); !ok {
			return
		}
		if _, ok := run(aa, card, want, "first"); !ok {
			return
		}
	case "overwritten-after-run":
		res, ok := run(aa, card, want, "only")
		if !ok {
			return
		}
		disturb()
		if !bytesEq(res.Evidence.Nonce, want) {
			k.Violation("aa:supplied-challenge-not-recorded:buffer-"+mode, fmt.Sprintf("the recorded nonce follows the caller's buffer after the run (supplied %x, now %x)", want, res.Evidence.Nonce), nil)
			return
		}
	default:
		disturb()
		if bytesEq(buf, want) {
			fw.Bug("c07 buffers: mode %s left the buffer unchanged", mode)
		}
		if _, ok := run(aa, card, want, "only"); !ok {
			return
		}
	}
	// the same object authenticates again (a caller's retry after a card error, or a second
	// round): "the caller-supplied value if WithChallenge was called" holds for every
	// DoActiveAuth of that object, so the chip must see the supplied challenge again and the
	// evidence of that run must record it
	for round := 2; round <= 3; round++ {
		k.AddEvals(1)
		label := fmt.Sprintf("repeat-%d", round)
		failFirst := round == 2 && i%2 == 1
		if failFirst {
			// the card answers the next INTERNAL AUTHENTICATE with 6F00 once (transient card
			// error); the run after it is the caller's retry
			card.AA.FailNext = 1
			label += ":after-card-error"
			res, err := aa.DoActiveAuth()
			if err == nil && res != nil && res.Success {
				k.Violation("aa:accepts:card-error-6f00", "DoActiveAuth reports success although the chip answered 6F00", map[string]any{"key": key.desc})
				return
			}
		}
		seenBefore := len(card.AA.Challenges)
		res, err := aa.DoActiveAuth()
		det := map[string]any{"key": key.desc, "route": "activeauth.WithChallenge", "buffer": mode, "object": label, "supplied_challenge": fmt.Sprintf("%x", want), "chip_saw": fmt.Sprintf("%x", card.AA.Challenges), "err": fmt.Sprint(err)}
		all := card.AA.Challenges
		if len(all) != seenBefore+1 {
			k.Violation("aa:wire-challenge-shape:"+label, "a repeated DoActiveAuth did not send exactly one challenge", det)
			return
		}
		for _, c := range all {
			if !bytesEq(c, want) {
				k.Violation("aa:supplied-challenge-not-transmitted:"+label, fmt.Sprintf("the chip received %x in a later run of the same object, the caller supplied %x", c, want), det)
				return
			}
		}
		if err != nil || res == nil || !res.Success {
			k.Violation("aa:live-genuine-failed:"+label, fmt.Sprintf("a repeated DoActiveAuth against the chip holding the DG15 key failed: %v", err), det)
			return
		}
		if res.Evidence == nil || !bytesEq(res.Evidence.Nonce, want) {
			k.Violation("aa:supplied-challenge-not-recorded:"+label, fmt.Sprintf("the evidence of a later run records another nonce than the supplied challenge %x", want), det)
			return
		}
		k.Count("challenge_repeat_ok")
	}
	k.Count("challenge_buffer_ok")
}

func c07BufferPerso(k *fw.K, i int) *perso.Perso {
	r := k.RNG
	o := perso.Opts{Access: perso.BACOnly, Digest: issuer.SHA256, SODBySKI: true}
	o.PKI.CSCAKey, o.PKI.DSKey = issuer.NewECKey(r, ecref.ByName("P-256")), issuer.NewECKey(r, ecref.ByName("P-256"))
	o.PKI.CertHash = issuer.SHA256
	if i%2 == 0 {
		o.AA = perso.AAOpts{Kind: 2, Curve: []int{4, 5, 7}[(i/2)%3], DER: (i/6)%2 == 1}
	} else {
		o.AA = perso.AAOpts{Kind: 1, Bits: []int{1024, 1536, 2048}[(i/2)%3], Hash: chipsim.AAHash((i / 6) % 5)}
	}
	// the access-control arrangement in front of AA: the challenge must reach the chip whatever
	// ran before (after PACE with chip authentication mapping or after chip authentication, too)
	switch (i / 3) % 4 {
	case 1:
		o.Access, o.ParamID, o.Suite = perso.PACEGMOnly, 12, symref.AES128
	case 2:
		o.Access, o.ParamID, o.Suite = perso.PACECAM, 13, symref.AES128
	case 3:
		o.CA = perso.CAOpts{On: true, Curve: 2, Suite: symref.AES128}
	}
	return perso.Build(r, o)
}

// reader route: reader.(*Reader).WithAAChallenge, buffer changed before ReadDocument
func c07BufferReader(k *fw.K, i int) {
	r := k.RNG
	p := c07BufferPerso(k, i)
	mode := c07BufModes[i%5]
	orig := randBytes(r, 8)
	want := append([]byte{}, orig...)
	buf, disturb := c07Buffer(k, mode, orig)
	card := p.NewCard(uint64(i) + 500)
	k.Nontrivial(fmt.Sprintf("buffer|reader|%s|%+v|%x", mode, p.Opts.AA, orig))
	k.Count("challenge_buffer:reader:" + mode)
	res := liveRead(p, card, liveOpts{aaChallenge: buf, afterSetup: disturb}, nil)
	det := map[string]any{"route": "reader.WithAAChallenge", "buffer": mode, "aa": fmt.Sprintf("%+v", p.Opts.AA), "supplied_challenge": fmt.Sprintf("%x", want), "buffer_now": fmt.Sprintf("%x", buf), "chip_saw": fmt.Sprintf("%x", card.AAChallenges), "err": fmt.Sprint(res.err)}
	if res.err != nil || res.docEx == nil {
		k.Violation("aa:reader:read-failed", fmt.Sprintf("ReadDocument with a supplied AA challenge failed on a conforming chip: %v", res.err), det)
		return
	}
	ar := res.docEx.Session.ActiveAuthResult
	if len(card.AAChallenges) != 1 || ar == nil || !ar.Success || ar.Evidence == nil {
		k.Violation("aa:reader:aa-not-performed", fmt.Sprintf("the read of a chip with an AA key did not end with one successful AA run (err %v)", res.docEx.Session.ActiveAuthErr), det)
		return
	}
	if !bytesEq(card.AAChallenges[0], want) {
		k.Violation("aa:supplied-challenge-not-transmitted:reader:buffer-"+mode, fmt.Sprintf("the chip received %x, the caller supplied %x to Reader.WithAAChallenge", card.AAChallenges[0], want), det)
		return
	}
	if !bytesEq(ar.Evidence.Nonce, want) {
		k.Violation("aa:supplied-challenge-not-recorded:reader:buffer-"+mode, fmt.Sprintf("the evidence records %x, the caller supplied %x to Reader.WithAAChallenge", ar.Evidence.Nonce, want), det)
		return
	}
	k.Count("challenge_buffer_ok")
}

// mobile route: mobile.(*Reader).WithAAChallenge
func c07BufferMobile(k *fw.K, i int) {
	r := k.RNG
	p := c07BufferPerso(k, i)
	mode := c07BufModes[i%5]
	orig := randBytes(r, 8)
	want := append([]byte{}, orig...)
	buf, disturb := c07Buffer(k, mode, orig)
	card := p.NewCard(uint64(i) + 900)
	mr := mobile.NewReader(nil, &funcTransceiver{f: card.Transceive})
	pw, err := mobile.NewPasswordMrz(p.Zone)
	if err != nil {
		fw.LibFail("mobile-password-rejected", "mobile password constructor rejects valid input: %v", err)
	}
	k.Nontrivial(fmt.Sprintf("buffer|mobile|%s|%+v|%x", mode, p.Opts.AA, orig))
	k.Count("challenge_buffer:mobile:" + mode)
	if _, err := mr.WithAAChallenge(buf); err != nil {
		k.Violation("aa:withchallenge-rejected", fmt.Sprintf("mobile.Reader.WithAAChallenge rejects an 8-byte challenge: %v", err), nil)
		return
	}
	disturb()
	doc, err := mr.ReadDocument(pw, []byte{0x3B}, nil)
	det := map[string]any{"route": "mobile.Reader.WithAAChallenge", "buffer": mode, "aa": fmt.Sprintf("%+v", p.Opts.AA), "supplied_challenge": fmt.Sprintf("%x", want), "buffer_now": fmt.Sprintf("%x", buf), "chip_saw": fmt.Sprintf("%x", card.AAChallenges), "err": fmt.Sprint(err)}
	if err != nil || doc == nil {
		k.Violation("aa:mobile:read-failed", fmt.Sprintf("mobile ReadDocument with a supplied AA challenge failed on a conforming chip: %v", err), det)
		return
	}
	blob, err := doc.DocumentExCbor()
	if err != nil {
		fw.LibFail("mobile-export-failed", "DocumentExCbor: %v", err)
	}
	_, bundle, err := document.UnmarshalVerifiableDoc(blob)
	if err != nil || bundle == nil {
		fw.LibFail("mobile-export-not-importable", "UnmarshalVerifiableDoc of the mobile export: %v", err)
	}
	if len(card.AAChallenges) != 1 || bundle.ActiveAuth == nil {
		k.Violation("aa:mobile:aa-not-performed", "the mobile read of a chip with an AA key did not end with one AA run and its evidence", det)
		return
	}
	if !bytesEq(card.AAChallenges[0], want) {
		k.Violation("aa:supplied-challenge-not-transmitted:mobile:buffer-"+mode, fmt.Sprintf("the chip received %x, the caller supplied %x to mobile.Reader.WithAAChallenge", card.AAChallenges[0], want), det)
		return
	}
	if !bytesEq(bundle.ActiveAuth.Nonce, want) {
		k.Violation("aa:supplied-challenge-not-recorded:mobile:buffer-"+mode, fmt.Sprintf("the exported evidence records %x, the caller supplied %x", bundle.ActiveAuth.Nonce, want), det)
		return
	}
	k.Count("challenge_buffer_ok")
}

// offline route: the challenge handed to Verifier.WithAAChallenge is compared with the
// recorded nonce by value at hand-over time.
func c07BufferVerifier(k *fw.K, i int) {
	r := k.RNG
	key := c07MakeKey(r, i/2)
	if key.n != nil && (key.n.BitLen()+7)/8 > 256 {
		key = c07MakeKey(r, 2*(i%8))
	}
	nonce := randBytes(r, 8)
	st := *key.aa
	st.Challenges = nil
	card := chipsim.NewCard()
	card.AA = &st
	doc := c07AADoc(key)
	aa, err := activeauth.NewActiveAuth(iso7816.NewNfcSession(&funcTransceiver{f: card.Transceive}), doc).WithChallenge(nonce)
	if err != nil {
		k.Violation("aa:withchallenge-rejected", fmt.Sprintf("WithChallenge rejects an 8-byte challenge: %v", err), nil)
		return
	}
	res, err := aa.DoActiveAuth()
	if err != nil || res == nil || !res.Success || res.Evidence == nil {
		k.Violation("aa:live-genuine-failed", fmt.Sprintf("DoActiveAuth against the chip holding the DG15 key failed: %v", err), map[string]any{"key": key.desc})
		return
	}
	dx := &document.DocumentEx{Document: *doc}
	dx.Session.ActiveAuthResult = res
	blob, err := dx.ToCbor()
	if err != nil {
		fw.LibFail("export-failed", "ToCbor of a document with AA evidence: %v", err)
	}
	recorded := append([]byte{}, res.Evidence.Nonce...)
	differing := append([]byte{}, recorded...)
	differing[r.IntN(8)] ^= 1 << uint(r.IntN(8))
	useMobile := (i/2)%4 == 3
	mode := []string{"zeroed", "overwritten", "backing-array-refilled"}[(i/2)%3]
	// i even: supplied = recorded nonce, buffer then changed -> no hard failure
	// i odd:  supplied differs, buffer then set to the recorded nonce -> hard failure
	supplied := recorded
	if i%2 == 1 {
		supplied = differing
	}
	backing := make([]byte, 16)
	buf := backing[:8]
	copy(buf, supplied)
	after := func() {
		switch {
		case i%2 == 1:
			copy(backing, append(append([]byte{}, recorded...), recorded...))
		case mode == "zeroed":
			clear(buf)
		case mode == "overwritten":
			copy(buf, differing)
		default:
			copy(backing, append(append([]byte{}, differing...), differing...))
		}
	}
	route := "verifier.Verifier"
	var verr error
	if useMobile {
		route = "mobile.Verifier"
		v := mobile.NewVerifier()
		if _, err := v.WithAAChallenge(buf); err != nil {
			k.Violation("aa:offline:withchallenge-rejected", fmt.Sprintf("mobile.Verifier.WithAAChallenge rejects an 8-byte challenge: %v", err), nil)
			return
		}
		after()
		_, verr = v.Verify(blob)
	} else {
		v := verifier.NewVerifier(&cms.GenericCertPool{})
		if _, err := v.WithAAChallenge(buf); err != nil {
			k.Violation("aa:offline:withchallenge-rejected", fmt.Sprintf("Verifier.WithAAChallenge rejects an 8-byte challenge: %v", err), nil)
			return
		}
		after()
		_, verr = v.Verify(blob)
	}
	k.Nontrivial(fmt.Sprintf("buffer|%s|%d|%s|%x", route, i%2, key.desc, nonce))
	k.Count("challenge_buffer:" + route)
	det := map[string]any{"route": route, "key": key.desc, "recorded_nonce": fmt.Sprintf("%x", recorded), "supplied_challenge": fmt.Sprintf("%x", supplied), "buffer_at_verify": fmt.Sprintf("%x", buf), "err": fmt.Sprint(verr)}
	if i%2 == 1 && verr == nil {
		k.Violation("aa:offline:nonce-mismatch-not-a-hard-failure:buffer-changed-after-hand-over", "offline verification with a supplied challenge that differs from the recorded nonce does not fail (the caller's buffer held the recorded nonce by the time of Verify)", det)
		return
	}
	if i%2 == 0 && verr != nil {
		k.Violation("aa:offline:hard-failure-without-mismatch:buffer-changed-after-hand-over", fmt.Sprintf("offline verification fails hard although the supplied challenge equals the recorded nonce (the caller's buffer was %s after the hand-over): %v", mode, verr), det)
		return
	}
	k.Count("challenge_buffer_ok")
}
